import SSVerif.Generated.LatticeWidths
/-!
# C11 — the integers that carry grammar states and frame numbers through the lattice code are wide enough

The lattice model (`Model/Lattice`) keeps grammar states, frames and word ids as unbounded naturals: a lattice
node is identified by `(word, start frame, grammar state)`.  The C code stores them in integer fields and passes
them through integer parameters (`latnode_t.node_id`, `find_node(.., node_id)`, `new_node(.., node_id, ..)`, `sf`,
`fef`, `lef`, `latlink_t.ef`, …).  `Generated/LatticeWidths.lean` is regenerated on every run from the current
sources (compiled `sizeof`/signedness of the fields, clang AST of `fsg_search.c` for the parameters); the theorem
below says that each of these carriers holds every value of the quantity it carries unchanged — every state
number an FSG can have (`fsg_model_t.n_state`), every frame count of a search (`fsg_search_t.frame`), the marker
`-1` — so the model's identification of nodes by the full state number is what the code computes.  A narrowed
field or parameter (states congruent modulo 2^16 identified) makes the `decide` fail.
-/
namespace SSVerif.Lattice
open SSVerif.Generated.LatticeWidths

/-- C conversion of an integer to a signed two's-complement type of `bits` bits -/
def cconvS (bits : Nat) (x : Int) : Int :=
  (x + ((2 ^ (bits - 1) : Nat) : Int)) % ((2 ^ bits : Nat) : Int) - ((2 ^ (bits - 1) : Nat) : Int)

/-- width and signedness of a field / parameter in the current sources -/
def widthOf (name : String) : Option (Nat × Bool) := (widths.find? (·.1 = name)).map (·.2)

/-- carriers of a grammar state number (reference: `fsg_model_t.n_state`) -/
def stateCarriers : List String :=
  ["fsg_model_t.start_state", "fsg_model_t.final_state", "fsg_link_t.from_state", "fsg_link_t.to_state",
   "latnode_t.node_id", "find_node(node_id)", "new_node(node_id)"]

/-- carriers of a frame number (reference: `fsg_search_t.frame`) -/
def frameCarriers : List String :=
  ["fsg_hist_entry_t.frame", "lattice_t.n_frames", "latnode_t.sf", "latnode_t.fef", "latnode_t.lef", "latlink_t.ef",
   "astar_search_t.sf", "astar_search_t.ef", "find_node(sf)", "new_node(sf)", "new_node(ef)"]

/-- carriers of a word id of the FSG (reference: `fsg_link_t.wid`) -/
def wordCarriers : List String := ["latnode_t.wid", "latnode_t.basewid", "find_node(wid)", "new_node(wid)"]

/-- carriers of a score (reference: `fsg_hist_entry_t.score`) -/
def scoreCarriers : List String := ["latlink_t.ascr", "new_node(ascr)"]

/-- the reference is a signed type and every carrier is a signed type at least as wide -/
def carriersOK (ref : String) (cs : List String) : Bool :=
  match widthOf ref with
  | some (rb, true) => decide (1 ≤ rb) && cs.all fun c =>
      match widthOf c with
      | some (b, true) => decide (rb ≤ b)
      | _ => false
  | _ => false

theorem cconvS_id (b rb : Nat) (h1 : 1 ≤ rb) (h2 : rb ≤ b) (q : Int)
    (lo : -((2 ^ (rb - 1) : Nat) : Int) ≤ q) (hi : q < ((2 ^ (rb - 1) : Nat) : Int)) : cconvS b q = q := by
  unfold cconvS
  have hle : 2 ^ (rb - 1) ≤ 2 ^ (b - 1) := Nat.pow_le_pow_right (by decide) (by omega)
  have hb : 2 ^ b = 2 * 2 ^ (b - 1) := by
    have : b = (b - 1) + 1 := by omega
    rw [this, Nat.pow_succ]; simp; omega
  rw [hb]
  generalize 2 ^ (b - 1) = P at *
  generalize 2 ^ (rb - 1) = R at *
  have : (q + (P : Int)) % ((2 * P : Nat) : Int) = q + P := by
    apply Int.emod_eq_of_lt <;> omega
  rw [this]; omega

theorem carriersOK_sound {ref : String} {cs : List String} (h : carriersOK ref cs = true) :
    ∃ rb, widthOf ref = some (rb, true) ∧ ∀ c ∈ cs, ∃ b, widthOf c = some (b, true) ∧
      ∀ q : Int, -((2 ^ (rb - 1) : Nat) : Int) ≤ q → q < ((2 ^ (rb - 1) : Nat) : Int) → cconvS b q = q := by
  unfold carriersOK at h
  cases hr : widthOf ref with
  | none => rw [hr] at h; cases h
  | some p =>
    obtain ⟨rb, sg⟩ := p
    cases sg with
    | false => rw [hr] at h; cases h
    | true =>
      rw [hr] at h
      simp only [Bool.and_eq_true, decide_eq_true_eq, List.all_eq_true] at h
      refine ⟨rb, rfl, fun c hc => ?_⟩
      have hcs := h.2 c hc
      cases hw : widthOf c with
      | none => rw [hw] at hcs; cases hcs
      | some p2 =>
        obtain ⟨b, sg2⟩ := p2
        cases sg2 with
        | false => rw [hw] at hcs; cases hcs
        | true =>
          rw [hw] at hcs
          exact ⟨b, rfl, fun q lo hi => cconvS_id b rb h.1 (by simpa using hcs) q lo hi⟩

/-- **C11, integer widths of the lattice code (tie to the current sources).** Every field and parameter through
which `fsg_search_lattice`, `find_node`, `new_node` and the lattice structures carry a grammar state number holds
every value of `fsg_model_t.n_state`'s type unchanged (in particular every state number of an FSG, and the marker
`-1` of the synthetic nodes); likewise frame numbers (every value of `fsg_search_t.frame`), FSG word ids and
scores.  So two history entries lead to the same lattice node exactly when word, start frame and the *full* grammar
state agree, as in the model.  The widths are regenerated from the current sources on every run. -/
theorem C11_lattice_integer_widths :
    (∃ rb, widthOf "fsg_model_t.n_state" = some (rb, true) ∧ ∀ c ∈ stateCarriers, ∃ b, widthOf c = some (b, true) ∧
      ∀ q : Int, -((2 ^ (rb - 1) : Nat) : Int) ≤ q → q < ((2 ^ (rb - 1) : Nat) : Int) → cconvS b q = q) ∧
    (∃ rb, widthOf "fsg_search_t.frame" = some (rb, true) ∧ ∀ c ∈ frameCarriers, ∃ b, widthOf c = some (b, true) ∧
      ∀ q : Int, -((2 ^ (rb - 1) : Nat) : Int) ≤ q → q < ((2 ^ (rb - 1) : Nat) : Int) → cconvS b q = q) ∧
    (∃ rb, widthOf "fsg_link_t.wid" = some (rb, true) ∧ ∀ c ∈ wordCarriers, ∃ b, widthOf c = some (b, true) ∧
      ∀ q : Int, -((2 ^ (rb - 1) : Nat) : Int) ≤ q → q < ((2 ^ (rb - 1) : Nat) : Int) → cconvS b q = q) ∧
    (∃ rb, widthOf "fsg_hist_entry_t.score" = some (rb, true) ∧ ∀ c ∈ scoreCarriers, ∃ b, widthOf c = some (b, true) ∧
      ∀ q : Int, -((2 ^ (rb - 1) : Nat) : Int) ≤ q → q < ((2 ^ (rb - 1) : Nat) : Int) → cconvS b q = q) :=
  ⟨carriersOK_sound (by decide), carriersOK_sound (by decide), carriersOK_sound (by decide), carriersOK_sound (by decide)⟩

/-! ### non-vacuity: what a narrowed carrier does -/

-- a 16-bit `node_id` identifies the grammar states 3 and 65539, a 32-bit one does not
example : cconvS 16 65539 = 3 ∧ cconvS 32 65539 = 65539 ∧ cconvS 16 40000 = -25536 ∧ cconvS 32 (-1) = -1 := by decide
-- the state carriers are listed with their widths in the generated table
example : stateCarriers.all (fun c => (widthOf c).isSome) = true := by decide

end SSVerif.Lattice
