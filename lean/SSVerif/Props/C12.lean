import SSVerif.Props.C11
import SSVerif.Proofs.LatticeBest
import SSVerif.Proofs.LatticeAstar
import SSVerif.Proofs.LatticeSemiring
import SSVerif.Proofs.LatticeInt
import SSVerif.Proofs.LatticeIntUpper
import SSVerif.Proofs.LogTablesChecked
import SSVerif.Proofs.LogAdd
import SSVerif.Model.LogConfigs
/-!
# C12 — N-best lists and lattice scores are ordered and probabilistically sane

Property theorems only, over the model M12 (`SSVerif/Model/Lattice.lean`) of `src/ps_lattice.c`:
`traverseEdges` (`lattice_traverse_edges/_next`), `bestpath` (`lattice_bestpath`, max part),
`remTable`/`nbest` (`best_rem_score`, `path_insert`, `path_extend`, `astar_next`,
`astar_search_start`), exact forward/backward weights (`alphaLink`, `betaLink`, `forwardTotal`,
`backwardTotal`: what `lattice_bestpath`/`lattice_posterior` compute in the log domain, here without
rounding, weights being natural numbers = numerators over a common denominator).

All theorems hold for every lattice satisfying the C11 predicate `LatticeOK` (every lattice the
decoder can produce, by the C11 check), every `k` and every fuel.

The *integer* forward/backward passes (`alphaInt`, `betaInt`, `normInt`: `logmath_add` with its table
rounding, the float32-scaled link scores supplied per link) are modelled and compared exactly with
the C values on every dumped lattice.  For them `C12_int_bestpath_posterior_le_one` proves that the
posterior of the best path — of any start→end path — is at most one *exactly*, for every log-add that
never returns less than its larger argument (`logmath_add` with the decoder's table:
`C12_int_bestpath_posterior_dec`).

`C12_int_link_posterior_le` (instance `C12_int_link_posterior_dec`) bounds every integer link posterior
from above: `alpha + beta − norm ≤ t[0] · (number of log-additions)`, an explicit function of the lattice
(`|links| + Σ_links outdegree(target)` additions, `t[0] = 6932` for the decoder's table) — "posteriors lie
between zero and one up to the log-add rounding bound" as a theorem in max-plus sandwich form, from
`C19_logAdd_bounds` alone.

**Partial:** the sharper accumulated bound (half a unit plus ε per addition, from the *accuracy* of the
table, `C19_logAdd_is_rounded_log_of_sum`) is not proved; the check measures the deviation of alpha, beta
and norm from a float64 reference against that sharper estimate as well as against the proved bound.
-/
namespace SSVerif.Lattice
open SSVerif.Nfa

variable {G : Nfa} {L : Lat}

/-- **C12, traversal.** `lattice_traverse_edges` hands out every link exactly once (the sequence is
a permutation of the link list), and every link only after all links into its source node. -/
theorem C12_traverse_topological (ok : LatticeOK G L) :
    (traverseEdges L).Perm L.links ∧
    ∀ pre l post, traverseEdges L = pre ++ l :: post → ∀ l' ∈ L.links, l'.dst = l.src → l' ∈ pre :=
  traverse_topological (DagOK.of_latticeOK ok)

/-- **C12, best path.** The link returned by `lattice_bestpath` enters the end node and is the last
link of a start→end path whose score (sum of link scores) is the returned `path_scr`, and no
start→end path has a higher score.  `none` (NULL) is returned only when the lattice has no non-empty
start→end path (the one-node lattice). -/
theorem C12_bestpath_is_max (ok : LatticeOK G L) :
    match bestpath L with
    | some (x, s, _) =>
      x ∈ L.links ∧ x.dst = L.final ∧
      (∃ p, Path L L.start p L.final ∧ p.getLast? = some x ∧ score p = s) ∧
      (∀ p, Path L L.start p L.final → p ≠ [] → score p ≤ s)
    | none => ∀ p, Path L L.start p L.final → p = [] :=
  bestpath_is_max (DagOK.of_latticeOK ok)

theorem node_sf_le_all (ok : LatticeOK G L) (v : Nat) : (L.node v).sf ≤ L.nframes := by
  by_cases hv : v < L.n
  · exact node_sf_le ok hv
  · have : L.node v = default := by
      unfold Lat.node Lat.n at *
      rw [List.getD_eq_getElem?_getD, List.getElem?_eq_none (by omega)]; rfl
    rw [this]
    exact Nat.zero_le _

theorem complete_final (ok : LatticeOK G L) {p : APath} (h : complete L p = true) : p.node = L.final := by
  unfold complete at h
  have := node_sf_le_all ok p.node
  simp only [Bool.or_eq_true, decide_eq_true_eq, Bool.and_eq_true, beq_iff_eq] at h
  rcases h with h | h
  · omega
  · exact h.1

theorem remTable_ok' (ok : LatticeOK G L) : RemOK L (remTable L) ∧ remTable L L.final = 0 :=
  remTable_ok (rank := L.rank) (fun _ hl => rank_lt ok hl)
    (fun l hl => by have := rank_le ok (ok.endpoints.2.2 l hl).1; omega)
    (fun l hl => (ok.endpoints.2.2 l hl).1) (fun l hl => (ok.startEnd.1 l hl).2) ok.endpoints.2.1

/-- **C12, N-best order.** The scores of the successive results of the A* search are non-increasing
(for every number of results and every fuel; the agenda bound `MAX_PATHS` with its truncation is part
of the model). -/
theorem C12_astar_nonincreasing (ok : LatticeOK G L) (k fuel : Nat) :
    ((nbest L k fuel).map (·.score)).Pairwise (· ≥ ·) := by
  obtain ⟨hrem, hfin⟩ := remTable_ok' ok
  have hstart := astarStart_spec (remTable L) maxPaths (fun _ => True)
    ((List.range L.n).filter fun v => (L.node v).sf = 0) [] (by simp [Sorted]) (by simp) (by simp)
  -- a bound for the initial agenda
  let ag := astarStart L (remTable L) maxPaths
  let B : Int := (ag.map (total (remTable L))).foldl max 0
  have hB : Bounded (remTable L) B ag := by
    intro p hp
    have : ∀ (xs : List Int) (b : Int), (b ≤ xs.foldl max b) ∧ ∀ x ∈ xs, x ≤ xs.foldl max b := by
      intro xs
      induction xs with
      | nil => intro b; exact ⟨Int.le_refl _, fun x hx => by cases hx⟩
      | cons y ys ih =>
        intro b
        simp only [List.foldl_cons]
        obtain ⟨h1, h2⟩ := ih (max b y)
        refine ⟨by omega, fun x hx => ?_⟩
        rcases List.mem_cons.1 hx with rfl | hx
        · omega
        · exact h2 x hx
    exact (this _ 0).2 _ (List.mem_map.2 ⟨p, hp, rfl⟩)
  obtain ⟨h1, h2⟩ := nbestGo_spec (remTable L) hrem maxPaths fuel (fun _ => True) (fun _ _ _ _ _ => trivial)
    k ag B hstart.1 hB (fun _ _ => trivial)
  rw [List.pairwise_map]
  show (nbestGo L (remTable L) maxPaths fuel k ag).Pairwise _
  refine List.Pairwise.imp_of_mem ?_ h2
  intro a b ha hb hab
  have ea : total (remTable L) a = a.score := by
    unfold total; rw [complete_final ok (h1 a ha).2.2, hfin]; omega
  have eb : total (remTable L) b = b.score := by
    unfold total; rw [complete_final ok (h1 b hb).2.2, hfin]; omega
  show a.score ≥ b.score
  omega

/-- a node starting at frame 0 is the start node or a successor of the synthetic start -/
theorem seed_is_start (ok : LatticeOK G L) {u : Nat} (hu : u < L.n) (hsf : (L.node u).sf = 0) :
    u = L.start ∨ ∃ l0 ∈ L.links, l0.src = L.start ∧ l0.dst = u := by
  by_cases hus : u = L.start
  · exact Or.inl hus
  · right
    cases hr : (L.node L.start).real with
    | true => exact absurd hsf ((ok.markerLinks.1 hr).2 u hu hus)
    | false =>
      cases hur : (L.node u).real with
      | true => exact ok.markerLinks.2.1 hr u hu ⟨hur, hsf⟩
      | false =>
        exfalso
        have hfin : u = L.final := (ok.markers u hu hur).resolve_left hus
        have h0 : L.nframes = 0 := by
          have := ((ok.nodeTimes u hu).2 hur).2.1 hus
          omega
        obtain ⟨l, hl, hd⟩ := ok.startEnd.2.1 u hu hus
        have ht := ok.linkTimes l hl
        have hep := ok.endpoints.2.2 l hl
        cases hsr : (L.node l.src).real with
        | true => have := (ok.nodeTimes l.src hep.1).1 hsr; omega
        | false =>
          have := (ht.2.2 hsr).2.2.1
          rw [hd, hur] at this; cases this

/-- **C12, N-best entries are lattice sentences.** Every result of the A* search is a path of the
lattice: its node sequence (oldest first) is the node sequence of a link list `ls` leading to the end
node, its score is the sum of those link scores, and — prefixed by the link out of the synthetic start
when the path does not begin at the start node — it is a start→end path, so by C11 its word sequence
is a sentence of the lattice (and of the grammar). -/
theorem C12_astar_paths_are_lattice_sentences (ok : LatticeOK G L) (k fuel : Nat) :
    ∀ p ∈ nbest L k fuel, ∃ u ls, Path L u ls L.final ∧ p.nodes.reverse = nodesOf u ls ∧ score ls = p.score ∧
      (Path L L.start ls L.final ∨ ∃ l0 ∈ L.links, Path L L.start (l0 :: ls) L.final) := by
  obtain ⟨hrem, _⟩ := remTable_ok' ok
  have hstart := astarStart_spec (remTable L) maxPaths (Valid L)
    ((List.range L.n).filter fun v => (L.node v).sf = 0) [] (by simp [Sorted]) (by simp)
    (by
      intro v hv
      simp only [List.mem_filter, List.mem_range, decide_eq_true_eq] at hv
      exact valid_seed hv.1 hv.2)
  let ag := astarStart L (remTable L) maxPaths
  -- any bound will do for this statement: use the weakest invariant
  have key : ∀ (kk : Nat) (ag : List APath), (∀ a ∈ ag, Valid L a) →
      ∀ p ∈ nbestGo L (remTable L) maxPaths fuel kk ag, Valid L p ∧ complete L p = true := by
    intro kk
    induction kk with
    | zero => intro ag _ p hp; simp [nbestGo] at hp
    | succ kk ih =>
      intro ag hq p hp
      simp only [nbestGo] at hp
      cases hn : astarNext L (remTable L) maxPaths fuel ag with
      | none => rw [hn] at hp; cases hp
      | some pa =>
        obtain ⟨q, ag'⟩ := pa
        rw [hn] at hp
        -- the generic invariant of astarNext with a trivial order part
        have : ∀ (f : Nat) (ag : List APath), (∀ a ∈ ag, Valid L a) → ∀ q ag',
            astarNext L (remTable L) maxPaths f ag = some (q, ag') →
            (∀ a ∈ ag', Valid L a) ∧ Valid L q ∧ complete L q = true := by
          intro f
          induction f with
          | zero => intro ag _ q ag' h; simp [astarNext] at h
          | succ f ihf =>
            intro ag hq q ag' h
            cases ag with
            | nil => simp [astarNext] at h
            | cons top rest =>
              simp only [astarNext] at h
              have hrest : ∀ a ∈ rest, Valid L a := fun a ha => hq a (List.mem_cons_of_mem _ ha)
              have htop : Valid L top := hq top List.mem_cons_self
              split at h
              · rename_i hc; cases h; exact ⟨hrest, htop, hc⟩
              · split at h
                · rw [pathExtend_eq] at h
                  exact ihf _ (extend_all _ _ top (Valid L) _ _ hrest (fun x hx _ => valid_child htop hx)) q ag' h
                · exact ihf _ hrest q ag' h
        obtain ⟨r1, r2, r3⟩ := this fuel ag hq q ag' hn
        rcases List.mem_cons.1 hp with rfl | hp
        · exact ⟨r2, r3⟩
        · exact ih ag' r1 p hp
  intro p hp
  obtain ⟨⟨u, ls, hpath, hnodes, hscore, hsf, hu⟩, hc⟩ := key k ag hstart.2 p hp
  rw [complete_final ok hc] at hpath
  refine ⟨u, ls, hpath, hnodes, hscore, ?_⟩
  rcases seed_is_start ok hu hsf with rfl | ⟨l0, hl0, hs0, hd0⟩
  · exact Or.inl hpath
  · exact Or.inr ⟨l0, hl0, .cons hl0 hs0 (hd0 ▸ hpath)⟩

/-- **C12, the first N-best entry is a maximum over the A\* seed set.** When no remaining score
underflows `WORST_SCORE` (`hnu`; the driver evaluates it per lattice), the first result of the A\*
search has a score at least that of every path of the lattice from a node starting at frame 0 (the
seed set of `astar_search_start(dag, 0, …)`: the start node and, under a synthetic start, its
successors) to the end node — whatever the agenda bound did to other entries.  (This is *not* the
best-path score of `lattice_bestpath` when the start is synthetic: seeded at a successor, the path
omits the link out of `<s>`.) -/
theorem C12_astar_first_is_max (ok : LatticeOK G L) (hnu : ∀ v, v < L.n → remTable L v > worstScore)
    (k fuel : Nat) (p1 : APath) (rest : List APath) (h : nbest L (k + 1) fuel = p1 :: rest) :
    ∀ u ls, u < L.n → (L.node u).sf = 0 → Path L u ls L.final → score ls ≤ p1.score := by
  intro u ls hu hsf hp
  obtain ⟨hcons, hfin, hatt⟩ := remTable_exact (rank := L.rank) (fun _ hl => rank_lt ok hl)
    (fun l hl => by have := rank_le ok (ok.endpoints.2.2 l hl).1; omega)
    (fun l hl => (ok.endpoints.2.2 l hl).1) (fun l hl => (ok.startEnd.1 l hl).2) ok.endpoints.2.1 hnu
  have hdst : ∀ l ∈ L.links, l.dst < L.n := fun l hl => (ok.endpoints.2.2 l hl).2
  have hatt' : RemAttained L (remTable L) := by
    intro v hv hvf
    obtain ⟨x, hx, he⟩ := hatt v hv hvf
    exact ⟨x, hx, hnu _ (hdst x (mem_exits.1 hx).1), he⟩
  have hT : score ls ≤ total (remTable L) { nodes := [u], score := 0 } := by
    have := score_le_rem (remTable L) hcons hfin hp
    simp only [total, APath.node, List.headD_cons]; omega
  -- the initial agenda
  have hseeds : ∀ v ∈ (List.range L.n).filter (fun v => (L.node v).sf = 0), v < L.n := by
    intro v hv
    simp only [List.mem_filter, List.mem_range] at hv
    exact hv.1
  have hstart := astarStart_spec (remTable L) maxPaths (fun a => a.node < L.n)
    ((List.range L.n).filter fun v => (L.node v).sf = 0) [] (by simp [Sorted]) (by simp)
    (fun v hv => by simp only [APath.node, List.headD_cons]; exact hseeds v hv)
  have hwit : Wit (remTable L) (score ls) (astarStart L (remTable L) maxPaths) := by
    have hmp : maxPaths = (maxPaths - 1) + 1 := by decide
    unfold astarStart
    rw [hmp]
    apply astarStart_wit (remTable L) (maxPaths - 1) (score ls) _ [] (by simp [Sorted])
    refine Or.inr ⟨u, ?_, hT⟩
    simp only [List.mem_filter, List.mem_range, decide_eq_true_eq]
    exact ⟨hu, hsf⟩
  rw [nbest_eq] at h
  simp only [nbestGo] at h
  cases hn : astarNext L (remTable L) maxPaths fuel (astarStart L (remTable L) maxPaths) with
  | none => rw [hn] at h; cases h
  | some pa =>
    obtain ⟨q, ag'⟩ := pa
    rw [hn] at h
    simp only [List.cons.injEq] at h
    obtain ⟨rfl, _⟩ := h
    have hmp : maxPaths = (maxPaths - 1) + 1 := by decide
    have hcompl : ∀ p : APath, p.node < L.n → complete L p = false → p.node ≠ L.final := by
      intro p _ hc hpf
      unfold complete at hc
      have := node_sf_le_all ok L.final
      simp only [Bool.or_eq_false_iff, decide_eq_false_iff_not, Bool.and_eq_false_iff, beq_eq_false_iff_ne] at hc
      rcases hc.2 with h | h
      · exact h hpf
      · omega
    have hfef : ∀ v, v < L.n → (L.node v).fef < L.nframes + 1 := by
      intro v hv
      have hsfv := node_sf_le ok hv
      cases hr : (L.node v).real with
      | true => have := (ok.nodeTimes v hv).1 hr; omega
      | false => have := ((ok.nodeTimes v hv).2 hr).2.2.1; omega
    rw [hmp] at hn
    have hfirst := astarNext_first (remTable L) hatt' (maxPaths - 1) (score ls) hcompl hfef hdst fuel _
      hstart.1 hwit hstart.2 q ag' hn
    -- the first result is complete: its total is its score
    have hq : complete L q = true := astarNext_complete (remTable L) _ fuel _ q ag' hn
    unfold total at hfirst
    rw [complete_final ok hq, hfin] at hfirst
    omega

/-- **C12, exact forward/backward.** For every assignment of non-negative weights to the links:
the sum of the path weights over all (duplicate-free enumerated) start→end paths equals the backward
total, the forward total equals the backward total, for every link `alpha · beta ≤ total` (link
posterior in `[0,1]`), and the weight of every start→end path — in particular of the best path — is at
most the total (path posterior at most one).  (`[start = end]` accounts for the one-node lattice whose
only path is the empty one while both totals, sums over links, are zero.) -/
theorem C12_exact_forward_backward (ok : LatticeOK G L) (w : Link → Nat) :
    (pathsFrom L (L.nframes + 3) L.start).Nodup ∧
    (∀ p, p ∈ pathsFrom L (L.nframes + 3) L.start ↔ Path L L.start p L.final) ∧
    S (pathsFrom L (L.nframes + 3) L.start) (pathWeight w) = (if L.start = L.final then 1 else 0) + backwardTotal L w ∧
    forwardTotal L w = backwardTotal L w ∧
    (∀ l ∈ L.links, alphaLink L w l * betaLink L w l ≤ backwardTotal L w) ∧
    (∀ p, Path L L.start p L.final → pathWeight w p ≤ (if L.start = L.final then 1 else 0) + backwardTotal L w) := by
  have dag := DagOK.of_latticeOK ok
  have hrank : ∀ l ∈ L.links, L.rank l.src < L.rank l.dst := fun _ hl => rank_lt ok hl
  have hM : ∀ l ∈ L.links, L.rank l.dst ≤ L.nframes + 1 := fun l hl => rank_le ok (ok.endpoints.2.2 l hl).2
  have hsrc : ∀ l ∈ L.links, l.src < L.n := fun l hl => (ok.endpoints.2.2 l hl).1
  have hdst : ∀ l ∈ L.links, l.dst < L.n := fun l hl => (ok.endpoints.2.2 l hl).2
  have hmem : ∀ p, p ∈ pathsFrom L (L.nframes + 3) L.start ↔ Path L L.start p L.final := by
    intro p
    rw [mem_pathsFrom]
    constructor
    · exact fun h => h.1
    · intro h
      exact ⟨h, by have := path_length_le ok h ok.endpoints.1; omega⟩
  obtain ⟨h1, h2⟩ := path_sum_eq_totals (w := w) hrank hM hsrc hdst ok.endpoints.1 ok.endpoints.2.1
  refine ⟨nodup_pathsFrom dag.nodup _ _, hmem, h1, h2, ?_, ?_⟩
  · intro l hl
    rw [backwardTotal_eq]
    exact link_flow_le L.rank (model_fwdBwd hrank hM) hrank hsrc hdst ok.endpoints.1 ok.endpoints.2.1 hl
  · intro p hp
    rw [← h1]
    exact S_le_of_mem ((hmem p).2 hp) (pathWeight w)

/-- **C12, integer pass: path posterior at most one, exactly.** `P.ladd` is any log-add that returns at
least the larger of two non-zero arguments, `P.lz ≤ 0` its log-zero, `P.sc` any scaled link scores such
that no path score falls below log-zero (no underflow).  Then after the forward pass of
`lattice_bestpath` the normaliser (`dag->norm`, the log-sum in any order `ents` of the alphas of the
links entering the end node) is at least the joint score (`lattice_joint`) of *every* non-empty
start→end path: `lattice_posterior`'s result `joint − norm` is `≤ 0` whatever chain of `best_prev` it
follows and whatever the rounding of the table. -/
theorem C12_int_bestpath_posterior_le_one (ok : LatticeOK G L) (P : IntParams) (hlz : P.lz ≤ 0)
    (hge : ∀ x y, P.lz ≤ x → P.lz ≤ y → max x y ≤ P.ladd x y)
    (hnu : ∀ p v, Path L L.start p v → P.lz ≤ jointInt P p)
    (ents : List Link) (hents : ∀ x, x ∈ ents ↔ x ∈ L.links ∧ x.dst = L.final) :
    ∀ p, Path L L.start p L.final → p ≠ [] → jointInt P p - normInt P (alphaInt P L) ents ≤ 0 := by
  intro p hp hne
  have dag := DagOK.of_latticeOK ok
  obtain ⟨h1, h2⟩ := alphaInt_ge dag hlz hge (fun q x hw => hnu q x.dst hw.path.1)
  obtain ⟨x, hw, hd⟩ := Walk.of_path hp hne
  have hx : x ∈ ents := (hents x).2 ⟨hw.mem, hd⟩
  have := (normInt_ge hge (alphaInt P L) ents P.lz (Int.le_refl _) (fun y hy => h2 y ((hents y).1 hy).1)).2 x hx
  have := h1 p x hw
  unfold normInt
  omega

/-- the same for `logmath_add` with the table the decoder's `logmath_init` produced (base 1.0001,
shift 0; regenerated from the running code on every run) -/
theorem C12_int_bestpath_posterior_dec (ok : LatticeOK G L) (sc : Link → Int)
    (hnu : ∀ p v, Path L L.start p v → SSVerif.LogAdd.cfgDec.lm.zero ≤ (p.map sc).sum)
    (ents : List Link) (hents : ∀ x, x ∈ ents ↔ x ∈ L.links ∧ x.dst = L.final) :
    let P : IntParams := { ladd := SSVerif.LogAdd.logAdd SSVerif.LogAdd.cfgDec.lm, lz := SSVerif.LogAdd.cfgDec.lm.zero, sc := sc }
    ∀ p, Path L L.start p L.final → p ≠ [] → jointInt P p - normInt P (alphaInt P L) ents ≤ 0 := by
  intro P
  exact C12_int_bestpath_posterior_le_one ok P (show SSVerif.LogAdd.cfgDec.lm.zero ≤ 0 by decide)
    (fun x y hx hy => SSVerif.LogAdd.max_le_logAdd SSVerif.LogAdd.cfgDec.lm hx hy) hnu ents hents

/-- **C12, integer pass: link posteriors are at most one up to the accumulated log-add bound.**
`P.ladd` is any log-add with `max x y ≤ ladd x y` (on non-zero arguments) and `ladd x y ≤ max x y + c`
(`logmath_add`: `c = t[0]`, the rounded `log_B 2`, `C19_logAdd_bounds`), no path score underflows
log-zero.  Then for every link the integer log posterior `alpha + beta − norm` that `ps_latlink_prob`
returns exceeds 0 (probability one) by at most `c` times the number of log-additions the two passes
perform on the way: one per link for the forward pass (each link is log-added into at most once per
visited predecessor) plus `addsB`, the number of log-additions of the backward pass
(`Σ_links outdegree(target)`; at most `|links|²`).  (In max-plus form: this bound needs only the
`max`/`max + t[0]` sandwich of the table, not its accuracy; the sharper bound with half a unit per
addition is what the check measures numerically.) -/
theorem C12_int_link_posterior_le (ok : LatticeOK G L) (P : IntParams) {c : Int} (hc : 0 ≤ c) (hlz : P.lz ≤ 0)
    (hge : ∀ x y, P.lz ≤ x → P.lz ≤ y → max x y ≤ P.ladd x y)
    (hub : ∀ x y, P.ladd x y ≤ max x y + c)
    (hnu : ∀ p v, Path L L.start p v → P.lz ≤ jointInt P p)
    (hnuB : ∀ v q, Path L v q L.final → P.lz ≤ jointInt P q)
    (ents : List Link) (hents : ∀ x, x ∈ ents ↔ x ∈ L.links ∧ x.dst = L.final) :
    ∀ l ∈ L.links, alphaInt P L l + betaInt P L l - normInt P (alphaInt P L) ents
      ≤ c * (L.links.length + addsB L (traverseEdges L) : Nat) ∧
      addsB L (traverseEdges L) ≤ L.links.length * L.links.length := by
  intro l hl
  have dag := DagOK.of_latticeOK ok
  obtain ⟨p, hp, hpa⟩ := alphaInt_le dag hc hlz hge hub (fun q x hw => hnu q x.dst hw.path.1) l hl
  obtain ⟨q, hq, hqb⟩ := betaInt_le dag hc hub hnuB l hl
  have hfull : Path L L.start (p ++ q) L.final := hp.path.1.append hq
  have hne : p ++ q ≠ [] := by
    intro h
    have : p = [] := (List.append_eq_nil_iff.1 h).1
    have h2 := hp.path.2
    rw [this] at h2
    simp at h2
  have hj : jointInt P (p ++ q) = jointInt P p + jointInt P q := by simp [jointInt, List.sum_append]
  have h0 := C12_int_bestpath_posterior_le_one ok P hlz hge hnu ents hents (p ++ q) hfull hne
  constructor
  · have : c * ((L.links.length + addsB L (traverseEdges L) : Nat) : Int)
        = c * (L.links.length : Int) + c * (addsB L (traverseEdges L) : Int) := by
      simp only [Int.natCast_add, Int.mul_add]
    rw [this]; omega
  · -- every out-degree is at most the number of links
    have hperm := (traverse_topological dag).1
    have : ∀ (xs : List Link), addsB L xs ≤ xs.length * L.links.length := by
      intro xs
      induction xs with
      | nil => simp [addsB]
      | cons x xs ih =>
        rw [addsB_cons]
        have : (exits L x.dst).length ≤ L.links.length := List.length_filter_le _ _
        simp only [List.length_cons, Nat.succ_mul]; omega
    have := this (traverseEdges L)
    rwa [hperm.length_eq] at this

/-- `logmath_add` never exceeds the larger argument by more than the first table entry — for all
integers (the conditions of `C19_logAdd_bounds` are only needed for the lower side) -/
theorem logAdd_le_max_add_t0_all {lm : SSVerif.LogAdd.LogMath} (tok : SSVerif.LogAdd.TableOK lm.table) (x y : Int) :
    SSVerif.LogAdd.logAdd lm x y ≤ max x y + (SSVerif.LogAdd.tval lm.table 0 : Nat) := by
  unfold SSVerif.LogAdd.logAdd
  have h0 : (0 : Int) ≤ (SSVerif.LogAdd.tval lm.table 0 : Nat) := Int.natCast_nonneg _
  have hle : ∀ d : Nat, ((lm.table.getD d 0 : Nat) : Int) ≤ (SSVerif.LogAdd.tval lm.table 0 : Nat) := by
    intro d
    have : SSVerif.LogAdd.tval lm.table d ≤ SSVerif.LogAdd.tval lm.table 0 := tok.anti_le (Nat.zero_le d)
    exact Int.ofNat_le.2 this
  by_cases h1 : x ≤ lm.zero
  · rw [if_pos h1]; omega
  · rw [if_neg h1]
    by_cases h2 : y ≤ lm.zero
    · rw [if_pos h2]; omega
    · rw [if_neg h2]
      by_cases h3 : x > y
      · simp only [h3, if_true]
        split
        · omega
        · split
          · omega
          · have := hle (SSVerif.LogAdd.wrap32 (x - y)).toNat
            omega
      · simp only [h3, if_false]
        split
        · omega
        · split
          · omega
          · have := hle (SSVerif.LogAdd.wrap32 (y - x)).toNat
            omega

/-- the same for `logmath_add` with the decoder's table: the bound per addition is `t[0] = 6932`
(`log_1.0001 2` rounded) -/
theorem C12_int_link_posterior_dec (ok : LatticeOK G L) (sc : Link → Int)
    (hnu : ∀ p v, Path L L.start p v → SSVerif.LogAdd.cfgDec.lm.zero ≤ (p.map sc).sum)
    (hnuB : ∀ v q, Path L v q L.final → SSVerif.LogAdd.cfgDec.lm.zero ≤ (q.map sc).sum)
    (ents : List Link) (hents : ∀ x, x ∈ ents ↔ x ∈ L.links ∧ x.dst = L.final) :
    let P : IntParams := { ladd := SSVerif.LogAdd.logAdd SSVerif.LogAdd.cfgDec.lm, lz := SSVerif.LogAdd.cfgDec.lm.zero, sc := sc }
    ∀ l ∈ L.links, alphaInt P L l + betaInt P L l - normInt P (alphaInt P L) ents
      ≤ 6932 * (L.links.length + addsB L (traverseEdges L) : Nat) := by
  intro P l hl
  have ht0 : (SSVerif.LogAdd.tval SSVerif.LogAdd.cfgDec.lm.table 0 : Nat) = 6932 := by decide +kernel
  have := (C12_int_link_posterior_le ok P (c := 6932) (by decide) (show SSVerif.LogAdd.cfgDec.lm.zero ≤ 0 by decide)
    (fun x y hx hy => SSVerif.LogAdd.max_le_logAdd SSVerif.LogAdd.cfgDec.lm hx hy)
    (fun x y => by
      have := logAdd_le_max_add_t0_all SSVerif.LogAdd.checked_dec.ok x y
      rw [ht0] at this
      exact this)
    hnu hnuB ents hents l hl).1
  exact this

/-- the association-list passes executed by the driver compute the functions the theorems are about -/
theorem C12_int_tables_eq (P : IntParams) (L : Lat) :
    look (alphaInit P L) (alphaIntT P L) = alphaInt P L ∧ look (fun _ => P.lz) (betaIntT P L) = betaInt P L :=
  ⟨alphaIntT_eq, betaIntT_eq⟩

/-! ### non-vacuity on the example lattice of C11 (4 start→end paths) -/

example : (traverseEdges exL).map (fun l => (l.src, l.dst))
    = [(1, 4), (1, 6), (4, 2), (4, 3), (6, 5), (5, 2), (5, 3), (2, 0), (3, 0)] := by decide +kernel

example : (bestpath exL).map (fun r => (r.1.src, r.2.1, r.2.2.map (·.src))) = some (2, -60, [1, 4, 2]) := by
  decide +kernel

example : (nbest exL 6 50).map (fun p => (p.score, p.nodes.reverse))
    = [(-57, [6, 5, 2, 0]), (-59, [6, 5, 3, 0]), (-60, [4, 2, 0]), (-60, [1, 4, 2, 0]), (-62, [1, 6, 5, 2, 0]),
       (-64, [1, 6, 5, 3, 0])] := by decide +kernel

-- with a two-element agenda the truncation branch of `path_insert` is taken: two of the six results are
-- lost, the order is still non-increasing
example : (nbestGo exL (remTable exL) 2 50 6 (astarStart exL (remTable exL) 2)).map (·.score) = [-57, -59, -60, -60] := by
  decide +kernel

-- integer pass with `max` as (degenerate) log-add on the example: alphas, normaliser, best joint score
example : let P : IntParams := { ladd := fun x y => if x ≤ -1000 then y else if y ≤ -1000 then x else max x y + 1, lz := -1000, sc := fun l => l.ascr }
    ((exL.links.map (alphaInt P exL)), normInt P (alphaInt P exL) (entries exL exL.final),
     (exL.links.map (look (alphaInit P exL) (alphaIntT P exL))))
    = ([0, -5, -59, -63, -20, -30, -22, -23, -15], -58, [0, -5, -59, -63, -20, -30, -22, -23, -15]) := by decide +kernel

-- weights 1,2,3,…: forward total = backward total = sum over the four paths
example : let w : Link → Nat := fun l => l.ef + 1
    (forwardTotal exL w, backwardTotal exL w, S (pathsFrom exL 13 exL.start) (pathWeight w),
     (pathsFrom exL 13 exL.start).length) = (264, 264, 264, 4) := by decide +kernel

end SSVerif.Lattice
