import SSVerif.Model.GrammarSet
/-! C01, the clause "the grammar that was ACTIVE for that utterance": error / recovery paths of the grammar-setting
  calls (`decoder_set_align_text`, `decoder_set_fsg`, `decoder_set_jsgf_string/_file`, model `Model/GrammarSet`).

  * a call that does not return 0 leaves the active grammar exactly as it was (every call, every session);
  * `decoder_set_align_text` returns 0 iff every word of the text is in the dictionary and `fsg_search_init` takes
    the word chain; then the active grammar is the chain of the text's words, whose only sentence is the text.

  The tie (tools/props/c01.py, `grammar_set_tie`): every grammar-setting call of every generated case is replayed on
  `run` (driver `c01g`); return values are compared with the library's, the model's active grammar with the grammar
  block the judged result is evaluated against. -/
namespace SSVerif.GrammarSet

theorem setFsg_rv (initOk : Fsg → Bool) (d : Dec) (g : Fsg) :
    (setFsg initOk d g = (0, { active := some g }) ∧ initOk g = true) ∨ (setFsg initOk d g = (-1, d) ∧ initOk g = false) := by
  unfold setFsg
  cases h : initOk g <;> simp

/-- **Refused ⇒ unchanged** (one call): whatever the call, the dictionary and the outcome of `fsg_search_init` / the
    JSGF front end: if the return value is not 0 the decoder's active grammar is the one it had before the call. -/
theorem C01_refused_call_keeps_active_grammar (known : Word → Bool) (initOk : Fsg → Bool) (d : Dec) (c : Call)
    (h : (call known initOk d c).1 ≠ 0) : (call known initOk d c).2 = d := by
  cases c with
  | align t =>
    simp only [call, setAlignText] at h ⊢
    split at h <;> try rfl
    split at h <;> try rfl
    rename_i n arcs _
    rcases setFsg_rv initOk d { nstate := _ + 1, start := 0, final := n, arcs := arcs } with ⟨e, _⟩ | ⟨e, _⟩
    · rw [e] at h; exact absurd rfl h
    · rw [e]
  | fsg g =>
    simp only [call] at h ⊢
    rcases setFsg_rv initOk d g with ⟨e, _⟩ | ⟨e, _⟩
    · rw [e] at h; exact absurd rfl h
    · rw [e]
  | jsgf p r b =>
    have key : ∀ g, (setFsg initOk d g).1 ≠ 0 → (setFsg initOk d g).2 = d := by
      intro g hg
      rcases setFsg_rv initOk d g with ⟨e, _⟩ | ⟨e, _⟩
      · rw [e] at hg; exact absurd rfl hg
      · rw [e]
    cases p <;> cases r <;> cases b <;> first | rfl | exact key _ h

/-- every return value is 0 or -1 -/
theorem C01_call_rv (known : Word → Bool) (initOk : Fsg → Bool) (d : Dec) (c : Call) :
    (call known initOk d c).1 = 0 ∨ (call known initOk d c).1 = -1 := by
  cases c with
  | align t =>
    simp only [call, setAlignText]
    split
    · right; rfl
    · split
      · right; rfl
      · rename_i n arcs _
        rcases setFsg_rv initOk d { nstate := _ + 1, start := 0, final := n, arcs := arcs } with ⟨e, _⟩ | ⟨e, _⟩ <;> rw [e] <;> simp
  | fsg g =>
    simp only [call]
    rcases setFsg_rv initOk d g with ⟨e, _⟩ | ⟨e, _⟩ <;> rw [e] <;> simp
  | jsgf p r b =>
    simp only [call, setJsgf]
    split
    · right; rfl
    · split
      · right; rfl
      · split
        · right; rfl
        · rename_i g
          rcases setFsg_rv initOk d g with ⟨e, _⟩ | ⟨e, _⟩ <;> rw [e] <;> simp

/-- the return value of a call does not depend on the grammar that is active -/
theorem call_rv_indep (known : Word → Bool) (initOk : Fsg → Bool) (d d' : Dec) (c : Call) :
    (call known initOk d c).1 = (call known initOk d' c).1 := by
  cases c with
  | align t =>
    simp only [call, setAlignText]
    split
    · rfl
    · split
      · rfl
      · simp only [setFsg]; split <;> rfl
  | fsg g => simp only [call, setFsg]; split <;> rfl
  | jsgf p r b =>
    simp only [call, setJsgf]
    split
    · rfl
    · split
      · rfl
      · split
        · rfl
        · simp only [setFsg]; split <;> rfl

/-- **Refused ⇒ unchanged** (sessions): after any sequence of grammar-setting calls the decoder state is the one
    obtained by making only the calls that returned 0 — refused calls, wherever they stand in the session, leave no
    trace in the active grammar. -/
theorem C01_session_refused_calls_leave_no_trace (known : Word → Bool) (initOk : Fsg → Bool) :
    ∀ (cs : List Call) (d : Dec),
      (run known initOk d cs).2 =
        (run known initOk d (cs.filter fun c => (call known initOk { active := none } c).1 == 0)).2 := by
  intro cs
  induction cs with
  | nil => intro d; rfl
  | cons c cs ih =>
    intro d
    have hi := call_rv_indep known initOk d { active := none } c
    by_cases h : (call known initOk d c).1 = 0
    · have hf : ((call known initOk { active := none } c).1 == 0) = true := by rw [← hi, h]; rfl
      simp only [List.filter_cons, hf, if_true, run]
      exact ih _
    · have hf : ((call known initOk { active := none } c).1 == 0) = false := by
        rw [← hi]; exact beq_false_of_ne h
      have e := C01_refused_call_keeps_active_grammar known initOk d c h
      simp only [List.filter_cons, hf, run]
      rw [e]
      simpa using ih d

theorem firstPass_some (known : Word → Bool) : ∀ (ws : List Word) (n : Nat),
    firstPass known ws n = (if ws.all known then some (n + ws.length) else none) := by
  intro ws
  induction ws with
  | nil => intro n; simp [firstPass]
  | cons w r ih =>
    intro n
    simp only [firstPass, List.all_cons, List.length_cons]
    by_cases hk : known w = true
    · simp only [hk, if_true, Bool.true_and, ih]
      split
      · simp only [Option.some.injEq]; omega
      · rfl
    · have hk' : known w = false := by simpa using hk
      simp [hk']

theorem secondPass_some (known : Word → Bool) : ∀ (ws : List Word) (n : Nat) (acc : List (Nat × Nat × Word)),
    secondPass known ws n acc =
      (if ws.all known then some (n + ws.length, acc.reverse ++ chainArcs ws n) else none) := by
  intro ws
  induction ws with
  | nil => intro n acc; simp [secondPass, chainArcs]
  | cons w r ih =>
    intro n acc
    simp only [secondPass, List.all_cons, List.length_cons, chainArcs]
    by_cases hk : known w = true
    · simp only [hk, if_true, Bool.true_and, ih]
      split
      · simp only [List.reverse_cons, List.append_assoc, List.singleton_append, Option.some.injEq, Prod.mk.injEq, and_true]
        omega
      · rfl
    · have hk' : known w = false := by simpa using hk
      simp [hk']

/-- the second dictionary test of `decoder_set_align_text` never fires: when the first pass succeeds the second one
    builds the chain of all words (the `return -1` inside the second loop is dead code) -/
theorem C01_align_second_pass_never_refuses (known : Word → Bool) (ws : List Word) (n : Nat)
    (h : firstPass known ws 0 = some n) :
    n = ws.length ∧ secondPass known ws 0 [] = some (ws.length, chainArcs ws 0) := by
  rw [firstPass_some] at h
  rw [secondPass_some]
  split at h
  · rename_i ha
    simp only [Option.some.injEq] at h
    simp only [ha, if_true, List.reverse_nil, List.nil_append, Nat.zero_add, and_true]
    omega
  · cases h

/-- **Alignment text, exact outcome**: with `ws` the words of the trimmed text —
    all in the dictionary and `fsg_search_init` takes their chain: returns 0, active grammar = `chain ws`;
    otherwise: returns -1, active grammar unchanged. -/
theorem C01_set_align_text_outcome (known : Word → Bool) (initOk : Fsg → Bool) (d : Dec) (text : List UInt8) :
    let ws := splitWords (stringTrim text)
    setAlignText known initOk d text =
      (if ws.all known && initOk (chain ws) then (0, { active := some (chain ws) }) else (-1, d)) := by
  intro ws
  simp only [setAlignText, firstPass_some, secondPass_some]
  show (match (if ws.all known then some (0 + ws.length) else none) with
        | none => (-1, d)
        | some nwords => match (if ws.all known then some (0 + ws.length, [].reverse ++ chainArcs ws 0) else none) with
          | none => (-1, d)
          | some (n, arcs) => setFsg initOk d { nstate := nwords + 1, start := 0, final := n, arcs := arcs }) = _
  cases ha : ws.all known
  · simp
  · simp only [if_true, List.reverse_nil, List.nil_append, Nat.zero_add, Bool.true_and]
    show setFsg initOk d (chain ws) = _
    unfold setFsg
    cases initOk (chain ws) <;> simp

theorem mem_chainArcs : ∀ (ws : List Word) (k p q : Nat) (w : Word),
    (p, q, w) ∈ chainArcs ws k ↔ (k ≤ p ∧ q = p + 1 ∧ ws[p - k]? = some w) := by
  intro ws
  induction ws with
  | nil => intro k p q w; simp [chainArcs]
  | cons x r ih =>
    intro k p q w
    simp only [chainArcs, List.mem_cons, Prod.mk.injEq, ih]
    constructor
    · rintro (⟨rfl, rfl, rfl⟩ | ⟨h1, h2, h3⟩)
      · simp
      · refine ⟨by omega, h2, ?_⟩
        have : p - k = (p - (k + 1)) + 1 := by omega
        rw [this, List.getElem?_cons_succ]; exact h3
    · rintro ⟨h1, h2, h3⟩
      by_cases hp : p = k
      · left
        subst hp
        simp only [Nat.sub_self, List.getElem?_cons_zero, Option.some.injEq] at h3
        exact ⟨rfl, h2, h3.symm⟩
      · right
        refine ⟨by omega, h2, ?_⟩
        have : p - k = (p - (k + 1)) + 1 := by omega
        rw [this, List.getElem?_cons_succ] at h3; exact h3

theorem path_chain (ws : List Word) : ∀ (p : Nat) (s : List Word) (r : Nat),
    Path (chain ws) p s r → r = p + s.length ∧ ∀ i, i < s.length → ws[p + i]? = s[i]? := by
  intro p s r h
  induction h with
  | nil q => simp
  | @cons p q r w s ha _ ih =>
    have hm := (mem_chainArcs ws 0 p q w).1 ha
    obtain ⟨_, hq, hw⟩ := hm
    obtain ⟨ih1, ih2⟩ := ih
    refine ⟨by simp only [List.length_cons]; omega, ?_⟩
    intro i hi
    cases i with
    | zero => simpa using hw
    | succ j =>
      simp only [List.length_cons] at hi
      have := ih2 j (by omega)
      rw [hq] at this
      simp only [List.getElem?_cons_succ]
      rw [← this]
      congr 1
      omega

theorem chain_path_drop (ws : List Word) : ∀ (k : Nat), k ≤ ws.length → Path (chain ws) k (ws.drop k) ws.length := by
  intro k
  induction hk : ws.length - k generalizing k with
  | zero =>
    intro h
    have : k = ws.length := by omega
    subst this
    simp only [List.drop_length]
    exact Path.nil _
  | succ m ih =>
    intro h
    have hlt : k < ws.length := by omega
    rw [List.drop_eq_getElem_cons hlt]
    refine Path.cons ?_ (ih (k + 1) (by omega) (by omega))
    show (k, k + 1, ws[k]) ∈ chainArcs ws 0
    rw [mem_chainArcs]
    refine ⟨Nat.zero_le _, rfl, ?_⟩
    simp [hlt]

/-- **The chain of a text has exactly one sentence, the text**: a word sequence is read from the start state to the
    final state of `chain ws` iff it is `ws`. -/
theorem C01_chain_accepts_iff (ws s : List Word) : Accepts (chain ws) s ↔ s = ws := by
  constructor
  · intro h
    have := path_chain ws 0 s ws.length h
    obtain ⟨hl, hi⟩ := this
    apply List.ext_getElem?
    intro i
    by_cases hlt : i < s.length
    · have := hi i hlt
      simp only [Nat.zero_add] at this
      exact this.symm
    · have h1 : s[i]? = none := by simp; omega
      have h2 : ws[i]? = none := by simp; omega
      rw [h1, h2]
  · rintro rfl
    have := chain_path_drop s 0 (Nat.zero_le _)
    simpa [Accepts, chain] using this

/-- **After a refused alignment text the old grammar's sentences are still the sentences**: composition of the two
    facts for the case the seeded change C01-em2 hit — grammar `g` active, a text with an out-of-dictionary word. -/
theorem C01_align_unknown_word_keeps_language (known : Word → Bool) (initOk : Fsg → Bool) (g : Fsg) (text : List UInt8)
    (h : (splitWords (stringTrim text)).all known = false) :
    setAlignText known initOk { active := some g } text = (-1, { active := some g }) := by
  have := C01_set_align_text_outcome known initOk { active := some g } text
  simp only [h, Bool.false_and] at this
  exact this

/-! non-vacuity: concrete instances -/
private def kn : Word → Bool := fun w => w == [103, 111] || w == [116, 101, 110]      -- "go", "ten"
-- " go\tten\n" is accepted and becomes the chain go → ten
example : setAlignText kn (fun _ => true) { active := none } [32, 103, 111, 9, 116, 101, 110, 10]
    = (0, { active := some (chain [[103, 111], [116, 101, 110]]) }) := by decide
-- "go xx ten" (unknown word at position 1) is refused and the active grammar stays
example : setAlignText kn (fun _ => true) { active := some (chain [[103, 111]]) } [103, 111, 32, 120, 120, 32, 116, 101, 110]
    = (-1, { active := some (chain [[103, 111]]) }) := by decide
example : Accepts (chain [[103, 111], [116, 101, 110]]) [[103, 111], [116, 101, 110]] := (C01_chain_accepts_iff _ _).2 rfl
example : ¬ Accepts (chain [[103, 111], [116, 101, 110]]) [[103, 111]] := fun h => by
  have := (C01_chain_accepts_iff _ _).1 h; revert this; decide

end SSVerif.GrammarSet
