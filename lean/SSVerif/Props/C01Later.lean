import SSVerif.Props.C01Search
import SSVerif.Proofs.SearchStepLater
import SSVerif.Props.C01Xlate
/-!
# C01, growth stage (M10), round 3 — a token spends at least one frame in an HMM before it leaves it

Property theorems only (proofs: `Proofs/SearchStepLater.lean`; decidable definitions the driver evaluates:
`Model/SearchLater.lean`).

**What changed in the model.**  The exit clause `EvalOut` of the step relation (`Model/Search.lean`) used to let
the exit state of an HMM take its score and history from *any* emitting state of the previous frame — also from
state 0, the state `hmm_enter` has just written — so the relation allowed a word exit in the very frame an HMM was
entered for (and a word entry with frame 0).  The C code cannot do that: `hmm_vit_eval` dispatches on the number of
emitting states; `hmm_vit_eval_3st_lr[_mpx]` computes the exit score from `s1`, `s2` only (hmm.c:498-514),
`hmm_vit_eval_5st_lr[_mpx]` from `s3`, `s4` only (hmm.c:180-195).  `EvalOut` now carries that fact (`OutFrom`), it is
part of `HmmsStep`/`stepRelB`, and the C01 check evaluates it on every frame of the real search.  (For any other
number of states `hmm_vit_eval_anytopo` is used, which does feed the exit state from state 0 when the transition
matrix has that arc: `OutFrom` is `True` there and the theorems below are stated for `LaterTopo lt.nst`, i.e.
3 or 5 emitting states — 3 in every shipped model, decided on every dumped lextree.)

**What follows**, for every lextree satisfying `LexTreeOK`, every beam setting, any audio, any number of frames
and utterances (`Reachable`):

* `C01_exit_not_from_entry_state` — within one frame the exit score of an evaluated HMM becomes live only from a
  live exit score or a live emitting state `i ≥ 1` of the previous frame;
* `C01_reachable_later` — in every reachable state every live state `j ≥ 1` and a live exit state of every HMM
  point to history entries at least two frames old;
* `C01_word_exit_two_frames_after_predecessor` — every word entry of the table was recorded at least two frames
  after its predecessor entry: the first HMM of the word is entered for frame `pred.frame + 1`
  (`fsg_search_word_trans`) and no exit can be seen before frame `pred.frame + 2`;  every word segment
  `[pred.frame + 1, frame]` spans at least two frames;
* `C01_word_entry_frame_pos` — hence every word entry has frame `≥ 1` (the clause of `HistWF` that C11 needs,
  until round 3 only observed on the dumped tables).
-/
namespace SSVerif.Search
open SSVerif.Hist SSVerif.Search.Later
open SSVerif.Generated.Search (worstScore tmatWorstScore)

variable {shift : Nat} {lt : LexTree} {g : Fsg} {s0 s s' : SState}

/-- **The exit state is not fed from the entry state.**  In one frame of the modelled search over 3- or 5-state
HMMs, the exit score of an HMM that was evaluated (`p` on the old active list) and kept (`p` on the new one) is
live only if its exit score was live before the frame or one of its emitting states `i ≥ 1` was.  In particular an
HMM of which only state 0 is live — one that `hmm_enter` has just entered — has no live exit score after the
frame, so neither `fsg_search_pnode_exit` nor `fsg_search_pnode_trans` can fire from it (`ExitOK`,
`EnteredFromParent` demand a live exit score). -/
theorem C01_exit_not_from_entry_state (hn : LaterTopo lt.nst) (st : StepRel shift lt g s s')
    {p : Nat} (hpa : p ∈ s.active) (hpa' : p ∈ s'.active) (hl : live (s'.hmm p).outScore) :
    live (s.hmm p).outScore ∨ ∃ i, 0 < i ∧ i < lt.nst ∧ live ((s.hmm p).sc i) := by
  obtain ⟨_, hact', hstep⟩ := st.hmms
  have hout := ((hstep p (hact' p hpa')).2 hpa').2.2.1
  simp only [hpa, if_true] at hout
  rcases hout with ⟨_, hlv⟩ | ⟨i, hi, hfrom, _, hlv⟩
  · exact Or.inl (hlv hl)
  · exact Or.inr ⟨i, outFrom_pos hn hfrom, List.mem_range.1 hi, hlv hl⟩

/-- **No exit in the frame of entry.**  An HMM that is in the state `hmm_enter` leaves a cleared HMM in (only state 0
live) has no live exit score after the next frame: no word exit and no phone transition out of it in that frame. -/
theorem C01_no_exit_in_frame_of_entry (hn : LaterTopo lt.nst) (st : StepRel shift lt g s s')
    {p : Nat} (hpa : p ∈ s.active) (hpa' : p ∈ s'.active)
    (hfresh : ¬ live (s.hmm p).outScore ∧ ∀ j, 0 < j → j < lt.nst → ¬ live ((s.hmm p).sc j)) :
    ¬ live (s'.hmm p).outScore := by
  intro hl
  rcases C01_exit_not_from_entry_state hn st hpa hpa' hl with h | ⟨i, h0, hi, h⟩
  · exact hfresh.1 h
  · exact hfresh.2 i h0 hi h

/-- **The invariant in every reachable state**: word entries lie at least two frames after their predecessors, no
entry has a frame below −1, and every live state `j ≥ 1` / live exit state of every HMM holds the index of an entry
at least two frames old. -/
theorem C01_reachable_later (lok : LexTreeOK lt g) (hn : LaterTopo lt.nst) (hr : Reachable shift lt g s) :
    LaterInv lt g s :=
  reachable_later lok hn hr

/-- **Every word takes at least two frames.**  In every state the modelled search over 3- or 5-state HMMs can
reach, a word entry `i` of the history table (an entry whose arc carries a word, `wid ≥ 0`) was recorded at least
two frames after its predecessor entry; its predecessor is an entry of the table (`pred < i`).  The word segment
the backtrace reports for it is `[pred.frame + 1, frame]`. -/
theorem C01_word_exit_two_frames_after_predecessor (lok : LexTreeOK lt g) (hn : LaterTopo lt.nst)
    (hr : Reachable shift lt g s) (i lid : Nat) (hi : 0 < i) (hlt : i < s.hist.size)
    (hlink : (ent s.hist i).link = some lid) (hw : ¬ (g.link lid).wid < 0) :
    0 ≤ (ent s.hist i).pred ∧ (ent s.hist i).pred.toNat < i ∧
    (ent s.hist (ent s.hist i).pred.toNat).frame + 2 ≤ (ent s.hist i).frame := by
  have wf := (reachable_inv lok hr).wf
  obtain ⟨_, _, _, hp1, hp2, _⟩ := wf.step i hi hlt
  exact ⟨hp1, hp2, (reachable_later lok hn hr).dur i hlt hi lid hlink hw⟩

/-- **No word exit in frame 0.**  In every reachable state every word entry has frame `≥ 1`. -/
theorem C01_word_entry_frame_pos (lok : LexTreeOK lt g) (hn : LaterTopo lt.nst) (hr : Reachable shift lt g s)
    (i lid : Nat) (hi : 0 < i) (hlt : i < s.hist.size) (hlink : (ent s.hist i).link = some lid)
    (hw : ¬ (g.link lid).wid < 0) : 1 ≤ (ent s.hist i).frame :=
  laterInv_wordFrame (reachable_inv lok hr).wf (reachable_later lok hn hr) i lid hi hlt hlink hw

/-- the same over the lextree the model builds from any FSG, pronunciations and ssid lookups -/
theorem C01_word_entry_frame_pos_built (li : LexIn) (g : Fsg) (hsil : li.sil < li.nCi)
    (hn : LaterTopo (buildLexTree li g).nst) {s : SState} (hr : Reachable shift (buildLexTree li g) g s)
    (i lid : Nat) (hi : 0 < i) (hlt : i < s.hist.size) (hlink : (ent s.hist i).link = some lid)
    (hw : ¬ (g.link lid).wid < 0) : 1 ≤ (ent s.hist i).frame :=
  C01_word_entry_frame_pos (C01_build_lexTreeOK li g hsil) hn hr i lid hi hlt hlink hw

/-- one frame keeps the invariant; `fsg_search_start` establishes it -/
theorem C01_step_preserves_later (lok : LexTreeOK lt g) (hn : LaterTopo lt.nst) (inv : SearchInv lt g s)
    (st : StepRel shift lt g s s') (li : LaterInv lt g s) : LaterInv lt g s' :=
  step_later lok hn inv st li

theorem C01_start_establishes_later (h0 : AllCleared lt s0) (st : StartRel shift lt g s0 s) : LaterInv lt g s :=
  start_later h0 st

/-- the Boolean the driver evaluates on every dumped state decides the invariant -/
theorem C01_later_checker_sound : laterInvB lt g s = true ↔ LaterInv lt g s := laterInvB_iff lt g s

namespace ExTopo
def xg : Fsg := { links := #[⟨0, 1, 0, 0⟩], start := 0, final := 1, filler := [] }
def xlt : LexTree := { nst := 2, nodes := #[{ owner := 0, leaf := true, link := 0 }], root := #[some 0, none] }
def xs0 : SState := { frame := 0, hist := #[], hmms := #[Hmm.clear 2], active := [] }
def xhm1 : Hmm := { frame := 0, score := [0, worstScore], hist := [0, -1], outScore := worstScore, outHist := -1 }
def xs1 : SState := { frame := 0, hist := #[dummy], hmms := #[xhm1], active := [0] }
def xe1 : Entry := { link := some 0, frame := 0, score := -5, pred := 0 }
def xhm2 : Hmm := { frame := 1, score := [-5, -5], hist := [0, 0], outScore := -5, outHist := 0 }
def xs2 : SState := { frame := 1, hist := #[dummy, xe1], hmms := #[xhm2], active := [0] }
theorem reach : Reachable 10 xlt xg xs2 :=
  .step (.first (s0 := xs0) (s := xs1) (by decide) (startRelB_sound (by decide))) (stepRelB_sound (by decide))
end ExTopo

/-- **The topology hypothesis is needed** (and is a fact about the C code: `hmm_vit_eval_anytopo` feeds the exit
state from state 0 when the transition matrix has the arc): over 2-state HMMs there is a reachable state with a
word entry of frame 0. -/
theorem C01_frame0_exit_with_other_topology :
    ∃ (lt : LexTree) (g : Fsg) (s : SState), LexTreeOK lt g ∧ Reachable 10 lt g s ∧ lt.nst = 2 ∧
      ∃ i lid, 0 < i ∧ i < s.hist.size ∧ (ent s.hist i).link = some lid ∧ ¬ (g.link lid).wid < 0 ∧
        (ent s.hist i).frame = 0 :=
  ⟨ExTopo.xlt, ExTopo.xg, ExTopo.xs2, by decide, ExTopo.reach, rfl, 1, 0, by decide, by decide, by decide, by decide,
    by decide⟩

/-! ### the score fact behind `ExitOK`: a word exit fires only from a live exit score

`ExitOK` (Model/Search.lean) demands a live exit score of the leaf whose exit is recorded.  The code guards
`fsg_search_pnode_exit` only by `hmm_out_score(hmm) >= fsgs->bestscore + fsgs->wbeam` (`fsg_search_hmm_prune_prop`),
so liveness is a fact about scores: it holds exactly when the word threshold of the frame lies above `WORST_SCORE`.
Until round 3 that was "assumed and checked per frame" on the dumped HMMs only.  Now it is derived for the exact
mirror of the 3-state evaluator: `fsgs->bestscore` is the maximum of the values `hmm_vit_eval_3st_lr` returned
(`frameBest` of `evalBest3`; the return value is tied to the C text by `C01_xlate_hmm3_best`), so **one** evaluated
HMM whose returned score lies more than `|wbeam|` above `WORST_SCORE` makes every exit that passes the guard live.
The driver evaluates, on every frame of the real search, `fsgs->bestscore = frameBest (evalBest3 …)`,
`ThreshLive bestscore wbeam` and `Fires bestscore wbeam e.score` for every new word entry `e` (harness line `B`). -/

/-- the guard of `fsg_search_hmm_prune_prop` lets only live exit scores through when the frame's word threshold is
above `WORST_SCORE` -/
theorem C01_exit_guard_live {best wbeam out : Int} (ht : ThreshLive best wbeam) (hf : Fires best wbeam out) :
    live out := fires_live ht hf

/-- **A word exit fires only from a live exit score** — for the exact 3-state evaluator: let `hs` be the HMMs
`fsg_search_hmm_eval` evaluates in a frame (transition matrix, emission scores, state before), `best` the maximum
of the returned values as the code computes it, and let one of them (`w`) return a score above
`WORST_SCORE − wbeam`.  Then every evaluated HMM whose new exit score passes the guard of
`fsg_search_hmm_prune_prop` has a live exit score. -/
theorem C01_word_exit_fires_only_live (hs : List (List Nat × (Nat → Int) × Hmm)) (wbeam : Int)
    (w : List Nat × (Nat → Int) × Hmm) (hw : w ∈ hs) (hwl : worstScore < evalBest3 w.1 w.2.1 w.2.2 + wbeam)
    (tp : List Nat) (e : Nat → Int) (h : Hmm)
    (hf : Fires (frameBest (hs.map fun x => evalBest3 x.1 x.2.1 x.2.2)) wbeam (evalHist3 tp e h).outScore) :
    live (evalHist3 tp e h).outScore := by
  apply fires_live _ hf
  have := le_frameBest (List.mem_map.2 ⟨w, hw, rfl⟩ : evalBest3 w.1 w.2.1 w.2.2 ∈ hs.map fun x => evalBest3 x.1 x.2.1 x.2.2)
  unfold ThreshLive
  omega

/-- `fsgs->bestscore` never lies below `WORST_SCORE`, and bounds every returned value -/
theorem C01_frame_best_bounds (bs : List Int) : worstScore ≤ frameBest bs ∧ ∀ x ∈ bs, x ≤ frameBest bs :=
  ⟨worst_le_frameBest bs, fun _ hx => le_frameBest hx⟩

open SSVerif.Translated SSVerif.Translated.Hmm in
/-- the returned value of the translated function in terms of what it stored -/
theorem xlate_hmm3_best_chain (undef : Nat → Int) (bs : Int) (sen : Int → Int) (tp : Int → Int → Int → Int)
    (hist : Int → Int) (oh os : Int) (score senid : Int → Int) (tmatid : Int) :
    let r := hmm_vit_eval_3st_lr undef bs sen tp hist oh os score senid tmatid
    r.1 = (let b0 := if score 1 + -(sen (senid 1)) > -536870912 then r.2.2.2.2.1 else -536870912
           let b1 := if r.2.2.2.2.2 2 > b0 then r.2.2.2.2.2 2 else b0
           let b2 := if r.2.2.2.2.2 1 > b1 then r.2.2.2.2.2 1 else b1
           if r.2.2.2.2.2 0 > b2 then r.2.2.2.2.2 0 else b2) ∧ r.2.1 = r.1 := by
  intro r
  refine ⟨?_, rfl⟩
  simp only [r, hmm_vit_eval_3st_lr, ite_pair, ite_fam_apply, upd1_apply, Int.reduceNeg, Int.reduceEq, if_true, if_false]
  by_cases hc : score 1 + -sen (senid 1) > -536870912 <;> simp only [hc, if_true, if_false]

open SSVerif.Translated SSVerif.Translated.Hmm in
/-- **translation tie of the returned score**: the value the function translated from the C text of
`hmm_vit_eval_3st_lr` returns (and stores into `hmm->bestscore`) is `evalBest3` of the model HMM -/
theorem C01_xlate_hmm3_best (undef : Nat → Int) (bs : Int) (sen : Int → Int) (tp : Int → Int → Int → Int)
    (hist : Int → Int) (oh os : Int) (score senid : Int → Int) (tmatid frame : Int) (tpl : List Nat)
    (htp : ∀ k : Nat, k < 12 → tp tmatid 0 k = ((tpl.getD k 255 : Nat) : Int)) :
    let r := hmm_vit_eval_3st_lr undef bs sen tp hist oh os score senid tmatid
    r.1 = evalBest3 tpl (fun k => -(sen (senid k))) (xlSearchHmm frame score hist os oh) ∧ r.2.1 = r.1 := by
  intro r
  obtain ⟨hc, hb⟩ := xlate_hmm3_best_chain undef bs sen tp hist oh os score senid tmatid
  obtain ⟨⟨a0, a1, a2⟩, _, c, _⟩ := C01_xlate_hmm3_refines undef bs sen tp hist oh os score senid tmatid frame tpl htp
  refine ⟨?_, hb⟩
  simp only at hc a0 a1 a2 c
  rw [hc, a0, a1, a2, c]
  rfl

/-! ### non-vacuity -/

-- the example states of `Props/C01Search` (3-state HMMs) satisfy the invariant; the step between them is a model step
example : LaterTopo exLt.nst := by decide
example : laterInvB exLt exG exS0 = true ∧ laterInvB exLt exG exS = true ∧ laterInvB exLt exG exS' = true := by decide
example : LaterInv exLt exG exS' :=
  C01_step_preserves_later (shift := 10) (s := exS) (by decide) (by decide) ((searchInvB_iff _ _ _).1 (by decide))
    (stepRelB_sound (by decide)) ((laterInvB_iff _ _ _).1 (by decide))
-- a reachable state: start, then one frame in which the tokens of both roots move from state 0 to state 1 only
def exS1 : SState :=
  { frame := 1, hist := #[exRoot],
    hmms := #[⟨1, [-4, -5, W], [0, 0, -1], W, -1⟩, Hmm.clear 3, Hmm.clear 3, ⟨1, [-10, -11, W], [0, 0, -1], W, -1⟩],
    active := [3, 0] }
theorem exS1_reachable : Reachable 10 exLt exG exS1 :=
  .step (.first (s0 := exPre) (s := exS0) (by decide) (startRelB_sound (by decide))) (stepRelB_sound (by decide))
example : LaterInv exLt exG exS1 := C01_reachable_later (by decide) (by decide) exS1_reachable
-- the strengthened relation rejects what the C code cannot do: after the first frame the exit state of pnode 3
-- (a leaf entered by `fsg_search_start`) is live with the history of state 0, and a word entry of frame 0 is made
def exBad : SState :=
  { frame := 1, hist := #[exRoot, ⟨some 3, 0, -11, 0, 1, [1]⟩],
    hmms := #[⟨1, [-4, -5, W], [0, 0, -1], W, -1⟩, Hmm.clear 3, Hmm.clear 3, ⟨1, [-10, -11, W], [0, 0, -1], -11, 0⟩],
    active := [3, 0] }
example : stepRelB 10 exLt exG exS0 exBad = false := by decide
example : laterInvB exLt exG exBad = false := by decide
-- it is the exit clause that rejects it: with the exit state fed from state 1 of a (fictitious) earlier state the
-- same successor is accepted
example : ¬ EvalOut 3 (exS0.hmm 3) (exBad.hmm 3) := by decide
example : EvalOut 3 ⟨0, [-9, -9, W], [0, 0, -1], W, -1⟩ (exBad.hmm 3) := by decide
-- the invariant is not trivially true of well-formed tables: a word entry one frame after its predecessor
example : wordDurB exG #[exRoot, ⟨some 0, 1, -33, 0, 9, [1]⟩, ⟨some 1, 1, -34, 1, 9, [1]⟩, ⟨some 2, 2, -50, 2, 4, [1]⟩] = false ∧
    wfHistB exG #[exRoot, ⟨some 0, 1, -33, 0, 9, [1]⟩, ⟨some 1, 1, -34, 1, 9, [1]⟩, ⟨some 2, 2, -50, 2, 4, [1]⟩] 3 = true := by
  decide

-- the score guard: `evalBest3` on pnode 0 of `exS` (exit block runs: new exit score −16; the best is state 0's −11)
example : evalBest3 [1, 2, 255, 255, 255, 1, 2, 255, 255, 255, 1, 2] (fun _ => 0) (exS.hmm 0) = -11 := by decide
example : frameBest [-40, -11, -25] = -11 ∧ frameBest [] = worstScore := by decide
example : ThreshLive (-11) (-633) ∧ Fires (-11) (-633) (-16) ∧ ¬ Fires (-11) (-633) (-700) := by decide
-- with every token dead the threshold is not live and the guard lets a dead exit score through
example : ¬ ThreshLive worstScore (-633) ∧ Fires worstScore (-633) worstScore := by decide

end SSVerif.Search
