import SSVerif.Proofs.EndpointerSpec
/-!
# C15 — Endpointed speech segments are exact excerpts with consistent timestamps

Property theorems only.  `c : Cfg` with `c.Valid` is any configuration `endpointer_init` accepts
(`0 < start_frames < maxlen`, `0 < end_frames < maxlen`; `initCfg` is the acceptance test), `z` the
zeroed frame of the `calloc`ed buffer, `ops` any history of `endpointer_process` /
`endpointer_end_stream` calls from the initial state (any decisions, any end-of-stream points, reuse
after them), frames being values of an arbitrary type `α`.  `run`/`step`/`process`/`endStream` are
the index-by-index model of `ps_endpointer.c` (with fix D01); they return `none` when an array access
leaves `[0, maxlen)` or a loop does not terminate.  `inputs ops` is the input stream (frames with
their decisions), `e.head = tsFrames - n` the stream position of the oldest queued frame,
`e.skew = tsFrames - (qstart + n)` the lag of the queue clock behind it.
-/
namespace SSVerif.Endpointer

variable {α : Type} {c : Cfg}

/-- **C15, refinement.** After every history the ring model has not left its arrays (`run ≠ none`), it
made exactly the observations (return values and getters) of the abstract FIFO machine `Spec.run`, its
scalar fields equal the FIFO machine's, and the ring represents the FIFO `q`: `pos < maxlen`,
`n = q.length ≤ maxlen`, slot `(pos + k) % maxlen` of the frame ring / flag ring holds the `k`-th queued
frame / flag.  **`epSpeechCount` is the number of speech flags in the FIFO.**  The FIFO is exactly the
part of the input stream from position `head` on (frames not yet handed back or dropped), and while in
speech it is neither empty nor full. -/
theorem C15_ring_refines_fifo (hv : c.Valid) (z : α) (ops : List (Op α)) :
    ∃ e tr q,
      run c (Ep.init c z) ops = some (e, tr) ∧
      (Spec.init : Spec α).run c ops = (toSpec e q, tr) ∧
      e.buf.length = c.maxlen ∧ e.flags.length = c.maxlen ∧ e.pos < c.maxlen ∧ q.length = e.n ∧ e.n ≤ c.maxlen ∧
      (∀ k (h : k < q.length), e.buf[(e.pos + k) % c.maxlen]? = some q[k].1 ∧
                               e.flags[(e.pos + k) % c.maxlen]? = some q[k].2) ∧
      epSpeechCount c e = some (q.countP (·.2)) ∧
      q = (inputs ops).drop e.head ∧ e.head + e.n = (inputs ops).length ∧
      (e.inSpeech = true → 0 < e.n ∧ e.n < c.maxlen) := by
  obtain ⟨e, tr, q, h1, h2, h3, h4, _⟩ := reach hv z ops
  have hts : e.tsFrames = (inputs ops).length := h4.ts
  have hle : q.length ≤ (inputs ops).length := h4.len_le
  have hlen := h3.len
  refine ⟨e, tr, q, h1, h2, h3.buf_len, h3.flags_len, h3.pos_lt, h3.len, h3.n_le, h3.slot, count_sim h3, ?_, ?_, ?_⟩
  · have := h4.suffix
    simp only [toSpec] at this
    rw [Ep.head, hts, ← hlen]; exact this
  · rw [Ep.head]; omega
  · intro hi
    have a := h4.sp_pos hi; have b := h4.sp_lt hi
    simp only [toSpec] at a b
    omega

/-- **C15, trigger rule.** For every history and every next frame: let `w` be the look-back window
after the push — the last `min (n + 1) maxlen` frames of the input stream, none of which has been handed
back — and `cnt` the number of them classified as speech.  While not in speech the call starts a
segment **iff** `cnt > start_frames`; while in speech it ends the segment **iff** `cnt < end_frames`.
A frame is returned iff the endpointer was or has just got in speech, and the "queue overflow" branch
is never taken. -/
theorem C15_trigger_rule (hv : c.Valid) (z : α) (ops : List (Op α)) (d : Bool) (f : α) :
    ∃ e tr e' o, run c (Ep.init c z) ops = some (e, tr) ∧ process c e d f = some (e', o) ∧
      (let inp := inputs ops ++ [(f, d)]
       let w := inp.drop (inp.length - min (e.n + 1) c.maxlen)
       let cnt := w.countP (·.2)
       e.head ≤ inp.length - min (e.n + 1) c.maxlen ∧
       (e.inSpeech = true → (e'.inSpeech = true ↔ ¬ cnt < c.endFrames)) ∧
       (e.inSpeech = false → (e'.inSpeech = true ↔ cnt > c.startFrames)) ∧
       (o.ret.isSome = true ↔ (e.inSpeech = true ∨ e'.inSpeech = true)) ∧
       o.overflow = false) := by
  obtain ⟨e, tr, q, e', o, w, h1, h2, _, hq, hts, _, _, _, _, _, F⟩ := reach_process hv z ops d f
  refine ⟨e, tr, e', o, h1, h2, ?_⟩
  have hwl : w.length = min (e.n + 1) c.maxlen := by rw [← hq]; exact F.w_len
  have hw : w = (inputs ops ++ [(f, d)]).drop ((inputs ops ++ [(f, d)]).length - min (e.n + 1) c.maxlen) := by
    rw [← hwl]; simpa using F.w_suffix
  simp only
  rw [← hw]
  refine ⟨?_, F.stay, F.start, ?_, F.no_ovf⟩
  · have := F.hd_le
    simp only [toSpec, List.length_append, List.length_singleton] at this ⊢
    rw [Ep.head, hts, ← hq]; omega
  · constructor
    · intro hs
      by_cases hc : e.inSpeech = true ∨ e'.inSpeech = true
      · exact hc
      · have := (F.ret_none hc).1
        simp only at this
        rw [this] at hs; simp at hs
    · intro hc
      have := (F.ret_some hc).1
      simp only at this
      rw [this]
      have hlt := F.hd_lt
      rw [List.getElem?_eq_getElem (by simpa using hlt)]
      rfl

/-- **C15, end of stream.** For every history and every end-of-stream point: a trailing frame longer
than `frame_size` is refused and a call while not in speech returns NULL, both without touching the
state.  Otherwise (in speech) the queue — the input frames from position `head` on — is neither empty
nor full; the call hands back exactly its maximal all-speech prefix `sp`, followed by the trailing
partial frame **iff** the whole queue was speech (it is found right behind the returned frames: the
write position is `< maxlen`, `run ≠ none`); the "queue overflow" branch is not taken; afterwards the
endpointer is out of speech with an empty queue and unchanged `speech_start`.  `speech_end` is the
stream position after the trailing samples when they were added (`timestamp`), otherwise the end
position of the last returned frame (`head + sp.length`, on the queue clock, i.e. minus `skew`).
The frames `end_stream` discards are not counted by the queue clock: `skew` grows by their number. -/
theorem C15_end_stream (hv : c.Valid) (z : α) (ops : List (Op α)) (nsamp : Nat) (f : α) :
    ∃ e tr e' o, run c (Ep.init c z) ops = some (e, tr) ∧ endStream c e nsamp f = some (e', o) ∧
      (nsamp > c.frameSize → o = .tooLong ∧ e' = e) ∧
      (nsamp ≤ c.frameSize → e.inSpeech = false → o = .notInSpeech ∧ e' = e) ∧
      (nsamp ≤ c.frameSize → e.inSpeech = true →
        let queue := (inputs ops).drop e.head
        let sp := queue.takeWhile (·.2)
        queue.length = e.n ∧ 0 < e.n ∧ e.n < c.maxlen ∧
        o = .data (sp.map (·.1)) (if sp.length = e.n then some (f, nsamp) else none) false ∧
        e'.inSpeech = false ∧ e'.n = 0 ∧ e'.speechStart = e.speechStart ∧ e'.tsFrames = e.tsFrames ∧
        (sp.length = e.n →
          e'.speechEnd = ⟨e.tsFrames, e.tsSamples + nsamp⟩ ∧ e'.tsSamples = e.tsSamples + nsamp ∧
          e'.skew = e.skew) ∧
        (sp.length ≠ e.n →
          e'.speechEnd.frames + e.skew = e.head + sp.length ∧ e'.speechEnd.samples = 0 ∧
          e'.tsSamples = e.tsSamples ∧ e'.skew = e.skew + (e.n - sp.length - 1))) := by
  obtain ⟨e, tr, q, e', o, h1, h2, _, hq, hts, hsuf, hnle, hcl, hsp, hn', F⟩ := reach_endStream hv z ops nsamp f
  refine ⟨e, tr, e', o, h1, h2, ?_, ?_, ?_⟩
  · intro hl
    have : endStream c e nsamp f = some (e, .tooLong) := by simp [endStream, hl]
    rw [this] at h2; cases h2; exact ⟨rfl, rfl⟩
  · intro hl hi
    have : endStream c e nsamp f = some (e, .notInSpeech) := by
      simp [endStream, Nat.not_lt.mpr hl, hi]
    rw [this] at h2; cases h2; exact ⟨rfl, rfl⟩
  · intro hl hi
    have hl' : ¬ nsamp > c.frameSize := Nat.not_lt.mpr hl
    have hret := F.ret hl' hi
    obtain ⟨s1, s2, s3, s4⟩ := F.state hl' hi
    have hall := F.all hl' hi
    have hbrk := F.brk hl' hi
    rw [show ((toSpec e q).endStream c nsamp f).1.q = [] from s2] at hn'
    have hsk' : (toSpec e' ((toSpec e q).endStream c nsamp f).1.q).skew = e'.skew := by
      rw [show ((toSpec e q).endStream c nsamp f).1.q = [] from s2]
      simp only [Spec.skew, toSpec, Ep.skew, hn', List.length_nil]
    simp only [toSpec] at hret s1 s3 s4 hall hbrk
    simp only [List.length_nil] at hn'
    simp only [Spec.skew] at hall hbrk
    simp only
    rw [← hsuf, ← hq]
    refine ⟨rfl, by have := (hsp hi).1; omega, by have := (hsp hi).2; omega, hret, s1, hn', s3, s4, ?_, ?_⟩
    · intro ha
      obtain ⟨a1, a2, a3⟩ := hall ha
      refine ⟨a1, a2, ?_⟩
      rw [← hsk', Spec.skew, Ep.skew, ← hq]; exact a3
    · intro ha
      obtain ⟨a1, a2, a3, a4⟩ := hbrk ha
      refine ⟨?_, a2, a3, ?_⟩
      · rw [Ep.skew, Ep.head, hts, ← hq]; rw [hts] at a1; exact a1
      · rw [← hsk', Spec.skew, Ep.skew, ← hq]; exact a4

/-- **C15, exact excerpts.** For every history `ops` and every next call `op` (a `process` with any
decision or an `end_stream` at any point): the whole frames the call hands back are literally the
contiguous slice `[j, j + len)` of the input stream (so each returned frame *is* the frame that was
given at that position, and they are in order without gaps or repeats); the slice starts at or after
`head` (the position behind everything handed back or dropped before) and the new `head` is at or after
its end — so slices of successive calls never overlap and their positions strictly increase; and while
in speech the slice starts **exactly** at `head`, a `process` call returns exactly one frame and
advances `head` by one — so inside a segment the returned frames are consecutive frames of the input. -/
theorem C15_excerpt_exact (hv : c.Valid) (z : α) (ops : List (Op α)) (op : Op α) :
    ∃ e tr e' o, run c (Ep.init c z) ops = some (e, tr) ∧ step c e op = some (e', o) ∧
      run c (Ep.init c z) (ops ++ [op]) = some (e', tr ++ [o]) ∧
      ∃ j, (let inp := inputs (ops ++ [op])
        o.ret.frames = ((inp.drop j).take o.ret.frames.length).map (·.1) ∧
        j + o.ret.frames.length ≤ inp.length ∧
        e.head ≤ j ∧ j + o.ret.frames.length ≤ e'.head ∧ e'.head ≤ inp.length ∧
        (e.inSpeech = true → j = e.head ∧
          ∀ d f, op = .process d f → o.ret.frames.length = 1 ∧ e'.head = e.head + 1)) := by
  cases op with
  | process d f =>
    obtain ⟨e, tr, q, e', o, w, h1, h2, h3, hq, hts, hts', _, hn', hnle, _, F⟩ := reach_process hv z ops d f
    have hstep : step c e (.process d f) = some (e', ⟨.p o, e'.inSpeech, e'.speechStart, e'.speechEnd⟩) := by
      simp only [step, h2]
    refine ⟨e, tr, e', _, h1, hstep, h3, ?_⟩
    have hinp : inputs (ops ++ [Op.process d f]) = inputs ops ++ [(f, d)] := by
      rw [inputs_append]; simp [inputs, Op.input]
    have hlt := F.hd_lt
    have hle := F.hd_le
    have heq := F.hd_eq
    simp only [toSpec] at hle heq
    have hh : e.head = (inputs ops).length - e.n := by rw [Ep.head, hts]
    have hh' : e'.head = (inputs ops).length + 1 - e'.n := by rw [Ep.head, hts']
    rw [hq] at hle heq
    by_cases hc : e.inSpeech = true ∨ e'.inSpeech = true
    · obtain ⟨r1, r2⟩ := F.ret_some hc
      have r2' : (inputs ops).length + 1 - e'.n = (inputs ops).length + 1 - w.length + 1 := by
        rw [hn']; exact r2
      simp only at r1
      have hlt' : (inputs ops).length + 1 - w.length < (inputs ops ++ [(f, d)]).length := by simpa using hlt
      rw [List.getElem?_eq_getElem hlt'] at r1
      refine ⟨(inputs ops).length + 1 - w.length, ?_⟩
      simp only [hinp, Ret.frames, r1, Option.map_some, Option.toList_some, List.length_singleton]
      refine ⟨by rw [slice_one hlt']; rfl, by omega, by omega, by omega, by simp; omega, ?_⟩
      intro hi
      have := heq hi
      exact ⟨by omega, fun _ _ _ => ⟨trivial, by omega⟩⟩
    · obtain ⟨r1, r2⟩ := F.ret_none hc
      have r2' : (inputs ops).length + 1 - e'.n = (inputs ops).length + 1 - w.length := by
        rw [hn']; exact r2
      simp only at r1
      refine ⟨e.head, ?_⟩
      simp only [hinp, Ret.frames, r1, Option.toList_none, List.length_nil, List.take_zero, List.map_nil,
        Nat.add_zero, Nat.le_refl, true_and]
      refine ⟨by simp; omega, by omega, by simp; omega, ?_⟩
      intro hi; exact absurd (Or.inl hi) hc
  | endStream nsamp f =>
    obtain ⟨e, tr, q, e', o, h1, h2, h3, hq, hts, hsuf, hnle, _, hsp, hn', F⟩ := reach_endStream hv z ops nsamp f
    have hstep : step c e (.endStream nsamp f) = some (e', ⟨.e o, e'.inSpeech, e'.speechStart, e'.speechEnd⟩) := by
      simp only [step, h2]
    refine ⟨e, tr, e', _, h1, hstep, h3, e.head, ?_⟩
    have hinp : inputs (ops ++ [Op.endStream nsamp f]) = inputs ops := by
      rw [inputs_append]; simp [inputs, Op.input]
    simp only [hinp]
    have hhd : e.head + e.n = (inputs ops).length := by rw [Ep.head, hts]; omega
    by_cases hl : nsamp > c.frameSize
    · have : endStream c e nsamp f = some (e, .tooLong) := by simp [endStream, hl]
      rw [this] at h2; cases h2
      simp only [Ret.frames, List.length_nil, List.take_zero, List.map_nil, Nat.add_zero, Nat.le_refl, true_and]
      exact ⟨by omega, by omega, fun _ _ _ h => by cases h⟩
    · cases hi : e.inSpeech with
      | false =>
        have : endStream c e nsamp f = some (e, .notInSpeech) := by simp [endStream, hl, hi]
        rw [this] at h2; cases h2
        simp only [Ret.frames, List.length_nil, List.take_zero, List.map_nil, Nat.add_zero, Nat.le_refl, true_and]
        exact ⟨by omega, by omega, fun h => by cases h⟩
      | true =>
        have hret := F.ret hl hi
        obtain ⟨s1, s2, s3, s4⟩ := F.state hl hi
        rw [show ((toSpec e q).endStream c nsamp f).1.q = [] from s2] at hn'
        simp only [toSpec, List.length_nil] at hret s4 hn'
        have hk : (q.takeWhile (·.2)).length ≤ q.length := (List.takeWhile_prefix _).length_le
        rw [hret]
        simp only [Ret.frames, List.length_map]
        have hh' : e'.head = (inputs ops).length := by rw [Ep.head, hn', s4, hts]; rfl
        refine ⟨?_, by omega, Nat.le_refl _, by omega, by omega, fun _ => ⟨trivial, fun _ _ h => by cases h⟩⟩
        rw [← hsuf, ← takeWhile_eq_take]

/-- **C15, timestamps.** For every history and every next frame.  `skew` (how far the queue clock is
behind the stream position of the oldest queued frame) is never changed by `process` and is 0 as long
as no `end_stream` has returned data — in particular throughout the first stream.  When the call starts
a segment, the frame it returns is input frame `j` and `speech_start + skew = j`: **`speech_start` is
the stream position of the first returned frame** (times are in units of `frame_length`), and
`speech_end` is reset to 0.  When the call ends a segment, the frame it returns — the last of the
segment — is input frame `j` and `speech_end + skew = j + 1`: **`speech_end` is the stream position of
the end of the last returned frame**; `speech_start` is kept.  A call that does not change `in_speech`
changes neither time.  (For the end of a segment by `end_stream` see `C15_end_stream`.) -/
theorem C15_timestamps (hv : c.Valid) (z : α) (ops : List (Op α)) (d : Bool) (f : α) :
    ∃ e tr e' o, run c (Ep.init c z) ops = some (e, tr) ∧ process c e d f = some (e', o) ∧
      e'.skew = e.skew ∧ e'.tsSamples = e.tsSamples ∧ e'.tsFrames = e.tsFrames + 1 ∧
      ((∀ o ∈ tr, o.ret.isData = false) → e.skew = 0) ∧
      (let inp := inputs ops ++ [(f, d)]
       (e.inSpeech = false → e'.inSpeech = true →
          ∃ j, j < inp.length ∧ o.ret = (inp[j]?).map (·.1) ∧ e'.speechStart + e.skew = j ∧
            e'.speechEnd = ⟨0, 0⟩) ∧
       (e.inSpeech = true → e'.inSpeech = false →
          ∃ j, j < inp.length ∧ o.ret = (inp[j]?).map (·.1) ∧ e'.speechEnd.frames + e.skew = j + 1 ∧
            e'.speechEnd.samples = 0 ∧ e'.speechStart = e.speechStart) ∧
       (e.inSpeech = e'.inSpeech → e'.speechStart = e.speechStart ∧ e'.speechEnd = e.speechEnd)) := by
  obtain ⟨e, tr, q, e', o, w, h1, h2, _, hq, hts, hts', hsk0, hn', _, _, F⟩ := reach_process hv z ops d f
  have hsk : ∀ (e0 : Ep α) (l : List (α × Bool)), l.length = e0.n → (toSpec e0 l).skew = e0.skew := by
    intro e0 l hl0; simp only [Spec.skew, toSpec, Ep.skew, hl0]
  have hs : (toSpec e q).skew = e.skew := hsk e q hq
  have hs' : (toSpec e' ((toSpec e q).process c d f).1.q).skew = e'.skew := hsk _ _ hn'.symm
  have hlt : (inputs ops).length + 1 - w.length < (inputs ops ++ [(f, d)]).length := by simpa using F.hd_lt
  refine ⟨e, tr, e', o, h1, h2, ?_, F.tsSamples, by rw [hts', hts], hsk0, ?_, ?_, F.t_same⟩
  · rw [← hs, ← hs']; exact F.skew
  · intro hi hi'
    obtain ⟨a, b⟩ := F.t_start hi hi'
    exact ⟨_, hlt, (F.ret_some (Or.inr hi')).1, by rw [← hs]; exact a, b⟩
  · intro hi hi'
    obtain ⟨a, b⟩ := F.t_end hi hi'
    exact ⟨_, hlt, (F.ret_some (Or.inl hi)).1, by rw [← hs]; exact a, b, F.t_keep hi⟩

/-- the acceptance test of `endpointer_init` yields exactly the hypothesis `c.Valid` of the theorems
above (and `maxlen ≥ 2`), whatever the floating-point computation of the thresholds produced -/
theorem C15_init_valid (maxlen startFrames endFrames : Int) (frameSize : Nat) (c : Cfg)
    (h : initCfg maxlen startFrames endFrames frameSize = some c) :
    c.Valid ∧ 2 ≤ c.maxlen ∧ (c.maxlen : Int) = maxlen ∧ (c.startFrames : Int) = startFrames ∧
      (c.endFrames : Int) = endFrames := by
  unfold initCfg at h
  split at h
  · cases h
  · split at h
    · cases h
    · cases h
      refine ⟨⟨?_, ?_, ?_, ?_⟩, ?_, ?_, ?_, ?_⟩ <;> simp only <;> omega

/-- **D01 (defect of the pinned tree, repaired by fixes/D01).** The original `ep_speech_count` leaves
the flag array whenever the queue is partly filled and `pos` is the last slot: it reads
`is_speech[maxlen]`. -/
theorem C15_D01_orig_leaves_array (c : Cfg) (e : Ep α) (hf : e.flags.length = c.maxlen)
    (hp : e.pos + 1 = c.maxlen) (h0 : 0 < e.n) (hn : e.n < c.maxlen) : epSpeechCountOrig c e = none := by
  have hm : 0 < c.maxlen := by omega
  have hpos : e.pos < e.flags.length := by omega
  have hend : c.maxlen ≠ (e.pos + e.n) % c.maxlen := Nat.ne_of_gt (Nat.mod_lt _ hm)
  unfold epSpeechCountOrig
  rw [if_neg (by omega), if_neg (by omega)]
  simp only [rd, List.getElem?_eq_getElem hpos, hp, countLoop, if_neg hend]
  rw [List.getElem?_eq_none (by omega)]

/-! ### non-vacuity -/

/-- decisions → history of `process` calls whose frames are numbered 0, 1, 2, … -/
def procs (ds : List Bool) : List (Op Nat) := (ds.zipIdx).map fun (d, i) => .process d i

def cfg3 : Cfg := ⟨3, 1, 2, 480⟩

-- maxlen 3, start 1, end 2 is what `endpointer_init(0.09, 0.5, …, 16000, 0.03)` produces
example : initCfg 3 1 2 480 = some cfg3 ∧ cfg3.Valid := ⟨rfl, ⟨by decide, by decide, by decide, by decide⟩⟩

-- two segments (frames 0..5 and 7..8), the second one ended by `end_stream` with 100 trailing samples:
-- returned frames, in_speech, speech_start, speech_end after every call
example :
    (run cfg3 (Ep.init cfg3 0) (procs [true, true, true, true, true, true, false, false, true, true] ++
        [.endStream 100 77])).map (fun r => r.2.map fun o => (o.ret.frames, o.inSpeech, o.speechStart, o.speechEnd)) =
      some [([], false, 0, ⟨0, 0⟩), ([0], true, 0, ⟨0, 0⟩), ([1], true, 0, ⟨0, 0⟩), ([2], true, 0, ⟨0, 0⟩),
            ([3], true, 0, ⟨0, 0⟩), ([4], true, 0, ⟨0, 0⟩), ([5], false, 0, ⟨6, 0⟩), ([], false, 0, ⟨6, 0⟩),
            ([], false, 0, ⟨6, 0⟩), ([7], true, 7, ⟨0, 0⟩), ([8, 9], false, 7, ⟨10, 100⟩)] := by
  decide

-- the same history reaches `pos = maxlen - 1` with a partly filled queue on the 4th frame: the repaired
-- count is right, the original one leaves the array (the heap-buffer-overflow ASan reports)
example :
    ((run cfg3 (Ep.init cfg3 0) (procs [true, true, true])).bind fun r =>
      (epPush cfg3 r.1 true 3).map fun e => (e.pos, e.n, epSpeechCount cfg3 e, epSpeechCountOrig cfg3 e)) =
      some (2, 2, some 2, none) := by
  decide

def cfg4 : Cfg := ⟨4, 2, 1, 480⟩

-- end of stream with a non-speech frame in the queue (queue = frames 3 (speech), 4 (non-speech), 5 (speech)):
-- only the speech prefix is returned, no trailing samples, frame 5 is discarded uncounted and the queue
-- clock falls behind (skew 1) for the reused endpointer
example :
    (run cfg4 (Ep.init cfg4 0) (procs [false, true, true, true, false, true] ++ [.endStream 5 77])).map
      (fun r => (r.2.getLast?.map (·.ret), r.1.skew)) =
      some (some (.e (.data [3] none false)), 1) := by
  decide

end SSVerif.Endpointer
