import SSVerif.Props.C12
import SSVerif.Proofs.LatticePostDec
import SSVerif.Proofs.LatticePostCheck
import SSVerif.Proofs.LatticePostExactNat
/-!
# C12 — integer posteriors: the accumulated log-add rounding bound as a theorem

Property theorems only.  `Props/C12.lean` bounds the integer link posterior `alpha + beta − norm` of
`lattice_bestpath`/`lattice_posterior` only in max-plus form (`t[0] = 6932` per log-addition, times the
number of *all* log-additions of the two passes).  Here the **accuracy** of the log-add table
(`C19_logAdd_is_rounded_log_of_sum`: every table addition returns the logarithm of the exact sum to
within `η = 1/2 + ε` units) is carried through the verified topological traversal:

* `budA L l`, `budB L l`, `budN L`, `budW L` (`Proofs/LatticePostBudget.lean`, computable) count the
  table additions whose rounding can accumulate in `alpha l`, `beta l`, the normaliser and the backward
  total: the first addition of a node adds to log-zero and is exact, every further one costs one `η` on
  top of the *largest* budget among its arguments (the exact log-sum is 1-Lipschitz in the sup norm), and
  adding a link's own score is exact.
* Exact quantities: `alphaLinkR`, `betaLinkR`, `ZfR`, `ZbR` (`Proofs/LatticePostFlow.lean`) are the
  forward/backward link weights and totals of the lattice over ℝ for the link weights `B^(sc l)`
  (`B` = base of the log domain, `sc l` = the scaled integer link score the C code adds); they satisfy
  `forward total = backward total` and `alpha·beta ≤ total`.
* `C12_int_passes_close` (any log-add with the laws `LaddLaw`, any budgets with the budget conditions
  `BudA`/`BudB`): every integer alpha, beta, the normaliser and the integer backward total are `Close` to
  their exact counterparts within their budgets.
* `C12_int_posterior_close`, `C12_int_totals_close`: link posterior within `E l + E' l + EN` of the exact
  posterior (which lies in `(0,1]`), forward total within `EN + EW` of the backward total.
* `C12_alphaInt_refines_exact`: the integer passes are — by definition — the `(logmath_add, +, log-zero, 0)`
  instance of the generic passes `alphaGen`/`betaGen`/`normGen`/`bwdGen` (`Model/LatticeRound.lean`); the
  `(+, *, 0, 1)` instance over ℕ of the same passes (run by the driver on every dumped lattice) computes the
  exact model `alphaLink`/`betaLink`/`forwardTotal`/`backwardTotal` of `C12_exact_forward_backward`; for
  natural weights the real exact weights are the casts of the model's.
* For `logmath_add` with the decoder's regenerated table (`cfgDec`, laws discharged from C19) the same in
  real logarithms (`C12_int_passes_accurate_dec`, `C12_int_posterior_accurate_dec`) and as pure integer
  inequalities with `η ≤ 51/100` (`C12_int_posterior_le_one_plus_budget`,
  `C12_int_forward_backward_totals_agree`: explicit budgets `budA`, `budB`, `budN`, `budW`);
  `C12_int_link_posterior_ge_path_posterior` is the lower sandwich: a link posterior is never below the
  posterior of a start→end path through the link.
* `C12_round_checked`, `C12_old_hyps_checked`: the same conclusions (and those of the older integer-pass and
  A\* theorems of `Props/C12.lean`) from the Boolean checkers `roundHypsB`, `budOKB`, `remOKB` that
  `ssdriver c12r` evaluates on every dumped lattice (soundness: `Proofs/LatticePostCheck.lean`).

Hypotheses (`RoundHyps L sc KB`): the lattice satisfies the C11 predicate; no path prefix/suffix score is at
or below log-zero (else `logmath_add` treats a non-zero probability as zero); path scores plus `6932` per
log-addition stay below `2^31` — forward: one addition per link plus the normaliser's, backward: `KB`, a
bound of all backward budgets (`budKB L`) — so that every intermediate value is in the `int32` range on
which C19 proves the accuracy.
-/
namespace SSVerif.Lattice
open SSVerif.Nfa SSVerif.LogAdd

variable {G : Nfa} {L : Lat}

/-- **C12, integer passes are accurate (any log-add with the laws).**  For every link the integer alpha and
beta are the base-`B` logarithms of the exact forward/backward weights up to `budA`/`budB` factors `ρ`;
the normaliser and the integer backward total are those of the exact forward and backward totals up to
`budN`/`budW` factors. -/
theorem C12_int_passes_close (ok : LatticeOK G L) (P : IntParams) {B ρ : ℝ} {hi c : Int} (law : LaddLaw P B ρ hi)
    (hc : 0 ≤ c) (hlz : P.lz ≤ 0)
    (hge : ∀ x y, P.lz ≤ x → P.lz ≤ y → max x y ≤ P.ladd x y)
    (hub : ∀ x y, P.ladd x y ≤ max x y + c)
    {KB : Nat} (hr : RangeHyps L P c hi KB)
    {E E' : Link → Nat} {EN EW : Nat} (hE : BudA L E) (hE' : BudB L E')
    (hEN : ∀ x ∈ entries L L.final, E x + ((entries L L.final).length - 1) ≤ EN)
    (hEW : ∀ x ∈ exits L L.start, E' x + ((exits L L.start).length - 1) ≤ EW)
    (hKB : ∀ l ∈ L.links, E' l ≤ KB) (hKW : EW ≤ KB)
    (ents : List Link) (hents : ents.Perm (entries L L.final)) :
    (∀ l ∈ L.links,
      Close B ρ (alphaInt P L l) (alphaLinkR L (fun l => B ^ P.sc l) l) (E l) ∧
      Close B ρ (betaInt P L l) (betaLinkR L (fun l => B ^ P.sc l) l) (E' l)) ∧
    (L.links ≠ [] →
      Close B ρ (normInt P (alphaInt P L) ents) (ZfR L (alphaLinkR L (fun l => B ^ P.sc l))) EN ∧
      Close B ρ (bwdInt P L (betaInt P L)) (ZbR L (fun l => B ^ P.sc l) (betaLinkR L (fun l => B ^ P.sc l))) EW) := by
  have dag := DagOK.of_latticeOK ok
  have hrank : ∀ l ∈ L.links, L.rank l.src < L.rank l.dst := fun l hl => rank_lt ok hl
  have hM : ∀ l ∈ L.links, L.rank l.dst ≤ L.nframes + 1 := fun l hl => rank_le ok (ok.endpoints.2.2 l hl).2
  have hfb : FwdBwdR L (fun l => B ^ P.sc l) (alphaLinkR L (fun l => B ^ P.sc l)) (betaLinkR L (fun l => B ^ P.sc l)) :=
    model_fwdBwdR hrank hM
  have hcn : ∀ k : Nat, 0 ≤ c * (k : Int) := fun k => Int.mul_nonneg hc (Int.natCast_nonneg _)
  have hnuW : ∀ p x, Walk L p x → P.lz < jointInt P p := fun p x hw => hr.nu p x.dst hw.path.1
  have hhiW1 : ∀ p x, Walk L p x → jointInt P p + c * (L.links.length + (entries L L.final).length : Nat) < hi :=
    fun p x hw => hr.hiW p x.dst hw.path.1
  have hhiW0 : ∀ p x, Walk L p x → jointInt P p + c * L.links.length < hi := by
    intro p x hw
    have := hhiW1 p x hw
    have := hcn (entries L L.final).length
    push_cast at *
    rw [Int.mul_add] at *
    omega
  have hA := alphaInt_close dag law hc hlz hge hub hnuW hhiW0 hE (fun l hl => hfb.fwd l hl)
  have hBe := betaInt_close dag law hc hge hub hr.nuB hE' hKB hr.hiB (fun l hl => hfb.bwd l hl)
  refine ⟨fun l hl => ⟨(hA l hl).1, (hBe l hl).1⟩, fun hne => ⟨?_, ?_⟩⟩
  · exact normInt_close dag law hc hlz hge hub hnuW hhiW1 hE (fun l hl => hfb.fwd l hl) ents hents hne hEN
  · -- the start node has an exit
    have hex : exits L L.start ≠ [] := by
      obtain ⟨l0, hl0⟩ := List.exists_mem_of_ne_nil _ hne
      obtain ⟨p, hp⟩ := exists_walk dag _ l0 hl0 rfl
      obtain ⟨x, _, _, hm, hs, _⟩ := path_cons_inv hp.path.1 (fun h => dag.no_entry_start l0 hl0 h.symm)
      intro h
      have : x ∈ exits L L.start := mem_exits.2 ⟨hm, hs⟩
      rw [h] at this; cases this
    exact bwdInt_close dag law hc hge hub hr.nuB hE' hKB hr.hiB (fun l hl => hfb.bwd l hl) hex hEW hKW

/-- **C12, integer link posteriors are within the budget of the exact posteriors.**  With `X = alpha·beta`
(exact) and `Z` the exact total: `0 < X ≤ Z` (exact posterior in `(0,1]`), the integer posterior
`alpha + beta − norm` satisfies `X/Z ≤ B^post·ρ^K` and `B^post ≤ (X/Z)·ρ^K` (cross-multiplied), hence
`B^post ≤ ρ^K`, with `K = budA l + budB l + budN L`. -/
theorem C12_int_posterior_close (ok : LatticeOK G L) (P : IntParams) {B ρ : ℝ} {hi c : Int} (law : LaddLaw P B ρ hi)
    (hc : 0 ≤ c) (hlz : P.lz ≤ 0)
    (hge : ∀ x y, P.lz ≤ x → P.lz ≤ y → max x y ≤ P.ladd x y)
    (hub : ∀ x y, P.ladd x y ≤ max x y + c)
    {KB : Nat} (hr : RangeHyps L P c hi KB)
    {E E' : Link → Nat} {EN EW : Nat} (hE : BudA L E) (hE' : BudB L E')
    (hEN : ∀ x ∈ entries L L.final, E x + ((entries L L.final).length - 1) ≤ EN)
    (hEW : ∀ x ∈ exits L L.start, E' x + ((exits L L.start).length - 1) ≤ EW)
    (hKB : ∀ l ∈ L.links, E' l ≤ KB) (hKW : EW ≤ KB)
    (ents : List Link) (hents : ents.Perm (entries L L.final)) :
    ∀ l ∈ L.links,
      let w : Link → ℝ := fun l => B ^ P.sc l
      let X := alphaLinkR L w l * betaLinkR L w l
      let Z := ZfR L (alphaLinkR L w)
      let post := alphaInt P L l + betaInt P L l - normInt P (alphaInt P L) ents
      let K := E l + E' l + EN
      0 < X ∧ X ≤ Z ∧ X ≤ Z * B ^ post * ρ ^ K ∧ Z * B ^ post ≤ X * ρ ^ K ∧ B ^ post ≤ ρ ^ K := by
  intro l hl w X Z post K
  have hB : 0 < B := by linarith [law.B_gt]
  have hρ := law.rho_ge
  obtain ⟨h1, h2⟩ := C12_int_passes_close ok P law hc hlz hge hub hr hE hE' hEN hEW hKB hKW ents hents
  obtain ⟨ha, hb⟩ := h1 l hl
  have hne : L.links ≠ [] := fun h => by rw [h] at hl; cases hl
  obtain ⟨hn, _⟩ := h2 hne
  have hrank : ∀ l ∈ L.links, L.rank l.src < L.rank l.dst := fun l hl => rank_lt ok hl
  have hM : ∀ l ∈ L.links, L.rank l.dst ≤ L.nframes + 1 := fun l hl => rank_le ok (ok.endpoints.2.2 l hl).2
  have hsrc : ∀ l ∈ L.links, l.src < L.n := fun l hl => (ok.endpoints.2.2 l hl).1
  have hdst : ∀ l ∈ L.links, l.dst < L.n := fun l hl => (ok.endpoints.2.2 l hl).2
  have hfb : FwdBwdR L w (alphaLinkR L w) (betaLinkR L w) := model_fwdBwdR hrank hM
  have hw : ∀ l, 0 ≤ w l := fun l => (zpow_pos hB _).le
  have hAn : ∀ l, 0 ≤ alphaLinkR L w l := alphaLinkR_nonneg hw
  have hBn : ∀ l, 0 ≤ betaLinkR L w l := betaLinkR_nonneg hw
  have heq := fwd_eq_bwdR L.rank hfb hrank hsrc hdst ok.endpoints.1 ok.endpoints.2.1
  have hflow : X ≤ Z := by
    show alphaLinkR L w l * betaLinkR L w l ≤ ZfR L (alphaLinkR L w)
    rw [heq]
    exact link_flow_leR L.rank hfb (fun x _ => mul_nonneg (hAn x) (hBn x)) hrank hsrc hdst
      ok.endpoints.1 ok.endpoints.2.1 hl
  obtain ⟨r1, r2⟩ := close_ratio hB hρ ha hb hn
  have hXpos : 0 < X := mul_pos (ha.pos hB hρ) (hb.pos hB hρ)
  have hZpos : 0 < Z := hn.pos hB hρ
  refine ⟨hXpos, hflow, r1, r2, ?_⟩
  -- Z·B^post ≤ X·ρ^K ≤ Z·ρ^K
  have hpow : 0 < ρ ^ K := pow_pos (by linarith) _
  have : Z * B ^ post ≤ Z * ρ ^ K := le_trans r2 (mul_le_mul_of_nonneg_right hflow hpow.le)
  exact le_of_mul_le_mul_left this hZpos

/-- **C12, integer forward total and backward total agree within the budget.** -/
theorem C12_int_totals_close (ok : LatticeOK G L) (P : IntParams) {B ρ : ℝ} {hi c : Int} (law : LaddLaw P B ρ hi)
    (hc : 0 ≤ c) (hlz : P.lz ≤ 0)
    (hge : ∀ x y, P.lz ≤ x → P.lz ≤ y → max x y ≤ P.ladd x y)
    (hub : ∀ x y, P.ladd x y ≤ max x y + c)
    {KB : Nat} (hr : RangeHyps L P c hi KB)
    {E E' : Link → Nat} {EN EW : Nat} (hE : BudA L E) (hE' : BudB L E')
    (hEN : ∀ x ∈ entries L L.final, E x + ((entries L L.final).length - 1) ≤ EN)
    (hEW : ∀ x ∈ exits L L.start, E' x + ((exits L L.start).length - 1) ≤ EW)
    (hKB : ∀ l ∈ L.links, E' l ≤ KB) (hKW : EW ≤ KB)
    (ents : List Link) (hents : ents.Perm (entries L L.final)) (hne : L.links ≠ []) :
    B ^ (normInt P (alphaInt P L) ents - bwdInt P L (betaInt P L)) ≤ ρ ^ (EN + EW) ∧
    B ^ (bwdInt P L (betaInt P L) - normInt P (alphaInt P L) ents) ≤ ρ ^ (EW + EN) := by
  have hB : 0 < B := by linarith [law.B_gt]
  have hρ := law.rho_ge
  obtain ⟨_, h2⟩ := C12_int_passes_close ok P law hc hlz hge hub hr hE hE' hEN hEW hKB hKW ents hents
  obtain ⟨hn, hwd⟩ := h2 hne
  have hrank : ∀ l ∈ L.links, L.rank l.src < L.rank l.dst := fun l hl => rank_lt ok hl
  have hM : ∀ l ∈ L.links, L.rank l.dst ≤ L.nframes + 1 := fun l hl => rank_le ok (ok.endpoints.2.2 l hl).2
  have hsrc : ∀ l ∈ L.links, l.src < L.n := fun l hl => (ok.endpoints.2.2 l hl).1
  have hdst : ∀ l ∈ L.links, l.dst < L.n := fun l hl => (ok.endpoints.2.2 l hl).2
  have hfb : FwdBwdR L (fun l => B ^ P.sc l) (alphaLinkR L (fun l => B ^ P.sc l)) (betaLinkR L (fun l => B ^ P.sc l)) :=
    model_fwdBwdR hrank hM
  have heq := fwd_eq_bwdR L.rank hfb hrank hsrc hdst ok.endpoints.1 ok.endpoints.2.1
  rw [← heq] at hwd
  exact ⟨close_same hB hρ hn hwd, close_same hB hρ hwd hn⟩

/-- **C12, the integer passes refine the exact passes.**  (1) `alphaInt`, `betaInt`, `normInt`, `bwdInt` — the
folds that mirror `lattice_bestpath` / `lattice_posterior` and are compared with the C values — are, by
definition, the instance `(logmath_add, +, log-zero, 0)` of the generic passes `alphaGen`, `betaGen`, `normGen`,
`bwdGen`.  (2) The instance `(+, *, 0, 1)` over ℕ of the *same* passes (the exact model the driver runs on
every dumped lattice) computes the exact forward/backward link weights and totals `alphaLink`, `betaLink`,
`forwardTotal`, `backwardTotal` of `C12_exact_forward_backward`, for every weight function.  (3) For natural
weights the real-valued exact weights `alphaLinkR`/`betaLinkR`, to which `C12_int_passes_close` relates the
integer alphas and betas, are the casts of the model's `alphaLink`/`betaLink`.  (4) For every log-add with
the laws and the real weights `B^(sc l)`, every integer alpha/beta is `Close` to the exact one within its
budget (`C12_int_passes_close`, restated for the canonical budgets). -/
theorem C12_alphaInt_refines_exact (ok : LatticeOK G L) :
    (∀ P : IntParams, alphaInt P L = alphaGen (intGen P) L ∧ betaInt P L = betaGen (intGen P) L ∧
      (∀ al ents, normInt P al ents = normGen (intGen P) al ents) ∧ ∀ be, bwdInt P L be = bwdGen (intGen P) L be) ∧
    (∀ w : Link → Nat,
      (∀ l ∈ L.links, alphaGen (natGen w) L l = alphaLink L w l ∧ betaGen (natGen w) L l = betaLink L w l) ∧
      (∀ ents : List Link, ents.Perm (entries L L.final) →
        normGen (natGen w) (alphaGen (natGen w) L) ents = forwardTotal L w) ∧
      bwdGen (natGen w) L (betaGen (natGen w) L) = backwardTotal L w ∧
      lookG (alphaGenInit (natGen w) L) (alphaGenT (natGen w) L) = alphaGen (natGen w) L ∧
      lookG (fun _ => (natGen w).zero) (betaGenT (natGen w) L) = betaGen (natGen w) L) ∧
    (∀ (w : Link → Nat) (l : Link),
      alphaLinkR L (fun l => ((w l : Nat) : ℝ)) l = ((alphaLink L w l : Nat) : ℝ) ∧
      betaLinkR L (fun l => ((w l : Nat) : ℝ)) l = ((betaLink L w l : Nat) : ℝ)) ∧
    (∀ (P : IntParams) (B ρ : ℝ) (hi c : Int), LaddLaw P B ρ hi → 0 ≤ c → P.lz ≤ 0 →
      (∀ x y, P.lz ≤ x → P.lz ≤ y → max x y ≤ P.ladd x y) → (∀ x y, P.ladd x y ≤ max x y + c) →
      RangeHyps L P c hi (budKB L) →
      ∀ l ∈ L.links,
        Close B ρ (alphaInt P L l) (alphaLinkR L (fun l => B ^ P.sc l) l) (budA L l) ∧
        Close B ρ (betaInt P L l) (betaLinkR L (fun l => B ^ P.sc l) l) (budB L l)) := by
  refine ⟨fun P => ⟨rfl, rfl, fun _ _ => rfl, fun _ => rfl⟩, fun w => ?_, fun w l => linkR_natCast w l, ?_⟩
  · obtain ⟨h1, h2, h3⟩ := gen_nat_exact ok w
    exact ⟨h1, h2, h3, alphaGenT_eq, betaGenT_eq⟩
  · intro P B ρ hi c law hc hlz hge hub hr l hl
    exact (C12_int_passes_close ok P law hc hlz hge hub hr (budA_ok ok) (budB_ok ok) (budN_ok L) (budW_ok L)
      (budKB_ok L).1 (budKB_ok L).2 (entries L L.final) (List.Perm.refl _)).1 l hl

/-! ### `logmath_add` with the decoder's regenerated table -/

/-- the integer passes as the decoder runs them: `logmath_add` with the table of `logmath_init(1.0001, 0)`,
its log-zero, and the scaled link scores `sc` supplied per link -/
def decP (sc : Link → Int) : IntParams :=
  { ladd := logAdd cfgDec.lm, lz := cfgDec.lm.zero, sc := sc }

/-- the hypotheses evaluated on every dumped lattice: no path prefix or suffix score at or below log-zero
(`−2^29`), and path scores plus `6932` per log-addition below `2^31` (forward: one addition per link plus the
normaliser's; backward: `KB`, a bound of all backward budgets — `budKB L` for the explicit budgets) -/
abbrev RoundHyps (L : Lat) (sc : Link → Int) (KB : Nat) : Prop := RangeHyps L (decP sc) 6932 2147483648 KB

theorem decP_law (sc : Link → Int) : LaddLaw (decP sc) (cfgBase cfgDec) (cfgRho cfgDec) 2147483648 :=
  laddLaw_of_checked checked_dec (by rw [cfgDec_zero]; decide) (by rw [cfgDec_zero]; decide) sc

theorem decP_ge (sc : Link → Int) : ∀ x y, (decP sc).lz ≤ x → (decP sc).lz ≤ y → max x y ≤ (decP sc).ladd x y :=
  fun _ _ hx hy => max_le_logAdd cfgDec.lm hx hy

theorem decP_ub (sc : Link → Int) : ∀ x y, (decP sc).ladd x y ≤ max x y + 6932 := by
  intro x y
  have ht0 : (tval cfgDec.lm.table 0 : Nat) = 6932 := by decide +kernel
  have := logAdd_le_max_add_t0_all checked_dec.ok x y
  rw [ht0] at this
  exact this

/-- **C12, accuracy of the integer passes in real logarithms (decoder's table).**  With `B = 1.0001` and
`η = 1/2 + log_B(2^20/(2^20−1)) < 0.51`: every integer alpha / beta / normaliser / backward total differs
from the logarithm of the exact forward weight / backward weight / forward total / backward total by at
most `η` times its budget. -/
theorem C12_int_passes_accurate_dec (ok : LatticeOK G L) (sc : Link → Int) (hr : RoundHyps L sc (budKB L))
    (ents : List Link) (hents : ents.Perm (entries L L.final)) :
    let B := cfgBase cfgDec
    let w : Link → ℝ := fun l => B ^ sc l
    (∀ l ∈ L.links,
      |(alphaInt (decP sc) L l : ℝ) - Real.logb B (alphaLinkR L w l)| ≤ cfgEta cfgDec * budA L l ∧
      |(betaInt (decP sc) L l : ℝ) - Real.logb B (betaLinkR L w l)| ≤ cfgEta cfgDec * budB L l) ∧
    (L.links ≠ [] →
      |(normInt (decP sc) (alphaInt (decP sc) L) ents : ℝ) - Real.logb B (ZfR L (alphaLinkR L w))| ≤ cfgEta cfgDec * budN L ∧
      |(bwdInt (decP sc) L (betaInt (decP sc) L) : ℝ) - Real.logb B (ZbR L w (betaLinkR L w))| ≤ cfgEta cfgDec * budW L) ∧
    cfgEta cfgDec ≤ 51 / 100 := by
  intro B w
  obtain ⟨h1, h2⟩ := C12_int_passes_close ok (decP sc) (decP_law sc) (by decide) (by show cfgDec.lm.zero ≤ 0; decide)
    (decP_ge sc) (decP_ub sc) hr (budA_ok ok) (budB_ok ok) (budN_ok L) (budW_ok L) (budKB_ok L).1 (budKB_ok L).2 ents hents
  refine ⟨fun l hl => ⟨close_abs_logb checked_dec (h1 l hl).1, close_abs_logb checked_dec (h1 l hl).2⟩,
    fun hne => ⟨close_abs_logb checked_dec (h2 hne).1, close_abs_logb checked_dec (h2 hne).2⟩,
    eta_le checked_dec cfgDec_base⟩

/-- **C12, integer link posteriors vs exact posteriors in real logarithms (decoder's table).**  The exact
posterior `X/Z` of every link lies in `(0,1]` and the integer posterior `alpha + beta − norm` (what
`ps_latlink_prob` returns) differs from its logarithm by at most `η·(budA l + budB l + budN L)`. -/
theorem C12_int_posterior_accurate_dec (ok : LatticeOK G L) (sc : Link → Int) (hr : RoundHyps L sc (budKB L))
    (ents : List Link) (hents : ents.Perm (entries L L.final)) :
    ∀ l ∈ L.links,
      let B := cfgBase cfgDec
      let w : Link → ℝ := fun l => B ^ sc l
      let X := alphaLinkR L w l * betaLinkR L w l
      let Z := ZfR L (alphaLinkR L w)
      let post := alphaInt (decP sc) L l + betaInt (decP sc) L l - normInt (decP sc) (alphaInt (decP sc) L) ents
      0 < X / Z ∧ X / Z ≤ 1 ∧
      |(post : ℝ) - Real.logb B (X / Z)| ≤ cfgEta cfgDec * (budA L l + budB L l + budN L : Nat) := by
  intro l hl B w X Z post
  obtain ⟨hX, hXZ, r1, r2, _⟩ := C12_int_posterior_close ok (decP sc) (decP_law sc) (by decide)
    (by show cfgDec.lm.zero ≤ 0; decide) (decP_ge sc) (decP_ub sc) hr (budA_ok ok) (budB_ok ok) (budN_ok L) (budW_ok L) (budKB_ok L).1 (budKB_ok L).2 ents hents l hl
  have hZ : 0 < Z := lt_of_lt_of_le hX hXZ
  refine ⟨div_pos hX hZ, (div_le_one hZ).2 hXZ, ?_⟩
  apply close_abs_logb checked_dec
  constructor
  · -- B^post ≤ (X/Z) ρ^K
    rw [div_mul_eq_mul_div, le_div_iff₀ hZ]
    calc cfgBase cfgDec ^ post * Z = Z * cfgBase cfgDec ^ post := mul_comm _ _
      _ ≤ _ := r2
  · rw [div_le_iff₀ hZ]
    calc X ≤ Z * cfgBase cfgDec ^ post * cfgRho cfgDec ^ (budA L l + budB L l + budN L) := r1
      _ = _ := by ring

/-- **C12, integer link posteriors are at most one up to the accumulated rounding budget (decoder's table).**
For every link, the integer log posterior `alpha + beta − norm` exceeds `0` (probability one) by at most
`0.51` units per table addition in its budget `budA l + budB l + budN L` — a pure integer inequality with no
abstract hypothesis: the table is the regenerated one, the laws of the log-add come from C19. -/
theorem C12_int_posterior_le_one_plus_budget (ok : LatticeOK G L) (sc : Link → Int) (hr : RoundHyps L sc (budKB L))
    (ents : List Link) (hents : ents.Perm (entries L L.final)) :
    ∀ l ∈ L.links,
      100 * (alphaInt (decP sc) L l + betaInt (decP sc) L l - normInt (decP sc) (alphaInt (decP sc) L) ents)
        ≤ 51 * ((budA L l + budB L l + budN L : Nat) : Int) := by
  intro l hl
  obtain ⟨_, _, _, _, h⟩ := C12_int_posterior_close ok (decP sc) (decP_law sc) (by decide)
    (by show cfgDec.lm.zero ≤ 0; decide) (decP_ge sc) (decP_ub sc) hr (budA_ok ok) (budB_ok ok) (budN_ok L) (budW_ok L) (budKB_ok L).1 (budKB_ok L).2 ents hents l hl
  exact int_bound_of_zpow_le checked_dec cfgDec_base h

/-- **C12, integer forward total = backward total up to the budget (decoder's table).**  The normaliser
(`dag->norm`, forward total) and the backward total (log-sum over the exits of the start node of
`beta + score`, with the same `logmath_add`) differ by at most `0.51·(budN L + budW L)`. -/
theorem C12_int_forward_backward_totals_agree (ok : LatticeOK G L) (sc : Link → Int) (hr : RoundHyps L sc (budKB L))
    (ents : List Link) (hents : ents.Perm (entries L L.final)) (hne : L.links ≠ []) :
    100 * (normInt (decP sc) (alphaInt (decP sc) L) ents - bwdInt (decP sc) L (betaInt (decP sc) L))
        ≤ 51 * ((budN L + budW L : Nat) : Int) ∧
    100 * (bwdInt (decP sc) L (betaInt (decP sc) L) - normInt (decP sc) (alphaInt (decP sc) L) ents)
        ≤ 51 * ((budN L + budW L : Nat) : Int) := by
  obtain ⟨h1, h2⟩ := C12_int_totals_close ok (decP sc) (decP_law sc) (by decide)
    (by show cfgDec.lm.zero ≤ 0; decide) (decP_ge sc) (decP_ub sc) hr (budA_ok ok) (budB_ok ok) (budN_ok L) (budW_ok L) (budKB_ok L).1 (budKB_ok L).2 ents hents hne
  rw [Nat.add_comm (budW L)] at h2
  exact ⟨int_bound_of_zpow_le checked_dec cfgDec_base h1, int_bound_of_zpow_le checked_dec cfgDec_base h2⟩

/-- **C12, lower sandwich: a link posterior is at least the posterior of every path through the link.**
For every start→end path `p ++ q` whose prefix `p` ends with the link `l`, the integer link posterior
`alpha l + beta l − norm` is at least the path posterior `joint(p ++ q) − norm` (what `lattice_posterior`
returns for the best path): links on the best path never have a smaller posterior than the best path.
(`E'`, `KB`: any backward budgets with their bound, e.g. `budB L`, `budKB L`; they only enter the overflow
hypothesis.) -/
theorem C12_int_link_posterior_ge_path_posterior (ok : LatticeOK G L) (sc : Link → Int) {KB : Nat} (hr : RoundHyps L sc KB)
    {E' : Link → Nat} (hE' : BudB L E') (hKB : ∀ l ∈ L.links, E' l ≤ KB) (ents : List Link) :
    ∀ l ∈ L.links, ∀ p q, Path L L.start p l.dst → p.getLast? = some l → Path L l.dst q L.final →
      jointInt (decP sc) (p ++ q) - normInt (decP sc) (alphaInt (decP sc) L) ents ≤
        alphaInt (decP sc) L l + betaInt (decP sc) L l - normInt (decP sc) (alphaInt (decP sc) L) ents := by
  intro l hl p q hp hlast hq
  have dag := DagOK.of_latticeOK ok
  have hne : p ≠ [] := fun h => by rw [h] at hlast; cases hlast
  obtain ⟨x, hw, _⟩ := Walk.of_path hp hne
  have hx : x = l := by
    have := hw.path.2
    rw [hlast] at this
    exact (Option.some.inj this).symm
  subst hx
  have h1 := (alphaInt_ge (P := decP sc) dag (by show cfgDec.lm.zero ≤ 0; decide) (decP_ge sc)
    (fun p y hw => (hr.nu p y.dst hw.path.1).le)).1 p x hw
  have hrank : ∀ l ∈ L.links, L.rank l.src < L.rank l.dst := fun l hl => rank_lt ok hl
  have hM : ∀ l ∈ L.links, L.rank l.dst ≤ L.nframes + 1 := fun l hl => rank_le ok (ok.endpoints.2.2 l hl).2
  have hfb := model_fwdBwdR (L := L) (w := fun l => cfgBase cfgDec ^ sc l) hrank hM
  have h2 := (betaInt_close dag (decP_law sc) (by decide) (decP_ge sc) (decP_ub sc) hr.nuB hE' hKB hr.hiB
    (fun l hl => hfb.bwd l hl) x hl).2.1 q hq
  have hj : jointInt (decP sc) (p ++ q) = jointInt (decP sc) p + jointInt (decP sc) q := by
    simp [jointInt, List.sum_append]
  omega

/-- **C12, the rounding bounds from the Boolean checkers the driver evaluates on every dumped lattice.**
`roundHypsB` (potentials `p` certify: no path score at or below log-zero, scores plus `6932` per log-addition
below `2^31`) and `budOKB` (node budgets `ea`, `eb` and totals `EN`, `EW` satisfy the budget conditions, `KB`
bounds the backward ones)
answer `true` ⇒ for every link the integer posterior is at most `0.51·(ea l.src + eb l.dst + EN)` above one
and (last conjunct) at least the posterior of every start→end path through the link; forward and backward
total differ by at most `0.51·(EN + EW)`. -/
theorem C12_round_checked (ok : LatticeOK G L) (sc : Link → Int) (p : Pots) (ea eb : Nat → Nat) (EN EW KB : Nat)
    (h1 : roundHypsB L sc cfgDec.lm.zero 6932 2147483648 KB p = true) (h2 : budOKB L ea eb EN EW KB = true)
    (ents : List Link) (hents : ents.Perm (entries L L.final)) :
    RoundHyps L sc KB ∧
    (∀ l ∈ L.links,
      100 * (alphaInt (decP sc) L l + betaInt (decP sc) L l - normInt (decP sc) (alphaInt (decP sc) L) ents)
        ≤ 51 * ((ea l.src + eb l.dst + EN : Nat) : Int)) ∧
    (L.links ≠ [] →
      100 * (normInt (decP sc) (alphaInt (decP sc) L) ents - bwdInt (decP sc) L (betaInt (decP sc) L))
          ≤ 51 * ((EN + EW : Nat) : Int) ∧
      100 * (bwdInt (decP sc) L (betaInt (decP sc) L) - normInt (decP sc) (alphaInt (decP sc) L) ents)
          ≤ 51 * ((EN + EW : Nat) : Int)) ∧
    (∀ l ∈ L.links, ∀ q r, Path L L.start q l.dst → q.getLast? = some l → Path L l.dst r L.final →
      jointInt (decP sc) (q ++ r) - normInt (decP sc) (alphaInt (decP sc) L) ents ≤
        alphaInt (decP sc) L l + betaInt (decP sc) L l - normInt (decP sc) (alphaInt (decP sc) L) ents) := by
  have hr : RoundHyps L sc KB := roundHypsB_sound (decP sc) 6932 2147483648 KB p h1
  obtain ⟨b1, b2, b3, b4, b5, b6⟩ := budOKB_sound ea eb EN EW KB h2
  refine ⟨hr, ?_, ?_, C12_int_link_posterior_ge_path_posterior ok sc hr b2 b5 ents⟩
  · intro l hl
    obtain ⟨_, _, _, _, h⟩ := C12_int_posterior_close ok (decP sc) (decP_law sc) (by decide)
      (by show cfgDec.lm.zero ≤ 0; decide) (decP_ge sc) (decP_ub sc) hr b1 b2 b3 b4 b5 b6 ents hents l hl
    exact int_bound_of_zpow_le checked_dec cfgDec_base h
  · intro hne
    obtain ⟨t1, t2⟩ := C12_int_totals_close ok (decP sc) (decP_law sc) (by decide)
      (by show cfgDec.lm.zero ≤ 0; decide) (decP_ge sc) (decP_ub sc) hr b1 b2 b3 b4 b5 b6 ents hents hne
    rw [Nat.add_comm EW] at t2
    exact ⟨int_bound_of_zpow_le checked_dec cfgDec_base t1, int_bound_of_zpow_le checked_dec cfgDec_base t2⟩

/-- **C12, the hypotheses of the older integer-pass and A\* theorems from the Boolean checkers.**  `roundHypsB = true`
discharges the no-underflow hypotheses `hnu`, `hnuB` of `C12_int_bestpath_posterior_dec` and
`C12_int_link_posterior_dec` (Props/C12.lean), `remOKB = true` the hypothesis of `C12_astar_first_is_max`:
their conclusions hold on every lattice on which the driver's checkers answer `true`. -/
theorem C12_old_hyps_checked (ok : LatticeOK G L) (sc : Link → Int) (p : Pots)
    (KB : Nat) (h1 : roundHypsB L sc cfgDec.lm.zero 6932 2147483648 KB p = true)
    (ents : List Link) (hents : ∀ x, x ∈ ents ↔ x ∈ L.links ∧ x.dst = L.final) :
    (∀ q, Path L L.start q L.final → q ≠ [] →
      jointInt (decP sc) q - normInt (decP sc) (alphaInt (decP sc) L) ents ≤ 0) ∧
    (∀ l ∈ L.links, alphaInt (decP sc) L l + betaInt (decP sc) L l - normInt (decP sc) (alphaInt (decP sc) L) ents
      ≤ 6932 * (L.links.length + addsB L (traverseEdges L) : Nat)) ∧
    (remOKB L = true → ∀ (k fuel : Nat) (p1 : APath) (rest : List APath), nbest L (k + 1) fuel = p1 :: rest →
      ∀ u ls, u < L.n → (L.node u).sf = 0 → Path L u ls L.final → score ls ≤ p1.score) := by
  have hr : RoundHyps L sc KB := roundHypsB_sound (decP sc) 6932 2147483648 KB p h1
  refine ⟨?_, ?_, ?_⟩
  · exact C12_int_bestpath_posterior_dec ok sc (fun q v hq => (hr.nu q v hq).le) ents hents
  · exact C12_int_link_posterior_dec ok sc (fun q v hq => (hr.nu q v hq).le) (fun v q hq => (hr.nuB v q hq).le) ents hents
  · intro h k fuel p1 rest hnb
    exact C12_astar_first_is_max ok (remOKB_sound h) k fuel p1 rest hnb

/-! ### non-vacuity on the example lattice of C11 (9 links, 4 start→end paths) -/

/-- a simple sufficient condition for the range hypotheses: all scaled link scores in `[lo, 0]`; a path has
at most `nframes + 1` links -/
theorem rangeHyps_of_score_bounds (ok : LatticeOK G L) (P : IntParams) {c hi lo : Int} {KB : Nat} (hlo : lo ≤ 0)
    (hsc : ∀ l ∈ L.links, lo ≤ P.sc l ∧ P.sc l ≤ 0)
    (h1 : P.lz < lo * ((L.nframes + 1 : Nat) : Int))
    (h2 : c * (L.links.length + (entries L L.final).length : Nat) < hi)
    (h3 : c * (KB : Int) < hi) : RangeHyps L P c hi KB := by
  have hsum : ∀ p : List Link, (∀ l ∈ p, l ∈ L.links) → lo * (p.length : Int) ≤ jointInt P p ∧ jointInt P p ≤ 0 := by
    intro p
    induction p with
    | nil => intro _; simp [jointInt]
    | cons x xs ih =>
      intro h
      obtain ⟨i1, i2⟩ := ih (fun l hl => h l (List.mem_cons_of_mem _ hl))
      obtain ⟨s1, s2⟩ := hsc x (h x List.mem_cons_self)
      rw [jointInt_cons]
      have : lo * ((x :: xs).length : Int) = lo * (xs.length : Int) + lo := by
        simp only [List.length_cons]; push_cast; ring
      rw [this]
      constructor <;> omega
  have hlen : ∀ (u v : Nat) (p : List Link), Path L u p v → p.length ≤ L.nframes + 1 := by
    intro u v p hp
    cases hp with
    | nil => simp
    | cons hm hs hrest =>
      exact path_length_le ok (.cons hm hs hrest) (hs ▸ (ok.endpoints.2.2 _ hm).1)
  have hlb : ∀ (u v : Nat) (p : List Link), Path L u p v → P.lz < jointInt P p ∧ jointInt P p ≤ 0 := by
    intro u v p hp
    obtain ⟨i1, i2⟩ := hsum p hp.mem
    have hl := hlen u v p hp
    have : lo * ((L.nframes + 1 : Nat) : Int) ≤ lo * (p.length : Int) :=
      Int.mul_le_mul_of_nonpos_left hlo (by exact_mod_cast hl)
    exact ⟨by omega, i2⟩
  exact ⟨fun p v hp => (hlb _ _ p hp).1, fun v q hq => (hlb _ _ q hq).1,
    fun p v hp => by have := (hlb _ _ p hp).2; omega, fun v q hq => by have := (hlb _ _ q hq).2; omega⟩

/-- the hypotheses hold on the example lattice with its link scores scaled by 100 -/
theorem exL_roundHyps : RoundHyps exL (fun l => l.ascr * 100) (budKB exL) :=
  rangeHyps_of_score_bounds exL_ok (decP fun l => l.ascr * 100) (lo := -4100) (by decide)
    (by decide) (by rw [show (decP fun l => l.ascr * 100).lz = -536870912 from rfl]; decide)
    (by decide +kernel) (by decide +kernel)

/-- the budgets of the example: the links leaving nodes 2 and 3 (two entries each) carry one table addition
forward, the links into nodes 4, 5 (two exits each) one backward; normaliser and backward total two -/
example : (exL.links.map (budA exL), exL.links.map (budB exL), budN exL, budW exL)
    = ([0, 0, 1, 1, 0, 0, 0, 0, 0], [1, 1, 0, 0, 0, 0, 0, 0, 1], 2, 2) := by decide +kernel

/-- the instance of `C12_int_posterior_le_one_plus_budget` / `C12_int_forward_backward_totals_agree` on the
example (every hypothesis discharged) -/
example : (∀ l ∈ exL.links,
    100 * (alphaInt (decP fun l => l.ascr * 100) exL l + betaInt (decP fun l => l.ascr * 100) exL l
        - normInt (decP fun l => l.ascr * 100) (alphaInt (decP fun l => l.ascr * 100) exL) (entries exL exL.final))
      ≤ 51 * ((budA exL l + budB exL l + budN exL : Nat) : Int)) ∧
    100 * (normInt (decP fun l => l.ascr * 100) (alphaInt (decP fun l => l.ascr * 100) exL) (entries exL exL.final)
        - bwdInt (decP fun l => l.ascr * 100) exL (betaInt (decP fun l => l.ascr * 100) exL))
      ≤ 51 * ((budN exL + budW exL : Nat) : Int) :=
  ⟨C12_int_posterior_le_one_plus_budget exL_ok _ exL_roundHyps _ (List.Perm.refl _),
   (C12_int_forward_backward_totals_agree exL_ok _ exL_roundHyps _ (List.Perm.refl _) (by decide)).1⟩

/-- the Boolean checkers accept the example with the potentials and budgets the driver computes -/
example : roundHypsB exL (fun l => l.ascr * 100) cfgDec.lm.zero 6932 2147483648 2 (potsOf exL fun l => l.ascr * 100) = true ∧
    budOKB exL (fun v => (budsOf exL).1.getD v 0) (fun v => (budsOf exL).2.1.getD v 0) (budsOf exL).2.2.1 (budsOf exL).2.2.2 2 = true ∧
    budKB exL = 2 ∧
    (budsOf exL).2.2 = (2, 2) := by decide +kernel

/-- … and reject scores that reach log-zero (scaled by 10^8: a path score of −8.1·10^9 < −2^29) -/
example : roundHypsB exL (fun l => l.ascr * 100000000) cfgDec.lm.zero 6932 2147483648 2 (potsOf exL fun l => l.ascr * 100000000) = false := by
  decide +kernel

/-- all hypotheses of `C12_int_link_posterior_dec` (Props/C12.lean) hold on the example: an instance of its conclusion -/
example : ∀ l ∈ exL.links,
    alphaInt (decP fun l => l.ascr * 100) exL l + betaInt (decP fun l => l.ascr * 100) exL l
      - normInt (decP fun l => l.ascr * 100) (alphaInt (decP fun l => l.ascr * 100) exL) (entries exL exL.final)
      ≤ 6932 * (exL.links.length + addsB exL (traverseEdges exL) : Nat) :=
  C12_int_link_posterior_dec exL_ok (fun l => l.ascr * 100)
    (fun p v hp => (exL_roundHyps.nu p v hp).le) (fun v q hq => (exL_roundHyps.nuB v q hq).le)
    (entries exL exL.final) (fun _ => mem_entries)

/-- all hypotheses of `C12_astar_first_is_max` (Props/C12.lean) hold on the example (`remTable` above
`WORST_SCORE` at every node, decided): the first of its six N-best entries dominates every path from a
frame-0 node to the end -/
example : ∀ u ls, u < exL.n → (exL.node u).sf = 0 → Path exL u ls exL.final → score ls ≤ -57 := by
  have h : nbest exL 6 50 = ⟨[0, 2, 5, 6], -57⟩ :: (nbest exL 6 50).tail := by decide +kernel
  exact C12_astar_first_is_max exL_ok (by decide +kernel) 5 50 _ _ h

/-- the exact instance on the example with weights `ef + 1`: forward total = backward total = 264, the value
of `C12_exact_forward_backward`'s example, computed by the association-list passes the driver executes -/
example : let Q := natGen fun l => l.ef + 1
    (normGen Q (lookG (alphaGenInit Q exL) (alphaGenT Q exL)) (entries exL exL.final),
     bwdGen Q exL (lookG (fun _ => Q.zero) (betaGenT Q exL))) = (264, 264) := by decide +kernel

end SSVerif.Lattice
