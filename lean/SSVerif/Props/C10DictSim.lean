import SSVerif.Proofs.DictLoadSim
import SSVerif.Proofs.DictLoadExact
import SSVerif.Proofs.TextDict
/-!
# C10 ↔ C16 — the C10 reader model's dictionary object is the projection of C16's

`TextIn.dictInit` (the dictionary reader of `Props/C10.lean`: word table only, lookup by linear
search, its own copy of `dict_add_word` / `dict_word2basestr` / the phone lookup) and
`DictLoad.loadDict` (the same tokeniser feeding C16's `dict_add_word` with its hash map) are two
independently written models of `dict_init_s3file`.  They are proved equal here, for all bytes:
accept/refuse agree, the refusal reason agrees, and the accepted object of C10 is `proj` (forget the
hash map and the bookkeeping fields) of C16's — so C10's `DictWF` object *is* a dictionary with C16's
invariant.  Case-sensitive mode (the C10 reader model has no `dictcase`).
-/
namespace SSVerif.DictLoad
open SSVerif.HashTable (Key)
open SSVerif.Dict
open SSVerif.TextIn (Buf Span)

/-- **The two models of `dict_init_s3file` agree on all bytes.** Unless the files have `MAX_S3WID`
(2^31 − 2) or more non-comment lines (a case the C10 reader model does not have), the C10 reader
returns exactly `toText` of the bridge's result: the same refusal (`<s>`, `</s>` or `<sil>` in the
main dictionary; `<sil>` not a filler) or, on acceptance, the projection of the C16 dictionary. -/
theorem C10_dict_reader_is_projection (phones : List Key) (sil : Nat) (main fdict : Option Buf) :
    loadDict { ciphones := phones, sil := sil } false main fdict = .error .tooMany ∨
    toText (loadDict { ciphones := phones, sil := sil } false main fdict) = TextIn.dictInit phones sil main fdict :=
  sim_dictInit phones sil main fdict

/-- **C10's accepted dictionary carries C16's invariant.** Every dictionary the C10 reader model
accepts is the projection of a C16 dictionary object that satisfies `WF` (hash map = index of the
word table, base ids, alternate chains), has the same word table, and in which lookup by hash map
and C10's linear search return the same id for every spelling. -/
theorem C10_dict_wf_object_is_C16_wf (phones : List Key) (sil : Nat) (main fdict : Option Buf) (dT : TextIn.Dict)
    (h : TextIn.dictInit phones sil main fdict = .ok dT) :
    loadDict { ciphones := phones, sil := sil } false main fdict = .error .tooMany ∨
    ∃ r : Loaded, loadDict { ciphones := phones, sil := sil } false main fdict = .ok r ∧
      WF r.dict ∧ proj r.dict = dT ∧ r.dict.nocase = false ∧ ∀ w : Key, dT.wordId w = r.dict.wordid w := by
  rcases sim_dictInit phones sil main fdict with ht | he
  · exact Or.inl ht
  · right
    rw [h] at he
    cases hl : loadDict { ciphones := phones, sil := sil } false main fdict with
    | error e =>
      rw [hl] at he
      cases e <;> simp [toText] at he
    | ok r =>
      rw [hl] at he
      simp only [toText, Except.ok.injEq] at he
      obtain ⟨_, _, _, _, hf, _, _⟩ := loadDict_ok hl
      have sm := sim_filler phones sil fdict (sim_main phones sil main fdict)
      obtain ⟨hwf, hx, _⟩ := finish_spec sm.wf hf
      have hnc : r.dict.nocase = false := hx.2.2.1.trans sm.nc
      exact ⟨r, rfl, hwf, he, hnc, sim_wordId ⟨hnc, hwf, he⟩⟩

/-- C10's own well-formedness (`DictWF`, `C10_dict_wf`) and C16's invariant hold together for the
dictionary the reader accepts -/
theorem C10_dict_both_invariants (phones : List Key) (sil : Nat) (hs : sil < phones.length)
    (main fdict : Option Buf) {r : Loaded}
    (h : loadDict { ciphones := phones, sil := sil } false main fdict = .ok r) :
    WF r.dict ∧ TextIn.DictWF phones.length (proj r.dict) := by
  obtain ⟨_, _, _, _, hf, _, _⟩ := loadDict_ok h
  have sm := sim_filler phones sil fdict (sim_main phones sil main fdict)
  refine ⟨(finish_spec sm.wf hf).1, ?_⟩
  rcases sim_dictInit phones sil main fdict with ht | he
  · rw [h] at ht; cases ht
  · rw [h] at he
    exact TextIn.dictInit_wf phones sil hs main fdict _ he.symm

/-- **The word table is exactly the loaded lines.** For all bytes, case modes and phone sets: the
word table of the returned dictionary, read as (spelling, phones) pairs in id order, is the lines of
the main file reported as loaded, in file order, then those of the filler file, then at most three
entries, each one of `<s>`, `</s>`, `<sil>` with the silence phone as its only phone; `filler_start`
is the number of loaded lines of the main file.  Nothing else ever enters the dictionary, no loaded
line is lost or reordered, no refused line leaves a trace. -/
theorem C10_dict_table_is_loaded_lines (m : Mdef) (nocase : Bool) (main fdict : Option Buf) {r : Loaded}
    (h : loadDict m nocase main fdict = .ok r) :
    ∃ sp : List (Key × List Nat),
      r.dict.words.map wp = loadedOf r.mainRep ++ loadedOf r.fillerRep ++ sp ∧ sp.length ≤ 3 ∧
      (∀ x ∈ sp, x.2 = [m.sil] ∧
        (x.1 = Generated.s3StartWord ∨ x.1 = Generated.s3FinishWord ∨ x.1 = Generated.s3SilenceWord)) ∧
      r.dict.fillerStart = (loadedOf r.mainRep).length := by
  obtain ⟨_, _, _, _, hf, e1, e2⟩ := loadDict_ok h
  have w0 := wf_initial nocase main fdict
  have w1 := wf_afterMain m nocase main fdict
  have w2 := wf_afterFiller w1 m fdict
  have hm : (afterMain m nocase main fdict).1.words.map wp = loadedOf r.mainRep := by
    rw [e1]
    have := loadOpt_words w0 m main
    have hi : (initial nocase main fdict).words = [] := rfl
    rw [hi, List.map_nil, List.nil_append] at this
    exact this
  have hfl : (afterFiller m fdict (afterMain m nocase main fdict).1).1.words.map wp =
      loadedOf r.mainRep ++ loadedOf r.fillerRep := by
    rw [e2, ← hm]
    exact loadOpt_words (d := { (afterMain m nocase main fdict).1 with
      fillerStart := (afterMain m nocase main fdict).1.words.length }) (wf_congr w1 rfl rfl rfl) m fdict
  have hfs : (afterFiller m fdict (afterMain m nocase main fdict).1).1.fillerStart = (loadedOf r.mainRep).length := by
    rw [← hm, List.length_map]
    exact loadOpt_fillerStart m fdict _
  obtain ⟨_, _, hfs', _⟩ := finish_spec w2 hf
  -- the three special words
  have a1 := wf_addIfMissing w2 m Generated.s3StartWord
  have a2 := wf_addIfMissing a1 m Generated.s3FinishWord
  obtain ⟨x1, c1, q1⟩ := addIfMissing_words w2 m Generated.s3StartWord
  obtain ⟨x2, c2, q2⟩ := addIfMissing_words a1 m Generated.s3FinishWord
  obtain ⟨x3, c3, q3⟩ := addIfMissing_words a2 m Generated.s3SilenceWord
  have hw : r.dict.words = (addIfMissing m (addIfMissing m (addIfMissing m
      (afterFiller m fdict (afterMain m nocase main fdict).1).1 Generated.s3StartWord) Generated.s3FinishWord)
      Generated.s3SilenceWord).words := by
    unfold finish at hf
    simp only at hf
    split at hf
    · cases hf
    · split at hf
      · cases hf
      · split at hf
        · rw [← Option.some.inj hf]
        · cases hf
  refine ⟨x1 ++ x2 ++ x3, ?_, ?_, ?_, by rw [hfs', hfs]⟩
  · rw [hw, q3, q2, q1, hfl]; simp [List.append_assoc]
  · rcases c1 with rfl | rfl <;> rcases c2 with rfl | rfl <;> rcases c3 with rfl | rfl <;> simp
  · intro x hx
    rcases List.mem_append.1 hx with hx | hx
    · rcases List.mem_append.1 hx with hx | hx
      · rcases c1 with rfl | rfl
        · cases hx
        · simp at hx; subst hx; exact ⟨rfl, Or.inl rfl⟩
      · rcases c2 with rfl | rfl
        · cases hx
        · simp at hx; subst hx; exact ⟨rfl, Or.inr (Or.inl rfl)⟩
    · rcases c3 with rfl | rfl
      · cases hx
      · simp at hx; subst hx; exact ⟨rfl, Or.inr (Or.inr rfl)⟩

-- non-vacuity: the example file of `Props/C10.lean`
example : (match TextIn.dictInit (["AH", "B", "F", "SIL", "UW"].map (·.toUTF8.data.toList)) 3
      (some "foo F UW\nfoo(2) F AH\n".toUTF8.data) (some "<sil> SIL\n".toUTF8.data) with
    | .ok d => d.words.map (fun e => (e.basewid, e.alt)) | .error _ => []) =
    [(0, some 1), (0, none), (2, none), (3, none), (4, none)] := by decide +kernel

end SSVerif.DictLoad
