import SSVerif.Model.LatticeCache
/-!
# C11 — cache clause over arbitrary call histories

"Asking for the lattice again without new audio returns the same object": the clause quantifies over
everything a caller may do between the two requests except feeding audio that is searched, starting a new
utterance or replacing the search.  `Call`/`Sess` (Model/LatticeCache) model the public calls as the cache
sees them; `Call.ofApi` classifies the API names and is evaluated by the driver on the names of the calls
the harness really made between its requests (so a call that is wrongly classified as harmless shows up as a
mismatch between the model's object identities and the pointers the C code returned).
-/
namespace SSVerif.Lattice

theorem request_some_dag (c : Cache) (f : Nat) (b : Bool) (id : Nat) (h : (c.request f b).2 = some id) :
    (c.request f b).1.dag = some (f, id) := by
  unfold Cache.request at h ⊢
  rcases c with ⟨dag, nid⟩
  cases dag with
  | none => cases b <;> simp_all
  | some d =>
    obtain ⟨nf, i⟩ := d
    by_cases hnf : nf = f
    · simp_all
    · cases b <;> simp_all

theorem request_hit (c : Cache) (f : Nat) (b : Bool) (id : Nat) (h : c.dag = some (f, id)) :
    c.request f b = (c, some id) := by
  unfold Cache.request
  rw [h]
  simp

/-- a quiet call leaves a session whose cache holds an object built for the current frame count unchanged, and
hands out that object if it is a request -/
theorem quiet_keeps (s : Sess) (c : Call) (id : Nat) (hq : c.quiet = true) (h : s.cache.dag = some (s.frame, id)) :
    (s.step c).1 = s ∧ ∀ r, (s.step c).2 = some r → r = some id := by
  cases c with
  | lattice b =>
    have := request_hit s.cache s.frame b id h
    simp [Sess.step, this]
  | audio k =>
    have : k = 0 := by simpa [Call.quiet] using hq
    subst this
    simp [Sess.step]
  | startUtt => simp [Call.quiet] at hq
  | newSearch => simp [Call.quiet] at hq
  | other => simp [Sess.step]
  | refused => simp [Sess.step]

theorem quiet_list_keeps (ops : List Call) (s : Sess) (id : Nat) (hq : ∀ c ∈ ops, c.quiet = true)
    (h : s.cache.dag = some (s.frame, id)) :
    s.after ops = s ∧ ∀ r ∈ s.outputs ops, r = some id := by
  induction ops with
  | nil => simp [Sess.after, Sess.outputs]
  | cons c cs ih =>
    have hc := quiet_keeps s c id (hq c (by simp)) h
    have ih' := ih (fun c' hc' => hq c' (by simp [hc']))
    refine ⟨by simp [Sess.after, hc.1, ih'.1], ?_⟩
    intro r hr
    unfold Sess.outputs at hr
    rw [hc.1] at hr
    cases hs : (s.step c).2 with
    | none =>
      rw [hs] at hr
      exact ih'.2 r hr
    | some r0 =>
      rw [hs] at hr
      rcases List.mem_cons.1 hr with rfl | hr
      · exact hc.2 _ hs
      · exact ih'.2 r hr

/-- **C11, cache after other calls.** A lattice request returned object `id`.  Whatever public calls follow —
any number, in any order, of hypothesis / segmentation / N-best / alignment / JSON queries, dictionary additions
with or without `update`, CMN and configuration accessors, further lattice requests, audio calls that search no
frame, grammar-setting calls that are REFUSED (`Call.refused`: a grammar with a word missing from the dictionary, a JSGF
that does not parse, an alignment text with an unknown word) (`Call.quiet`) — the next lattice request returns the very same object, every request in between does too,
and the cache still holds it.  (`ops` ranges over all call lists; the only hypothesis is the decidable
`Call.quiet` of each call, which the driver evaluates on the trace of the calls the harness made.) -/
theorem C11_cache_same_object_after_calls (s : Sess) (b b' : Bool) (id : Nat) (ops : List Call)
    (hq : ∀ c ∈ ops, c.quiet = true) (h : (s.step (.lattice b)).2 = some (some id)) :
    (((s.step (.lattice b)).1.after ops).step (.lattice b')).2 = some (some id) ∧
    (∀ r ∈ (s.step (.lattice b)).1.outputs ops, r = some id) ∧
    (((s.step (.lattice b)).1.after ops).step (.lattice b')).1.cache = (s.step (.lattice b)).1.cache := by
  have h0 : (s.cache.request s.frame b).2 = some id := by simpa [Sess.step] using h
  have hd : (s.step (.lattice b)).1.cache.dag = some ((s.step (.lattice b)).1.frame, id) := by
    simpa [Sess.step] using request_some_dag s.cache s.frame b id h0
  generalize (s.step (.lattice b)).1 = t at hd ⊢
  obtain ⟨hk, ho⟩ := quiet_list_keeps ops t id hq hd
  rw [hk]
  have hit := request_hit t.cache t.frame b' id hd
  refine ⟨?_, ho, ?_⟩
  · show some (t.cache.request t.frame b').2 = _
    rw [hit]
  · show (t.cache.request t.frame b').1 = t.cache
    rw [hit]

/-- **C11, cache: the call classification.** What `Call.ofApi` says about the API names: `decoder_lattice` is a
request; exactly the audio entry points, `decoder_start_utt` and the calls that replace the search are not quiet
(audio only when it searched a frame); every other listed public call is. -/
theorem C11_cache_api_classes :
    (∀ n ∈ otherApi, ∀ a, (Call.ofApi n a).map Call.quiet = some true) ∧
    (∀ n ∈ audioApi, ∀ a, (Call.ofApi n a).map Call.quiet = some (a == 0)) ∧
    (∀ n ∈ newSearchApi, ∀ a, (Call.ofApi n a).map Call.quiet = some false) ∧
    (∀ a, (Call.ofApi "decoder_start_utt" a).map Call.quiet = some false) ∧
    (∀ a, Call.ofApi "decoder_lattice" a = some (.lattice (a != 0))) := by
  refine ⟨?_, ?_, ?_, ?_, ?_⟩
  · intro n hn a
    simp only [otherApi, List.mem_cons, List.not_mem_nil, or_false] at hn
    rcases hn with h | h | h | h | h | h | h | h | h | h | h | h | h | h | h | h | h | h | h | h | h | h | h <;>
      subst h <;> simp [Call.ofApi, audioApi, newSearchApi, otherApi, Call.quiet]
  · intro n hn a
    simp only [audioApi, List.mem_cons, List.not_mem_nil, or_false] at hn
    rcases hn with h | h | h <;> subst h <;> simp [Call.ofApi, audioApi, Call.quiet]
  · intro n hn a
    simp only [newSearchApi, List.mem_cons, List.not_mem_nil, or_false] at hn
    rcases hn with h | h | h | h | h | h <;> subst h <;> simp [Call.ofApi, audioApi, newSearchApi, Call.quiet]
  · intro a; simp [Call.ofApi, audioApi, Call.quiet]
  · intro a; simp [Call.ofApi]

/-- **C11, cache: a refused grammar is a no-op.** A grammar-setting call that returns an error leaves the session —
frame count, cached lattice, the counter of objects handed out — exactly as it was and hands out nothing; by its API
name (`…_refused`, the name the harness prints for a call that returned −1) it is classified as such and is quiet, so
`C11_cache_same_object_after_calls` quantifies over call lists that contain any number of refused grammar changes
between the two requests.  The names are those of the four grammar-setting members of `newSearchApi` (whose accepted calls are `newSearch`, not
quiet: `C11_cache_api_classes`) with `_refused` appended. -/
theorem C11_cache_refused_grammar_is_noop :
    (∀ s : Sess, s.step .refused = (s, none)) ∧
    (∀ n ∈ refusedApi, ∀ a, Call.ofApi n a = some .refused) ∧
    Call.quiet .refused = true ∧
    refusedApi = (newSearchApi.take 4).map (· ++ "_refused") := by
  refine ⟨fun s => rfl, ?_, rfl, by decide⟩
  · intro n hn a
    simp only [refusedApi, List.mem_cons, List.not_mem_nil, or_false] at hn
    rcases hn with h | h | h | h <;> subst h <;> simp [Call.ofApi, audioApi, newSearchApi, otherApi, refusedApi]

/-- **C11, cache across refused grammar changes** (the instance of `C11_cache_same_object_after_calls` the error path
needs, stated on its own): after a request returned object `id`, any number of refused grammar-setting calls, mixed with
any other quiet calls, and the next request returns `id` again. -/
theorem C11_cache_same_object_after_refused_grammar (s : Sess) (b b' : Bool) (id : Nat) (pre post : List Call) (k : Nat)
    (hpre : ∀ c ∈ pre, c.quiet = true) (hpost : ∀ c ∈ post, c.quiet = true)
    (h : (s.step (.lattice b)).2 = some (some id)) :
    (((s.step (.lattice b)).1.after (pre ++ List.replicate k .refused ++ post)).step (.lattice b')).2 = some (some id) := by
  refine (C11_cache_same_object_after_calls s b b' id _ ?_ h).1
  intro c hc
  simp only [List.mem_append, List.mem_replicate] at hc
  rcases hc with (hc | ⟨_, rfl⟩) | hc
  · exact hpre c hc
  · rfl
  · exact hpost c hc

/-! ### non-vacuity -/

-- a request, a refused grammar, a query, another refused grammar, a request: same object; an ACCEPTED grammar: no object
example :
    let s2 := ((Sess.init.step .startUtt).1.step (.audio 120)).1
    ((((s2.step (.lattice true)).1.after [.refused, .other, .refused]).step (.lattice true)).2,
     (((s2.step (.lattice true)).1.after [.newSearch]).step (.lattice false)).2) = (some (some 0), some none) := by decide

example : ((["decoder_start_utt", "decoder_process_int16", "decoder_lattice", "decoder_set_jsgf_string_refused",
      "decoder_set_fsg_refused", "decoder_lattice", "decoder_set_jsgf_string", "decoder_lattice"].zip
      [0, 120, 1, 0, 0, 1, 0, 0]).mapM fun (n, a) => Call.ofApi n a).map (fun cs => (Sess.init.outputs cs, quietFlags true cs)) =
    some ([some 0, some 0, none], [false, true, false]) := by decide


-- a request, then hyp / add_word(update) / N-best / an `end_utt` that flushed nothing / another request: same object
example :
    let ops := [Call.other, .other, .audio 0, .lattice false, .other]
    let s1 := (Sess.init.step .startUtt).1
    let s2 := (s1.step (.audio 120)).1
    ((s2.step (.lattice true)).2, (s2.step (.lattice true)).1.outputs ops,
      (((s2.step (.lattice true)).1.after ops).step (.lattice false)).2) = (some (some 0), [some 0], some (some 0)) := by
  decide

-- audio that searched frames in between: a new object
example :
    let s2 := ((Sess.init.step .startUtt).1.step (.audio 120)).1
    (((s2.step (.lattice true)).1.after [.other, .audio 3]).step (.lattice true)).2 = some (some 1) := by decide

-- the trace of a whole harness run: names classified, identities computed
example : ((["decoder_start_utt", "decoder_process_int16", "decoder_lattice", "decoder_add_word_update", "decoder_lattice"].zip
      [0, 120, 1, 0, 0]).mapM fun (n, a) => Call.ofApi n a).map (fun cs => (Sess.init.outputs cs, quietFlags true cs)) =
    some ([some 0, some 0], [false, true]) := by decide

end SSVerif.Lattice
