import SSVerif.Proofs.AlignLevel
import SSVerif.Proofs.AlignStepWF
import SSVerif.Proofs.AlignRun
import SSVerif.Proofs.AlignOpt
import SSVerif.Proofs.AlignWordSplit
import SSVerif.Proofs.AlignNoRenorm
import SSVerif.Generated.SearchConsts
/-!
# C04 — Forced alignment is a consistent words > phones > states hierarchy

Property theorems only (model: `SSVerif/Model/Align.lean`; the model describes the code with the repairs of
D11 — the score of state 0 is assigned — and of D29 — the second pass stops at the end of the first-pass
hypothesis, so the number of frames `T` of the token stack is the end of the last first-pass word).

Vocabulary.  `populate D words` is `alignment_populate` on the first-pass words (`mkWord wid sf (ef-sf+1)`);
`finish tokens T final a` is `state_align_search_finish` (backtrace over the token stack of `T` frames, then
`alignment_propagate`); `Contig l a b` = the segments of `l` tile `[a,b)` in order with positive durations;
`Parts parents blocks` = every block of children tiles its parent's frames exactly and the parent's score is
the sum of the block; `splitLens lens l` cuts `l` into consecutive blocks of the given lengths;
`wfTokens` = the hypothesis `WFTokens` (the token stack encodes a monotone state path `0 → S-1` without
skipped states, every frame inside the activity window `[sf, ef)` of its phone) — an executable predicate that
the driver evaluates on every token stack dumped from the real search.
-/
namespace SSVerif.Align

/-! ### structure of the populated alignment -/

/-- **C04, `populate_structure`.**  `alignment_populate` keeps the first-pass words (id, start, duration) in
order; the phone vector is block-structured by word (`parent` = word index, the word's `child` = index of
its first phone) and the phones of word `w` are exactly `D.pron w` in order; the state vector is
block-structured by phone (`parent` = phone index, `child` = `p * nEmit`) and the states of a phone are
`sen ssid 0 … sen ssid (nEmit-1)` in order; phones and states carry the activity window of their word. -/
theorem C04_populate_structure (D : Dict) (words : List Entry) :
    let a := populate D words
    a.words.map (fun e => (e.id, e.start, e.duration, e.score)) = words.map (fun e => (e.id, e.start, e.duration, e.score)) ∧
    a.words.map (·.child) = childIdx 0 (words.map (plen D)) ∧
    a.phones.map (·.parent) = patternFrom 0 (words.map (plen D)) ∧
    (splitLens (words.map (plen D)) a.phones).map (·.map (·.id)) = words.map (fun w => D.pron w.id) ∧
    a.phones.length = (words.map (plen D)).sum ∧
    a.phones.map winE = blockWins (words.map (plen D)) (words.map winE) ∧
    a.phones.map (·.child) = (List.range' 0 a.phones.length).map (· * D.nEmit) ∧
    a.states.map (·.parent) = patternFrom 0 (List.replicate a.phones.length D.nEmit) ∧
    (splitLens (List.replicate a.phones.length D.nEmit) a.states).map (·.map (·.id)) =
      a.phones.map (fun e => (List.range D.nEmit).map (D.sen e.ssid)) ∧
    a.states.length = (List.replicate a.phones.length D.nEmit).sum ∧
    a.states.map winE = blockWins (List.replicate a.phones.length D.nEmit) (a.phones.map winE) := by
  intro a
  obtain ⟨w1, w2, w3, w4, w5, w6⟩ := popWords_spec D words 0 0 D.sil
  obtain ⟨s1, s2, s3, s4, s5, s6⟩ := popStates_spec D (popWords D 0 0 D.sil words).2 0
  have eP : a.phones = (popStates D 0 (popWords D 0 0 D.sil words).2).1 := rfl
  have hlen : a.phones.length = (popWords D 0 0 D.sil words).2.length := by
    have := congrArg List.length s1
    rw [eP]; simpa using this
  have hpar : a.phones.map (·.parent) = (popWords D 0 0 D.sil words).2.map (·.parent) := by
    have := congrArg (List.map (fun t : Int × Int × Int × Nat × Int × Int × Int => t.2.2.2.1)) s1
    rw [eP]; simpa [List.map_map, noChild, Function.comp_def] using this
  have hid : a.phones.map (·.id) = (popWords D 0 0 D.sil words).2.map (·.id) := by
    have := congrArg (List.map (fun t : Int × Int × Int × Nat × Int × Int × Int => t.2.2.2.2.1)) s1
    rw [eP]; simpa [List.map_map, noChild, Function.comp_def] using this
  have hssid : a.phones.map (·.ssid) = (popWords D 0 0 D.sil words).2.map (·.ssid) := by
    have := congrArg (List.map (fun t : Int × Int × Int × Nat × Int × Int × Int => t.2.2.2.2.2.1)) s1
    rw [eP]; simpa [List.map_map, noChild, Function.comp_def] using this
  have hwin : a.phones.map winE = (popWords D 0 0 D.sil words).2.map winE := by
    let g : Int × Int × Int × Nat × Int × Int × Int → Int × Int := fun t =>
      winE { start := t.1, duration := t.2.1, score := 0, parent := 0, child := 0, id := 0 }
    have hg : ∀ l : List Entry, l.map winE = (l.map noChild).map g := by
      intro l; rw [List.map_map]; apply List.map_congr_left; intro e _; rfl
    rw [eP, hg, hg, s1]
  have hsplit : ∀ (lens : List Nat) (l1 l2 : List Entry), l1.map (·.id) = l2.map (·.id) →
      (splitLens lens l1).map (·.map (·.id)) = (splitLens lens l2).map (·.map (·.id)) := by
    intro lens
    induction lens with
    | nil => intro _ _ _; rfl
    | cons n ns ih =>
      intro l1 l2 h
      simp only [splitLens, List.map_cons, List.map_take]
      rw [h, ih (l1.drop n) (l2.drop n) (by simp only [List.map_drop]; rw [h])]
  have hsen : a.phones.map (fun e => (List.range D.nEmit).map (D.sen e.ssid)) =
      (popWords D 0 0 D.sil words).2.map (fun e => (List.range D.nEmit).map (D.sen e.ssid)) := by
    have := congrArg (List.map (fun s : Int => (List.range D.nEmit).map (D.sen s))) hssid
    simpa [List.map_map, Function.comp_def] using this
  refine ⟨w1, w2, hpar.trans w3, ?_, hlen.trans w6, hwin.trans w4, ?_, ?_, ?_, ?_, ?_⟩
  · rw [hsplit _ _ _ hid]; exact w5
  · rw [hlen]; exact s2
  · rw [hlen]; exact s3
  · rw [hlen, hsen]; exact s5
  · rw [hlen]; exact s6
  · rw [hlen, hwin]; exact s4

/-! ### the alignment after the second pass -/

/-- **C04, `backtrace_partition`.**  For every dictionary (with `nEmit > 0` and non-empty pronunciations),
every first-pass word list, every token stack of any number of frames `T` that encodes a well-formed path
(`wfTokens`, windows of the populated state entries): `state_align_search_finish` succeeds and in the
alignment it leaves
* the states tile `[0,T)` in order with positive durations (`Contig`), and so do the phones and the words —
  every level is contiguous from frame 0;
* the states of each phone exactly partition the phone's frames and the phones of each word exactly
  partition the word's frames (`Parts`), with every block non-empty;
* no identity / parent / child field changed (`keyOf`). -/
theorem C04_backtrace_partition (D : Dict) (words : List Entry) (tokens : List (List Tok)) (T : Nat) (final : Tok)
    (hE : 0 < D.nEmit) (hP : ∀ w ∈ words, D.pron w.id ≠ [])
    (hwf : wfTokens tokens (winOf (populate D words).states) T (populate D words).states.length final = true) :
    ∃ a', finish tokens T final (populate D words) = some a' ∧
      Contig a'.states 0 T ∧ Contig a'.phones 0 T ∧ Contig a'.words 0 T ∧
      Parts a'.phones (splitLens (List.replicate a'.phones.length D.nEmit) a'.states) ∧
      Parts a'.words (splitLens (words.map (plen D)) a'.phones) ∧
      a'.states.map keyOf = (populate D words).states.map keyOf ∧
      a'.phones.map keyOf = (populate D words).phones.map keyOf ∧
      a'.words.map keyOf = (populate D words).words.map keyOf ∧
      WithinW a'.words (words.map winE) ∧ ScoreChain tokens final 0 a'.states := by
  obtain ⟨p1, _, p3, _, p5, p6, _, p8, _, p10, p11⟩ := C04_populate_structure D words
  obtain ⟨st, hbt, hc, hwi, hsc, hk⟩ := backtrace_spec tokens final T _ hwf
  generalize hA : populate D words = a at *
  have hposP : ∀ n ∈ List.replicate a.phones.length D.nEmit, 0 < n := by
    intro n hn; rw [(List.mem_replicate.1 hn).2]; exact hE
  have hposW : ∀ n ∈ words.map (plen D), 0 < n := by
    intro n hn
    obtain ⟨w, hw, rfl⟩ := List.mem_map.1 hn
    exact List.length_pos_iff.2 (hP w hw)
  have hwlen : a.words.length = (words.map (plen D)).length := by
    have := congrArg List.length p1
    simpa using this
  -- phones
  have L1 := level_spec (List.replicate a.phones.length D.nEmit) st a.phones (a.phones.map winE) 0 T
    ((keys_parent hk).trans p8) hposP (by simp) ((keys_length hk).trans p10) (by simp) hc
    (by rw [← p11]; exact within2_withinW _ _ hwi)
  obtain ⟨c1, pa1, k1, wi1⟩ := L1
  -- words
  have L2 := level_spec (words.map (plen D)) (propLevel st a.phones) a.words (words.map winE) 0 T
    ((keys_parent k1).trans p3) hposW hwlen ((keys_length k1).trans p5) (by simp) c1
    (by rw [← p6]; exact wi1)
  obtain ⟨c2, pa2, k2, wi2⟩ := L2
  refine ⟨propagate { a with states := st }, ?_, hc, c1, c2, ?_, pa2, hk, k1, k2, wi2, hsc⟩
  · simp [finish, hbt]
  · show Parts (propLevel st a.phones) (splitLens (List.replicate (propLevel st a.phones).length D.nEmit) st)
    rw [keys_length k1]; exact pa1


/-- **C04, the children handed out by the iterator API are the blocks.**  In the alignment after the second
pass, `alignment_iter_children` of word `i` followed by `alignment_iter_next` until the parent changes
(`childrenOf`) yields exactly block `i` of the phone vector, and likewise the states of phone `p` — so the
partition statements of `C04_backtrace_partition` (`Parts`) are statements about what the API returns. -/
theorem C04_children_are_blocks (D : Dict) (words : List Entry) (tokens : List (List Tok)) (T : Nat) (final : Tok)
    (hE : 0 < D.nEmit) (hP : ∀ w ∈ words, D.pron w.id ≠ [])
    (hwf : wfTokens tokens (winOf (populate D words).states) T (populate D words).states.length final = true) :
    ∃ a', finish tokens T final (populate D words) = some a' ∧
      (∀ i, i < words.length →
        childrenOf a'.phones i ((a'.words.map (·.child)).getD i 0) = (splitLens (words.map (plen D)) a'.phones).getD i []) ∧
      (∀ p, p < a'.phones.length →
        childrenOf a'.states p ((a'.phones.map (·.child)).getD p 0) =
          (splitLens (List.replicate a'.phones.length D.nEmit) a'.states).getD p []) := by
  obtain ⟨a', h1, _, _, _, _, _, ks, kp, kw, _, _⟩ := C04_backtrace_partition D words tokens T final hE hP hwf
  obtain ⟨_, p2, p3, _, _, _, p7, p8, _, _, _⟩ := C04_populate_structure D words
  have hposW : ∀ n ∈ words.map (plen D), 0 < n := by
    intro n hn
    obtain ⟨w, hw, rfl⟩ := List.mem_map.1 hn
    exact List.length_pos_iff.2 (hP w hw)
  have hposP : ∀ n ∈ List.replicate a'.phones.length D.nEmit, 0 < n := by
    intro n hn; rw [(List.mem_replicate.1 hn).2]; exact hE
  refine ⟨a', h1, ?_, ?_⟩
  · intro i hi
    have := childrenOf_blocks (words.map (plen D)) 0 a'.phones i ((keys_parent kp).trans p3) hposW (by simpa using hi)
    rw [keys_child kw, p2]
    simpa using this
  · intro p hp
    have hlen := keys_length kp
    have := childrenOf_blocks (List.replicate a'.phones.length D.nEmit) 0 a'.states p
      (by rw [hlen]; exact (keys_parent ks).trans p8) hposP (by simpa using hp)
    rw [keys_child kp, p7, ← hlen]
    rw [← childIdx_replicate]
    simpa using this

/-- **C04, `boundaries_preserved`.**  If in addition the first-pass words tile `[0,T)` (what
`decoder_alignment` asserts while it collects them: `seg->sf == prev_ef + 1`, durations `ef - sf + 1 > 0`),
the words of the alignment are exactly the first-pass words with the same start frames and durations. -/
theorem C04_boundaries_preserved (D : Dict) (words : List Entry) (tokens : List (List Tok)) (T : Nat) (final : Tok)
    (hE : 0 < D.nEmit) (hP : ∀ w ∈ words, D.pron w.id ≠ [])
    (hwf : wfTokens tokens (winOf (populate D words).states) T (populate D words).states.length final = true)
    (hfp : Contig words 0 T) :
    ∃ a', finish tokens T final (populate D words) = some a' ∧
      a'.words.map (·.id) = words.map (·.id) ∧
      a'.words.map (fun e => (e.start, e.duration)) = words.map (fun e => (e.start, e.duration)) := by
  obtain ⟨a', h1, _, _, c2, _, _, _, _, k2, wi2, _⟩ := C04_backtrace_partition D words tokens T final hE hP hwf
  obtain ⟨p1, _⟩ := C04_populate_structure D words
  refine ⟨a', h1, ?_, ?_⟩
  · rw [keys_id k2]
    have := congrArg (List.map (fun t : Int × Int × Int × Int => t.1)) p1
    simpa [List.map_map, Function.comp_def] using this
  · refine tilings_eq a'.words (words.map winE) 0 T c2 wi2 words ?_ hfp
    apply List.map_congr_left
    intro e he
    obtain ⟨h0, hd⟩ := contig_facts words 0 T hfp (by omega) e he
    simp only [winE, sfOf, efOf, hd, if_true]
    by_cases hs : e.start > 0
    · simp [hs]
    · have : e.start = 0 := by omega
      simp [this]

/-- **C04, `scores_add_up`.**  Under the hypotheses of `backtrace_partition`: every phone's score is the sum of
its states' scores and every word's score is the sum of its phones' scores (`Parts`); each state score is the
difference of the cumulative path scores recorded in the token stack at its two ends — state 0 starts from 0,
the last state ends with the final out-score (`ScoreChain`, this is where the D11 repair is needed); hence the
word scores add up to the final out-score of the search. -/
theorem C04_scores_add_up (D : Dict) (words : List Entry) (tokens : List (List Tok)) (T : Nat) (final : Tok)
    (hE : 0 < D.nEmit) (hP : ∀ w ∈ words, D.pron w.id ≠ [])
    (hwf : wfTokens tokens (winOf (populate D words).states) T (populate D words).states.length final = true) :
    ∃ a', finish tokens T final (populate D words) = some a' ∧
      Parts a'.phones (splitLens (List.replicate a'.phones.length D.nEmit) a'.states) ∧
      Parts a'.words (splitLens (words.map (plen D)) a'.phones) ∧
      ScoreChain tokens final 0 a'.states ∧
      sumScore a'.states = final.score ∧ sumScore a'.phones = final.score ∧ sumScore a'.words = final.score := by
  obtain ⟨a', h1, _, _, _, pa1, pa2, ks, kp, _, _, hsc⟩ := C04_backtrace_partition D words tokens T final hE hP hwf
  obtain ⟨_, _, _, _, p5, _, _, _, _, p10, _⟩ := C04_populate_structure D words
  have hs : sumScore a'.states = final.score := by
    have := scoreChain_sum tokens final a'.states 0 hsc
    cases hst : a'.states with
    | nil =>
      -- impossible: wfTokens requires at least one state
      simp only [wfTokens, Bool.and_eq_true, decide_eq_true_eq] at hwf
      have hl := keys_length ks
      rw [hst] at hl
      simp at hl
      omega
    | cons e r => rw [hst] at this; simpa [outCum, cumIn] using this
  have hp : sumScore a'.phones = sumScore a'.states := by
    rw [parts_sum _ _ pa1, splitLens_flatten]
    rw [keys_length kp, keys_length ks]; exact p10
  have hw : sumScore a'.words = sumScore a'.phones := by
    rw [parts_sum _ _ pa2, splitLens_flatten]
    rw [keys_length kp]; exact p5
  exact ⟨a', h1, pa1, pa2, hsc, hs, hp.trans hs, hw.trans (hp.trans hs)⟩

/-- **C04, the checker is the predicate.**  `alignOKB` (run by the driver on what `decoder_alignment` returned
through the iterator API) returns `true` exactly when the hierarchy predicate `AlignOK` holds. -/
theorem C04_alignOKB_iff (pron : Int → List Int) (nEmit : Nat) (senOK : Int → Nat → Int → Bool) (expSen : List (List Int))
    (fp : List Seg) (T : Int) (t : List WNode) :
    alignOKB pron nEmit senOK expSen fp T t = true ↔ AlignOK pron nEmit senOK expSen fp T t :=
  alignOKB_iff pron nEmit senOK expSen fp T t

/-- **C04, `alignStep_WFTokens`.**  For every number of phones, every window arrays `sf`/`ef`, every sequence of
per-frame senone scores (any length `T ≤ 16 140` frames, precisely `T · 33022 ≤ 533 000 000`): if the transition matrices have no skip transitions
and the data are in the ranges of the C types (`Step.FrameOK`), the first window starts at frame 0, the exit frames
`ef` are non-decreasing, `T ≤ ef` of the last phone, and the final out-score of the constrained Viterbi
(`state_align_search_step`, model `Step.run`) is alive (`> WORST_SCORE`), then the
token stack it produced satisfies `wfTokens`: the backtrace from the final state meets no `-1`, moves by at most one
state per frame down to state 0 in frame 0, and every frame lies inside the `[sf, ef)` window of its phone.
(The bound on `T` makes "alive" persistent: no score reaches the clamp at `WORST_SCORE`; the renormalisation test of
the repaired code — `best_score BETTER_THAN WORST_SCORE && best_score - 0x300000 WORSE_THAN WORST_SCORE`, D28,
`Step.renormDue` — is part of the model and is proved never to fire for such `T`: `C04_alignStep_never_renormalises`.) -/
theorem C04_alignStep_WFTokens (tps : Array (Array Int)) (sf ef : Array Int) (frames : List (Array Int))
    (hok : ∀ sen ∈ frames, Step.FrameOK tps sen) (hsf : sf.getD 0 0 ≤ 0)
    (hmono : ∀ i, i + 1 < sf.size → ef.getD i 0 ≤ ef.getD (i + 1) 0)
    (hT : (frames.length : Int) * 33022 ≤ 533000000)
    (hend : (frames.length : Int) ≤ ef.getD (sf.size - 1) 0)
    (halive : (Step.run tps sf ef frames).2.1.score > Step.worst) :
    wfTokens (Step.run tps sf ef frames).1 (Step.win sf ef) frames.length (3 * sf.size)
      (Step.run tps sf ef frames).2.1 = true :=
  Step.run_wfTokens tps sf ef frames hok hsf hmono hT hend halive

/-- **C04, the second pass of an utterance of at most 16 140 frames is never renormalised.**  For every number of
phones, window arrays and per-frame senone scores with `T · 33022 ≤ 533 000 000` (`T ≤ 16 140`), skip-free matrices
and in-range data, first window starting at frame 0, `ef` non-decreasing: the renormalisation test of
`state_align_search_step` (state_align_search.c:201-202 with the repair of D28, model `Step.renormDue`:
`best > WORST_SCORE ∧ best - 0x300000 < WORST_SCORE`) is false in every frame of `Step.run` — whether or not the search
is alive at the end (the third component of `Step.run` records whether the branch was ever taken).  Reason: an alive
best score is one of the scores `hmm_vit_eval_3st_lr` wrote, an alive score after `f` frames is `≥ -f·33022`, and
`16 140 · 33 022 < 2^29 - 0x300000`.  Beyond that length the branch can fire; it is in the model (`Step.step`) and is
exercised against the real `renormalize_hmms` by the correspondence check (hand-stepped passes started close to the
threshold, `Step.runWith`), but the theorems with hypothesis `hT` say nothing about such runs. -/
theorem C04_alignStep_never_renormalises (tps : Array (Array Int)) (sf ef : Array Int) (frames : List (Array Int))
    (hok : ∀ sen ∈ frames, Step.FrameOK tps sen) (hsf : sf.getD 0 0 ≤ 0)
    (hmono : ∀ i, i + 1 < sf.size → ef.getD i 0 ≤ ef.getD (i + 1) 0)
    (hT : (frames.length : Int) * 33022 ≤ 533000000) :
    (Step.run tps sf ef frames).2.2 = false :=
  Step.run_no_renorm tps sf ef frames hok hsf hmono hT

/-- the test of the repaired code: a dead search (`best = WORST_SCORE`) is not renormalised, an alive best score just
below the threshold is; `Step.runWith 0` is `Step.run` -/
example : ¬ Step.renormDue Step.worst := by decide
example : Step.renormDue (-533725185) ∧ ¬ Step.renormDue (-533725184) := by decide
example (tps : Array (Array Int)) (sf ef : Array Int) (frames : List (Array Int)) :
    Step.runWith 0 tps sf ef frames = Step.run tps sf ef frames := rfl

/-- **C04, the hypothesis `wfTokens` is discharged for model runs.**  Three emitting states per phone; first-pass
words that tile `[0,T)`; the constrained Viterbi run on the window arrays of the populated alignment over any `T`
frames of in-range senone scores with skip-free matrices: whenever its final out-score is alive, the token stack
satisfies the hypothesis of `C04_backtrace_partition`, `C04_children_are_blocks`, `C04_boundaries_preserved` and
`C04_scores_add_up`. -/
theorem C04_model_run_wfTokens (D : Dict) (words : List Entry) (tps : Array (Array Int)) (frames : List (Array Int))
    (h3 : D.nEmit = 3) (hP : ∀ w ∈ words, D.pron w.id ≠ []) (hfp : Contig words 0 frames.length)
    (hok : ∀ sen ∈ frames, Step.FrameOK tps sen) (hT : (frames.length : Int) * 33022 ≤ 533000000)
    (halive : (Step.run tps ((populate D words).phones.map sfOf).toArray ((populate D words).phones.map efOf).toArray
      frames).2.1.score > Step.worst) :
    wfTokens (Step.run tps ((populate D words).phones.map sfOf).toArray ((populate D words).phones.map efOf).toArray
        frames).1 (winOf (populate D words).states) frames.length (populate D words).states.length
      (Step.run tps ((populate D words).phones.map sfOf).toArray ((populate D words).phones.map efOf).toArray
        frames).2.1 = true := by
  obtain ⟨_, _, _, _, _, p6, _, _, _, p10, p11⟩ := C04_populate_structure D words
  generalize populate D words = a at *
  rw [h3] at p10 p11
  have hposW : ∀ n ∈ words.map (plen D), 0 < n := by
    intro n hn
    obtain ⟨w, hw, rfl⟩ := List.mem_map.1 hn
    exact List.length_pos_iff.2 (hP w hw)
  obtain ⟨w1, w2, w3⟩ := populated_windows_ok words (words.map (plen D)) a.phones frames.length hfp (by simp) hposW p6
  have hsz : (a.phones.map sfOf).toArray.size = a.phones.length := by simp
  have hlenS : a.states.length = 3 * (a.phones.map sfOf).toArray.size := by rw [p10, sum_replicate3, hsz]
  have h := C04_alignStep_WFTokens tps (a.phones.map sfOf).toArray (a.phones.map efOf).toArray frames hok w1
    (by rw [hsz]; exact w2) hT (by rw [hsz]; exact w3) halive
  rw [hlenS, ← h]
  apply wfTokens_congr
  intro k hk
  rw [hsz] at hk
  exact winOf_eq_win a.phones a.states p11 k hk

/-- **C04, the hierarchy for model runs, without a hypothesis on the token stack.**  Under the hypotheses of
`C04_model_run_wfTokens`: the second pass succeeds; states, phones and words tile `[0,T)`; children exactly partition
their parents; the words are the first-pass words with their start frames and durations; every parent's score is the
sum of its children's and the word scores add up to the final out-score. -/
theorem C04_model_run_hierarchy (D : Dict) (words : List Entry) (tps : Array (Array Int)) (frames : List (Array Int))
    (h3 : D.nEmit = 3) (hP : ∀ w ∈ words, D.pron w.id ≠ []) (hfp : Contig words 0 frames.length)
    (hok : ∀ sen ∈ frames, Step.FrameOK tps sen) (hT : (frames.length : Int) * 33022 ≤ 533000000)
    (halive : (Step.run tps ((populate D words).phones.map sfOf).toArray ((populate D words).phones.map efOf).toArray
      frames).2.1.score > Step.worst) :
    let r := Step.run tps ((populate D words).phones.map sfOf).toArray ((populate D words).phones.map efOf).toArray frames
    ∃ a', finish r.1 frames.length r.2.1 (populate D words) = some a' ∧
      Contig a'.states 0 frames.length ∧ Contig a'.phones 0 frames.length ∧ Contig a'.words 0 frames.length ∧
      Parts a'.phones (splitLens (List.replicate a'.phones.length D.nEmit) a'.states) ∧
      Parts a'.words (splitLens (words.map (plen D)) a'.phones) ∧
      a'.words.map (·.id) = words.map (·.id) ∧
      a'.words.map (fun e => (e.start, e.duration)) = words.map (fun e => (e.start, e.duration)) ∧
      sumScore a'.words = r.2.1.score := by
  intro r
  have hE : 0 < D.nEmit := by omega
  have hwf := C04_model_run_wfTokens D words tps frames h3 hP hfp hok hT halive
  obtain ⟨a1, f1, c1, c2, c3, pa1, pa2, _⟩ := C04_backtrace_partition D words r.1 frames.length r.2.1 hE hP hwf
  obtain ⟨a2, f2, i1, i2⟩ := C04_boundaries_preserved D words r.1 frames.length r.2.1 hE hP hwf hfp
  obtain ⟨a3, f3, _, _, _, _, _, s3⟩ := C04_scores_add_up D words r.1 frames.length r.2.1 hE hP hwf
  have e2 : a2 = a1 := by rw [f1] at f2; exact (Option.some.inj f2).symm
  have e3 : a3 = a1 := by rw [f1] at f3; exact (Option.some.inj f3).symm
  subst e2; subst e3
  exact ⟨_, f1, c1, c2, c3, pa1, pa2, i1, i2, s3⟩

/-- **C04, the out-score of the second pass is the best admissible path score** (the alignment-side half of the score
clause; formerly named `C04_word_score_is_acoustic_part_partial`, kept as an alias below — the statement mentions
no words, no first pass and no acoustic part).  Viterbi optimality of the aligner's
constrained search (`Step.run`; no renormalisation happens for such `T`, `C04_alignStep_never_renormalises`) for every
number of phones, windows and frames (`T ≤ 16 140`), with skip-free matrices and in-range data: the final out-score is an upper bound of the score of
**every** admissible complete state path — a path that starts in state 0 at frame 0, moves by at most one state per
frame, enters a phone not before its `sf`, occupies every frame inside the `[sf, ef)` window of its phone and leaves
the last state after frame `T-1`; its score is the sum of `-senone score` of the occupied states and `-transition
cost` of the moves (`Step.PathTo`, `Step.FullPath`) — and, when alive, it **is** the score of such a path.
Together with `C04_scores_add_up` (`Σ word scores = final out-score`, each state score a difference of cumulative
path scores) the aligned scores are those of a best window-constrained path over the same senone scores.
The per-word statement — each single word's score is the best score of a path segment over that word's frames — is
`C04_word_score_is_best_segment`.  **Not proved** (the score clause of C04 stays partial): the identification with the first-pass acoustic
score, which needs the first pass to be optimal inside the word boundaries with the same cross-word triphones (C02's
network model; false for the two known-finding classes).  That equality is evaluated on the implementation under
`compallsen=yes`. -/
theorem C04_alignScore_is_best_path (tps : Array (Array Int)) (sf ef : Array Int) (frames : List (Array Int))
    (hok : ∀ sen ∈ frames, Step.FrameOK tps sen) (hsf : sf.getD 0 0 ≤ 0)
    (hmono : ∀ i, i + 1 < sf.size → ef.getD i 0 ≤ ef.getD (i + 1) 0)
    (hT : (frames.length : Int) * 33022 ≤ 533000000)
    (hend : (frames.length : Int) ≤ ef.getD (sf.size - 1) 0) :
    (∀ sc, Step.FullPath tps sf ef (fun g => frames.getD g #[]) sf.size frames.length sc →
      sc ≤ (Step.run tps sf ef frames).2.1.score) ∧
    ((Step.run tps sf ef frames).2.1.score > Step.worst →
      Step.FullPath tps sf ef (fun g => frames.getD g #[]) sf.size frames.length (Step.run tps sf ef frames).2.1.score) :=
  Step.run_optimal tps sf ef frames hok hsf hmono hT hend

/-- old name of `C04_alignScore_is_best_path` (other files and DESIGN refer to it) -/
theorem C04_word_score_is_acoustic_part_partial (tps : Array (Array Int)) (sf ef : Array Int) (frames : List (Array Int))
    (hok : ∀ sen ∈ frames, Step.FrameOK tps sen) (hsf : sf.getD 0 0 ≤ 0)
    (hmono : ∀ i, i + 1 < sf.size → ef.getD i 0 ≤ ef.getD (i + 1) 0)
    (hT : (frames.length : Int) * 33022 ≤ 533000000)
    (hend : (frames.length : Int) ≤ ef.getD (sf.size - 1) 0) :
    (∀ sc, Step.FullPath tps sf ef (fun g => frames.getD g #[]) sf.size frames.length sc →
      sc ≤ (Step.run tps sf ef frames).2.1.score) ∧
    ((Step.run tps sf ef frames).2.1.score > Step.worst →
      Step.FullPath tps sf ef (fun g => frames.getD g #[]) sf.size frames.length (Step.run tps sf ef frames).2.1.score) :=
  C04_alignScore_is_best_path tps sf ef frames hok hsf hmono hT hend

/-- **C04, each aligned word score is the best score over that word's frames.**  Model runs as in
`C04_model_run_hierarchy` (three states per phone, first-pass words tiling `[0,T)`, skip-free matrices, in-range data,
`T ≤ 16 140`, final score alive).  For every word `i`, with `c_i = 3 · (number of phones before word i)` its first
state and `A_i` its first-pass start frame: the score the second pass gives the word is an upper bound of the score
of **every** path segment (`Step.SegTo`: same moves, windows and costs as `Step.PathTo`) that starts in state `c_i` at
frame `A_i` and arrives in the first state of the next word at that word's start frame — for the last word: that
leaves the last state after frame `T-1` (`Step.FullSeg`) — and it **is** the score of such a segment.
(The windows pin the word boundaries: every admissible path enters word `i` exactly at `(A_i, c_i)`, so path scores
split there; token scores are the best path scores, and state scores are their differences.) -/
theorem C04_word_score_is_best_segment (D : Dict) (words : List Entry) (tps : Array (Array Int))
    (frames : List (Array Int)) (h3 : D.nEmit = 3) (hP : ∀ w ∈ words, D.pron w.id ≠ [])
    (hfp : Contig words 0 frames.length) (hok : ∀ sen ∈ frames, Step.FrameOK tps sen)
    (hT : (frames.length : Int) * 33022 ≤ 533000000)
    (halive : (Step.run tps ((populate D words).phones.map sfOf).toArray ((populate D words).phones.map efOf).toArray
      frames).2.1.score > Step.worst) (i : Nat) (hi : i < words.length) :
    let sf := ((populate D words).phones.map sfOf).toArray
    let ef := ((populate D words).phones.map efOf).toArray
    let r := Step.run tps sf ef frames
    let sens := fun g => frames.getD g #[]
    let n := (populate D words).phones.length
    let lens := words.map (plen D)
    ∃ a' w x, finish r.1 frames.length r.2.1 (populate D words) = some a' ∧ a'.words[i]? = some w ∧ words[i]? = some x ∧
      (∀ y, words[i + 1]? = some y →
        (∀ sc, Step.SegTo tps sf ef sens n (3 * pre lens i) x.start.toNat y.start.toNat (3 * pre lens (i + 1)) sc →
          sc ≤ w.score) ∧
        Step.SegTo tps sf ef sens n (3 * pre lens i) x.start.toNat y.start.toNat (3 * pre lens (i + 1)) w.score) ∧
      (words[i + 1]? = none →
        (∀ sc, Step.FullSeg tps sf ef sens n (3 * pre lens i) x.start.toNat frames.length sc → sc ≤ w.score) ∧
        Step.FullSeg tps sf ef sens n (3 * pre lens i) x.start.toNat frames.length w.score) := by
  intro sf ef r sens n lens
  have hE : 0 < D.nEmit := by omega
  have hwf := C04_model_run_wfTokens D words tps frames h3 hP hfp hok hT halive
  obtain ⟨a1, f1, _, _, _, pa1, pa2, ks, kp, _, _, hsc⟩ := C04_backtrace_partition D words r.1 frames.length r.2.1 hE hP hwf
  obtain ⟨a2, f2, _, i2⟩ := C04_boundaries_preserved D words r.1 frames.length r.2.1 hE hP hwf hfp
  have e2 : a2 = a1 := by rw [f1] at f2; exact (Option.some.inj f2).symm
  subst e2
  obtain ⟨_, _, _, _, p5, p6, _, _, _, p10, _⟩ := C04_populate_structure D words
  have hposW : ∀ n ∈ words.map (plen D), 0 < n := by
    intro n hn
    obtain ⟨w, hw, rfl⟩ := List.mem_map.1 hn
    exact List.length_pos_iff.2 (hP w hw)
  have hlp : a2.phones.length = lens.sum := (keys_length kp).trans p5
  have hls : a2.states.length = 3 * a2.phones.length := by
    rw [keys_length ks, p10, h3, sum_replicate3, keys_length kp]
  have hbd : a2.words.map (·.start) = words.map (·.start) := by
    have := congrArg (List.map (fun t : Int × Int => t.1)) i2
    simpa [List.map_map, Function.comp_def] using this
  rw [h3] at pa1
  obtain ⟨w, x, q1, q2, q3, q4⟩ := word_split tps frames words (populate D words).phones a2.words a2.phones a2.states lens
    p6 hfp (by simp [lens]) hposW p5 hok hT halive pa2 pa1 hlp hls hsc hbd i hi
  exact ⟨a2, w, x, f1, q1, q2, q3, q4⟩

/-- **C04, model runs: the word scores add up to the best path score.**  Under the hypotheses of
`C04_model_run_hierarchy`, the sum of the aligned word scores is the maximum of the scores of the admissible complete
paths through the windows of the populated alignment. -/
theorem C04_model_run_scores_optimal_partial (D : Dict) (words : List Entry) (tps : Array (Array Int))
    (frames : List (Array Int)) (h3 : D.nEmit = 3) (hP : ∀ w ∈ words, D.pron w.id ≠ [])
    (hfp : Contig words 0 frames.length) (hok : ∀ sen ∈ frames, Step.FrameOK tps sen)
    (hT : (frames.length : Int) * 33022 ≤ 533000000)
    (halive : (Step.run tps ((populate D words).phones.map sfOf).toArray ((populate D words).phones.map efOf).toArray
      frames).2.1.score > Step.worst) :
    let sf := ((populate D words).phones.map sfOf).toArray
    let ef := ((populate D words).phones.map efOf).toArray
    let r := Step.run tps sf ef frames
    ∃ a', finish r.1 frames.length r.2.1 (populate D words) = some a' ∧
      (∀ sc, Step.FullPath tps sf ef (fun g => frames.getD g #[]) sf.size frames.length sc → sc ≤ sumScore a'.words) ∧
      Step.FullPath tps sf ef (fun g => frames.getD g #[]) sf.size frames.length (sumScore a'.words) := by
  intro sf ef r
  obtain ⟨a', f1, _, _, _, _, _, _, _, hsum⟩ := C04_model_run_hierarchy D words tps frames h3 hP hfp hok hT halive
  obtain ⟨_, _, _, _, _, p6, _, _, _, _, _⟩ := C04_populate_structure D words
  have hposW : ∀ n ∈ words.map (plen D), 0 < n := by
    intro n hn
    obtain ⟨w, hw, rfl⟩ := List.mem_map.1 hn
    exact List.length_pos_iff.2 (hP w hw)
  obtain ⟨w1, w2, w3⟩ := populated_windows_ok words (words.map (plen D)) (populate D words).phones frames.length hfp
    (by simp) hposW p6
  have hsz : sf.size = (populate D words).phones.length := by simp [sf]
  obtain ⟨o1, o2⟩ := C04_word_score_is_acoustic_part_partial tps sf ef frames hok w1 (by rw [hsz]; exact w2) hT
    (by rw [hsz]; exact w3)
  refine ⟨a', f1, ?_, ?_⟩
  · intro sc h; rw [hsum]; exact o1 sc h
  · rw [hsum]; exact o2 halive

/-- **C04 (growth), `alignStep_WFTokens` — partial.**  One frame of the constrained Viterbi
(`state_align_search_step` for 3-state HMMs, model `Step.step`): if the between-frames invariant `Step.Inv` holds
(it does at the start, `C04_alignStep_inv_start`), the transition matrices have no skip transitions (`NoSkip3`), the
data are in the ranges of the C types and no renormalisation is due, then every backpointer pushed on the token
stack for state `k` is `-1`, `k` or `k-1` (`TokLocs`: no token skips a state or goes backwards), the token row is
exactly the concatenation of `rowOf` over the HMMs, and the invariant holds again.  By induction every token of
every frame is local, so any backward walk that meets no `-1` is monotone without skipped states.
(Superseded by `C04_alignStep_WFTokens`, which proves the whole of `wfTokens` for complete runs; this per-frame
statement is kept because it needs no bound on the number of frames.) -/
theorem C04_alignStep_tokens_local_partial (tps : Array (Array Int)) (sf ef : Array Int) (sen : Array Int) (f : Int)
    (s : Step.Search) (hI : Step.Inv s.hmms) (hok : Step.FrameOK tps sen) (hnr : ¬ Step.renormDue s.best) :
    (∀ i h, (Step.advance tps sf ef sen f s.hmms)[i]? = some h → Step.TokLocs i h) ∧
    (Step.step tps sf ef sen f s).2 = (Step.advance tps sf ef sen f s.hmms).flatMap (Step.rowOf f) ∧
    Step.Inv (Step.step tps sf ef sen f s).1.hmms := by
  obtain ⟨h1, h2⟩ := Step.advance_local tps sf ef sen f s.hmms hI hok
  refine ⟨h1, ?_, ?_⟩
  · simp [Step.step, hnr]
  · simpa [Step.step, hnr] using h2

/-- the invariant of `C04_alignStep_tokens_local_partial` holds when the search starts -/
theorem C04_alignStep_inv_start (n : Nat) : Step.Inv (Step.start n).hmms := Step.inv_start n

/-- generated-constant obligation: the constants of the step model (`Model/Align.lean`, namespace `Step`) are
the ones of the current headers (`WORST_SCORE`, `INT_MIN`, `TMAT_WORST_SCORE = -255`, regenerated on every run) -/
theorem C04_step_constants :
    Step.worst = SSVerif.Generated.Search.worstScore ∧ Step.intMin = SSVerif.Generated.Search.intMin ∧
      (255 : Int) = -SSVerif.Generated.Search.tmatWorstScore := by decide

/-! ### non-vacuity: a concrete utterance meeting the hypotheses

Two words (`pron 0 = [5, 6]`, `pron 1 = [7]`), one emitting state per phone, 8 frames, state path
`0 0 1 1 1 2 2 2`, cumulative scores -10, -20, …, -80. -/

def exDict : Dict :=
  { nEmit := 1, sil := 9, pron := fun w => if w = 0 then [5, 6] else [7], tmat := id,
    lrdiph := fun b _ _ => 100 + b, ldiph := fun b _ _ => 200 + b, internal := fun _ _ => 300,
    rssid := fun c _ _ => 400 + c, sen := fun s j => 10 * s + j }

def exWords : List Entry := [mkWord 0 0 5, mkWord 1 5 3]

def exTokens : List (List Tok) :=
  [[⟨0, -10⟩, ⟨-1, -1⟩, ⟨-1, -1⟩], [⟨-1, -1⟩, ⟨0, -20⟩, ⟨-1, -1⟩], [⟨-1, -1⟩, ⟨1, -30⟩, ⟨-1, -1⟩],
   [⟨-1, -1⟩, ⟨1, -40⟩, ⟨-1, -1⟩], [⟨-1, -1⟩, ⟨-1, -1⟩, ⟨1, -50⟩], [⟨-1, -1⟩, ⟨-1, -1⟩, ⟨2, -60⟩],
   [⟨-1, -1⟩, ⟨-1, -1⟩, ⟨2, -70⟩], []]

example : 0 < exDict.nEmit ∧ (∀ w ∈ exWords, exDict.pron w.id ≠ []) ∧ Contig exWords 0 8 ∧
    wfTokens exTokens (winOf (populate exDict exWords).states) 8 (populate exDict exWords).states.length ⟨2, -80⟩ = true := by
  decide

example : (finish exTokens 8 ⟨2, -80⟩ (populate exDict exWords)).map
      (fun a => (a.words.map (fun e => (e.id, e.start, e.duration, e.score)),
                 a.phones.map (fun e => (e.id, e.start, e.duration, e.score)),
                 a.states.map (fun e => (e.id, e.start, e.duration, e.score)))) =
    some ([(0, 0, 5, -50), (1, 5, 3, -30)],
          [(5, 0, 2, -20), (6, 2, 3, -30), (7, 5, 3, -30)],
          [(2050, 0, 2, -20), (4060, 2, 3, -30), (1070, 5, 3, -30)]) := by
  rfl

/-- the checker accepts the tree of that alignment and rejects it when one state duration is changed -/
def exTree (d : Int) : List WNode :=
  [ { e := { mkWord 0 0 5 with score := -50 },
      phones := [ { e := { start := 0, duration := 2, score := -20, parent := 0, child := 0, id := 5 },
                    states := [{ start := 0, duration := d, score := -20, parent := 0, child := 0, id := 2050 }] },
                  { e := { start := 2, duration := 3, score := -30, parent := 0, child := 1, id := 6 },
                    states := [{ start := 2, duration := 3, score := -30, parent := 1, child := 0, id := 4060 }] } ] },
    { e := { mkWord 1 5 3 with score := -30, child := 2 },
      phones := [ { e := { start := 5, duration := 3, score := -30, parent := 1, child := 2, id := 7 },
                    states := [{ start := 5, duration := 3, score := -30, parent := 2, child := 0, id := 1070 }] } ] } ]

example : alignOKB exDict.pron 1 (fun _ _ _ => true) [[2050], [4060], [1070]] [⟨0, 0, 4⟩, ⟨1, 5, 7⟩] 8 (exTree 2) = true := by decide
example : alignOKB exDict.pron 1 (fun _ _ _ => true) [[2050], [4060], [1070]] [⟨0, 0, 4⟩, ⟨1, 5, 7⟩] 8 (exTree 1) = false := by decide
/-- a state list that is not the one of the phone in its context is rejected -/
example : alignOKB exDict.pron 1 (fun _ _ _ => true) [[2050], [4061], [1070]] [⟨0, 0, 4⟩, ⟨1, 5, 7⟩] 8 (exTree 2) = false := by decide


/-- non-vacuity of the step model and of `wfTokens` on it: two phones with a no-skip matrix, windows `[0,3)` and
`[3,7)`, seven frames of constant senone scores — the constrained Viterbi produces a token stack that satisfies
`wfTokens`, ends in the last state, and never renormalises -/
def exTp : Array Int := #[10, 20, 255, 255,  255, 10, 20, 255,  255, 255, 10, 20]

example :
    let r := Step.run #[exTp, exTp] #[0, 3] #[3, 7] (List.replicate 7 #[5, 6, 7, 8, 9, 10])
    wfTokens r.1 (fun k => if k < 3 then (0, 3) else (3, 7)) 7 6 r.2.1 = true ∧ r.2.1 = ⟨5, -183⟩ ∧ r.2.2 = false := by
  decide

theorem exGetD_ge {α : Type} (a : Array α) (n : Nat) (d : α) (h : a.size ≤ n) : a.getD n d = d := by
  unfold Array.getD; rw [dif_neg (by omega)]

/-- the hypotheses of `C04_alignStep_WFTokens` hold for that run (non-vacuity of the theorem) -/
theorem exTp_range : ∀ n : Nat, 0 ≤ exTp.getD n 255 ∧ exTp.getD n 255 ≤ 255
  | 0 | 1 | 2 | 3 | 4 | 5 | 6 | 7 | 8 | 9 | 10 | 11 => by decide
  | n + 12 => by rw [exGetD_ge exTp (n + 12) 255 (by simp [exTp])]; decide

theorem exRun_hyps : (∀ sen ∈ List.replicate 7 (#[5, 6, 7, 8, 9, 10] : Array Int), Step.FrameOK #[exTp, exTp] sen) ∧
    (#[0, 3] : Array Int).getD 0 0 ≤ 0 ∧
    (∀ i, i + 1 < (#[0, 3] : Array Int).size → (#[3, 7] : Array Int).getD i 0 ≤ (#[3, 7] : Array Int).getD (i + 1) 0) ∧
    (((List.replicate 7 (#[5, 6, 7, 8, 9, 10] : Array Int)).length : Nat) : Int) * 33022 ≤ 533000000 ∧
    (((List.replicate 7 (#[5, 6, 7, 8, 9, 10] : Array Int)).length : Nat) : Int) ≤ (#[3, 7] : Array Int).getD ((#[0, 3] : Array Int).size - 1) 0 ∧
    (Step.run #[exTp, exTp] #[0, 3] #[3, 7] (List.replicate 7 #[5, 6, 7, 8, 9, 10])).2.1.score > Step.worst := by
  refine ⟨?_, by decide, ?_, by decide, by decide, by decide⟩
  · intro sen hs
    rw [(List.mem_replicate.1 hs).2]
    have htp : ∀ i a b, 0 ≤ Step.tpAt ((#[exTp, exTp] : Array (Array Int)).getD i #[]) a b ∧
        Step.tpAt ((#[exTp, exTp] : Array (Array Int)).getD i #[]) a b ≤ 255 := by
      intro i a b
      match i with
      | 0 => exact exTp_range _
      | 1 => exact exTp_range _
      | i + 2 =>
        rw [exGetD_ge _ (i + 2) #[] (by simp)]
        simp only [Step.tpAt]
        rw [exGetD_ge _ _ 255 (by simp)]; decide
    refine ⟨?_, htp, ?_⟩
    · intro i
      match i with
      | 0 => exact ⟨by decide, by decide⟩
      | 1 => exact ⟨by decide, by decide⟩
      | i + 2 =>
        rw [exGetD_ge _ (i + 2) #[] (by simp)]
        simp only [Step.NoSkip3, Step.tpAt]
        rw [exGetD_ge _ _ 255 (by simp), exGetD_ge _ _ 255 (by simp)]; exact ⟨rfl, rfl⟩
    · intro k
      match k with
      | 0 | 1 | 2 | 3 | 4 | 5 => decide
      | k + 6 => rw [exGetD_ge _ (k + 6) 0 (by simp)]; decide
  · intro i hi
    have : i = 0 := by simp at hi; omega
    subst this; decide

/-- non-vacuity of `C04_word_score_is_acoustic_part_partial`: for that run an admissible complete path with the final
score -183 exists, and no admissible complete path scores more -/
example : Step.FullPath #[exTp, exTp] #[0, 3] #[3, 7] (fun g => (List.replicate 7 (#[5, 6, 7, 8, 9, 10] : Array Int)).getD g #[])
    2 7 (-183) ∧
    ∀ sc, Step.FullPath #[exTp, exTp] #[0, 3] #[3, 7]
      (fun g => (List.replicate 7 (#[5, 6, 7, 8, 9, 10] : Array Int)).getD g #[]) 2 7 sc → sc ≤ -183 := by
  obtain ⟨h1, h2, h3, h4, h5, h6⟩ := exRun_hyps
  obtain ⟨o1, o2⟩ := C04_word_score_is_acoustic_part_partial #[exTp, exTp] #[0, 3] #[3, 7]
    (List.replicate 7 #[5, 6, 7, 8, 9, 10]) h1 h2 h3 h4 h5
  have e : (Step.run #[exTp, exTp] #[0, 3] #[3, 7] (List.replicate 7 #[5, 6, 7, 8, 9, 10])).2.1.score = -183 := by decide
  rw [e] at o1 o2
  exact ⟨o2 (by decide), o1⟩

/-- non-vacuity of `C04_alignStep_never_renormalises`: its hypotheses hold for the run above; and a DEAD run (phone
windows [0,3),[3,6) but 9 frames: the audit's probe; outside `hend`, every HMM has expired after frame 6 and the last
phone keeps its exit score -183) is not renormalised either, as in the repaired C code — with the guard of the
unrepaired code (no `best > WORST_SCORE` conjunct) the model subtracted `WORST_SCORE` from the leftover scores in each
of the dead frames (the audit measured a final score of +536 870 729 on such a run) -/
example : (Step.run #[exTp, exTp] #[0, 3] #[3, 7] (List.replicate 7 #[5, 6, 7, 8, 9, 10])).2.2 = false := by
  obtain ⟨h1, h2, h3, h4, _, _⟩ := exRun_hyps
  exact C04_alignStep_never_renormalises _ _ _ _ h1 h2 h3 h4
example : (Step.run #[exTp, exTp] #[0, 3] #[3, 6] (List.replicate 9 #[5, 6, 7, 8, 9, 10])).2.2 = false ∧
    (Step.run #[exTp, exTp] #[0, 3] #[3, 6] (List.replicate 9 #[5, 6, 7, 8, 9, 10])).2.1.score = -183 := by decide

/-- non-vacuity of the model-run theorems (`C04_model_run_hierarchy`, `C04_word_score_is_best_segment`, …): a
dictionary with three states per phone and two one-phone words whose populated windows are those of the run above -/
def exDict3 : Dict :=
  { nEmit := 3, sil := 9, pron := fun w => if w = 0 then [5] else [6], tmat := id,
    lrdiph := fun b _ _ => 100 + b, ldiph := fun b _ _ => 200 + b, internal := fun _ _ => 300,
    rssid := fun c _ _ => 400 + c, sen := fun s j => 10 * s + j }

def exWords3 : List Entry := [mkWord 0 0 3, mkWord 1 3 4]

example : ∃ a' w, finish (Step.run #[exTp, exTp] ((populate exDict3 exWords3).phones.map sfOf).toArray
      ((populate exDict3 exWords3).phones.map efOf).toArray (List.replicate 7 #[5, 6, 7, 8, 9, 10])).1 7
      (Step.run #[exTp, exTp] ((populate exDict3 exWords3).phones.map sfOf).toArray
        ((populate exDict3 exWords3).phones.map efOf).toArray (List.replicate 7 #[5, 6, 7, 8, 9, 10])).2.1
      (populate exDict3 exWords3) = some a' ∧ a'.words[0]? = some w := by
  obtain ⟨h1, _, _, _, _, _⟩ := exRun_hyps
  obtain ⟨a', w, x, f, q1, _, _, _⟩ := C04_word_score_is_best_segment exDict3 exWords3 #[exTp, exTp]
    (List.replicate 7 #[5, 6, 7, 8, 9, 10]) rfl (by decide) (by decide) h1 (by decide) (by decide) 0 (by decide)
  exact ⟨a', w, by simpa using f, q1⟩

end SSVerif.Align
