import SSVerif.Proofs.DictLoad
/-!
# C16 — the invariant holds after any interleaving of dictionary-file reads and run-time additions

C16-side corollary of the bridge C10 → C16 (`Props/C10Dict.lean`).  An event is either a whole byte
string read as a dictionary file into the current dictionary (`dict_read_s3file`: what the main pass
does on the empty and the filler pass on a non-empty dictionary) or an operation of C16's history
model (`decoder_add_word`, `dict_add_word`, lookups).
-/
namespace SSVerif.DictLoad
open SSVerif.HashTable (Key)
open SSVerif.Dict
open SSVerif.TextIn (Buf)

theorem wf_stepEv {d : Dict} (h : WF d) (m : Mdef) (ev : Ev) : WF (stepEv m d ev) := by
  cases ev with
  | file buf => exact wf_loadLines h m buf _
  | op o => exact wf_step h m o

theorem ext_stepEv {d : Dict} (h : WF d) (m : Mdef) (ev : Ev) : Ext d (stepEv m d ev) := by
  cases ev with
  | file buf => exact ext_loadLines h m buf _
  | op o =>
    refine ⟨fun i e he => step_old_entry h m o he, fun k i hk => step_old_id h m o hk, ?_, ?_⟩
    · cases o <;> simp only [stepEv, step]
      · unfold decoderAddWord; split
        · rfl
        · split
          · rfl
          · exact (dictAddWord_fields _ _ _).1
      · exact (dictAddWord_fields _ _ _).1
    · cases o <;> simp only [stepEv, step]
      · unfold decoderAddWord; split
        · exact Nat.le_refl _
        · split
          · exact Nat.le_refl _
          · exact dictAddWord_length _ h _ _
      · exact dictAddWord_length _ h _ _
      · exact Nat.le_refl _
      · exact Nat.le_refl _

/-- **Invariant under any interleaving of file loads and run-time additions.** Starting from any
well-formed dictionary — the empty one, or one returned by `dict_init_s3file` on any bytes
(`C10_dict_feeds_C16`) — after any sequence of dictionary texts read into it and API operations, in
any order and of any length, the invariant `WF` holds, and every word known at the start keeps its
id, spelling, pronunciation and base id. -/
theorem C16_wf_files_and_additions {d : Dict} (h : WF d) (m : Mdef) (evs : List Ev) :
    WF (runEv m d evs) ∧ Ext d (runEv m d evs) := by
  unfold runEv
  induction evs generalizing d with
  | nil => exact ⟨h, Ext.refl d⟩
  | cons ev evs ih =>
    obtain ⟨a, b⟩ := ih (wf_stepEv h m ev)
    exact ⟨a, (ext_stepEv h m ev).trans b⟩

/-- the same from the dictionary the text reader returns -/
theorem C16_wf_loaded_then_anything (m : Mdef) (nocase : Bool) (main fdict : Option Buf) {r : Loaded}
    (h : loadDict m nocase main fdict = .ok r) (evs : List Ev) : WF (runEv m r.dict evs) := by
  obtain ⟨_, _, _, _, hf, _, _⟩ := loadDict_ok h
  exact (C16_wf_files_and_additions
    (finish_spec (wf_afterFiller (wf_afterMain m nocase main fdict) m fdict) hf).1 m evs).1

-- non-vacuity: a file, an addition of an alternate of a word of that file, another file with a
-- duplicate and a further alternate
example : ((runEv { ciphones := [[65], [66]], sil := 0 } (Dict.empty false 0)
    [.file "x A\ny B\n".toUTF8.data, .op (.add [120, 40, 50, 41] [66]), .file "x B\nx(3) A A\n".toUTF8.data]).words.map
      fun e => (e.word, e.basewid, e.alt)) =
    [([120], 0, some 3), ([121], 1, none), ([120, 40, 50, 41], 0, none), ([120, 40, 51, 41], 0, some 2)] := by
  decide +kernel

end SSVerif.DictLoad
