import SSVerif.Props.C20
import SSVerif.Proofs.HashTableIter
/-!
# C20 — the iterator and the list export, as the code walks them

`Model/HashTableIter.lean` models `hash_table_iter`, `hash_table_iter_next` (the `{ent, idx}` cursor: follow
`ent->next`, else skip empty buckets, stop when `idx == size`) and the nested loop of `hash_table_tolist` without
mentioning `flatten`.  The theorems here prove that those walks produce `iter h = h.buckets.flatten` — the list the
refinement theorems of `Props/C20.lean` are about — and that the iterator returns NULL after exactly that many
visits.  The driver (`Driver/C20.lean`) executes `iterWalk` / `tolistWalk`, and the C20 check compares their RAW
visiting order with the one the real code produces.

Quantifier.  The property speaks of iteration "after any sequence of enter, replace, delete, empty and lookup
operations": the table does not change between `hash_table_iter` and the NULL return.  Modifying the table during
an iteration is outside the property (and unspecified in `hash_table.h`); it is neither modelled nor claimed here.
-/
namespace SSVerif.HashTable

variable {P : Params}

/-- **C20, the iterator walk (any table).** For every table whose bucket array has `size` slots, the caller's loop
`for (it = hash_table_iter(h); it; it = hash_table_iter_next(it))` visits exactly the entries of
`h.buckets.flatten`, in that order, and the iterator becomes NULL after exactly that many visits: with fewer
allowed visits the loop has not ended, with that many or more it has, and `it->ent` is a valid entry at every
visit.  Covers the empty table, empty first/last buckets and chains of any length. -/
theorem C20_iter_enumerates (h : HT) (hl : h.buckets.length = h.size) (fuel : Nat) :
    iterLoop h fuel (iterStart h) = if (iter h).length ≤ fuel then some (iter h) else none := by
  obtain ⟨g, r⟩ := start_good hl
  have := iterLoop_good hl fuel (iterStart h) g
  rw [r] at this
  exact this

/-- **C20, one call of `hash_table_iter_next`.** From an iterator value the code handed out (`Good`: `ent` points at
an existing entry of bucket `idx - 1`) the current entry exists, the next value is again such a value or NULL, and
what remains to be visited shrinks by exactly the current entry. -/
theorem C20_iter_next_step (h : HT) (hl : h.buckets.length = h.size) (s : IterState) (hg : Good h (some s)) :
    Good h (iterNext h s) ∧ ∃ e, iterStep h s = some (e, iterNext h s) ∧
      remOf h (some s) = e :: remOf h (iterNext h s) := by
  obtain ⟨g, e, hc, hr⟩ := next_good hl hg
  exact ⟨g, e, by simp [iterStep, hc], hr⟩

/-- **C20, the bucket-skipping loop.** Started at `idx ≤ size`, the `while (idx < size && table[idx].key == NULL)`
loop stops at the first non-empty bucket at or after `idx`, or at `size` when there is none. -/
theorem C20_iter_scan (h : HT) (hl : h.buckets.length = h.size) (idx : Nat) (hi : idx ≤ h.size) :
    let r := scan h (h.size - idx) idx
    idx ≤ r ∧ r ≤ h.size ∧ (∀ i, idx ≤ i → i < r → h.bucket i = []) ∧ (r < h.size → h.bucket r ≠ []) := by
  obtain ⟨a1, a2, a3, a4, _⟩ := scan_spec hl (h.size - idx) idx rfl hi
  exact ⟨a1, a2, a3, a4⟩

/-- **C20, the list export (any table).** `hash_table_tolist` returns the entries of `h.buckets.flatten` in reverse
order (`glist_add_ptr` prepends) and `*count` is their number. -/
theorem C20_tolist_enumerates (h : HT) (hl : h.buckets.length = h.size) :
    tolistWalk h = (tolist h, (iter h).length) := by
  have := tolist_prefix hl h.size (Nat.le_refl _)
  rw [← hl, List.take_length] at this
  unfold tolistWalk
  rw [← hl]
  exact this

/-- **C20, iteration after any history.** In the state reached by any operation history on a fresh table (any
size, any lawful mode): the iterator loop ends after exactly `inuse` visits and has visited `iter h`; fewer visits
do not end it; `hash_table_tolist` returns the same entries reversed with `*count = inuse`; and (from
`C20_iter_exact`) that sequence has no two equal keys and contains an entry with key ≈ `k` and value `v` exactly
when `lookup k = v`: every live entry is visited exactly once by the code's walk. -/
theorem C20_iter_walk_reachable (size : Nat) (L : Lawful P size) (ops : List Op) :
    let h := (run P (HT.new size) ops).1
    iterWalk h = some (iter h) ∧
    (∀ fuel, iterLoop h fuel (iterStart h) = if h.inuse.toNat ≤ fuel then some (iter h) else none) ∧
    tolistWalk h = (tolist h, h.inuse.toNat) ∧
    NoDup P (iter h) ∧
    (∀ k v, lookup P h k = some v ↔ ∃ e ∈ iter h, P.keq e.key k = true ∧ e.val = v) := by
  intro h
  have hI : Inv P h := (C20_run_refines size L ops).2.2
  obtain ⟨hc, hnd, hlk, _⟩ := C20_iter_exact size L ops
  have hn : h.inuse.toNat = (iter h).length := by
    have : h.inuse = ((iter h).length : Int) := hc
    omega
  refine ⟨?_, ?_, ?_, hnd, hlk⟩
  · unfold iterWalk
    rw [C20_iter_enumerates h hI.len, hn, if_pos (Nat.le_succ _)]
  · intro fuel
    rw [C20_iter_enumerates h hI.len, hn]
  · rw [C20_tolist_enumerates h hI.len, hn]

/-! ### non-vacuity -/

private def e (k : UInt8) (v : Int) : Entry := ⟨[k], v⟩

-- empty first bucket, a chain of three (inline head + two chained), an empty bucket, a single head, empty LAST bucket
private def t5 : HT := { size := 5, buckets := [[], [e 1 10, e 2 20, e 3 30], [], [e 4 40], []], inuse := 4 }

example : iterWalk t5 = some [e 1 10, e 2 20, e 3 30, e 4 40] := by decide
example : iterLoop t5 3 (iterStart t5) = none := by decide
example : iterStart t5 = some { ent := some (1, 0), idx := 2 } := by decide
-- end of a chain: skip the empty bucket 2, land on the head of bucket 3
example : iterNext t5 { ent := some (1, 2), idx := 2 } = some { ent := some (3, 0), idx := 4 } := by decide
-- last entry, last bucket empty: `idx` runs to `size`, the iterator is freed
example : iterNext t5 { ent := some (3, 0), idx := 4 } = none := by decide
example : tolistWalk t5 = ([e 4 40, e 3 30, e 2 20, e 1 10], 4) := by decide
-- the empty table and the table without buckets
example : iterStart (HT.new 7) = none ∧ iterWalk (HT.new 7) = some [] ∧ tolistWalk (HT.new 7) = ([], 0) := by decide
example : iterStart (HT.new 0) = none := by decide
-- last bucket occupied
example : iterWalk { size := 2, buckets := [[], [e 9 1, e 8 2]], inuse := 2 } = some [e 9 1, e 8 2] := by decide
-- a reachable state: three colliding keys entered, the head deleted; walk of the code = flatten
example :
    let P := strParams 1 false
    let h := (run P (HT.new 1) [Op.enter [1] 10, .enter [2] 20, .enter [3] 30, .delete [1]]).1
    iterWalk h = some [⟨[3], 30⟩, ⟨[2], 20⟩] ∧ tolistWalk h = ([⟨[2], 20⟩, ⟨[3], 30⟩], 2) := by decide

end SSVerif.HashTable
