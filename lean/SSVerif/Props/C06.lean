import SSVerif.Proofs.FeBuf
import SSVerif.Proofs.FeBufNat
import SSVerif.Generated.FeConsts
/-!
# C06 — Acoustic features do not depend on how the audio is chunked or encoded

Property theorems only.  The model is `SSVerif/Model/FeBuf.lean` (M4): `fe_start`, any number of
`fe_process_*` calls, `fe_end`, over abstract samples; its output is the list of
`(analysis window, pre-emphasis prior)` pairs the opaque per-frame function of the real code is
applied to, in order.  Two runs that produce the same list produce bit-identical cepstra
(the per-frame function, including its noise-tracking state, is a deterministic function of that
list — trusted, and compared bitwise on the implementation by `tools/props/c06.py`).

A call schedule is a list `specs : List (Nat × List Nat)`: for each chunk its length and the
output room (`nframes`) of the successive `fe_process` calls made on it — every listed call is
made on whatever is left of the chunk, even if nothing is left; if samples are still left
afterwards, one more call with the room `output_frame_count` reports (what `acmod_process_full_*`
allocates).  Any terminating caller loop `while (nsamps) fe_process(…, room_i)` is an instance.
`chunksFrom 0 specs` turns the lengths into the consecutive index ranges of the signal
`[0, N)`, `N = total specs`.  The theorems hold for **every** `specs` (any number of chunks, lengths
0, 1, < window, ≫ window, limits ≥ 0), every `0 < frame_shift ≤ frame_size` (the condition
`fe_init` enforces; the DESIGN asks for `<`), and every `fe_end` room ≥ 1.

`⟨size, shift, true⟩` is the code with `fixes/D25-fe-full-frame-in-overflow.patch`;
`⟨size, shift, false⟩` is the pinned tree, for which `C06_D25_witness` exhibits the defect and
`C06_pinned_tree_deviation` characterises every deviation.
-/
namespace SSVerif.FeBuf
open List

/-- total number of samples of a schedule -/
def total (specs : List (Nat × List Nat)) : Nat := (specs.map (·.1)).sum

/-- **C06, frames_canonical.** Whatever the chunking and the per-call output limits, no read leaves
the buffer of the current call (`run` is `some`), and the frames handed to the per-frame function
are exactly the canonical ones: the `k`-th is the window `[k·shift, k·shift+size)` with prior
sample `k·shift − 1` (none for `k = 0`), followed by the remaining samples `[K·shift, N)` as the one
short frame flushed by `fe_end`. -/
theorem C06_frames_canonical (size shift : Nat) (hs : 0 < shift) (hss : shift ≤ size)
    (specs : List (Nat × List Nat)) (endRoom : Nat) (he : 0 < endRoom) :
    ∃ r nend, run ⟨size, shift, true⟩ (chunksFrom 0 specs) endRoom = some (r, nend) ∧
      r.fe.out = canonical size shift (total specs) := by
  obtain ⟨r, nend, k, o, h, hN, hle, hge, hout, -⟩ := run_spec ⟨size, shift, true⟩ hs hss specs endRoom he
  refine ⟨r, nend, h, ?_⟩
  have hlt : o < size := by
    have : (Cfg.mk size shift true).slack = 1 := rfl
    rw [this] at hle; exact hle
  rw [hout, total, ← hN]
  exact (canonical_eq hs hlt hge).symm

/-- number of frames of a signal of `N` samples -/
def frameCount (size shift N : Nat) : Nat :=
  fullCount size shift N + (if fullCount size shift N * shift < N then 1 else 0)

theorem canonical_length (size shift N : Nat) : (canonical size shift N).length = frameCount size shift N := by
  simp only [canonical, frameCount, length_append, length_map, length_range]
  split <;> rfl

/-- closed form of the frame count when consecutive windows overlap (`shift < size`) -/
theorem C06_frameCount_closed (size shift N : Nat) (hs : 0 < shift) (hlt : shift < size) :
    frameCount size shift N = if N = 0 then 0 else if N < size then 1 else 2 + (N - size) / shift := by
  unfold frameCount fullCount
  by_cases h0 : N = 0
  · subst h0; rw [if_pos (by omega), if_pos rfl, if_neg (by omega)]
  · rw [if_neg h0]
    by_cases h1 : N < size
    · rw [if_pos h1, if_pos h1, if_pos (by omega)]
    · rw [if_neg h1, if_neg h1]
      have hd := Nat.div_mul_le_self (N - size) shift
      have e : (1 + (N - size) / shift) * shift = (N - size) / shift * shift + shift := by
        rw [Nat.add_mul, Nat.one_mul, Nat.add_comm]
      rw [if_pos (by omega)]; omega

/-- **C06, count_only_N.** The number of frames produced depends on the total number of samples
only: it is `frameCount size shift N` for every chunking and every limit pattern. -/
theorem C06_count_only_N (size shift : Nat) (hs : 0 < shift) (hss : shift ≤ size)
    (specs : List (Nat × List Nat)) (endRoom : Nat) (he : 0 < endRoom) :
    ∃ r nend, run ⟨size, shift, true⟩ (chunksFrom 0 specs) endRoom = some (r, nend) ∧
      r.fe.out.length = frameCount size shift (total specs) ∧
      (r.calls.map (·.frames)).sum + nend = frameCount size shift (total specs) := by
  obtain ⟨r, nend, k, o, h, hN, hle, hge, hout, hnend, -, -, -, hk, -⟩ :=
    run_spec ⟨size, shift, true⟩ hs hss specs endRoom he
  obtain ⟨r', nend', h', hc⟩ := C06_frames_canonical size shift hs hss specs endRoom he
  rw [h] at h'
  obtain ⟨rfl, rfl⟩ : r = r' ∧ nend = nend' := by
    have := Option.some.inj h'; exact ⟨congrArg Prod.fst this, congrArg Prod.snd this⟩
  refine ⟨r, nend, h, by rw [hc, canonical_length], ?_⟩
  rw [← canonical_length, ← hc, hout, ← hk, hnend, length_append, length_map, length_range]
  split <;> rfl

/-- **C06, consumed_once.** No read outside the current call's buffer or the valid part of the
overflow buffer ever happens (`run` returns `some`), no sample is left unconsumed in a caller's
buffer, the consumed counts of the calls add up to the number of samples handed over, nothing
stays pending after `fe_end`, and every sample of the signal is in at least one emitted window. -/
theorem C06_consumed_once (size shift : Nat) (hs : 0 < shift) (hss : shift ≤ size)
    (specs : List (Nat × List Nat)) (endRoom : Nat) (he : 0 < endRoom) :
    ∃ r nend, run ⟨size, shift, true⟩ (chunksFrom 0 specs) endRoom = some (r, nend) ∧
      r.left = 0 ∧ (r.calls.map (·.consumed)).sum = total specs ∧ r.fe.nOvf = 0 ∧
      (∀ i, i < total specs → ∃ f ∈ r.fe.out, i ∈ f.win) := by
  obtain ⟨r, nend, k, o, h, hN, hle, hge, hout, -, hn0, hleft, hsum, -⟩ :=
    run_spec ⟨size, shift, true⟩ hs hss specs endRoom he
  refine ⟨r, nend, h, hleft, hsum, hn0, ?_⟩
  dsimp only at hN hle hge hout
  intro i hi
  rw [total, ← hN] at hi
  rw [hout]
  by_cases hik : i < k * shift
  · -- in the complete window number i / shift
    have hd1 := Nat.div_mul_le_self i shift
    have hd2 := Nat.lt_div_mul_add (a := i) hs
    have hjk : i / shift < k := by
      apply Nat.lt_of_mul_lt_mul_right (a := shift)
      omega
    refine ⟨fullFrame size shift (i / shift), mem_append_left _ (mem_map.mpr ⟨_, mem_range.mpr hjk, rfl⟩), ?_⟩
    show i ∈ range' (i / shift * shift) size
    rw [mem_range'_1]; omega
  · have ho : 0 < o := by omega
    refine ⟨tailFrame shift k o, mem_append_right _ (by rw [if_pos ho]; exact mem_singleton.mpr rfl), ?_⟩
    show i ∈ range' (k * shift) o
    rw [mem_range'_1]; omega

/-- **C06, dry_run_consistent.** The count returned by the `buf_cep = NULL` path just before a call
is an upper bound the caller can allocate by: every call writes exactly
`min (dry − 1) limit` frames — never more than its limit, and at most `dry − 1`, which leaves room
for the one frame `fe_end` may add (`nend ≤ 1`).  For the batch pattern of
`acmod_process_full_*` (`fe_start`, dry run on the whole signal, one call, `fe_end`) the dry-run
count bounds the total number of frames. -/
theorem C06_dry_run_consistent (size shift : Nat) (hs : 0 < shift) (hss : shift ≤ size)
    (specs : List (Nat × List Nat)) (endRoom : Nat) (he : 0 < endRoom) :
    (∃ r nend, run ⟨size, shift, true⟩ (chunksFrom 0 specs) endRoom = some (r, nend) ∧ nend ≤ 1 ∧
      ∀ l ∈ r.calls, l.frames = min (l.dry - 1) l.limit ∧ l.frames ≤ l.limit ∧ l.frames + 1 ≤ l.dry) ∧
    (∀ N, frameCount size shift N ≤ outputFrameCount ⟨size, shift, true⟩ (start : Fe Nat) N) := by
  constructor
  · obtain ⟨r, nend, k, o, h, -, -, -, -, hnend, -, -, -, -, hall⟩ :=
      run_spec ⟨size, shift, true⟩ hs hss specs endRoom he
    refine ⟨r, nend, h, by rw [hnend]; split <;> omega, ?_⟩
    intro l hl
    obtain ⟨hd, hdry⟩ := hall l hl
    omega
  · intro N
    rw [outputFrameCount_eq ⟨size, shift, true⟩ hs (rest_start _ hs hss) N]
    have : avail ⟨size, shift, true⟩ N 0 = fullCount size shift N := by simp [avail, fullCount]
    rw [this]; unfold frameCount; split <;> omega

/-! ## arbitrary signals; the property as stated -/

/-- **C06 for every signal.** `x i` is the value of sample `i` (any type: int16, float32, …).
Feeding the chunks of the *values* through the model yields exactly the canonical windows of values,
whatever the partition and the output limits; nothing is read out of bounds, nothing is left. -/
theorem C06_frames_canonical_signal {α : Type} (x : Nat → α) (size shift : Nat) (hs : 0 < shift)
    (hss : shift ≤ size) (specs : List (Nat × List Nat)) (endRoom : Nat) (he : 0 < endRoom) :
    ∃ r nend, run ⟨size, shift, true⟩ (mapChunks x (chunksFrom 0 specs)) endRoom = some (r, nend) ∧
      r.fe.out = (canonical size shift (total specs)).map (Frame.map x) ∧ r.left = 0 ∧
      (r.calls.map (·.consumed)).sum = total specs := by
  obtain ⟨r, nend, h, hout⟩ := C06_frames_canonical size shift hs hss specs endRoom he
  obtain ⟨r', nend', h', hleft, hsum, -⟩ := C06_consumed_once size shift hs hss specs endRoom he
  rw [h] at h'
  obtain ⟨rfl, rfl⟩ : r = r' ∧ nend = nend' := by
    have := Option.some.inj h'; exact ⟨congrArg Prod.fst this, congrArg Prod.snd this⟩
  refine ⟨r.map x, nend, by rw [run_map, h]; rfl, ?_, hleft, hsum⟩
  show r.fe.out.map (Frame.map x) = _
  rw [hout]

/-- **C06 as stated.** Two arbitrary ways of splitting the same signal into chunks, with arbitrary
output limits per call and arbitrary (non-zero) room at `fe_end`, hand the same sequence of
(window, prior) arguments to the per-frame function — so the cepstra are bit-identical — and both
produce `frameCount size shift N` frames. -/
theorem C06_chunking_independent {α : Type} (x : Nat → α) (size shift : Nat) (hs : 0 < shift)
    (hss : shift ≤ size) (specs₁ specs₂ : List (Nat × List Nat)) (hN : total specs₁ = total specs₂)
    (e₁ e₂ : Nat) (he₁ : 0 < e₁) (he₂ : 0 < e₂) :
    ∃ r₁ n₁ r₂ n₂,
      run ⟨size, shift, true⟩ (mapChunks x (chunksFrom 0 specs₁)) e₁ = some (r₁, n₁) ∧
      run ⟨size, shift, true⟩ (mapChunks x (chunksFrom 0 specs₂)) e₂ = some (r₂, n₂) ∧
      r₁.fe.out = r₂.fe.out ∧ r₁.fe.out.length = frameCount size shift (total specs₁) := by
  obtain ⟨r₁, n₁, h₁, o₁, -⟩ := C06_frames_canonical_signal x size shift hs hss specs₁ e₁ he₁
  obtain ⟨r₂, n₂, h₂, o₂, -⟩ := C06_frames_canonical_signal x size shift hs hss specs₂ e₂ he₂
  refine ⟨r₁, n₁, r₂, n₂, h₁, h₂, by rw [o₁, o₂, hN], ?_⟩
  rw [o₁, length_map, canonical_length]

/-- **Premises read from the source.** The scale between the two encodings is the exact power of two
`2^15` (so `(float32)s / scale` and `· * scale` are exact for every int16 `s`; the float side is
checked exhaustively on the implementation), and `fe_init` rejects `frame_size < frame_shift` and
asserts `frame_shift > 1` — the hypotheses `0 < shift ≤ size` of the theorems above. -/
theorem C06_source_premises :
    SSVerif.Generated.float32Scale = 2 ^ 15 ∧ SSVerif.Generated.feInitRejectsSizeLtShift = true ∧
    SSVerif.Generated.feInitAssertsShiftPositive = true := by decide

/-! ## the pinned tree (without the D25 repair) -/

/-- **D25, witness in the model of the pinned code.** `size 5, shift 2`, seven samples in one chunk,
one call with room for one frame (it emits `[0,5)`, exactly `shift` samples are left, and
`create_overflow_frame` stores the *complete* next frame `[2,7)`), then `fe_end`: two frames come
out where the signal has three (`[0,5) [2,7) [4,7)`); the repaired code produces all three.
The same schedule is replayed on the implementation by the check (corpus `d25-*.ops`). -/
theorem C06_D25_witness :
    (run ⟨5, 2, false⟩ (chunksFrom 0 [(7, [1])]) 1).map (fun x => (x.1.fe.out.map (·.win), x.1.calls.map (·.novf)))
      = some ([[0, 1, 2, 3, 4], [2, 3, 4, 5, 6]], [5]) ∧
    (canonical 5 2 7).map (·.win) = [[0, 1, 2, 3, 4], [2, 3, 4, 5, 6], [4, 5, 6]] ∧
    (run ⟨5, 2, true⟩ (chunksFrom 0 [(7, [1])]) 1).map (fun x => x.1.fe.out) = some (canonical 5 2 7) := by
  decide

/-- **Every deviation of the pinned tree is of the D25 kind.** Without the repair the run still never
reads out of bounds and consumes every sample once, and its frames are the canonical ones *unless*
the stream ends with a complete frame in the overflow buffer — which requires
`N = k·shift + size` and an output-limited call — in which case exactly the last (short) frame is
missing. -/
theorem C06_pinned_tree_deviation (size shift : Nat) (hs : 0 < shift) (hss : shift ≤ size)
    (specs : List (Nat × List Nat)) (endRoom : Nat) (he : 0 < endRoom) :
    ∃ r nend, run ⟨size, shift, false⟩ (chunksFrom 0 specs) endRoom = some (r, nend) ∧ r.left = 0 ∧
      (r.calls.map (·.consumed)).sum = total specs ∧
      (r.fe.out = canonical size shift (total specs) ∨
       (shift < size ∧ (∃ k, total specs = k * shift + size) ∧
        r.fe.out = (canonical size shift (total specs)).dropLast ∧
        r.fe.out.length + 1 = frameCount size shift (total specs))) := by
  obtain ⟨r, nend, k, o, h, hN, hle, hge, hout, -, -, hleft, hsum, -⟩ :=
    run_spec ⟨size, shift, false⟩ hs hss specs endRoom he
  dsimp only at hN hle hge hout
  refine ⟨r, nend, h, hleft, hsum, ?_⟩
  by_cases hlt : o < size
  · left
    rw [hout, total, ← hN]
    exact (canonical_eq hs hlt hge).symm
  · have ho : o = size := by
      have : (Cfg.mk size shift false).slack = 0 := rfl
      rw [this] at hle; omega
    subst ho
    have hout' : r.fe.out = (List.range (k + 1)).map (fullFrame o shift) := by
      rw [hout, if_pos (by omega), range_map_succ]; rfl
    have hN' : (k + 1) * shift + (o - shift) = total specs := by
      rw [total, ← hN, Nat.succ_mul]; omega
    have hcan := canonical_eq (size := o) (shift := shift) (k := k + 1) (o := o - shift) hs (by omega)
      (Or.inr (by omega))
    rw [hN'] at hcan
    by_cases heq : shift = o
    · left
      rw [hcan, if_neg (by omega), append_nil, hout']
    · right
      have hso : shift < o := by omega
      rw [if_pos (by omega)] at hcan
      refine ⟨hso, ⟨k, by rw [total, ← hN]⟩, ?_, ?_⟩
      · rw [hcan, dropLast_concat, hout']
      · rw [← canonical_length, hcan, hout', length_append]; rfl

/-! ## non-vacuity: concrete schedules meeting the hypotheses -/

/-- three chunks (shorter than a window, a single sample, longer than a window), limits 0, 1 and 2,
a zero-length call, a final call with the dry-run room: the model runs to `some`, 5 frames, nothing left, equal to the canonical list -/
example :
    (run ⟨5, 2, true⟩ (chunksFrom 0 [(3, [0]), (1, [1]), (0, [2]), (8, [0, 1, 1])]) 1).map
        (fun x => (x.1.fe.out, x.1.left, x.2, x.1.calls.map (·.consumed)))
      = some (canonical 5 2 12, 0, 1, [3, 1, 0, 0, 2, 2, 4]) ∧
    (canonical 5 2 12).length = 5 ∧ total [(3, [0]), (1, [1]), (0, [2]), (8, [0, 1, 1])] = 12 := by
  decide

/-- `shift = size` (no overlap) and a signal that is a whole number of windows: no short frame -/
example : (run ⟨3, 3, true⟩ (chunksFrom 0 [(4, [1]), (5, [])]) 2).map (fun x => x.1.fe.out)
      = some (canonical 3 3 9) ∧ frameCount 3 3 9 = 3 ∧ frameCount 3 3 10 = 4 := by
  decide

/-- the frame count of the default configuration (410/160) for 730 samples is 4 (D25: the pinned
tree gives 3 with an output limit of 2) -/
example : frameCount 410 160 730 = 4 ∧ frameCount 410 160 0 = 0 ∧ frameCount 410 160 409 = 1 := by decide

/-- a concrete signal of characters, two different chunkings: same frames -/
example :
    (run ⟨3, 2, true⟩ (mapChunks (fun i => "soundswallower".toList.getD i ' ') (chunksFrom 0 [(14, [])])) 1).map
        (fun x => x.1.fe.out.map (fun fr => String.ofList fr.win))
      = some ["sou", "und", "dsw", "wal", "llo", "owe", "er"] ∧
    (run ⟨3, 2, true⟩ (mapChunks (fun i => "soundswallower".toList.getD i ' ')
        (chunksFrom 0 [(1, []), (4, [1]), (9, [0, 1, 1])])) 1).map
        (fun x => x.1.fe.out.map (fun fr => String.ofList fr.win))
      = some ["sou", "und", "dsw", "wal", "llo", "owe", "er"] := by
  decide

end SSVerif.FeBuf
