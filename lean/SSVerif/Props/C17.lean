import SSVerif.Proofs.S3file
import SSVerif.Proofs.BinMdef
import SSVerif.Proofs.Assembly
import SSVerif.Model.S3fileLedger
/-!
# C17 — Damaged acoustic-model files are rejected without memory errors

Property theorems only.  The model (`Model/S3file.lean`) is the byte reader of `src/s3file.c`
and the read plans of `tmat_init_s3file`, `gauden_param_read`/`gauden_init_s3file`,
`feat_read_lda_s3file`, `read_sendump` and `read_mixw`, **with the D19 repairs applied**.  A `File` is an
arbitrary size with arbitrary bytes, so "for every file" covers every truncation length of every
file and every value of every header field and count.

What is *not* a theorem here (observed on the implementation by the fault enumeration of
`tools/props/c17.py` under ASan/UBSan/LSan): that the C code is the model (correspondence runs),
the binary model definition (`bin_mdef.c`), `ms_senone.c`, float-valued checks, and
the release of the partial objects on the error paths.
-/
namespace SSVerif.S3file

/-- the ways the loaders use the reader -/
inductive Plan where
  /-- any sequence of `s3file_parse_header`, `s3file_get`, `s3file_get_1d/_2d/_3d`, `s3file_verify_chksum` -/
  | ops (l : List Op)
  | tmat
  | gaudenParam
  /-- `gauden_init_s3file(means := the file, vars)` -/
  | gauden (vars : File)
  | lda (streamLen : Nat)
  | sendump (gFeat gDensity mdefSen : Nat)
  | mixw (gFeat gDensity : Nat)
  /-- `bin_mdef_read_s3file` -/
  | mdef

/-- element sizes are positive (the C callers pass the constants 1, 2, 4) -/
def Plan.Admissible : Plan → Prop
  | .ops l => ∀ o ∈ l, o.Admissible
  | _ => True

/-- the outcome of a plan on a file, forgetting the result value -/
def Plan.run (f : File) : Plan → Res Unit
  | .ops l => do let _ ← runOps l (S.init f); pure ()
  | .tmat => do let _ ← tmatPlan f; pure ()
  | .gaudenParam => do let _ ← gaudenParamPlan f; pure ()
  | .gauden vars => do let _ ← gaudenPlan f vars; pure ()
  | .lda sl => do let _ ← ldaPlan f sl; pure ()
  | .sendump a b c => do let _ ← sendumpPlan f a b c; pure ()
  | .mixw a b => do let _ ← mixwPlan f a b; pure ()
  | .mdef => do let _ ← mdefPlan f; pure ()

theorem Plan.run_sat (f : File) (p : Plan) (hp : p.Admissible) : (p.run f).Sat fun _ => True := by
  cases p with
  | ops l => exact Sat.bind (runOps_sat l _ hp (good_init f)) fun _ _ => trivial
  | tmat => exact Sat.bind (tmatPlan_sat f) fun _ _ => trivial
  | gaudenParam => exact Sat.bind (gaudenParamPlan_sat f) fun _ _ => trivial
  | gauden vars => exact Sat.bind (gaudenPlan_sat f vars) fun _ _ => trivial
  | lda sl => exact Sat.bind (ldaPlan_sat f sl) fun _ _ => trivial
  | sendump a b c => exact Sat.bind (sendumpPlan_sat f a b c) fun _ _ => trivial
  | mixw a b => exact Sat.bind (mixwPlan_sat f a b) fun _ _ => trivial
  | mdef => exact Sat.bind (mdefPlan_sat f) fun _ _ => trivial

/-- **C17, reads stay inside the file.**  For every file `f` (any length, any bytes) and every
plan, no step reads a byte at an offset `≥ f.size`: the outcome `oob` is unreachable.  (Every
byte access of the model is one of `rd`, `rdN`, `get`, `skip`, each of which yields `oob` when its
explicit bound fails.) -/
theorem C17_get_in_bounds (f : File) (p : Plan) (hp : p.Admissible) : ∀ i, p.run f ≠ .oob i :=
  fun i => Sat.not_oob (Plan.run_sat f p hp) i

/-- **C17, `s3file_get`.**  With `buf ≤ ptr ≤ end` and a positive element size, `s3file_get`
completes, returns exactly `min(n, available / el_sz)` elements, advances `ptr` by that many
elements and keeps `ptr ≤ end` (so the `memcpy` of `el_sz * count` bytes is inside `[ptr, end)`). -/
theorem C17_get_returns_min (s : S) (k n : Nat) (hk : 0 < k) (hs : s.ptr ≤ s.f.size) :
    ∃ s' c, get s k n = .ok (s', c) ∧ c = min n ((s.f.size - s.ptr) / k) ∧ s'.ptr = s.ptr + k * c ∧
      s'.ptr ≤ s'.f.size ∧ s'.f = s.f := by
  have h := get_sat (f := s.f) k n hk ⟨rfl, hs⟩
  cases hg : get s k n with
  | ok r =>
    rw [hg] at h
    obtain ⟨hgood, hc, hp, _⟩ := h
    exact ⟨r.1, r.2, rfl, hc, hp, by rw [hgood.1]; exact hgood.2, hgood.1⟩
  | reject site => exact (get_ne_reject s k n site hg).elim
  | oob i => rw [hg] at h; exact h.elim
  | idx i m => rw [hg] at h; exact h.elim

/-- a result that satisfies `Sat Q` is an error return or a completion satisfying `Q` -/
theorem Sat.decides {α : Type} {x : Res α} {Q : α → Prop} (h : x.Sat Q) :
    (∃ site, x = .reject site) ∨ ∃ a, x = .ok a ∧ Q a := by
  cases x with
  | ok a => exact Or.inr ⟨a, rfl, h⟩
  | reject s => exact Or.inl ⟨s, rfl⟩
  | oob i => exact h.elim
  | idx i n => exact h.elim

/-- **C17, every plan decides.**  On every file each loader plan either returns its error value
or completes, and when it completes the dimension equalities it recorded hold:
* transition matrices: `0 < n_tmat < 32767`, `0 < n_src < 32767`, `n_dst = n_src + 1`,
  `n = n_tmat * n_src * n_dst` (so matrix `i < n_tmat` occupies `[i*n_src*n_dst, (i+1)*n_src*n_dst)`
  of the `n` allocated cells);
* Gaussian parameters: all counts positive, one vector length per feature,
  `n = n_mgau * n_density * Σ veclen`, and the vectors laid out by the pointer set-up loop fill
  exactly the `n` floats allocated; for `gauden_init_s3file` means and variances have equal
  dimensions and vector lengths;
* LDA: `n = n_lda * rows * cols`, `cols = stream_len[0]`;
* mixture weights: `n_feat`, `n_comp` equal to the codebook dimensions, `n = n_sen * n_feat * n_comp`;
* sendump: one row per density, at least one column per senone, `n_bits` is 8 or 4, the cluster codebook has
  0 or 16 bytes and lies in the file right before the first row, and the reader ends exactly
  `n_feat * n_density` rows of `step = sdStep bits cols` bytes behind the first row, inside the file
  (`step = cols` for 8 bits, `(cols + 1) / 2` for 4 bits — the value the C loop computes; see
  `C17_sendump_rows_inside` for the single row pointers).
No plan indexes an allocated array at or beyond its element count (`idx` unreachable: the header
table of the second header pass, the row tables of `ckd_alloc_2d_ptr/_3d_ptr`, `t->tp`, the
Gaussian vectors in `buf`). -/
theorem C17_plan_decides (f : File) :
    ((∃ site, tmatPlan f = .reject site) ∨ ∃ o, tmatPlan f = .ok o ∧ o.Consistent) ∧
    ((∃ site, gaudenParamPlan f = .reject site) ∨ ∃ o, gaudenParamPlan f = .ok o ∧ o.Consistent) ∧
    (∀ vars, (∃ site, gaudenPlan f vars = .reject site) ∨ ∃ o, gaudenPlan f vars = .ok o ∧ o.Consistent ∧
        ∃ v, gaudenParamPlan vars = .ok v ∧ v.Consistent ∧ v.nMgau = o.nMgau ∧ v.nFeat = o.nFeat ∧
          v.nDensity = o.nDensity ∧ v.veclen = o.veclen) ∧
    (∀ sl, (∃ site, ldaPlan f sl = .reject site) ∨ ∃ o, ldaPlan f sl = .ok o ∧
        o.n = o.nLda * o.rows * o.cols ∧ o.cols = sl ∧ 0 < o.n) ∧
    (∀ gf gd ms, (∃ site, sendumpPlan f gf gd ms = .reject site) ∨ ∃ o, sendumpPlan f gf gd ms = .ok o ∧
        o.rows = gd ∧ ms ≤ o.cols ∧ o.endPtr ≤ f.size ∧ (o.bits = 8 ∨ o.bits = 4) ∧ (o.clust = 0 ∨ o.clust = 16) ∧
        o.clust ≤ o.dataOff ∧ o.endPtr = o.dataOff + gf * gd * sdStep o.bits o.cols) ∧
    (∀ gf gd, (∃ site, mixwPlan f gf gd = .reject site) ∨ ∃ o, mixwPlan f gf gd = .ok o ∧
        0 < o.nSen ∧ o.nFeat = gf ∧ o.nComp = gd ∧ o.n = o.nSen * o.nFeat * o.nComp) ∧
    (∀ (p : Plan), p.Admissible → ∀ i n, p.run f ≠ .idx i n) :=
  ⟨Sat.decides (tmatPlan_sat f), Sat.decides (gaudenParamPlan_sat f),
   fun vars => Sat.decides (gaudenPlan_sat f vars), fun sl => Sat.decides (ldaPlan_sat f sl),
   fun gf gd ms => Sat.decides (sendumpPlan_sat f gf gd ms),
   fun gf gd => Sat.decides (mixwPlan_sat f gf gd),
   fun p hp i n => Sat.not_idx (Plan.run_sat f p hp) i n⟩

/-- **C17, every row pointer of an accepted sendump is inside the file.**  `(*out_mixw)[n][i]` for `n < n_feat`,
`i < n_density` is the file offset `rowOff n i = dataOff + (n * n_density + i) * step`, and the `step` bytes
(= `cols` weights, or `cols` 4-bit weights packed in `(cols + 1) / 2` bytes) it stands for end at or before the
end of the file; the rows do not overlap and follow the cluster codebook. -/
theorem C17_sendump_rows_inside (f : File) (gf gd ms : Nat) (o : SdOut) (h : sendumpPlan f gf gd ms = .ok o) :
    ∀ n i, n < gf → i < gd →
      o.clust ≤ o.rowOff n i ∧ o.rowOff n i + sdStep o.bits o.cols ≤ f.size ∧
      (i + 1 < gd → o.rowOff n (i + 1) = o.rowOff n i + sdStep o.bits o.cols) ∧
      (n + 1 < gf → o.rowOff (n + 1) 0 = o.rowOff n (gd - 1) + sdStep o.bits o.cols) := by
  intro n i hn hi
  obtain ⟨hr, _, he, _, _, hc, hp⟩ := Sat.of_ok (sendumpPlan_sat f gf gd ms) h
  unfold SdOut.rowOff
  rw [hr]
  have h1 : n * gd + i + 1 ≤ gf * gd := by
    have : (n + 1) * gd ≤ gf * gd := Nat.mul_le_mul_right gd hn
    rw [Nat.succ_mul] at this; omega
  have h2 := Nat.mul_le_mul_right (sdStep o.bits o.cols) h1
  refine ⟨by omega, ?_, ?_, ?_⟩
  · rw [Nat.succ_mul] at h2; omega
  · intro _; rw [← Nat.add_assoc (n * gd) i 1, Nat.succ_mul]; omega
  · intro _
    have : (n + 1) * gd + 0 = (n * gd + (gd - 1)) + 1 := by rw [Nat.succ_mul]; omega
    rw [this, Nat.succ_mul]; omega

/-- **C17, the header table.**  `s3file_parse_header` on any file, from any reader position inside
it: nothing outside the file is read, the second pass never stores a header beyond the `nhdr`
entries counted (and allocated) by the first, and `ptr ≤ end` afterwards. -/
theorem C17_header_in_bounds (s : S) (hs : s.ptr ≤ s.f.size) :
    (∃ site, parseHeader s = .reject site) ∨ ∃ s', parseHeader s = .ok s' ∧ s'.f = s.f ∧ s'.ptr ≤ s.f.size :=
  Sat.decides (parseHeader_sat (f := s.f) ⟨rfl, hs⟩)

/-! ## Non-vacuity: concrete files on which the plans complete, and damaged versions that are rejected -/

/-- `s3\nversion 1.0\nendhdr\n`, magic, `n_tmat=1 n_src=1 n_dst=2 n=2`, two floats -/
def exTmat : List UInt8 := [115, 51, 10, 118, 101, 114, 115, 105, 111, 110, 32, 49, 46, 48, 10, 101, 110, 100, 104, 100, 114, 10, 68, 51, 34, 17, 1, 0, 0, 0, 1, 0, 0, 0, 2, 0, 0, 0, 2, 0, 0, 0, 0, 0, 0, 0, 0, 0, 0, 0]

example : (match tmatPlan (File.ofList exTmat) with
    | .ok o => o == { nTmat := 1, nState := 1, nDst := 2, n := 2 } | _ => false) = true := by decide +kernel
/-- the same file cut by one byte is rejected … -/
example : (match tmatPlan (File.ofList (exTmat.take 49)) with | .reject _ => true | _ => false) = true := by decide +kernel
/-- … and so is every other truncation of it -/
example : ((List.range 50).all fun t =>
    match tmatPlan (File.ofList (exTmat.take t)) with | .reject _ => true | _ => false) = true := by decide +kernel
/-- a coefficient count that does not match the dimensions is rejected -/
example : (match tmatPlan (File.ofList [115, 51, 10, 118, 101, 114, 115, 105, 111, 110, 32, 49, 46, 48, 10, 101, 110, 100, 104, 100, 114, 10, 68, 51, 34, 17, 1, 0, 0, 0, 1, 0, 0, 0, 2, 0, 0, 0, 3, 0, 0, 0, 0, 0, 0, 0, 0, 0, 0, 0]) with | .reject _ => true | _ => false) = true := by decide +kernel

/-- `n_mgau=2 n_feat=1 n_density=2 veclen=[3] n=12`, twelve floats -/
def exGau : List UInt8 := [115, 51, 10, 118, 101, 114, 115, 105, 111, 110, 32, 49, 46, 48, 10, 101, 110, 100, 104, 100, 114, 10, 68, 51, 34, 17, 2, 0, 0, 0, 1, 0, 0, 0, 2, 0, 0, 0, 3, 0, 0, 0, 12, 0, 0, 0, 0, 0, 0, 0, 0, 0, 0, 0, 0, 0, 0, 0, 0, 0, 0, 0, 0, 0, 0, 0, 0, 0, 0, 0, 0, 0, 0, 0, 0, 0, 0, 0, 0, 0, 0, 0, 0, 0, 0, 0, 0, 0, 0, 0, 0, 0, 0, 0]
example : (match gaudenPlan (File.ofList exGau) (File.ofList exGau) with
    | .ok o => o == { nMgau := 2, nFeat := 1, nDensity := 2, veclen := [3], n := 12 } | _ => false) = true := by decide +kernel
/-- variances with a different vector length are rejected by the cross-check -/
example : (match gaudenPlan (File.ofList exGau) (File.ofList [115, 51, 10, 118, 101, 114, 115, 105, 111, 110, 32, 49, 46, 48, 10, 101, 110, 100, 104, 100, 114, 10, 68, 51, 34, 17, 2, 0, 0, 0, 1, 0, 0, 0, 2, 0, 0, 0, 2, 0, 0, 0, 8, 0, 0, 0, 0, 0, 0, 0, 0, 0, 0, 0, 0, 0, 0, 0, 0, 0, 0, 0, 0, 0, 0, 0, 0, 0, 0, 0, 0, 0, 0, 0, 0, 0, 0, 0]) with
    | .reject _ => true | _ => false) = true := by decide +kernel

/-- a checksummed 1-d array `[7, 9]` with its correct checksum: header, `get_1d`, `verify_chksum` all complete -/
def exArr : List UInt8 := [115, 51, 10, 99, 104, 107, 115, 117, 109, 48, 32, 121, 101, 115, 10, 101, 110, 100, 104, 100, 114, 10, 68, 51, 34, 17, 2, 0, 0, 0, 7, 0, 0, 0, 9, 0, 0, 0, 9, 2, 112, 0]
example : (match runOps [.hdr, .get1d 4, .verify] (S.init (File.ofList exArr)) with
    | .ok s => s.ptr == 42 | _ => false) = true := by decide +kernel
/-- one flipped data bit is caught by the checksum -/
example : (match runOps [.hdr, .get1d 4, .verify] (S.init (File.ofList (exArr.set 30 6))) with
    | .reject _ => true | _ => false) = true := by decide +kernel
/-- `s3file_get` past the end returns the elements that are there (`min(n, available/el_sz)`) -/
example : (match get (S.init (File.ofList [1, 0, 2, 0, 3])) 2 5 with
    | .ok (s, c) => c == 2 && s.ptr == 4 | _ => false) = true := by decide +kernel

/-- **C17, the binary model definition.**  `bin_mdef_read_s3file` (the repaired reader) on every
file: it returns its error value or completes, and when it completes
* the counts satisfy the limits (`0 < n_ciphone ≤ 255`, `n_ciphone ≤ n_phone`, `0 < n_sen ≤ 65535`,
  `n_ci_sen ≤ n_sen`, `0 < n_sseq ≤ 65535`, `n_ci_sen = n_ciphone * n_emit_state` when homogeneous),
* there are `n_ciphone` phone names, each terminated inside the file,
* the phone records `[phoneOff, phoneOff + 12*n_phone)`, the sequence area
  `[sseqOff, sseqOff + 2*sseq_size)` (and the `n_sseq` length bytes behind it for heterogeneous
  topologies) lie inside the file, `sseq_size = n_sseq * n_emit_state` resp. `= Σ lengths`,
* `cd2cisen` and `sen2cimap` have exactly `n_sen` cells.
No step reads outside the file (`oob`) — not the name walk, the in-place swaps, the phone records,
the senone sequences (including the cell `sseq[phone[ci].ssid][j]` with `j` up to the length of the
CI phone's sequence), the `strcmp`s of the silence-phone search — and no store into `ciname`,
`cd2cisen`, `sen2cimap` or load of `sseq_len` is at or past the allocated/validated count (`idx`).
The loop invariant is that every phone record before the current one has a validated `ssid`. -/
theorem C17_mdef_decides (f : File) :
    ((∃ site, mdefPlan f = .reject site) ∨ ∃ o, mdefPlan f = .ok o ∧ o.Consistent f) ∧
    (∀ i, mdefPlan f ≠ .oob i) ∧ (∀ i n, mdefPlan f ≠ .idx i n) :=
  ⟨Sat.decides (mdefPlan_sat f), fun i => Sat.not_oob (mdefPlan_sat f) i,
   fun i n => Sat.not_idx (mdefPlan_sat f) i n⟩

/-- **C17, the in-place tables of an accepted binary mdef are aligned** (D19j): `ciname[0]`, the
`cd_tree`, the phone records, `sseq_size` and the sequences all start at a multiple of 4 bytes from
the start of the file, so the `int16`/`int32` pointers the C code lays over them are aligned
whenever the buffer itself is. -/
theorem C17_mdef_tables_aligned (f : File) (o : MdefOut) (h : mdefPlan f = .ok o) :
    o.hdr.dataOff % 4 = 0 ∧ o.lay.treeOff % 4 = 0 ∧ o.lay.phoneOff % 4 = 0 ∧ o.lay.sseqOff % 4 = 0 := by
  have := Sat.of_ok (mdefPlan_aligned f) h
  exact ⟨this.1, this.2.1, this.2.2.1, this.2.2.2⟩

/-- a 5-phone, 10-senone binary mdef (3 CI phones `A`, `B`, `SIL`, 2 states each) … -/
def exMdef : List UInt8 := [66, 77, 68, 70, 1, 0, 0, 0, 12, 0, 0, 0, 98, 105, 110, 32, 109, 100, 101, 102, 0, 0, 0, 0, 3, 0, 0, 0, 5, 0, 0, 0, 2, 0, 0, 0, 6, 0, 0, 0, 10, 0, 0, 0, 3, 0, 0, 0, 5, 0, 0, 0, 3, 0, 0, 0, 4, 0, 0, 0, 2, 0, 0, 0, 65, 0, 66, 0, 83, 73, 76, 0, 0, 0, 1, 0, 1, 0, 0, 0, 1, 0, 1, 0, 2, 0, 0, 0, 2, 0, 1, 0, 3, 0, 0, 0, 3, 0, 1, 0, 4, 0, 0, 0, 0, 0, 0, 0, 0, 0, 0, 0, 1, 0, 0, 0, 1, 0, 0, 0, 1, 0, 0, 0, 1, 0, 0, 0, 2, 0, 0, 0, 2, 0, 0, 0, 1, 0, 0, 0, 3, 0, 0, 0, 0, 0, 0, 0, 3, 0, 1, 2, 4, 0, 0, 0, 1, 0, 0, 0, 0, 1, 2, 0, 10, 0, 0, 0, 0, 0, 1, 0, 2, 0, 3, 0, 4, 0, 5, 0, 6, 0, 7, 0, 8, 0, 9, 0]
example : (match mdefPlan (File.ofList exMdef) with
    | .ok o => o.sil == 2 && o.hdr.nSen == 10 && o.sen2cimap.toList == [0, 0, 1, 1, 2, 2, 0, 0, 1, 1]
    | _ => false) = true := by decide +kernel
/-- … every truncation of which is rejected -/
example : ((List.range 188).all fun t =>
    match mdefPlan (File.ofList (exMdef.take t)) with | .reject _ => true | _ => false) = true := by decide +kernel
/-- an other-endian file with a heterogeneous topology (sequence lengths 1, 2, 1, 2, 1) -/
example : (match mdefPlan (File.ofList [70, 68, 77, 66, 0, 0, 0, 1, 0, 0, 0, 12, 98, 105, 110, 32, 109, 100, 101, 102, 0, 0, 0, 0, 0, 0, 0, 3, 0, 0, 0, 5, 0, 0, 0, 0, 0, 0, 0, 4, 0, 0, 0, 7, 0, 0, 0, 3, 0, 0, 0, 5, 0, 0, 0, 3, 0, 0, 0, 4, 0, 0, 0, 2, 65, 0, 66, 0, 83, 73, 76, 0, 0, 0, 0, 1, 0, 0, 0, 1, 0, 1, 0, 1, 0, 0, 0, 2, 0, 2, 0, 1, 0, 0, 0, 3, 0, 3, 0, 1, 0, 0, 0, 4, 0, 0, 0, 0, 0, 0, 0, 0, 1, 0, 0, 0, 0, 0, 0, 1, 0, 0, 0, 1, 1, 0, 0, 0, 0, 0, 0, 2, 0, 0, 0, 2, 1, 0, 0, 0, 0, 0, 0, 3, 0, 0, 0, 0, 3, 0, 1, 2, 0, 0, 0, 4, 0, 0, 0, 1, 0, 1, 2, 0, 0, 0, 0, 7, 0, 0, 0, 1, 0, 2, 0, 3, 0, 4, 0, 5, 0, 6, 1, 2, 1, 2, 1]) with
    | .ok o => o.hdr.swap && o.hdr.nEmit == 0 && o.lay.sseqSize == 7 && o.cd2cisen.size == 7
    | _ => false) = true := by decide +kernel

/-- **C17, the mixture-weight reader of ms_senone.c and the assembly of the acoustic model.**
For every front end, every model definition whose `sen2cimap` has `n_sen` cells (which
`C17_mdef_decides` establishes for every file `bin_mdef_read_s3file` accepts) and all files:
* `senone_mixw_read` rejects or completes with positive dimensions and `n = n_sen * n_feat * n_cw`
  (the product is not taken modulo 2^32, D19k);
* `ptm_mgau_init_s3file` rejects or completes with consistent codebooks, `n_mgau = n_ciphone ≤ 256`,
  as many streams as the front end, the senone count of the model definition (also when the
  weights come from a mixture-weight file, D19l) and a `sen2cb` of that many cells;
  `s2_semi_mgau_init_s3file` likewise with `n_mgau = 1`;
* `ms_mgau_init_s3file` rejects or completes with `n_sen` of the model definition (D19k), the
  feature and codeword counts of the codebooks, and `n_gauden ≤ n_mgau`.
In none of them, nor in the fallback chain of `acmod_load_am`/`load_gmm` behind a model
definition and transition matrices read from arbitrary files, is a byte outside a file read
(`oob`) or `mdef->sen2cimap`, `featlen`, the stream lengths, `sen2cb`/`mgau` indexed at or past
their element counts (`idx`). -/
theorem C17_assembly_decides (ctx : AcCtx) (hctx : ctx.sen2cimap.size = ctx.nSen) (means vars : File) :
    (∀ f, (∃ site, senMixwPlan f = .reject site) ∨ ∃ o, senMixwPlan f = .ok o ∧
        0 < o.nSen ∧ 0 < o.nFeat ∧ 0 < o.nCw ∧ o.n = o.nSen * o.nFeat * o.nCw) ∧
    (∀ src, (∃ site, ptmPlan ctx means vars src = .reject site) ∨ ∃ o, ptmPlan ctx means vars src = .ok o ∧
        o.Consistent ctx ∧ o.g.nMgau = ctx.nCiphone ∧ o.g.nMgau ≤ 256 ∧ o.sen2cb.size = ctx.nSen) ∧
    (∀ src, (∃ site, s2Plan ctx means vars src = .reject site) ∨ ∃ o, s2Plan ctx means vars src = .ok o ∧
        o.Consistent ctx ∧ o.g.nMgau = 1) ∧
    (∀ mixw, (∃ site, msPlan ctx means vars mixw = .reject site) ∨ ∃ o, msPlan ctx means vars mixw = .ok o ∧
        o.g.Consistent ∧ o.g.nFeat = ctx.streams.length ∧ o.sen.nSen = ctx.nSen ∧ o.sen.nFeat = o.g.nFeat ∧
        o.sen.nCw = o.g.nDensity ∧ o.nGauden ≤ o.g.nMgau) ∧
    (∀ src i, gmmPlan ctx means vars src ≠ .oob i) ∧ (∀ src i n, gmmPlan ctx means vars src ≠ .idx i n) :=
  ⟨fun f => Sat.decides (senMixwPlan_sat f), fun src => Sat.decides (ptmPlan_sat ctx hctx means vars src),
   fun src => Sat.decides (s2Plan_sat ctx means vars src), fun mixw => Sat.decides (msPlan_sat ctx hctx means vars mixw),
   fun src i => Sat.not_oob (gmmPlan_sat ctx hctx means vars src) i,
   fun src i n => Sat.not_idx (gmmPlan_sat ctx hctx means vars src) i n⟩

/-- **C17, `acmod_load_am` as a whole** (model definition, transition matrices, Gaussian mixture
loaders in their fallback order) on arbitrary files: no read outside any file, no index past an
allocation -/
theorem C17_acmod_load_in_bounds (mdefF tmatF means vars : File) (src : MixSrc) (streams : List Nat) (ct : Bool) :
    (∀ i, acmodLoadPlan mdefF tmatF means vars src streams ct ≠ .oob i) ∧
    (∀ i n, acmodLoadPlan mdefF tmatF means vars src streams ct ≠ .idx i n) :=
  ⟨fun i => Sat.not_oob (acmodLoadPlan_sat mdefF tmatF means vars src streams ct) i,
   fun i n => Sat.not_idx (acmodLoadPlan_sat mdefF tmatF means vars src streams ct) i n⟩

/-- non-vacuity of the cross-file index: copying 3 cells out of a 2-cell map is an `idx` outcome
(what `sen2cb[i] = mdef->sen2cimap[i]` did for a mixture-weight file with more senones than the
model definition before D19l), copying 2 is fine -/
example : (match copyMap #[0, 1] 3 0 (Array.replicate 3 0) with | .idx 2 2 => true | _ => false) = true ∧
    (match copyMap #[0, 1] 2 0 (Array.replicate 2 0) with | .ok a => a.toList == [0, 1] | _ => false) = true := by
  decide

/-! ## Error paths release the partial object exactly once -/

namespace Ledger

/-- **C17, rejecting leaves nothing behind.**  In the ownership-ledger model of the (repaired)
clean-up code of `s3file_get_1d/_2d/_3d`, `tmat_init_s3file`, `gauden_param_read` +
`gauden_init_s3file`, `feat_read_lda_s3file`, `bin_mdef_read_s3file` (both byte orders) and
`ptm_mgau_init_s3file` (sendump and mixture-weight branches): whatever stage the function fails at, every
object it allocated is freed exactly once (no leak, no double free, no free of something not
allocated) except what it has handed to its caller, and `feat->lda` is never left dangling; on
success exactly the result objects are live.  (The ledgers are transcribed from the C clean-up
code at the granularity of the `ckd_*` entry points and *tied*: the harness intercepts those entry
points (`-Wl,--wrap`), and for every case of stage A the recorded allocation trace, abstracted to
`file:left-hand side` names, must equal the ledger of the stage the model reaches — event by event, the order
of the releases included (`judge_ledger` in tools/props/c17.py compares the two lists for equality).  Stages
reached by generated cases are listed in the evidence (`ledger_traces_compared_by_stage`); they include the LDA
stages with a previous matrix in place (`lda2` cases) and the topology stage of the transition matrices.  The
stages `ArrStage.data`, `TmatStage.row`, `ParamStage.data` are behind a length pre-check of the repaired code
and are not reached by any file: `C17_short_read_stages_dead` in Props/C17Fuel.lean.) -/
theorem C17_reject_leaves_clean :
    (∀ s, s ≠ ArrStage.ok → clean (get1d false s) [] = true ∧ clean (get2d false s) [] = true ∧
        clean (get3d false s) [] = true) ∧
    clean (get1d false .ok) [0] = true ∧ clean (get2d false .ok) [0, 1] = true ∧
    clean (get3d false .ok) [0, 1] = true ∧
    (∀ s, s ≠ TmatStage.ok → clean (tmat false s) [] = true) ∧ clean (tmat false .ok) [0, 1] = true ∧
    (∀ s, s ≠ GauStage.ok → clean (gauden s) [] = true) ∧
    clean (gauden .ok) [0, 10, 11, 12, 21, 22, 30] = true ∧
    (∀ old s, s ≠ LdaStage.array .ok → (lda false old s).2 = false ∧
      clean (lda false old s).1 (match s with | .ok => [0, 1] | .dims => [0, 1] | .header => if old then [8, 9] else [] | _ => []) = true) ∧
    (∀ swap s, s ≠ MdefStage.ok → clean (mdef swap s) [] = true) ∧ (∀ swap, clean (mdef swap .ok) (mdefKeep swap) = true) ∧
    (∀ s, s ≠ PtmStage.okSd → s ≠ PtmStage.okMx → clean (ptm s) [] = true) ∧
    clean (ptm .okSd) ptmKeep = true ∧ clean (ptm .okMx) ptmKeep = true := by
  refine ⟨?_, by decide, by decide, by decide, ?_, by decide, ?_, by decide, ?_, ?_, ?_, ?_, by decide, by decide⟩
  · intro s hs; cases s <;> first | exact absurd rfl hs | decide
  · intro s hs; cases s <;> first | exact absurd rfl hs | decide
  · intro s hs
    cases s with
    | means p => cases p <;> decide
    | vars p => cases p <;> decide
    | mismatch => decide
    | ok => exact absurd rfl hs
  · intro old s hs
    cases old <;> cases s with
    | array a => cases a <;> first | exact absurd rfl hs | decide
    | _ => decide
  · intro swap s hs
    cases swap <;> cases s <;> first | exact absurd rfl hs | decide
  · intro swap; cases swap <;> decide
  · intro s h1 h2
    cases s <;> first | exact absurd rfl h1 | exact absurd rfl h2 | decide

/-- non-vacuity: the ledger check does see the defects of the pinned clean-up code — the double
free of `tp` after a checksum failure, the leak of `*buf` on a short read (D19b) and the dangling
`feat->lda` -/
example : clean (tmat true .chksum) [] = false ∧ clean (get1d true .data) [] = false ∧
    (lda true true (.array .dims)).2 = true := by decide

end Ledger

end SSVerif.S3file
