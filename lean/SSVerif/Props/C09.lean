import SSVerif.Proofs.Protocol
import SSVerif.Proofs.ProtocolSys
/-!
# C09 — No sequence of API calls corrupts memory, aborts, or leaks

Property theorems over the protocol automaton `step` of `Model/Protocol.lean` (model M15), for **every**
state, call and call history (no bound on length; every resolution of the data-dependent outcomes).

What is proved here is the *logic* of the property: every call returns a value of its documented class,
the listed out-of-order calls are no-ops returning the documented error value and leave the decoder
usable, the ownership ledger is empty after any history that releases what it holds, and an
in-protocol call never dereferences an iterator whose source object has been released.
What is **not** proved: that the C code performs no out-of-bounds access — that is observed by replaying
generated histories on the real library under ASan/UBSan/LSan with the per-call diff against this model
(`tools/props/c09.py`).  The property is therefore decided *partially* by these theorems.
-/
namespace SSVerif.Protocol

set_option maxHeartbeats 4000000 in
/-- **C09, totality (`step_total`).** Every call in every state returns a value of its documented class
(`0`/`<0`, `NULL`/non-`NULL`, a count, the new reference count, nothing), or is classified out-of-protocol,
in which case the state is unchanged. -/
theorem C09_step_total (s : ApiState) (c : Call) :
    isDoc c (step s c).2 ∨ ((step s c).2 = .oop ∧ (step s c).1 = s) := by
  cases c <;> simp only [step, loadGrammar, ptrIf] <;> (repeat' split) <;>
    simp_all [isDoc, docClass]

/-- the same along a whole history: every return of every history is documented or out-of-protocol -/
theorem C09_history_total (s : ApiState) (cs : List Call) :
    ∀ p ∈ List.zip cs (runRets s cs), isDoc p.1 p.2 ∨ p.2 = .oop := by
  induction cs generalizing s with
  | nil => intro p hp; cases hp
  | cons c cs ih =>
    intro p hp
    simp only [runRets, List.zip_cons_cons, List.mem_cons] at hp
    rcases hp with rfl | hp
    · rcases C09_step_total s c with h | h
      · exact .inl h
      · exact .inr h.1
    · exact ih _ p hp

/-- **C09, out-of-order calls (`out_of_order_is_noop`).** Audio before start or after end, start twice, end
without start, and start / end / any result query with no search selected return the documented error
value (`-1`, resp. `NULL`) and change nothing: `state' = state`. -/
theorem C09_out_of_order_is_noop (s : ApiState) (c : Call) (h : outOfOrder s c) :
    step s c = (s, errorValue c) := by
  cases c <;> simp only [outOfOrder] at h <;>
    (simp only [step, errorValue, latticeStep, latOf, latSrcOk, ptrIf]
     (repeat' split) <;> simp_all)

/-- a live decoder can always be brought to accept an utterance by at most two in-protocol calls that
succeed: end the running utterance, select a grammar.  (`.setGrammar true` is a call whose grammar LOADS —
a well-formed grammar over dictionary words; that the caller can supply one is assumed, not proved.) -/
def recover (s : ApiState) : List Call :=
  (if s.utt = .inUtt then [.endUtt false] else []) ++ (if s.search = .none then [.setGrammar true] else [])

/-- **C09, the decoder stays usable.** From every reachable state with a live decoder — in particular the
(unchanged) state after an out-of-order call — the calls `recover s` all succeed and `decoder_start_utt`
then returns 0. -/
theorem C09_stays_usable (s : ApiState) (h : WF s) (h0 : s.refs ≠ 0) :
    (∀ r ∈ runRets s (recover s), r = .ok) ∧ (step (run s (recover s)) .start).2 = .ok := by
  unfold recover
  by_cases hu : s.utt = .inUtt
  · have hs := h.inUtt hu
    simp [hu, hs, runRets, run, step, h0]
  · by_cases hs : s.search = .none
    · simp [hu, hs, runRets, run, step, h0]
    · simp [hu, hs, runRets, run, step, h0]

theorem C09_usable_after_out_of_order (s : ApiState) (c : Call) (h : WF s) (ho : outOfOrder s c) (h0 : s.refs ≠ 0) :
    let s' := (step s c).1
    s' = s ∧ WF s' ∧ (∀ r ∈ runRets s' (recover s'), r = .ok) ∧ (step (run s' (recover s')) .start).2 = .ok := by
  have e : (step s c).1 = s := by rw [C09_out_of_order_is_noop s c ho]
  simp only [e]
  exact ⟨trivial, h, C09_stays_usable s h h0⟩

/-- every state reached by any history from the initial state is well-formed -/
theorem C09_reachable_wf (cs : List Call) : WF (run init0 cs) := wf_run init0 wf_init0 cs

/-- **C09, ledger balance (`ledger_balanced`).** For every history — including histories that free the
decoder in the middle of an utterance, abandon iterators half-way, query before any audio, or contain
out-of-order calls — if at the end the last decoder reference has been released and every iterator and user
reference has been freed or exhausted, the ownership ledger is empty: no search, lattice, active list,
aligner, JSON buffer or configuration is still owned by anything. -/
theorem C09_ledger_balanced (cs : List Call) (hc : Closed (run init0 cs)) : ledger (run init0 cs) = [] := by
  have h := C09_reachable_wf cs
  obtain ⟨h0, hi, hl, ha⟩ := hc
  obtain ⟨d1, d2, d3, d4, d5, d6⟩ := h.dead h0
  have hdag := (h.noSearch d1).1
  have hact : (run init0 cs).active = false := by
    cases hx : (run init0 cs).active
    · rfl
    · have := h.activeIff.mp hx
      rw [d2] at this; cases this
  simp [ledger, h0, hi, hl, ha, d1, d3, d4, d5, d6, hdag, hact]

/-- the iterator a call dereferences (anything but freeing it) -/
def usesIter : Call → Option Nat
  | .segNext id _ => some id | .hypNext id _ => some id | .aliNext id _ => some id
  | .aliGoto id _ => some id | .hypSeg _ src _ => some src | .aliChild _ src _ => some src
  | .lnodeNext id _ => some id | .llinkNext id _ => some id | .llink _ src _ => some src
  | _ => none

/-- **C09, in-protocol calls touch live objects only.** In every reachable state, a call that advances,
repositions or derives from an iterator and is not classified out-of-protocol finds the iterator in the
table, valid, and the object it points into (search history, lattice, aligner-owned or user-retained
alignment) is alive in the ledger. -/
theorem C09_used_iterators_are_live (cs : List Call) (c : Call) (id : Nat)
    (hu : usesIter c = some id) (hr : (step (run init0 cs) c).2 ≠ .oop) :
    ∃ it, findIter (run init0 cs).iters id = some it ∧ it.valid = true ∧ live (run init0 cs) it.kind := by
  have h := C09_reachable_wf cs
  generalize run init0 cs = s at h hr ⊢
  have single : ∀ (p : IterKind → Bool) (it : Iter), findIter s.iters id = some it →
      (p it.kind && it.valid) = true → ∃ it, findIter s.iters id = some it ∧ it.valid = true ∧ live s it.kind := by
    intro p it hf hc
    obtain ⟨_, hv⟩ : _ ∧ it.valid = true := by simpa using hc
    exact ⟨it, hf, hv, h.iters it (findIter_mem hf) hv⟩
  cases c <;> simp [usesIter] at hu
  case segNext i l =>
    subst hu; simp only [step] at hr
    split at hr
    · rename_i it hf
      split at hr
      · rename_i hc; exact single isSeg it hf hc
      · exact absurd rfl hr
    · exact absurd rfl hr
  case hypNext i l =>
    subst hu; simp only [step] at hr
    split at hr
    · rename_i it hf
      split at hr
      · rename_i hc; exact single isHyp it hf hc
      · exact absurd rfl hr
    · exact absurd rfl hr
  case aliNext i l =>
    subst hu; simp only [step] at hr
    split at hr
    · rename_i it hf
      split at hr
      · rename_i hc; exact single isAli it hf hc
      · exact absurd rfl hr
    · exact absurd rfl hr
  case aliGoto i l =>
    subst hu; simp only [step] at hr
    split at hr
    · rename_i it hf
      split at hr
      · rename_i hc; exact single isAli it hf hc
      · exact absurd rfl hr
    · exact absurd rfl hr
  case hypSeg d i e =>
    subst hu; simp only [step] at hr
    split at hr
    · rename_i it hf _
      split at hr
      · rename_i hc; exact single isHyp it hf hc
      · exact absurd rfl hr
    · exact absurd rfl hr
  case aliChild d i e =>
    subst hu; simp only [step] at hr
    split at hr
    · rename_i it hf _
      split at hr
      · rename_i hc; exact single isAli it hf hc
      · exact absurd rfl hr
    · exact absurd rfl hr
  case lnodeNext i l =>
    subst hu; simp only [step] at hr
    split at hr
    · rename_i it hf
      split at hr
      · rename_i hc; exact single isLatN it hf hc
      · exact absurd rfl hr
    · exact absurd rfl hr
  case llinkNext i l =>
    subst hu; simp only [step] at hr
    split at hr
    · rename_i it hf
      split at hr
      · rename_i hc; exact single isLatL it hf hc
      · exact absurd rfl hr
    · exact absurd rfl hr
  case llink d i e =>
    subst hu; simp only [step] at hr
    split at hr
    · rename_i it hf _
      split at hr
      · split at hr
        · rename_i hv
          exact ⟨it, hf, hv, h.iters it (findIter_mem hf) hv⟩
        · exact absurd rfl hr
      · exact absurd rfl hr
    · exact absurd rfl hr

/-! ## capacity of the alignment vectors -/

/-- **C09, over-long alignments (vector level).** One `vector_grow_one` of `ps_alignment.c` (growth step
`VECTOR_GROW`, limit and 16-bit counters regenerated from the source) on a vector whose counters are consistent:
when it grants the entry the count goes up by exactly one — no wrap-around of the 16-bit counter —, the entry
handed out (`seq + n_ent - 1`) lies inside the allocation, and neither count nor allocation exceeds the limit;
otherwise it refuses (`none`: `alignment_add_word` returns 0, `alignment_populate` −1) and nothing changes. -/
theorem C09_alignment_vector_in_bounds (v : AlignVec.Vec) (hv : v.Ok Generated.AlignVec.vectorLimit) :
    match AlignVec.growOne v with
    | some v' => v'.Ok Generated.AlignVec.vectorLimit ∧ v'.n = v.n + 1 ∧ v'.n - 1 < v'.alloc
                 ∧ v'.n ≤ Generated.AlignVec.vectorLimit ∧ v'.n < 2 ^ Generated.AlignVec.counterBits
    | none => True := by
  cases h : AlignVec.growOne v with
  | none => trivial
  | some v' =>
    obtain ⟨a, b, c, d⟩ := AlignVec.growOne_ok hv h
    exact ⟨a, b, c, d, Nat.lt_of_le_of_lt d AlignVec.limit_fits⟩

/-- **C09, over-long alignments (history level).** In every state reached by any history, every alignment the
user builds with `alignment_init` / `alignment_add_word` / `alignment_populate(_ci)` — however many words are
added, however often it is populated — has all three levels (words, phones, states) inside their allocation and
inside the 16-bit limit: the calls that cannot be granted return their error value instead. -/
theorem C09_built_alignments_in_bounds (cs : List Call) :
    ∀ p ∈ (run init0 cs).built, AlignVec.UAlign.Ok p.2 := builtOk_run init0 builtOk_init0 cs

/-- non-vacuity at the boundary: allocations run 11, 21, …, 65 531; with 65 520 entries the vector grows one last
time, with 65 530 entries the next one is refused (65 541 > limit) -/
example : AlignVec.Vec.Ok Generated.AlignVec.vectorLimit { n := 65520, alloc := 65521 } ∧
    AlignVec.growOne { n := 65520, alloc := 65521 } = some { n := 65521, alloc := 65531 } ∧
    AlignVec.Vec.Ok Generated.AlignVec.vectorLimit { n := 65530, alloc := 65531 } ∧
    AlignVec.growOne { n := 65530, alloc := 65531 } = none := by
  simp [AlignVec.Vec.Ok, AlignVec.growOne, AlignVec.growOneP, Generated.AlignVec.vectorLimit,
        Generated.AlignVec.vectorGrow, Generated.AlignVec.counterBits]

/-- non-vacuity at history level: three two-phone words, populated with 3 states per phone -/
example :
    runRets init0 [.init .good false, .alBuild 0, .alAdd 0 3 2, .alPop 0 3, .free, .alPop 0 3, .alFree 0]
      = [.ptr, .ptr, .count, .ok, .rc 0, .ok, .void] ∧
    (builtOf (run init0 [.init .good false, .alBuild 0, .alAdd 0 3 2, .alPop 0 3]).built 0).map
      (fun u => (u.word.n, u.sseq.n, u.state.n)) = some (3, 6, 18) := by decide

/-! ## two decoders, shared and held objects (system level, `Model/ProtocolSys.lean`) -/

/-- every system state reached by any interleaved history keeps both decoder automata well-formed (so all the
single-decoder theorems above apply to each instance of an interleaving) -/
theorem C09_sys_reachable_wf (h : List SysCall) : SysWF (sysRun sys0 h) := sysRun_wf sys0 sysWF_sys0 h

/-- **C09, ledger balance with two decoders and held sub-objects.** For every interleaved history of the two
decoders — sharing a configuration object, retaining configurations, log-math / front-end / feature objects,
lattices, alignments and transforms beyond the life of the decoder they came from, freeing either decoder
first — once both decoders' last references are released and every iterator and every held reference has been
freed, the ledger of the whole system is empty. -/
theorem C09_sys_ledger_balanced (h : List SysCall) (hc : SysClosed (sysRun sys0 h)) :
    sysLedger (sysRun sys0 h) = [] := by
  have hw := C09_sys_reachable_wf h
  obtain ⟨ca, cb, h1, h2, h3⟩ := hc
  have closedEmpty : ∀ x : ApiState, WF x → Closed x → ledger x = [] := by
    intro x wx cx
    obtain ⟨h0, hi, hl, ha⟩ := cx
    obtain ⟨d1, d2, d3, d4, d5, d6⟩ := wx.dead h0
    have hdag := (wx.noSearch d1).1
    have hact : x.active = false := by
      cases hx : x.active
      · rfl
      · have := wx.activeIff.mp hx
        rw [d2] at this; cases this
    simp [ledger, h0, hi, hl, ha, d1, d3, d4, d5, d6, hdag, hact]
  simp [sysLedger, closedEmpty _ hw.1 ca, closedEmpty _ hw.2 cb, h1, h2, h3]

/-- **C09, memory / ownership isolation of two decoders, one call.** A call that is not made on decoder `i`
leaves the whole state of `i` unchanged: protocol state, reference count, search, lattice, aligner, every
iterator and every lattice / alignment reference obtained from `i`. -/
theorem C09_instances_disjoint_step (s : Sys) (c : SysCall) (i : Inst) (h : instOf c ≠ some i) :
    (sysStep s c).1.inst i = s.inst i := sysStep_other_inst s c i h

/-- the calls of instance `i` in an interleaved history -/
def soloHist (i : Inst) (h : List SysCall) : List SysCall := h.filter (fun c => instOf c == some i)

/-- the returns of instance `i`'s calls along an interleaved history -/
def retsOf (i : Inst) : Sys → List SysCall → List Ret
  | _, [] => []
  | s, c :: cs => (if instOf c == some i then [(sysStep s c).2] else []) ++ retsOf i (sysStep s c).1 cs

theorem ownOnly_inst {c : SysCall} (ho : ownOnly c = true) : ∃ j, instOf c = some j := by
  cases c with
  | cfgGram t _ _ => cases t <;> simp_all [ownOnly, instOf]
  | cfgCall t _ _ _ => cases t <;> simp_all [ownOnly, instOf]
  | _ => simp_all [ownOnly, instOf]

theorem solo_run (i : Inst) (h : List SysCall) : ∀ (s1 s2 : Sys), SoloRel i s1 s2 → CfgSep s1 →
    (∀ c ∈ h, ownOnly c = true) →
    SoloRel i (sysRun s1 h) (sysRun s2 (soloHist i h)) ∧ retsOf i s1 h = sysRets s2 (soloHist i h) := by
  induction h with
  | nil => intro s1 s2 hr _ _; exact ⟨hr, rfl⟩
  | cons c cs ih =>
    intro s1 s2 hr hs ho
    have hoc : ownOnly c = true := ho c List.mem_cons_self
    have hocs : ∀ c' ∈ cs, ownOnly c' = true := fun c' hm => ho c' (List.mem_cons_of_mem _ hm)
    obtain ⟨j, hj⟩ := ownOnly_inst hoc
    have hs' := cfgSep_step hs c hoc
    by_cases hji : j = i
    · subst hji
      obtain ⟨hr', hret⟩ := solo_self hr c hj hoc
      obtain ⟨r1, r2⟩ := ih _ _ hr' hs' hocs
      have hf : soloHist j (c :: cs) = c :: soloHist j cs := by simp [soloHist, List.filter, hj]
      rw [hf]
      refine ⟨by simpa [sysRun] using r1, ?_⟩
      simp only [retsOf, hj, beq_self_eq_true, if_true, sysRets, List.singleton_append]
      rw [r2, hret]
    · have hjo : j = i.other := eq_other_of_ne hji
      subst hjo
      have hr' := solo_other hr hs c hj hoc
      obtain ⟨r1, r2⟩ := ih _ _ hr' hs' hocs
      have hne : (instOf c == some i) = false := by
        rw [hj]; simpa using other_ne i
      have hf : soloHist i (c :: cs) = soloHist i cs := by simp [soloHist, List.filter, hne]
      rw [hf]
      refine ⟨by simpa [sysRun] using r1, ?_⟩
      simp only [retsOf, hne, Bool.false_eq_true, if_false, List.nil_append]
      exact r2

/-- **C09, memory / ownership isolation of two decoders (`instances_disjoint`).** Take any interleaving `h` of
calls on two decoders in which each decoder only ever uses configurations made for it (any decoder call, a new
configuration at init / reinit, `config_*` calls on its own configuration).  Then decoder `i` ends in exactly the
state, and each of its calls returns exactly the value, of its **solo** history — `h` with the other decoder's
calls deleted.  (When the user makes the decoders share objects — a held configuration passed to both — the
hypothesis fails on purpose: a `config_set` through one decoder is visible to the other; `C09_sys_reachable_wf`,
`C09_sys_ledger_balanced` and `C09_instances_disjoint_step` still hold for such histories.) -/
theorem C09_instances_disjoint (i : Inst) (h : List SysCall) (ho : ∀ c ∈ h, ownOnly c = true) :
    (sysRun sys0 h).inst i = (sysRun sys0 (soloHist i h)).inst i ∧ retsOf i sys0 h = sysRets sys0 (soloHist i h) := by
  obtain ⟨r1, r2⟩ := solo_run i h sys0 sys0 ⟨rfl, rfl⟩ cfgSep_sys0 ho
  exact ⟨r1.1, r2⟩

/-! ## non-vacuity: concrete histories -/

/-- a complete utterance with queries, an abandoned segment iterator freed after the decoder, N-best,
alignment, JSON -/
def exFull : List Call := [.init .good false, .hyp true, .start, .proc false true, .seg 0 true,
  .segNext 0 false, .endUtt true, .nbest 100 true true, .hypSeg 1 100 true, .json 2 false true true,
  .alIter 200 .dec true true true true, .free, .segFree 0, .segFree 1, .hypFree 100, .aliFree 200]

/-- the history closes, the ledger is empty, every call returned a documented value -/
example : Closed (run init0 exFull) ∧ ledger (run init0 exFull) = [] ∧
    runRets init0 exFull = [.ptr, .null, .ok, .count, .ptr, .ptr, .ok, .ptr, .ptr, .ptr, .ptr, .rc 0, .void, .void,
      .void, .void] := by decide

/-- freeing in the middle of an utterance releases the active lists (repaired D16) -/
example : ledger (run init0 [.init .good false, .start, .proc false true]) =
    [.userDecoder, .decoderConfig, .decoderSearch, .searchActiveLists] ∧
    ledger (run init0 [.init .good false, .start, .proc false true, .free]) = [] := by decide

def exS1 : ApiState := run init0 [.init .good false]
def exS2 : ApiState := run exS1 [.start]
def exS3 : ApiState := run exS2 [.proc false true, .endUtt false]

/-- the listed out-of-order calls on a live decoder: audio before start, end without start, start twice,
audio after end (repaired D26), a query with no search; each hypothesis of `C09_out_of_order_is_noop` is
met by a reachable state -/
example : outOfOrder exS1 (.proc false true) ∧ outOfOrder exS1 (.endUtt false) ∧ outOfOrder exS2 .start ∧
    outOfOrder exS3 (.proc false true) ∧ step exS3 (.proc false true) = (exS3, .err) ∧
    outOfOrder (run init0 [.init .none false]) (.hyp true) := by decide

def exStale : ApiState :=
  run init0 [.init .good false, .start, .proc false true, .seg 0 true, .endUtt false, .start]

/-- using an iterator after its source was released is out-of-protocol, freeing it is not; while the source
is alive the iterator is used in-protocol (hypothesis of `C09_used_iterators_are_live`) -/
example : (step exStale (.segNext 0 false)).2 = .oop ∧ (step exStale (.segFree 0)).2 = .void ∧
    (step (run init0 [.init .good false, .start, .proc false true, .seg 0 true]) (.segNext 0 false)).2 = .ptr := by
  decide

/-- two decoders interleaved, each with its own configuration (hypothesis of `C09_instances_disjoint`): decoder b's
returns are those of its solo history -/
def exTwo : List SysCall :=
  [.initNew .a true .good false, .initNew .b false .good false, .dec .a .start, .dec .b (.hyp true),
   .dec .a (.proc false true), .dec .b .start, .cfgGram (.dec .a) true .bad, .dec .a (.endUtt true),
   .reinitKeep .a, .dec .b (.proc true true), .dec .b (.endUtt false), .dec .b (.hyp true), .reinitKeep .b,
   .dec .a .free, .dec .b .free]

example : (∀ c ∈ exTwo, ownOnly c = true) ∧
    retsOf .b sys0 exTwo = [.ptr, .null, .ok, .count, .ok, .ptr, .ok, .rc 0] ∧
    retsOf .a sys0 exTwo = [.ptr, .ok, .count, .ptr, .ok, .err, .rc 0] ∧
    SysClosed (sysRun sys0 exTwo) := by decide

/-- a configuration shared by two decoders and held by the user, a lattice with a node iterator and a log-math
object outliving their decoder, a consumed transform: the history closes and the system ledger is empty -/
def exShared : List SysCall :=
  [.initNew .a true .good false, .cfgRetainDec .a 0, .cfgRetainHeld 0 1, .initHeld .b 0,
   .cfgGram (.dec .b) true .bad, .dec .a .start, .dec .a (.proc false true), .dec .a (.latRetain 2 true),
   .dec .a (.lnode 300 (.user 2) true true), .subRetain .a .lmath 0, .mllrRead 0 true, .dec .a (.endUtt false),
   .mllrApply .a 0 false, .dec .a .free, .dec .a (.lnodeNext 300 false), .reinitKeep .b, .dec .b .free,
   .dec .a (.latFree 2), .dec .a (.lnodeFree 300), .subUse .lmath 0, .subFree .lmath 0, .cfgUse 1, .cfgFree 1]

example : SysClosed (sysRun sys0 exShared) ∧ sysLedger (sysRun sys0 exShared) = [] ∧
    sysRets sys0 exShared = [.ptr, .ptr, .ptr, .ptr, .ptr, .ok, .count, .ptr, .ptr, .ptr, .ptr, .ok, .ptr, .rc 0,
      .ptr, .err, .rc 0, .void, .void, .void, .void, .void, .void] := by decide

/-- after `latFree` of the last reference the node iterator is stale: using it is out-of-protocol -/
example : (sysStep (sysRun sys0 (exShared.take 18)) (.dec .a (.lnodeNext 300 false))).2 = .oop := by decide

end SSVerif.Protocol
