import SSVerif.Proofs.Protocol
/-!
# C09 — No sequence of API calls corrupts memory, aborts, or leaks

Property theorems over the protocol automaton `step` of `Model/Protocol.lean` (model M15), for **every**
state, call and call history (no bound on length; every resolution of the data-dependent outcomes).

What is proved here is the *logic* of the property: every call returns a value of its documented class,
the listed out-of-order calls are no-ops returning the documented error value and leave the decoder
usable, the ownership ledger is empty after any history that releases what it holds, and an
in-protocol call never dereferences an iterator whose source object has been released.
What is **not** proved: that the C code performs no out-of-bounds access — that is observed by replaying
generated histories on the real library under ASan/UBSan/LSan with the per-call diff against this model
(`tools/props/c09.py`).  The property is therefore decided *partially* by these theorems.
-/
namespace SSVerif.Protocol

set_option maxHeartbeats 4000000 in
/-- **C09, totality (`step_total`).** Every call in every state returns a value of its documented class
(`0`/`<0`, `NULL`/non-`NULL`, a count, the new reference count, nothing), or is classified out-of-protocol,
in which case the state is unchanged. -/
theorem C09_step_total (s : ApiState) (c : Call) :
    isDoc c (step s c).2 ∨ ((step s c).2 = .oop ∧ (step s c).1 = s) := by
  cases c <;> simp only [step, loadGrammar, ptrIf] <;> (repeat' split) <;>
    simp_all [isDoc, docClass]

/-- the same along a whole history: every return of every history is documented or out-of-protocol -/
theorem C09_history_total (s : ApiState) (cs : List Call) :
    ∀ p ∈ List.zip cs (runRets s cs), isDoc p.1 p.2 ∨ p.2 = .oop := by
  induction cs generalizing s with
  | nil => intro p hp; cases hp
  | cons c cs ih =>
    intro p hp
    simp only [runRets, List.zip_cons_cons, List.mem_cons] at hp
    rcases hp with rfl | hp
    · rcases C09_step_total s c with h | h
      · exact .inl h
      · exact .inr h.1
    · exact ih _ p hp

/-- **C09, out-of-order calls (`out_of_order_is_noop`).** Audio before start or after end, start twice, end
without start, and start / end / any result query with no search selected return the documented error
value (`-1`, resp. `NULL`) and change nothing: `state' = state`. -/
theorem C09_out_of_order_is_noop (s : ApiState) (c : Call) (h : outOfOrder s c) :
    step s c = (s, errorValue c) := by
  cases c <;> simp only [outOfOrder] at h <;>
    (simp only [step, errorValue, latticeStep, latOf, latSrcOk, ptrIf]
     (repeat' split) <;> simp_all)

/-- a live decoder can always be brought to accept an utterance by at most two in-protocol calls that
succeed: end the running utterance, select a grammar -/
def recover (s : ApiState) : List Call :=
  (if s.utt = .inUtt then [.endUtt false] else []) ++ (if s.search = .none then [.setGrammar true] else [])

/-- **C09, the decoder stays usable.** From every reachable state with a live decoder — in particular the
(unchanged) state after an out-of-order call — the calls `recover s` all succeed and `decoder_start_utt`
then returns 0. -/
theorem C09_stays_usable (s : ApiState) (h : WF s) (h0 : s.refs ≠ 0) :
    (∀ r ∈ runRets s (recover s), r = .ok) ∧ (step (run s (recover s)) .start).2 = .ok := by
  unfold recover
  by_cases hu : s.utt = .inUtt
  · have hs := h.inUtt hu
    simp [hu, hs, runRets, run, step, h0]
  · by_cases hs : s.search = .none
    · simp [hu, hs, runRets, run, step, h0]
    · simp [hu, hs, runRets, run, step, h0]

theorem C09_usable_after_out_of_order (s : ApiState) (c : Call) (h : WF s) (ho : outOfOrder s c) (h0 : s.refs ≠ 0) :
    let s' := (step s c).1
    s' = s ∧ WF s' ∧ (∀ r ∈ runRets s' (recover s'), r = .ok) ∧ (step (run s' (recover s')) .start).2 = .ok := by
  have e : (step s c).1 = s := by rw [C09_out_of_order_is_noop s c ho]
  simp only [e]
  exact ⟨trivial, h, C09_stays_usable s h h0⟩

/-- every state reached by any history from the initial state is well-formed -/
theorem C09_reachable_wf (cs : List Call) : WF (run init0 cs) := wf_run init0 wf_init0 cs

/-- **C09, ledger balance (`ledger_balanced`).** For every history — including histories that free the
decoder in the middle of an utterance, abandon iterators half-way, query before any audio, or contain
out-of-order calls — if at the end the last decoder reference has been released and every iterator and user
reference has been freed or exhausted, the ownership ledger is empty: no search, lattice, active list,
aligner, JSON buffer or configuration is still owned by anything. -/
theorem C09_ledger_balanced (cs : List Call) (hc : Closed (run init0 cs)) : ledger (run init0 cs) = [] := by
  have h := C09_reachable_wf cs
  obtain ⟨h0, hi, hl, ha⟩ := hc
  obtain ⟨d1, d2, d3, d4, d5, d6⟩ := h.dead h0
  have hdag := (h.noSearch d1).1
  have hact : (run init0 cs).active = false := by
    cases hx : (run init0 cs).active
    · rfl
    · have := h.activeIff.mp hx
      rw [d2] at this; cases this
  simp [ledger, h0, hi, hl, ha, d1, d3, d4, d5, d6, hdag, hact]

/-- the iterator a call dereferences (anything but freeing it) -/
def usesIter : Call → Option Nat
  | .segNext id _ => some id | .hypNext id _ => some id | .aliNext id _ => some id
  | .aliGoto id _ => some id | .hypSeg _ src _ => some src | .aliChild _ src _ => some src
  | .lnodeNext id _ => some id | .llinkNext id _ => some id | .llink _ src _ => some src
  | _ => none

/-- **C09, in-protocol calls touch live objects only.** In every reachable state, a call that advances,
repositions or derives from an iterator and is not classified out-of-protocol finds the iterator in the
table, valid, and the object it points into (search history, lattice, aligner-owned or user-retained
alignment) is alive in the ledger. -/
theorem C09_used_iterators_are_live (cs : List Call) (c : Call) (id : Nat)
    (hu : usesIter c = some id) (hr : (step (run init0 cs) c).2 ≠ .oop) :
    ∃ it, findIter (run init0 cs).iters id = some it ∧ it.valid = true ∧ live (run init0 cs) it.kind := by
  have h := C09_reachable_wf cs
  generalize run init0 cs = s at h hr ⊢
  have single : ∀ (p : IterKind → Bool) (it : Iter), findIter s.iters id = some it →
      (p it.kind && it.valid) = true → ∃ it, findIter s.iters id = some it ∧ it.valid = true ∧ live s it.kind := by
    intro p it hf hc
    obtain ⟨_, hv⟩ : _ ∧ it.valid = true := by simpa using hc
    exact ⟨it, hf, hv, h.iters it (findIter_mem hf) hv⟩
  cases c <;> simp [usesIter] at hu
  case segNext i l =>
    subst hu; simp only [step] at hr
    split at hr
    · rename_i it hf
      split at hr
      · rename_i hc; exact single isSeg it hf hc
      · exact absurd rfl hr
    · exact absurd rfl hr
  case hypNext i l =>
    subst hu; simp only [step] at hr
    split at hr
    · rename_i it hf
      split at hr
      · rename_i hc; exact single isHyp it hf hc
      · exact absurd rfl hr
    · exact absurd rfl hr
  case aliNext i l =>
    subst hu; simp only [step] at hr
    split at hr
    · rename_i it hf
      split at hr
      · rename_i hc; exact single isAli it hf hc
      · exact absurd rfl hr
    · exact absurd rfl hr
  case aliGoto i l =>
    subst hu; simp only [step] at hr
    split at hr
    · rename_i it hf
      split at hr
      · rename_i hc; exact single isAli it hf hc
      · exact absurd rfl hr
    · exact absurd rfl hr
  case hypSeg d i e =>
    subst hu; simp only [step] at hr
    split at hr
    · rename_i it hf _
      split at hr
      · rename_i hc; exact single isHyp it hf hc
      · exact absurd rfl hr
    · exact absurd rfl hr
  case aliChild d i e =>
    subst hu; simp only [step] at hr
    split at hr
    · rename_i it hf _
      split at hr
      · rename_i hc; exact single isAli it hf hc
      · exact absurd rfl hr
    · exact absurd rfl hr
  case lnodeNext i l =>
    subst hu; simp only [step] at hr
    split at hr
    · rename_i it hf
      split at hr
      · rename_i hc; exact single isLatN it hf hc
      · exact absurd rfl hr
    · exact absurd rfl hr
  case llinkNext i l =>
    subst hu; simp only [step] at hr
    split at hr
    · rename_i it hf
      split at hr
      · rename_i hc; exact single isLatL it hf hc
      · exact absurd rfl hr
    · exact absurd rfl hr
  case llink d i e =>
    subst hu; simp only [step] at hr
    split at hr
    · rename_i it hf _
      split at hr
      · split at hr
        · rename_i hv
          exact ⟨it, hf, hv, h.iters it (findIter_mem hf) hv⟩
        · exact absurd rfl hr
      · exact absurd rfl hr
    · exact absurd rfl hr

/-! ## non-vacuity: concrete histories -/

/-- a complete utterance with queries, an abandoned segment iterator freed after the decoder, N-best,
alignment, JSON -/
def exFull : List Call := [.init .good false, .hyp true, .start, .proc false true, .seg 0 true,
  .segNext 0 false, .endUtt true, .nbest 100 true true, .hypSeg 1 100 true, .json 2 false true true,
  .alIter 200 .dec true true true true, .free, .segFree 0, .segFree 1, .hypFree 100, .aliFree 200]

/-- the history closes, the ledger is empty, every call returned a documented value -/
example : Closed (run init0 exFull) ∧ ledger (run init0 exFull) = [] ∧
    runRets init0 exFull = [.ptr, .null, .ok, .count, .ptr, .ptr, .ok, .ptr, .ptr, .ptr, .ptr, .rc 0, .void, .void,
      .void, .void] := by decide

/-- freeing in the middle of an utterance releases the active lists (repaired D16) -/
example : ledger (run init0 [.init .good false, .start, .proc false true]) =
    [.userDecoder, .decoderConfig, .decoderSearch, .searchActiveLists] ∧
    ledger (run init0 [.init .good false, .start, .proc false true, .free]) = [] := by decide

def exS1 : ApiState := run init0 [.init .good false]
def exS2 : ApiState := run exS1 [.start]
def exS3 : ApiState := run exS2 [.proc false true, .endUtt false]

/-- the listed out-of-order calls on a live decoder: audio before start, end without start, start twice,
audio after end (repaired D26), a query with no search; each hypothesis of `C09_out_of_order_is_noop` is
met by a reachable state -/
example : outOfOrder exS1 (.proc false true) ∧ outOfOrder exS1 (.endUtt false) ∧ outOfOrder exS2 .start ∧
    outOfOrder exS3 (.proc false true) ∧ step exS3 (.proc false true) = (exS3, .err) ∧
    outOfOrder (run init0 [.init .none false]) (.hyp true) := by decide

def exStale : ApiState :=
  run init0 [.init .good false, .start, .proc false true, .seg 0 true, .endUtt false, .start]

/-- using an iterator after its source was released is out-of-protocol, freeing it is not; while the source
is alive the iterator is used in-protocol (hypothesis of `C09_used_iterators_are_live`) -/
example : (step exStale (.segNext 0 false)).2 = .oop ∧ (step exStale (.segFree 0)).2 = .void ∧
    (step (run init0 [.init .good false, .start, .proc false true, .seg 0 true]) (.segNext 0 false)).2 = .ptr := by
  decide

end SSVerif.Protocol
