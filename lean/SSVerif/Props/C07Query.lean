import SSVerif.Model.AcmodBuf
/-!
# C07 — queries that do not touch the acoustic model, at ANY point of the utterance (round 3, wave 5)

"… and whether or not partial results are requested along the way.  The number of frames searched is the same in
every case."  A request for the hypothesis or the segmentation (`decoder_hyp`, `decoder_seg_iter`) only reads the
search state; a request for the alignment (`decoder_alignment`) that is REFUSED — the search has no hypothesis yet
(the first frames of an utterance), only null transitions, or the existing alignment is reused — returns before it
touches the acoustic model (decoder.c: the rewind comes after the hypothesis lookup).  In the model both are the
operations `Op.query` and `Op.align none`.  The theorems say that such requests, inserted at any point of any call
sequence (before the first frame, after 1, 2, … frames, after `decoder_end_utt`), leave the WHOLE model state as it
is: buffers, ring positions, the frames handed to the search (`searched`, hence their number) and every alignment
pass.  No hypothesis on the decoder state, the call sequence or the front end.

Tie: `q ralign` of harness/h_c07.c issues `decoder_alignment` whatever the state of the search; the family "early
and refused queries" of tools/props/c07.py places every kind of query after 0, 1, 2, … frames searched; a refused
one is replayed as `Op.align none` and all counters (`of`, `fo`, `nfeat`, `bp`, `cp`, …) of the real decoder after
it must equal the model's, the final record must equal the reference record.
-/
namespace SSVerif.AcmodBuf

/-- a request that does not touch the acoustic model: hypothesis / segmentation, or an alignment request that
    returns before the rewind (refused for want of a hypothesis, or answered from the existing alignment) -/
def Op.isPassive : Op → Bool
  | .query => true
  | .align none => true
  | _ => false

/-- One such request leaves the whole state unchanged, whatever the state is. -/
theorem C07_passive_query_noop (fixD8 : Bool) (win : Nat) (skip : Nat → Bool) (s : St) (op : Op)
    (h : op.isPassive = true) : step fixD8 win skip s op = s := by
  cases op with
  | process ns rs => simp [Op.isPassive] at h
  | processFull ns rs => simp [Op.isPassive] at h
  | query => rfl
  | align steps =>
    cases steps with
    | none => rfl
    | some n => simp [Op.isPassive] at h

theorem runOps_cons (fixD8 : Bool) (win : Nat) (skip : Nat → Bool) (s : St) (o : Op) (os : List Op) :
    runOps fixD8 win skip s (o :: os) = runOps fixD8 win skip (step fixD8 win skip s o) os := rfl

/-- Any number of such requests at any points of a call sequence: the state after the sequence is the state after
    the sequence without them. -/
theorem C07_passive_queries_anywhere (fixD8 : Bool) (win : Nat) (skip : Nat → Bool) (s : St) (ops : List Op) :
    runOps fixD8 win skip s ops = runOps fixD8 win skip s (ops.filter fun o => !o.isPassive) := by
  induction ops generalizing s with
  | nil => rfl
  | cons o os ih =>
    rw [runOps_cons, List.filter_cons]
    cases h : o.isPassive with
    | true =>
      rw [C07_passive_query_noop fixD8 win skip s o h]
      simpa using ih s
    | false =>
      simp only [Bool.not_false, if_true]
      rw [runOps_cons]
      exact ih _

/-- **The clause of the property for refused / read-only requests.**  A whole utterance (start, calls, end, calls on
    the final result) with hypothesis, segmentation and refused alignment requests at arbitrary points ends in exactly
    the state of the same utterance without them: same frames searched (and so the same number), same feature
    vectors, same buffers and ring positions, same alignment passes. -/
theorem C07_refused_queries_do_not_matter (fixD8 : Bool) (win : Nat) (skip : Nat → Bool) (s0 : St)
    (ops post : List Op) (tail : Bool) :
    runUtt fixD8 win skip s0 ops tail post =
      runUtt fixD8 win skip s0 (ops.filter fun o => !o.isPassive) tail (post.filter fun o => !o.isPassive) := by
  unfold runUtt
  rw [C07_passive_queries_anywhere fixD8 win skip (startUtt s0) ops,
      C07_passive_queries_anywhere fixD8 win skip _ post]

/-- the number of frames searched in particular -/
theorem C07_refused_queries_same_frame_count (fixD8 : Bool) (win : Nat) (skip : Nat → Bool) (s0 : St)
    (ops post : List Op) (tail : Bool) :
    (runUtt fixD8 win skip s0 ops tail post).searched.length =
      (runUtt fixD8 win skip s0 (ops.filter fun o => !o.isPassive) tail (post.filter fun o => !o.isPassive)).searched.length := by
  rw [C07_refused_queries_do_not_matter]

/-! non-vacuity: a refused alignment request after the first searched frame (4 cepstral frames delivered, 1 frame
    searched), a hypothesis request after the second call; 11 frames searched either way -/
private def exQ : List Op :=
  [.align none, .process false [⟨4, false⟩], .align none, .process false [⟨1, false⟩], .query, .process false [⟨5, false⟩]]

example : (exQ.filter fun o => !o.isPassive).length = 3 := by decide
example : (runOps true 3 (fun _ => false) (startUtt (St.init 500)) (exQ.take 2)).outputFrame = 1 := by decide +kernel
example : (runUtt true 3 (fun _ => false) (St.init 500) exQ true []).searched.length = 11 := by decide +kernel
example : (runUtt true 3 (fun _ => false) (St.init 500) exQ true []).searched =
    (runUtt true 3 (fun _ => false) (St.init 500) (exQ.filter fun o => !o.isPassive) true []).searched := by
  decide +kernel

end SSVerif.AcmodBuf
