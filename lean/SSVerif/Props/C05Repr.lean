import SSVerif.Props.C05
import SSVerif.Model.JsgfNames
/-!
# C05 — the refusal decision does not depend on the fuel; `jsgf_read_string`

`representable` (= `okRule … (T.length + 1)`, Model/Jsgf.lean) and the expansion mirror `expandTop`
recurse with the fuel `T.length + 1` and answer `false`/`none` at fuel 0.  Audit B4: is a refusal ever
caused by the fuel?  No: the rule stack of the recursion consists of pairwise different defined rule
names, so it is never deeper than the table is long, and the decision is the same for every larger
fuel (`C05_representable_fuel_stable`, `C05_refusal_not_by_fuel`).

The characterisation of `representable` on the reference graph ("no undefined rule reachable, no reference
that is not last on a reachable cycle") is proved in Props/C05Graph.lean (`C05_representable_iff_graph`).
-/
namespace SSVerif.Jsgf
open SSVerif.Nfa

/-! ### a list of pairwise different members of `m` is not longer than `m` -/

theorem nodup_subset_length_le {α : Type} [DecidableEq α] :
    ∀ (l m : List α), l.Nodup → (∀ a ∈ l, a ∈ m) → l.length ≤ m.length
  | [], _, _, _ => Nat.zero_le _
  | a :: l, m, hnd, hsub => by
    have ham : a ∈ m := hsub a (List.mem_cons_self ..)
    have hnd' := List.nodup_cons.mp hnd
    have ih := nodup_subset_length_le l (m.erase a) hnd'.2 (fun b hb =>
      (List.mem_erase_of_ne (fun e => hnd'.1 (by cases e; exact hb))).mpr (hsub b (List.mem_cons_of_mem _ hb)))
    have hlen := List.length_erase_of_mem ham
    have hpos : 0 < m.length := List.length_pos_of_mem ham
    simp only [List.length_cons]
    omega

theorem defined_mem_names {T : Table} {r : RName} (h : T.defined r = true) : r ∈ T.map (·.name) := by
  simp only [Table.defined, Table.find, Option.isSome_iff_exists] at h
  obtain ⟨rl, hrl⟩ := h
  have hm := List.mem_of_find?_eq_some hrl
  have hp := List.find?_some hrl
  simp only [beq_iff_eq] at hp
  exact List.mem_map.mpr ⟨rl, hm, hp⟩

/-- the rule stack is never deeper than the table is long -/
theorem stack_length_le (T : Table) (l : List RName) (hnd : l.Nodup) (hdef : ∀ s ∈ l, T.defined s = true) :
    l.length ≤ T.length := by
  have := nodup_subset_length_le l (T.map (·.name)) hnd (fun a ha => defined_mem_names (hdef a ha))
  simpa using this

/-- `okAtoms` calls `recur` only on defined rules that are not on the stack -/
theorem okAtoms_congr_off_stack (T : Table) (whole : Bool) (f g : Nat → RName → Bool) (stack : List RName)
    (ntail : Nat) : ∀ alt : List Atom,
    (∀ nt s, T.defined s = true → stack.contains s = false → f nt s = g nt s) →
      okAtoms T whole f stack ntail alt = okAtoms T whole g stack ntail alt := by
  intro alt
  induction alt with
  | nil => intro _; rfl
  | cons a rest ih =>
    intro hfg
    cases a with
    | ref s =>
      simp only [okAtoms]
      by_cases hd : T.defined s = true
      · simp only [hd, Bool.not_true, Bool.false_eq_true, if_false]
        by_cases hs : stack.contains s = true
        · rw [if_pos hs, if_pos hs]
        · rw [if_neg hs, if_neg hs]
          simp only [Bool.not_eq_true] at hs
          rw [hfg _ s hd hs, ih hfg]
      · simp only [Bool.not_eq_true] at hd
        simp [hd]
    | tok w => simp only [okAtoms]; exact ih hfg
    | null => simp only [okAtoms]; exact ih hfg
    | void => simp only [okAtoms]; exact ih hfg

/-- with a stack of pairwise different defined rules, any two fuels that cover the rest of the table
give the same decision -/
theorem okRule_fuel (T : Table) (whole : Bool) : ∀ (fuel fuel' : Nat) (stack : List RName) (ntail : Nat) (r : RName),
    (r :: stack).Nodup → (∀ s ∈ r :: stack, T.defined s = true) →
    T.length + 1 ≤ fuel + stack.length → T.length + 1 ≤ fuel' + stack.length →
    okRule T whole fuel stack ntail r = okRule T whole fuel' stack ntail r := by
  intro fuel
  induction fuel with
  | zero =>
    intro fuel' stack ntail r hnd hdef h1 _
    have := stack_length_le T (r :: stack) hnd hdef
    simp only [List.length_cons] at this
    omega
  | succ fuel ih =>
    intro fuel' stack ntail r hnd hdef h1 h2
    cases fuel' with
    | zero =>
      have := stack_length_le T (r :: stack) hnd hdef
      simp only [List.length_cons] at this
      omega
    | succ fuel' =>
      simp only [okRule]
      congr 1
      funext alt
      apply okAtoms_congr_off_stack
      intro nt s hd hs
      have hns : s ∉ r :: stack := by
        intro hm
        have : (r :: stack).contains s = true := List.contains_iff_mem.mpr hm
        rw [hs] at this
        exact Bool.noConfusion this
      apply ih fuel' (r :: stack) nt s (List.nodup_cons.mpr ⟨hns, hnd⟩)
      · intro x hx
        rcases List.mem_cons.mp hx with rfl | hx
        · exact hd
        · exact hdef x hx
      · simp only [List.length_cons]; omega
      · simp only [List.length_cons]; omega

/-! ### property theorems -/

/-- **C05, the accept/refuse decision does not depend on the fuel.** For every rule table, every
defined top rule and every fuel `n ≥ T.length + 1` the decision procedure `okRule` (both the repaired
whole-chain test and the last-hop test) answers as with the fuel `T.length + 1` that `representable`
uses: the answer `false` at fuel 0 is never reached, because the rule stack holds pairwise different
defined rules and is therefore never deeper than the table is long.  "Not representable" is never an
artefact of the bound on the recursion depth. -/
theorem C05_representable_fuel_stable (T : Table) (whole : Bool) (top : RName) (hd : T.defined top = true)
    (n : Nat) (hn : T.length + 1 ≤ n) :
    okRule T whole n [] 0 top = okRule T whole (T.length + 1) [] 0 top := by
  apply okRule_fuel T whole n (T.length + 1) [] 0 top
  · simp
  · intro s hs
    simp only [List.mem_singleton] at hs
    exact hs ▸ hd
  · simpa using hn
  · simp

/-- **C05, the compiler model never refuses for lack of fuel.** For every rule table and top rule:
the expansion mirror builds an automaton iff the top rule is defined and the refusal test passes with
ANY fuel `n ≥ T.length + 1` — so `expandTop T top = none` always has one of the reasons the code has
(undefined rule reached, recursion through a position that is not last), never the depth bound. -/
theorem C05_refusal_not_by_fuel (T : Table) (top : RName) (n : Nat) (hn : T.length + 1 ≤ n) :
    (expandTop T top).isSome = (T.defined top && okRule T true n [] 0 top) := by
  rw [(C05_expand_correct T top).1, representable]
  cases hd : T.defined top with
  | false => rfl
  | true => rw [C05_representable_fuel_stable T true top hd n hn]

open SSVerif.JsgfNames in
/-- **C05, `jsgf_read_string`.** For every rule table and every iteration order of the hash table:
when no rule of the table is public, `jsgf_read_string` answers NULL; when it answers with an
automaton, that automaton is what `jsgf_build_fsg` builds for the first public rule of the order —
a public rule of the table — and it accepts exactly the sentences that rule denotes. -/
theorem C05_read_string (T : Table) (ord : List RName) :
    ((∀ rl ∈ T, rl.pub = false) → readString T ord = none) ∧
    (∀ st, readString T ord = some st → ∃ r rl, readTop T ord = some r ∧ T.find r = some rl ∧ rl.pub = true ∧
      buildRaw T r = some st ∧ ∀ ws, Accepts st.toNfa ws ↔ Der T.rules [.ref r] ws) := by
  constructor
  · intro hnp
    have : readTop T ord = none := by
      simp only [readTop, List.find?_eq_none]
      intro r _
      cases hf : T.find r with
      | none => simp
      | some rl =>
        have := hnp rl (List.mem_of_find?_eq_some hf)
        simp [this]
    simp [readString, this]
  · intro st h
    simp only [readString, Option.bind_eq_some_iff] at h
    obtain ⟨r, hr, hb⟩ := h
    have hp := List.find?_some hr
    cases hf : T.find r with
    | none => simp [hf] at hp
    | some rl =>
      simp only [hf] at hp
      refine ⟨r, rl, hr, hf, hp, hb, fun ws => ?_⟩
      unfold buildRaw at hb
      cases he : expandTop T r with
      | none => simp [he] at hb
      | some st' =>
        simp only [he, Option.bind_some] at hb
        split at hb
        · simp only [Option.some.injEq] at hb
          subst hb
          exact (C05_expand_correct T r).2 st' he ws
        · cases hb

/-! ### non-vacuity -/

/-- `<a> = x <b> | y; <b> = z <a>;` (tail recursion through two rules): representable with fuel 3 and
with fuel 1000 -/
def exT : Table :=
  [{ name := .user 0, pub := true, alts := [[⟨.tok 1, 1, 0⟩], [⟨.tok 0, 1, 0⟩, ⟨.ref (.user 1), 1, 0⟩]] },
   { name := .user 1, pub := false, alts := [[⟨.tok 2, 1, 0⟩, ⟨.ref (.user 0), 1, 0⟩]] }]

example : representable exT (.user 0) = true ∧ okRule exT true 1000 [] 0 (.user 0) = true := by decide +kernel
/-- too little fuel does change the answer: the hypothesis `T.length + 1 ≤ n` is needed -/
example : okRule exT true 1 [] 0 (.user 0) = false := by decide +kernel
open SSVerif.JsgfNames in
example : readTop exT [.user 1, .user 0] = some (.user 0) ∧ (readString exT [.user 1, .user 0]).isSome = true ∧
    readString (exT.map fun rl => { rl with pub := false }) [.user 1, .user 0] = none := by decide +kernel

end SSVerif.Jsgf
