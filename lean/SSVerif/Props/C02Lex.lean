import SSVerif.Proofs.LexFlatNodes
/-!
# C02 ∘ M10 — the lextree the code builds against the flat network C02's optimum is defined over

Property theorems only.  `buildLexTree li g` (Model/SearchLex.lean) is proved to satisfy `LexTreeOK` and is tied
node by node to the real lextree on every run of the C01 check; `FlatNet` (Model/FlatNet.lean, C02) is the
unshared network.  `Agree M li`: the lextree's inputs are those of the flat model `M` — same silence phone, same
pronunciations / filler flags of the words on the arcs, states `< nState`, phones `< nCi`, null arcs transitively
closed (the driver's `nullClosed` without its cost clause).  `fsgOf M` is the FSG with arc ids = positions in `M.arcs`.
-/
namespace SSVerif.LexFlat
open SSVerif.Search SSVerif.FlatNet

/-- **The context sets agree.**  The left-context phone list `lextree->lc[s]` that `fsg_lextree_lc_rc` computes
(three passes over bit vectors, the last an in-place, order-dependent propagation along null arcs) — the list
from which `psubtree_add_trans` makes the word-initial pnodes of every word leaving `s` and the leaves of every
single-phone word — has exactly the members of the flat network's `lcSet M s`; likewise `lextree->rc[s]` (the
word-final pnodes of every word entering `s`) and `rcSet M s`.  Both lists are duplicate-free, so they are equal
as multisets. -/
theorem C02_lextree_context_sets {M : Model} {li : LexIn} (h : Agree M li) {s : Nat} (hs : s < li.nState) :
    (∀ c, c ∈ ctxList li ((ctxFlags li (fsgOf M)).1.getD s 0) ↔ c ∈ lcSet M s) ∧
    (∀ c, c ∈ ctxList li ((ctxFlags li (fsgOf M)).2.getD s 0) ↔ c ∈ rcSet M s) ∧
    (ctxList li ((ctxFlags li (fsgOf M)).1.getD s 0)).Nodup ∧ (ctxList li ((ctxFlags li (fsgOf M)).2.getD s 0)).Nodup :=
  ⟨lc_iff h hs, rc_iff h hs, ctxList_nodup _ _, ctxList_nodup _ _⟩

/-- **Every single-phone word / filler of the flat network is in the lextree the code builds** (one inclusion of "the
unshared paths of the lextree = the instances of the flat network").  For every word arc `lid` leaving `s` whose word has one
phone: a filler is one root-and-leaf pnode of `root[s]` that carries the arc, presents silence, accepts every context and has
the context-independent ssid and transition matrix; any other word has, for EVERY left context `lc` of `s`, a root-and-leaf
pnode of `root[s]` that carries the arc, presents its phone, has `lc` in its context set, the ssid of `(phone, lc, SIL)` and the
entry penalty `(logp >> SHIFT) + wip + pip`. -/
theorem C02_single_phone_instances_in_lextree_partial (li : LexIn) (g : SSVerif.Hist.Fsg) (hsil : li.sil < li.nCi) {s : Nat} (hs : s < li.nState)
    {lid : Nat} (hlid : lid ∈ stateArcs g s) (h1 : (li.word (g.link lid).wid.toNat).pron.length = 1) :
    if (li.word (g.link lid).wid.toNat).dictFiller then
      ∃ r ∈ (buildLexTree li g).roots s,
        Has ((buildLexTree li g).node r) s true lid (li.ciSsid ((li.word (g.link lid).wid.toNat).pron.headD 0))
          (li.tmat ((li.word (g.link lid).wid.toNat).pron.headD 0))
          (((g.link lid).logp >>> li.shift) + li.wip + li.pip) li.sil none ∧ AllCtx ((buildLexTree li g).node r)
    else
      ∀ lc ∈ ctxList li ((ctxFlags li g).1.getD s 0), ∃ r ∈ (buildLexTree li g).roots s,
        Has ((buildLexTree li g).node r) s true lid (li.lrdiph ((li.word (g.link lid).wid.toNat).pron.headD 0) lc)
          (li.tmat ((li.word (g.link lid).wid.toNat).pron.headD 0))
          (((g.link lid).logp >>> li.shift) + li.wip + li.pip) ((li.word (g.link lid).wid.toNat).pron.headD 0) (some lc) :=
  build_single li g hsil hs hlid h1

/-- **Every multi-phone word instance chain of the flat network is a root-to-leaf path of the lextree the code builds** (the
same inclusion, words of `n ≥ 2` phones; `SsidTmat`: the transition matrix of a word-internal phone is a function of its ssid,
because the construction shares word-internal pnodes by ssid alone).  For every word arc, EVERY left context `lc` of its source
state and EVERY right context `rc` of its target state there are a root `r` of `root[src]` (`lc` in its context set, ssid of
`(p₀, lc, p₁)`, entry `wip + pip`), word-internal pnodes `qf 1 … qf (n−2)` (ssid / transition matrix / entry `pip` of their
position) and a leaf `l` carrying the arc (`rc` in its context set, ssid of `(p_{n−1}, p_{n−2}, rc)`, entry
`(logp >> SHIFT) + pip`), each a child of the one before in the sense of `fsg_search_pnode_trans`.
Named `_partial`: the converse inclusion (the lextree has no other root-to-leaf paths) is not proved; it is what the
structural comparison of the C02 driver checks per case. -/
theorem C02_multi_phone_instances_in_lextree_partial (li : LexIn) (g : SSVerif.Hist.Fsg) (tm : Nat → Nat) (hsil : li.sil < li.nCi)
    (htm : SsidTmat li tm)
    (hpron : ∀ s, s < li.nState → ∀ lid ∈ stateArcs g s, 1 ≤ (li.word (g.link lid).wid.toNat).pron.length)
    {s : Nat} (hs : s < li.nState) {lid : Nat} (hlid : lid ∈ stateArcs g s)
    (h2 : 2 ≤ (li.word (g.link lid).wid.toNat).pron.length) {lc : Nat} (hlc : lc ∈ ctxList li ((ctxFlags li g).1.getD s 0)) {rc : Nat}
    (hrc : rc ∈ ctxList li ((ctxFlags li g).2.getD (g.link lid).dst 0)) :
    ∃ r ∈ (buildLexTree li g).roots s, ∃ (qf : Nat → Nat) (l : Nat),
      Has ((buildLexTree li g).node r) s false 0
        (li.ldiph ((li.word (g.link lid).wid.toNat).pron.headD 0) ((li.word (g.link lid).wid.toNat).pron.getD 1 0) lc)
        (li.tmat ((li.word (g.link lid).wid.toNat).pron.headD 0)) (li.wip + li.pip) ((li.word (g.link lid).wid.toNat).pron.headD 0) (some lc) ∧
      (∀ j, 1 ≤ j → j ≤ (li.word (g.link lid).wid.toNat).pron.length - 2 →
        ((buildLexTree li g).node (qf j)).leaf = false ∧
        ((buildLexTree li g).node (qf j)).ssid = li.internal (li.word (g.link lid).wid.toNat).dictWid j ∧
        ((buildLexTree li g).node (qf j)).tmatid = li.tmat ((li.word (g.link lid).wid.toNat).pron.getD j 0) ∧
        ((buildLexTree li g).node (qf j)).logs2prob = li.pip) ∧
      Has ((buildLexTree li g).node l) s true lid
        (li.rcSsid ((li.word (g.link lid).wid.toNat).pron.getD ((li.word (g.link lid).wid.toNat).pron.length - 2 + 1) 0)
          ((li.word (g.link lid).wid.toNat).pron.getD ((li.word (g.link lid).wid.toNat).pron.length - 2) 0)
          (li.rcMap ((li.word (g.link lid).wid.toNat).pron.getD ((li.word (g.link lid).wid.toNat).pron.length - 2 + 1) 0)
            ((li.word (g.link lid).wid.toNat).pron.getD ((li.word (g.link lid).wid.toNat).pron.length - 2) 0) rc))
        (li.tmat ((li.word (g.link lid).wid.toNat).pron.getD ((li.word (g.link lid).wid.toNat).pron.length - 2 + 1) 0))
        (((g.link lid).logp >>> li.shift) + li.pip)
        ((li.word (g.link lid).wid.toNat).pron.getD ((li.word (g.link lid).wid.toNat).pron.length - 2 + 1) 0) (some rc) ∧
      ((li.word (g.link lid).wid.toNat).pron.length - 2 = 0 → l ∈ (buildLexTree li g).children r) ∧
      (1 ≤ (li.word (g.link lid).wid.toNat).pron.length - 2 →
        qf 1 ∈ (buildLexTree li g).children r ∧
        (∀ j, 1 ≤ j → j < (li.word (g.link lid).wid.toNat).pron.length - 2 → qf (j + 1) ∈ (buildLexTree li g).children (qf j)) ∧
        l ∈ (buildLexTree li g).children (qf ((li.word (g.link lid).wid.toNat).pron.length - 2))) :=
  build_multi li g tm hsil htm hpron hs hlid h2 hlc hrc

/-- **The HMM instances of the flat network are pnodes of the lextree the code builds — on root-to-leaf paths** (the inclusion
"instances of `FlatNet.instsOfArc` ⊆ unshared paths of `buildLexTree`", in the flat model's own terms).  `M` is the flat model,
`li` the inputs of the lextree construction with `Agree M li` (same words, silence phone, closed null arcs) and `LookAgree M li`
(the `dict2pid` tables return what the direct model-definition lookups of `FlatNet` return, `C16_d2p_tables_exact`; same
penalties), `SsidTmat`: the transition matrix of a word-internal phone is a function of its ssid.  For every word arc `(i, a, w)`
of `M` with `instsOfArc M i a w = some insts`:
* one phone: every instance is a root-and-leaf pnode of `root[a.src]` (`NodeOf`: same state, ssid, transition matrix, entry
  penalty, arc, presented phone; the instance's left context is in the pnode's context set; a filler's pnode accepts every context);
* `n ≥ 2` phones: for EVERY word-initial instance `R` and EVERY word-final instance `L` there is a path
  `r → qf 1 → … → qf (n−2) → l` with `r` a root of `root[a.src]` that is `R`, `qf x.pos` the word-internal instance `x`, `l` a leaf
  that is `L`, each pnode a child of the one before.
`_partial`: the converse (no other root-to-leaf paths, no other context bits) is not proved. -/
theorem C02_flat_instances_in_lextree_partial {M : Model} {li : LexIn} {tm : Nat → Nat} (h : Agree M li) (hl : LookAgree M li)
    (htm : SsidTmat li tm) {i : Nat} {a : Arc} {w : Word} (hx : (i, a, w) ∈ wordArcs M) {insts : List Inst}
    (hi : instsOfArc M i a w = some insts) :
    (∀ p, w.pron = [p] → ∀ x ∈ insts, ∃ r ∈ (buildLexTree li (fsgOf M)).roots a.src,
      NodeOf ((buildLexTree li (fsgOf M)).node r) x ∧ (w.filler = true → AllCtx ((buildLexTree li (fsgOf M)).node r))) ∧
    (∀ p0 p1 rest, w.pron = p0 :: p1 :: rest → ∀ R ∈ insts, R.isRoot = true → ∀ L ∈ insts, L.isLeaf = true →
      ∃ r ∈ (buildLexTree li (fsgOf M)).roots a.src, ∃ (qf : Nat → Nat) (l : Nat),
        NodeOf ((buildLexTree li (fsgOf M)).node r) R ∧ NodeOf ((buildLexTree li (fsgOf M)).node l) L ∧
        (∀ x ∈ insts, x.isRoot = false → x.isLeaf = false →
          1 ≤ x.pos ∧ x.pos ≤ w.pron.length - 2 ∧ NodeOf ((buildLexTree li (fsgOf M)).node (qf x.pos)) x) ∧
        (w.pron.length - 2 = 0 → l ∈ (buildLexTree li (fsgOf M)).children r) ∧
        (1 ≤ w.pron.length - 2 →
          qf 1 ∈ (buildLexTree li (fsgOf M)).children r ∧
          (∀ j, 1 ≤ j → j < w.pron.length - 2 → qf (j + 1) ∈ (buildLexTree li (fsgOf M)).children (qf j)) ∧
          l ∈ (buildLexTree li (fsgOf M)).children (qf (w.pron.length - 2)))) := by
  refine ⟨fun p hp x hxm => ?_, fun p0 p1 rest hp => bridge_multi h hl htm hx hp hi⟩
  by_cases hf : w.filler = true
  · obtain ⟨r, hr, h1, h2⟩ := bridge_filler h hl hx hp hf hi x hxm
    exact ⟨r, hr, h1, fun _ => h2⟩
  · have hf' : w.filler = false := by simpa using hf
    obtain ⟨r, hr, h1⟩ := bridge_single h hl hx hp hf' hi x hxm
    exact ⟨r, hr, h1, fun h0 => absurd h0 hf⟩

/-- **Conversely, every pnode of the lextree the code builds is an HMM instance of the flat network, and every bit of its
context set is the context of such an instance** (the inclusion "lextree ⊆ flat network" at the level of pnodes and context
bits: nothing is allocated and no context bit is set that the flat network does not have).  `hall`: the flat model has all the
model-definition entries its instances need (`instsOfArc` returns a list for every word arc — the C02 driver computes them all).
For every pnode `x` there are a word arc `(i, a, w)` of `M` and its instances `insts` such that either `x` is an instance
without contexts (`NodeOf`: same state, ssid, transition matrix, entry penalty, leaf flag, arc, presented phone) — the pnode of a
single-phone filler, or a word-internal pnode — or, for EVERY bit `c` set in the pnode's context set, `x` is an instance of the
arc whose left (word-initial pnodes, single-phone words) or right (word-final pnodes) context is `c`. -/
theorem C02_lextree_pnodes_are_flat_instances {M : Model} {li : LexIn} (h : Agree M li) (hl : LookAgree M li)
    (hall : ∀ i a w, (i, a, w) ∈ wordArcs M → ∃ insts, instsOfArc M i a w = some insts) :
    ∀ x, x < (buildLexTree li (fsgOf M)).nodes.size →
      ∃ i a w insts, (i, a, w) ∈ wordArcs M ∧ instsOfArc M i a w = some insts ∧
        ((∃ y ∈ insts, NodeOf ((buildLexTree li (fsgOf M)).node x) y ∧ y.lc = none ∧ y.rc = none) ∨
         (∀ c, ((buildLexTree li (fsgOf M)).node x).ctxt.testBit c = true →
            ∃ y ∈ insts, NodeOf ((buildLexTree li (fsgOf M)).node x) y ∧ (y.lc = some c ∨ y.rc = some c))) :=
  bridge_nodes h hl hall

end SSVerif.LexFlat
