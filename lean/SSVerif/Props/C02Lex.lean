import SSVerif.Proofs.LexFlatCheck
/-!
# C02 ∘ M10 — the lextree the code builds against the flat network C02's optimum is defined over

Property theorems only.  `buildLexTree li g` (Model/SearchLex.lean) is proved to satisfy `LexTreeOK` and is tied
node by node to the real lextree on every run of the C01 check; `FlatNet` (Model/FlatNet.lean, C02) is the
unshared network.  `Agree M li`: the lextree's inputs are those of the flat model `M` — same silence phone, same
pronunciations / filler flags of the words on the arcs, states `< nState`, phones `< nCi`, null arcs transitively
closed (the driver's `nullClosed` without its cost clause).  `fsgOf M` is the FSG with arc ids = positions in `M.arcs`.
All hypotheses range over finite data (the words on the arcs of `M`, their phones, context phones `< nCi`); `lexHypsB M li`
(Model/LexFlatHyps.lean) decides them, constructs the `tm` of `SsidTmat`, and is evaluated by the c01s driver on every case with
the real `dict2pid` tables and direct model-definition lookups (`C02_lex_hyps_checked`, `…_checked`).

The structural comparison of the C02 driver (`lexCompare`: the root-to-leaf paths of the dumped lextree, one copy per context
phone of the root's / leaf's context set, against the instance chains of `FlatNet.build`, as keys
(arc, lc, rc, presented phones, per-position (ssid, tmat, entry))) is here a theorem about `buildLexTree`, in both directions:
`C02_flat_instances_in_lextree` (every instance chain is a path), `C02_lextree_paths_are_flat_instances` (every path is an
instance chain), together `C02_lextree_paths_eq_flat_instances`.  Equality is as SETS of keys (`NodeOf` equates exactly the
components of a key); multiplicities are not claimed.  The context lists themselves are duplicate-free (`C02_lextree_context_sets`).
-/
namespace SSVerif.LexFlat
open SSVerif.Search SSVerif.FlatNet

/-- **The context sets agree.**  The left-context phone list `lextree->lc[s]` that `fsg_lextree_lc_rc` computes
(three passes over bit vectors, the last an in-place, order-dependent propagation along null arcs) — the list
from which `psubtree_add_trans` makes the word-initial pnodes of every word leaving `s` and the leaves of every
single-phone word — has exactly the members of the flat network's `lcSet M s`; likewise `lextree->rc[s]` (the
word-final pnodes of every word entering `s`) and `rcSet M s`.  Both lists are duplicate-free, so they are equal
as multisets. -/
theorem C02_lextree_context_sets {M : Model} {li : LexIn} (h : Agree M li) {s : Nat} (hs : s < li.nState) :
    (∀ c, c ∈ ctxList li ((ctxFlags li (fsgOf M)).1.getD s 0) ↔ c ∈ lcSet M s) ∧
    (∀ c, c ∈ ctxList li ((ctxFlags li (fsgOf M)).2.getD s 0) ↔ c ∈ rcSet M s) ∧
    (ctxList li ((ctxFlags li (fsgOf M)).1.getD s 0)).Nodup ∧ (ctxList li ((ctxFlags li (fsgOf M)).2.getD s 0)).Nodup :=
  ⟨lc_iff h hs, rc_iff h hs, ctxList_nodup _ _, ctxList_nodup _ _⟩

/-- **Every single-phone word / filler of the flat network is in the lextree the code builds** (one inclusion of "the
unshared paths of the lextree = the instances of the flat network").  For every word arc `lid` leaving `s` whose word has one
phone: a filler is one root-and-leaf pnode of `root[s]` that carries the arc, presents silence, accepts every context and has
the context-independent ssid and transition matrix; any other word has, for EVERY left context `lc` of `s`, a root-and-leaf
pnode of `root[s]` that carries the arc, presents its phone, has `lc` in its context set, the ssid of `(phone, lc, SIL)` and the
entry penalty `(logp >> SHIFT) + wip + pip`. -/
theorem C02_single_phone_instances_in_lextree (li : LexIn) (g : SSVerif.Hist.Fsg) (hsil : li.sil < li.nCi) {s : Nat} (hs : s < li.nState)
    {lid : Nat} (hlid : lid ∈ stateArcs g s) (h1 : (li.word (g.link lid).wid.toNat).pron.length = 1) :
    if (li.word (g.link lid).wid.toNat).dictFiller then
      ∃ r ∈ (buildLexTree li g).roots s,
        Has ((buildLexTree li g).node r) s true lid (li.ciSsid ((li.word (g.link lid).wid.toNat).pron.headD 0))
          (li.tmat ((li.word (g.link lid).wid.toNat).pron.headD 0))
          (((g.link lid).logp >>> li.shift) + li.wip + li.pip) li.sil none ∧ AllCtx ((buildLexTree li g).node r)
    else
      ∀ lc ∈ ctxList li ((ctxFlags li g).1.getD s 0), ∃ r ∈ (buildLexTree li g).roots s,
        Has ((buildLexTree li g).node r) s true lid (li.lrdiph ((li.word (g.link lid).wid.toNat).pron.headD 0) lc)
          (li.tmat ((li.word (g.link lid).wid.toNat).pron.headD 0))
          (((g.link lid).logp >>> li.shift) + li.wip + li.pip) ((li.word (g.link lid).wid.toNat).pron.headD 0) (some lc) :=
  build_single li g hsil hs hlid h1

/-- **Every multi-phone word instance chain of the flat network is a root-to-leaf path of the lextree the code builds** (the
same inclusion, words of `n ≥ 2` phones; `SsidTmat`: the transition matrix of a word-internal phone is a function of its ssid,
because the construction shares word-internal pnodes by ssid alone).  For every word arc, EVERY left context `lc` of its source
state and EVERY right context `rc` of its target state there are a root `r` of `root[src]` (`lc` in its context set, ssid of
`(p₀, lc, p₁)`, entry `wip + pip`), word-internal pnodes `qf 1 … qf (n−2)` (ssid / transition matrix / entry `pip` of their
position) and a leaf `l` carrying the arc (`rc` in its context set, ssid of `(p_{n−1}, p_{n−2}, rc)`, entry
`(logp >> SHIFT) + pip`), each a child of the one before in the sense of `fsg_search_pnode_trans`.
The converse inclusion (the lextree has no other root-to-leaf paths) is `C02_lextree_paths_are_word_arcs`. -/
theorem C02_multi_phone_instances_in_lextree (li : LexIn) (g : SSVerif.Hist.Fsg) (tm : Nat → Nat) (hsil : li.sil < li.nCi)
    (htm : SsidTmat li g tm)
    (hpron : ∀ s, s < li.nState → ∀ lid ∈ stateArcs g s, 1 ≤ (li.word (g.link lid).wid.toNat).pron.length)
    {s : Nat} (hs : s < li.nState) {lid : Nat} (hlid : lid ∈ stateArcs g s)
    (h2 : 2 ≤ (li.word (g.link lid).wid.toNat).pron.length) {lc : Nat} (hlc : lc ∈ ctxList li ((ctxFlags li g).1.getD s 0)) {rc : Nat}
    (hrc : rc ∈ ctxList li ((ctxFlags li g).2.getD (g.link lid).dst 0)) :
    ∃ r ∈ (buildLexTree li g).roots s, ∃ (qf : Nat → Nat) (l : Nat),
      Has ((buildLexTree li g).node r) s false 0
        (li.ldiph ((li.word (g.link lid).wid.toNat).pron.headD 0) ((li.word (g.link lid).wid.toNat).pron.getD 1 0) lc)
        (li.tmat ((li.word (g.link lid).wid.toNat).pron.headD 0)) (li.wip + li.pip) ((li.word (g.link lid).wid.toNat).pron.headD 0) (some lc) ∧
      (∀ j, 1 ≤ j → j ≤ (li.word (g.link lid).wid.toNat).pron.length - 2 →
        ((buildLexTree li g).node (qf j)).leaf = false ∧
        ((buildLexTree li g).node (qf j)).ssid = li.internal (li.word (g.link lid).wid.toNat).dictWid j ∧
        ((buildLexTree li g).node (qf j)).tmatid = li.tmat ((li.word (g.link lid).wid.toNat).pron.getD j 0) ∧
        ((buildLexTree li g).node (qf j)).logs2prob = li.pip) ∧
      Has ((buildLexTree li g).node l) s true lid
        (li.rcSsid ((li.word (g.link lid).wid.toNat).pron.getD ((li.word (g.link lid).wid.toNat).pron.length - 2 + 1) 0)
          ((li.word (g.link lid).wid.toNat).pron.getD ((li.word (g.link lid).wid.toNat).pron.length - 2) 0)
          (li.rcMap ((li.word (g.link lid).wid.toNat).pron.getD ((li.word (g.link lid).wid.toNat).pron.length - 2 + 1) 0)
            ((li.word (g.link lid).wid.toNat).pron.getD ((li.word (g.link lid).wid.toNat).pron.length - 2) 0) rc))
        (li.tmat ((li.word (g.link lid).wid.toNat).pron.getD ((li.word (g.link lid).wid.toNat).pron.length - 2 + 1) 0))
        (((g.link lid).logp >>> li.shift) + li.pip)
        ((li.word (g.link lid).wid.toNat).pron.getD ((li.word (g.link lid).wid.toNat).pron.length - 2 + 1) 0) (some rc) ∧
      ((li.word (g.link lid).wid.toNat).pron.length - 2 = 0 → l ∈ (buildLexTree li g).children r) ∧
      (1 ≤ (li.word (g.link lid).wid.toNat).pron.length - 2 →
        qf 1 ∈ (buildLexTree li g).children r ∧
        (∀ j, 1 ≤ j → j < (li.word (g.link lid).wid.toNat).pron.length - 2 → qf (j + 1) ∈ (buildLexTree li g).children (qf j)) ∧
        l ∈ (buildLexTree li g).children (qf ((li.word (g.link lid).wid.toNat).pron.length - 2))) :=
  build_multi li g tm hsil htm hpron hs hlid h2 hlc hrc

/-- **The HMM instances of the flat network are pnodes of the lextree the code builds — on root-to-leaf paths** (the inclusion
"instances of `FlatNet.instsOfArc` ⊆ unshared paths of `buildLexTree`", in the flat model's own terms).  `M` is the flat model,
`li` the inputs of the lextree construction with `Agree M li` (same words, silence phone, closed null arcs) and `LookAgree M li`
(the `dict2pid` tables return what the direct model-definition lookups of `FlatNet` return, `C16_d2p_tables_exact`; same
penalties), `SsidTmat`: the transition matrix of a word-internal phone is a function of its ssid.  For every word arc `(i, a, w)`
of `M` with `instsOfArc M i a w = some insts`:
* one phone: every instance is a root-and-leaf pnode of `root[a.src]` (`NodeOf`: same state, ssid, transition matrix, entry
  penalty, arc, presented phone; the instance's left context is in the pnode's context set; a filler's pnode accepts every context);
* `n ≥ 2` phones: for EVERY word-initial instance `R` and EVERY word-final instance `L` there is a path
  `r → qf 1 → … → qf (n−2) → l` with `r` a root of `root[a.src]` that is `R`, `qf x.pos` the word-internal instance `x`, `l` a leaf
  that is `L`, each pnode a child of the one before.
The converse (no other root-to-leaf paths, no other context bits) is `C02_lextree_paths_are_flat_instances`. -/
theorem C02_flat_instances_in_lextree {M : Model} {li : LexIn} {tm : Nat → Nat} (h : Agree M li) (hl : LookAgree M li)
    (htm : SsidTmat li (fsgOf M) tm) {i : Nat} {a : Arc} {w : Word} (hx : (i, a, w) ∈ wordArcs M) {insts : List Inst}
    (hi : instsOfArc M i a w = some insts) :
    (∀ p, w.pron = [p] → ∀ x ∈ insts, ∃ r ∈ (buildLexTree li (fsgOf M)).roots a.src,
      NodeOf ((buildLexTree li (fsgOf M)).node r) x ∧ (w.filler = true → AllCtx ((buildLexTree li (fsgOf M)).node r))) ∧
    (∀ p0 p1 rest, w.pron = p0 :: p1 :: rest → ∀ R ∈ insts, R.isRoot = true → ∀ L ∈ insts, L.isLeaf = true →
      ∃ r ∈ (buildLexTree li (fsgOf M)).roots a.src, ∃ (qf : Nat → Nat) (l : Nat),
        NodeOf ((buildLexTree li (fsgOf M)).node r) R ∧ NodeOf ((buildLexTree li (fsgOf M)).node l) L ∧
        (∀ x ∈ insts, x.isRoot = false → x.isLeaf = false →
          1 ≤ x.pos ∧ x.pos ≤ w.pron.length - 2 ∧ NodeOf ((buildLexTree li (fsgOf M)).node (qf x.pos)) x) ∧
        (w.pron.length - 2 = 0 → l ∈ (buildLexTree li (fsgOf M)).children r) ∧
        (1 ≤ w.pron.length - 2 →
          qf 1 ∈ (buildLexTree li (fsgOf M)).children r ∧
          (∀ j, 1 ≤ j → j < w.pron.length - 2 → qf (j + 1) ∈ (buildLexTree li (fsgOf M)).children (qf j)) ∧
          l ∈ (buildLexTree li (fsgOf M)).children (qf (w.pron.length - 2)))) := by
  refine ⟨fun p hp x hxm => ?_, fun p0 p1 rest hp => bridge_multi h hl htm hx hp hi⟩
  by_cases hf : w.filler = true
  · obtain ⟨r, hr, h1, h2⟩ := bridge_filler h hl hx hp hf hi x hxm
    exact ⟨r, hr, h1, fun _ => h2⟩
  · have hf' : w.filler = false := by simpa using hf
    obtain ⟨r, hr, h1⟩ := bridge_single h hl hx hp hf' hi x hxm
    exact ⟨r, hr, h1, fun h0 => absurd h0 hf⟩

/-- **Conversely, every pnode of the lextree the code builds is an HMM instance of the flat network, and every bit of its
context set is the context of such an instance** (the inclusion "lextree ⊆ flat network" at the level of pnodes and context
bits: nothing is allocated and no context bit is set that the flat network does not have).  `hall`: the flat model has all the
model-definition entries its instances need (`instsOfArc` returns a list for every word arc — the C02 driver computes them all).
For every pnode `x` there are a word arc `(i, a, w)` of `M` and its instances `insts` such that either `x` is an instance
without contexts (`NodeOf`: same state, ssid, transition matrix, entry penalty, leaf flag, arc, presented phone) — the pnode of a
single-phone filler, or a word-internal pnode — or, for EVERY bit `c` set in the pnode's context set, `x` is an instance of the
arc whose left (word-initial pnodes, single-phone words) or right (word-final pnodes) context is `c`. -/
theorem C02_lextree_pnodes_are_flat_instances {M : Model} {li : LexIn} (h : Agree M li) (hl : LookAgree M li)
    (hall : ∀ i a w, (i, a, w) ∈ wordArcs M → ∃ insts, instsOfArc M i a w = some insts) :
    ∀ x, x < (buildLexTree li (fsgOf M)).nodes.size →
      ∃ i a w insts, (i, a, w) ∈ wordArcs M ∧ instsOfArc M i a w = some insts ∧
        ((∃ y ∈ insts, NodeOf ((buildLexTree li (fsgOf M)).node x) y ∧ y.lc = none ∧ y.rc = none) ∨
         (∀ c, ((buildLexTree li (fsgOf M)).node x).ctxt.testBit c = true →
            ∃ y ∈ insts, NodeOf ((buildLexTree li (fsgOf M)).node x) y ∧ (y.lc = some c ∨ y.rc = some c))) :=
  bridge_nodes h hl hall

/-- **Conversely, every root-to-leaf path of the lextree the code builds is the path of a word arc** (in the lextree's own terms,
for every FSG `g` and every lookup functions).  `q 0` a root of `root[s]`, every `q (j+1)` a child of `q j` in the sense of
`fsg_search_pnode_trans`, `q k` a leaf.  Then (`PathFacts`) there is a word arc `lid` leaving `s` whose word has exactly `k + 1`
phones and: `k = 0` — `q 0` is the pnode of the arc's single-phone word (every bit `c` of its context set is a left context of
`s`, `ssid = lrdiph p c`) or filler; `k ≥ 1` — `q 0` is a word-initial pnode of the word (every bit `c` of its context set is a
left context of `s`, `ssid = ldiph p₀ p₁ c`, entry `wip + pip`), `q j` has the ssid / transition matrix / entry `pip` of the
word's position `j`, and `q k` is a word-final pnode that carries the arc (every bit `c` of its context set is a right context
of the arc's target state, `ssid = rssid p_k p_{k−1} c`, entry `(logp >> SHIFT) + pip`).  Proof: the parents of a pnode never
change after it is hooked, and are either the roots of ONE shared set or ONE pnode (`ParOf`), so a path up from a leaf can only
be the chain recorded for the leaf's arc (`path_unique`). -/
theorem C02_lextree_paths_are_word_arcs (li : LexIn) (g : SSVerif.Hist.Fsg) (tm : Nat → Nat) (hsil : li.sil < li.nCi) (htm : SsidTmat li g tm)
    (hpron : ∀ s, s < li.nState → ∀ lid ∈ stateArcs g s, 1 ≤ (li.word (g.link lid).wid.toNat).pron.length)
    {s : Nat} (hs : s < li.nState) (k : Nat) (q : Nat → Nat) (h0 : q 0 ∈ (buildLexTree li g).roots s)
    (hch : ∀ j, j < k → q (j + 1) ∈ (buildLexTree li g).children (q j)) (hleaf : ((buildLexTree li g).node (q k)).leaf = true) :
    PathFacts li g (fun s => ctxList li ((ctxFlags li g).1.getD s 0)) (fun lid => ctxList li ((ctxFlags li g).2.getD (g.link lid).dst 0))
      (buildLexTree li g).nodes s k q :=
  build_paths_sound li g tm hsil htm hpron hs k q h0 hch hleaf

/-- **Every root-to-leaf path of the lextree the code builds is an instance chain of ONE word arc of the flat network** (the
inclusion "unshared paths of `buildLexTree` ⊆ instances of `FlatNet.instsOfArc`", in the flat model's terms).  Hypotheses as in
`C02_flat_instances_in_lextree`, plus `hall` (the flat model has every model-definition entry its instances need).  For a path
`q 0 → … → q k` (root of `root[s]`, children, leaf) there are a word arc `(i, a, w)` of `M` leaving `s` whose word has `k + 1`
phones, carried by the leaf (`link = i`), and its instances `insts`, such that
* `k = 0`: `q 0` is the filler instance, or for EVERY bit `c` of its context set `q 0` is the instance with left context `c`;
* `k ≥ 1`: for EVERY bit `c` of the root's context set `q 0` is the word-initial instance with left context `c`; `q j` is the
  word-internal instance of position `j`; for EVERY bit `c` of the leaf's context set `q k` is the word-final instance with
  right context `c`. -/
theorem C02_lextree_paths_are_flat_instances {M : Model} {li : LexIn} {tm : Nat → Nat} (h : Agree M li) (hl : LookAgree M li)
    (htm : SsidTmat li (fsgOf M) tm) (hall : ∀ i a w, (i, a, w) ∈ wordArcs M → ∃ insts, instsOfArc M i a w = some insts)
    {s : Nat} (hs : s < li.nState) (k : Nat) (q : Nat → Nat) (h0 : q 0 ∈ (buildLexTree li (fsgOf M)).roots s)
    (hch : ∀ j, j < k → q (j + 1) ∈ (buildLexTree li (fsgOf M)).children (q j))
    (hleaf : ((buildLexTree li (fsgOf M)).node (q k)).leaf = true) :
    ∃ i a w insts, (i, a, w) ∈ wordArcs M ∧ instsOfArc M i a w = some insts ∧ a.src = s ∧ w.pron.length = k + 1 ∧
      ((buildLexTree li (fsgOf M)).node (q k)).link = i ∧
      (k = 0 → (∃ y ∈ insts, NodeOf ((buildLexTree li (fsgOf M)).node (q 0)) y ∧ y.lc = none ∧ y.rc = none) ∨
        (∀ c, ((buildLexTree li (fsgOf M)).node (q 0)).ctxt.testBit c = true →
          ∃ y ∈ insts, NodeOf ((buildLexTree li (fsgOf M)).node (q 0)) y ∧ y.lc = some c)) ∧
      (1 ≤ k →
        (∀ c, ((buildLexTree li (fsgOf M)).node (q 0)).ctxt.testBit c = true →
          ∃ R ∈ insts, R.isRoot = true ∧ R.lc = some c ∧ NodeOf ((buildLexTree li (fsgOf M)).node (q 0)) R) ∧
        (∀ j, 1 ≤ j → j < k → ∃ x ∈ insts, x.isRoot = false ∧ x.isLeaf = false ∧ x.pos = j ∧
          NodeOf ((buildLexTree li (fsgOf M)).node (q j)) x) ∧
        (∀ c, ((buildLexTree li (fsgOf M)).node (q k)).ctxt.testBit c = true →
          ∃ L ∈ insts, L.isLeaf = true ∧ L.rc = some c ∧ NodeOf ((buildLexTree li (fsgOf M)).node (q k)) L)) :=
  bridge_paths h hl htm hall hs k q h0 hch hleaf

/-- **The unshared paths of the lextree the code builds are exactly the instance chains of the flat network** — both
inclusions in one statement (equality as sets of keys (arc, lc, rc, presented phones, per-position (ssid, tmat, entry)); this
is the driver's per-case `lexCompare`, for every FSG, dictionary and lookups with `Agree`, `LookAgree`, `SsidTmat`, `hall`). -/
theorem C02_lextree_paths_eq_flat_instances {M : Model} {li : LexIn} {tm : Nat → Nat} (h : Agree M li) (hl : LookAgree M li)
    (htm : SsidTmat li (fsgOf M) tm) (hall : ∀ i a w, (i, a, w) ∈ wordArcs M → ∃ insts, instsOfArc M i a w = some insts) :
    -- flat ⊆ lextree
    (∀ i a w insts, (i, a, w) ∈ wordArcs M → instsOfArc M i a w = some insts →
      (∀ p, w.pron = [p] → ∀ x ∈ insts, ∃ r ∈ (buildLexTree li (fsgOf M)).roots a.src,
        NodeOf ((buildLexTree li (fsgOf M)).node r) x ∧ (w.filler = true → AllCtx ((buildLexTree li (fsgOf M)).node r))) ∧
      (∀ p0 p1 rest, w.pron = p0 :: p1 :: rest → ∀ R ∈ insts, R.isRoot = true → ∀ L ∈ insts, L.isLeaf = true →
        ∃ r ∈ (buildLexTree li (fsgOf M)).roots a.src, ∃ (qf : Nat → Nat) (l : Nat),
          NodeOf ((buildLexTree li (fsgOf M)).node r) R ∧ NodeOf ((buildLexTree li (fsgOf M)).node l) L ∧
          (∀ x ∈ insts, x.isRoot = false → x.isLeaf = false →
            1 ≤ x.pos ∧ x.pos ≤ w.pron.length - 2 ∧ NodeOf ((buildLexTree li (fsgOf M)).node (qf x.pos)) x) ∧
          (w.pron.length - 2 = 0 → l ∈ (buildLexTree li (fsgOf M)).children r) ∧
          (1 ≤ w.pron.length - 2 →
            qf 1 ∈ (buildLexTree li (fsgOf M)).children r ∧
            (∀ j, 1 ≤ j → j < w.pron.length - 2 → qf (j + 1) ∈ (buildLexTree li (fsgOf M)).children (qf j)) ∧
            l ∈ (buildLexTree li (fsgOf M)).children (qf (w.pron.length - 2))))) ∧
    -- lextree ⊆ flat
    (∀ s, s < li.nState → ∀ (k : Nat) (q : Nat → Nat), q 0 ∈ (buildLexTree li (fsgOf M)).roots s →
      (∀ j, j < k → q (j + 1) ∈ (buildLexTree li (fsgOf M)).children (q j)) → ((buildLexTree li (fsgOf M)).node (q k)).leaf = true →
      ∃ i a w insts, (i, a, w) ∈ wordArcs M ∧ instsOfArc M i a w = some insts ∧ a.src = s ∧ w.pron.length = k + 1 ∧
        ((buildLexTree li (fsgOf M)).node (q k)).link = i ∧
        (k = 0 → (∃ y ∈ insts, NodeOf ((buildLexTree li (fsgOf M)).node (q 0)) y ∧ y.lc = none ∧ y.rc = none) ∨
          (∀ c, ((buildLexTree li (fsgOf M)).node (q 0)).ctxt.testBit c = true →
            ∃ y ∈ insts, NodeOf ((buildLexTree li (fsgOf M)).node (q 0)) y ∧ y.lc = some c)) ∧
        (1 ≤ k →
          (∀ c, ((buildLexTree li (fsgOf M)).node (q 0)).ctxt.testBit c = true →
            ∃ R ∈ insts, R.isRoot = true ∧ R.lc = some c ∧ NodeOf ((buildLexTree li (fsgOf M)).node (q 0)) R) ∧
          (∀ j, 1 ≤ j → j < k → ∃ x ∈ insts, x.isRoot = false ∧ x.isLeaf = false ∧ x.pos = j ∧
            NodeOf ((buildLexTree li (fsgOf M)).node (q j)) x) ∧
          (∀ c, ((buildLexTree li (fsgOf M)).node (q k)).ctxt.testBit c = true →
            ∃ L ∈ insts, L.isLeaf = true ∧ L.rc = some c ∧ NodeOf ((buildLexTree li (fsgOf M)).node (q k)) L))) :=
  ⟨fun _ _ _ _ hx hi => C02_flat_instances_in_lextree h hl htm hx hi,
   fun _ hs k q h0 hch hleaf => bridge_paths h hl htm hall hs k q h0 hch hleaf⟩

/-- **The hypotheses are decided per case**: `lexHypsB M li = true` — `lexHyps M li` (Model/LexFlatHyps.lean): same silence
phone, penalties and shift; every word on an arc of `M` known to both sides with the same pronunciation / filler flags, CI phones,
and `WordLook` (the `dict2pid` values the construction reads for that word — over all context phones `< nCi` — equal the direct
model-definition lookups of `M`); states `< nState`; null arcs transitively closed; `instsOfArc` defined on every word arc; the
word-internal (ssid, tmat) pairs consistent — gives `Agree`, `LookAgree`, `SsidTmat` for the CONSTRUCTED `tmOf M li`, and `hall`. -/
theorem C02_lex_hyps_checked {M : Model} {li : LexIn} (h : lexHypsB M li = true) :
    Agree M li ∧ LookAgree M li ∧ SsidTmat li (fsgOf M) (tmOf M li) ∧
    (∀ i a w, (i, a, w) ∈ wordArcs M → ∃ insts, instsOfArc M i a w = some insts) :=
  lexHyps_sound (of_decide_eq_true h)

/-- **`C02_lextree_paths_eq_flat_instances` from the per-case check alone**: when `lexHypsB M li = true`, the unshared paths of
`buildLexTree li (fsgOf M)` are exactly the instance chains of the flat network (both inclusions, as sets of keys). -/
theorem C02_lextree_paths_eq_flat_instances_checked {M : Model} {li : LexIn} (h : lexHypsB M li = true) :
    (∀ i a w insts, (i, a, w) ∈ wordArcs M → instsOfArc M i a w = some insts →
      (∀ p, w.pron = [p] → ∀ x ∈ insts, ∃ r ∈ (buildLexTree li (fsgOf M)).roots a.src,
        NodeOf ((buildLexTree li (fsgOf M)).node r) x ∧ (w.filler = true → AllCtx ((buildLexTree li (fsgOf M)).node r))) ∧
      (∀ p0 p1 rest, w.pron = p0 :: p1 :: rest → ∀ R ∈ insts, R.isRoot = true → ∀ L ∈ insts, L.isLeaf = true →
        ∃ r ∈ (buildLexTree li (fsgOf M)).roots a.src, ∃ (qf : Nat → Nat) (l : Nat),
          NodeOf ((buildLexTree li (fsgOf M)).node r) R ∧ NodeOf ((buildLexTree li (fsgOf M)).node l) L ∧
          (∀ x ∈ insts, x.isRoot = false → x.isLeaf = false →
            1 ≤ x.pos ∧ x.pos ≤ w.pron.length - 2 ∧ NodeOf ((buildLexTree li (fsgOf M)).node (qf x.pos)) x) ∧
          (w.pron.length - 2 = 0 → l ∈ (buildLexTree li (fsgOf M)).children r) ∧
          (1 ≤ w.pron.length - 2 →
            qf 1 ∈ (buildLexTree li (fsgOf M)).children r ∧
            (∀ j, 1 ≤ j → j < w.pron.length - 2 → qf (j + 1) ∈ (buildLexTree li (fsgOf M)).children (qf j)) ∧
            l ∈ (buildLexTree li (fsgOf M)).children (qf (w.pron.length - 2))))) ∧
    (∀ s, s < li.nState → ∀ (k : Nat) (q : Nat → Nat), q 0 ∈ (buildLexTree li (fsgOf M)).roots s →
      (∀ j, j < k → q (j + 1) ∈ (buildLexTree li (fsgOf M)).children (q j)) → ((buildLexTree li (fsgOf M)).node (q k)).leaf = true →
      ∃ i a w insts, (i, a, w) ∈ wordArcs M ∧ instsOfArc M i a w = some insts ∧ a.src = s ∧ w.pron.length = k + 1 ∧
        ((buildLexTree li (fsgOf M)).node (q k)).link = i ∧
        (k = 0 → (∃ y ∈ insts, NodeOf ((buildLexTree li (fsgOf M)).node (q 0)) y ∧ y.lc = none ∧ y.rc = none) ∨
          (∀ c, ((buildLexTree li (fsgOf M)).node (q 0)).ctxt.testBit c = true →
            ∃ y ∈ insts, NodeOf ((buildLexTree li (fsgOf M)).node (q 0)) y ∧ y.lc = some c)) ∧
        (1 ≤ k →
          (∀ c, ((buildLexTree li (fsgOf M)).node (q 0)).ctxt.testBit c = true →
            ∃ R ∈ insts, R.isRoot = true ∧ R.lc = some c ∧ NodeOf ((buildLexTree li (fsgOf M)).node (q 0)) R) ∧
          (∀ j, 1 ≤ j → j < k → ∃ x ∈ insts, x.isRoot = false ∧ x.isLeaf = false ∧ x.pos = j ∧
            NodeOf ((buildLexTree li (fsgOf M)).node (q j)) x) ∧
          (∀ c, ((buildLexTree li (fsgOf M)).node (q k)).ctxt.testBit c = true →
            ∃ L ∈ insts, L.isLeaf = true ∧ L.rc = some c ∧ NodeOf ((buildLexTree li (fsgOf M)).node (q k)) L))) := by
  obtain ⟨h1, h2, h3, h4⟩ := C02_lex_hyps_checked h
  exact C02_lextree_paths_eq_flat_instances h1 h2 h3 h4

section NonVacuity
open SSVerif.Generated.Search (wposSingle wposBegin wposInternal wposEnd senscrShift)

/-! ### non-vacuity: a flat model and lextree inputs that meet every hypothesis -/

/-- a two-phone word `[1, 2]` on an arc `0 → 1`, a three-phone word `[2, 1, 2]` on an arc `1 → 0`, a null arc `0 → 1`; silence is phone 0 -/
def exM : Model :=
  { sil := 0, start := 0, final := 1,
    arcs := [{ src := 0, dst := 1, logp := 0, wid := some 0 }, { src := 1, dst := 0, logp := -3, wid := some 1 },
             { src := 0, dst := 1, logp := -1, wid := none }],
    word := fun w => if w = 0 then some { filler := false, pron := [1, 2] } else if w = 1 then some { filler := false, pron := [2, 1, 2] } else none,
    ssid := fun ci lc rc wpos => some (ci + 10 * lc + 100 * rc + 1000 * wpos),
    ciSsid := fun p => some p, ciTmat := fun p => some (7 + p), wip := 0, pip := 0 }

def exLi : LexIn :=
  { nCi := 3, sil := 0, wip := 0, pip := 0, shift := senscrShift, nst := 3, nState := 2,
    word := fun w => if w = 0 then { pron := [1, 2] } else if w = 1 then { pron := [2, 1, 2], dictWid := 1 } else { pron := [] },
    lrdiph := fun p l => p + 10 * l + 100 * 0 + 1000 * wposSingle,
    ldiph := fun p0 p1 l => p0 + 10 * l + 100 * p1 + 1000 * wposBegin,
    internal := fun dw k =>
      (if dw = 1 then [2, 1, 2] else [1, 2]).getD k 0 + 10 * (if dw = 1 then [2, 1, 2] else [1, 2]).getD (k - 1) 0 +
        100 * (if dw = 1 then [2, 1, 2] else [1, 2]).getD (k + 1) 0 + 1000 * wposInternal,
    rcMap := fun _ _ r => r, rcSsid := fun pl pp j => pl + 10 * pp + 100 * j + 1000 * wposEnd,
    ciSsid := fun p => p, tmat := fun p => 7 + p }

/-- the per-case check succeeds on it -/
theorem exHyps : lexHypsB exM exLi = true := by decide

/-- a root-to-leaf path of the three-phone word: root 5 of `root[1]`, word-internal pnode 6, leaf 9 -/
example : (fun j => if j = 0 then 5 else if j = 1 then 6 else 9 : Nat → Nat) 0 ∈ (buildLexTree exLi (fsgOf exM)).roots 1 ∧
    6 ∈ (buildLexTree exLi (fsgOf exM)).children 5 ∧ 9 ∈ (buildLexTree exLi (fsgOf exM)).children 6 ∧
    ((buildLexTree exLi (fsgOf exM)).node 9).leaf = true := by decide

example := C02_lextree_paths_eq_flat_instances_checked exHyps

end NonVacuity

end SSVerif.LexFlat
