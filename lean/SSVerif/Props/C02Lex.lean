import SSVerif.Proofs.LexFlat
/-!
# C02 ∘ M10 — the lextree the code builds against the flat network C02's optimum is defined over

Property theorems only.  `buildLexTree li g` (Model/SearchLex.lean) is proved to satisfy `LexTreeOK` and is tied
node by node to the real lextree on every run of the C01 check; `FlatNet` (Model/FlatNet.lean, C02) is the
unshared network.  `Agree M li`: the lextree's inputs are those of the flat model `M` — same silence phone, same
pronunciations / filler flags of the words on the arcs, states `< nState`, phones `< nCi`, null arcs transitively
closed (the driver's `nullClosed` without its cost clause).  `fsgOf M` is the FSG with arc ids = positions in `M.arcs`.
-/
namespace SSVerif.LexFlat
open SSVerif.Search SSVerif.FlatNet

/-- **The context sets agree.**  The left-context phone list `lextree->lc[s]` that `fsg_lextree_lc_rc` computes
(three passes over bit vectors, the last an in-place, order-dependent propagation along null arcs) — the list
from which `psubtree_add_trans` makes the word-initial pnodes of every word leaving `s` and the leaves of every
single-phone word — has exactly the members of the flat network's `lcSet M s`; likewise `lextree->rc[s]` (the
word-final pnodes of every word entering `s`) and `rcSet M s`.  Both lists are duplicate-free, so they are equal
as multisets. -/
theorem C02_lextree_context_sets {M : Model} {li : LexIn} (h : Agree M li) {s : Nat} (hs : s < li.nState) :
    (∀ c, c ∈ ctxList li ((ctxFlags li (fsgOf M)).1.getD s 0) ↔ c ∈ lcSet M s) ∧
    (∀ c, c ∈ ctxList li ((ctxFlags li (fsgOf M)).2.getD s 0) ↔ c ∈ rcSet M s) ∧
    (ctxList li ((ctxFlags li (fsgOf M)).1.getD s 0)).Nodup ∧ (ctxList li ((ctxFlags li (fsgOf M)).2.getD s 0)).Nodup :=
  ⟨lc_iff h hs, rc_iff h hs, ctxList_nodup _ _, ctxList_nodup _ _⟩

end SSVerif.LexFlat
