import SSVerif.Model.AcmodBuf
/-! placeholder while the proofs are being written -/
