import SSVerif.Proofs.AcmodFull
/-!
# C07 — decoding results do not depend on chunking or buffering mode

Property theorems about the index model `SSVerif/Model/AcmodBuf.lean` of `acmod.c` (with the D8 repair),
`feat_s2mfc2feat_live` and the driving loops of `decoder.c`.  The quantifiers:

* `s0` — **any** decoder state left behind by earlier utterances (arbitrary contents of the cepstrum ring,
  of the live feature window and of `feat_buf`, arbitrary `bufpos`, any `n_feat_alloc ≥ 1`, **any size of the
  cepstrum ring** — a `full_utt` utterance enlarges it for good, after which `feat_s2mfc2feat_live` clamps its
  input and `acmod_process_mfcbuf` drains the ring in several passes), subject only to the structural facts `WF0`;
* `ops` — **any** list of API calls while the utterance is open: `decoder_process_*` with any `no_search`
  flag and **any** list of front-end responses (the batch structure: how many cepstral frames each
  `fe_process_*` call underneath yields, including 0, and whether samples remain), `decoder_hyp` /
  `decoder_seg_iter`, `decoder_alignment` (partial result; rewinds and re-advances);
* `tail` — whether `fe_end` has a pending frame; `post` — queries and alignment on the final result;
* `win` — any dynamic-feature window size with `3·win + 2 ≤ LIVEBUFBLOCKSIZE`
  (`C07_consts_ok`: true for every window size `feat_init` assigns);
* `skip` — any data-dependent outcome of the "zero-energy" test of live CMN.

Hypotheses, both facts about the front end / the utterance length that the property itself assumes:
`hcmn` — the utterance is shorter than the CMN update window (`cmn->nframe` + frames offered ≤ `CMN_WIN_HWM`);
`hfe` — `fe_end` emits the pending partial frame whenever a frame was emitted before (C06's contract; checked on
every run of the correspondence harness).  `Props/C07Fe.lean` removes both the response lists and `hfe` for streaming
utterances: there the front end is c06's model called inside `acmod_process_raw` / `acmod_end_utt` with the room the
ring really has, the responses are computed, and `hfe` is proved (`C07_runUttS_eq_runUtt`).

`M := sf.nextId` is the number of cepstral frames the front end delivered, `canon win M k` the window
`c_clamp(k-win) … c_clamp(k+win)` with every frame normalised exactly once with the mean fixed at the start.
-/
namespace SSVerif.AcmodBuf
open SSVerif.Generated

/-- structural facts about the state a new utterance starts from (after `acmod_create`, any history) -/
structure WF0 (s0 : St) : Prop where
  nofault : s0.fault = none
  grow : s0.growFeat = true
  cepLen : s0.cepbuf.length = livebuf
  cur : s0.curpos < livebuf
  fbLen : s0.featBuf.length = s0.nFeatAlloc
  alloc1 : 1 ≤ s0.nFeatAlloc
  mfcLen : s0.mfcBuf.length = s0.nMfcAlloc
  mfcAlloc1 : 1 ≤ s0.nMfcAlloc

theorem startUtt_open (win : Nat) (s0 : St) (h : WF0 s0) : Open win (startUtt s0) := by
  have ha := h.alloc1
  refine ⟨rfl, Or.inl ⟨⟨h.nofault, h.grow, h.cepLen, h.cur, h.fbLen, rfl, ?_, ?_, ?_, rfl⟩, rfl,
    ⟨h.mfcLen, h.mfcAlloc1, Nat.zero_le _, rfl, ?_⟩, rfl⟩, ?_, ?_⟩
  · show 0 + 0 = 0 - win; omega
  · show 0 - win < s0.nFeatAlloc; omega
  · intro k hk; omega
  · intro i hi; exact absurd hi (Nat.not_lt_zero _)
  · show SearchedOK (startUtt s0); unfold SearchedOK startUtt; rfl
  · intro l hl; exact absurd hl (by simp [startUtt])

/-- the state after `acmod_create` satisfies the structural facts -/
theorem WF0_init (cmn0 : Nat) : WF0 (St.init cmn0) :=
  ⟨rfl, rfl, by simp [St.init], (by decide : (0 : Nat) < livebuf), by simp [St.init], (by decide : 1 ≤ nMfc),
    by simp [St.init], (by decide : 1 ≤ nMfc)⟩

/-- the closed-utterance invariant holds for every run -/
theorem runUtt_closed (win : Nat) (skip : Nat → Bool) (s0 : St) (ops post : List Op) (tail : Bool) (hwf : WF0 s0)
    (hw : 3 * win + 2 ≤ livebuf)
    (hcmn : s0.cmnFrames + offeredOps ops + (if tail then 1 else 0) ≤ cmnWinHwm)
    (hfe : tail = true ∨ (runOps true win skip (startUtt s0) ops).nextId = 0)
    (hstream : ∀ op, op ∈ ops → op.isFull = false) (hpost : ∀ op, op ∈ post → op.isProcess = false) :
    Closed win (runUtt true win skip s0 ops tail post) := by
  have hopen := startUtt_open win s0 hwf
  obtain ⟨o1, o2⟩ := runOps_open win skip (by omega) ops (startUtt s0) hopen hstream (by show s0.cmnFrames + _ ≤ _; omega)
  have o2' : (runOps true win skip (startUtt s0) ops).cmnFrames ≤ s0.cmnFrames + offeredOps ops := o2
  exact runOps_closed win skip post _ (decEnd_closed win skip _ tail o1 hfe (by omega) hw) hpost

/-- **features_canonical.**  Whatever the batch structure, the buffering mode and the queries, the search is
    handed, in order and each exactly once, the feature vectors of the frames `k = 0 … M-1`, and the k-th one is
    computed from the window `c_clamp(k-win) … c_clamp(k+win)`, every cepstral frame having gone through live
    CMN exactly once with the mean fixed at the start of the utterance — nothing else (no stale ring content,
    no dependence on the call history or on the state left by earlier utterances). -/
theorem C07_features_canonical (win : Nat) (skip : Nat → Bool) (s0 : St) (ops post : List Op) (tail : Bool) (hwf : WF0 s0)
    (hw : 3 * win + 2 ≤ livebuf)
    (hcmn : s0.cmnFrames + offeredOps ops + (if tail then 1 else 0) ≤ cmnWinHwm)
    (hfe : tail = true ∨ (runOps true win skip (startUtt s0) ops).nextId = 0)
    (hstream : ∀ op, op ∈ ops → op.isFull = false) (hpost : ∀ op, op ∈ post → op.isProcess = false) :
    let sf := runUtt true win skip s0 ops tail post
    sf.searched = (List.range sf.nextId).map fun k => (k, some (canon win sf.nextId k)) :=
  (runUtt_closed win skip s0 ops post tail hwf hw hcmn hfe hstream hpost).searched_eq

/-- **frames_searched_const.**  The number of search steps is `M`, the number of cepstral frames the front end
    delivered; nothing is left unsearched and `output_frame = M` in every case. -/
theorem C07_frames_searched_const (win : Nat) (skip : Nat → Bool) (s0 : St) (ops post : List Op) (tail : Bool) (hwf : WF0 s0)
    (hw : 3 * win + 2 ≤ livebuf)
    (hcmn : s0.cmnFrames + offeredOps ops + (if tail then 1 else 0) ≤ cmnWinHwm)
    (hfe : tail = true ∨ (runOps true win skip (startUtt s0) ops).nextId = 0)
    (hstream : ∀ op, op ∈ ops → op.isFull = false) (hpost : ∀ op, op ∈ post → op.isProcess = false) :
    let sf := runUtt true win skip s0 ops tail post
    sf.searched.length = sf.nextId ∧ sf.outputFrame = sf.nextId ∧ sf.nFeatFrame = 0 := by
  intro sf
  have h : Closed win sf := runUtt_closed win skip s0 ops post tail hwf hw hcmn hfe hstream hpost
  have hc := h.core.cnt
  have hn := h.nff
  exact ⟨by rw [h.searched_eq]; simp, by omega, hn⟩

/-- **chunking independence.**  Two decodes with the same number of delivered frames — any two call patterns,
    any two histories before the utterance — hand the search the same sequence of feature windows. -/
theorem C07_chunking_independent (win : Nat) (skip skip' : Nat → Bool) (s0 s0' : St) (ops ops' post post' : List Op)
    (tail tail' : Bool) (hwf : WF0 s0) (hwf' : WF0 s0') (hw : 3 * win + 2 ≤ livebuf)
    (hcmn : s0.cmnFrames + offeredOps ops + (if tail then 1 else 0) ≤ cmnWinHwm)
    (hcmn' : s0'.cmnFrames + offeredOps ops' + (if tail' then 1 else 0) ≤ cmnWinHwm)
    (hfe : tail = true ∨ (runOps true win skip (startUtt s0) ops).nextId = 0)
    (hfe' : tail' = true ∨ (runOps true win skip' (startUtt s0') ops').nextId = 0)
    (hstream : ∀ op, op ∈ ops → op.isFull = false) (hstream' : ∀ op, op ∈ ops' → op.isFull = false)
    (hpost : ∀ op, op ∈ post → op.isProcess = false) (hpost' : ∀ op, op ∈ post' → op.isProcess = false)
    (hM : (runUtt true win skip s0 ops tail post).nextId = (runUtt true win skip' s0' ops' tail' post').nextId) :
    (runUtt true win skip s0 ops tail post).searched = (runUtt true win skip' s0' ops' tail' post').searched := by
  rw [C07_features_canonical win skip s0 ops post tail hwf hw hcmn hfe hstream hpost,
    C07_features_canonical win skip' s0' ops' post' tail' hwf' hw hcmn' hfe' hstream' hpost', hM]

/-- **alignment passes.**  Every `decoder_alignment` call (on a partial result or on the final one) re-reads, in
    order, the canonical feature vectors of the frames below some `p ≤ M`, and (see `alignPass_spec`) puts every
    counter back where it was. -/
theorem C07_alignment_canonical (win : Nat) (skip : Nat → Bool) (s0 : St) (ops post : List Op) (tail : Bool) (hwf : WF0 s0)
    (hw : 3 * win + 2 ≤ livebuf)
    (hcmn : s0.cmnFrames + offeredOps ops + (if tail then 1 else 0) ≤ cmnWinHwm)
    (hfe : tail = true ∨ (runOps true win skip (startUtt s0) ops).nextId = 0)
    (hstream : ∀ op, op ∈ ops → op.isFull = false) (hpost : ∀ op, op ∈ post → op.isProcess = false) :
    let sf := runUtt true win skip s0 ops tail post
    ∀ l, l ∈ sf.aligned → ∃ p, p ≤ sf.nextId ∧ l = (List.range p).map fun k => (k, some (canon win sf.nextId k)) :=
  (runUtt_closed win skip s0 ops post tail hwf hw hcmn hfe hstream hpost).aligned_eq

/-- **ring_safe, while the utterance is open.**  After every prefix of calls: no modelled buffer access was out
    of range and none of the branches outside the model (fixed-size feature ring, wrap-around of `feat_buf`, live
    buffer clamp, block special case, non-terminating loop) was taken (`fault = none`); the feature queue never
    reaches the end of `feat_buf` (so it never wraps and `acmod_rewind` is always possible); every frame of the
    cepstrum ring has been consumed; all ring indices are in range. -/
theorem C07_ring_safe_open (win : Nat) (skip : Nat → Bool) (s0 : St) (ops : List Op) (hwf : WF0 s0)
    (hw : 3 * win + 1 ≤ livebuf) (hcmn : s0.cmnFrames + offeredOps ops ≤ cmnWinHwm)
    (hstream : ∀ op, op ∈ ops → op.isFull = false) :
    let s := runOps true win skip (startUtt s0) ops
    s.fault = none ∧ s.featOutidx + s.nFeatFrame < s.nFeatAlloc ∧ s.featBuf.length = s.nFeatAlloc ∧
      s.featOutidx = s.outputFrame ∧ s.nMfcFrame = 0 ∧ s.mfcOutidx < s.nMfcAlloc ∧ s.mfcBuf.length = s.nMfcAlloc ∧
      s.curpos < livebuf ∧ s.cepbuf.length = livebuf ∧ s.growFeat = true ∧
      (s.state = .started ∨ s.state = .processing) := by
  intro s
  have o1 : Open win s :=
    (runOps_open win skip hw ops (startUtt s0) (startUtt_open win s0 hwf) hstream (by show s0.cmnFrames + _ ≤ _; omega)).1
  obtain ⟨c, hc, hm⟩ := o1.core
  have h1 := hc.cnt
  have h2 := hc.room
  have h3 := hc.outIdx
  exact ⟨hc.nofault, by omega, hc.fbLen, hc.outIdx, o1.mfc0, hm.out, hm.len, hc.cur, hc.cepLen, hc.grow, o1.state⟩

/-- **ring_safe, after `decoder_end_utt`** and any queries on the final result. -/
theorem C07_ring_safe (win : Nat) (skip : Nat → Bool) (s0 : St) (ops post : List Op) (tail : Bool) (hwf : WF0 s0)
    (hw : 3 * win + 2 ≤ livebuf)
    (hcmn : s0.cmnFrames + offeredOps ops + (if tail then 1 else 0) ≤ cmnWinHwm)
    (hfe : tail = true ∨ (runOps true win skip (startUtt s0) ops).nextId = 0)
    (hstream : ∀ op, op ∈ ops → op.isFull = false) (hpost : ∀ op, op ∈ post → op.isProcess = false) :
    let sf := runUtt true win skip s0 ops tail post
    sf.fault = none ∧ sf.nFeatFrame ≤ sf.nFeatAlloc ∧ sf.nextId < sf.nFeatAlloc ∧ sf.featBuf.length = sf.nFeatAlloc ∧
      sf.featOutidx = sf.outputFrame ∧ sf.state = .ended := by
  intro sf
  have h : Closed win sf := runUtt_closed win skip s0 ops post tail hwf hw hcmn hfe hstream hpost
  have hn := h.nff
  exact ⟨h.core.nofault, by omega, h.core.room, h.core.fbLen, h.core.outIdx, h.st⟩

/-! ## the batch regime (`full_utt = 1`)

The property does not compare the batch regime with streaming (batch CMN is a different normalisation by design);
what is proved is the batch regime's own canonical form, for **any** decoder state (in particular any size of the
cepstrum buffer, which an earlier batch utterance enlarges for good) and any interleaving of `no_search`, queries
and alignment around the one `decoder_process_*(…, full_utt = 1)` call. -/

/-- structural facts about the state a batch utterance starts from: any buffer sizes, any contents -/
structure WF0F (s0 : St) : Prop where
  nofault : s0.fault = none
  cepLen : s0.cepbuf.length = livebuf
  fbLen : s0.featBuf.length = s0.nFeatAlloc
  alloc1 : 1 ≤ s0.nFeatAlloc
  mfcLen : s0.mfcBuf.length = s0.nMfcAlloc
  mfcAlloc1 : 1 ≤ s0.nMfcAlloc

/-- start, queries, the batch call (one pass), queries / alignment, `decoder_end_utt`, queries / alignment -/
def runUttFull (win : Nat) (skip : Nat → Bool) (s0 : St) (pre : List Op) (ns : Bool) (r : FullResp) (mid post : List Op) : St :=
  runOps true win skip
    (decEnd true win skip
      (runOps true win skip (step true win skip (runOps true win skip (startUtt s0) pre) (.processFull ns [r])) mid) false) post

theorem runUttFull_inv (win : Nat) (skip : Nat → Bool) (s0 : St) (pre mid post : List Op) (ns : Bool) (r : FullResp)
    (hwf : WF0F s0) (hw : 2 * win ≤ livebuf) (hmore : r.more = false) (hM : 1 ≤ fullCount r)
    (hc : s0.cmnBatch = true ∨ s0.cmnFrames + fullCount r ≤ cmnWinHwm)
    (hpre : ∀ op, op ∈ pre → op.isProcess = false) (hmid : ∀ op, op ∈ mid → op.isProcess = false)
    (hpost : ∀ op, op ∈ post → op.isProcess = false) :
    BInv win (runUttFull win skip s0 pre ns r mid post) (fullCount r) ∧
      (runUttFull win skip s0 pre ns r mid post).nFeatFrame = 0 := by
  have h0 : BInv win (startUtt s0) 0 := by
    refine ⟨hwf.nofault, hwf.cepLen, hwf.fbLen, hwf.alloc1, hwf.mfcLen, hwf.mfcAlloc1, rfl, rfl, rfl, Nat.zero_le _, ?_, ?_, ?_, ?_⟩
    · show 0 = 0 % s0.nFeatAlloc; rw [Nat.zero_mod]
    · intro k hk; omega
    · show SearchedOK (startUtt s0); unfold SearchedOK startUtt; rfl
    · intro l hl; exact absurd hl (by simp [startUtt])
  obtain ⟨p1, p2⟩ := runOps_B win skip pre _ h0 hpre
  have hst1 : (runOps true win skip (startUtt s0) pre).state = .started := by rw [p2.state]; rfl
  have hmv1 : (runOps true win skip (startUtt s0) pre).cmnMoved = false := by rw [p2.moved]; rfl
  have hc1 : (runOps true win skip (startUtt s0) pre).cmnBatch = true ∨
      (runOps true win skip (startUtt s0) pre).cmnFrames + fullCount r ≤ cmnWinHwm := by
    rw [p2.batch, p2.frames]; exact hc
  obtain ⟨f1, f2⟩ := decProcessFull_B win skip _ ns r p1 hst1 hmv1 hmore hM hw hc1
  have hstep : step true win skip (runOps true win skip (startUtt s0) pre) (.processFull ns [r]) =
      decProcessFull win skip (runOps true win skip (startUtt s0) pre) ns [r] := by
    simp only [step]
    rw [if_neg (by rw [hst1]; decide)]
  obtain ⟨m1, m2⟩ := runOps_B win skip mid _ f1 hmid
  obtain ⟨e1, e2, e3⟩ := decEnd_B win skip _ m1 (by rw [m2.state]; exact f2)
  unfold runUttFull
  rw [hstep]
  obtain ⟨q1, q2⟩ := runOps_B win skip post _ e1 hpost
  refine ⟨q1, ?_⟩
  -- queries and alignment on the final result leave the queue empty
  have : ∀ (ops : List Op) (s : St), BInv win s (fullCount r) → s.nFeatFrame = 0 →
      (∀ op, op ∈ ops → op.isProcess = false) → (runOps true win skip s ops).nFeatFrame = 0 := by
    intro ops
    induction ops with
    | nil => intro s _ h _; exact h
    | cons op ops ih =>
      intro s hb hn hp
      have hop := hp op (List.mem_cons_self ..)
      simp only [runOps, List.foldl_cons]
      cases op with
      | process ns rs => simp [Op.isProcess] at hop
      | processFull ns rs => simp [Op.isProcess] at hop
      | query => exact ih s hb hn (fun op' hm => hp op' (List.mem_cons_of_mem _ hm))
      | align steps =>
        cases steps with
        | none => exact ih s hb hn (fun op' hm => hp op' (List.mem_cons_of_mem _ hm))
        | some upto =>
          refine ih _ (hb.align upto).1 ?_ (fun op' hm => hp op' (List.mem_cons_of_mem _ hm))
          simp only [step]
          rw [alignPassW s upto hb.qinv]
          exact hn
  exact this post _ e1 e2 hpost

/-- **features_canonical, batch regime.**  One `decoder_process_*(…, full_utt = 1)` call on the whole utterance, with or
    without `no_search`, queries and alignment before / after it and after `decoder_end_utt`, on a decoder in any
    state: the search is handed, in order and each once, the canonical windows of the frames `0 … M-1`
    (`M = fullCount r` frames delivered by the front end), every frame normalised exactly once. -/
theorem C07_full_features_canonical (win : Nat) (skip : Nat → Bool) (s0 : St) (pre mid post : List Op) (ns : Bool) (r : FullResp)
    (hwf : WF0F s0) (hw : 2 * win ≤ livebuf) (hmore : r.more = false) (hM : 1 ≤ fullCount r)
    (hc : s0.cmnBatch = true ∨ s0.cmnFrames + fullCount r ≤ cmnWinHwm)
    (hpre : ∀ op, op ∈ pre → op.isProcess = false) (hmid : ∀ op, op ∈ mid → op.isProcess = false)
    (hpost : ∀ op, op ∈ post → op.isProcess = false) :
    let sf := runUttFull win skip s0 pre ns r mid post
    sf.searched = (List.range (fullCount r)).map (fun k => (k, some (canon win (fullCount r) k))) ∧ sf.nextId = fullCount r ∧
      sf.fault = none ∧ sf.nFeatFrame = 0 ∧ sf.outputFrame = fullCount r := by
  intro sf
  obtain ⟨h, hn⟩ := runUttFull_inv win skip s0 pre mid post ns r hwf hw hmore hM hc hpre hmid hpost
  have hcnt := h.cnt
  exact ⟨h.searched_eq hn, h.next, h.nofault, hn, by have : sf.nFeatFrame = 0 := hn; have : sf.outputFrame + sf.nFeatFrame = fullCount r := hcnt; omega⟩

/-- **streaming and batch hand the search the same windows** (same frame count): the two regimes differ only in the
    normalisation the opaque per-frame CMN step applies, not in which frames enter which window -/
theorem C07_full_equals_streaming_windows (win : Nat) (skip skip' : Nat → Bool) (s0 s0' : St) (ops post pre mid post' : List Op)
    (tail ns : Bool) (r : FullResp) (hwf : WF0 s0) (hwf' : WF0F s0') (hw : 3 * win + 2 ≤ livebuf)
    (hcmn : s0.cmnFrames + offeredOps ops + (if tail then 1 else 0) ≤ cmnWinHwm)
    (hfe : tail = true ∨ (runOps true win skip (startUtt s0) ops).nextId = 0)
    (hstream : ∀ op, op ∈ ops → op.isFull = false) (hpost : ∀ op, op ∈ post → op.isProcess = false)
    (hmore : r.more = false) (hM : 1 ≤ fullCount r)
    (hc : s0'.cmnBatch = true ∨ s0'.cmnFrames + fullCount r ≤ cmnWinHwm)
    (hpre : ∀ op, op ∈ pre → op.isProcess = false) (hmid : ∀ op, op ∈ mid → op.isProcess = false)
    (hpost' : ∀ op, op ∈ post' → op.isProcess = false)
    (hsame : (runUtt true win skip s0 ops tail post).nextId = fullCount r) :
    (runUtt true win skip s0 ops tail post).searched = (runUttFull win skip' s0' pre ns r mid post').searched := by
  rw [C07_features_canonical win skip s0 ops post tail hwf hw hcmn hfe hstream hpost,
    (C07_full_features_canonical win skip' s0' pre mid post' ns r hwf' (by omega) hmore hM hc hpre hmid hpost').1, hsame]

/-- the side condition on the window size holds for every value `feat_init` assigns, and the feature buffer grows
    by default (regenerated constants; re-checked by `lake build` whenever they change) -/
theorem C07_consts_ok : (∀ w, w ∈ featWindows → 3 * w + 2 ≤ livebuf) ∧ growDefault = true ∧ cmnWin ≤ cmnWinHwm := by
  decide

/-! ## non-vacuity: concrete runs of the model -/

/-- a 9-frame utterance (`win = 3`): a first call that yields no frame, 2 frames, a query, 6 buffered frames, a
    partial alignment, the tail frame; the model's own run gives the canonical windows -/
def exOps : List Op :=
  [.process false [⟨0, false⟩], .process false [⟨2, true⟩, ⟨0, false⟩], .query, .process true [⟨6, false⟩], .align (some 1)]

example : (runUtt true 3 (fun _ => false) (St.init 500) exOps true [.align (some 9)]).nextId = 9 := by decide +kernel

example : (runUtt true 3 (fun _ => false) (St.init 500) exOps true [.align (some 9)]).searched.length = 9 := by
  decide +kernel

example : ((runUtt true 3 (fun _ => false) (St.init 500) exOps true [.align (some 9)]).searched.getD 0 (0, none)).2 =
    some ([0, 0, 0, 0, 1, 2, 3].map fun i => some ⟨i, 1, false⟩) := by decide +kernel

example : ((runUtt true 3 (fun _ => false) (St.init 500) exOps true [.align (some 9)]).searched.getD 8 (0, none)).2 =
    some ([5, 6, 7, 8, 8, 8, 8].map fun i => some ⟨i, 1, false⟩) := by decide +kernel

/-- the hypotheses of the theorems are met by that run -/
example : WF0 (St.init 500) ∧ 3 * 3 + 2 ≤ livebuf ∧
    (St.init 500).cmnFrames + offeredOps exOps + (if true then 1 else 0) ≤ cmnWinHwm := ⟨WF0_init 500, by decide, by decide⟩

/-- an utterance shorter than one analysis window: no frame before the end, one tail frame (STARTED → ENDED) -/
example : (runUtt true 3 (fun _ => false) (St.init 500) [.process false [⟨0, false⟩]] true []).searched =
    [(0, some ((List.replicate 7 0).map fun i => some ⟨i, 1, false⟩))] := by decide +kernel

/-- a decoder whose cepstrum ring an earlier batch utterance enlarged to 300 frames: one call delivers 260 frames at
    once — more than the live buffer takes per pass (clamp, drain loop) — after a first call of 5 frames (the queue
    wraps); 266 canonical windows all the same -/
def bigRing : St := { St.init 500 with mfcBuf := List.replicate 300 none, nMfcAlloc := 300 }

example : (runUtt true 3 (fun _ => false) bigRing [.process false [⟨5, false⟩], .process false [⟨260, false⟩]] true []).searched.length = 266 ∧
    (runUtt true 3 (fun _ => false) bigRing [.process false [⟨5, false⟩], .process false [⟨260, false⟩]] true []).fault = none := by
  decide +kernel

example : ((runUtt true 3 (fun _ => false) bigRing [.process false [⟨5, false⟩], .process false [⟨260, false⟩]] true []).searched.getD 257 (0, none)).2 =
    some ([254, 255, 256, 257, 258, 259, 260].map fun i => some ⟨i, 1, false⟩) := by decide +kernel

/-- the batch regime on the same 9 frames (8 from `fe_process`, one from `fe_end`), buffered, with queries -/
example : (runUttFull 3 (fun _ => false) (St.init 500) [.query] true ⟨9, 8, false, true⟩ [.align (some 4)] [.align (some 9)]).searched =
    (runUtt true 3 (fun _ => false) (St.init 500) exOps true [.align (some 9)]).searched := by decide +kernel

example : fullCount ⟨9, 8, false, true⟩ = 9 ∧ WF0F (St.init 500) :=
  ⟨by decide, ⟨rfl, by simp [St.init], by simp [St.init], (by decide : 1 ≤ nMfc), by simp [St.init], (by decide : 1 ≤ nMfc)⟩⟩

/-- **the pinned tree (D8) on the model**: the control flow without the repair (`fixD8 = false`) hands the search a
    first window that contains three slots the utterance never wrote (stale content of the live buffer) — same
    audio, first call shorter than a window -/
example : ((runUtt false 3 (fun _ => false) (St.init 500) exOps true []).searched.getD 0 (0, none)).2 =
    some ([none, none, none] ++ [0, 1, 2, 3].map fun i => some ⟨i, 1, false⟩) := by decide +kernel

end SSVerif.AcmodBuf
