import SSVerif.Props.C18
import SSVerif.Proofs.RangesHmm
import SSVerif.Proofs.RangesAny
import SSVerif.Proofs.RangesSemi
/-!
# C18 (integer side, second part) — the remaining HMM evaluators, renormalisation

`Props/C18.lean` proves the no-wrap invariant for the two evaluators the library's own searches select
(`hmm_vit_eval_3st_lr`, `_5st_lr`).  Here: the multiplex variants (`hmm_vit_eval_3st_lr_mpx`, `_5st_lr_mpx`), the
any-topology evaluator (`hmm_vit_eval_anytopo`, used for every acoustic model whose phones do not have 3 or 5 emitting
states), and `hmm_normalize` with the renormalisation test of the forced aligner.

Vocabulary as in `Props/C18.lean`; `M3` / `M5` — a multiplex HMM (scores + one senone-sequence id per state);
`HA` — an HMM with any number of states; `AnyBd B h` — entry state in `[B, 0]`, the other states in
`[WORST_SCORE - 255, 0]`, exit score in `[WORST_SCORE, 0]`; the second component of every step / run is the list of
EVERY value the C code stores in an `int32` while evaluating.
-/
namespace SSVerif.Ranges
open SSVerif.Generated.Ranges

/-! ## multiplex evaluators -/

/-- **C18, hmm_no_wrap (one frame, 3 states, multiplex).**  State scores `≥ WORST_SCORE` (and `≤ U`), ANY `int16`
senone scores, byte transition entries, any pattern of `BAD_SSID` states: every `int32` intermediate of
`hmm_vit_eval_3st_lr_mpx` fits and all new scores are again `≥ WORST_SCORE` (and `≤ U + 32768`). -/
theorem C18_hmm3mpx_no_wrap {tp : Nat → Nat → Nat} (htp : ∀ i j, tp i j ≤ 255) {U : Int} {sen : Int → Nat → Int}
    (hsen : ∀ id st, I16 (sen id st)) (hU : U + 32768 ≤ int32Max) (hWU : WORST ≤ U) {m : M3} (hb : Bd3 WORST U m.h) :
    (∀ x ∈ (hmm3MpxStep tp sen m).2, I32 x) ∧ Bd3 WORST (U + 32768) (hmm3MpxStep tp sen m).1.h ∧
    WORST ≤ (hmm3MpxStep tp sen m).1.h.best ∧ (hmm3MpxStep tp sen m).1.h.best ≤ U + 32768 := by
  rw [const_facts.2.1] at hU
  exact hmm3MpxStep_core htp (cl := -32768) (ch := 32767) (by omega) (by omega) hU (by omega) (by omega) hWU
    (fun id st => (i16_iff _).1 (hsen id st)) hb

/-- **C18, hmm_no_wrap (one frame, 5 states, multiplex)** — the same for `hmm_vit_eval_5st_lr_mpx`. -/
theorem C18_hmm5mpx_no_wrap {tp : Nat → Nat → Nat} (htp : ∀ i j, tp i j ≤ 255) {U : Int} {sen : Int → Nat → Int}
    (hsen : ∀ id st, I16 (sen id st)) (hU : U + 32768 ≤ int32Max) (hWU : WORST ≤ U) {m : M5} (hb : Bd5 WORST U m.h) :
    (∀ x ∈ (hmm5MpxStep tp sen m).2, I32 x) ∧ Bd5 WORST (U + 32768) (hmm5MpxStep tp sen m).1.h ∧
    WORST ≤ (hmm5MpxStep tp sen m).1.h.best ∧ (hmm5MpxStep tp sen m).1.h.best ≤ U + 32768 := by
  rw [const_facts.2.1] at hU
  exact hmm5MpxStep_core htp (cl := -32768) (ch := 32767) (by omega) (by omega) hU (by omega) (by omega) hWU
    (fun id st => (i16_iff _).1 (hsen id st)) hb

/-- a frame of a multiplex HMM: normalised senone scores, entering score (if any) in `[WORST_SCORE, 0]` -/
def FrameM.Ok (f : FrameM) : Prop :=
  (∀ id st, 0 ≤ f.sen id st ∧ f.sen id st ≤ 32767) ∧ ∀ s hi, f.enter = some (s, hi) → WORST ≤ s ∧ s ≤ 0

/-- **C18, multiplex 3-state evaluation: `[WORST_SCORE, 0]` is invariant for EVERY utterance length.** -/
theorem C18_hmm3mpx_invariant {tp : Nat → Nat → Nat} (htp : ∀ i j, tp i j ≤ 255) :
    ∀ (fs : List FrameM) (m : M3), (∀ f ∈ fs, f.Ok) → Bd3 WORST 0 m.h →
      (∀ x ∈ (hmm3MpxRun tp m fs).2, I32 x) ∧ Bd3 WORST 0 (hmm3MpxRun tp m fs).1.h
  | [], m, _, hb => ⟨(by intro x hx; cases hx), hb⟩
  | f :: fs, m, hf, hb => by
    obtain ⟨hs, he⟩ := hf f (by simp)
    have hb' : Bd3 WORST 0 (match f.enter with | some (s, hi) => m.enter s hi | none => m).h := by
      cases hfe : f.enter with
      | none => exact hb
      | some p =>
        obtain ⟨s, hi⟩ := p
        have := he s hi hfe
        exact ⟨this, hb.s1, hb.s2, hb.out⟩
    have st := hmm3MpxStep_core htp (cl := 0) (ch := 32767) (U := 0) (V := 0) (by omega) (by omega) (by omega)
      (by omega) (by omega) worst_le_zero hs hb'
    have ih := C18_hmm3mpx_invariant htp fs (f.apply3 tp m).1 (fun g hg => hf g (by simp [hg])) st.2.1
    simp only [hmm3MpxRun]
    refine ⟨?_, ih.2⟩
    intro x hx
    rcases List.mem_append.1 hx with hx | hx
    · exact st.1 x hx
    · exact ih.1 x hx

/-- **C18, multiplex 5-state evaluation: `[WORST_SCORE, 0]` is invariant for every utterance length.** -/
theorem C18_hmm5mpx_invariant {tp : Nat → Nat → Nat} (htp : ∀ i j, tp i j ≤ 255) :
    ∀ (fs : List FrameM) (m : M5), (∀ f ∈ fs, f.Ok) → Bd5 WORST 0 m.h →
      (∀ x ∈ (hmm5MpxRun tp m fs).2, I32 x) ∧ Bd5 WORST 0 (hmm5MpxRun tp m fs).1.h
  | [], m, _, hb => ⟨(by intro x hx; cases hx), hb⟩
  | f :: fs, m, hf, hb => by
    obtain ⟨hs, he⟩ := hf f (by simp)
    have hb' : Bd5 WORST 0 (match f.enter with | some (s, hi) => m.enter s hi | none => m).h := by
      cases hfe : f.enter with
      | none => exact hb
      | some p =>
        obtain ⟨s, hi⟩ := p
        have := he s hi hfe
        exact ⟨this, hb.s1, hb.s2, hb.s3, hb.s4, hb.out⟩
    have st := hmm5MpxStep_core htp (cl := 0) (ch := 32767) (U := 0) (V := 0) (by omega) (by omega) (by omega)
      (by omega) (by omega) worst_le_zero hs hb'
    have ih := C18_hmm5mpx_invariant htp fs (f.apply5 tp m).1 (fun g hg => hf g (by simp [hg])) st.2.1
    simp only [hmm5MpxRun]
    refine ⟨?_, ih.2⟩
    intro x hx
    rcases List.mem_append.1 hx with hx | hx
    · exact st.1 x hx
    · exact ih.1 x hx

/-- the state `hmm_init(…, mpx = TRUE, …)` leaves behind satisfies the invariant -/
theorem C18_mpx_init_ok (ssid : Int) : Bd3 WORST 0 (M3.init ssid).h ∧ Bd5 WORST 0 (M5.init ssid).h := C18_clear_ok

/-! ## any topology -/

/-- a frame of an any-topology HMM: the value `hmm_senscr` ADDS for the entry state is in `[-S, 0]`, for every state
it is in `[WORST_SCORE, 0]` (`-senscore[…]` of a normalised senone score, or `WORST_SCORE` for `BAD_SENID`), and an
entering score is in `[WORST_SCORE, 0]` -/
def FrameA.Ok (S : Int) (f : FrameA) : Prop :=
  (∀ id, -S ≤ f.c id 0 ∧ f.c id 0 ≤ 0) ∧ (∀ id st, WORST ≤ f.c id st ∧ f.c id st ≤ 0) ∧
  ∀ s hi, f.enter = some (s, hi) → WORST ≤ s ∧ s ≤ 0

/-- **C18, hmm_no_wrap (one frame, any topology, any number of states, multiplex or not).**  Entry state in `[B, 0]`
with `INT32_MIN + 255 ≤ B - S` (`S` bounds the senone score of the entry state), the other states in
`[WORST_SCORE - 255, 0]`: every `int32` the C code stores fits; afterwards the other states are again in
`[WORST_SCORE - 255, 0]`, the exit score in `[WORST_SCORE, 0]`, the best score in `[WORST_SCORE, 0]`; the entry state is
in `[B - S - 255, 0]` — it is NOT floored by the code as it is (`clamp0 = false`); with the floor of fixes/D96
(`clamp0 = true`) it is in `[WORST_SCORE - 255, 0]`. -/
theorem C18_anytopo_no_wrap {tp : Nat → Nat → Nat} (htp : ∀ i j, tp i j ≤ 255) (clamp0 mpx : Bool)
    {c : Int → Nat → Int} {S B : Int} (hS : 0 ≤ S)
    (hc0 : ∀ id, -S ≤ c id 0 ∧ c id 0 ≤ 0) (hci : ∀ id st, WORST ≤ c id st ∧ c id st ≤ 0)
    (hB : int32Min + 255 ≤ B - S) (hBW : B ≤ WORST - 255) {h : HA} (hb : AnyBd B h) :
    (∀ x ∈ (anytopoStep clamp0 mpx tp c h).2, I32 x) ∧ AnyBd (nextB clamp0 B S) (anytopoStep clamp0 mpx tp c h).1 ∧
    WORST ≤ (anytopoStep clamp0 mpx tp c h).1.best ∧ (anytopoStep clamp0 mpx tp c h).1.best ≤ 0 := by
  rw [const_facts.1] at hB
  exact anytopoStep_core htp clamp0 mpx hS hc0 hci hB hBW hb

/-- **C18, any topology, the code as it is: no wrap while `T · (S + 255)` fits between `WORST_SCORE` and `INT32_MIN`.**
Starting from `AnyBd B` (e.g. `hmm_clear`: `B = WORST_SCORE - 255`), for ANY `T` frames whose entry-state senone score
is at most `S`, with arbitrary re-entries: as long as `INT32_MIN + 255 ≤ B - T·(S + 255)` every `int32` intermediate of
every frame fits, the non-entry states and the exit score keep their `[WORST_SCORE - 255, 0]` range, and the entry state
is `≥ B - T·(S + 255)`.  (Holds for both variants of the code; for `clamp0 = true` see the unbounded theorem below.) -/
theorem C18_anytopo_bounded {tp : Nat → Nat → Nat} (htp : ∀ i j, tp i j ≤ 255) (clamp0 mpx : Bool) {S : Int}
    (hS : 0 ≤ S) :
    ∀ (fs : List FrameA) (h : HA) (B : Int), (∀ f ∈ fs, f.Ok S) → B ≤ WORST - 255 →
      int32Min + 255 ≤ B - (fs.length : Int) * (S + 255) → AnyBd B h →
      (∀ x ∈ (anytopoRun clamp0 mpx tp h fs).2, I32 x) ∧
      AnyBd (B - (fs.length : Int) * (S + 255)) (anytopoRun clamp0 mpx tp h fs).1
  | [], h, B, _, _, _, hb => by
    refine ⟨(by intro x hx; cases hx), ?_⟩
    simpa [anytopoRun] using hb
  | f :: fs, h, B, hf, hBW, hT, hb => by
    obtain ⟨hc0, hci, he⟩ := hf f (by simp)
    have hW0 := worst_le_zero
    have e1 : (((f :: fs).length : Nat) : Int) * (S + 255) = (fs.length : Int) * (S + 255) + (S + 255) := by
      simp only [List.length_cons]; push_cast; rw [Int.add_mul]; omega
    rw [e1] at hT ⊢
    have hnn : 0 ≤ (fs.length : Int) * (S + 255) := Int.mul_nonneg (by omega) (by omega)
    have hb' : AnyBd B (match f.enter with | some (s, hi) => h.enter s hi | none => h) := by
      cases hfe : f.enter with
      | none => exact hb
      | some p =>
        obtain ⟨s, hi⟩ := p
        have := he s hi hfe
        exact hb.enter ⟨by omega, this.2⟩ (by omega)
    have st := C18_anytopo_no_wrap htp clamp0 mpx hS hc0 hci (by omega) hBW hb'
    have hle : B - S - 255 ≤ nextB clamp0 B S := by unfold nextB; split <;> omega
    have ih := C18_anytopo_bounded htp clamp0 mpx hS fs (f.apply clamp0 mpx tp h).1 (B - S - 255)
      (fun g hg => hf g (by simp [hg])) (by omega) (by omega) (st.2.1.mono hle)
    simp only [anytopoRun]
    refine ⟨?_, ?_⟩
    · intro x hx
      rcases List.mem_append.1 hx with hx | hx
      · exact st.1 x hx
      · exact ih.1 x hx
    · have e2 : B - ((fs.length : Int) * (S + 255) + (S + 255)) = B - S - 255 - (fs.length : Int) * (S + 255) := by omega
      rw [e2]; exact ih.2

/-- **C18, any topology with the entry-state floor (fixes/D96): invariant for EVERY utterance length.**  With
`clamp0 = true` all state scores stay in `[WORST_SCORE - 255, 0]` and every intermediate fits an `int32` for any number
of frames, whatever `hmm_senscr` adds (`-senscore` of any normalised senone score, or `WORST_SCORE`). -/
theorem C18_anytopo_invariant_floored {tp : Nat → Nat → Nat} (htp : ∀ i j, tp i j ≤ 255) (mpx : Bool) :
    ∀ (fs : List FrameA) (h : HA), (∀ f ∈ fs, f.Ok (-WORST)) → AnyBd (WORST - 255) h →
      (∀ x ∈ (anytopoRun true mpx tp h fs).2, I32 x) ∧ AnyBd (WORST - 255) (anytopoRun true mpx tp h fs).1
  | [], h, _, hb => ⟨(by intro x hx; cases hx), hb⟩
  | f :: fs, h, hf, hb => by
    obtain ⟨hc0, hci, he⟩ := hf f (by simp)
    have hW0 := worst_le_zero
    have hW3 := worst_room3
    have hb' : AnyBd (WORST - 255) (match f.enter with | some (s, hi) => h.enter s hi | none => h) := by
      cases hfe : f.enter with
      | none => exact hb
      | some p =>
        obtain ⟨s, hi⟩ := p
        have := he s hi hfe
        exact hb.enter ⟨by omega, this.2⟩ (by omega)
    have st := anytopoStep_core htp true mpx (S := -WORST) (B := WORST - 255) (by omega) hc0 hci (by omega)
      (Int.le_refl _) hb'
    have hn : nextB true (WORST - 255) (-WORST) = WORST - 255 := by simp [nextB]
    rw [hn] at st
    have ih := C18_anytopo_invariant_floored htp mpx fs (f.apply true mpx tp h).1
      (fun g hg => hf g (by simp [hg])) st.2.1
    simp only [anytopoRun]
    refine ⟨?_, ih.2⟩
    intro x hx
    rcases List.mem_append.1 hx with hx | hx
    · exact st.1 x hx
    · exact ih.1 x hx

/-- the state `hmm_clear` leaves behind satisfies `AnyBd (WORST - 255)` for any number of states -/
theorem C18_anytopo_clear_ok (n : Nat) (ids : List Int) : AnyBd (WORST - 255) (HA.clear n ids) := by
  have hW0 := worst_le_zero
  have hg : ∀ i, (List.replicate n WORST).getD i 0 = WORST ∨ (List.replicate n WORST).getD i 0 = 0 := by
    intro i
    rw [List.getD_eq_getElem?_getD, List.getElem?_replicate]
    split <;> simp
  refine ⟨?_, ?_, ⟨Int.le_refl _, hW0⟩⟩
  · show WORST - 255 ≤ (List.replicate n WORST).getD 0 0 ∧ (List.replicate n WORST).getD 0 0 ≤ 0
    rcases hg 0 with e | e <;> rw [e] <;> omega
  · intro i _
    show WORST - 255 ≤ (List.replicate n WORST).getD i 0 ∧ (List.replicate n WORST).getD i 0 ≤ 0
    rcases hg i with e | e <;> rw [e] <;> omega

/-- **C18, frame budget of the any-topology evaluator as it is.**  From `hmm_clear`, with ANY normalised `int16` senone
scores (`S = 32767`): 48 773 frames (8.1 minutes at 100 frames/s) cannot wrap the never-floored entry state; with the
bound `3348` that `C18_senscr_range` gives for the PTM scorer of the bundled model shape (3 streams, top-4, byte weights)
it is 447 000 frames (74 minutes). -/
theorem C18_anytopo_budget :
    int32Min + 255 ≤ (WORST - 255) - (48773 : Int) * (32767 + 255) ∧
    int32Min + 255 ≤ (WORST - 255) - (447000 : Int) * (3348 + 255) := by decide

/-! ## `hmm_normalize` / renormalisation of the aligner -/

/-- **C18, renormalisation (`state_align_search_step` → `hmm_normalize`, 3 states).**  When the test of the aligner
fires (`best > WORST_SCORE` and `best - MARGIN < WORST_SCORE`, `MARGIN` read from the source) with `best ≤ 0`, and the
scores of an HMM are in `[WORST_SCORE, U]` with `U - WORST_SCORE ≤ INT32_MAX`: every subtraction fits an `int32`, the
scores stay `≥ WORST_SCORE` and `≤ U - best ≤ U - WORST_SCORE`; scores that were `≤ best` (every score of an HMM that was
evaluated in the frame that produced `best`) end `≤ 0`.  Scores ABOVE `best` — stale scores of HMMs that are no longer
evaluated — move up by `-best`, i.e. by almost `2^29`: after three renormalisations they are still an `int32`, a fifth
would wrap (see the frame budget below). -/
theorem C18_normalize_no_wrap {b U : Int} (hfire : renormFires b = true) (hb0 : b ≤ 0)
    (hU : U - WORST ≤ int32Max) {h : H3} (hb : Bd3 WORST U h) :
    (∀ x ∈ (h.normalize b).2, I32 x) ∧ Bd3 WORST (U - b) (h.normalize b).1 ∧
    (Bd3 WORST b h → Bd3 WORST 0 (h.normalize b).1) ∧ WORST + alignRenormMargin > b := by
  rw [const_facts.2.1] at hU
  have hf : WORST < b ∧ b - alignRenormMargin < WORST := by
    simpa [renormFires] using hfire
  have hW := worst_room
  have n0 := normOne_bd (lo := WORST) ⟨hf.1, hb0⟩ hb.s0 hU (by omega)
  have n1 := normOne_bd (lo := WORST) ⟨hf.1, hb0⟩ hb.s1 hU (by omega)
  have n2 := normOne_bd (lo := WORST) ⟨hf.1, hb0⟩ hb.s2 hU (by omega)
  have n3 := normOne_bd (lo := WORST) ⟨hf.1, hb0⟩ hb.out hU (by omega)
  refine ⟨?_, ⟨⟨n0.2.1, n0.2.2.1⟩, ⟨n1.2.1, n1.2.2.1⟩, ⟨n2.2.1, n2.2.2.1⟩, ⟨n3.2.1, n3.2.2.1⟩⟩, ?_, by omega⟩
  · intro x hx
    simp only [H3.normalize, List.mem_cons, List.mem_nil_iff, or_false] at hx
    rcases hx with e | e | e | e <;> rw [e]
    · exact n0.1
    · exact n1.1
    · exact n2.1
    · exact n3.1
  · intro hle
    exact ⟨⟨n0.2.1, n0.2.2.2 hle.s0.2⟩, ⟨n1.2.1, n1.2.2.2 hle.s1.2⟩, ⟨n2.2.1, n2.2.2.2 hle.s2.2⟩,
      ⟨n3.2.1, n3.2.2.2 hle.out.2⟩⟩

/-- **C18, the aligner's whole frame loop: no wrap for ANY number of frames with at most three renormalisations.**
`alignRun` = for every frame: when `state_align_search_step`'s test fired, `hmm_normalize` on EVERY HMM (active or
stale — as the code does), then every active HMM optionally entered and evaluated (`hmm_vit_eval_3st_lr`), inactive
ones left alone.  Hypotheses (`AlignOk`): a renormalisation only when the test fires, with a best score `≤ 0`;
normalised senone scores; entering scores between `WORST_SCORE` and the current upper bound.  If the scores start in
`[WORST_SCORE, U]` and `U + r·(-WORST_SCORE) ≤ INT32_MAX` (`r` = number of renormalisations in the run; with `U = 0`:
`r ≤ 3`) then every `int32` the code stores in every frame fits, and all scores — including stale ones, which every
renormalisation lifts by almost `2^29` — stay in `[WORST_SCORE, U + r·(-WORST_SCORE)]`.
PARTIAL as a statement about time: that `r ≤ 3` for `T` frames needs the spacing of renormalisations
(`C18_renorm_not_before` proves it for the first one: not before 16 162 frames with ANY `int16` senone scores, 148 131
with the PTM bound; after a renormalisation every live score is `> -MARGIN`, so the same count applies again — this
second step is argued, not proved).  The statement for unbounded `T` is FALSE for the code as it is: a stale score above
the best wraps at the fifth renormalisation. -/
theorem C18_align_run_no_wrap {tps : Nat → Nat → Nat → Nat} (htps : ∀ i a b, tps i a b ≤ 255) :
    ∀ (fs : List AFrame) (hs : List H3) (U : Int), 0 ≤ U → (∀ h ∈ hs, Bd3 WORST U h) → AlignOk U fs →
      U + (renorms fs : Int) * (-WORST) ≤ int32Max →
      (∀ x ∈ (alignRun tps hs fs).2, I32 x) ∧
      ∀ h ∈ (alignRun tps hs fs).1, Bd3 WORST (U + (renorms fs : Int) * (-WORST)) h
  | [], hs, U, _, hhs, _, _ => by
    refine ⟨(by intro x hx; cases hx), ?_⟩
    intro h hh
    simpa [alignRun, renorms] using hhs h hh
  | f :: fs, hs, U, hU0, hhs, hok, hmax => by
    obtain ⟨hr, he, hrest⟩ := hok
    have hW0 := worst_le_zero
    rw [const_facts.2.1] at hmax
    have hR0 : 0 ≤ (renorms fs : Int) * (-WORST) := Int.mul_nonneg (by omega) (by omega)
    have e1 : ((renorms (f :: fs) : Nat) : Int) * (-WORST) =
        (if f.renorm.isSome then (-WORST) else 0) + (renorms fs : Int) * (-WORST) := by
      simp only [renorms]
      split
      · push_cast; rw [Int.add_mul]; omega
      · push_cast; simp
    rw [e1] at hmax ⊢
    generalize hR : (renorms fs : Int) * (-WORST) = R at *
    have hupb : f.up U ≤ U + (if f.renorm.isSome then (-WORST) else 0) := by
      cases hfr : f.renorm with
      | none => simp [AFrame.up, hfr]
      | some b =>
        have hf : WORST < b ∧ b - alignRenormMargin < WORST := by simpa [renormFires] using (hr b hfr).1
        simp only [AFrame.up, hfr, Option.isSome_some, if_true]
        omega
    have F := alignFrame_ok htps hU0 hhs hr he
      (by intro hs'; rw [if_pos hs'] at hmax; omega) (by omega)
    have ih := C18_align_run_no_wrap htps fs (alignFrame tps hs f).1 (f.up U) (by omega) F.2.1 hrest
      (by rw [const_facts.2.1, hR]; omega)
    rw [hR] at ih
    simp only [alignRun]
    refine ⟨?_, ?_⟩
    · intro x hx
      rcases List.mem_append.1 hx with hx | hx
      · exact F.1 x hx
      · exact ih.1 x hx
    · intro h hh
      exact (ih.2 h hh).mono (by omega)

/-- **C18, renormalisation cannot fire early.**  The test needs `best < WORST_SCORE + MARGIN`; a best score that starts
at 0 and loses at most `S + 255` per frame (the best state can always stay where it is: self transitions are evaluated
unconditionally) is `≥ -T·(S + 255)` after `T` frames, so with `T·(S + 255) ≤ -WORST_SCORE - MARGIN` the branch is not
taken at all and the `[WORST_SCORE, 0]` invariant of `C18_hmm_invariant` is the whole story. -/
theorem C18_renorm_not_before {T S best : Int} (hbest : -(T * (S + 255)) ≤ best)
    (hT : T * (S + 255) ≤ -WORST - alignRenormMargin) : renormFires best = false := by
  have : ¬ (best - alignRenormMargin < WORST) := by omega
  simp [renormFires, this]

/-- frames before the first renormalisation can fire: 16 162 for ANY `int16` senone scores (2.7 minutes), 148 131 with
the PTM bound 3348 (24.7 minutes); and three renormalisations keep even never-re-evaluated (stale) scores inside
`int32`: `3·(-WORST_SCORE) ≤ INT32_MAX` (a renormalisation adds less than `-WORST_SCORE`), so nothing can wrap before
`4 · 16 162 = 64 648` frames = 10.8 minutes even for arbitrary `int16` senone scores. -/
theorem C18_renorm_budget :
    (16162 : Int) * (32767 + 255) ≤ -WORST - alignRenormMargin ∧
    (148131 : Int) * (3348 + 255) ≤ -WORST - alignRenormMargin ∧
    0 - WORST - WORST - WORST ≤ int32Max ∧ ¬ (0 - WORST - WORST - WORST - WORST ≤ int32Max) := by decide

/-! ## the s2_semi scorer (`s2_semi_mgau_frame_eval`) and the final stage of ms_mgau -/

/-- **C18, s2_semi top-N normalisation (`mgau_norm`).**  For a top-N list whose first entry is the largest (what the
insertion sorts of `eval_topn` / `eval_cb` guarantee: `C18_topn_sorted`, same code shape), whatever the raw `int32`
densities and the per-stream beam are: every entry the score pass reads (the first `max n 1`, `n` = the count
`mgau_norm` returns) holds a score in `[0, MAX_NEG_ASCR]`, the list keeps its length, and the best codeword of the
stream is normalised to exactly 0. -/
theorem C18_semi_norm_range (beam : Int) (l : List TopN) (hs : ∀ e ∈ l, e.score ≤ headScore l) :
    (∀ e ∈ (semiNorm beam l).1.take (max (semiNorm beam l).2 1), 0 ≤ e.score ∧ e.score ≤ maxNegAscr) ∧
    (semiNorm beam l).1.length = l.length ∧ (l ≠ [] → headScore (semiNorm beam l).1 = 0) :=
  ⟨semiNorm_used beam l hs, semiNormLoop_length _ _ l 0, semiNorm_head_zero beam l⟩

/-- **C18, s2_semi senone scores stay inside `int16` and no store truncates.**  Add table of bytes, mixture weights
(8-bit, or 4-bit clustered through `mixw_cb`) in `[0, M]`, at most `K` top-N entries per stream, `F = t.length` streams,
sorted top-N lists with ANY raw densities, any beams, a duplicate-free active list; `B` bounds both `M + MAX_NEG_ASCR`
and 255 (the `uint8 w_den` of the unrolled 4-bit variants).  If `-255·(K-1)·F ≥ -32768` and `B·F ≤ 32767` then
* the `int16` accumulation `senone_scores[sen] += tmp` never truncates: the result equals the exact sums (`semiEvalI`),
* every senone score is in `[-255·(K-1)·F, B·F]`.
NOT claimed (and false): that the best score of the frame is 0 — `s2_semi_mgau_frame_eval` does not subtract the best
senone score (only the best DENSITY of each stream is normalised to 0, `C18_semi_norm_range`); see the example below. -/
theorem C18_semi_range {tab : Nat → Nat} (htab : ∀ d, tab d ≤ 255) {m : Mixw} {M B : Int}
    (hm : ∀ f cw s, 0 ≤ m.get false f cw s ∧ m.get false f cw s ≤ M) (hB : M + maxNegAscr ≤ B) (hB2 : 255 ≤ B)
    {K : Nat} (hK1 : 1 ≤ K) (nSen : Nat) (beams : List Int) (t : List (List TopN)) (compall : Bool) (deltas : List Nat)
    (hshape : ∀ l ∈ t, l.length ≤ K) (hsorted : ∀ l ∈ t, ∀ e ∈ l, e.score ≤ headScore l)
    (hlo : -32768 ≤ (-(255 * ((K : Int) - 1))) * t.length) (hhi : B * t.length ≤ 32767)
    (hnd : (semiSens compall m.cb.isSome nSen deltas).Nodup) :
    (semiEval tab m nSen beams t compall deltas).scores = semiEvalI tab m nSen beams t compall deltas ∧
    ∀ x ∈ (semiEval tab m nSen beams t compall deltas).scores,
      (-(255 * ((K : Int) - 1))) * t.length ≤ x ∧ x ≤ B * t.length := by
  have hg : ∀ (f sen : Nat) (u8 : Bool),
      -(255 * ((K : Int) - 1)) ≤ semiFden tab m u8 f sen
        ((t.mapIdx fun f l => semiNorm (beams.getD f 0) l).getD f ([], 0)).1
        ((t.mapIdx fun f l => semiNorm (beams.getD f 0) l).getD f ([], 0)).2 ∧
      semiFden tab m u8 f sen
        ((t.mapIdx fun f l => semiNorm (beams.getD f 0) l).getD f ([], 0)).1
        ((t.mapIdx fun f l => semiNorm (beams.getD f 0) l).getD f ([], 0)).2 ≤ B := by
    intro f sen u8
    rw [getD_mapIdx_pair]
    cases hf : t[f]? with
    | none =>
      simp only
      exact semiFden_bounds htab hm hB hB2 hK1 u8 f sen (l := []) (n := 0) (by simp) (by intro e he; simp at he)
    | some l =>
      simp only
      have hl : l ∈ t := List.mem_of_getElem? hf
      refine semiFden_bounds htab hm hB hB2 hK1 u8 f sen ?_ (semiNorm_used _ l (hsorted l hl))
      rw [show (semiNorm (beams.getD f 0) l).1.length = l.length from semiNormLoop_length _ _ l 0]
      exact hshape l hl
  have hK0 : (0 : Int) ≤ 255 * ((K : Int) - 1) := by
    have : (1 : Int) ≤ (K : Int) := by exact_mod_cast hK1
    omega
  have S := semiFeatFold_spec (tab := tab) (m := m) (compall := compall)
    (normed := t.mapIdx fun f l => semiNorm (beams.getD f 0) l)
    (sens := semiSens compall m.cb.isSome nSen deltas) (lo := -(255 * ((K : Int) - 1))) (hi := B) (F := t.length)
    (by omega) (by omega) ⟨hlo, hhi⟩ hnd hg (List.range t.length) (List.replicate nSen 0) 0
    (by simp) (by
      intro i
      rw [List.getD_eq_getElem?_getD, List.getElem?_replicate]
      split <;> simp)
  have hsc : (semiEval tab m nSen beams t compall deltas).scores =
      semiFeatFold (semiPass tab m compall) (t.mapIdx fun f l => semiNorm (beams.getD f 0) l)
        (semiSens compall m.cb.isSome nSen deltas) (List.range t.length) (List.replicate nSen 0) := rfl
  rw [hsc]
  refine ⟨S.1, ?_⟩
  intro x hx
  obtain ⟨i, hi, rfl⟩ := List.mem_iff_getElem.1 hx
  have := S.2 i
  rw [List.getD_eq_getElem?_getD, List.getElem?_eq_getElem hi] at this
  simpa using this

/-- **C18, a whole s2_semi frame, for ANY quantised density values.**  The lists are first re-scored and extended by
the real maintenance code (`eval_topn`, `eval_cb`; densities arbitrary integers, frame skipped or not), then `mgau_norm`
and the score passes run: no `int16` store truncates and every senone score is in `[-255·(K-1)·F, B·F]` — the `hsorted`
hypothesis of `C18_semi_range` is discharged by `C18_topn_sorted`-type lemmas for the lists the code builds. -/
theorem C18_semi_frame_range {tab : Nat → Nat} (htab : ∀ d, tab d ≤ 255) {m : Mixw} {M B : Int}
    (hm : ∀ f cw s, 0 ≤ m.get false f cw s ∧ m.get false f cw s ≤ M) (hB : M + maxNegAscr ≤ B) (hB2 : 255 ≤ B)
    {K : Nat} (hK1 : 1 ≤ K) (nSen : Nat) (beams : List Int) (dens : Nat → Nat → Int) (nden : Nat) (skip : Bool)
    (t : List (List TopN)) (compall : Bool) (deltas : List Nat)
    (hshape : ∀ l ∈ (t.mapIdx fun f l => semiDist (dens f) nden skip l), l.length ≤ K)
    (hlo : -32768 ≤ (-(255 * ((K : Int) - 1))) * t.length) (hhi : B * t.length ≤ 32767)
    (hnd : (semiSens compall m.cb.isSome nSen deltas).Nodup) :
    (semiFrame tab m nSen beams dens nden skip t compall deltas).scores =
      semiEvalI tab m nSen beams (t.mapIdx fun f l => semiDist (dens f) nden skip l) compall deltas ∧
    ∀ x ∈ (semiFrame tab m nSen beams dens nden skip t compall deltas).scores,
      (-(255 * ((K : Int) - 1))) * t.length ≤ x ∧ x ≤ B * t.length := by
  have hlen : (t.mapIdx fun f l => semiDist (dens f) nden skip l).length = t.length := List.length_mapIdx
  have := C18_semi_range htab hm hB hB2 hK1 nSen beams (t.mapIdx fun f l => semiDist (dens f) nden skip l) compall deltas
    hshape (by
      intro l hl
      obtain ⟨f, hf, rfl⟩ := List.mem_mapIdx.1 hl
      unfold semiDist
      simp only
      split
      · exact head_is_max (evalTopn_sorted _ _)
      · exact head_is_max (evalCb_sorted _ _ (evalTopn_sorted _ _)))
    (by rw [hlen]; exact hlo) (by rw [hlen]; exact hhi) hnd
  rw [hlen] at this
  exact this

/-- **C18, ms_mgau: the final normalisation of `ms_cont_mgau_frame_eval`.**  For ANY non-empty list of evaluated senone
scores that are `int16` values (what `senone_eval` returns after its own clamp): the stored results are in
`[0, 32767]` and the best one is exactly 0. -/
theorem C18_ms_norm_range (l : List Int) (hne : l ≠ []) (h16 : ∀ x ∈ l, I16 x) :
    (∀ y ∈ msNorm l, 0 ≤ y ∧ y ≤ 32767) ∧ (0 : Int) ∈ msNorm l := by
  have hb := msBest_le l int32Max
  have hmem : msBest l ∈ l := by
    rcases hb.2.2 with h | h
    · exfalso
      obtain ⟨x, hx⟩ := List.exists_mem_of_ne_nil l hne
      have h1 := hb.1 x hx
      have h2 := (i16_iff x).1 (h16 x hx)
      rw [h, const_facts.2.1] at h1
      omega
    · exact h
  refine ⟨?_, ?_⟩
  · intro y hy
    obtain ⟨x, hx, rfl⟩ := List.mem_map.1 hy
    have h1 : msBest l ≤ x := hb.1 x hx
    have h2 := (i16_iff x).1 (h16 x hx)
    have h3 := (i16_iff _).1 (h16 _ hmem)
    have := clamp16_range (x - msBest l)
    unfold clamp16 at *
    split
    · omega
    · split <;> omega
  · refine List.mem_map.2 ⟨msBest l, hmem, ?_⟩
    simp [clamp16]

/-- the hypotheses of `C18_semi_range` for the classic semi-continuous shape (4 streams, top-4, byte weights:
`B = 255 + 96 = 351`): scores in `[-3060, 1404]`; and the frame count below which a path scored by s2_semi cannot even
reach the `WORST_SCORE` floor (no normalisation, so the BEST path loses up to `1404 + 255` per frame): 323 000 frames
= 53 minutes -/
theorem C18_semi_budget :
    (-32768 : Int) ≤ (-(255 * (((4 : Nat) : Int) - 1))) * ((4 : Nat) : Int) ∧ (351 : Int) * ((4 : Nat) : Int) ≤ 32767 ∧
    (255 : Int) + maxNegAscr ≤ 351 ∧ (323000 : Int) * (1404 + 255) ≤ -WORST := by decide

/-! ## B8: the shape hypotheses follow from the shape of the INPUT lists -/

/-- **C18, the top-N maintenance keeps the list length.**  `eval_topn` returns exactly as many entries as it got;
`eval_cb` never more than it got (for a non-empty list).  So "at most `K` entries per stream" is a property of the
allocation (`max_topn`), not of the data. -/
theorem C18_topn_length (score dens : Nat → Int) (nden : Nat) (l : List TopN) {K : Nat} (hK1 : 1 ≤ K) (hl : l.length ≤ K) :
    (evalTopn score l).length = l.length ∧ (evalCb dens nden (evalTopn score l)).length ≤ K := by
  refine ⟨evalTopn_length score l, ?_⟩
  have := evalCb_length_le dens nden (evalTopn score l)
  rw [evalTopn_length] at this
  omega

/-- **C18, a whole PTM frame for ANY densities, with the shape hypothesis on the input table only**
(`C18_frame_norm_range` with its `hshape` discharged by `C18_topn_length`). -/
theorem C18_frame_norm_range_of_input {F K : Nat} (hK1 : 1 ≤ K) (active : List Bool) (t : TopTab)
    (score dens : Nat → Nat → Nat → Int) (nden : Nat) (hshape : ∀ cb, Shape F K (t.getD cb [])) :
    Inv F K active (ptmNorm active
      (t.mapIdx fun cb cbt => cbt.mapIdx fun f l => evalCb (dens cb f) nden (evalTopn (score cb f) l))) := by
  apply C18_frame_norm_range active t score dens nden
  intro cb
  rw [getD_mapIdx_pair]
  have hsh := hshape cb
  rw [List.getD_eq_getElem?_getD] at hsh
  cases hc : t[cb]? with
  | none => exact shape_nil F K
  | some cbt =>
    rw [hc] at hsh
    simp only [Option.getD_some] at hsh
    simp only
    refine ⟨by rw [List.length_mapIdx]; exact hsh.1, ?_⟩
    intro l hl
    obtain ⟨f, hf, rfl⟩ := List.mem_mapIdx.1 hl
    exact (C18_topn_length (score cb f) (dens cb f) nden cbt[f] hK1 (hsh.2 _ (List.getElem_mem hf))).2

/-- **C18, a whole s2_semi frame for ANY densities, with the shape hypothesis on the input lists only.** -/
theorem C18_semi_frame_range_of_input {tab : Nat → Nat} (htab : ∀ d, tab d ≤ 255) {m : Mixw} {M B : Int}
    (hm : ∀ f cw s, 0 ≤ m.get false f cw s ∧ m.get false f cw s ≤ M) (hB : M + maxNegAscr ≤ B) (hB2 : 255 ≤ B)
    {K : Nat} (hK1 : 1 ≤ K) (nSen : Nat) (beams : List Int) (dens : Nat → Nat → Int) (nden : Nat) (skip : Bool)
    (t : List (List TopN)) (compall : Bool) (deltas : List Nat) (hshape : ∀ l ∈ t, l.length ≤ K)
    (hlo : -32768 ≤ (-(255 * ((K : Int) - 1))) * t.length) (hhi : B * t.length ≤ 32767)
    (hnd : (semiSens compall m.cb.isSome nSen deltas).Nodup) :
    ∀ x ∈ (semiFrame tab m nSen beams dens nden skip t compall deltas).scores,
      (-(255 * ((K : Int) - 1))) * t.length ≤ x ∧ x ≤ B * t.length := by
  refine (C18_semi_frame_range htab hm hB hB2 hK1 nSen beams dens nden skip t compall deltas ?_ hlo hhi hnd).2
  intro l hl
  obtain ⟨f, hf, rfl⟩ := List.mem_mapIdx.1 hl
  have hin := hshape t[f] (List.getElem_mem hf)
  unfold semiDist
  simp only
  split
  · rw [evalTopn_length]; exact hin
  · exact (C18_topn_length _ (dens f) nden t[f] hK1 hin).2

/-- the initial history of the s2_semi scorer has the shape the theorems ask for -/
example : ∀ l ∈ semiInit 3 4, l.length ≤ 4 := by decide

/-! ## B9: `fast_logmath_add` indexes a 256-byte table without a check -/

/-- **C18, the add-table index.**  `fast_logmath_add` (tied_mgau_common.h:100-117) reads `table[|x - y|]` with no bounds
check; the 8-bit table has exactly 256 bytes (`logmath_init`: "never smaller than 256 entries").  For a stream whose
`K = ws.length ≥ 2` weighted densities `mixw + score` lie in `[a, b]` and a table whose entries are at most `T`: EVERY
index the log-sum uses is in `[0, (b - a) + T·(K - 2)]` (the accumulator can sink by `T` per add below the smallest
term).  With `a = 0`, `b = M + MAX_NEG_ASCR`: in bounds for every audio iff `M + 96 + T·(K-2) ≤ 255`; for the bundled
models (`M = 158`, `T = 7`, top-4) this coarse bound is 268, so there the check evaluates the exact worst case over the
loaded weights instead (`addidx_bound`, 254) and records the largest index every real run used. -/
theorem C18_add_index_bound {tab : Nat → Nat} {T a b : Int} (hT : 0 ≤ T) (htab : ∀ d, (tab d : Int) ≤ T)
    (ws : List Int) (h : ∀ y ∈ ws, a ≤ y ∧ y ≤ b) :
    ∀ i ∈ fdenIdx tab ws, 0 ≤ i ∧ i ≤ (b - a) + T * ((ws.length - 2 : Nat) : Int) := by
  cases ws with
  | nil => intro i hi; simp [fdenIdx] at hi
  | cons w rest =>
    have hw := h w (by simp)
    intro i hi
    simp only [fdenIdx] at hi
    cases rest with
    | nil => simp at hi
    | cons y ys =>
      have := fdenIdx_loop (a := a) (b := b) hT htab ((y :: ys).length - 1) (y :: ys) (w, []) 0
        (by simp) (by simp only [Int.natCast_zero, Int.mul_zero]; omega) (fun z hz => h z (by simp [hz]))
        (by intro j hj; cases hj) i hi
      simpa using this

/-- the instance for the shape of the bundled models and the numbers the check reports -/
example : fdenIdx exTab [254, 0, 0, 0] = [254, 0, 7] ∧ fdenIdx exTab [0, 0, 0, 254] = [0, 7, 265] := by decide

/-! ## non-vacuity -/

/-- a 4-state left-to-right topology with one skip (2 → 4 = exit) -/
def exTp4 : Nat → Nat → Nat := fun i j =>
  if j = i then 20 else if j = i + 1 then 60 else if i = 2 ∧ j = 4 then 100 else 255

/-- a freshly entered multiplex 3-state HMM: the sequence id travels with the best path, scores are genuine -/
example :
    (hmm3MpxRun exTp (M3.init 7) [⟨some (0, 5), fun _ st => [12, 30, 40].getD st 0⟩,
      ⟨none, fun _ st => [0, 9, 20].getD st 0⟩, ⟨none, fun _ st => [0, 9, 20].getD st 0⟩]).1 =
      { h := { s0 := -72, s1 := -112, s2 := -161, out := -221, h0 := 5, h1 := 5, h2 := 5, hout := 5, best := -72 },
        i0 := 7, i1 := 7, i2 := 7 } := by decide

/-- any topology, the code as it is: an entry state at `WORST_SCORE` drops BELOW it (no floor), the next state is fed
from the floored `st_sen_scr` -/
example :
    (anytopoStep false false exTp4 (fun _ _ => -100) { (HA.clear 4 [0, 1, 2, 3]) with sc := [WORST, -5000, WORST, WORST] }).1.sc
      = [WORST - 120, -5120, -5160, WORST - 20] ∧
    (anytopoStep true false exTp4 (fun _ _ => -100) { (HA.clear 4 [0, 1, 2, 3]) with sc := [WORST, -5000, WORST, WORST] }).1.sc
      = [WORST - 20, -5120, -5160, WORST - 20] := by decide

example : FrameA.Ok 32767 ⟨some (0, 1), fun _ _ => -100⟩ := by
  have := worst_le_zero
  have hw : WORST ≤ -100 := by decide
  refine ⟨fun _ => (by show (-32767 : Int) ≤ -100 ∧ (-100 : Int) ≤ 0; decide),
    fun _ _ => (by show WORST ≤ -100 ∧ (-100 : Int) ≤ 0; exact ⟨hw, by decide⟩), ?_⟩
  intro s hi h
  simp only [Option.some.injEq, Prod.mk.injEq] at h
  obtain ⟨rfl, -⟩ := h
  exact ⟨this, Int.le_refl _⟩

/-- the renormalisation test with the constants of the source: fires just below `WORST_SCORE + MARGIN`, not at
`WORST_SCORE` itself, not above -/
example : renormFires (WORST + alignRenormMargin - 1) = true ∧ renormFires (WORST + alignRenormMargin) = false ∧
    renormFires WORST = false ∧ renormFires (-1000) = false := by decide

example : ((H3.clear.enter (-5) 3).normalize (WORST + 100)).1.s0 = -5 - (WORST + 100) ∧
    ((H3.clear.enter (-5) 3).normalize (WORST + 100)).1.s1 = WORST := by decide

/-- s2_semi does NOT normalise the best senone score to 0: two streams, top-2, three senones, all computed — the
smallest score is 27, not 0 (each stream's best density is at 0, the mixture weights are not) -/
example :
    (semiEval exTab { cb := none, w := [[[10, 40, 7], [90, 3, 159]], [[20, 20, 20], [30, 30, 30]]] } 3 [0, 0]
      [[⟨0, -3000000⟩, ⟨1, -3009000⟩], [⟨1, -100⟩, ⟨0, -5000⟩]] true []).scores = [30, 32, 27] ∧
    (semiEval exTab { cb := none, w := [[[10, 40, 7], [90, 3, 159]], [[20, 20, 20], [30, 30, 30]]] } 3 [0, 0]
      [[⟨0, -3000000⟩, ⟨1, -3009000⟩], [⟨1, -100⟩, ⟨0, -5000⟩]] true []).topn = [[⟨0, 0⟩, ⟨1, 9⟩], [⟨1, 0⟩, ⟨0, 4⟩]] := by
  decide

example : msNorm [120, -32768, 32767, 5] = [32767, 0, 32767, 32767] := by decide

/-- a two-phone alignment run with one renormalisation: the stale first phone ends far above 0, the live one at 0 -/
example :
    (alignRun (fun _ => exTp) [H3.clear.enter (-40) 0, H3.clear.enter (WORST + 1000) 1]
      [⟨some (WORST + 1000), [none, some ⟨none, 10, 10, 10⟩]⟩]).1.map (·.s0) = [-40 - (WORST + 1000), -30] ∧
    renorms [⟨some (WORST + 1000), [none, some ⟨none, 10, 10, 10⟩]⟩, ⟨none, []⟩] = 1 := by decide

end SSVerif.Ranges
