import SSVerif.Props.C16
import SSVerif.Proofs.Dict2pidBuild
import SSVerif.Proofs.LexFlatBridge
/-!
# C16 — the `dict2pid` tables the code builds return, through the lookup macros, exactly the directly looked-up triphone

`Props/C16.lean` proves that every stored row of the word-boundary tables is the row of direct lookups
(`C16_d2p_tables_exact`, with the side condition "the looked-up id is not `BAD_S3SSID`" on word-final reads).  Here the
statement is about **what the searches read through the macros** of `dict2pid.h`, for every dictionary, every history of
`decoder_add_word` calls, every word and every context phone, without a side condition on the looked-up value:

* `dict2pid_lrdiph_rc(d2p, b, l, r)`, `dict2pid_ldiph_lc(d2p, b, r, l)`, `dict2pid_internal(d2p, w, pos)` and
  `dict2pid_rssid(d2p, b, l)->ssid[dict2pid_rssid(d2p, b, l)->cimap[r]]` on the tables built by the model of
  `dict2pid_build` / `compress_table` / `dict2pid_add_word` equal `pid2ssid(phone_id_nearest(b, l, r, position))`,
  and the compressed read stays inside `[0, n_ssid)`, `n_ssid ≤ n_ci`, `cimap` has `n_ci` cells — `C16_d2p_macros_exact`;
* `mdefGood m` (decided by the c16 driver on the dumped real model definition, en-us and fr-fr) excludes `BAD_S3SSID`
  as a looked-up value — `C16_d2p_mdef_never_bad` — which is what makes the side condition of `C16_compress_lossless` a theorem;
* every `(b, l)` pair NOT needed by a word has `n_ssid = 0` exactly as the dense compression pass of the C code stores it
  (`C16_d2p_rssid_dense`, `C16_d2p_compress_all_bad`);
* in the vocabulary of C02's lextree theorem: the lextree inputs whose five `dict2pid` lookups are read from the
  model-built tables (`withD2p`) and the flat model whose direct lookup is the same model definition (`withMdef`) satisfy
  `LexFlat.WordLook` for every word of the dictionary and hence `LexFlat.LookAgree` — `C16_d2p_word_look`,
  `C16_d2p_look_agree`: the `dict2pid` clauses of `lexHypsB` are a theorem for model-built tables.

The model-built tables are compared cell by cell with the real ones (`tabs`, `intern` ops of the c16 check) after dictionary
loads and after every run-time addition.  The constants `Generated.d2pPopulateWrites…Sil` are regenerated from
`dict2pid.c`; the theorems below need them `false` (the D61 repair) and stop compiling when the source stores
single-phone-word ids into the silence rows again.
-/
namespace SSVerif.Dict
open SSVerif.HashTable (Key)
open SSVerif.Dict2pid
open SSVerif.LexFlat (WordLook LookAgree optIs)
open SSVerif.Generated.Search (wposSingle wposBegin wposInternal wposEnd senscrShift)

theorem d2pC16_silL_off (m : BinMdef) : silRowsL m = false := by simp [silRowsL, Generated.d2pPopulateWritesLdiphSil]
theorem d2pC16_silR_off (m : BinMdef) : silRowsR m = false := by simp [silRowsR, Generated.d2pPopulateWritesRdiphSil]

/-- what the four macros return for a word with pronunciation `p`, against the direct lookup -/
def MacrosExact (m : BinMdef) (t : Tabs) (p : List Nat) : Prop :=
  (p.length = 1 → ∀ l r, l < m.nCi → r < m.nCi → t.lrdiphRc (p.getD 0 0) l r = m.ssidOf (p.getD 0 0) l r posSingle) ∧
  (2 ≤ p.length → ∀ l, l < m.nCi → t.ldiphLc (p.getD 0 0) (p.getD 1 0) l = m.ssidOf (p.getD 0 0) l (p.getD 1 0) posBegin) ∧
  (∀ k, k < p.length - 2 → internal m p (k + 1) = m.ssidOf (p.getD (k + 1) 0) (p.getD k 0) (p.getD (k + 2) 0) posInternal) ∧
  (2 ≤ p.length →
    (t.rssidAt (p.getD (p.length - 1) 0) (p.getD (p.length - 2) 0)).cimap.length = m.nCi ∧
    0 < (t.rssidAt (p.getD (p.length - 1) 0) (p.getD (p.length - 2) 0)).ssid.length ∧
    (t.rssidAt (p.getD (p.length - 1) 0) (p.getD (p.length - 2) 0)).ssid.length ≤ m.nCi ∧
    ∀ rc, rc < m.nCi →
      t.rcMap (p.getD (p.length - 1) 0) (p.getD (p.length - 2) 0) rc <
        (t.rssidAt (p.getD (p.length - 1) 0) (p.getD (p.length - 2) 0)).ssid.length ∧
      t.rcSsid (p.getD (p.length - 1) 0) (p.getD (p.length - 2) 0) (t.rcMap (p.getD (p.length - 1) 0) (p.getD (p.length - 2) 0) rc) =
        m.ssidOf (p.getD (p.length - 1) 0) (p.getD (p.length - 2) 0) rc posEnd)

/-- a stored word-final row is the compressed row of direct lookups -/
theorem d2pC16_rssidAt_eq {m : BinMdef} {t : Tabs} (h : TabsOK m t) {e l2 : Nat}
    (hc : (t.rssid.lookup (e, l2)).isSome = true) : t.rssidAt e l2 = compressTable (rowEnd m e l2) := by
  cases hh : t.rssid.lookup (e, l2) with
  | none => rw [hh] at hc; cases hc
  | some x =>
    rcases h.r _ (lookup_mem hh) with e0 | ⟨f, _, _⟩
    · simp only at e0
      simp [Tabs.rssidAt, hh, e0]
    · rw [d2pC16_silR_off] at f; cases f

theorem d2pC16_macros {m : BinMdef} {t : Tabs} (g : MdefGood m) (h : TabsOK m t) {p : List Nat} (hc : CovT t p)
    (hlast : p ≠ [] → p.getD (p.length - 1) 0 < m.nCi) : MacrosExact m t p := by
  have hint : ∀ k, k < p.length - 2 →
      internal m p (k + 1) = m.ssidOf (p.getD (k + 1) 0) (p.getD k 0) (p.getD (k + 2) 0) posInternal := by
    intro k _; simp [internal]
  have hre := reads_exact h hc
  match p, hc, hlast, hint, hre with
  | [], _, _, hint, _ => exact ⟨by simp, by simp, hint, by simp⟩
  | [b], _, _, hint, hre =>
    refine ⟨fun _ l r hl hr => ?_, by simp, hint, by simp⟩
    simpa using hre l r hl hr
  | b :: r :: rest, hc, hlast', hint, hre =>
    have hlast := hlast' (by simp)
    refine ⟨by simp, fun _ l hl => ?_, hint, fun _ => ?_⟩
    · have := hre.1 (fun f => by rw [d2pC16_silL_off] at f; cases f) l hl
      simpa using this
    · have heq := d2pC16_rssidAt_eq h hc.2
      have hnci : 0 < m.nCi := Nat.lt_of_le_of_lt (Nat.zero_le _) hlast
      have hlen : (rowEnd m ((b :: r :: rest).getD ((b :: r :: rest).length - 1) 0)
          ((b :: r :: rest).getD ((b :: r :: rest).length - 2) 0)).length = m.nCi := by simp [rowEnd]
      have key := fun rc (hr : rc < m.nCi) =>
        C16_compress_lossless _ rc _ (rowEnd_get m ((b :: r :: rest).getD ((b :: r :: rest).length - 1) 0)
          ((b :: r :: rest).getD ((b :: r :: rest).length - 2) 0) rc hr) (ssidOf_ne_bad g hlast _ rc posEnd)
      rw [heq]
      refine ⟨?_, ?_, ?_, fun rc hr => ?_⟩
      · rw [(key 0 hnci).2.1, hlen]
      · exact Nat.lt_of_le_of_lt (Nat.zero_le _) (key 0 hnci).2.2.1
      · rw [← hlen]; exact (key 0 hnci).2.2.2
      · refine ⟨?_, ?_⟩
        · unfold Tabs.rcMap; rw [heq]; exact (key rc hr).2.2.1
        · unfold Tabs.rcSsid Tabs.rcMap; rw [heq]; exact (key rc hr).1

/-- the invariant of `C16_d2p_tables_exact`, exported: after any history every stored row is a row of direct lookups
and every word has its rows -/
theorem d2pC16_hist_inv (md : Mdef) (m : BinMdef) (d : Dict) (h : WF d) (adds : List (Key × Key)) :
    let s := adds.foldl (fun s a => (decoderAddWordT md m s a.1 a.2).1) (d, build m d)
    WF s.1 ∧ TabsOK m s.2 ∧ ∀ e ∈ s.1.words, CovT s.2 e.pron := by
  intro s
  suffices H : ∀ (adds : List (Key × Key)) (s0 : Dict × Tabs), WF s0.1 → TabsOK m s0.2 →
      (∀ e ∈ s0.1.words, CovT s0.2 e.pron) →
      let s1 := adds.foldl (fun s a => (decoderAddWordT md m s a.1 a.2).1) s0
      WF s1.1 ∧ TabsOK m s1.2 ∧ ∀ e ∈ s1.1.words, CovT s1.2 e.pron by
    obtain ⟨b1, b2⟩ := build_spec m d
    exact H adds (d, build m d) h b1 b2
  intro adds
  induction adds with
  | nil => intro s0 hw ht hc; exact ⟨hw, ht, hc⟩
  | cons a as ih =>
    intro s0 hw ht hc
    simp only [List.foldl_cons]
    refine ih _ ?_ ?_ ?_
    · unfold decoderAddWordT
      simp only
      split <;> exact wf_decoderAddWord hw md a.1 a.2
    · unfold decoderAddWordT
      simp only
      split
      · exact ht
      · exact (addWord_spec ht _).1
    · unfold decoderAddWordT
      simp only
      split
      · next hnone =>
        have := (C16_reject_is_noop_decoder hw md a.1 a.2).2 hnone
        intro en hen
        rw [this] at hen
        exact hc en hen
      · next i hsome =>
        rcases decoderAddWord_cases md s0.1 a.1 a.2 with e | ⟨pron, _, _, e⟩
        · rw [e] at hsome; cases hsome
        · have hr : dictAddWord s0.1 a.1 pron = ((dictAddWord s0.1 a.1 pron).1, some i) := by
            rw [e] at hsome; exact Prod.ext rfl hsome
          obtain ⟨hi, hlen, _, en, hen, _, hpr⟩ := C16_add_then_lookup hw hr
          simp only [e, hen, Option.map_some, Option.getD_some, hpr]
          obtain ⟨_, g, cnew⟩ := addWord_spec ht pron
          intro e' he'
          obtain ⟨j, hj⟩ := List.mem_iff_getElem?.1 he'
          by_cases hjn : j = i
          · subst hjn
            rw [hen] at hj; cases hj
            rw [hpr]; exact cnew
          · have hjlt : j < s0.1.words.length := by
              have : j < (dictAddWord s0.1 a.1 pron).1.words.length := by
                rcases List.getElem?_eq_some_iff.1 hj with ⟨hh, _⟩; exact hh
              omega
            have h0 : s0.1.words[j]? = some s0.1.words[j] := by simp [hjlt]
            obtain ⟨e'', he'', _, hp'', _⟩ := dictAddWord_old_entry hw a.1 pron h0
            rw [hj] at he''; cases he''
            rw [hp'']
            exact covT_grows g (hc _ (List.mem_iff_getElem?.2 ⟨j, h0⟩))

/-- **A good model definition never yields `BAD_S3SSID`.**  `mdefGood m` — every leaf of `cd_tree` holds a phone id that
has a senone-sequence id, so has every CI phone, and no stored id is `0xffff`; decided on the dumped real model by the
c16 driver — implies that `bin_mdef_pid2ssid(bin_mdef_phone_id_nearest(b, l, r, pos))` is a real id for every CI base
phone `b` and ALL `l`, `r`, `pos` (the `assert(IS_S3SSID(..))` of `populate_lrdiph` never fires, and the side condition of
`C16_compress_lossless` holds for every cell of every row the code compresses). -/
theorem C16_d2p_mdef_never_bad (m : BinMdef) (hg : mdefGood m = true) (b l r pos : Nat) (hb : b < m.nCi) :
    m.ssidOf b l r pos ≠ bad ∧ nearest m b l r pos < m.ssid.size :=
  ⟨ssidOf_ne_bad (mdefGood_iff hg) hb l r pos, nearest_lt (mdefGood_iff hg) hb l r pos⟩

/-- **The macro lookups return the directly looked-up triphone (all dictionaries, all histories, all words, all contexts).**
Start from any well-formed dictionary `d`, build the tables (`dict2pid_build`), perform any sequence of
`decoder_add_word` calls (accepted or rejected, in any order).  For every word `e` of the resulting dictionary whose last
phone is a CI phone of the model definition:
* one phone `b`: `dict2pid_lrdiph_rc(b, l, r) = pid2ssid(phone_id_nearest(b, l, r, SINGLE))` for all `l, r < n_ci`;
* two or more phones: `dict2pid_ldiph_lc(p₀, p₁, l) = pid2ssid(phone_id_nearest(p₀, l, p₁, BEGIN))` for all `l < n_ci`;
  `dict2pid_internal(w, k) = pid2ssid(phone_id_nearest(p_k, p_{k−1}, p_{k+1}, INTERNAL))` for `0 < k < n − 1`; and for
  `x = dict2pid_rssid(p_{n−1}, p_{n−2})`: `x.cimap` has `n_ci` cells, `0 < x.n_ssid ≤ n_ci`, and for all `r < n_ci`
  `x.cimap[r] < x.n_ssid` (the read is inside the allocated `ssid` array) and
  `x.ssid[x.cimap[r]] = pid2ssid(phone_id_nearest(p_{n−1}, p_{n−2}, r, END))` — compression loses nothing and the tables cover
  every pair some word needs. -/
theorem C16_d2p_macros_exact (md : Mdef) (m : BinMdef) (hg : mdefGood m = true) (d : Dict) (h : WF d) (adds : List (Key × Key)) :
    let s := adds.foldl (fun s a => (decoderAddWordT md m s a.1 a.2).1) (d, build m d)
    ∀ e ∈ s.1.words, e.pron.getD (e.pron.length - 1) 0 < m.nCi → MacrosExact m s.2 e.pron := by
  intro s e he hl
  obtain ⟨_, h1, h2⟩ := d2pC16_hist_inv md m d h adds
  exact d2pC16_macros (mdefGood_iff hg) h1 (h2 e he) (fun _ => hl)

/-- phones stay CI phones: `decoder_add_word` only adds pronunciations whose phones it found in the phone table -/
theorem d2pC16_phones_inv (md : Mdef) (m : BinMdef) (d : Dict) (h : WF d) (adds : List (Key × Key))
    (h0 : ∀ e ∈ d.words, ∀ p ∈ e.pron, p < md.ciphones.length) :
    let s := adds.foldl (fun s a => (decoderAddWordT md m s a.1 a.2).1) (d, build m d)
    ∀ e ∈ s.1.words, ∀ p ∈ e.pron, p < md.ciphones.length := by
  intro s
  suffices H : ∀ (adds : List (Key × Key)) (s0 : Dict × Tabs), WF s0.1 →
      (∀ e ∈ s0.1.words, ∀ p ∈ e.pron, p < md.ciphones.length) →
      let s1 := adds.foldl (fun s a => (decoderAddWordT md m s a.1 a.2).1) s0
      WF s1.1 ∧ ∀ e ∈ s1.1.words, ∀ p ∈ e.pron, p < md.ciphones.length from (H adds (d, build m d) h h0).2
  intro adds
  induction adds with
  | nil => intro s0 hw hc; exact ⟨hw, hc⟩
  | cons a as ih =>
    intro s0 hw hc
    simp only [List.foldl_cons]
    have hd : (decoderAddWordT md m s0 a.1 a.2).1.1 = (decoderAddWord md s0.1 a.1 a.2).1 := by
      unfold decoderAddWordT
      simp only
      split <;> rfl
    refine ih _ ?_ ?_
    · rw [hd]; exact wf_decoderAddWord hw md a.1 a.2
    · rw [hd]
      rcases decoderAddWord_cases md s0.1 a.1 a.2 with e | ⟨pron, hpp, _, e⟩
      · rw [e]; exact hc
      · rw [e]
        have hval : ∀ p ∈ pron, p < md.ciphones.length := (mapIds_names hpp).2
        cases hres : (dictAddWord s0.1 a.1 pron).2 with
        | none =>
          have := (C16_reject_is_noop hw a.1 pron).2 hres
          intro en hen
          rw [this.1] at hen
          exact hc en hen
        | some i =>
          have hr : dictAddWord s0.1 a.1 pron = ((dictAddWord s0.1 a.1 pron).1, some i) := Prod.ext rfl hres
          obtain ⟨hi, hlen, _, en, hen, _, hpr⟩ := C16_add_then_lookup hw hr
          intro e' he'
          obtain ⟨j, hj⟩ := List.mem_iff_getElem?.1 he'
          by_cases hjn : j = i
          · subst hjn
            rw [hen] at hj; cases hj
            rw [hpr]; exact hval
          · have hjlt : j < s0.1.words.length := by
              have : j < (dictAddWord s0.1 a.1 pron).1.words.length := by
                rcases List.getElem?_eq_some_iff.1 hj with ⟨hh, _⟩; exact hh
              omega
            have h0' : s0.1.words[j]? = some s0.1.words[j] := by simp [hjlt]
            obtain ⟨e'', he'', _, hp'', _⟩ := dictAddWord_old_entry hw a.1 pron h0'
            rw [hj] at he''; cases he''
            rw [hp'']
            exact hc _ (List.mem_iff_getElem?.2 ⟨j, h0'⟩)

/-- **The same without a hypothesis on the added words.**  When the phone table of the dictionary's model definition has
`n_ci` entries and the phones of the words present at `dict2pid_build` time are CI phones (both decided by the c16 driver
after `init`), then after ANY sequence of `decoder_add_word` calls every word of the dictionary — loaded or added, in any
order — has CI phones only and the macro reads for it are the direct lookups (`MacrosExact`). -/
theorem C16_d2p_macros_exact_api (md : Mdef) (m : BinMdef) (hg : mdefGood m = true) (hn : md.ciphones.length = m.nCi)
    (d : Dict) (h : WF d) (h0 : ∀ e ∈ d.words, ∀ p ∈ e.pron, p < m.nCi) (adds : List (Key × Key)) :
    let s := adds.foldl (fun s a => (decoderAddWordT md m s a.1 a.2).1) (d, build m d)
    ∀ e ∈ s.1.words, (∀ p ∈ e.pron, p < m.nCi) ∧ MacrosExact m s.2 e.pron := by
  intro s e he
  obtain ⟨_, h1, h2⟩ := d2pC16_hist_inv md m d h adds
  have hp : ∀ p ∈ e.pron, p < m.nCi := by
    have := d2pC16_phones_inv md m d h adds (by rw [hn]; exact h0) e he
    rw [hn] at this; exact this
  refine ⟨hp, d2pC16_macros (mdefGood_iff hg) h1 (h2 e he) (fun hne => ?_)⟩
  apply hp
  have : e.pron.length - 1 < e.pron.length := by
    cases hl : e.pron with
    | nil => exact absurd hl hne
    | cons _ _ => simp
  rw [List.getD_eq_getElem?_getD, List.getElem?_eq_getElem this]
  simp

/-- **Pairs no word needs.**  `compress_table` of a row that was never written (`n_ci` times `BAD_S3SSID`) stores no id:
`n_ssid = 0`, `cimap` all `0` — the C code then stores `{NULL, NULL, 0}`. -/
theorem C16_d2p_compress_all_bad (n : Nat) :
    compressTable (List.replicate n bad) = { ssid := [], cimap := List.replicate n 0 } := compress_all_bad n

/-- **The dense compression pass.**  `compress_right_context_tree` compresses `rdiph_rc[b][l]` for EVERY pair `(b, l)`;
the sparse tables of the model (`Build.finish`: only written rows) show the same `ssid` list / `n_ssid` for every pair — `0`
ids for a pair no word ends in — and, when `n_ssid > 0`, the same `cimap`. -/
theorem C16_d2p_rssid_dense (nCi : Nat) (s : Build) (b l : Nat) :
    (s.finish.rssidAt b l).ssid = (s.rssidDense nCi b l).ssid ∧
    ((s.finish.rssidAt b l).ssid ≠ [] → s.finish.rssidAt b l = s.rssidDense nCi b l) ∧
    ((s.rdiph.lookup (b, l)).isSome = false → (s.rssidDense nCi b l).ssid = []) := by
  refine ⟨(finish_dense nCi s b l).1, (finish_dense nCi s b l).2, fun hn => ?_⟩
  cases hh : s.rdiph.lookup (b, l) with
  | some x => rw [hh] at hn; cases hn
  | none => simp [Build.rssidDense, Build.denseRow, hh, compress_all_bad]

/-- **In the vocabulary of C02's lextree theorem: `WordLook` holds for model-built tables.**  `s` = (dictionary, tables)
after any history as above.  `li.withD2p` are lextree inputs whose five `dict2pid` lookups are the macro reads of the
model-built tables; `M.withMdef` is a flat model whose direct lookup is `pid2ssid(phone_id_nearest(..))` of the same model
definition.  For a word `wid` whose dictionary entry `(li.word wid).dictWid` has the pronunciation the flat model uses, whose
phones are CI phones, and for which the non-`dict2pid` clauses hold (filler flag, CI transition matrices, CI ssid of a
one-phone word — model-definition data read directly by both sides), ALL clauses of `LexFlat.WordLook` hold: the four
`dict2pid` clauses `single`, `begin_`, `internal`, `final` that `lexHypsB` evaluates per case are proved. -/
theorem C16_d2p_word_look (md : Mdef) (m : BinMdef) (hg : mdefGood m = true) (d : Dict) (h : WF d) (adds : List (Key × Key))
    (M : SSVerif.FlatNet.Model) (li : SSVerif.Search.LexIn) (wid : Nat) (wd : SSVerif.FlatNet.Word) (e : Entry) :
    let s := adds.foldl (fun s a => (decoderAddWordT md m s a.1 a.2).1) (d, build m d)
    li.sil = M.sil → li.sil < li.nCi → li.nCi = m.nCi →
    s.1.words[(li.word wid).dictWid]? = some e → e.pron = wd.pron → (∀ p ∈ wd.pron, p < m.nCi) →
    (li.word wid).dictFiller = wd.filler →
    (∀ k, k < wd.pron.length → optIs (M.ciTmat (wd.pron.getD k 0)) (li.tmat (wd.pron.getD k 0))) →
    (wd.pron.length = 1 → optIs (M.ciSsid (wd.pron.getD 0 0)) (li.ciSsid (wd.pron.getD 0 0))) →
    WordLook (withMdef M m) (withD2p li m s.1 s.2) wid wd := by
  intro s hsil hsilci hnci hw hp hph hf hct hcs
  have hmem : e ∈ s.1.words := List.mem_iff_getElem?.2 ⟨_, hw⟩
  have hpron : pronOf s.1 (li.word wid).dictWid = wd.pron := by simp [pronOf, hw, hp]
  have hlast : wd.pron ≠ [] → wd.pron.getD (wd.pron.length - 1) 0 < m.nCi := by
    intro hne
    apply hph
    have : wd.pron.length - 1 < wd.pron.length := by
      cases hl : wd.pron with
      | nil => exact absurd hl hne
      | cons _ _ => simp
    rw [List.getD_eq_getElem?_getD, List.getElem?_eq_getElem this]
    simp
  by_cases hne : wd.pron = []
  · refine ⟨hf, hct, hcs, ?_, ?_, ?_, ?_⟩ <;> simp [hne]
  have mac : MacrosExact m s.2 wd.pron := by
    have := C16_d2p_macros_exact md m hg d h adds e hmem (by rw [hp]; exact hlast hne)
    rw [hp] at this; exact this
  obtain ⟨m1, m2, m3, m4⟩ := mac
  refine ⟨hf, hct, hcs, ?_, ?_, ?_, ?_⟩
  · intro h1 l hl x hx
    cases hx
    show s.2.lrdiphRc _ l li.sil = _
    rw [hsil]
    exact m1 h1 l M.sil (hnci ▸ hl) (hnci ▸ hsil ▸ hsilci)
  · intro h2 l hl x hx
    cases hx
    exact m2 h2 l (hnci ▸ hl)
  · intro k hk x hx
    cases hx
    show internal m (pronOf s.1 (li.word wid).dictWid) (k + 1) = _
    rw [hpron]
    exact m3 k hk
  · intro h2 r hr x hx
    cases hx
    exact ((m4 h2).2.2.2 r (hnci ▸ hr)).2

/-- **…and hence `LookAgree`.**  With the same penalties and shift, and for every word on an arc of the flat model the
facts listed in `C16_d2p_word_look`, the model-built tables satisfy the hypothesis `LookAgree` of
`C02_lextree_paths_eq_flat_instances`: for tables built as `dict2pid.c` builds them, the agreement of the `dict2pid` lookups
with the direct model-definition lookups is a theorem, not a per-case observation. -/
theorem C16_d2p_look_agree (md : Mdef) (m : BinMdef) (hg : mdefGood m = true) (d : Dict) (h : WF d) (adds : List (Key × Key))
    (M : SSVerif.FlatNet.Model) (li : SSVerif.Search.LexIn) :
    let s := adds.foldl (fun s a => (decoderAddWordT md m s a.1 a.2).1) (d, build m d)
    li.wip = M.wip → li.pip = M.pip → li.shift = senscrShift →
    li.sil = M.sil → li.sil < li.nCi → li.nCi = m.nCi →
    (∀ a ∈ M.arcs, ∀ wid, a.wid = some wid → ∀ wd, M.word wid = some wd →
      (∃ e, s.1.words[(li.word wid).dictWid]? = some e ∧ e.pron = wd.pron) ∧ (∀ p ∈ wd.pron, p < m.nCi) ∧
      (li.word wid).dictFiller = wd.filler ∧
      (∀ k, k < wd.pron.length → optIs (M.ciTmat (wd.pron.getD k 0)) (li.tmat (wd.pron.getD k 0))) ∧
      (wd.pron.length = 1 → optIs (M.ciSsid (wd.pron.getD 0 0)) (li.ciSsid (wd.pron.getD 0 0)))) →
    LookAgree (withMdef M m) (withD2p li m s.1 s.2) := by
  intro s hwip hpip hshift hsil hsilci hnci hwords
  refine ⟨hwip, hpip, hshift, fun a ha wid hwid wd hwd => ?_⟩
  obtain ⟨⟨e, he, hp⟩, hph, hf, hct, hcs⟩ := hwords a ha wid hwid wd hwd
  exact C16_d2p_word_look md m hg d h adds M li wid wd e hsil hsilci hnci he hp hph hf hct hcs

theorem d2pC16_lookB_of_macros {m : BinMdef} {d : Dict} {t : Tabs} {sil dw : Nat} (hs : sil < m.nCi)
    (h : MacrosExact m t (pronOf d dw)) : d2pLookB m d t sil dw = true := by
  obtain ⟨m1, m2, m3, m4⟩ := h
  unfold d2pLookB
  simp only [Bool.and_eq_true, Bool.or_eq_true, List.all_eq_true, List.mem_range, beq_iff_eq, bne_iff_ne, ne_eq, decide_eq_true_eq]
  refine ⟨⟨⟨?_, ?_⟩, ?_⟩, ?_⟩
  · by_cases h1 : (pronOf d dw).length = 1
    · right; intro l hl; exact m1 h1 l sil hl hs
    · left; exact h1
  · by_cases h2 : (pronOf d dw).length < 2
    · left; exact h2
    · right; intro l hl; exact m2 (by omega) l hl
  · intro k hk; exact m3 k hk
  · by_cases h2 : (pronOf d dw).length < 2
    · left; exact h2
    · right; intro r hr; exact ((m4 (by omega)).2.2.2 r hr).2

/-- **The per-word check the driver evaluates is a theorem for model-built tables.**  `d2pLookB m d t sil dw` is the Bool the c16
driver computes in its `d2p` op for every dictionary word: the four `dict2pid` clauses of `WordLook` (single-phone block against
silence right context, word-initial row, word-internal positions, word-final compressed row) over all context phones.  After any
history it is `true` for every word id (ids outside the dictionary read an empty pronunciation). -/
theorem C16_d2p_lookB_holds (md : Mdef) (m : BinMdef) (hg : mdefGood m = true) (hn : md.ciphones.length = m.nCi)
    (d : Dict) (h : WF d) (h0 : ∀ e ∈ d.words, ∀ p ∈ e.pron, p < m.nCi) (adds : List (Key × Key)) (sil : Nat) (hs : sil < m.nCi) :
    let s := adds.foldl (fun s a => (decoderAddWordT md m s a.1 a.2).1) (d, build m d)
    ∀ dw, d2pLookB m s.1 s.2 sil dw = true := by
  intro s dw
  apply d2pC16_lookB_of_macros hs
  cases hw : s.1.words[dw]? with
  | none =>
    have : pronOf s.1 dw = [] := by simp [pronOf, hw]
    rw [this]
    exact ⟨by simp, by simp, by simp, by simp⟩
  | some e =>
    have : pronOf s.1 dw = e.pron := by simp [pronOf, hw]
    rw [this]
    exact (C16_d2p_macros_exact_api md m hg hn d h h0 adds e (List.mem_iff_getElem?.2 ⟨dw, hw⟩)).2

/-- **The bit-vector index of `dict2pid_build` identifies the pair.**  The three bit vectors are indexed by
`b * n_ci + r`; the model keys its "seen" lists by the pair `(b, r)`.  For phones below `n_ci` the index determines the
pair, so the two bookkeepings mark the same diphones. -/
theorem C16_d2p_bitvec_index_inj (n b r b' r' : Nat) (hr : r < n) (hr' : r' < n) (h : b * n + r = b' * n + r') :
    b = b' ∧ r = r' := by
  have hn : 0 < n := by omega
  have h1 : (b * n + r) / n = b := by
    rw [Nat.add_comm, Nat.add_mul_div_right _ _ hn, Nat.div_eq_of_lt hr]; simp
  have h2 : (b' * n + r') / n = b' := by
    rw [Nat.add_comm, Nat.add_mul_div_right _ _ hn, Nat.div_eq_of_lt hr']; simp
  have hb : b = b' := by rw [← h1, ← h2, h]
  subst hb
  exact ⟨rfl, by omega⟩

example : (3 * 42 + 7 = 3 * 42 + 7) → (3 = 3 ∧ 7 = 7) := C16_d2p_bitvec_index_inj 42 3 7 3 7 (by decide) (by decide)

/-! ### non-vacuity: the two-phone model of `Props/C16.lean` (0 = SIL, a filler; 1 = A; triphones A(SIL,SIL) at BEGIN and SINGLE) -/

private def tiny2 : BinMdef :=
  { nCi := 2, sil := 0, filler := #[true, false],
    tree := #[⟨0, 0, -1⟩, ⟨1, 1, 4⟩, ⟨2, 0, -1⟩, ⟨3, 1, 7⟩,
              ⟨1, 1, 5⟩, ⟨0, 1, 6⟩, ⟨0, 0, 2⟩,
              ⟨1, 1, 8⟩, ⟨0, 1, 9⟩, ⟨0, 0, 3⟩],
    ssid := #[10, 11, 12, 13] }

private def md2 : Mdef := ⟨[[83], [65]], 0⟩
/-- `a` = A (one phone), `b` = A SIL A (three phones) loaded; `c` = A A added at run time (its final pair (A, A) is new,
its initial pair (A, A) too), then `e` = SIL A A A (final pair not new) -/
private def hist2 : Dict × Tabs :=
  let d0 := (run md2 (Dict.empty false 4) [.dadd [97] [1], .dadd [98] [1, 0, 1]]).1
  [(([99] : Key), ([65, 32, 65] : Key)), ([101], [83, 32, 65, 32, 65, 32, 65])].foldl
    (fun s a => (decoderAddWordT md2 tiny2 s a.1 a.2).1) (d0, build tiny2 d0)

-- the leaves with pid -1 are not phone ids: `mdefGood` is about leaves reached as `nDown = 0` with `c ≥ 0` … the tiny model
-- has two `-1` leaves, whose `toNat` is 0 < 4
example : mdefGood tiny2 = true := by decide

example : hist2.1.words.map (·.pron) = [[1], [1, 0, 1], [1, 1], [0, 1, 1, 1]] := by decide

-- the four words through the decidable form of the macro clauses; the run-time rows exist and are compressed
example : (List.range 4).all (fun dw => d2pLookB tiny2 hist2.1 hist2.2 0 dw) = true ∧
    hist2.2.rssidAt 1 1 = { ssid := [11], cimap := [0, 0] } ∧ hist2.2.rssidAt 1 0 = { ssid := [12], cimap := [0, 0] } ∧
    (hist2.2.rssidAt 0 1).ssid = [] ∧ hist2.2.ldiphLc 1 1 0 = 11 ∧ hist2.2.ldiphLc 0 1 1 = 10 := by decide

example := C16_d2p_macros_exact md2 tiny2 (by decide) (run md2 (Dict.empty false 4) [.dadd [97] [1], .dadd [98] [1, 0, 1]]).1
example := C16_d2p_macros_exact_api md2 tiny2 (by decide) (by decide) (run md2 (Dict.empty false 4) [.dadd [97] [1], .dadd [98] [1, 0, 1]]).1

end SSVerif.Dict
