import SSVerif.Props.C12Prune
import SSVerif.Props.C12Round
/-!
# C12 on pruned lattices, with the integer posteriors of the model

`Props/C12Prune.lean` holds for every posterior function.  Here the posterior is the one the model computes
(`alphaInt + betaInt − normInt` with the decoder's log-add table, compared exactly with the C values by the C12
check): by `C12_int_link_posterior_ge_path_posterior` a link's posterior is at least the posterior of every path
through it, so a path whose own posterior is not below the beam loses no link.
-/
namespace SSVerif.Lattice
open SSVerif.Nfa SSVerif.LogAdd Prune

variable {G : Nfa} {L : Lat}

theorem Prune.path_split {u v : Nat} {r : List Link} (h : Path L u r v) {l : Link} (hl : l ∈ r) :
    ∃ p q, r = p ++ q ∧ p.getLast? = some l ∧ Path L u p l.dst ∧ Path L l.dst q v := by
  induction h with
  | nil => cases hl
  | cons hm hs tail ih =>
    rename_i u x xs v
    rcases List.mem_cons.1 hl with rfl | hl
    · exact ⟨[l], xs, rfl, rfl, .cons hm hs (.nil _), tail⟩
    · obtain ⟨p, q, e, hlast, hp, hq⟩ := ih hl
      have hne : p ≠ [] := fun h => by rw [h] at hlast; cases hlast
      refine ⟨x :: p, q, by rw [e]; rfl, ?_, .cons hm hs hp, hq⟩
      rw [List.getLast?_cons_of_ne_nil hne]
      exact hlast

/-- **C12 prune, a path above the beam survives.**  With the model's integer posteriors
`post l = alpha l + beta l − norm`, every start→end path `r` whose own posterior `joint r − norm` (what
`lattice_posterior` returns for the best path) is not below the beam keeps all its links: it is, renumbered, a path
of the pruned lattice.  In particular `lattice_posterior_prune(dag, beam)` with `beam ≤ lattice_posterior(dag)` never
removes the best path. -/
theorem C12_prune_path_above_beam_survives (ok : LatticeOK G L) (sc : Link → Int) {KB : Nat} (hr : RoundHyps L sc KB)
    {E' : Link → Nat} (hE' : BudB L E') (hKB : ∀ l ∈ L.links, E' l ≤ KB) (ents : List Link) (beam : Int)
    (r : List Link) (hp : Path L L.start r L.final)
    (hb : beam ≤ jointInt (decP sc) r - normInt (decP sc) (alphaInt (decP sc) L) ents) :
    let post : Link → Int := fun l =>
      alphaInt (decP sc) L l + betaInt (decP sc) L l - normInt (decP sc) (alphaInt (decP sc) L) ents
    (∀ l ∈ r, beam ≤ post l) ∧
    Path (posteriorPrune L post beam).1 (posteriorPrune L post beam).1.start
      (r.map (renumLink (keepOrder L post beam))) (posteriorPrune L post beam).1.final := by
  intro post
  have hall : ∀ l ∈ r, beam ≤ post l := by
    intro l hl
    obtain ⟨p, q, e, hlast, hp1, hq1⟩ := Prune.path_split hp hl
    have := C12_int_link_posterior_ge_path_posterior ok sc hr hE' hKB ents l (hp.mem l hl) p q hp1 hlast hq1
    rw [← e] at this
    exact Int.le_trans hb this
  exact ⟨hall, path_image ok (path_to_S ok hp hall) ⟨[], .nil _⟩ ⟨[], .nil _⟩⟩

end SSVerif.Lattice
