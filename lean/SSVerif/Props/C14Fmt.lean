import SSVerif.Model.JsonFmt3
import SSVerif.Proofs.JsonFmt3Valid
import SSVerif.Proofs.Dbl
import SSVerif.Proofs.DblExact
import SSVerif.Proofs.DblMono
import SSVerif.Proofs.DblBudget
import SSVerif.Props.C14
/-!
# C14, the decimal rendering — `%.3f` as a proved function instead of an observed parameter

`Props/C14.lean` takes `snprintf`'s rendering of the `%.3f` arguments as a parameter `Fmt` with one assumed law
(`numLen a = (num a).length`) and states validity under the hypothesis `NumOK` ("`%.3f` renders a JSON number").
This file removes both assumptions for the rendering glibc actually performs: `Fmt3.fmt3 neg m e` is `%.3f` of the
finite double `(-1)^neg · m · 2^e` (exact value, three decimals, round-half-to-even, sign printed whenever the sign bit
is set, every integer digit, no exponent form), `Fmt3.fmtBits b` extends it to every 64-bit pattern (`inf`, `-inf`,
`nan`, `-nan`).  The model is tied to the real `snprintf` on every run (thousands of bit patterns, and every number
inside every line `decoder_result_json` returned, compared as text).

Property theorems only; lemmas are in `Proofs/Fmt3.lean`.
-/
namespace SSVerif.Json
open SSVerif.Fmt3

/-- **`%.3f` of a finite double is a JSON number.**  For every sign, mantissa and exponent — zero, negative zero,
denormals, `1e300` with its 301 integer digits — the rendering is accepted by the number recogniser of
`Model/JsonParse.lean` (`-? (0 | [1-9][0-9]*) . [0-9]+`: no leading zeros, no exponent, no `+`, no bare `.`). -/
theorem C14_fmt3_is_json_number (neg : Bool) (m : Nat) (e : Int) : isJsonNumber (fmt3 neg m e) = true :=
  fmt3_json neg m e

/-- **… and of nothing else.**  For a 64-bit pattern `b` the text `%.3f` prints is a JSON number exactly when the
double is finite; for infinities and NaNs it is `inf`, `-inf`, `nan` or `-nan`, which the recogniser rejects.  So a
line is valid exactly when no non-finite value reaches `format_entry` (see `C14_args_finite`). -/
theorem C14_fmtBits_json_iff_finite (b : Nat) : isJsonNumber (fmtBits b) = true ↔ isFiniteBits b = true := by
  unfold fmtBits isFiniteBits
  cases h : ofBits b with
  | some x => obtain ⟨neg, m, e⟩ := x; simp [fmt3_json]
  | none =>
    by_cases h1 : b / 2 ^ 63 % 2 = 1 <;> by_cases h2 : b % 2 ^ 52 = 0 <;> simp [h1, h2] <;> decide

/-- **The rendered decimal is the exact value rounded to thousandths, ties to even.**  Reading the text back
(`readMilli`: sign, and the digits without the point as a number of thousandths `n`) gives the sign bit and an `n`
with `|1000·|x| − n| ≤ 1/2`, where an exact half is only ever resolved to an even `n`; `n` is the only number with
that property.  Cross-multiplied over the naturals, with `1000·|x| = num/den = (scaled m e).1 / (scaled m e).2`
(`IsRNE num den n` is `2·n·den ≤ 2·num + den ∧ 2·num ≤ 2·n·den + den ∧ (equality in either → n even)`).
In particular for `e ≥ 0` the value is an integer and is printed exactly, and for `e = −k` the error bound reads
`2·|n·2^k − 1000·m| ≤ 2^k`, i.e. `|x − n/1000| ≤ 1/2000`. -/
theorem C14_fmt3_close (neg : Bool) (m : Nat) (e : Int) :
    ∃ n, readMilli (fmt3 neg m e) = some (neg, n) ∧
      IsRNE (scaled m e).1 (scaled m e).2 n ∧ (∀ n', IsRNE (scaled m e).1 (scaled m e).2 n' → n' = n) ∧
      (∀ k : Nat, e = (k : Int) → n = 1000 * m * 2 ^ k) ∧
      (∀ k : Nat, e = -(k : Int) → 2 * (n * 2 ^ k) ≤ 2 * (1000 * m) + 2 ^ k ∧ 2 * (1000 * m) ≤ 2 * (n * 2 ^ k) + 2 ^ k) := by
  have hspec := rne_spec (scaled m e).1 (scaled m e).2 (scaled_den_pos m e)
  refine ⟨milli m e, readMilli_fmt3 neg m e, hspec, ?_, ?_, ?_⟩
  · intro n' h'
    exact IsRNE_unique (scaled_den_pos m e) h' hspec
  · intro k hk
    subst hk
    have : scaled m (k : Int) = (1000 * m * 2 ^ k, 1) := rfl
    unfold milli; rw [this]
    exact rne_one _
  · intro k hk
    subst hk
    cases k with
    | zero =>
      have : scaled m (-((0 : Nat) : Int)) = (1000 * m * 2 ^ 0, 1) := rfl
      unfold milli; rw [this]
      dsimp only
      rw [rne_one]; omega
    | succ k' =>
      have : scaled m (-((k' + 1 : Nat) : Int)) = (1000 * m, 2 ^ (k' + 1)) := rfl
      unfold milli IsRNE at *
      rw [this] at hspec ⊢
      exact ⟨hspec.1, hspec.2.1⟩

/-- **Rendering is monotone.**  If `x ≤ y` as exact values (`dle`: comparison of the two dyadic rationals by
cross-multiplication, `−0` and `+0` equal), the decimal printed for `x` is at most the decimal printed for `y`
(as signed numbers of thousandths read back from the two texts).  So the `b` fields of successive segments never go
backwards when the frame indices do not. -/
theorem C14_fmt3_monotone (x y : Bool × Nat × Int) (h : dle x y) :
    ∃ nx ny, readMilli (fmt3 x.1 x.2.1 x.2.2) = some (x.1, nx) ∧ readMilli (fmt3 y.1 y.2.1 y.2.2) = some (y.1, ny) ∧
      (if x.1 then -(nx : Int) else nx) ≤ (if y.1 then -(ny : Int) else ny) :=
  ⟨_, _, readMilli_fmt3 _ _ _, readMilli_fmt3 _ _ _, smilli_mono x y h⟩

/-- **The sizing pass counts exactly the bytes the writing pass produces.**  `lenBits b` is the count
`snprintf(NULL, 0, "%.3f", x)` returns — sign, number of integer digits found by repeated division, point, three
decimals; `3`/`4` for `inf`/`nan` with sign — computed without building the text; it equals the length of the text for
every bit pattern.  This is the law `Fmt.numLen_eq` that `Props/C14.lean` assumes: for `fmtOf` it is a theorem. -/
theorem C14_fmt3_len (b : Nat) : (fmtBits b).length = lenBits b := length_fmtBits b

/-- for finite doubles: sign + integer digits + `.ddd` -/
theorem C14_fmt3_len_finite (neg : Bool) (m : Nat) (e : Int) :
    (fmt3 neg m e).length = (if neg then 1 else 0) + ndig (milli m e / 1000) + 4 := length_fmt3 neg m e

/-- `NumOK` for the instantiated formatter is finiteness of the argument values -/
private theorem numOK_fmtOf (val : Num → Nat) (h : ∀ a, isFiniteBits (val a) = true) : NumOK (fmtOf val) :=
  fun a => (C14_fmtBits_json_iff_finite (val a)).mpr (h a)

private theorem finite_valOfTable (t : List (Num × Nat)) (h : (t.all fun kv => isFiniteBits kv.2) = true) (a : Num) :
    isFiniteBits (valOfTable t a) = true := by
  unfold valOfTable
  cases hf : t.find? (fun kv => kv.1 = a) with
  | none => simp; decide
  | some kv =>
    simp only [Option.map_some, Option.getD_some]
    exact (List.all_eq_true.mp h) kv (List.mem_of_find?_eq_some hf)

/-- **C14 validity without an assumption about libc.**  With `%.3f` instantiated by the exact rendering: if every
`double` handed to `format_entry` is finite, then whenever `decoder_result_json` returns a line, that line is accepted
by the recogniser as one JSON object followed by one newline, denotes exactly the tree of hypothesis / segment /
alignment records whose numbers are the exact three-decimal roundings of those doubles, and is one byte shorter than
the block allocated for it.  (`val a` = bit pattern of the double passed for the symbolic argument `a`.) -/
theorem C14_result_json_valid_fmt3 (val : Num → Nat) (hfin : ∀ a, isFiniteBits (val a) = true)
    (r : Result) (level : Int) (w : Bytes) (hw : write (fmtOf val) r level = some w) :
    parseLine w = some (tree (fmtOf val) r level) ∧
    ∃ n, measure (fmtOf val) r level = some n ∧ (w.length : Int) + 1 = n := by
  have hn := numOK_fmtOf val hfin
  refine ⟨C14_json_valid (fmtOf val) hn r level w hw, ?_⟩
  obtain ⟨n, hm⟩ : ∃ n, measure (fmtOf val) r level = some n := by
    unfold write at hw; unfold measure
    cases hr : resultJson (fmtOf val) r level with
    | none => rw [hr] at hw; cases hw
    | some o => exact ⟨_, rfl⟩
  exact ⟨n, hm, (C14_strlen_is_alloc (fmtOf val) hn r level w n hw hm).1⟩

/-- the same for a finite table of argument values as dumped from the real decoder: the hypothesis is the decidable
check `t.all finite`, evaluated by the driver on every dumped result -/
theorem C14_result_json_valid_fmt3_table (t : List (Num × Nat)) (hfin : (t.all fun kv => isFiniteBits kv.2) = true)
    (r : Result) (level : Int) (w : Bytes) (hw : write (fmtOf (valOfTable t)) r level = some w) :
    parseLine w = some (tree (fmtOf (valOfTable t)) r level) ∧
    ∃ n, measure (fmtOf (valOfTable t)) r level = some n ∧ (w.length : Int) + 1 = n :=
  C14_result_json_valid_fmt3 _ (finite_valOfTable t hfin) r level w hw

/-- the two passes agree for the instantiated formatter with **no** hypothesis at all (also when a value is not
finite: the line is then not JSON, but it still fits its buffer exactly) -/
theorem C14_two_pass_agree_fmt3 (val : Num → Nat) (r : Result) (level : Int) (o : Out)
    (h : resultJson (fmtOf val) r level = some o) :
    o.dryOk = true ∧ o.mem.ok = true ∧ (o.mem.bytes.length : Int) = o.alloc :=
  let ⟨a, b, c, _⟩ := C14_two_pass_agree (fmtOf val) r level o h
  ⟨a, b, c⟩

/-- **When the repaired function returns `NULL`** (`resultJsonD`, the model with repair D80): exactly when the start
offset is not a finite number, or an alignment level is requested and there is no alignment. -/
theorem C14_null_iff_D80 (start : Nat) (prob : Int → Nat) (r : Result) (level : Int) :
    resultJsonD start prob r level = none ↔ (isFiniteBits start = false ∨ (level ≠ 0 ∧ r.align = none)) := by
  unfold resultJsonD
  cases hs : isFiniteBits start with
  | false => simp
  | true => simp [C14_null_iff]

/-- **C14 for the repaired function, with the doubles computed, not assumed.**  `start` is the bit pattern of the
caller's offset (any of the 2^64), `prob logp` the bit pattern of `logmath_exp(lmath, logp)`; the times and durations
are the IEEE doubles `start + (double)f / frate` and `(double)n / frate` of `Model/Dbl.lean`.  If every one of the
doubles that occur in this result (`args r level`: three per record) is finite — a decidable condition that the driver
evaluates on every result dumped from the real decoder — then a returned line: raised no flag in either pass, fills
its block exactly (`strlen + 1 = allocation`), is accepted by the recogniser as one JSON object followed by one
newline, and denotes exactly the tree of hypothesis / segment / alignment records whose numbers are the
three-decimal half-even roundings (`fmtBits`) of those doubles. -/
theorem C14_result_json_valid_D80 (start : Nat) (prob : Int → Nat) (r : Result) (level : Int)
    (hfin : ∀ a ∈ args r level, isFiniteBits (valOf start prob a) = true) (o : Out)
    (ho : resultJsonD start prob r level = some o) :
    o.dryOk = true ∧ o.mem.ok = true ∧ (o.mem.bytes.length : Int) = o.alloc ∧
    ((cstr o.mem.bytes).length : Int) + 1 = o.alloc ∧
    parseLine (cstr o.mem.bytes) = some (tree (fmtOf (valOf start prob)) r level) := by
  unfold resultJsonD at ho
  cases hs : isFiniteBits start with
  | false => rw [hs] at ho; simp at ho
  | true =>
    rw [hs] at ho
    simp only [if_true] at ho
    have hwf := wf_tree_local (fmtOf (valOf start prob)) r level
      (fun a ha => (C14_fmtBits_json_iff_finite _).mpr (hfin a ha))
    obtain ⟨h1, h2, h3, h4, _, h6⟩ := json_valid_of_wf _ r level hwf o ho
    exact ⟨h1, h2, h3, h4, h6⟩

/-- **The time fields are always finite doubles.**  For a finite start offset — any finite double: `1e300`,
denormals, `-0.0` — every frame rate `≥ 1` and every C `int` frame number or count, the doubles
`start + (double)f / frate` and `(double)n / frate` computed by the IEEE model (`Model/Dbl.lean`: each operation
rounds the exact rational result once, to nearest, ties to even, with denormals and overflow) are finite: the division
result has magnitude at most `2^31`, and `DBL_MAX + 2^31` is below the overflow threshold `2^1024 − 2^970`.  Together
with a finite `logmath_exp` value every argument handed to `%.3f` is finite. -/
theorem C14_args_finite (start : Nat) (prob : Int → Nat) (hs : isFiniteBits start = true) (a : Num)
    (h : argOK prob a = true) : isFiniteBits (valOf start prob a) = true := by
  cases a with
  | start => exact hs
  | time f fr =>
    simp only [argOK, Bool.and_eq_true, decide_eq_true_eq] at h
    exact SSVerif.Dbl.timeBits_finite start f fr hs h.1 h.2
  | ratio n fr =>
    simp only [argOK, Bool.and_eq_true, decide_eq_true_eq] at h
    exact SSVerif.Dbl.ratioBits_finite n fr h.1 h.2
  | prob p => exact h

/-- **C14 for every start offset and every frame rate.**  The repaired `decoder_result_json` (D13, D14, D80) on any
64-bit pattern as start offset: if the frame rate is at least 1, the frame numbers are C `int`s and the `logmath_exp`
values are finite (`argOK` on the arguments that occur — evaluated by the driver on every dumped result), then a
returned line raised no flag in either pass, fills its block exactly, parses as one JSON object plus one newline and
denotes the prescribed tree, whose numbers are the exact half-even three-decimal renderings of the IEEE doubles
`start`, `start + (double)f / frate`, `(double)n / frate`, `exp(logp)`.  No assumption about `snprintf` or about the
values of the doubles is left; `NULL` is returned exactly in the cases of `C14_null_iff_D80`. -/
theorem C14_result_json_valid_every_offset (start : Nat) (prob : Int → Nat) (r : Result) (level : Int)
    (hok : ∀ a ∈ args r level, argOK prob a = true) (o : Out)
    (ho : resultJsonD start prob r level = some o) :
    o.dryOk = true ∧ o.mem.ok = true ∧ (o.mem.bytes.length : Int) = o.alloc ∧
    ((cstr o.mem.bytes).length : Int) + 1 = o.alloc ∧
    parseLine (cstr o.mem.bytes) = some (tree (fmtOf (valOf start prob)) r level) := by
  have hs : isFiniteBits start = true := by
    cases h : isFiniteBits start with
    | true => rfl
    | false => unfold resultJsonD at ho; rw [h] at ho; simp at ho
  exact C14_result_json_valid_D80 start prob r level (fun a ha => C14_args_finite start prob hs a (hok a ha)) o ho

/-- **Which double each time field renders** (by definition of the instantiated model, tied to the machine
arithmetic on every run): the `b` member of a record is `%.3f` of the IEEE sum of the start offset and the IEEE
quotient frame / frame rate; the `d` member is `%.3f` of the IEEE quotient count / frame rate. -/
theorem C14_time_field_exact (start : Nat) (prob : Int → Nat) (f n fr : Int) :
    (fmtOf (valOf start prob)).num (.time f fr) = fmtBits (SSVerif.Dbl.addBits start (SSVerif.Dbl.divInt f fr)) ∧
    (fmtOf (valOf start prob)).num (.ratio n fr) = fmtBits (SSVerif.Dbl.divInt n fr) := ⟨rfl, rfl⟩

/-- **The duration field is exact.**  For every frame count `n` (a non-negative C `int`) and frame rate `fr ≥ 1`
such that `n/fr` seconds is a whole number `k` of milliseconds (`1000·n = k·fr` — every count at the frame rates 100,
125, 50, 200, 250, 500, 1000, …), the text printed for `"d"` is exactly the decimal expansion of `n/fr`: the digits of
`k / 1000`, a point, the three digits of `k % 1000`.  Both roundings (the division to a double, the double to three
decimals) are proved not to disturb it: the double is within `2^-22` of `k/1000`. -/
theorem C14_duration_field_exact (start : Nat) (prob : Int → Nat) (n fr k : Nat) (hfr : 1 ≤ fr) (hn : n ≤ 2 ^ 31)
    (hk : 1000 * n = k * fr) :
    (fmtOf (valOf start prob)).num (.ratio (n : Int) (fr : Int)) = dec (k / 1000) ++ 46 :: pad3 (k % 1000) :=
  SSVerif.Dbl.fmt_ratio_exact n fr k hfr hn hk

/-- **The begin field is exact for a zero start offset.**  With `start = +0.0` (bit pattern 0, the usual call
`decoder_result_json(d, 0, level)`), a non-negative frame number `f` and a frame rate `fr ≥ 1` with `f/fr` a whole
number `k` of milliseconds, the text printed for `"b"` is exactly the decimal expansion of `f/fr`: adding `+0.0`
returns the same double (`addBits_zero_roundPos`) and the two roundings do not disturb the value. -/
theorem C14_begin_field_exact_zero_start (prob : Int → Nat) (f fr k : Nat) (hfr : 1 ≤ fr) (hf : f ≤ 2 ^ 31)
    (hk : 1000 * f = k * fr) :
    (fmtOf (valOf 0 prob)).num (.time (f : Int) (fr : Int)) = dec (k / 1000) ++ 46 :: pad3 (k % 1000) :=
  SSVerif.Dbl.fmt_time_zero_exact f fr k hfr hf hk

/-- **The line says what the iterators say, in doubles.**  Under the hypotheses of
`C14_result_json_valid_every_offset`, the object a returned line denotes has exactly the members
`b` = `%.3f` of the start offset, `d` = `%.3f` of the IEEE quotient `n_frames / frate`, `p` = `%.3f` of
`logmath_exp(decoder_prob)`, `t` = the hypothesis string (empty for `NULL`), and `w`; at level 0 `w` lists, in order,
one object per segment of `decoder_seg_iter` with `b` = `%.3f` of the IEEE double `start + (double)sf / frate`,
`d` = `%.3f` of `(double)(ef + 1 − sf) / frate`, `p` = `%.3f` of `logmath_exp(prob)`, `t` = the word; at the other
levels `w` is the alignment tree `items` (words > phones > states, same four members each, from
`alignment_iter_seg`).  `%.3f` is `fmtBits`: the exact value to three decimals, half to even. -/
theorem C14_json_says_iterators_fmt3 (start : Nat) (prob : Int → Nat) (r : Result) (level : Int)
    (hok : ∀ a ∈ args r level, argOK prob a = true) (o : Out)
    (ho : resultJsonD start prob r level = some o) :
    ∃ ws : List JV,
      parseLine (cstr o.mem.bytes) = some (.obj (
        [([98], .num (fmtBits start)), ([100], .num (fmtBits (SSVerif.Dbl.ratioBits r.nframes r.frate))),
         ([112], .num (fmtBits (prob r.prob))), ([116], .str (r.hyp.getD []))] ++ [([119], .arr ws)])) ∧
      (level = 0 → ws = r.segs.map fun s => .obj
        [([98], .num (fmtBits (SSVerif.Dbl.timeBits start s.sf r.frate))),
         ([100], .num (fmtBits (SSVerif.Dbl.ratioBits (s.ef + 1 - s.sf) r.frate))),
         ([112], .num (fmtBits (prob s.prob))), ([116], .str (s.word.getD []))]) ∧
      (level ≠ 0 → ws = items (fmtOf (valOf start prob)) r level) := by
  obtain ⟨_, _, _, _, hp⟩ := C14_result_json_valid_every_offset start prob r level hok o ho
  refine ⟨items (fmtOf (valOf start prob)) r level, ?_, ?_, ?_⟩
  · rw [hp]; rfl
  · intro hl
    simp only [items, hl, ne_eq, not_true_eq_false, if_false]
    rfl
  · intro _; rfl

/-- **The duration field is within half a millisecond (plus 2^-12 of it) of frames / frame rate, for every frame
rate.**  For every frame count `n` (a non-negative C `int`) and every frame rate `fr ≥ 1` — also those that do not
divide 1000, like 3, 7, 75, 16000 — the text printed for `"d"`, read back as `k` thousandths, satisfies
`|k/1000 − n/fr| ≤ (1/2000)·(1 + 2^-11)` (cross-multiplied: `2048·|2·k·fr − 2000·n| ≤ 2049·fr`): the error of the
division's rounding to a double is at most `2^-22` and cannot move the decimal by more than that. -/
theorem C14_duration_field_close (start : Nat) (prob : Int → Nat) (n fr : Nat) (hfr : 1 ≤ fr) (hn : n ≤ 2 ^ 31) :
    ∃ k, readMilli ((fmtOf (valOf start prob)).num (.ratio (n : Int) (fr : Int))) = some (false, k) ∧
      2048 * (2 * (k * fr)) ≤ 2048 * (2000 * n) + 2049 * fr ∧ 2048 * (2000 * n) ≤ 2048 * (2 * (k * fr)) + 2049 * fr :=
  SSVerif.Dbl.fmt_ratio_close n fr hfr hn

/-- **Begin times never go backwards.**  For every finite start offset (any sign, any magnitude), every frame rate
`fr ≥ 1` and frame numbers `0 ≤ f1 ≤ f2` (C `int`s), the decimal printed for `"b"` of the earlier frame is at most the
decimal printed for the later one (both read back as signed thousandths): division, addition and the decimal
rounding are each monotone, so successive segments, words, phones and states carry non-decreasing begin fields. -/
theorem C14_begin_fields_monotone (start : Nat) (prob : Int → Nat) (hs : isFiniteBits start = true)
    (f1 f2 fr : Nat) (hfr : 1 ≤ fr) (h12 : f1 ≤ f2) (h2 : f2 ≤ 2 ^ 31) :
    ∃ n1 k1 n2 k2,
      readMilli ((fmtOf (valOf start prob)).num (.time (f1 : Int) (fr : Int))) = some (n1, k1) ∧
      readMilli ((fmtOf (valOf start prob)).num (.time (f2 : Int) (fr : Int))) = some (n2, k2) ∧
      (if n1 = true then -((k1 : Nat) : Int) else (k1 : Int)) ≤ (if n2 = true then -((k2 : Nat) : Int) else (k2 : Int)) :=
  SSVerif.Dbl.time_mono start hs f1 f2 fr hfr h12 h2

/-- **Error budget of a begin field, for every finite start offset.**  Work in units of `2^-1074` s (every finite
double is a whole number of them).  Let `A` be the magnitude of the start offset (`ma·2^(ea+1074)`, sign `na`),
`U = roundVal f fr` the quotient `(double)f / fr`, `Z = ±A + U` the *exact* sum, `V = roundVal |Z| (2^1074)` the sum
as a double and `k` the thousandths printed for `"b"`.  Then each of the three roundings between `start + f/fr` and the
printed decimal is off by at most half of its own unit:
`|U − f·2^1074/fr| ≤ ulp(U)/2`, `|V − |Z|| ≤ ulp(V)/2`, `|k/1000 − V·2^-1074| ≤ 1/2000`
(cross-multiplied below, `ulp = 2^ulpB`), the printed sign is the sign of the exact sum (`-0.000` only for a negative
sum), and an exact sum of zero prints `0.000`.  By `C14_ulp_relative` an ulp is at most `2^-52` of the value it
belongs to, so `|b − (start + f/fr)| ≤ 1/2000 + 2^-53·(f/fr + |start + f/fr|)` up to denormal ulps. -/
theorem C14_begin_field_error_budget (start : Nat) (prob : Int → Nat) (hs : isFiniteBits start = true)
    (f fr : Nat) (hfr : 1 ≤ fr) (hf : f ≤ 2 ^ 31) :
    ∃ (na : Bool) (ma : Nat) (ea : Int) (Z : Int) (neg : Bool) (k : Nat),
      ofBits start = some (na, ma, ea) ∧
      Z = (if na = true then -((ma * 2 ^ (ea + 1074).toNat : Nat) : Int) else ((ma * 2 ^ (ea + 1074).toNat : Nat) : Int)) +
            ((SSVerif.Dbl.roundVal f fr : Nat) : Int) ∧
      (2 * (SSVerif.Dbl.roundVal f fr * fr) ≤ 2 * (f * 2 ^ 1074) + fr * 2 ^ SSVerif.Dbl.ulpB f fr ∧
       2 * (f * 2 ^ 1074) ≤ 2 * (SSVerif.Dbl.roundVal f fr * fr) + fr * 2 ^ SSVerif.Dbl.ulpB f fr) ∧
      (2 * SSVerif.Dbl.roundVal Z.natAbs (2 ^ 1074) ≤ 2 * Z.natAbs + 2 ^ SSVerif.Dbl.ulpB Z.natAbs (2 ^ 1074) ∧
       2 * Z.natAbs ≤ 2 * SSVerif.Dbl.roundVal Z.natAbs (2 ^ 1074) + 2 ^ SSVerif.Dbl.ulpB Z.natAbs (2 ^ 1074)) ∧
      (Z ≠ 0 → 2 * (k * 2 ^ 1074) ≤ 2 * (1000 * SSVerif.Dbl.roundVal Z.natAbs (2 ^ 1074)) + 2 ^ 1074 ∧
               2 * (1000 * SSVerif.Dbl.roundVal Z.natAbs (2 ^ 1074)) ≤ 2 * (k * 2 ^ 1074) + 2 ^ 1074) ∧
      (Z = 0 → k = 0) ∧
      readMilli ((fmtOf (valOf start prob)).num (.time (f : Int) (fr : Int))) = some (neg, k) ∧
      neg = decide (Z < 0) :=
  SSVerif.Dbl.begin_budget start hs f fr hfr hf

/-- the unit in the last place of a rounded value is the denormal unit or at most `2^-52` of the value -/
theorem C14_ulp_relative (num den : Nat) :
    SSVerif.Dbl.ulpB num den = 0 ∨ 2 ^ (SSVerif.Dbl.ulpB num den + 52) ≤ num * 2 ^ 1074 / den :=
  SSVerif.Dbl.ulpB_rel num den

/-! ### non-vacuity -/

-- 0.0625 = 2^-4 is an exact half of a thousandth: ties to even give 0.062; 0.1875 gives 0.188
example : fmt3 false 1 (-4) = [48, 46, 48, 54, 50] ∧ fmt3 false 3 (-4) = [48, 46, 49, 56, 56] := by decide +kernel
-- negative zero and a negative value that rounds to zero print a sign
example : fmtBits 0x8000000000000000 = [45, 48, 46, 48, 48, 48] ∧ fmtBits 0xbf1a36e2eb1c432d = [45, 48, 46, 48, 48, 48] := by
  decide +kernel
-- the largest double has 309 integer digits; the dry run counts 313 bytes
example : lenBits 0x7fefffffffffffff = 313 ∧ (fmtBits 0x7fefffffffffffff).length = 313 := by decide +kernel
-- 999.9995 (as a double, just below) rounds up into a new integer digit
example : fmtBits 0x408f3ffef9db22d1 = [49, 48, 48, 48, 46, 48, 48, 48] := by decide +kernel
-- infinities and NaNs are printed as words, which are not JSON
example : fmtBits 0x7ff0000000000000 = [105, 110, 102] ∧ fmtBits 0xfff8000000000000 = [45, 110, 97, 110] ∧
    isJsonNumber (fmtBits 0x7ff0000000000000) = false := by decide +kernel
-- monotonicity hypothesis met by a non-trivial pair: -0.0625 ≤ 0.1875
example : dle (true, 1, -4) (false, 3, -4) := by simp [dle]
example : dle (false, 1, -4) (false, 3, -5) ∧ ¬ dle (false, 3, -5) (false, 1, -4) := by decide
-- the instantiated model on the example result of Props/C14 (start 1.25 everywhere, to have a value): valid line
example : (resultJson (fmtOf fun _ => 0x3ff4000000000000) exResult 2).map
    (fun o => (o.alloc, o.mem.ok, o.dryOk, (parseLine (cstr o.mem.bytes)).isSome)) = some (342, true, true, true) := by
  decide +kernel
-- … and with an infinite value the buffer still fits but the line is rejected
example : (resultJson (fmtOf fun _ => 0x7ff0000000000000) exResult 0).map
    (fun o => (o.mem.ok, o.dryOk, (parseLine (cstr o.mem.bytes)).isSome)) = some (true, true, false) := by decide +kernel
-- the repaired function on the example result: start 1.25, probabilities 1.0 — all arguments finite, valid line;
-- an infinite start is refused
example : (args exResult 2).all (fun a => isFiniteBits (valOf 0x3ff4000000000000 (fun _ => 0x3ff0000000000000) a)) = true ∧
    (resultJsonD 0x3ff4000000000000 (fun _ => 0x3ff0000000000000) exResult 2).map
      (fun o => (o.mem.ok, (parseLine (cstr o.mem.bytes)).isSome)) = some (true, true) ∧
    resultJsonD 0x7ff0000000000000 (fun _ => 0x3ff0000000000000) exResult 0 = none := by decide +kernel
-- the hypothesis of `C14_result_json_valid_every_offset` holds for the example result (frame rate 100), and the
-- largest finite start offset plus the largest frame number is still finite (0x7fefffffffffffff = DBL_MAX)
example : (args exResult 2).all (argOK fun _ => 0x3ff0000000000000) = true ∧
    SSVerif.Dbl.timeBits 0x7fefffffffffffff 2147483647 1 = 0x7fefffffffffffff ∧
    SSVerif.Dbl.timeBits 0x3ff4000000000000 46 100 = 0x3ffb5c28f5c28f5c := by decide +kernel
-- 279 frames at 100 frames/s are 2790 ms: the duration prints as exactly 2.790; 7 frames at 125/s as 0.056
example : 1000 * 279 = 2790 * 100 ∧ fmtBits (SSVerif.Dbl.ratioBits 279 100) = [50, 46, 55, 57, 48] ∧
    1000 * 7 = 56 * 125 ∧ fmtBits (SSVerif.Dbl.ratioBits 7 125) = [48, 46, 48, 53, 54] := by decide +kernel
-- frame 153 at 100 frames/s with start 0: "1.530"
example : 1000 * 153 = 1530 * 100 ∧ fmtBits (SSVerif.Dbl.timeBits 0 153 100) = [49, 46, 53, 51, 48] := by decide +kernel
-- 2 frames at 3 frames/s: 0.6666… prints as 0.667, and |667/1000 − 2/3| = 1/3000 is inside the bound
example : readMilli (fmtBits (SSVerif.Dbl.ratioBits 2 3)) = some (false, 667) ∧
    2048 * (2 * (667 * 3)) ≤ 2048 * (2000 * 2) + 2049 * 3 := by decide +kernel
-- start -3.25, frames 46 ≤ 64 at 100 frames/s: "-2.790" then "-2.610"
example : fmtBits (SSVerif.Dbl.timeBits 0xc00a000000000000 46 100) = [45, 50, 46, 55, 57, 48] ∧
    fmtBits (SSVerif.Dbl.timeBits 0xc00a000000000000 64 100) = [45, 50, 46, 54, 49, 48] := by decide +kernel

end SSVerif.Json
