import SSVerif.Proofs.ProtocolPredState
import SSVerif.Props.C09Api
/-!
# C09 — the prediction layer is part of the step function (model `Model/ProtocolPred.lean`)

Up to round 2 the outcomes that earlier calls determine (NULL results, hyp ⇒ seg, the frame counter, dictionary
look-ups) were computed by a layer of the correspondence driver, outside every theorem about `xStep`; iterator
exhaustion was echoed from the implementation.  `pStep` contains that layer: the driver parses a line, calls `pStep`,
prints.  The theorems below are about `pStep` / `pRun` over ALL call lists (every reported flag, every observation).
-/
namespace SSVerif.Protocol

/-- **C09, the predicted run refines the API-level run.**  For every history of transcript calls (whatever flags and
observations they carry), the API-level state reached by the predicting step function is the state `xRun` reaches on the
list of PREDICTED calls `pCalls` (flags overwritten by what the predicted state determines), and the returns are the
returns of `xRets` on that list.  So every theorem of `Props/C09Api.lean` about all `xRun` histories holds for what the
driver really steps. -/
theorem C09_pred_refines (cs : List PCall) :
    (pRun p0 cs).x = xRun x0 (pCalls p0 cs) ∧ pRets p0 cs = xRets x0 (pCalls p0 cs) :=
  ⟨pRun_x cs p0, pRets_x cs p0⟩

/-- **C09, predictions are consistent with the ownership and borrow invariants.**  In every state the predicting step
function reaches: both decoder automata and the configuration store are well-formed (`SysWF`: every valid iterator points
into a live object, …), every borrowed pointer the model calls readable points into an object the ledger holds
(`BorrowsLive`), and when everything was released the ledger is empty.  (Overwriting flags by predictions cannot lead
outside the states the API-level theorems cover.) -/
theorem C09_pred_reachable_safe (cs : List PCall) :
    SysWF (pRun p0 cs).x.sys ∧ BorrowsLive (pRun p0 cs).x ∧
    (XClosed (pRun p0 cs).x → xLedger (pRun p0 cs).x = []) := by
  rw [(C09_pred_refines cs).1]
  exact ⟨C09_api_reachable_wf _, C09_borrows_live _, C09_api_ledger_balanced _⟩

/-- **C09, a refused call leaves the WHOLE predicted state unchanged.**  A call that is out-of-protocol, or a listed
out-of-order call (audio before start / after end, start twice, end without start, a query with no search selected), changes
neither the API-level state (decoders, handles, borrows, strings) nor anything the model has learnt (frame counters,
hyp / seg knowledge, added words, remaining-element counts); a listed out-of-order call returns its documented error
value.  The API-level half is `C09_error_is_noop` / `C09_api_oop_changes_nothing` (used by `C09_pred_refines` to show
that skipping the update agrees with `xStep`). -/
theorem C09_pred_refused_is_noop (p : PState) (c : PCall)
    (h : (pStep p c).2 = .oop ∨ outOfOrderX p.x (pPredict p c)) :
    (pStep p c).1 = p ∧ (outOfOrderX p.x (pPredict p c) → (pStep p c).2 = errorValueX (pPredict p c)) := by
  refine ⟨?_, ?_⟩
  · apply pStep_refused
    rcases h with h | h
    · simp [refusedX, h]
    · simp [refusedX, h]
  · intro ho
    rw [pStep_ret, error_is_noop _ _ ho]

/-- **C09, error recovery: after any refused call the next calls behave as if it had never been made.**  Delete from a
history every call that was refused (`pAccepted`): the run ends in the same predicted state, and the calls that were
not refused return what they returned in the full history.  The model run IS the twin decoder that skipped the refused
calls; the per-call diff compares the real decoder (which executed them) with it after every call. -/
theorem C09_pred_refused_skippable (p : PState) (cs : List PCall) :
    pRun p (pAccepted p cs) = pRun p cs ∧ pRets p (pAccepted p cs) = pAcceptedRets p cs :=
  ⟨pRun_accepted cs p, pRets_accepted cs p⟩

/-- **C09, what the model believes about results is consistent in every reachable state.**  For each decoder: when the
history holds no reference to it nothing is remembered (no frame counter, no NULL / non-NULL knowledge, no added
words); "`decoder_hyp` returns a string" is only ever believed together with "`decoder_seg_iter` returns an iterator";
"`decoder_seg_iter` returns NULL" only together with "`decoder_hyp` returns NULL". -/
theorem C09_pred_results_consistent (cs : List PCall) (i : Inst) :
    let p := pRun p0 cs
    ((p.x.sys.inst i).refs = 0 → p.seen i = {}) ∧
    ((p.seen i).hyp = some true → (p.seen i).seg = some true) ∧
    ((p.seen i).seg = some false → (p.seen i).hyp = some false) := by
  have h := pRun_inv cs p0 predInv_p0 i
  exact ⟨h.1, h.2.1, h.2.2⟩

/-- **C09, two decoders at the API level: a call that is not made on decoder `i` leaves `i` untouched.**  Every API-level
call — base calls, `decoder_create`, the pointer-keeping queries, `config_*` on held objects, string and borrow
operations — whose target is not decoder `i` leaves the whole protocol state of `i` (reference count, search, lattice,
aligner, iterators, retained lattices / alignments) as it was (lifts `C09_instances_disjoint_step` from `sysStep` to
`xStep`). -/
theorem C09_pred_other_instance_untouched (x : XState) (c : XCall) (i : Inst) (h : instOfX c ≠ some i) :
    (xStep x c).1.sys.inst i = x.sys.inst i :=
  xStep_other_inst x c i h

/-- **C09, what the model believes about results is possible in the protocol state.**  In every state the predicting
step function reaches, for each decoder: "`decoder_hyp` returns a string" / "`decoder_seg_iter` returns an iterator" is
believed only while the history holds the decoder and its search has been started and not replaced since
(`search = used`: the only protocol state in which `step` can return non-NULL for these calls) — whatever calls were made
on the other decoder, on held configurations, strings or borrows in between.  So a prediction never contradicts
`C09_predicted_returns` (NULL before any search). -/
theorem C09_pred_beliefs_match_protocol_state (cs : List PCall) (i : Inst) :
    let p := pRun p0 cs
    ((p.seen i).hyp = some true → (p.x.sys.inst i).search = .used ∧ (p.x.sys.inst i).refs ≠ 0) ∧
    ((p.seen i).seg = some true → (p.x.sys.inst i).search = .used ∧ (p.x.sys.inst i).refs ≠ 0) := by
  have hb := pRun_belief cs p0 beliefOK_p0 i
  have hi := (pRun_inv cs p0 predInv_p0 i).1
  refine ⟨fun h => ⟨hb.1 h, ?_⟩, fun h => ⟨hb.2 h, ?_⟩⟩
  · intro h0
    rw [hi h0] at h
    cases h
  · intro h0
    rw [hi h0] at h
    cases h

/-- **C09, frame-counter arithmetic over histories.**  (1) An accepted `decoder_start_utt` sets the predicted
`decoder_n_frames` to 1 whatever the implementation shows.  (2) From any reachable state in which the counter of decoder
`i` is known to be `f`, after ANY list of calls on that decoder that are audio blocks or result / status queries
(`quietDec`: `decoder_process_*`, `decoder_hyp`, `decoder_seg_iter`, `seg_iter_next/_free`, `decoder_n_frames`, the
timing getters, `decoder_lookup_word`, `decoder_retain`, `decoder_set_logfile`, `hyp_iter_*`) — accepted or refused, with
arbitrary reported flags and arbitrary frame counters shown by the implementation (`obs.fed`) — the predicted counter is
`f` plus the sum of the counts the ACCEPTED audio blocks returned.  The observation `fed` does not enter; the per-call diff
compares this prediction with `output_frame + 1` of the real decoder after every call.  (`decoder_end_utt` is not in
the list: the frames it flushes depend on the samples buffered in the front end, see the report.) -/
theorem C09_pred_frames (cs0 cs : List PCall) (i : Inst) (f : Nat)
    (hq : ∀ c ∈ cs, quietOn i c.call = true) (hf : ((pRun p0 cs0).seen i).frames = some f) :
    ((pRun (pRun p0 cs0) cs).seen i).frames = some (f + frameSum (pRun p0 cs0) cs) ∧
    (∀ cons o, (pStep (pRun p0 cs0) ⟨.base (.dec i .start) cons, o⟩).2 = .ok →
      ((pStep (pRun p0 cs0) ⟨.base (.dec i .start) cons, o⟩).1.seen i).frames = some 1) :=
  ⟨pRun_frames_quiet i cs _ f hq (pRun_inv cs0 p0 predInv_p0) hf, fun cons o h => pStep_start_frames _ i cons o h⟩

/-- the calls `…_next` on iterator `id` (family `f`) of decoder `i`, each with an arbitrary reported `last` flag, an
arbitrary "cepstral frame consumed" flag and arbitrary observations -/
def nextCalls (i : Inst) (f : NextFam) (id : Nat) (fl : List (Bool × Bool × PObs)) : List PCall :=
  fl.map fun t => ⟨.base (.dec i (f.call id t.1)) t.2.1, t.2.2⟩

/-- **C09, iterator exhaustion is predicted exactly.**  Let the history hold a valid iterator `id` of one of the five
families (`seg_iter_t`, `hyp_iter_t`, `alignment_iter_t`, `latnode_iter_t`, `latlink_iter_t`) for which the remaining
count `r` is known (observed once, by the creating call).  Then `r + 1` calls of its `…_next` function — whatever
`last` flags the transcript reports — return non-NULL exactly `r` times and then NULL, and after the call that returned
NULL the iterator is no longer in the handle table (it was freed by that call: nothing is left to release, a further
use is out-of-protocol) and its count is forgotten. -/
theorem C09_pred_iterator_exhaustion (i : Inst) (f : NextFam) (id : Nat) (r : Nat) :
    ∀ (p : PState) (it : Iter) (fl : List (Bool × Bool × PObs)),
      findIter (p.x.sys.inst i).iters id = some it → f.accepts it.kind = true → it.valid = true →
      remOf (p.rem i) id = some r → fl.length = r + 1 →
      pRets p (nextCalls i f id fl) = List.replicate r .ptr ++ [.null] ∧
      findIter ((pRun p (nextCalls i f id fl)).x.sys.inst i).iters id = none ∧
      remOf ((pRun p (nextCalls i f id fl)).rem i) id = none := by
  induction r with
  | zero =>
    intro p it fl hf hk hv hr hl
    match fl, hl with
    | [t], _ =>
      obtain ⟨h0, _⟩ := pStep_next p i f id t.1 t.2.1 t.2.2 it 0 hf hk hv hr
      obtain ⟨a, b, c⟩ := h0 rfl
      simp only [nextCalls, List.map, pRets, pRun, List.replicate, List.nil_append]
      exact ⟨by rw [a], b, c⟩
  | succ r ih =>
    intro p it fl hf hk hv hr hl
    match fl, hl with
    | t :: fl', hl' =>
      obtain ⟨_, h1⟩ := pStep_next p i f id t.1 t.2.1 t.2.2 it (r + 1) hf hk hv hr
      obtain ⟨a, b, c⟩ := h1 r rfl
      have hlen : fl'.length = r + 1 := by simpa using hl'
      obtain ⟨ih1, ih2, ih3⟩ := ih _ it fl' b hk hv c hlen
      simp only [nextCalls, List.map, pRets, pRun] at ih1 ih2 ih3 ⊢
      refine ⟨?_, ih2, ih3⟩
      rw [a, ih1]
      simp [List.replicate_succ]

/-- **C09, a predicted `last` flag is not echoed.**  While the remaining count of an iterator is known, the `last` flag
the transcript reports for its `…_next` call has no influence on the step: return class, state and everything learnt
are the same for both values. -/
theorem C09_pred_next_flag_ignored (p : PState) (i : Inst) (f : NextFam) (id : Nat) (l l' cons : Bool) (o : PObs)
    (h : (remOf (p.rem i) id).isSome = true) :
    pStep p ⟨.base (.dec i (f.call id l)) cons, o⟩ = pStep p ⟨.base (.dec i (f.call id l')) cons, o⟩ :=
  pStep_next_flag p i f id l l' cons o h

theorem errorValueX_ne_ptr (c : XCall) : errorValueX c ≠ .ptr := by
  cases c with
  | base sc _ =>
    cases sc with
    | dec _ dc => cases dc <;> simp [errorValueX, errorValue]
    | _ => simp [errorValueX]
  | _ => simp [errorValueX]

/-- **C09, the count observed with a creating call is what the predictions use.**  When a call that creates (or,
`alignment_iter_goto`, repositions) iterator `id` returns non-NULL and the harness observed `r` further elements, the
table holds `r` for `id` afterwards (so `C09_pred_iterator_exhaustion` applies from there on). -/
theorem C09_pred_count_recorded (p : PState) (c : PCall) (i : Inst) (id r : Nat) (hi : instOfX c.call = some i)
    (hc : createdId (pPredict p c) = some id) (hk : c.obs.k = some r) (hret : (pStep p c).2 = .ptr) :
    remOf ((pStep p c).1.rem i) id = some r := by
  rw [pStep_ret] at hret
  have hno : ¬ outOfOrderX p.x (pPredict p c) := by
    intro ho
    rw [error_is_noop _ _ ho] at hret
    exact errorValueX_ne_ptr _ hret
  have hr : refusedX p.x (pPredict p c) (xStep p.x (pPredict p c)).2 = false := by simp [refusedX, hret, hno]
  rw [pStep_accepted_rem p c i hi hr, hret, hk]
  simp [remUpdate, hc, remOf_remSet]

/-! ## non-vacuity: a concrete history -/

/-- load a grammar, one utterance, a segmentation with two further elements, run it off its end (the reported `last`
flags are wrong on purpose: they are ignored), then a refused call -/
def exHist : List PCall :=
  [⟨.base (.initNew .a true .good false) false, {}⟩,
   ⟨.base (.dec .a .start) false, { fed := 44 }⟩,
   ⟨.base (.dec .a (.proc false true)) true, { nret := 5, fed := 99 }⟩,
   ⟨.base (.dec .a .nframes) false, { fed := 98 }⟩,
   ⟨.base (.dec .a (.proc false true)) true, { nret := 3, fed := 97 }⟩,
   ⟨.base (.dec .a (.endUtt true)) false, { fed := 12 }⟩,
   ⟨.base (.dec .a (.seg 0 true)) false, { fed := 12, k := some 2 }⟩,
   ⟨.base (.dec .a (.segNext 0 true)) false, {}⟩,
   ⟨.base (.dec .a (.segNext 0 true)) false, {}⟩,
   ⟨.base (.dec .a (.segNext 0 false)) false, {}⟩,
   ⟨.base (.dec .a (.proc false true)) true, { nret := 5 }⟩]

example : pRets p0 exHist = [.ptr, .ok, .count, .count, .count, .ok, .ptr, .ptr, .ptr, .null, .err] := by decide
example : ((pRun p0 (exHist.take 5)).seen .a).frames = some 9 := by decide
example : remOf ((pRun p0 (exHist.take 7)).rem .a) 0 = some 2 := by decide
example : findIter ((pRun p0 (exHist.take 10)).x.sys.inst .a).iters 0 = none := by decide
example : pAccepted p0 exHist = exHist.take 10 := by decide +kernel
example : ∀ c ∈ (exHist.take 5).drop 2, quietOn .a c.call = true := by decide +kernel
example : (pRun p0 exHist).seen .a ≠ {} ∧ ((pRun p0 exHist).seen .a).seg = some true := by decide +kernel
example : ((pRun p0 exHist).seen .a).hyp = none ∧ ((pRun p0 exHist).seen .a).seg = some true ∧
    ((pRun p0 exHist).x.sys.inst .a).search = .used := by decide +kernel
example : instOfX (.base (.dec .b .start) false) ≠ some .a := by decide

end SSVerif.Protocol
