import SSVerif.Props.C08
/-!
# C08 — result queries do not change the utterance function

The clause behind oracle (g) of the check (tools/props/c08.py): asking for the hypothesis, the segmentation, the
lattice, the n-best list or the frame count in the MIDDLE of an utterance (operation `query` of `Model/Api`) does not
change anything the rest of the utterance — or any later utterance — computes.  Stated over the dataflow model for
every history suffix: the run with the query and the run without it end in the same protocol phase with the same
content of every result-relevant cell other than the result caches themselves (`res`: hyp_str, dag, last_link, post,
align, json_result — what the query is there to fill).

`decoder_alignment` (`queryAlign`) is NOT covered by the theorem: it rewinds the feature ring and re-scores, i.e. it
writes `cnt` and `sen`, which the following `decoder_process_*` reads; that it puts back what it found needs the
interpretation of the counters (the model's semantics is uninterpreted).  For it the property is checked on the
implementation only (oracle (g): fresh decoder with vs without the mid-utterance queries, crossed with the scorer
configurations ds = 2/3) — which is how the seeded change C08-dm1 (acmod_rewind also clearing mgau->hw_frame) is found.
-/
namespace SSVerif.Props.C08Query
open SSVerif.Generated SSVerif.Isolation SSVerif.Api

/-- the decoder's system with `queryAlign` outside the protocol (every other operation unchanged) -/
def noAlignSys : Sys Group Phase Op :=
  { decoderSys with trans := fun ph op => match op with | .queryAlign => none | _ => trans ph op }

/-- result-relevant cells other than the result caches -/
def core (g : Group) : Bool := data g && g != .res

theorem noAlignSys_wf : WF noAlignSys := by
  constructor
  · intro ph op ph' ht
    cases ph <;> cases op <;> first | (cases ht; done) | (cases ht; decide)
  · intro ph op
    cases ph <;> cases op <;> decide
  · intro ph op ph' ht
    cases ph <;> cases op <;> first | (cases ht; done) | (cases ht; decide)

/-- no operation other than `queryAlign` lets the result caches flow into another result-relevant cell -/
theorem noAlignSys_flowClosed : FlowClosed noAlignSys core := by
  intro ph op ph' ht
  cases ph <;> cases op <;> first | (cases ht; done) | (intro c; cases c <;> decide)

/-- on histories without `queryAlign` the restricted system is the decoder's system -/
theorem run_noAlign {Val Inp : Type} (K : Group → Val) (sem : Op → Inp → Group → List (Option Val) → Val) :
    ∀ (ops : List (Op × Inp)) (cfg : Phase × State Group Val), (∀ x ∈ ops, x.1 ≠ .queryAlign) →
      run noAlignSys K sem cfg ops = run decoderSys K sem cfg ops := by
  intro ops
  induction ops with
  | nil => intro cfg _; rfl
  | cons x rest ih =>
    intro cfg h
    obtain ⟨op, i⟩ := x
    have hop : op ≠ .queryAlign := h (op, i) (List.mem_cons_self ..)
    have hstep : step noAlignSys K sem cfg op i = step decoderSys K sem cfg op i := by
      cases op <;> first | (exact absurd rfl hop) | rfl
    unfold run
    rw [hstep]
    cases step decoderSys K sem cfg op i with
    | error e => rfl
    | ok cfg' => exact ih cfg' (fun y hy => h y (List.mem_cons_of_mem _ hy))

/-- **Result queries do not interfere.**  From any state that satisfies the definedness invariant of a phase other
than `idle`, for every continuation `post` without `decoder_alignment`: running `query` first and then `post` has the
same outcome as running `post` alone — both refused by the protocol at the same point, or both succeed, end in the
same phase and agree on every result-relevant cell except the result caches (`res`). -/
theorem C08_queries_do_not_interfere {Val Inp : Type} (K : Group → Val)
    (sem : Op → Inp → Group → List (Option Val) → Val) (ph : Phase) (hph : ph ≠ .idle)
    (s : State Group Val) (hinv : Inv decoderSys ph s) (i : Inp) (post : List (Op × Inp))
    (hpost : ∀ x ∈ post, x.1 ≠ .queryAlign) :
    SameOutcome core (run decoderSys K sem (ph, s) ((.query, i) :: post)) (run decoderSys K sem (ph, s) post) := by
  have hq : noAlignSys.trans ph .query = some ph := by cases ph <;> first | (exact absurd rfl hph) | rfl
  have hinv' : Inv noAlignSys ph s := hinv
  have hall : ∀ x ∈ ((Op.query, i) :: post), x.1 ≠ Op.queryAlign := by
    intro x hx
    cases hx with
    | head => intro h; cases h
    | tail _ hx => exact hpost x hx
  rw [← run_noAlign K sem _ _ hall, ← run_noAlign K sem _ _ hpost]
  have e1 := step_ok_of_inv noAlignSys noAlignSys_wf K sem i hq hinv'
  have i1 := inv_applySpec noAlignSys noAlignSys_wf K (sem .query i) hq hinv'
  have hag : Agree core (applySpec K (sem .query i) (noAlignSys.spec ph .query) s) s := by
    intro c hc
    apply applySpec_untouched
    · cases ph <;> cases c <;> first | (exact absurd hc (by decide)) | rfl
    · cases ph <;> cases c <;> first | (exact absurd hc (by decide)) | decide
  have hrun : run noAlignSys K sem (ph, s) ((Op.query, i) :: post) =
      run noAlignSys K sem (ph, applySpec K (sem .query i) (noAlignSys.spec ph .query) s) post := by
    simp only [run, e1]
  rw [hrun]
  exact run_sameOutcome noAlignSys noAlignSys_wf K sem core noAlignSys_flowClosed post ph _ s i1 hinv' hag

/-! ## non-vacuity: the concrete history of `Props/C08` with a query between two processing calls -/

example : core .hist = true ∧ core .cmn = true ∧ core .beam = true ∧ core .res = false := by decide
example : noAlignSys.trans .processing .query = some .processing ∧ decoderSys.trans .processing .query = some .processing := by
  decide

/-- a query between two processing calls of a running utterance (every cell defined): hypotheses are satisfiable -/
example : SameOutcome core
    (run decoderSys exK exSem (.processing, fun g => some (exK g)) [(.query, 0), (.processMore, 2), (.endUtt, 3), (.query, 4)])
    (run decoderSys exK exSem (.processing, fun g => some (exK g)) [(.processMore, 2), (.endUtt, 3), (.query, 4)]) :=
  C08_queries_do_not_interfere exK exSem .processing (by decide) _ (by intro c _; rfl) 0
    [(.processMore, 2), (.endUtt, 3), (.query, 4)] (by decide)

end SSVerif.Props.C08Query
