import SSVerif.Proofs.SearchScoreRun
import SSVerif.Proofs.SearchScoreBeam
import SSVerif.Proofs.NetCover
import SSVerif.Proofs.FlatNetBuild
/-!
# C02 — the unpruned token-passing search computes the DP (the "missing middle")

`Model/SearchScore.lean` is the executable scoring model of `fsg_search_start` / `fsg_search_step` /
`fsg_search_find_exit` without pruning (HMM evaluation → phone transitions within the lextree → word exits into
history entries with right-context sets under the domination rule of `fsg_history_entry_add` → null-arc propagation →
entries into the roots under the two context tests, for the next frame → `find_exit`).  It is run by `ssdriver c02s` on
the real lextree and the recorded senone scores of every C02 case and must reproduce every frame of the real search
(`tools/props/c02.py`, obligation "token-passing correspondence").

Property theorems only.
-/
namespace SSVerif
open Viterbi SearchScore NetCover

/-- **C02, the search algorithm.**  For every lextree `E.lt` (any pnode array, sharing or not), every search FSG,
transition matrices, context data, every emission-score function `e` (frame → senone sequence → state → score) and
every utterance length `T ≥ 1`, the unpruned scoring search satisfies:

* if the optimum `viterbi (treeNet E) (treeEm E e) T` over all alignments of the lextree read as a network (three
  emitting states per pnode, parent → child edges, leaf → (at most one null arc) → root edges under the left- and
  right-context tests, start from the dummy entry, end in any leaf whose arc reaches the final state) is finite, then
  `fsg_search_find_exit` returns exactly it, read from a history entry of the last frame `T-1`;
* whenever `find_exit` answers from the last frame (it falls back to the most recent earlier frame that has an entry
  when the last frame made none — the recorded finding `partial-result-no-history-entry-in-final-frame`), its answer
  — a score, or "final state not reached" (`none`) — **is** the optimum.

By `C02_viterbi_is_max` the optimum is the maximum over all alignments and is attained.  No hypothesis on the
lextree, the grammar or the scores is needed at this level (`none` = `WORST_SCORE`; the step from `hmm_vit_eval` on
`int32` to the max-plus step is `C02_hmmStep_eq_ideal`, the step from finite beams to none is
`C02_wide_beams_prune_nothing`). -/
theorem C02_unpruned_search_is_tree_dp (E : Env) (e : Nat → Nat → Nat → Int) (T : Nat) (hT : 0 < T) :
    (∀ v, viterbi (treeNet E) (treeEm E e) T = some v →
      findExit E.g.final (runSearch E e T).table = some (((T - 1 : Nat) : Int), some v)) ∧
    (∀ f sc, findExit E.g.final (runSearch E e T).table = some (f, sc) → f = ((T - 1 : Nat) : Int) →
      sc = viterbi (treeNet E) (treeEm E e) T) :=
  search_is_tree_dp E e T hT

/-- **C02, the invariant behind it.**  After `fsg_search_start` and `t` frames, emitting state `k` of the HMM of every
pnode `p` holds exactly the DP cell of network state `3p + k` (the best score of a path ready to occupy it at frame
`t`), `fsgs->frame = t`, and every history entry was made in an earlier frame. -/
theorem C02_search_state_is_dp_cell (E : Env) (e : Nat → Nat → Nat → Int) (t : Nat) :
    (∀ p, p < E.n → ∀ k, k < 3 →
      comp (hget (runSearch E e t).hmm p) k = vAt (treeNet E) (treeEm E e) t (FlatNet.st p k)) ∧
    (runSearch E e t).frame = (t : Int) ∧ (∀ tk ∈ (runSearch E e t).table, tk.frame < (t : Int)) :=
  ⟨(run_inv E e t).hmm.2, (run_inv E e t).frame, (run_inv E e t).old⟩

/-- **C02, the history module as the search sees it.**  Whatever candidates go through `fsg_history_entry_add` /
`fsg_history_end_frame` in one phase of a frame: an entry that comes out went in (same destination state, left
context, score and link, a sub-set of the right contexts); for every candidate and every right-context phone it
offers an entry at least as good for that phone comes out; and, regardless of contexts, an entry at least as good
comes out (what `find_exit` relies on). -/
theorem C02_history_phase (cands : List Cand) (fr : Int) :
    (∀ tk ∈ flush cands fr, ∃ x ∈ cands, x.1 = tk.dst ∧ x.2.1 = tk.lc ∧ x.2.2.score = tk.score ∧
      (∀ r ∈ tk.rc, r ∈ x.2.2.rc) ∧ tk.frame = fr ∧ tk.link = some x.2.2.tag) ∧
    (∀ x ∈ cands, ∀ r ∈ x.2.2.rc, ∃ tk ∈ flush cands fr, tk.dst = x.1 ∧ tk.lc = x.2.1 ∧ r ∈ tk.rc ∧
      x.2.2.score ≤ tk.score) ∧
    (∀ x ∈ cands, ∃ tk ∈ flush cands fr, tk.dst = x.1 ∧ tk.lc = x.2.1 ∧ x.2.2.score ≤ tk.score) :=
  ⟨fun _ h => flush_sound h, fun _ hx _ hr => flush_compl fr hx hr, fun _ hx => flush_top fr hx⟩

/-- **C02, covering.**  If a network `N2` covers a network `N1` (`NetCover.Cover`: a decidable certificate — a
homomorphism `f` from the states of `N2` to those of `N1` that lifts every `N1`-candidate up to interchangeable states,
see `Model/NetCover.lean`) and the emission scores agree along `f`, both have the same Viterbi optimum, for every length.
Generic in the two networks. -/
theorem C02_covered_network_same_optimum (N1 N2 : Net) (C : Cert) (hc : coverB N1 N2 C = true)
    (em1 em2 : Nat → Nat → Int) (hem : ∀ t s, s < C.n2 → em2 t s = em1 t (C.f s)) (T : Nat) :
    viterbi N2 em2 T = viterbi N1 em1 T :=
  cover_viterbi (of_decide_eq_true hc) em1 em2 hem T

/-- the decidable check `emAgreeB` (same senone sequence and same state along the certificate's map) gives the agreement of
the two emission functions that `C02_covered_network_same_optimum` asks for, for all scores `e` -/
theorem C02_emAgree_checked {E : Env} {insts : Array FlatNet.Inst} {C : Cert} (h : emAgreeB E insts C = true)
    (e : Nat → Nat → Nat → Int) : ∀ t s, s < C.n2 → flatEm insts e t s = treeEm E e t (C.f s) := by
  intro t s hs
  unfold emAgreeB at h
  have := List.all_eq_true.mp h s (List.mem_range.mpr hs)
  simp only [Bool.and_eq_true, beq_iff_eq] at this
  unfold flatEm treeEm
  rw [this.1, this.2]

/-- `flatEm` is the emission function `ssdriver c02` feeds the flat network with -/
theorem C02_flatEm_is_emission (insts : Array FlatNet.Inst) (sseq : Nat → List Nat) (senscr : Nat → Nat → Int) (t s : Nat) :
    flatEm insts (fun t ss k => - senscr t ((sseq ss).getD k 0)) t s = FlatNet.emission insts sseq (senscr t) s := rfl

/-- **C02, the unpruned search computes the DP of the flat network — partial.**  For every lextree / FSG / matrices /
context data `E`, every labelled network with HMM instances `(L, insts)` — in the check: the flat network
`FlatNet.build M tmat = some (L, insts)` of the case's model `M` (`C02_search_reports_best_sentence_alignment_partial` uses
that it is one) — that **covers** the lextree network under a certificate `C` (`coverB` and `emAgreeB`, two decidable checks the driver evaluates on the real lextree and the
model's flat network of every case — obligation "cover certificate"), all scores `e` and every `T ≥ 1`:
`fsg_search_find_exit` on the unpruned scoring search returns the optimum of the flat network — the maximum over all
legal alignments, which spell sentences of the grammar (`C02_build_optimum_over_sentences`) — with the same proviso
about the fall-back frame as `C02_unpruned_search_is_tree_dp`.

PARTIAL: the certificate is a hypothesis evaluated per case.  The full statement, not proved here, replaces it by the
construction: for `E.lt = SearchLex.buildLexTree li g` and `LexFlat.lexHypsB M li = true` (the hypotheses of
`C02_lextree_paths_eq_flat_instances_checked`) a certificate always exists,
  `theorem C02_unpruned_search_is_dp … (h : lexHypsB M li = true) (hb : build M tmat = some (L, insts)) :
     findExit … (runSearch ⟨buildLexTree li g, …⟩ e T).table = some (T-1, viterbi L.toNet (flatEm insts e) T)`;
what is missing is the derivation of `f`/`cls` (instance ↦ pnode on the unique root-to-leaf path of its arc; class =
pnode × left-context tag) and of the four `Cover` clauses from the path correspondence of `Props/C02Lex.lean`. -/
theorem C02_unpruned_search_is_dp_partial (E : Env) (L : FlatNet.LNet) (insts : Array FlatNet.Inst) (C : Cert)
    (hcov : coverB (treeNet E) L.toNet C = true) (hem : emAgreeB E insts C = true)
    (e : Nat → Nat → Nat → Int) (T : Nat) (hT : 0 < T) :
    (∀ v, viterbi L.toNet (flatEm insts e) T = some v →
      findExit E.g.final (runSearch E e T).table = some (((T - 1 : Nat) : Int), some v)) ∧
    (∀ f sc, findExit E.g.final (runSearch E e T).table = some (f, sc) → f = ((T - 1 : Nat) : Int) →
      sc = viterbi L.toNet (flatEm insts e) T) := by
  have heq := C02_covered_network_same_optimum (treeNet E) L.toNet C hcov (treeEm E e) (flatEm insts e)
    (C02_emAgree_checked hem e) T
  rw [heq]
  exact search_is_tree_dp E e T hT

/-- **C02, default beams: the pruned token-passing search is sound.**  `searchStartBeam` / `searchFrameBeam` are the
scoring search WITH the tests of `fsg_search_hmm_prune_prop` / `pnode_trans` / `null_prop` / `word_trans`, the active list
and the end-of-frame deactivation (run by `ssdriver c02s` with the beams the real search holds on every case; every
frame must equal the real pruned search).  For ANY beams, lextree, grammar, scores and length: a score that
`fsg_search_find_exit` reports for a frame `f ≥ 0` (the last frame, or the frame it fell back to) is the score of a
complete alignment of the frames `0..f` of the lextree network — so it is achievable and does not exceed the optimum
over these frames; in particular a result read from the last frame never exceeds the optimum of the utterance. -/
theorem C02_pruned_search_le_optimum (E : Env) (beam pbeam wbeam : Int) (e : Nat → Nat → Nat → Int) (T : Nat) (f v : Int)
    (h : findExit E.g.final (runSearchBeam E beam pbeam wbeam e T).s.table = some (f, some v)) (hf : 0 ≤ f) :
    Alignment (treeNet E) (treeEm E e) (f.toNat + 1) v ∧ f < (T : Int) ∧
    ole (some v) (viterbi (treeNet E) (treeEm E e) (f.toNat + 1)) := by
  obtain ⟨h1, h2⟩ := pruned_search_sound E beam pbeam wbeam e T f v h hf
  exact ⟨h1, h2, (Viterbi.viterbi_is_max _ _ _).1 v h1⟩

/-- **C02, partial results.**  A result asked for while the utterance is still being searched (`fsg_search_hyp` before
`fsg_search_finish`: `find_exit` with `final = FALSE`, the best entry of the last frame that has one, whatever state it ends in
— compared with the real `decoder_hyp()` at random frames of the cases) for a frame `f ≥ 0` is, for ANY beams, the score of a
path of the lextree network over the frames `0..f` that leaves a word after frame `f`. -/
theorem C02_midutterance_result_is_word_end_path (E : Env) (beam pbeam wbeam : Int) (e : Nat → Nat → Nat → Int) (T : Nat) (f v : Int)
    (h : findExitPartial (runSearchBeam E beam pbeam wbeam e T).s.table = some (f, some v)) (hf : 0 ≤ f) :
    f < (T : Int) ∧ ∃ q k cx u d hop, q < E.n ∧ (E.node q).leaf = true ∧ (k, cx) ∈ FlatNet.hmmExits (E.tp q) ∧
      PathTo (treeNet E) (treeEm E e) f.toNat (FlatNet.st q k) u ∧ (d, hop) ∈ reach E.g (dstOf E q) ∧
      v = u + treeEm E e f.toNat (FlatNet.st q k) + cx + hop :=
  partial_result_sound E beam pbeam wbeam e T f v h hf

/-- the same against the flat network, when it covers the lextree network (certificate evaluated per case) -/
theorem C02_pruned_search_le_flat_optimum_partial (E : Env) (L : FlatNet.LNet) (insts : Array FlatNet.Inst) (C : Cert)
    (hcov : coverB (treeNet E) L.toNet C = true) (hem : emAgreeB E insts C = true)
    (beam pbeam wbeam : Int) (e : Nat → Nat → Nat → Int) (T : Nat) (f v : Int)
    (h : findExit E.g.final (runSearchBeam E beam pbeam wbeam e T).s.table = some (f, some v)) (hf : 0 ≤ f) :
    ole (some v) (viterbi L.toNet (flatEm insts e) (f.toNat + 1)) ∧ f < (T : Int) := by
  have heq := C02_covered_network_same_optimum (treeNet E) L.toNet C hcov (treeEm E e) (flatEm insts e)
    (C02_emAgree_checked hem e) (f.toNat + 1)
  rw [heq]
  obtain ⟨_, h2, h3⟩ := C02_pruned_search_le_optimum E beam pbeam wbeam e T f v h hf
  exact ⟨h3, h2⟩

/-- **C02 in the words of the property — partial (certificate).**  Under the hypotheses of
`C02_unpruned_search_is_dp_partial`: when `fsg_search_find_exit` reports the score `v` from the last frame, then (1) `v` is
achievable: it is the score of a frame-by-frame alignment of all `T` frames in the flat network whose word arcs spell a
sentence of the grammar (the FSG read as an ε-NFA accepts them), and (2) no legal alignment of the `T` frames scores higher. -/
theorem C02_search_reports_best_sentence_alignment_partial (E : Env) (M : FlatNet.Model) (tmat : Nat → List Nat)
    (L : FlatNet.LNet) (insts : Array FlatNet.Inst) (hb : FlatNet.build M tmat = some (L, insts)) (C : Cert)
    (hcov : coverB (treeNet E) L.toNet C = true) (hem : emAgreeB E insts C = true)
    (e : Nat → Nat → Nat → Int) (T : Nat) (hT : 0 < T) (v : Int)
    (hfe : findExit E.g.final (runSearch E e T).table = some (((T - 1 : Nat) : Int), some v)) :
    (∃ ws, FlatNet.LAlignment L (flatEm insts e) T v ws ∧ Nfa.Accepts (FlatNet.fsgNfa M) (ws.map (FlatNet.widOf M))) ∧
    (∀ sc, Alignment L.toNet (flatEm insts e) T sc → sc ≤ v) := by
  have hv := ((C02_unpruned_search_is_dp_partial E L insts C hcov hem e T hT).2 _ _ hfe rfl).symm
  obtain ⟨hup, hatt⟩ := Viterbi.viterbi_is_max L.toNet (flatEm insts e) T
  obtain ⟨hl, _⟩ := FlatNet.build_labelsOK M tmat L insts hb
  constructor
  · obtain ⟨ws, hws⟩ := (FlatNet.alignment_iff_labelled L (flatEm insts e) T v).mp (hatt v hv)
    exact ⟨ws, hws, FlatNet.alignment_sentence hl hws⟩
  · intro sc hsc
    have := hup sc hsc
    rw [hv] at this
    exact ole_some_some.mp this

/-- **C02, pruning disabled — stated on the model that is tied to the real search with its real beams.**
`runSearchBeam` (beam tests, active list, deactivation) is run by the driver with the beams the real search holds and must
equal the real search frame by frame on EVERY case.  When its history table equals the table of the unpruned scoring search
(a decidable hypothesis the driver evaluates on the two runs of the same case — true exactly when pruning removed nothing
that reaches the table; implied by, but weaker than, the no-pruning regime) and the flat network covers the lextree network
(certificate, as in `C02_unpruned_search_is_dp_partial`), then what `fsg_search_find_exit` reads from the pruned search's own
table is the optimum of the flat network: finite optimum ⇒ reported from the last frame; answered from the last frame ⇒ equal
to the optimum.  PARTIAL for the same reason as `C02_unpruned_search_is_dp_partial` (the certificate is evaluated per case). -/
theorem C02_search_with_beams_is_dp_partial (E : Env) (L : FlatNet.LNet) (insts : Array FlatNet.Inst) (C : Cert)
    (hcov : coverB (treeNet E) L.toNet C = true) (hem : emAgreeB E insts C = true)
    (beam pbeam wbeam : Int) (e : Nat → Nat → Nat → Int) (T : Nat) (hT : 0 < T)
    (hagree : decide ((runSearchBeam E beam pbeam wbeam e T).s.table = (runSearch E e T).table) = true) :
    (∀ v, viterbi L.toNet (flatEm insts e) T = some v →
      findExit E.g.final (runSearchBeam E beam pbeam wbeam e T).s.table = some (((T - 1 : Nat) : Int), some v)) ∧
    (∀ f sc, findExit E.g.final (runSearchBeam E beam pbeam wbeam e T).s.table = some (f, sc) → f = ((T - 1 : Nat) : Int) →
      sc = viterbi L.toNet (flatEm insts e) T) := by
  rw [of_decide_eq_true hagree]
  exact C02_unpruned_search_is_dp_partial E L insts C hcov hem e T hT

/-! ### non-vacuity -/

/-- a two-state network whose states are interchangeable covers the one-state network they unfold -/
example : coverB ⟨[(0, 0, -1)], [(0, 0)], [(0, -2)]⟩
    ⟨[(0, 0, -1), (0, 1, -1), (1, 0, -1), (1, 1, -1)], [(0, 0), (1, 0)], [(0, -2), (1, -2)]⟩
    ⟨2, fun _ => 0, fun _ => 0⟩ = true := by decide

/-- … and a network with a cheaper edge that has no counterpart does not -/
example : coverB ⟨[(0, 0, -1)], [(0, 0)], [(0, -2)]⟩
    ⟨[(0, 0, -1), (0, 1, 0), (1, 1, -1)], [(0, 0)], [(0, -2), (1, -2)]⟩
    ⟨2, fun _ => 0, fun s => s⟩ = false := by decide


/-- a two-word grammar `0 -w0-> 1 -ε-> 2 -w1-> 3` (final state 3, and a null arc `1 -ε-> 3` making the second word
optional) over a lextree with one single-phone word per arc: pnode 0 (root and leaf of arc 0, presents phone 4,
accepts left context SIL = 0) and pnode 1 (root and leaf of arc 2, presents phone 5, accepts left contexts 4) -/
def exEnv : Env :=
  { lt := { nst := 3,
            nodes := #[{ owner := 0, leaf := true, link := 0, ciExt := 4, ssid := 0, ctxt := 1, logs2prob := -7 },
                       { owner := 2, leaf := true, link := 2, ciExt := 5, ssid := 1, ctxt := 16, logs2prob := -9 }],
            root := #[some 0, none, some 1, none] },
    g := { links := #[⟨0, 1, 0, 0⟩, ⟨1, 2, -2048, -1⟩, ⟨2, 3, 0, 1⟩, ⟨1, 3, -4096, -1⟩], start := 0, final := 3, filler := [] },
    tmat := fun _ => [3, 12, 255, 255, 255, 5, 8, 255, 255, 255, 5, 8],
    sil := 0,
    anyRc := fun _ => true }

def exScores : Nat → Nat → Nat → Int := fun t ss k => -((t : Int) + 3 * (ss : Int) + (k : Int) + 1)

/-- three frames: only the first word fits; the search leaves through the null arc `1 → 3` and reports the optimum -/
example : viterbi (treeNet exEnv) (treeEm exEnv exScores) 3 = some (-48) ∧
    findExit exEnv.g.final (runSearch exEnv exScores 3).table = some (2, some (-48)) := by decide +kernel

/-- six frames: both words (3 + 3 frames, over the null arc `1 → 2`) beat the first word alone -/
example : viterbi (treeNet exEnv) (treeEm exEnv exScores) 6 = some (-72) ∧
    findExit exEnv.g.final (runSearch exEnv exScores 6).table = some (5, some (-72)) := by decide +kernel

/-- with beams of −1000 the pruned search finds the same optimum; with beams of −20 the only exit is pruned and
nothing is reported (less than the optimum, never more) -/
example : findExit exEnv.g.final (runSearchBeam exEnv (-1000) (-1000) (-1000) exScores 6).s.table = some (5, some (-72)) ∧
    findExit exEnv.g.final (runSearchBeam exEnv (-20) (-20) (-20) exScores 6).s.table = none := by decide +kernel

/-- two frames: no alignment exists, nothing enters the table after the start, `find_exit` has no hypothesis -/
example : viterbi (treeNet exEnv) (treeEm exEnv exScores) 2 = none ∧
    findExit exEnv.g.final (runSearch exEnv exScores 2).table = none := by decide +kernel

end SSVerif
