import SSVerif.Model.JsgfNames
import SSVerif.Proofs.JsgfLex
import SSVerif.Proofs.JsgfNames
/-!
# C05 — the names of generated rules

The compile-correctness theorems of `Props/C05.lean` are about rule tables keyed by the abstract
names `RName.user i` / `RName.gen k`.  The C code keys its symbol table by strings and silently
returns the first rule when a string is entered twice (`jsgf_define_rule`), so those theorems speak
about the C table only if different abstract names are different strings.  Proved here, for EVERY
grammar name (any length, dots, any characters) and every counter:

* `C05_generated_names_distinct`   — `sprintf "<%s.g%05d>"` is injective in the counter,
* `C05_generated_names_not_user`   — a generated name differs from every string that does not have
  the shape `<grammar.gDIGITS>`,
* `C05_rule_strings_injective`, `C05_text_rule_strings_injective` — the map from abstract names to
  table keys is injective (for the name table of every parsed text: interning is proved repetition-free).

The statements are about a buffer that holds the whole name (the code allocates `strlen + 16`);
`genNameBuf_collides` shows that they fail for a 32-byte buffer.
-/
namespace SSVerif.JsgfNames
open SSVerif.Jsgf SSVerif.JsgfText

/-! ### `%05d` -/

theorem digitsVal_zeros (n : Nat) (ds : List Char) :
    digitsVal (List.replicate n '0' ++ ds) = digitsVal ds := by
  induction n with
  | zero => simp
  | succ n ih =>
    simp only [digitsVal, List.replicate_succ, List.cons_append, List.foldl_cons] at ih ⊢
    simpa using ih

theorem fmt05_val (k : Nat) : digitsVal (fmt05 k) = k := by
  simp only [fmt05, digitsVal_zeros, natDigits]
  exact natDigitsF_val _ _ (Nat.lt_succ_self _)

theorem fmt05_digits (k : Nat) : (fmt05 k).all isDigit = true := by
  have h0 : isDigit '0' = true := by decide
  simp only [fmt05, List.all_append, List.all_replicate, h0, natDigits, natDigitsF_all, Bool.and_true]
  simp

theorem fmt05_inj {k k' : Nat} (h : fmt05 k = fmt05 k') : k = k' := by
  have := congrArg digitsVal h
  rwa [fmt05_val, fmt05_val] at this

/-- at least five characters: the width of `%05d` -/
theorem fmt05_width (k : Nat) : 5 ≤ (fmt05 k).length := by
  simp only [fmt05, List.length_append, List.length_replicate]
  omega

theorem nodup_index_inj {α : Type} {l : List α} (hnd : l.Nodup) {i j : Nat} (hi : i < l.length)
    (hj : j < l.length) (h : l[i] = l[j]) : i = j := by
  have hp := List.pairwise_iff_getElem.mp hnd
  rcases Nat.lt_trichotomy i j with hlt | heq | hgt
  · exact absurd h (hp i j hi hj hlt)
  · exact heq
  · exact absurd h.symm (hp j i hj hi hgt)

/-! ### property theorems -/

/-- **C05, generated rule names are pairwise different.** For every grammar name (of any length
and spelling) the name `<grammar.gNNNNN>` that `jsgf_define_rule` formats for an internal rule
determines the counter: two internal rules numbered differently never get the same key, so the
duplicate-symbol path of `jsgf_define_rule` cannot alias one group/optional/repetition to another. -/
theorem C05_generated_names_distinct (gname : List Char) (k k' : Nat)
    (h : genName gname k = genName gname k') : k = k' := by
  simp only [genName] at h
  exact fmt05_inj (List.append_cancel_right (List.append_cancel_left h))

/-- a generated name has the generated shape -/
theorem looksGenerated_genName (gname : List Char) (k : Nat) :
    looksGenerated gname (genName gname k) = true := by
  simp only [looksGenerated, genName, Bool.and_eq_true]
  refine ⟨?_, ?_⟩
  · exact List.isPrefixOf_iff_prefix.mpr (List.prefix_append _ _)
  · rw [List.drop_left, List.reverse_append]
    simp only [List.reverse_cons, List.reverse_nil, List.nil_append, List.singleton_append, List.all_reverse,
      List.length_reverse, Bool.and_eq_true, decide_eq_true_eq]
    exact ⟨fmt05_digits k, fmt05_width k⟩

/-- **C05, generated names and user names.** A string that does not have the shape
`<grammar.g` + five or more digits + `>` (the decidable test `looksGenerated`, evaluated by the check on every
rule name of every text) is not the name of any internal rule of that grammar, whatever the counter. -/
theorem C05_generated_names_not_user (gname s : List Char) (h : looksGenerated gname s = false)
    (k : Nat) : genName gname k ≠ s := by
  intro e
  rw [← e, looksGenerated_genName] at h
  exact Bool.noConfusion h

/-- **C05, abstract rule names are different table keys.** For every grammar name and every table
of interned user names that passes `userNamesOK` (pairwise different, none of generated shape —
both evaluated by the driver), two abstract rule names with the same key in `jsgf->rules` are the
same name: the rule tables keyed by `RName` that `C05_compile_correct` is about lose nothing
against the string-keyed hash table of the C code. -/
theorem C05_rule_strings_injective (gname : List Char) (N : Names) (hok : userNamesOK gname N = true)
    (r r' : RName) (hr : RNameIn N r) (hr' : RNameIn N r')
    (h : ruleString gname N r = ruleString gname N r') : r = r' := by
  simp only [userNamesOK, Bool.and_eq_true, decide_eq_true_eq, List.all_eq_true, Bool.not_eq_true'] at hok
  obtain ⟨hnd, hshape⟩ := hok
  cases r with
  | user i =>
    cases r' with
    | user j =>
      simp only [RNameIn] at hr hr'
      simp only [ruleString, List.getD_eq_getElem?_getD, List.getElem?_eq_getElem hr,
        List.getElem?_eq_getElem hr', Option.getD_some] at h
      rw [nodup_index_inj hnd hr hr' h]
    | gen k =>
      simp only [RNameIn] at hr
      simp only [ruleString, List.getD_eq_getElem?_getD, List.getElem?_eq_getElem hr, Option.getD_some] at h
      exact absurd h.symm (C05_generated_names_not_user gname _ (hshape _ (List.getElem_mem hr)) k)
  | gen k =>
    cases r' with
    | user j =>
      simp only [RNameIn] at hr'
      simp only [ruleString, List.getD_eq_getElem?_getD, List.getElem?_eq_getElem hr', Option.getD_some] at h
      exact absurd h (C05_generated_names_not_user gname _ (hshape _ (List.getElem_mem hr')) k)
    | gen k' =>
      simp only [ruleString] at h
      rw [C05_generated_names_distinct gname k k' h]

/-- **C05, the symbol table of a parsed text.** For every syntax tree the front end can return, with
the name table `resolve` interns (full names as `jsgf_fullname` / `jsgf_fullname_from_rule` build them,
of any length): if no user name has the shape of an internal name of this grammar (the decidable test
the driver prints as `K=` for every text), then different abstract rule names are different keys of
`jsgf->rules`.  That interning never repeats a name is proved (`resolve_nodup`), not assumed. -/
theorem C05_text_rule_strings_injective (tg : TGrammar)
    (hshape : ((resolve tg).2.rules.all fun s => !looksGenerated tg.name s) = true)
    (r r' : RName) (hr : RNameIn (resolve tg).2 r) (hr' : RNameIn (resolve tg).2 r')
    (h : ruleString tg.name (resolve tg).2 r = ruleString tg.name (resolve tg).2 r') : r = r' := by
  apply C05_rule_strings_injective tg.name (resolve tg).2 _ r r' hr hr' h
  simp only [userNamesOK, Bool.and_eq_true, decide_eq_true_eq]
  exact ⟨resolve_nodup tg, hshape⟩

/-! ### non-vacuity, and what a fixed buffer would do -/

/-- the name of the JSGF specification's own example grammar -/
def exLong : List Char := "com.sun.speech.app.numbers".toList

example : genName "g".toList 3 = "<g.g00003>".toList := by decide
example : genName exLong 12 = "<com.sun.speech.app.numbers.g00012>".toList := by decide
example : genName "g".toList 123456 = "<g.g123456>".toList := by decide
example : genName exLong 3 ≠ genName exLong 5 := fun h => absurd (C05_generated_names_distinct _ _ _ h) (by decide)

/-- with `snprintf` into 32 bytes the names of the 3rd and the 5th rule of that grammar are the same
string: the theorems above are about the unbounded buffer the code allocates, and the check compares
the real keys with `genName` on grammar names of 24 characters and more -/
theorem genNameBuf_collides : genNameBuf 32 exLong 3 = genNameBuf 32 exLong 5 := by decide

example : looksGenerated "g".toList "<g.g00003>".toList = true ∧ looksGenerated "g".toList "<g.go>".toList = false ∧
    looksGenerated "g".toList "<g.g1x>".toList = false ∧ looksGenerated "g".toList "<g.g>".toList = false ∧
    looksGenerated "g".toList "<g.g0012>".toList = false ∧ looksGenerated "g".toList "<g.g123456>".toList = true ∧ looksGenerated exLong "<g.g00003>".toList = false := by decide

/-- a table of names as `resolve` interns them, meeting the hypothesis of `C05_rule_strings_injective` -/
example : userNamesOK exLong { rules := ["<com.sun.speech.app.numbers.a>".toList, "<x.g00001>".toList,
    "<com.sun.speech.app.numbers.go>".toList] } = true := by decide

/-- and one that does not: the user wrote `<g00001>` -/
example : userNamesOK "g".toList { rules := ["<g.a>".toList, "<g.g00001>".toList] } = false := by decide

end SSVerif.JsgfNames
