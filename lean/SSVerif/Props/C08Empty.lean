import SSVerif.Props.C08
/-!
# C08 — degenerate utterances (closer, class of seeded change C08-em2)

An utterance that received no audio at all (`decoder_start_utt` directly followed by `decoder_end_utt`, model operation
`endUttEmpty`), fewer samples than one analysis window (`processNoFrame`* then `endUtt`), or that yielded no result, must
be invisible to the next utterance.  For the search's HMM state this hinges on ONE line of the table: `decoder_end_utt`
still runs `search_module_finish` → `fsg_search_finish` when no frame was produced, which deactivates the root HMMs that
`fsg_search_start` entered for frame 0 (`spec _ .endUttEmpty` const-writes the group `hmm`).

* `C08_empty_utterances_leave_search_at_rest`: the instance of `C08_finish_clears_search` for histories that contain
  empty utterances anywhere — stated on its own because the tie now reads it back: harness op `rest` after EVERY
  `decoder_end_utt` (tools/props/c08.py `utt_ops`), in particular after the degenerate ones of `degenerate_history_scenario`.
* `em2Sys` / the two examples after it: the table with that one write removed (an `endUttEmpty` that returns before
  `search_module_finish`) is refuted by the model: `RestOK` fails at exactly (started, endUttEmpty, hmm), and a concrete
  history ends between utterances with the HMM group NOT at its canonical value.
-/
namespace SSVerif.Api
open SSVerif.Generated SSVerif.Isolation

/-- **empty utterances leave the search at rest.**  After any history of public calls that goes, anywhere, through
utterances without audio (`startUtt`, `endUttEmpty`) — any number of them, in a row or between ordinary utterances —
whenever the decoder is between utterances again the HMM state of the search is at its canonical "everything cleared"
value, exactly as after a fresh `decoder_init` + grammar: what `fsg_search_start` of the NEXT utterance relies on. -/
theorem C08_empty_utterances_leave_search_at_rest {Val Inp : Type} (K : Group → Val)
    (sem : Op → Inp → Group → List (Option Val) → Val) (s₀ : State Group Val)
    (h0 : s₀ .hmm = some (K .hmm)) (pre post : List (Op × Inp)) (n : Nat) (i j : Inp) (ph : Phase) (s : State Group Val)
    (hr : run decoderSys K sem (.idle, s₀)
      (pre ++ (List.replicate n [(Op.startUtt, i), (Op.endUttEmpty, j)]).flatten ++ post) = .ok (ph, s))
    (hb : ph.between = true) :
    s .hmm = some (K .hmm) :=
  C08_finish_clears_search K sem s₀ h0 _ ph s hr hb

/-- the table of a `decoder_end_utt` that returns before `search_module_finish` when no frame was produced: `endUttEmpty`
no longer writes the HMM group -/
def em2Sys : Sys Group Phase Op :=
  { decoderSys with
    spec := fun ph op =>
      if op = .endUttEmpty then { spec ph op with writes := (spec ph op).writes.filter fun w => w.1 != Group.hmm }
      else spec ph op }

/-- … is refuted: the rest condition fails, and it fails exactly at (started, endUttEmpty, hmm) -/
example : restCell em2Sys Phase.between .started .endUttEmpty .hmm = false ∧
    restCell decoderSys Phase.between .started .endUttEmpty .hmm = true := by decide

example : ¬ RestOK em2Sys Phase.between restCells := fun h => by
  have := h .started .endUttEmpty .endedEmpty rfl rfl .hmm (by simp [restCells])
  revert this
  decide

/-- a concrete history: grammar, an ordinary utterance, an EMPTY utterance.  On the real table the HMM group is back at its
canonical value; on `em2Sys` it holds what `decoder_start_utt` computed (the entered root HMMs) -/
example : (match run decoderSys exK exSem (.idle, exInit)
      [(.setGrammar, 1), (.startUtt, 0), (.processFull, 7), (.endUtt, 0), (.startUtt, 0), (.endUttEmpty, 0)] with
    | .ok (ph, s) => (ph.between, decide (s .hmm = some (exK .hmm))) | _ => (false, false)) = (true, true) := by decide

example : (match run em2Sys exK exSem (.idle, exInit)
      [(.setGrammar, 1), (.startUtt, 0), (.processFull, 7), (.endUtt, 0), (.startUtt, 0), (.endUttEmpty, 0)] with
    | .ok (ph, s) => (ph.between, decide (s .hmm = some (exK .hmm))) | _ => (false, true)) = (true, false) := by decide

end SSVerif.Api
