import SSVerif.Proofs.FeSwap
import SSVerif.Props.C06
import SSVerif.Generated.FeSwaps
/-!
# C06, byte order — `fe->swap` (and the place of the dither step) does not change C06's conclusion

`Model/FeSwap.lean` (M4s) extends the index model M4 with the byte order, swap parity, scale and
dither count of every stored sample and models every `SWAP_INT16` / `SWAP_FLOAT32`, every
`/ FLOAT32_SCALE`, `* FLOAT32_SCALE` and every dither step of `fe_process_int16`,
`fe_process_float32`, `fe_end` and the four frame readers.  An arithmetic use of a value that is not
in host order (or not in the scale the code assumes) is the explicit failure outcome `none`.

`Mode = ⟨swap, dither, enc⟩`: `fe->swap` (set iff `input_endian` ≠ host), `fe->dither`, and whether
the calls are `fe_process_int16` or `fe_process_float32`.  All theorems hold for **every** mode,
every `0 < shift ≤ size` and every call schedule (same quantifier as `C06_frames_canonical`: any
chunk lengths incl. 0, any per-call output limits, any carry, any non-zero `fe_end` room).

Composition with the existing C06 theorems: `run_tag` (Proofs/FeSwap) shows that on input handed
over in input byte order the byte-order model fails exactly when the index model fails and otherwise
yields `tag m` of the index model's result; `C06_frames_canonical`, `C06_consumed_once` say the index
model does not fail and yields the canonical frames.  Hence the windows are the canonical ones, as
host-order values, for swap on and off alike — `C06_chunking_independent` and its corollaries hold
verbatim with byte swapping.  (Dither: the theorems say *where* noise is added — once per sample per
window it enters, on a host-order value — not that the noise values agree between two schedules:
they do not, the number of random draws per frame differs between the overflow path and the shift
path; the check compares dithered runs only against the host-order run of the same schedule.)
-/
namespace SSVerif.FeSwap
open SSVerif.FeBuf List

/-- a window cell as it must be: sample `i`, host byte order, swapped an odd number of times iff
`fe->swap`, int16 units, through the dither step exactly once -/
def IsHost (m : Mode) (x : Cell) : Prop :=
  x.rev = false ∧ x.par = m.swap ∧ x.unit = false ∧ x.dith = (if m.dither then 1 else 0)

/-- an overflow cell as it must be between calls: **input** byte order (reversed iff `fe->swap`),
even number of swaps, float units, never dithered -/
def IsInput (m : Mode) (x : Cell) : Prop :=
  x.rev = m.swap ∧ x.par = false ∧ x.unit = true ∧ x.dith = 0

/-- the states `fe_start` followed by any sequence of `fe_process_int16` / `fe_process_float32`
calls can reach — the two kinds of call may be **interleaved** (`e` is chosen per call) — each call
on an arbitrary buffer (any samples, handed over in input order) with an arbitrary output limit -/
inductive Reach (m : Mode) (c : Cfg) : Fe Cell → Prop
  | start : Reach m c FeBuf.start
  | call {st st' : Fe Cell} {buf : List Nat} {L k n : Nat} (e : Enc) :
      Reach m c st → processS (m.withEnc e) c st (buf.map (inC (m.withEnc e))) L = some (st', k, n) →
      Reach m c st'

theorem reach_tag {m : Mode} {c : Cfg} {st : Fe Cell} (h : Reach m c st) : ∃ fe, st = tag m fe := by
  induction h with
  | start => exact ⟨FeBuf.start, rfl⟩
  | @call st st' buf L k n e _ hp ih =>
    obtain ⟨fe, rfl⟩ := ih
    rw [← tag_withEnc m e, process_tag] at hp
    cases hq : FeBuf.process c fe buf L with
    | none => rw [hq] at hp; cases hp
    | some x =>
      rw [hq] at hp
      simp only [Option.map_some, tagProc, Option.some.injEq, Prod.mk.injEq] at hp
      exact ⟨x.1, hp.1.symm⟩

/-- forgetting the tags of a tagged state gives the index state back -/
theorem erase_tag (m : Mode) (fe : Fe Nat) : (tag m fe).map Cell.src = fe := by
  obtain ⟨ovf, nOvf, spch, prior, out⟩ := fe
  have h1 : (Cell.src ∘ ovfC m) = id := rfl
  have h2 : (Cell.src ∘ hostC m) = id := rfl
  have h3 : ∀ p : Option Nat, Option.map Cell.src (Option.map (hostC m) p) = p := by
    intro p; cases p <;> rfl
  simp only [tag, Fe.map, List.map_map, h1, h2, h3, List.map_id, Fe.mk.injEq, true_and]
  induction out with
  | nil => rfl
  | cons fr rest ih =>
    obtain ⟨w, p⟩ := fr
    simp only [List.map_cons, Function.comp, Frame.map, List.map_map, h2, List.map_id, h3] at ih ⊢
    rw [ih]

/-- every tagged state has its overflow buffer in input order and everything else in host order -/
theorem tag_inv (m : Mode) (fe : Fe Nat) :
    (∀ x ∈ (tag m fe).ovf, IsInput m x) ∧ (∀ x ∈ (tag m fe).spch, IsHost m x) ∧
    (∀ x ∈ (tag m fe).prior, IsHost m x) ∧
    (∀ fr ∈ (tag m fe).out, (∀ x ∈ fr.win, IsHost m x) ∧ ∀ x ∈ fr.prior, IsHost m x) := by
  have hh : ∀ i, IsHost m (hostC m i) := fun i => ⟨rfl, rfl, rfl, rfl⟩
  refine ⟨?_, ?_, ?_, ?_⟩
  · intro x hx
    simp only [tag, List.mem_map] at hx
    obtain ⟨i, -, rfl⟩ := hx
    exact ⟨rfl, rfl, rfl, rfl⟩
  · intro x hx
    simp only [tag, List.mem_map] at hx
    obtain ⟨i, -, rfl⟩ := hx
    exact hh i
  · intro x hx
    simp only [tag, Option.mem_def, Option.map_eq_some_iff] at hx
    obtain ⟨i, -, rfl⟩ := hx
    exact hh i
  · intro fr hfr
    simp only [tag, List.mem_map] at hfr
    obtain ⟨fr0, -, rfl⟩ := hfr
    refine ⟨?_, ?_⟩
    · intro x hx
      simp only [List.mem_map] at hx
      obtain ⟨i, -, rfl⟩ := hx
      exact hh i
    · intro x hx
      simp only [Option.mem_def, Option.map_eq_some_iff] at hx
      obtain ⟨i, -, rfl⟩ := hx
      exact hh i

/-- **C06 byte order, between calls.** In every state reachable by `fe_start` and any sequence of
calls (any buffers, any limits; swap on or off, dither on or off, int16 and float32 calls in any
interleaving): the whole valid
part of `fe->overflow_samps` is in **input** byte order (float units, even swap count, not
dithered); `fe->spch`, the pre-emphasis prior and every window handed to the frame function are in
**host** order, int16 units, swapped an odd number of times iff `fe->swap`, dithered exactly once
iff `fe->dither`. -/
theorem C06_swap_between_calls {m : Mode} {c : Cfg} {st : Fe Cell} (h : Reach m c st) :
    (∀ x ∈ st.ovf, IsInput m x) ∧ (∀ x ∈ st.spch, IsHost m x) ∧ (∀ x ∈ st.prior, IsHost m x) ∧
    (∀ fr ∈ st.out, (∀ x ∈ fr.win, IsHost m x) ∧ ∀ x ∈ fr.prior, IsHost m x) := by
  obtain ⟨fe, rfl⟩ := reach_tag h
  exact tag_inv m fe

/-- **C06 byte order, after any schedule.** The same for the state after `fe_start` and any list of
chunks with any limits fed the way `FeBuf.feedAll` / `acmod_process_full_*` does (before `fe_end`):
if the run did not fail, the overflow buffer is entirely in input order, everything else in host
order. -/
theorem C06_swap_after_schedule (m : Mode) (c : Cfg) (chunks : List (List Nat × List Nat))
    (r : RunResult Cell) (h : feedAllS m c FeBuf.start (inChunks m chunks) = some r) :
    (∀ x ∈ r.fe.ovf, IsInput m x) ∧ (∀ x ∈ r.fe.spch, IsHost m x) ∧ (∀ x ∈ r.fe.prior, IsHost m x) ∧
    (∀ fr ∈ r.fe.out, (∀ x ∈ fr.win, IsHost m x) ∧ ∀ x ∈ fr.prior, IsHost m x) := by
  have h0 := feedAll_tag m c chunks FeBuf.start
  rw [show (tag m (FeBuf.start : Fe Nat)) = (FeBuf.start : Fe Cell) from rfl, h] at h0
  cases hq : FeBuf.feedAll c FeBuf.start chunks with
  | none => rw [hq] at h0; cases h0
  | some r0 =>
    rw [hq] at h0
    simp only [Option.map_some, Option.some.injEq] at h0
    rw [h0]
    exact tag_inv m r0.fe

/-- **C06 byte order, no wrong-order read.** From every reachable state, a further call on any
buffer with any limit can only fail if the *index* model fails on the same call (a read outside the
buffer — excluded for every schedule by `C06_frames_canonical`): the failure outcome "arithmetic on a
value in the wrong byte order / wrong scale" never occurs.  The same for `fe_end`. -/
theorem C06_swap_no_wrong_order_read {m : Mode} {c : Cfg} {st : Fe Cell} (h : Reach m c st)
    (e : Enc) (buf : List Nat) (L : Nat) :
    (processS (m.withEnc e) c st (buf.map (inC (m.withEnc e))) L = none →
      FeBuf.process c (st.map Cell.src) buf L = none) ∧
    (finishS m c st L = none → FeBuf.finish c (st.map Cell.src) L = none) := by
  obtain ⟨fe, rfl⟩ := reach_tag h
  rw [erase_tag, finish_tag, ← tag_withEnc m e, process_tag]
  constructor
  · intro hn; cases hq : FeBuf.process c fe buf L with
    | none => rfl
    | some x => rw [hq] at hn; cases hn
  · intro hn; cases hq : FeBuf.finish c fe L with
    | none => rfl
    | some x => rw [hq] at hn; cases hn

/-- **C06 byte order, one call refines the index model.** From a reachable state the call consumes
the same number of samples, writes the same number of frames and reaches the state with the same
sample indices as the index model `FeBuf.process`. -/
theorem C06_swap_call_refines {m : Mode} {c : Cfg} {st st' : Fe Cell} (h : Reach m c st) (e : Enc)
    (buf : List Nat) (L k n : Nat)
    (hp : processS (m.withEnc e) c st (buf.map (inC (m.withEnc e))) L = some (st', k, n)) :
    FeBuf.process c (st.map Cell.src) buf L = some (st'.map Cell.src, k, n) := by
  obtain ⟨fe, rfl⟩ := reach_tag h
  rw [erase_tag]
  rw [← tag_withEnc m e, process_tag] at hp
  cases hq : FeBuf.process c fe buf L with
  | none => rw [hq] at hp; cases hp
  | some x =>
    rw [hq] at hp
    simp only [Option.map_some, tagProc, Option.some.injEq, Prod.mk.injEq] at hp
    obtain ⟨h1, h2⟩ := hp
    rw [← h1, erase_tag]
    obtain ⟨a, b⟩ := x
    simp only at h2
    rw [h2]

/-- **C06 with byte swapping: frames_canonical.** For every mode (swap on/off, dither on/off, int16
or float32 calls), every schedule and every non-zero `fe_end` room, on a signal handed over in input
byte order: the run does not fail (no out-of-bounds read, no wrong-order or wrong-scale arithmetic),
and the windows handed to the frame function are exactly the canonical windows of C06
(`FeBuf.canonical`), every cell a host-order value (`hostC`); everything is consumed once; after
`fe_end` the overflow buffer is empty. -/
theorem C06_swap_frames_canonical (m : Mode) (size shift : Nat) (hs : 0 < shift) (hss : shift ≤ size)
    (specs : List (Nat × List Nat)) (endRoom : Nat) (he : 0 < endRoom) :
    ∃ r nend, runS m ⟨size, shift, true⟩ (inChunks m (chunksFrom 0 specs)) endRoom = some (r, nend) ∧
      r.fe.out = (canonical size shift (total specs)).map (tagFrame m) ∧ r.left = 0 ∧
      (r.calls.map (·.consumed)).sum = total specs ∧ r.fe.ovf = [] := by
  obtain ⟨r, nend, h, hout⟩ := C06_frames_canonical size shift hs hss specs endRoom he
  obtain ⟨r', nend', h', hleft, hsum, -⟩ := C06_consumed_once size shift hs hss specs endRoom he
  rw [h] at h'
  obtain ⟨rfl, rfl⟩ : r = r' ∧ nend = nend' := by
    have := Option.some.inj h'; exact ⟨congrArg Prod.fst this, congrArg Prod.snd this⟩
  refine ⟨tagRun m r, nend, by rw [run_tag, h]; rfl, ?_, hleft, hsum, ?_⟩
  · show r.fe.out.map (tagFrame m) = _
    rw [hout]
  · -- `fe_end` empties the overflow buffer
    simp only [FeBuf.run] at h
    cases hf : FeBuf.feedAll ⟨size, shift, true⟩ FeBuf.start (chunksFrom 0 specs) with
    | none => rw [hf] at h; cases h
    | some r0 =>
      rw [hf] at h
      simp only [Option.bind_some, FeBuf.finish] at h
      show (r.fe.ovf).map (ovfC m) = []
      split at h
      · cases hr : rd r0.fe.ovf 0 (min r0.fe.nOvf.toNat size) with
        | none => rw [hr] at h; cases h
        | some w =>
          rw [hr] at h
          simp only [Option.map_some, Option.some.injEq, Prod.mk.injEq] at h
          rw [← h.1]; rfl
      · simp only [Option.map_some, Option.some.injEq, Prod.mk.injEq] at h
        rw [← h.1]; rfl

/-- **C06 with byte swapping: the swap flag, the encoding and the chunking do not matter.**  Two runs
over the same number of samples — arbitrary schedules, arbitrary swap flags and encodings, the same
dither setting — hand the frame function windows with the same source samples, all as host-order
int16-unit values: forgetting the tags, both are the canonical frame list of C06. -/
theorem C06_swap_flag_irrelevant (m₁ m₂ : Mode) (size shift : Nat) (hs : 0 < shift) (hss : shift ≤ size)
    (specs₁ specs₂ : List (Nat × List Nat)) (hN : total specs₁ = total specs₂)
    (e₁ e₂ : Nat) (he₁ : 0 < e₁) (he₂ : 0 < e₂) :
    ∃ r₁ n₁ r₂ n₂,
      runS m₁ ⟨size, shift, true⟩ (inChunks m₁ (chunksFrom 0 specs₁)) e₁ = some (r₁, n₁) ∧
      runS m₂ ⟨size, shift, true⟩ (inChunks m₂ (chunksFrom 0 specs₂)) e₂ = some (r₂, n₂) ∧
      r₁.fe.out.map (Frame.map Cell.src) = canonical size shift (total specs₁) ∧
      r₂.fe.out.map (Frame.map Cell.src) = canonical size shift (total specs₁) ∧
      (∀ fr ∈ r₁.fe.out, ∀ x ∈ fr.win, IsHost m₁ x) ∧ (∀ fr ∈ r₂.fe.out, ∀ x ∈ fr.win, IsHost m₂ x) ∧
      (m₁.dither = m₂.dither → r₁.fe.out.map (Frame.map fun x => (x.src, x.rev, x.unit, x.dith))
          = r₂.fe.out.map (Frame.map fun x => (x.src, x.rev, x.unit, x.dith))) := by
  obtain ⟨r₁, n₁, h₁, o₁, -⟩ := C06_swap_frames_canonical m₁ size shift hs hss specs₁ e₁ he₁
  obtain ⟨r₂, n₂, h₂, o₂, -⟩ := C06_swap_frames_canonical m₂ size shift hs hss specs₂ e₂ he₂
  have er : ∀ (m : Mode) (l : List (Frame Nat)), (l.map (tagFrame m)).map (Frame.map Cell.src) = l := by
    intro m l
    induction l with
    | nil => rfl
    | cons fr rest ih =>
      obtain ⟨w, p⟩ := fr
      have h2 : (Cell.src ∘ hostC m) = id := rfl
      simp only [List.map_cons, ih, tagFrame, Frame.map, List.map_map, h2, List.map_id]
      cases p <;> rfl
  have hostw : ∀ (m : Mode) (l : List (Frame Nat)), ∀ fr ∈ l.map (tagFrame m), ∀ x ∈ fr.win, IsHost m x := by
    intro m l fr hfr x hx
    simp only [List.mem_map] at hfr
    obtain ⟨fr0, -, rfl⟩ := hfr
    simp only [tagFrame, List.mem_map] at hx
    obtain ⟨i, -, rfl⟩ := hx
    exact ⟨rfl, rfl, rfl, rfl⟩
  refine ⟨r₁, n₁, r₂, n₂, h₁, h₂, ?_, ?_, ?_, ?_, ?_⟩
  · rw [o₁, er]
  · rw [o₂, er, hN]
  · rw [o₁]; exact hostw m₁ _
  · rw [o₂]; exact hostw m₂ _
  · intro hd
    rw [o₁, o₂, hN]
    simp only [List.map_map]
    apply List.map_congr_left
    intro fr _
    obtain ⟨w, p⟩ := fr
    have hf : ((fun x : Cell => (x.src, x.rev, x.unit, x.dith)) ∘ hostC m₁)
        = ((fun x : Cell => (x.src, x.rev, x.unit, x.dith)) ∘ hostC m₂) := by
      funext i; simp [hostC, hd]
    simp only [Function.comp_apply, tagFrame, Frame.map, List.map_map, Option.map_map, hf]

/-- attach an encoding to every chunk of a schedule -/
def withEncs (encs : Nat → Enc) (chunks : List (List Nat × List Nat)) : List (Enc × List Nat × List Nat) :=
  (List.range chunks.length).zipWith (fun j ch => (encs j, ch)) chunks

theorem withEncs_snd (encs : Nat → Enc) (chunks : List (List Nat × List Nat)) :
    (withEncs encs chunks).map (·.2) = chunks := by
  unfold withEncs
  generalize hl : List.range chunks.length = l
  have : l.length = chunks.length := by rw [← hl, List.length_range]
  clear hl
  induction chunks generalizing l with
  | nil => simp
  | cons ch rest ih =>
    cases l with
    | nil => simp at this
    | cons a l => simp only [List.zipWith_cons_cons, List.map_cons, List.cons.injEq, true_and]
                  exact ih l (by simpa using this)

/-- **C06 with byte swapping and interleaved encodings.**  Chunk `j` of the schedule is fed through
`fe_process_int16` or `fe_process_float32` as `encs j` says — any assignment, so the two entry points
may alternate arbitrarily within the utterance, a carry written by one being completed by the other.
For every swap / dither setting, schedule and `fe_end` room: no failure, the windows are the
canonical windows of C06 as host-order int16-unit values, everything is consumed once. -/
theorem C06_swap_mixed_encodings_canonical (m : Mode) (encs : Nat → Enc) (size shift : Nat) (hs : 0 < shift)
    (hss : shift ≤ size) (specs : List (Nat × List Nat)) (endRoom : Nat) (he : 0 < endRoom) :
    ∃ r nend, runX m ⟨size, shift, true⟩ (withEncs encs (chunksFrom 0 specs)) endRoom = some (r, nend) ∧
      r.fe.out = (canonical size shift (total specs)).map (tagFrame m) ∧ r.left = 0 ∧
      (r.calls.map (·.consumed)).sum = total specs := by
  obtain ⟨r, nend, h, hout⟩ := C06_frames_canonical size shift hs hss specs endRoom he
  obtain ⟨r', nend', h', hleft, hsum, -⟩ := C06_consumed_once size shift hs hss specs endRoom he
  rw [h] at h'
  obtain ⟨rfl, rfl⟩ : r = r' ∧ nend = nend' := by
    have := Option.some.inj h'; exact ⟨congrArg Prod.fst this, congrArg Prod.snd this⟩
  refine ⟨tagRun m r, nend, by rw [runX_tag, withEncs_snd, h]; rfl, ?_, hleft, hsum⟩
  show r.fe.out.map (tagFrame m) = _
  rw [hout]

/-- the value a stored cell denotes for a signal `x` (host-order values) and a byte-reversal `bswap`:
what the bytes in memory read as on the host -/
def Cell.val {α : Type} (x : Nat → α) (bswap : α → α) (c : Cell) : α :=
  if c.rev then bswap (x c.src) else x c.src

/-- **C06 with byte swapping, for every signal.**  `x i` is sample `i` as a host-order value, `bswap`
the byte reversal (any function).  The caller's buffers hold `bswap (x i)` when `fe->swap` is set and
`x i` otherwise (`inC`); whatever the schedule, the values the frame function receives are the
canonical windows of `x` itself — the run with `input_endian` ≠ host on the byte-reversed signal and
the run with `input_endian` = host on the plain signal hand over the same windows (this is the
comparison B-vs-A the check makes bitwise on the implementation). -/
theorem C06_swap_window_values {α : Type} (x : Nat → α) (bswap : α → α) (m : Mode) (size shift : Nat)
    (hs : 0 < shift) (hss : shift ≤ size) (specs : List (Nat × List Nat)) (endRoom : Nat) (he : 0 < endRoom) :
    (∀ i, (inC m i).val x bswap = if m.swap then bswap (x i) else x i) ∧
    ∃ r nend, runS m ⟨size, shift, true⟩ (inChunks m (chunksFrom 0 specs)) endRoom = some (r, nend) ∧
      r.fe.out.map (Frame.map (Cell.val x bswap)) = (canonical size shift (total specs)).map (Frame.map x) := by
  refine ⟨fun i => rfl, ?_⟩
  obtain ⟨r, nend, h, hout, -⟩ := C06_swap_frames_canonical m size shift hs hss specs endRoom he
  refine ⟨r, nend, h, ?_⟩
  rw [hout, List.map_map]
  apply List.map_congr_left
  intro fr _
  obtain ⟨w, p⟩ := fr
  have hv : (Cell.val x bswap ∘ hostC m) = x := rfl
  simp only [Function.comp_apply, tagFrame, Frame.map, List.map_map, Option.map_map, hv]

/-- **C06 byte order: the byte-order model refines the index model, whole utterance.**  For every
mode, every configuration (pinned or repaired tree, any sizes) and *every* list of chunks (arbitrary
sample indices) with arbitrary limits: on input handed over in input byte order the byte-order model
fails exactly when the index model fails, and otherwise its result is `tag m` of the index model's
result (same call log, same leftovers). -/
theorem C06_swap_run_refines (m : Mode) (c : Cfg) (chunks : List (List Nat × List Nat)) (endRoom : Nat) :
    runS m c (inChunks m chunks) endRoom
      = (FeBuf.run c chunks endRoom).map (fun x => (tagRun m x.1, x.2)) := run_tag m c chunks endRoom

/-- the same for one `fe_process` call from any tagged state -/
theorem C06_swap_process_refines (m : Mode) (c : Cfg) (fe : Fe Nat) (buf : List Nat) (nframes : Nat) :
    processS m c (tag m fe) (buf.map (inC m)) nframes = (FeBuf.process c fe buf nframes).map (tagProc m) :=
  process_tag m c fe buf nframes

/-! ## the failure outcome is tight: a read succeeds only on a value in the right order and scale -/

/-- a cell is read successfully by reader `e` only if it is in **input** order (reversed iff
`fe->swap`) and in the scale the reader assumes (int16 units for the int16 reader, float units for
the float32 reader) -/
theorem cellToSpch_some_iff_input (m : Mode) (e : Enc) (x : Cell) :
    (cellToSpch m e x).isSome = true ↔ (x.rev = m.swap ∧ x.unit = decide (e = .float32)) := by
  obtain ⟨sw, d, e'⟩ := m
  obtain ⟨i, rev, par, unit, dith⟩ := x
  cases sw <;> cases d <;> cases e <;> cases rev <;> cases unit <;>
    simp [cellToSpch, swapIf, arith, scaleUp]

/-- an int16 sample is converted into the overflow buffer successfully only if it is in input order
and in int16 units -/
theorem cellToOvf_int16_some_iff_input (m : Mode) (hm : m.enc = .int16) (x : Cell) :
    (cellToOvf m x).isSome = true ↔ (x.rev = m.swap ∧ x.unit = false) := by
  obtain ⟨sw, d, e'⟩ := m
  obtain ⟨i, rev, par, unit, dith⟩ := x
  simp only at hm
  subst hm
  cases sw <;> cases rev <;> cases unit <;> simp [cellToOvf, swapIf, scaleDown]

theorem mapO_some_all (f : Cell → Option Cell) (xs ys : List Cell) (h : mapO f xs = some ys) :
    ∀ x ∈ xs, (f x).isSome = true := by
  induction xs generalizing ys with
  | nil => intro x hx; cases hx
  | cons a rest ih =>
    intro x hx
    simp only [mapO] at h
    cases ha : f a with
    | none => rw [ha] at h; cases h
    | some a' =>
      rw [ha] at h
      simp only [Option.bind_some] at h
      cases hr : mapO f rest with
      | none => rw [hr] at h; cases h
      | some r =>
        rcases List.mem_cons.mp hx with rfl | hx'
        · rw [ha]; rfl
        · exact ih r hr x hx'

/-- **C06 byte order: the overflow invariant is necessary, not only sufficient.**  Whatever state the
front end is in (reachable or not — e.g. after a code change that forgot or misplaced a swap): if
`fe_end` flushes the rest successfully, then every overflow cell it read was in **input** byte order
and in float units.  So an execution of the model that leaves a single flushed cell in host order
(with `fe->swap` set) or in int16 units ends in the failure outcome. -/
theorem C06_swap_overflow_invariant_necessary (m : Mode) (c : Cfg) (st : Fe Cell) (L : Nat)
    (hL : 0 < L) (hn : 0 < st.nOvf) (r : Fe Cell × Nat) (h : finishS m c st L = some r) :
    ∀ x ∈ st.ovf.take (min st.nOvf.toNat c.size), x.rev = m.swap ∧ x.unit = true := by
  simp only [finishS, hL, hn, and_self, if_true] at h
  cases hr : rd st.ovf 0 (min st.nOvf.toNat c.size) with
  | none => rw [hr] at h; cases h
  | some w =>
    rw [hr] at h
    simp only [Option.bind_some, readFrameS] at h
    cases ht : toSpch m .float32 w with
    | none => rw [ht] at h; cases h
    | some ys =>
      have hw : w = st.ovf.take (min st.nOvf.toNat c.size) := by
        unfold rd at hr
        split at hr
        · simpa using hr.symm
        · cases hr
      intro x hx
      rw [← hw] at hx
      have := mapO_some_all _ _ _ ht x hx
      have h2 := (cellToSpch_some_iff_input m .float32 x).mp this
      simpa using h2

/-- the same for the carry a later call completes: if `read_overflow_frame` succeeds, every cell of
the carried-over part of the overflow buffer was in input byte order and in float units -/
theorem C06_swap_carry_invariant_necessary (m : Mode) (c : Cfg) (st : Fe Cell) (buf : List Cell)
    (r : Fe Cell × Nat) (h : readOverflowFrameS m c st buf = some r) :
    ∀ x ∈ st.ovf.take st.nOvf.toNat, x.rev = m.swap ∧ x.unit = true := by
  simp only [readOverflowFrameS] at h
  split at h
  · cases h
  · rename_i hg
    cases h1 : rd st.ovf 0 st.nOvf.toNat with
    | none => rw [h1] at h; cases h
    | some old =>
      rw [h1] at h
      simp only [Option.bind_some] at h
      cases h2 : rd buf 0 ((c.size : Int) - st.nOvf).toNat with
      | none => rw [h2] at h; cases h
      | some xs =>
        rw [h2] at h
        simp only [Option.bind_some] at h
        cases h3 : toOvf m xs with
        | none => rw [h3] at h; cases h
        | some xs' =>
          rw [h3] at h
          simp only [Option.bind_some] at h
          cases h4 : rd (old ++ xs') 0 c.size with
          | none => rw [h4] at h; cases h
          | some w =>
            rw [h4] at h
            simp only [Option.bind_some, readFrameS] at h
            cases ht : toSpch m .float32 w with
            | none => rw [ht] at h; cases h
            | some ys =>
              have hold : old = st.ovf.take st.nOvf.toNat ∧ old.length = st.nOvf.toNat := by
                unfold rd at h1
                split at h1
                · rename_i hle
                  have : old = st.ovf.take st.nOvf.toNat := by simpa using h1.symm
                  refine ⟨this, ?_⟩
                  rw [this, List.length_take]; omega
                · cases h1
              have hw : w = (old ++ xs').take c.size := by
                unfold rd at h4
                split at h4
                · simpa using h4.symm
                · cases h4
              have hlen : old.length ≤ c.size := by
                rw [hold.2]; omega
              intro x hx
              rw [← hold.1] at hx
              have hxw : x ∈ w := by
                rw [hw, List.take_append, List.take_of_length_le hlen]
                exact List.mem_append_left _ hx
              have := mapO_some_all _ _ _ ht x hxw
              have h2 := (cellToSpch_some_iff_input m .float32 x).mp this
              simpa using h2

/-! ## premises read from the source -/

/-- the source text `Model/FeSwap.lean` was written against.  Per function, in source order, the
statements that touch byte order, scale, dither or move sample data:
* the four int16 loops into `overflow_samps` (`overflow_append`, `read_overflow_frame`,
  `create_overflow_frame`, `append_overflow_frame`) are `cellToOvf .int16` = swap, `/ SCALE`, swap back
  **at the index just written**; their `memcpy` twins are `cellToOvf .float32`;
* `fe_read_frame_int16` / `fe_shift_frame_int16` are `cellToSpch .int16`; the dither and the
  no-dither loop of `fe_read_frame_float32` / `fe_shift_frame_float32` are the two branches of
  `cellToSpch .float32`; the `memmove`s move cells unchanged;
* `read_overflow_frame` and `fe_end` read the overflow buffer with `fe_read_frame_float32`;
* `fe_spch_to_frame` reads `fe->spch` and the prior arithmetically (`spchToFrameS`). -/
def modelSites : List (String × List String) := [
  ("overflow_append", [
    "memcpy(fe->overflow_samps+fe->num_overflow_samps,*spch,*inout_nsamps*(sizeof(float32)))",
    "int16sample=(*spch)[i]",
    "if(fe->swap)SWAP_INT16(&sample)",
    "fe->overflow_samps[fe->num_overflow_samps+i]=(float32)sample/FLOAT32_SCALE",
    "if(fe->swap)SWAP_FLOAT32(fe->overflow_samps+fe->num_overflow_samps+i)"
  ]),
  ("read_overflow_frame", [
    "memcpy(fe->overflow_samps+fe->num_overflow_samps,*spch,offset*sizeof(float32))",
    "int16sample=(*spch)[i]",
    "if(fe->swap)SWAP_INT16(&sample)",
    "fe->overflow_samps[fe->num_overflow_samps+i]=(float32)sample/FLOAT32_SCALE",
    "if(fe->swap)SWAP_FLOAT32(fe->overflow_samps+fe->num_overflow_samps+i)",
    "fe_read_frame_float32(fe,fe->overflow_samps,fe->frame_size)"
  ]),
  ("create_overflow_frame", [
    "int16sample=inptr[i]",
    "if(fe->swap)SWAP_INT16(&sample)",
    "fe->overflow_samps[i]=(float32)sample/FLOAT32_SCALE",
    "if(fe->swap)SWAP_FLOAT32(fe->overflow_samps+i)",
    "memcpy(fe->overflow_samps,*spch-(fe->frame_size-fe->frame_shift),fe->num_overflow_samps*sizeof(float32))"
  ]),
  ("append_overflow_frame", [
    "memmove(fe->overflow_samps,fe->overflow_samps+orig_n_overflow-fe->num_overflow_samps,fe->num_overflow_samps*sizeof(float32))",
    "int16sample=orig[i]",
    "if(fe->swap)SWAP_INT16(&sample)",
    "fe->overflow_samps[fe->num_overflow_samps+i]=sample/FLOAT32_SCALE",
    "if(fe->swap)SWAP_FLOAT32(fe->overflow_samps+fe->num_overflow_samps+i)",
    "memcpy(fe->overflow_samps+fe->num_overflow_samps,orig,n_overflow*sizeof(float32))"
  ]),
  ("fe_process", [
    "if(*inout_nsamps+fe->num_overflow_samps<(size_t)fe->frame_size)returnoverflow_append(fe,inout_spch,inout_nsamps,encoding)",
    "read_overflow_frame(fe,inout_spch,inout_nsamps,encoding)",
    "*spch+=fe_read_frame_float32(fe,*spch,fe->frame_size)",
    "*spch+=fe_read_frame_int16(fe,*spch,fe->frame_size)",
    "shift=fe_shift_frame_float32(fe,*spch,fe->frame_shift)",
    "shift=fe_shift_frame_int16(fe,*spch,fe->frame_shift)",
    "create_overflow_frame(fe,inout_spch,inout_nsamps,encoding)",
    "append_overflow_frame(fe,inout_spch,orig_spch,inout_nsamps,orig_n_overflow,encoding)"
  ]),
  ("fe_end", [
    "fe_read_frame_float32(fe,fe->overflow_samps,fe->num_overflow_samps)"
  ]),
  ("fe_spch_to_frame", [
    "fe_pre_emphasis(fe->spch,fe->frame,len,fe->pre_emphasis_alpha,fe->pre_emphasis_prior)",
    "if(len>=fe->frame_shift)fe->pre_emphasis_prior=fe->spch[fe->frame_shift-1]",
    "elsefe->pre_emphasis_prior=fe->spch[len-1]",
    "elsefe_copy_to_frame(fe->spch,fe->frame,len)"
  ]),
  ("fe_read_frame_int16", [
    "int16sample=in[i]",
    "if(fe->swap)SWAP_INT16(&sample)",
    "if(fe->dither)sample+=(int16)((!(s3_rand_int31()%4))?1:0)",
    "fe->spch[i]=sample"
  ]),
  ("fe_read_frame_float32", [
    "if(fe->dither)",
    "float32sample=in[i]",
    "if(fe->swap)SWAP_FLOAT32(&sample)",
    "fe->spch[i]=(sample*FLOAT32_SCALE+((!(s3_rand_int31()%4))?FLOAT32_DITHER:0.0))",
    "float32sample=in[i]",
    "if(fe->swap)SWAP_FLOAT32(&sample)",
    "fe->spch[i]=sample*FLOAT32_SCALE"
  ]),
  ("fe_shift_frame_int16", [
    "memmove(fe->spch,fe->spch+fe->frame_shift,offset*sizeof(*fe->spch))",
    "int16sample=in[i]",
    "if(fe->swap)SWAP_INT16(&sample)",
    "if(fe->dither)sample+=(int16)((!(s3_rand_int31()%4))?1:0)",
    "fe->spch[i+offset]=sample"
  ]),
  ("fe_shift_frame_float32", [
    "memmove(fe->spch,fe->spch+fe->frame_shift,offset*sizeof(*fe->spch))",
    "if(fe->dither)",
    "float32sample=in[i]",
    "if(fe->swap)SWAP_FLOAT32(&sample)",
    "fe->spch[i+offset]=(sample*FLOAT32_SCALE+((!(s3_rand_int31()%4))?FLOAT32_DITHER:0.0))",
    "float32sample=in[i]",
    "if(fe->swap)SWAP_FLOAT32(&sample)",
    "fe->spch[i+offset]=sample*FLOAT32_SCALE"
  ])
]
/-- the byte-swap macros -/
def modelMacros : List (String × String) := [("SWAP_INT16", "*(x)=((0x00ff&(*(x))>>8)|(0xff00&(*(x))<<8))"), ("SWAP_FLOAT32", "{uint8tmp,*ux=(uint8*)(x);tmp=ux[3];ux[3]=ux[0];ux[0]=tmp;tmp=ux[2];ux[2]=ux[1];ux[1]=tmp;}")]
/-- the assignments to `fe->swap` in `fe_init` (WORDS_BIGENDIAN branch first) -/
def modelInit : List String := ["fe->swap=strcmp(\"big\",config_str(config,\"input_endian\"));", "fe->swap=strcmp(\"little\",config_str(config,\"input_endian\"));"]

/-- **Premises read from the source** (regenerated by `tools/gen_feswaps.py` on every check): the
byte-order / scale / dither relevant statements of the eleven functions on the sample paths, the two
byte-swap macros and the way `fe_init` sets `fe->swap` are literally the text the model was written
against.  A dropped or moved swap, a swap applied at another index, a changed guard or reader call
changes the generated file and this theorem no longer checks. -/
theorem C06_swap_sites_match_model :
    SSVerif.Generated.feSwapSites = modelSites ∧ SSVerif.Generated.feSwapMacros = modelMacros ∧
    SSVerif.Generated.feSwapInit = modelInit := ⟨rfl, rfl, rfl⟩

/-! ## the recorded statements, *read* as steps on a sample, are the model's per-cell functions

`C06_swap_sites_match_model` pins the text.  Here the text is given a meaning: every recorded
statement is read as one step on the sample in flight (`readStmt`; this reading of the C statements
is the trusted part), each `for` loop of a function is the statements from one load
(`int16sample=…[i]` / `float32sample=in[i]`) to the next, and the composition of the steps of each
loop is proved equal to the hand-written `cellToOvf` / `cellToSpch` — for the text regenerated from
the current sources. -/

/-- one recorded statement as a step on the sample in flight -/
inductive Step
  /-- `T sample = SRC[i]` -/
  | load
  /-- `if (fe->swap) SWAP_*(&sample)` -/
  | swapLocal
  /-- `fe->overflow_samps[IDX] = (float32)sample / FLOAT32_SCALE` -/
  | storeOvf (idx : String)
  /-- `if (fe->swap) SWAP_FLOAT32(fe->overflow_samps + IDX)` -/
  | swapStored (idx : String)
  /-- `if (fe->dither) sample += (int16)(…)` -/
  | ditherInt
  /-- `fe->spch[…] = sample` (int16 → float32 conversion) -/
  | storeSpch
  /-- `fe->spch[…] = sample * FLOAT32_SCALE` -/
  | storeSpchUp
  /-- `fe->spch[…] = (sample * FLOAT32_SCALE + (… ? FLOAT32_DITHER : 0.0))` -/
  | storeSpchUpDither
  /-- anything else (moves of whole blocks, calls) — not part of a per-sample loop -/
  | other
  deriving DecidableEq, Repr

def readStmt (s : String) : Step :=
  if s = "int16sample=(*spch)[i]" ∨ s = "int16sample=inptr[i]" ∨ s = "int16sample=orig[i]" ∨ s = "int16sample=in[i]"
      ∨ s = "float32sample=in[i]" then .load
  else if s = "if(fe->swap)SWAP_INT16(&sample)" ∨ s = "if(fe->swap)SWAP_FLOAT32(&sample)" then .swapLocal
  else if s = "fe->overflow_samps[fe->num_overflow_samps+i]=(float32)sample/FLOAT32_SCALE"
      ∨ s = "fe->overflow_samps[fe->num_overflow_samps+i]=sample/FLOAT32_SCALE" then .storeOvf "fe->num_overflow_samps+i"
  else if s = "fe->overflow_samps[i]=(float32)sample/FLOAT32_SCALE" then .storeOvf "i"
  else if s = "if(fe->swap)SWAP_FLOAT32(fe->overflow_samps+fe->num_overflow_samps+i)" then .swapStored "fe->num_overflow_samps+i"
  else if s = "if(fe->swap)SWAP_FLOAT32(fe->overflow_samps+i)" then .swapStored "i"
  else if s = "if(fe->dither)sample+=(int16)((!(s3_rand_int31()%4))?1:0)" then .ditherInt
  else if s = "fe->spch[i]=sample" ∨ s = "fe->spch[i+offset]=sample" then .storeSpch
  else if s = "fe->spch[i]=sample*FLOAT32_SCALE" ∨ s = "fe->spch[i+offset]=sample*FLOAT32_SCALE" then .storeSpchUp
  else if s = "fe->spch[i]=(sample*FLOAT32_SCALE+((!(s3_rand_int31()%4))?FLOAT32_DITHER:0.0))"
      ∨ s = "fe->spch[i+offset]=(sample*FLOAT32_SCALE+((!(s3_rand_int31()%4))?FLOAT32_DITHER:0.0))" then .storeSpchUpDither
  else .other

/-- split a statement list into its per-sample loops: a loop starts at a load and runs to the next
load (statements before the first load belong to no loop) -/
def loopsGo : List Step → Option (List Step) → List (List Step)
  | [], none => []
  | [], some l => [l]
  | .load :: r, none => loopsGo r (some [])
  | .load :: r, some l => l :: loopsGo r (some [])
  | _ :: r, none => loopsGo r none
  | st :: r, some l => loopsGo r (some (l ++ [st]))

def loopsOf (l : List Step) : List (List Step) := loopsGo l none

/-- the effect of the steps of one loop on the sample in flight; the second component remembers
where the sample was stored, a swap of a *different* stored location is a failure -/
def interp (m : Mode) : List Step → Option (Cell × String) → Option (Cell × String)
  | [], st => st
  | _ :: _, none => none
  | .load :: r, some st => interp m r (some st)
  | .swapLocal :: r, some (c, loc) => interp m r (some (swapIf m c, loc))
  | .storeOvf idx :: r, some (c, _) => interp m r ((scaleDown c).map fun c' => (c', idx))
  | .swapStored idx :: r, some (c, loc) => interp m r (if idx = loc then some (swapIf m c, loc) else none)
  | .ditherInt :: r, some (c, loc) => interp m r (if m.dither then (arith c).map fun c' => (addDither c', loc) else some (c, loc))
  | .storeSpch :: r, some (c, loc) => interp m r ((arith c).map fun c' => (c', loc))
  | .storeSpchUp :: r, some (c, loc) => interp m r ((scaleUp c).map fun c' => (c', loc))
  | .storeSpchUpDither :: r, some (c, loc) => interp m r ((scaleUp c).map fun c' => (addDither c', loc))
  | .other :: r, some st => interp m r (some st)

def run1 (m : Mode) (l : List Step) (c : Cell) : Option Cell := (interp m l (some (c, ""))).map (·.1)

/-- the per-sample loops of function `f` in the regenerated source text -/
def loopsIn (f : String) : List (List Step) :=
  match SSVerif.Generated.feSwapSites.find? (·.1 = f) with
  | some (_, stmts) => loopsOf (stmts.map readStmt)
  | none => []

theorem run1_ovf_loop (m : Mode) (idx : String) (tail : List Step) (ht : tail = [] ∨ tail = [.other]) (c : Cell) :
    run1 m ([.swapLocal, .storeOvf idx, .swapStored idx] ++ tail) c = cellToOvf (m.withEnc .int16) c := by
  obtain ⟨sw, d, e⟩ := m
  obtain ⟨i, rev, par, unit, dith⟩ := c
  rcases ht with rfl | rfl <;> cases sw <;> cases rev <;> cases unit <;>
    simp [run1, interp, cellToOvf, Mode.withEnc, swapIf, scaleDown]

theorem run1_int16_reader (m : Mode) (c : Cell) :
    run1 m [.swapLocal, .ditherInt, .storeSpch] c = cellToSpch m .int16 c := by
  obtain ⟨sw, d, e⟩ := m
  obtain ⟨i, rev, par, unit, dith⟩ := c
  cases sw <;> cases d <;> cases rev <;> cases unit <;>
    simp [run1, interp, cellToSpch, swapIf, arith, addDither]

theorem run1_float32_reader (m : Mode) (c : Cell) :
    (if m.dither then run1 m [.swapLocal, .storeSpchUpDither] c else run1 m [.swapLocal, .storeSpchUp] c)
      = cellToSpch m .float32 c := by
  obtain ⟨sw, d, e⟩ := m
  obtain ⟨i, rev, par, unit, dith⟩ := c
  cases sw <;> cases d <;> cases rev <;> cases unit <;>
    simp [run1, interp, cellToSpch, swapIf, scaleUp, addDither]

/-- **The per-sample loops of the current source text are the model's per-cell functions.**  For the
statements regenerated from `fe_interface.c` / `fe_sigproc.c` (read by `readStmt`, split into loops at
the loads): each of the four overflow helpers has exactly one per-sample loop and it is
`cellToOvf` for int16 calls (swap, scale down, swap back **the location just stored**); each int16
reader has exactly one loop and it is `cellToSpch .int16`; each float32 reader has exactly two loops,
the first (the `if (fe->dither)` branch) and the second (the `else` branch) together are
`cellToSpch .float32`.  For every mode and every cell, including cells in the wrong order (both sides
fail alike). -/
theorem C06_swap_loops_are_model (m : Mode) (c : Cell) :
    (∀ f ∈ ["overflow_append", "read_overflow_frame", "create_overflow_frame", "append_overflow_frame"],
      ∃ l, loopsIn f = [l] ∧ run1 m l c = cellToOvf (m.withEnc .int16) c) ∧
    (∀ f ∈ ["fe_read_frame_int16", "fe_shift_frame_int16"],
      ∃ l, loopsIn f = [l] ∧ run1 m l c = cellToSpch m .int16 c) ∧
    (∀ f ∈ ["fe_read_frame_float32", "fe_shift_frame_float32"],
      ∃ ld ln, loopsIn f = [ld, ln] ∧
        (if m.dither then run1 m ld c else run1 m ln c) = cellToSpch m .float32 c) := by
  refine ⟨?_, ?_, ?_⟩
  · intro f hf
    simp only [List.mem_cons, List.mem_nil_iff, or_false] at hf
    rcases hf with rfl | rfl | rfl | rfl
    · exact ⟨_, by decide +kernel, run1_ovf_loop m "fe->num_overflow_samps+i" [] (Or.inl rfl) c⟩
    · exact ⟨_, by decide +kernel, run1_ovf_loop m "fe->num_overflow_samps+i" [.other] (Or.inr rfl) c⟩
    · exact ⟨_, by decide +kernel, run1_ovf_loop m "i" [.other] (Or.inr rfl) c⟩
    · exact ⟨_, by decide +kernel, run1_ovf_loop m "fe->num_overflow_samps+i" [.other] (Or.inr rfl) c⟩
  · intro f hf
    simp only [List.mem_cons, List.mem_nil_iff, or_false] at hf
    rcases hf with rfl | rfl
    · exact ⟨_, by decide +kernel, run1_int16_reader m c⟩
    · exact ⟨_, by decide +kernel, run1_int16_reader m c⟩
  · intro f hf
    simp only [List.mem_cons, List.mem_nil_iff, or_false] at hf
    rcases hf with rfl | rfl
    · exact ⟨_, _, by decide +kernel, run1_float32_reader m c⟩
    · exact ⟨_, _, by decide +kernel, run1_float32_reader m c⟩

/-- a swap-back of another location than the one just stored is read as a failure (seeded class
"swap-back indexed from the buffer start") -/
example (m : Mode) (c : Cell) :
    run1 m [.swapLocal, .storeOvf "fe->num_overflow_samps+i", .swapStored "i"] c = none := by
  obtain ⟨i, rev, par, unit, dith⟩ := c
  cases h : scaleDown (swapIf m ⟨i, rev, par, unit, dith⟩) <;> simp [run1, interp, h]

/-! ## `SWAP_FLOAT32` reverses the four bytes -/

/-- the five locations the body of `SWAP_FLOAT32` assigns: `tmp` and the bytes `ux[0..3]` of `*x` -/
inductive Loc | tmp | b0 | b1 | b2 | b3
  deriving DecidableEq, Repr

def readLoc (s : String) : Option Loc :=
  if s = "tmp" then some .tmp else if s = "ux[0]" then some .b0 else if s = "ux[1]" then some .b1
  else if s = "ux[2]" then some .b2 else if s = "ux[3]" then some .b3 else none

/-- the 20 assignments `L=R` between two of the five locations; anything else is not understood -/
def readAssign (s : String) : Option (Loc × Loc) :=
  ([Loc.tmp, .b0, .b1, .b2, .b3].flatMap fun l => [Loc.tmp, .b0, .b1, .b2, .b3].map fun r => (l, r)).find? fun p =>
    let name (x : Loc) : String := match x with
      | .tmp => "tmp" | .b0 => "ux[0]" | .b1 => "ux[1]" | .b2 => "ux[2]" | .b3 => "ux[3]"
    decide (s = name p.1 ++ "=" ++ name p.2)

/-- memory of the macro body: `tmp` (uninitialised = `none`) and the four bytes -/
structure Mem (β : Type) where
  tmp : Option β
  b0 : β
  b1 : β
  b2 : β
  b3 : β

def Mem.get {β : Type} (s : Mem β) : Loc → Option β
  | .tmp => s.tmp | .b0 => some s.b0 | .b1 => some s.b1 | .b2 => some s.b2 | .b3 => some s.b3

def Mem.set {β : Type} (s : Mem β) (l : Loc) (v : β) : Mem β :=
  match l with
  | .tmp => { s with tmp := some v } | .b0 => { s with b0 := v } | .b1 => { s with b1 := v }
  | .b2 => { s with b2 := v } | .b3 => { s with b3 := v }

/-- run a list of assignments; reading the uninitialised `tmp` or an unreadable statement fails -/
def execAssigns {β : Type} : List (Option (Loc × Loc)) → Mem β → Option (Mem β)
  | [], s => some s
  | none :: _, _ => none
  | some (l, r) :: rest, s => (s.get r).bind fun v => execAssigns rest (s.set l v)

/-- **`SWAP_FLOAT32` reverses the bytes of its operand** — for the macro text regenerated from
`byteorder.h`: the body declares `uint8 tmp, *ux = (uint8 *)(x)` and its assignment statements, run on
any four bytes, leave `ux[0..3] = b3 b2 b1 b0`. -/
theorem C06_swap_macro_float32_reverses :
    SSVerif.Generated.feSwapFloat32Decl = "uint8tmp,*ux=(uint8*)(x)" ∧
    ∀ {β : Type} (b0 b1 b2 b3 : β),
      (execAssigns (SSVerif.Generated.feSwapFloat32Stmts.map readAssign) ⟨none, b0, b1, b2, b3⟩).map
        (fun s => (s.b0, s.b1, s.b2, s.b3)) = some (b3, b2, b1, b0) := by
  refine ⟨rfl, ?_⟩
  have h : SSVerif.Generated.feSwapFloat32Stmts.map readAssign
      = [some (.tmp, .b3), some (.b3, .b0), some (.b0, .tmp), some (.tmp, .b2), some (.b2, .b1), some (.b1, .tmp)] := by
    decide +kernel
  intro β b0 b1 b2 b3
  rw [h]
  rfl

/-! ## non-vacuity and sensitivity of the failure outcome -/

/-- swap on, dither on, int16 calls, window 5, shift 2: 3+1+0+4+1 samples with limits, then `fe_end` -/
example : ∃ r, runS ⟨true, true, .int16⟩ ⟨5, 2, true⟩
    (inChunks ⟨true, true, .int16⟩ (chunksFrom 0 [(3, []), (1, [0]), (0, []), (4, [1]), (1, [])])) 1 = some r ∧
    r.1.fe.out.map (Frame.map Cell.src) = canonical 5 2 9 := by
  refine ⟨_, rfl, ?_⟩ <;> decide

/-- interleaved entry points: int16, float32, int16, … on the same schedule; swap and dither on -/
example : ∃ r, runX ⟨true, true, .int16⟩ ⟨5, 2, true⟩
    (withEncs (fun j => if j % 2 = 0 then .int16 else .float32)
      (chunksFrom 0 [(3, []), (1, [0]), (0, []), (4, [1]), (1, [])])) 1 = some r ∧
    r.1.fe.out.map (Frame.map Cell.src) = canonical 5 2 9 := by
  refine ⟨_, rfl, ?_⟩ <;> decide

/-- a float32-unit sample handed to the int16 reader (wrong entry point for the data) is a failure -/
example : cellToSpch ⟨false, false, .float32⟩ .int16 (inC ⟨false, false, .float32⟩ 0) = none := by decide

/-- a sample that reaches the overflow buffer *without* the swap back (host order left in the
buffer) makes the next read of the overflow frame fail — the seeded "swap dropped" class -/
example : (scaleDown (swapIf ⟨true, false, .int16⟩ (inC ⟨true, false, .int16⟩ 7))).bind
    (cellToSpch ⟨true, false, .int16⟩ .float32) = none := by decide

/-- a swap-back applied to the *wrong* cell (an overflow cell that was already in input order) leaves
that cell in host order, and the next `fe_read_frame_float32` of it fails -/
example : cellToSpch ⟨true, false, .int16⟩ .float32 (swapIf ⟨true, false, .int16⟩ (ovfC ⟨true, false, .int16⟩ 0)) = none := by
  decide

/-- reading a caller's (input-order) sample without the swap fails when `fe->swap` is set -/
example : arith (inC ⟨true, true, .int16⟩ 3) = none ∧ scaleUp (inC ⟨true, true, .float32⟩ 3) = none := by decide

/-- an overflow buffer left in host order is detected at the next call and at `fe_end` -/
example : let m : Mode := ⟨true, false, .float32⟩
    let bad : Fe Cell := { (tag m { ovf := [0, 1, 2], nOvf := 3, spch := [], prior := none, out := [] }) with
      ovf := [0, 1, 2].map (hostC m) }
    processS m ⟨5, 2, true⟩ bad ([3, 4].map (inC m)) 1 = none ∧ finishS m ⟨5, 2, true⟩ bad 1 = none := by
  decide

/-- with `fe->swap` off nothing is ever swapped: every cell keeps `par = false` -/
example : (hostC ⟨false, true, .int16⟩ 4).par = false ∧ (ovfC ⟨false, true, .int16⟩ 4).rev = false := by decide

end SSVerif.FeSwap
