import SSVerif.Proofs.FeBufClosed
import SSVerif.Generated.FeWidths
/-!
# C06 — the per-call counters in closed form, and that they fit the C types

The theorems of `Props/C06.lean` are about *which samples reach which window*.  The tie to the
code compares, per `fe_process` call, four counters (dry-run count, samples consumed, frames
written, `num_overflow_samps` afterwards).  Here those counters are given as closed arithmetic on
`(carried-over, chunk length, output room)` (`Model/FeBufClosed.lean`) and proved equal to what the
list model produces for **every** schedule — so the model side of the tie can be evaluated in O(1)
per call for chunks of any length (the check uses it for chunk lengths around 2^8, 2^15, 2^16,
k·2^16 …), and the closed form makes the *size relations* explicit: the number of samples
`append_overflow_frame` stashes is `min n (room)` of the **whole** chunk length `n`.

The model computes in unbounded `Nat`.  `C06_quantities_fit_c_types` states the bound that is inside
the theorems: for chunk lengths `< 2^31` (the `(int)` casts of `fe_process`), `frame_size < 2^15`
(`int16` field) and `frame_shift ≥ 2` (asserted by `fe_init`), every per-call quantity lies in the
range of a 32-bit `int`, so no wrap-around happens *provided every variable that holds one of them
is at least 32 bits wide* — that proviso is `C06_count_types_at_least_32_bits`, checked against the
declarations regenerated from the clang AST of the current `src/fe_interface.c`
(`Generated/FeWidths.lean`).
-/
namespace SSVerif.FeBuf
open List

/-- **C06, call log in closed form.** For every schedule (any chunk lengths, any output limits), both
for the repaired (`fixed = true`) and the pinned (`fixed = false`) variant: the list model runs to
`some`, and its per-call log `(dry, limit, consumed, frames, num_overflow_samps)`, the number of
frames `fe_end` writes and the total number of frames are exactly the closed-form values of
`runClosed`, which never looks at a sample. -/
theorem C06_call_log_closed (size shift : Nat) (fixed : Bool) (hs : 0 < shift) (hss : shift ≤ size)
    (specs : List (Nat × List Nat)) (endRoom : Nat) (he : 0 < endRoom) :
    ∃ r nend, run ⟨size, shift, fixed⟩ (chunksFrom 0 specs) endRoom = some (r, nend) ∧
      r.calls = (runClosed ⟨size, shift, fixed⟩ specs).1 ∧
      nend = (runClosed ⟨size, shift, fixed⟩ specs).2.1 ∧
      r.fe.out.length = (runClosed ⟨size, shift, fixed⟩ specs).2.2 ∧ r.left = 0 :=
  run_closed ⟨size, shift, fixed⟩ hs hss specs endRoom he

/-- the state "nothing emitted yet, `o` samples carried over" -/
def restAt (o : Nat) : Fe Nat := { ovf := range' 0 o, nOvf := (o : Int), spch := [], prior := none, out := [] }

theorem rest_restAt (c : Cfg) (o : Nat) (ho : o + c.slack ≤ c.size) : Rest c (restAt o) 0 o :=
  ⟨by simp [restAt], rfl, ho, Or.inl rfl, rfl, rfl⟩

/-- **C06, the per-call quantities fit the C types.**  `o` samples carried over (`o ≤ size − slack`,
the rest invariant), a chunk of `n < 2^31` samples, any output room `L`; `size < 2^15` (`frame_size`
is an `int16` field) and `shift ≥ 2` (asserted by `fe_init`).  Then
* the dry-run count (`int` return value of `output_frame_count`, and `frame_count`) is `< 2^30 + 2`;
* the call consumes at most `n` samples and writes `min(available, L)` frames;
* the carried-over count afterwards is again `≤ size − slack < 2^15`;
* the `size_t` sum `nsamps + num_overflow_samps` is `< 2^31 + 2^15`, and the quantity
  `*spch − orig + *inout_nsamps` that `append_overflow_frame` casts to `int` is the chunk length `n < 2^31`.
So every count is representable in a 32-bit `int`; in a narrower type (16 bits) it is not as soon as
`n ≥ 2^15` — see the examples below. -/
theorem C06_quantities_fit_c_types (c : Cfg) (hs : 1 < c.shift) (hss : c.shift ≤ c.size)
    (hsize : c.size < 2 ^ 15) (o n L : Nat) (ho : o + c.slack ≤ c.size) (hn : n < 2 ^ 31) :
    availClosed c o n + 1 < 2 ^ 30 + 2 ∧
    (callClosed c o n L).1 ≤ n ∧
    (callClosed c o n L).2.1 = min (availClosed c o n) L ∧
    (callClosed c o n L).2.2 + c.slack ≤ c.size ∧ (callClosed c o n L).2.2 < 2 ^ 15 ∧
    n + o < 2 ^ 31 + 2 ^ 15 := by
  obtain ⟨fe', _, R', _, hle, _, hfr⟩ := process_closed' c (by omega) hss (rest_restAt c o ho) n L
  have hR := R'.le
  have hsl := slack_le_one c
  refine ⟨?_, hle, hfr, hR, by omega, by omega⟩
  unfold availClosed
  split
  · omega
  · have h1 := Nat.div_mul_le_self (n + o - c.size) c.shift
    have h2 : (n + o - c.size) / c.shift * 2 ≤ (n + o - c.size) / c.shift * c.shift :=
      Nat.mul_le_mul_left _ hs
    generalize (n + o - c.size) / c.shift = q at h1 h2
    omega

/-! ## the proviso: every count-typed declaration of the C code is at least 32 bits wide -/

/-- an entry of `Generated.feIntDecls` that can hold a count (not one audio sample, not one byte of a byte swap)
and is narrower than 32 bits -/
def narrowCount (d : String × String × String × String × Nat × String) : Bool :=
  d.2.2.2.2.2 == "count" && d.2.2.2.2.1 < 32

/-- **C06, no count is held in a type narrower than 32 bits** (tie to the current source, regenerated by
`tools/gen_fewidths.py` from the clang AST of `src/fe_interface.c` on every run).  In every function
reachable from `fe_process_int16` / `fe_process_float32` / `fe_end` inside `fe_interface.c` (helpers added
later are picked up by the call-graph closure), every integer return type, parameter and local variable —
other than an `int16` holding one audio sample and the `uint8` temporary of the byte swap — and every
integer parameter of the `fe_*` frame functions they call is at least 32 bits wide; there is no integer
conversion to a type narrower than 32 bits other than storing one audio sample; the list is not vacuous:
each of `fe_process`, `output_frame_count`, the four overflow helpers and `fe_end` contributes count-typed
declarations (no variable names are fixed here, so renaming a local is not an alarm).
`frame_size` / `frame_shift` are 16-bit fields (hypothesis `size < 2^15` of
`C06_quantities_fit_c_types`), `num_overflow_samps` is 32 bits.  Together with
`C06_quantities_fit_c_types` (all per-call quantities `< 2^31 + 2^15`, the counts `< 2^31`): the
unbounded arithmetic of the model is the arithmetic of the C code for chunk lengths `< 2^31`. -/
theorem C06_count_types_at_least_32_bits :
    (SSVerif.Generated.feIntDecls.filter narrowCount = []) ∧
    SSVerif.Generated.feNarrowingCasts = [] ∧
    (["fe_process", "output_frame_count", "overflow_append", "read_overflow_frame", "create_overflow_frame",
      "append_overflow_frame", "fe_end"].all fun f =>
        SSVerif.Generated.feIntDecls.any fun d => d.1 == f && d.2.2.2.2.2 == "count") = true ∧
    SSVerif.Generated.feFrameSizeBits = 16 ∧ SSVerif.Generated.feFrameShiftBits = 16 ∧
    SSVerif.Generated.feNumOverflowSampsBits = 32 := by
  decide

/-- the predicate is not vacuous: it rejects the declaration the seeded change `C06-dm1` introduces -/
example : narrowCount ("overflow_fill_count", "param", "n_avail", "uint16", 16, "count") = true ∧
    narrowCount ("append_overflow_frame", "local", "sample", "int16", 16, "sample") = false := by decide

/-! ## non-vacuity, and the size relations the check's generator aims at -/

/-- the schedule of the seeded change `C06-dm1`, default front end (410/160): 1000 samples, then a
chunk of 65576 = 2^16 + 40 samples with room for one frame, then the rest with the dry-run room.
The limited call starts with 360 carried-over samples, emits one frame, still needs 200 of them, and
stashes `min 65576 209 = 209` samples of the chunk (a 16-bit count of the chunk length would give
`min 40 209 = 40`); the real code prints exactly this log. -/
example :
    (runClosed ⟨410, 160, true⟩ [(1000, []), (65576, [1])]).1.map (fun l => (l.dry, l.limit, l.consumed, l.frames, l.novf))
      = [(5, 5, 1000, 4, 360), (411, 1, 209, 1, 409), (410, 410, 65367, 409, 336)] ∧
    (runClosed ⟨410, 160, true⟩ [(1000, []), (65576, [1])]).2 = (1, 415) ∧
    callClosed ⟨410, 160, true⟩ 360 65576 1 = (209, 1, 409) ∧
    callClosed ⟨410, 160, true⟩ 360 (65576 % 2 ^ 16) 1 ≠ (209, 1, 409) := by
  decide

/-- the closed form agrees with the list model on a small schedule with every kind of call
(short chunk, no room, limited call keeping overflow data, zero-length call, final dry-run call) -/
example :
    (run ⟨5, 2, true⟩ (chunksFrom 0 [(3, [0]), (1, [1]), (0, [2]), (8, [0, 1, 1])]) 1).map
        (fun x => (x.1.calls, x.2, x.1.fe.out.length))
      = some (runClosed ⟨5, 2, true⟩ [(3, [0]), (1, [1]), (0, [2]), (8, [0, 1, 1])]) := by
  decide

/-- hypotheses of `C06_quantities_fit_c_types` are met by the default front end with a chunk of
2^31 − 1 samples; 13421773 complete frames are available there (dry-run count 13421774) -/
example : (1 : Nat) < 160 ∧ 160 ≤ 410 ∧ 410 < 2 ^ 15 ∧ 409 + (Cfg.mk 410 160 true).slack ≤ 410 ∧
    2 ^ 31 - 1 < 2 ^ 31 ∧ availClosed ⟨410, 160, true⟩ 409 (2 ^ 31 - 1) = 13421773 := by
  decide

end SSVerif.FeBuf
