import SSVerif.Model.Dict2pid
/-!
# C02 — which triphone is legal at a word boundary (close6-c02)

The flat network of C02 needs, for every (base, left, right, word position), "the acoustic model's triphone".  The check
no longer takes the real `bin_mdef_phone_id_nearest` as data: the driver evaluates the model `Dict2pid.nearest`
(exact tree-walk look-ups on the dumped `cd_tree` + the back-off rule) and the optimum oracle uses its value.  These
theorems spell the rule out as the case analysis the oracle relies on.  The point the seeded change `C02-fm2` got wrong is
the guard: the silence back-off applies whenever the model HAS a silence phone, `0 ≤ sil` — phone id 0 included
(fr-fr: SIL is phone 0); "no silence phone" is `sil < 0`.
-/
namespace SSVerif
open SSVerif.Dict2pid

/-- an exact triphone, at the word position asked for or else at the first other position 0..3 that has it, is the legal one -/
theorem C02_backoff_exact_first (m : BinMdef) (b l r pos p : Nat) (h : tryPos m b l r pos = some p) :
    nearest m b l r pos = p := by
  simp [nearest, h]

/-- no exact triphone at any position, the model has a silence phone (`0 ≤ sil`, id 0 included), and the rule substitutes
silence for a context (filler context, or the outer context of a word-initial / word-final / single-phone position):
the triphone with the substituted contexts is the legal one when the model has it at some position -/
theorem C02_backoff_silence_context (m : BinMdef) (b l r pos p : Nat)
    (hno : tryPos m b l r pos = none) (hsil : 0 ≤ m.sil)
    (hsub : (silCtx m l r pos).1 ≠ l ∨ (silCtx m l r pos).2 ≠ r)
    (h : tryPos m b (silCtx m l r pos).1 (silCtx m l r pos).2 pos = some p) :
    nearest m b l r pos = p := by
  simp only [nearest, hno]
  rw [if_pos (by omega), if_pos hsub, h]
  rfl

/-- a word-final phone before any right context, and a word-initial phone after any left context, always have their outer
context replaced by silence in the back-off: with silence phone 0 the substituted context is phone 0 -/
theorem C02_backoff_outer_context_is_silence (m : BinMdef) (l r : Nat) :
    (silCtx m l r posEnd).2 = m.sil.toNat ∧ (silCtx m l r posBegin).1 = m.sil.toNat ∧
    (silCtx m l r posSingle).1 = m.sil.toNat ∧ (silCtx m l r posSingle).2 = m.sil.toNat := by
  simp [silCtx, posEnd, posBegin, posSingle]

/-- the context-independent phone is legal ONLY when every triphone look-up of the rule failed (or the model has no
silence phone / the rule substitutes nothing) -/
theorem C02_backoff_ci_only_when_all_fail (m : BinMdef) (b l r pos : Nat)
    (hsil : 0 ≤ m.sil) (hsub : (silCtx m l r pos).1 ≠ l ∨ (silCtx m l r pos).2 ≠ r)
    (hno : tryPos m b l r pos = none) :
    nearest m b l r pos = (tryPos m b (silCtx m l r pos).1 (silCtx m l r pos).2 pos).getD b := by
  simp only [nearest, hno]
  rw [if_pos (by omega), if_pos hsub]

end SSVerif
