import SSVerif.Props.C07
import SSVerif.Props.C07Fe
import SSVerif.Proofs.AcmodShape
import SSVerif.Model.AcmodWF
/-!
# C07 — "any prior decoder state" closed under utterance-after-utterance; results modulo determinism of the search

`Props/C07.lean` proves the canonical form of what the search is handed for every start state `s0` with `WF0 s0`,
and `WF0` for the state after `acmod_create` only.  Here:

* `C07_end_state_WF0`, `C07_end_state_WF0_full` — **preservation**: the state a streaming utterance / a batch
  utterance leaves behind (after `decoder_end_utt` and any queries / alignment on the final result) satisfies `WF0`
  again.  Proof: `fault = none`, `|feat_buf| = n_feat_alloc ≥ 1` come from the content invariants (`Closed`, `BInv`),
  the remaining five facts from `Proofs/AcmodShape.lean`, where they are shown to survive *every* function of the model
  without any hypothesis.
* `Ev`, `runHist`, `HistOK`, `C07_any_history` — every finite history of earlier events (streaming utterances with
  arbitrary call patterns / front-end responses / queries / alignment, streaming utterances given by sample counts with
  c06's front end inside, batch utterances, `decoder_set_cmn` between utterances), each meeting the property's own
  premises **at the state it starts from**, ends in a `WF0` state.
* `C07_shape_unconditional` — five of the eight `WF0` facts need no premise at all (any calls, any history).
* `C07_samples_results_identical` — the end-to-end form from samples: same cepstral frames, same windows, hence the same
  value of any `search`, after any two histories.
* `C07_features_canonical_any_history`, `C07_chunking_independent_any_history` — the theorems of `Props/C07.lean` with
  the start state quantified over all such histories (two different histories for the two decodes): this is the
  property's quantifier "any prior decoder state".
* `C07_results_identical`, `C07_alignment_reads_identical` — for **any** function `search` of the sequence of
  (frame, feature window) pairs handed to the first pass, resp. to an alignment pass, the two decodes give the same
  `search` value.  "Identical hyp / seg / scores / alignment" is this statement with `search` := the real search; that
  the real search *is* such a function (of the persistent components, the CMN state at the start and its inputs, and
  of nothing an earlier utterance left behind) is C08's determinism theorem `C08_utterance_function`
  (`Props/C08.lean`), which is the named hypothesis of the prose step.
-/
namespace SSVerif.AcmodBuf
open SSVerif.Generated

/-- the Boolean form evaluated by the driver on every state between two utterances of a replayed history -/
theorem wf0b_iff (s : St) : wf0b s = true ↔ WF0 s := by
  constructor
  · intro h
    simp only [wf0b, Bool.and_eq_true, decide_eq_true_eq, Option.isNone_iff_eq_none] at h
    obtain ⟨⟨⟨⟨⟨⟨⟨a, b⟩, c⟩, d⟩, e⟩, f⟩, g⟩, i⟩ := h
    exact ⟨a, b, c, d, e, f, g, i⟩
  · intro h
    simp only [wf0b, Bool.and_eq_true, decide_eq_true_eq, Option.isNone_iff_eq_none]
    exact ⟨⟨⟨⟨⟨⟨⟨h.nofault, h.grow⟩, h.cepLen⟩, h.cur⟩, h.fbLen⟩, h.alloc1⟩, h.mfcLen⟩, h.mfcAlloc1⟩

theorem WF0.sh {s : St} (h : WF0 s) : Sh s :=
  ⟨h.cepLen, h.cur, h.mfcLen, h.mfcAlloc1, h.grow, fun hb => absurd hb (by decide)⟩

theorem WF0.toF {s : St} (h : WF0 s) : WF0F s := ⟨h.nofault, h.cepLen, h.fbLen, h.alloc1, h.mfcLen, h.mfcAlloc1⟩

/-- **end_state_WF0 (streaming).**  Under the hypotheses of `C07_features_canonical`, the state left behind by the
    utterance — after `decoder_end_utt` and any queries / alignment passes on the final result — satisfies the
    structural facts again: it is a legitimate "prior decoder state" for the next utterance. -/
theorem C07_end_state_WF0 (win : Nat) (skip : Nat → Bool) (s0 : St) (ops post : List Op) (tail : Bool) (hwf : WF0 s0)
    (hw : 3 * win + 2 ≤ livebuf)
    (hcmn : s0.cmnFrames + offeredOps ops + (if tail then 1 else 0) ≤ cmnWinHwm)
    (hfe : tail = true ∨ (runOps true win skip (startUtt s0) ops).nextId = 0)
    (hstream : ∀ op, op ∈ ops → op.isFull = false) (hpost : ∀ op, op ∈ post → op.isProcess = false) :
    WF0 (runUtt true win skip s0 ops tail post) := by
  have hc := runUtt_closed win skip s0 ops post tail hwf hw hcmn hfe hstream hpost
  obtain ⟨h1, h2, h3, h4, h5, _⟩ := sh_runUtt true win skip s0 ops post tail hwf.sh
  have hroom := hc.core.room
  exact ⟨hc.core.nofault, h5, h1, h2, hc.core.fbLen, by omega, h3, h4⟩

/-- the same with the end state named, as the audit asked for it -/
theorem C07_end_state_WF0_named (win : Nat) (skip : Nat → Bool) (s0 sf : St) (ops post : List Op) (tail : Bool) (hwf : WF0 s0)
    (hw : 3 * win + 2 ≤ livebuf)
    (hcmn : s0.cmnFrames + offeredOps ops + (if tail then 1 else 0) ≤ cmnWinHwm)
    (hfe : tail = true ∨ (runOps true win skip (startUtt s0) ops).nextId = 0)
    (hstream : ∀ op, op ∈ ops → op.isFull = false) (hpost : ∀ op, op ∈ post → op.isProcess = false)
    (hrun : runUtt true win skip s0 ops tail post = sf) : WF0 sf :=
  hrun ▸ C07_end_state_WF0 win skip s0 ops post tail hwf hw hcmn hfe hstream hpost

theorem sh_runUttFull (win : Nat) (skip : Nat → Bool) (s0 : St) (pre mid post : List Op) (ns : Bool) (r : FullResp)
    (h : Sh s0) : Sh (runUttFull win skip s0 pre ns r mid post) :=
  sh_runOps true win skip post _ (sh_decEnd true win skip _ false (sh_runOps true win skip mid _
    (sh_step true win skip _ _ (sh_runOps true win skip pre _ (sh_startUtt s0 h)))))

/-- **end_state_WF0 (batch regime).**  A batch utterance (`full_utt = 1`, with or without `no_search`, queries and
    alignment around the call) started from a `WF0` state leaves a `WF0` state — with a cepstrum buffer as large as the
    utterance needed, which is why `WF0` allows any `n_mfc_alloc ≥ 1`. -/
theorem C07_end_state_WF0_full (win : Nat) (skip : Nat → Bool) (s0 : St) (pre mid post : List Op) (ns : Bool) (r : FullResp)
    (hwf : WF0 s0) (hw : 2 * win ≤ livebuf) (hmore : r.more = false) (hM : 1 ≤ fullCount r)
    (hc : s0.cmnBatch = true ∨ s0.cmnFrames + fullCount r ≤ cmnWinHwm)
    (hpre : ∀ op, op ∈ pre → op.isProcess = false) (hmid : ∀ op, op ∈ mid → op.isProcess = false)
    (hpost : ∀ op, op ∈ post → op.isProcess = false) :
    WF0 (runUttFull win skip s0 pre ns r mid post) := by
  obtain ⟨hb, _⟩ := runUttFull_inv win skip s0 pre mid post ns r hwf.toF hw hmore hM hc hpre hmid hpost
  obtain ⟨h1, h2, h3, h4, h5, _⟩ := sh_runUttFull win skip s0 pre mid post ns r hwf.sh
  exact ⟨hb.nofault, h5, h1, h2, hb.fbLen, hb.alloc1, h3, h4⟩

/-! ## histories -/

/-- one earlier event in the life of a decoder -/
inductive Ev
  /-- a streaming utterance: start, calls while open, `decoder_end_utt` (`tail`: `fe_end` has a pending frame), calls after -/
  | stream (skip : Nat → Bool) (ops : List Op) (tail : Bool) (post : List Op)
  /-- a batch utterance: queries, one `decoder_process_*(…, full_utt = 1)` call, queries / alignment, end, the same -/
  | batch (skip : Nat → Bool) (pre : List Op) (ns : Bool) (r : FullResp) (mid post : List Op)
  /-- a streaming utterance given by the *number of samples* of each call only (`Model/AcmodFe.lean`: c06's front-end
      model inside `acmod_process_raw` / `acmod_end_utt` computes the responses) -/
  | samples (size shift : Nat) (skip : Nat → Bool) (ops : List AcmodFe.OpS) (post : List Op)
  /-- `decoder_set_cmn` between two utterances (`cmn_live_set`: the frame count is set, here to any value) -/
  | setCmn (c : Nat)

def Ev.run (win : Nat) (s : St) : Ev → St
  | .stream skip ops tail post => runUtt true win skip s ops tail post
  | .batch skip pre ns r mid post => runUttFull win skip s pre ns r mid post
  | .samples size shift skip ops post => (AcmodFe.runUttS ⟨size, shift, true⟩ true win skip s ops post).st
  | .setCmn c => { s with cmnFrames := c }

/-- the premises of the property for one event, at the state `s` it starts from (all decidable; the check evaluates
    them on every utterance of every decoder it drives) -/
def Ev.ok (win : Nat) (s : St) : Ev → Prop
  | .stream skip ops tail post =>
    s.cmnFrames + offeredOps ops + (if tail then 1 else 0) ≤ cmnWinHwm ∧
    (tail = true ∨ (runOps true win skip (startUtt s) ops).nextId = 0) ∧
    (∀ op, op ∈ ops → op.isFull = false) ∧ (∀ op, op ∈ post → op.isProcess = false)
  | .batch _ pre _ r mid post =>
    r.more = false ∧ 1 ≤ fullCount r ∧ (s.cmnBatch = true ∨ s.cmnFrames + fullCount r ≤ cmnWinHwm) ∧
    (∀ op, op ∈ pre → op.isProcess = false) ∧ (∀ op, op ∈ mid → op.isProcess = false) ∧
    (∀ op, op ∈ post → op.isProcess = false)
  | .samples size shift _ ops post =>
    0 < shift ∧ shift < size ∧ s.cmnFrames + FeBuf.frameCount size shift (AcmodFe.samplesOf ops) ≤ cmnWinHwm ∧
    (∀ op, op ∈ post → op.isProcess = false)
  | .setCmn _ => True

instance (win : Nat) (s : St) (e : Ev) : Decidable (e.ok win s) := by
  cases e <;> unfold Ev.ok <;> infer_instance

/-- the decoder state after a history of events -/
def runHist (win : Nat) (s : St) (evs : List Ev) : St := evs.foldl (Ev.run win) s

/-- every event of the history meets the premises at the state it starts from -/
def HistOK (win : Nat) : St → List Ev → Prop
  | _, [] => True
  | s, e :: es => e.ok win s ∧ HistOK win (e.run win s) es

instance HistOK.dec (win : Nat) : ∀ (s : St) (evs : List Ev), Decidable (HistOK win s evs)
  | _, [] => isTrue trivial
  | s, e :: es => by
    unfold HistOK
    have := HistOK.dec win (e.run win s) es
    infer_instance

theorem C07_event_WF0 (win : Nat) (hw : 3 * win + 2 ≤ livebuf) (s : St) (e : Ev) (hwf : WF0 s) (hok : e.ok win s) :
    WF0 (e.run win s) := by
  cases e with
  | stream skip ops tail post =>
    obtain ⟨h1, h2, h3, h4⟩ := hok
    exact C07_end_state_WF0 win skip s ops post tail hwf hw h1 h2 h3 h4
  | batch skip pre ns r mid post =>
    obtain ⟨h1, h2, h3, h4, h5, h6⟩ := hok
    exact C07_end_state_WF0_full win skip s pre mid post ns r hwf (by omega) h1 h2 h3 h4 h5 h6
  | samples size shift skip ops post =>
    obtain ⟨h1, h2, h3, h4⟩ := hok
    obtain ⟨ops', tail, e, g1, g2, g3, _⟩ := AcmodFe.C07_runUttS_eq_runUtt size shift win skip s ops post h1 h2 hwf hw h3 h4
    show WF0 (AcmodFe.runUttS ⟨size, shift, true⟩ true win skip s ops post).st
    rw [e]
    exact C07_end_state_WF0 win skip s ops' post tail hwf hw g1 g2 g3 h4
  | setCmn c => exact ⟨hwf.nofault, hwf.grow, hwf.cepLen, hwf.cur, hwf.fbLen, hwf.alloc1, hwf.mfcLen, hwf.mfcAlloc1⟩

/-- preservation along a history, from any `WF0` state -/
theorem C07_history_WF0 (win : Nat) (hw : 3 * win + 2 ≤ livebuf) : ∀ (evs : List Ev) (s : St), WF0 s → HistOK win s evs →
    WF0 (runHist win s evs)
  | [], _, h, _ => h
  | e :: es, s, h, hok => C07_history_WF0 win hw es (e.run win s) (C07_event_WF0 win hw s e h hok.1) hok.2

/-- **any_history.**  Every decoder state reachable from `acmod_create` by a finite history of utterances —
    streaming with any partition into calls, any `no_search` flags, any front-end batch structure, any queries and
    alignment passes; batch; `decoder_set_cmn` in between — each within the property's premises, satisfies the
    structural facts the theorems of this property ask of "the prior decoder state". -/
theorem C07_any_history (win : Nat) (hw : 3 * win + 2 ≤ livebuf) (cmn0 : Nat) (evs : List Ev)
    (hok : HistOK win (St.init cmn0) evs) : WF0 (runHist win (St.init cmn0) evs) :=
  C07_history_WF0 win hw evs _ (WF0_init cmn0) hok

/-- **features_canonical after any history.** -/
theorem C07_features_canonical_any_history (win : Nat) (hw : 3 * win + 2 ≤ livebuf) (cmn0 : Nat) (hist : List Ev)
    (hh : HistOK win (St.init cmn0) hist) (skip : Nat → Bool) (ops post : List Op) (tail : Bool)
    (hok : (Ev.stream skip ops tail post).ok win (runHist win (St.init cmn0) hist)) :
    let sf := runUtt true win skip (runHist win (St.init cmn0) hist) ops tail post
    sf.searched = (List.range sf.nextId).map fun k => (k, some (canon win sf.nextId k)) := by
  obtain ⟨h1, h2, h3, h4⟩ := hok
  exact C07_features_canonical win skip _ ops post tail (C07_any_history win hw cmn0 hist hh) hw h1 h2 h3 h4

/-- **chunking independence for any prior decoder state.**  Two decoders with two arbitrary histories (other audio,
    other partitions, streaming or batch utterances, CMN reset or not), then the same number of frames delivered under
    any two call patterns: the search is handed the same sequence of feature windows. -/
theorem C07_chunking_independent_any_history (win : Nat) (hw : 3 * win + 2 ≤ livebuf) (cmn0 cmn0' : Nat) (hist hist' : List Ev)
    (hh : HistOK win (St.init cmn0) hist) (hh' : HistOK win (St.init cmn0') hist')
    (skip skip' : Nat → Bool) (ops ops' post post' : List Op) (tail tail' : Bool)
    (hok : (Ev.stream skip ops tail post).ok win (runHist win (St.init cmn0) hist))
    (hok' : (Ev.stream skip' ops' tail' post').ok win (runHist win (St.init cmn0') hist'))
    (hM : (runUtt true win skip (runHist win (St.init cmn0) hist) ops tail post).nextId =
      (runUtt true win skip' (runHist win (St.init cmn0') hist') ops' tail' post').nextId) :
    (runUtt true win skip (runHist win (St.init cmn0) hist) ops tail post).searched =
      (runUtt true win skip' (runHist win (St.init cmn0') hist') ops' tail' post').searched := by
  obtain ⟨h1, h2, h3, h4⟩ := hok
  obtain ⟨h1', h2', h3', h4'⟩ := hok'
  exact C07_chunking_independent win skip skip' _ _ ops ops' post post' tail tail'
    (C07_any_history win hw cmn0 hist hh) (C07_any_history win hw cmn0' hist' hh') hw h1 h1' h2 h2' h3 h3' h4 h4' hM

/-! ## results, modulo determinism of the search -/

/-- **results_identical.**  Let `search` be *any* function from the sequence of (frame index, feature window) pairs the
    first pass is handed to a result (hypothesis, path score, segmentation with frames and scores, lattice, …).  Two
    decodes of the same number of frames — any two histories, any two call patterns — have the same `search` value.
    That the real first pass is such a function (of the persistent components and the CMN state at the start besides its
    inputs, and of nothing earlier utterances left behind) is `C08_utterance_function`; that the cepstra behind the
    frame ids do not depend on the partition is C06 (`C07_samples_chunking_independent` composes it). -/
theorem C07_results_identical {ρ : Type} (search : List (Nat × Option Feat) → ρ)
    (win : Nat) (hw : 3 * win + 2 ≤ livebuf) (cmn0 cmn0' : Nat) (hist hist' : List Ev)
    (hh : HistOK win (St.init cmn0) hist) (hh' : HistOK win (St.init cmn0') hist')
    (skip skip' : Nat → Bool) (ops ops' post post' : List Op) (tail tail' : Bool)
    (hok : (Ev.stream skip ops tail post).ok win (runHist win (St.init cmn0) hist))
    (hok' : (Ev.stream skip' ops' tail' post').ok win (runHist win (St.init cmn0') hist'))
    (hM : (runUtt true win skip (runHist win (St.init cmn0) hist) ops tail post).nextId =
      (runUtt true win skip' (runHist win (St.init cmn0') hist') ops' tail' post').nextId) :
    search (runUtt true win skip (runHist win (St.init cmn0) hist) ops tail post).searched =
      search (runUtt true win skip' (runHist win (St.init cmn0') hist') ops' tail' post').searched :=
  congrArg search (C07_chunking_independent_any_history win hw cmn0 cmn0' hist hist' hh hh' skip skip' ops ops' post post'
    tail tail' hok hok' hM)

/-- **alignment_reads_identical.**  Any two alignment passes of the two decodes (on partial results or on the final
    one) that score the same number of frames read the same sequence of feature windows; hence any function `align` of
    that sequence (the word / phone / state alignment with its scores) has the same value. -/
theorem C07_alignment_reads_identical {ρ : Type} (align : List (Nat × Option Feat) → ρ)
    (win : Nat) (hw : 3 * win + 2 ≤ livebuf) (cmn0 cmn0' : Nat) (hist hist' : List Ev)
    (hh : HistOK win (St.init cmn0) hist) (hh' : HistOK win (St.init cmn0') hist')
    (skip skip' : Nat → Bool) (ops ops' post post' : List Op) (tail tail' : Bool)
    (hok : (Ev.stream skip ops tail post).ok win (runHist win (St.init cmn0) hist))
    (hok' : (Ev.stream skip' ops' tail' post').ok win (runHist win (St.init cmn0') hist'))
    (hM : (runUtt true win skip (runHist win (St.init cmn0) hist) ops tail post).nextId =
      (runUtt true win skip' (runHist win (St.init cmn0') hist') ops' tail' post').nextId)
    (l l' : List (Nat × Option Feat))
    (hl : l ∈ (runUtt true win skip (runHist win (St.init cmn0) hist) ops tail post).aligned)
    (hl' : l' ∈ (runUtt true win skip' (runHist win (St.init cmn0') hist') ops' tail' post').aligned)
    (hlen : l.length = l'.length) : align l = align l' := by
  obtain ⟨h1, h2, h3, h4⟩ := hok
  obtain ⟨h1', h2', h3', h4'⟩ := hok'
  obtain ⟨p, _, e⟩ := C07_alignment_canonical win skip _ ops post tail (C07_any_history win hw cmn0 hist hh) hw h1 h2 h3 h4 l hl
  obtain ⟨p', _, e'⟩ := C07_alignment_canonical win skip' _ ops' post' tail' (C07_any_history win hw cmn0' hist' hh') hw
    h1' h2' h3' h4' l' hl'
  have hp : p = p' := by
    have a : l.length = p := by rw [e]; simp
    have a' : l'.length = p' := by rw [e']; simp
    omega
  rw [e, e', hM, hp]


/-! ## what needs no premise at all -/

/-- an utterance made of arbitrary calls: any mixture of streaming and batch calls, audio after the end, any responses,
    either control flow (`fix`: with / without the D8 repair) — nothing is assumed -/
structure AnyUtt where
  fix : Bool
  skip : Nat → Bool
  ops : List Op
  tail : Bool
  post : List Op

/-- **shape_unconditional.**  Five of the eight facts of `WF0` — the live ring has `LIVEBUFBLOCKSIZE` slots, `curpos` is
    in range, `mfc_buf` has `n_mfc_alloc ≥ 1` slots, `grow_feat` is set — hold after **every** history of arbitrary
    utterances, inside or outside the property's premises (utterances longer than the CMN window, mixed regimes, calls
    after `decoder_end_utt`, a front end that breaks its contract).  The premises of `C07_any_history` are needed only for the
    other three: `fault = none` (which is `ring_safe` itself) and `|feat_buf| = n_feat_alloc ≥ 1`. -/
theorem C07_shape_unconditional (win : Nat) (cmn0 : Nat) (us : List AnyUtt) :
    let s := us.foldl (fun s u => runUtt u.fix win u.skip s u.ops u.tail u.post) (St.init cmn0)
    s.cepbuf.length = livebuf ∧ s.curpos < livebuf ∧ s.mfcBuf.length = s.nMfcAlloc ∧ 1 ≤ s.nMfcAlloc ∧ s.growFeat = true := by
  have key : ∀ (us : List AnyUtt) (s : St), Sh s → Sh (us.foldl (fun s u => runUtt u.fix win u.skip s u.ops u.tail u.post) s) := by
    intro us
    induction us with
    | nil => intro s h; exact h
    | cons u us ih => intro s h; exact ih _ (sh_runUtt u.fix win u.skip s u.ops u.post u.tail h)
  obtain ⟨h1, h2, h3, h4, h5, _⟩ := key us _ (WF0_init cmn0).sh
  exact ⟨h1, h2, h3, h4, h5⟩

/-! ## from samples: the front end inside, any history -/

/-- **samples → identical results, any prior decoder state.**  Two decoders with two arbitrary histories; the same number
    of samples fed under any two partitions into calls (any chunk lengths down to one sample, `no_search` or not, queries
    and partial alignments in between).  Then the front end has produced the same cepstral frames (`fe.out`, c06's
    model: the canonical frames of the signal), the first pass was handed the same sequence of feature windows, and
    therefore **any** function `search` of (cepstral frames, window sequence) — hypothesis, path score, segmentation,
    scores — has the same value in both.  The premises are decidable facts about sample counts and `cmn->nframe` only. -/
theorem C07_samples_results_identical {ρ : Type} (search : List (FeBuf.Frame Nat) → List (Nat × Option Feat) → ρ)
    (size shift win : Nat) (hs : 0 < shift) (hlt : shift < size) (hw : 3 * win + 2 ≤ livebuf) (cmn0 cmn0' : Nat)
    (hist hist' : List Ev) (hh : HistOK win (St.init cmn0) hist) (hh' : HistOK win (St.init cmn0') hist')
    (skip skip' : Nat → Bool) (ops ops' : List AcmodFe.OpS) (post post' : List Op)
    (hN : AcmodFe.samplesOf ops = AcmodFe.samplesOf ops')
    (hcmn : (runHist win (St.init cmn0) hist).cmnFrames + FeBuf.frameCount size shift (AcmodFe.samplesOf ops) ≤ cmnWinHwm)
    (hcmn' : (runHist win (St.init cmn0') hist').cmnFrames + FeBuf.frameCount size shift (AcmodFe.samplesOf ops') ≤ cmnWinHwm)
    (hpost : ∀ op, op ∈ post → op.isProcess = false) (hpost' : ∀ op, op ∈ post' → op.isProcess = false) :
    search (AcmodFe.runUttS ⟨size, shift, true⟩ true win skip (runHist win (St.init cmn0) hist) ops post).fe.out
        (AcmodFe.runUttS ⟨size, shift, true⟩ true win skip (runHist win (St.init cmn0) hist) ops post).st.searched =
      search (AcmodFe.runUttS ⟨size, shift, true⟩ true win skip' (runHist win (St.init cmn0') hist') ops' post').fe.out
        (AcmodFe.runUttS ⟨size, shift, true⟩ true win skip' (runHist win (St.init cmn0') hist') ops' post').st.searched := by
  obtain ⟨e1, e2⟩ := AcmodFe.C07_samples_chunking_independent size shift win skip skip' _ _ ops ops' post post' hs hlt
    (C07_any_history win hw cmn0 hist hh) (C07_any_history win hw cmn0' hist' hh') hw hN hcmn hcmn' hpost hpost'
  rw [e1, e2]

/-! ## non-vacuity: a two-utterance history on a ring of 300 frames, the second utterance partitioned two ways -/

def noSkip : Nat → Bool := fun _ => false

/-- first utterance: a batch decode whose frame-count estimate is 300 (11 frames delivered: 10 from `fe_process`, one
    from `fe_end`), with a query before and an alignment after: the cepstrum buffer is replaced by one of 300 frames and
    stays that large; batch CMN leaves `cmn->nframe = 11` -/
def hist300 : List Ev := [.batch noSkip [.query] false ⟨300, 10, false, true⟩ [] [.align (some 11)]]

/-- second utterance, 141 frames: 5 + 135 (one call delivers more frames than the initial ring of 128 holds) + tail -/
def opsA : List Op := [.process false [⟨5, false⟩], .process false [⟨135, false⟩]]
/-- the same 141 frames as 50 + 0 + 50 (buffered, `no_search`) + a partial alignment + a query + 40 + tail, and an
    alignment of the final result -/
def opsB : List Op := [.process false [⟨50, false⟩], .process false [⟨0, false⟩], .process true [⟨50, false⟩],
  .align (some 20), .query, .process false [⟨40, false⟩]]
def uttA : Ev := .stream noSkip opsA true []
def uttB : Ev := .stream noSkip opsB true [.align (some 141)]

example : (runHist 3 (St.init 500) hist300).nMfcAlloc = 300 ∧ (runHist 3 (St.init 500) hist300).cmnFrames = 11 ∧
    wf0b (runHist 3 (St.init 500) hist300) = true := by decide +kernel

/-- the premises hold along both two-utterance histories … -/
example : HistOK 3 (St.init 500) (hist300 ++ [uttA]) ∧ HistOK 3 (St.init 500) (hist300 ++ [uttB]) := by decide +kernel

/-- … so the theorem applies to them: the two partitions of the second utterance hand the search the same windows -/
example : (runUtt true 3 noSkip (runHist 3 (St.init 500) hist300) opsA true []).searched =
    (runUtt true 3 noSkip (runHist 3 (St.init 500) hist300) opsB true [.align (some 141)]).searched :=
  C07_chunking_independent_any_history 3 (by decide) 500 500 hist300 hist300 (by decide +kernel) (by decide +kernel)
    noSkip noSkip opsA opsB [] [.align (some 141)] true true (by decide +kernel) (by decide +kernel) (by decide +kernel)

/-- the model's own run of the second history: 141 search steps, one alignment pass over 141 frames, and the end state
    satisfies the structural facts again (Boolean form, as the driver evaluates it) -/
example : (runHist 3 (St.init 500) (hist300 ++ [uttB])).searched.length = 141 ∧
    ((runHist 3 (St.init 500) (hist300 ++ [uttB])).aligned.map List.length) = [20, 141] ∧
    (runHist 3 (St.init 500) (hist300 ++ [uttB])).nMfcAlloc = 300 ∧
    wf0b (runHist 3 (St.init 500) (hist300 ++ [uttB])) = true := by decide +kernel

/-- a three-utterance history whose last event is given by sample counts only (23 samples, windows of 5 with shift 2, fed as
    3 + 1 (buffered) + 0 + 12 + 7 with a query and a partial alignment: `AcmodFe.exOpsS`) -/
def histS : List Ev := hist300 ++ [uttA, .setCmn 500, .samples 5 2 noSkip AcmodFe.exOpsS [.align (some 11)]]

example : HistOK 3 (St.init 500) histS ∧ wf0b (runHist 3 (St.init 500) histS) = true ∧
    (runHist 3 (St.init 500) histS).nMfcAlloc = 300 ∧ (runHist 3 (St.init 500) histS).searched.length = 11 := by
  decide +kernel

/-- after that history and after the bare two-utterance one: 23 samples in one call and one sample per call give the same
    cepstral frames and the same windows (the theorem applied; premises by evaluation) -/
example :
    ((AcmodFe.runUttS ⟨5, 2, true⟩ true 3 noSkip (runHist 3 (St.init 500) histS) [.process false 23] []).fe.out,
      (AcmodFe.runUttS ⟨5, 2, true⟩ true 3 noSkip (runHist 3 (St.init 500) histS) [.process false 23] []).st.searched) =
    ((AcmodFe.runUttS ⟨5, 2, true⟩ true 3 noSkip (runHist 3 (St.init 400) hist300) ((List.range 23).map fun _ => .process false 1) []).fe.out,
      (AcmodFe.runUttS ⟨5, 2, true⟩ true 3 noSkip (runHist 3 (St.init 400) hist300) ((List.range 23).map fun _ => .process false 1) []).st.searched) :=
  C07_samples_results_identical (fun a b => (a, b)) 5 2 3 (by decide) (by decide) (by decide) 500 400 histS hist300
    (by decide +kernel) (by decide +kernel) noSkip noSkip _ _ [] [] (by decide +kernel) (by decide +kernel) (by decide +kernel)
    (by decide) (by decide)

end SSVerif.AcmodBuf
