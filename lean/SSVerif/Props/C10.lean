import SSVerif.Proofs.TextIn
import SSVerif.Proofs.TextFsg
import SSVerif.Proofs.TextDict
import SSVerif.Proofs.TextJson
/-!
# C10 — Untrusted grammar, dictionary, configuration and text inputs are handled safely

Property theorems only.  The models (`Model/TextIn`, `TextFsg`, `TextDict`, `TextJson`) are total
Lean functions over **arbitrary byte arrays** that mirror the C scanners; every read of the input
buffer in them is `buf[i]'h` with `h : i < buf.size`, so that they type-check is already the
statement "the model reads only inside `[buf, end)`".  The theorems below say, for *every* byte
string:

* `*_total`   — each parser returns an object or an error (and, behind it, that Lean accepted the
  definitions: the loops terminate because each `nextLine`/`nextWord`/token step strictly advances);
* `*_in_bounds` — what the tokenisers hand out lies inside the buffer / the line / the JSON text,
  and is exactly the run of bytes the C code delimits;
* `*_wf`      — an accepted object satisfies the well-formedness the other models assume.

**Partial** (labelled in MANIFEST): that the *C code* performs no out-of-bounds access, leak, exit
or unbounded loop is observed under ASan/UBSan/LSan by the correspondence harness, not proved;
the JSGF front end (`jsgf_scanner.c`, `jsgf_parser.c`, generated code) is not modelled at all — for
arbitrary bytes only termination and memory safety of the C side are observed.
-/
namespace SSVerif.TextIn

/-! ## totality -/

/-! **Totality is by construction, not a theorem.**  Every parser of `Model/Text*.lean` is a total
Lean function defined by structural or well-founded recursion (`termination_by` with a proved
measure) — no fuel parameter in `TextIn`/`TextFsg`/`TextDict`/`TextJson`, no `partial`, no
`unsafe` (the forbidden-construct grep of the check) — so it returns `ok`/`error` on every byte
string because it type-checks.  A statement "the result is `ok _` or `error _`" is true of every
value of the type and is deliberately **not** listed as a property theorem (audit item A3; the
former `C10_parsers_total` was removed).  What is proved about termination with content is the
iteration bound `C10_line_loop_bounded` below, and for the fuel-indexed loops of
`Model/TextSvspec.lean` that the fuel is never observed (`C10_svspec_fuel_never_observed`). -/

/-- **C10, progress.** The line loop runs at most once per remaining byte: `s3file_nextline`
strictly advances `s->ptr` and never beyond `end`. -/
theorem C10_line_loop_bounded (buf : Buf) (ptr : Nat) :
    (allLines buf ptr).length ≤ buf.size - ptr ∧
    ∀ l, nextLine buf ptr = some l → l.lo = ptr ∧ ptr < l.hi ∧ l.hi ≤ buf.size :=
  ⟨allLines_length buf ptr, fun l h => ⟨nextLine_lo buf ptr l h, by have := nextLine_lo buf ptr l h; have := l.lt; omega, l.le⟩⟩

/-! ## in-bounds -/

/-- **C10, `s3file_nextline` in bounds.** The line returned starts at `ptr`, contains no `'\n'`
except as its last byte, and ends at the end of the buffer or just after a `'\n'`; at the end of
the buffer there is no line. -/
theorem C10_nextLine_in_bounds (buf : Buf) (ptr : Nat) :
    (nextLine buf ptr = none ↔ buf.size ≤ ptr) ∧
    ∀ l, nextLine buf ptr = some l →
      l.lo = ptr ∧ l.hi ≤ buf.size ∧
      (∀ i (hi : i < buf.size), l.lo ≤ i → i + 1 < l.hi → buf[i]'hi ≠ 10) ∧
      (l.hi = buf.size ∨ ∃ (hh : l.hi - 1 < buf.size), buf[l.hi - 1]'hh = 10) :=
  ⟨nextLine_none buf ptr, fun l h =>
    let s := nextLine_spec buf ptr l h
    ⟨s.1, l.le, s.2.1, s.2.2⟩⟩

/-- **C10, the lines tile the buffer.** Reading line after line from `ptr` visits every byte of
`[ptr, end)` exactly once: each line starts where the previous one ended. -/
theorem C10_lines_tile_buffer (buf : Buf) (ptr : Nat) : Tiles ptr (allLines buf ptr) :=
  allLines_tiles buf ptr

/-- **C10, `s3file_nextword` in bounds.** With the line bound `e ≤ end`, the word returned lies
inside `[p, e)`, is preceded only by white space, consists of non-space bytes, and is followed by
white space or by the bound; `none` means everything up to the bound is white space. -/
theorem C10_nextWord_in_bounds (buf : Buf) (p e : Nat) (he : e ≤ buf.size) :
    (∀ w, nextWord buf p e he = some w →
      p ≤ w.lo ∧ w.hi ≤ e ∧
      (∀ i (hi : i < buf.size), p ≤ i → i < w.lo → isSpaceC (buf[i]'hi) = true) ∧
      (∀ i (hi : i < buf.size), w.lo ≤ i → i < w.hi → isSpaceC (buf[i]'hi) = false) ∧
      (w.hi = e ∨ ∃ (hh : w.hi < buf.size), isSpaceC (buf[w.hi]'hh) = true)) ∧
    (nextWord buf p e he = none → ∀ i (hi : i < buf.size), p ≤ i → i < e → isSpaceC (buf[i]'hi) = true) :=
  ⟨fun w h => nextWord_spec buf p e he w h, nextWord_none buf p e he⟩

/-- **C10, words stay inside their line** (`end = s->ptr`), and a copied word is exactly the bytes
of its span: as long as the span and without white space (NUL counts as white space). -/
theorem C10_words_in_line (buf : Buf) (l : Span buf.size) :
    ∀ w ∈ lineWords buf l, l.lo ≤ w.lo ∧ w.hi ≤ l.hi ∧
      slice buf w = (buf.extract w.lo w.hi).toList ∧ (slice buf w).length = w.hi - w.lo ∧
      ∀ b ∈ slice buf w, isSpaceC b = false :=
  fun w hw => ⟨(lineWords_within buf l w hw).1, (lineWords_within buf l w hw).2, slice_eq buf w, slice_length buf w,
    wordsFrom_nonspace buf l.lo l.hi l.le w hw⟩

/-- **C10, JSON tokens in bounds.** When `jsmn_parse` accepts a text, there is at least one token,
every token is closed, and `0 ≤ start ≤ end ≤ strlen(json)`: the `memcpy`/`unescape` of
`config_parse_json` (`json + start`, length `end - start`) stays inside the string. -/
theorem C10_json_tokens_in_bounds (js : Buf) (toks : Array Tok) (h : jsmnParse js = .ok toks) :
    0 < toks.size ∧
    ∀ i (hi : i < toks.size), ∃ e, (toks[i]'hi).stop = some e ∧ (toks[i]'hi).start ≤ e ∧ e ≤ js.size :=
  jsmnParse_tokens_in_text js toks h

/-- **C10, integer conversions.** `strtol`/`sscanf("%ld")` results are inside the range of `long`
and the `(int)` truncation inside the range of `int32` — for every token, however long. -/
theorem C10_int_conversions_in_range (s : List UInt8) (v : Int) (h : strtol10 s = some v) :
    longMin ≤ v ∧ v ≤ longMax ∧ -2147483648 ≤ wrap32 v ∧ wrap32 v ≤ 2147483647 :=
  ⟨(strtol10_range s v h).1, (strtol10_range s v h).2, (wrap32_range v).1, (wrap32_range v).2⟩

/-! ## well-formedness of accepted objects -/

/-- **C10, FSG well-formedness.** Whatever bytes `fsg_model_read_s3file` accepts: the state count
fits `int32`, start and final state are states, every transition connects states, carries a word id
of the vocabulary and a probability whose `float32` value is in `(0, 1]` (`ProbOk`: NaN, ∞, zero
and negative values are refused); null transitions are not self-loops; vocabulary entries are
distinct, non-empty and free of white space and NUL. -/
theorem C10_fsg_wf (buf : Buf) (f : FsgObj) (h : fsgRead buf = .ok f) : FsgWF f :=
  fsgRead_wf buf f h

/-- **C10, the probability test is exact.** `probAccept` (the model of
`p = (float32)atof(word); !(p > 0 && p <= 1)` with its magnitude short cuts for astronomically
long exponents) accepts *exactly* the positive finite literals `m·B^e` with
`2^-150 + 2^-203 < m·B^e ≤ 1 + 2^-24 + 2^-53` — the reals whose `double`-then-`float32` rounding
lies in `(0, 1]`; NaN, ±∞, zero and negative literals are refused. -/
theorem C10_prob_test_exact (p : FloatLit) :
    probAccept p = true ↔ ∃ m ten e, p = .fin false m ten e ∧ 0 < m ∧ probInRange m ten e := by
  constructor
  · intro h
    obtain ⟨m, ten, e, rfl, hr⟩ := probAccept_sound p h
    refine ⟨m, ten, e, rfl, ?_, hr⟩
    rcases Nat.eq_zero_or_pos m with h0 | h0
    · subst h0; simp [probAccept] at h
    · exact h0
  · rintro ⟨m, ten, e, rfl, _, hr⟩
    exact probAccept_complete m ten e hr

/-- **C10, dictionary well-formedness.** Whatever bytes `dict_init_s3file` accepts (main and
filler dictionary), given that the silence phone is a phone of the model: every pronunciation is
non-empty with phone ids `< n_ci`; base and alternative ids are word ids; no word is empty or
occurs twice; the filler range starts inside the dictionary and `<sil>` is present. -/
theorem C10_dict_wf (phones : List (List UInt8)) (sil : Nat) (hs : sil < phones.length)
    (main fdict : Option Buf) (d : Dict) (h : dictInit phones sil main fdict = .ok d) :
    DictWF phones.length d :=
  dictInit_wf phones sil hs main fdict d h

/-- **C10, `decoder_add_word`.** An accepted `(word, phones)` pair extends a well-formed
dictionary to a well-formed dictionary by one entry with the next word id, the given word and a
non-empty pronunciation of phone ids `< n_ci`. -/
theorem C10_addWord_wf (phones : List (List UInt8)) (d d' : Dict) (word ps : List UInt8) (wid : Nat)
    (hI : DictInv phones.length d) (h : addWord phones d word ps = .ok (d', wid)) :
    DictInv phones.length d' ∧ wid = d.size ∧ d'.size = d.size + 1 ∧
    ∃ e, d'.words[wid]? = some e ∧ e.word = word ∧ e.pron ≠ [] ∧ ∀ p ∈ e.pron, p < phones.length :=
  addWord_wf phones d d' word ps wid hI h

/-- **C10, alignment text.** An accepted text is a sequence of non-empty dictionary words that
contain no delimiter: the linear grammar built from it has `ws.length + 1` states and one word
arc per word. -/
theorem C10_align_wf (d : Dict) (text : List UInt8) (ws : List (List UInt8)) (h : alignWords d text = .ok ws) :
    ∀ w ∈ ws, w ≠ [] ∧ (∀ b ∈ w, isAlignDelim b = false) ∧ (d.wordId w).isSome = true :=
  alignWords_wf d text ws h

/-- **C10, typed configuration.** An accepted JSON / key-value string yields a configuration with
exactly the declared parameters in the declared order, every value of its declared type and every
integer inside the range of `long`. -/
theorem C10_config_wf (defs : List CfgDef) (json : List UInt8) (c : Config)
    (h : configParseJson defs json = .ok c) :
    (∀ x ∈ c, TypeOk x.1.ty x.2) ∧ c.map (·.1.name) = (configInit defs).map (·.1.name) :=
  configParseJson_wf defs json c h

/-! ## non-vacuity: concrete inputs through the byte-level models -/

/-- the error of a refused input -/
def errOf {ε α : Type} : Except ε α → Option ε
  | .error e => some e
  | .ok _ => none

def exFsg : Buf := "# c\nFSG_BEGIN x\nN 3\nS 0\nF 2\nTRANS 0 1 0.5 go\nT 1 1 1.0\nT 1 2 .25\nT 0 1 1e-2 go\nFSG_\nT 9 9 9 x".toUTF8.data

-- accepted: 3 states, one word, two word transitions, the null self-loop dropped, text after FSG_END ignored
example : (match fsgRead exFsg with
    | .ok f => f.nState == 3 && f.start == 0 && f.final == 2 && f.vocab == ["go".toUTF8.data.toList] &&
               f.trans.length == 2 && f.nulls.map (fun t => (t.1, t.2.1)) == [(1, 2)]
    | .error _ => false) = true := by decide +kernel

-- refused inputs, one per class: nan (D18), state out of range after (int) truncation, missing header
example : errOf (fsgRead "FSG_BEGIN x\nN 2\nS 0\nF 1\nT 0 1 nan go\n".toUTF8.data) = some .probMalformed := by decide +kernel
example : errOf (fsgRead "FSG_BEGIN x\nN 2\nS 0\nF 1\nT 0 4294967298 0.5 go\n".toUTF8.data) = some .toInvalid := by decide +kernel
example : (match fsgRead "FSG_BEGIN x\nN 2\nS 0\nF 1\nT 0 4294967297 0.5 go".toUTF8.data with
    | .ok f => f.trans.map (fun t => (t.1, t.2.1)) == [(0, 1)] | .error _ => false) = true := by decide +kernel
example : errOf (fsgRead "N 2\nS 0\n".toUTF8.data) = some .beginMissing := by decide +kernel
-- keywords match by prefix (`strncmp(word, KW, ptr - word)`): the line `F 1` is an `FSG_BEGIN` line
example : errOf (fsgRead "N 2\nS 0\nF 1\n".toUTF8.data) = some .nStatesMissing := by decide +kernel
-- a state count beyond int32: refused as malformed where the reader tests the bound (D88), otherwise truncated (here to -1)
example : errOf (fsgRead "FSG_BEGIN x\nN 4294967295\nS 0\n".toUTF8.data) =
    some (if Generated.TextIn.fsgNStatesMax.isSome then .nStatesMalformed else .allocFail) := by decide +kernel
example : nStatesTooBig 5 = false := by decide +kernel

-- the probability boundary: 1 + 2^-24 rounds to 1.0f (accepted), 1.0000002 does not; 1e-46 rounds to 0
example : probAccept (atofLit "1.000000059604644775390625".toUTF8.data.toList) = true := by decide +kernel
example : probAccept (atofLit "1.0000002".toUTF8.data.toList) = false := by decide +kernel
example : probAccept (atofLit "1e-46".toUTF8.data.toList) = false := by decide +kernel
example : probAccept (atofLit "0x1p-1".toUTF8.data.toList) = true := by decide +kernel
example : probAccept (atofLit "-0".toUTF8.data.toList) = false ∧ probAccept (atofLit "inf".toUTF8.data.toList) = false := by decide +kernel

-- the tokeniser: NUL is white space, the last word of an unterminated last line ends at the buffer end
example : (lineWords (#[97, 0, 98, 32, 99] : Buf) ⟨0, 5, by decide, by decide⟩).map (fun w => (w.lo, w.hi)) = [(0, 1), (2, 3), (4, 5)] := by
  decide +kernel

def exPhones : List (List UInt8) := ["AH", "B", "F", "SIL", "UW"].map (·.toUTF8.data.toList)

-- dictionary: comment, word without pronunciation, unknown phone, duplicate alternate (D5) — all ignored; `#` as last byte (D31)
example : (match dictInit exPhones 3 (some "##c\nfoo F UW\nbar\nbaz XX\nfoo(2) F AH\nfoo(2) F UW\nfoo(3) B\n#".toUTF8.data) none with
    | .ok d => d.words.map (fun e => (e.pron, e.basewid, e.alt)) ==
        [([2, 4], 0, some 2), ([2, 0], 0, none), ([1], 0, some 1), ([3], 3, none), ([3], 4, none), ([3], 5, none)] && d.fillerStart == 3
    | .error _ => false) = true := by decide +kernel
example : errOf (dictInit exPhones 3 (some "foo F UW\n<sil> SIL\n".toUTF8.data) none) = some .silInMain := by decide +kernel

-- JSON: braces optional, unquoted primitives, escapes; nested value text is passed on verbatim; typed refusal
def exDefs : List CfgDef := [⟨"nfilt".toUTF8.data.toList, 2, some "40".toUTF8.data.toList⟩, ⟨"hmm".toUTF8.data.toList, 9, none⟩,
  ⟨"lw".toUTF8.data.toList, 4, some "6.5".toUTF8.data.toList⟩, ⟨"dither".toUTF8.data.toList, 16, some "no".toUTF8.data.toList⟩]
example : (match configParseJson exDefs "{\"nfilt\": 99999999999999999999, hmm: \"a\\tb\", \"dither\": yes}".toUTF8.data.toList with
    | .ok c => c.map (·.2) == [.int 9223372036854775807, .str (some [97, 9, 98]), .flt (.fin false 65 true (-1)), .bool true]
    | .error _ => false) = true := by decide +kernel
example : errOf (configParseJson exDefs "{\"nfilt\": x}".toUTF8.data.toList) = some .badParam := by decide +kernel
example : errOf (configParseJson exDefs "{\"hmm\": \"a}".toUTF8.data.toList) = some .part := by decide +kernel
example : errOf (configParseJson exDefs "{\"hmm\": \"a\"]".toUTF8.data.toList) = some .inval := by decide +kernel

end SSVerif.TextIn
