import SSVerif.Model.TextFsg
import SSVerif.Model.TextDict
import SSVerif.Model.TextJson
/-! # C10 — placeholder, theorems follow -/
namespace SSVerif.TextIn

/-- every FSG byte string is accepted with an object or refused with an error kind -/
theorem C10_fsgRead_total (buf : Buf) : (∃ o, fsgRead buf = .ok o) ∨ (∃ e, fsgRead buf = .error e) := by
  cases h : fsgRead buf with
  | ok o => exact .inl ⟨o, rfl⟩
  | error e => exact .inr ⟨e, rfl⟩

end SSVerif.TextIn
