import SSVerif.Generated.JsgfWidths
/-!
# C05 — the integers that carry a state number from the JSGF expansion to the FSG are wide enough

The expansion model (`Model/Jsgf`, `Model/JsgfGraph`) numbers the states of the expansion with unbounded naturals:
every rule instance takes two fresh numbers (`entry`, `exit`), every token / `<NULL>` / `<VOID>` atom one, and an arc
is a pair of such numbers.  The C code allocates them from the counter `jsgf_t.nstate`, stores them in
`jsgf_rule_t.entry/exit` and `jsgf_link_t.from/to`, passes them through `jsgf_add_link`, `fsg_model_init`,
`fsg_model_trans_add`, `fsg_model_null_trans_add` and keeps them in `fsg_model_t.n_state/start_state/final_state` and
`fsg_link_t.from_state/to_state`.  `Generated/JsgfWidths.lean` is regenerated on every run from the current headers
(compiled `sizeof` / signedness; prototypes compared by the compiler); the theorem below says that each of these
LISTED carriers holds every value of the allocating counter unchanged (the list is written by hand in
tools/gen_jsgfwidths.py; its completeness is trusted: locals such as `lastnode`, the `int` results of
`expand_rhs`/`expand_rule` and casts are not enumerated, and a prototype is read as 32 bits by matching `int`/`int32`
in its text) — so two states the model distinguishes are not identified by any listed carrier, for grammars of any
size the counter can count.  A narrowed carrier (state numbers stored
modulo 2^16: start and final state merged with ordinary states, the FSG accepts proper prefixes / suffixes of
sentences) makes the `decide` fail.  The check also expands grammars with more than 2^16 (thorough: 2^17) states in
every run and evaluates the language on the produced FSG (tools/props/c05.py, big_grammar_family).
-/
namespace SSVerif.JsgfW
open SSVerif.Generated.JsgfWidths

/-- C conversion of an integer to a signed two's-complement type of `bits` bits -/
def cconvS (bits : Nat) (x : Int) : Int :=
  (x + ((2 ^ (bits - 1) : Nat) : Int)) % ((2 ^ bits : Nat) : Int) - ((2 ^ (bits - 1) : Nat) : Int)

/-- C conversion of an integer to an unsigned type of `bits` bits -/
def cconvU (bits : Nat) (x : Int) : Int := x % ((2 ^ bits : Nat) : Int)

/-- width and signedness of a field / parameter in the current sources -/
def widthOf (name : String) : Option (Nat × Bool) := (widths.find? (·.1 = name)).map (·.2)

/-- the reference: the counter that allocates the state numbers of an expansion, `jsgf_t.nstate` -/
def stateRef : String := "jsgf_t.nstate"

/-- carriers of a state number (and of the marker `-1` that `expand_rhs` returns for a refused alternative) -/
def stateCarriers : List String :=
  ["jsgf_rule_t.entry", "jsgf_rule_t.exit", "jsgf_link_t.from", "jsgf_link_t.to", "jsgf_add_link(from,to)",
   "fsg_model_init(n_state)", "fsg_model_t.n_state", "fsg_model_t.start_state", "fsg_model_t.final_state",
   "fsg_model_trans_add(from,to)", "fsg_model_null_trans_add(from,to)", "fsg_model_tag_trans_add(from,to)",
   "fsg_link_t.from_state", "fsg_link_t.to_state"]

/-- the reference is a signed type and every carrier is a signed type at least as wide -/
def carriersOK (ref : String) (cs : List String) : Bool :=
  match widthOf ref with
  | some (rb, true) => decide (1 ≤ rb) && cs.all fun c =>
      match widthOf c with
      | some (b, true) => decide (rb ≤ b)
      | _ => false
  | _ => false

theorem cconvS_id (b rb : Nat) (h1 : 1 ≤ rb) (h2 : rb ≤ b) (q : Int)
    (lo : -((2 ^ (rb - 1) : Nat) : Int) ≤ q) (hi : q < ((2 ^ (rb - 1) : Nat) : Int)) : cconvS b q = q := by
  unfold cconvS
  have hle : 2 ^ (rb - 1) ≤ 2 ^ (b - 1) := Nat.pow_le_pow_right (by decide) (by omega)
  have hb : 2 ^ b = 2 * 2 ^ (b - 1) := by
    have : b = (b - 1) + 1 := by omega
    rw [this, Nat.pow_succ]; simp; omega
  rw [hb]
  generalize 2 ^ (b - 1) = P at *
  generalize 2 ^ (rb - 1) = R at *
  have : (q + (P : Int)) % ((2 * P : Nat) : Int) = q + P := by
    apply Int.emod_eq_of_lt <;> omega
  rw [this]; omega

theorem carriersOK_sound {ref : String} {cs : List String} (h : carriersOK ref cs = true) :
    ∃ rb, widthOf ref = some (rb, true) ∧ ∀ c ∈ cs, ∃ b, widthOf c = some (b, true) ∧
      ∀ q : Int, -((2 ^ (rb - 1) : Nat) : Int) ≤ q → q < ((2 ^ (rb - 1) : Nat) : Int) → cconvS b q = q := by
  unfold carriersOK at h
  cases hr : widthOf ref with
  | none => rw [hr] at h; cases h
  | some p =>
    obtain ⟨rb, sg⟩ := p
    cases sg with
    | false => rw [hr] at h; cases h
    | true =>
      rw [hr] at h
      simp only [Bool.and_eq_true, decide_eq_true_eq, List.all_eq_true] at h
      refine ⟨rb, rfl, fun c hc => ?_⟩
      have hcs := h.2 c hc
      cases hw : widthOf c with
      | none => rw [hw] at hcs; cases hcs
      | some p2 =>
        obtain ⟨b, sg2⟩ := p2
        cases sg2 with
        | false => rw [hw] at hcs; cases hcs
        | true =>
          rw [hw] at hcs
          exact ⟨b, rfl, fun q lo hi => cconvS_id b rb h.1 (by simpa using hcs) q lo hi⟩

/-- **C05, integer widths on the path of a state number (tie to the current sources).** Every field and every
function parameter through which a state number of the expansion travels from the allocating counter
`jsgf_t.nstate` to the arcs of the finished FSG (`jsgf_rule_t.entry/exit`, `jsgf_link_t.from/to`, `jsgf_add_link`,
`fsg_model_init`, `fsg_model_t.n_state/start_state/final_state`, `fsg_model_(null_/tag_)trans_add`,
`fsg_link_t.from_state/to_state`) is a signed integer at least as wide as the counter: converting any value `q` of
the counter's range (and the marker `-1`) to the carrier's type gives `q` back.  So distinct states of the model
(unbounded naturals) are not merged by any LISTED carrier, for expansions of any size the counter can count
(completeness of the list is trusted, see the file header).  The widths are regenerated from the current headers on
every run. -/
theorem C05_state_integer_widths :
    ∃ rb, widthOf stateRef = some (rb, true) ∧ ∀ c ∈ stateCarriers, ∃ b, widthOf c = some (b, true) ∧
      ∀ q : Int, -((2 ^ (rb - 1) : Nat) : Int) ≤ q → q < ((2 ^ (rb - 1) : Nat) : Int) → cconvS b q = q :=
  carriersOK_sound (by decide)

/-- the allocating counter itself counts at least to 2^31 - 1: the reference is not vacuous -/
theorem C05_state_counter_is_32_bit : ∃ rb, widthOf stateRef = some (rb, true) ∧ 32 ≤ rb := ⟨32, by decide, by decide⟩

/-- distinct state numbers of the counter's range stay distinct in every carrier (no two states are merged) -/
theorem C05_states_not_merged :
    ∃ rb, widthOf stateRef = some (rb, true) ∧ ∀ c ∈ stateCarriers, ∃ b, widthOf c = some (b, true) ∧
      ∀ p q : Int, 0 ≤ p → p < ((2 ^ (rb - 1) : Nat) : Int) → 0 ≤ q → q < ((2 ^ (rb - 1) : Nat) : Int) →
        cconvS b p = cconvS b q → p = q := by
  obtain ⟨rb, h1, h2⟩ := C05_state_integer_widths
  refine ⟨rb, h1, fun c hc => ?_⟩
  obtain ⟨b, hb, hid⟩ := h2 c hc
  refine ⟨b, hb, fun p q p0 p1 q0 q1 e => ?_⟩
  rw [hid p (by omega) p1, hid q (by omega) q1] at e
  exact e

/-! ### non-vacuity: what a narrowed carrier does -/

-- a 16-bit unsigned `from`/`to` stores state 65536 (= the start state of a later expansion step) as 0 and the final
-- state 65537 as 1; a 32-bit one keeps them
example : cconvU 16 65536 = 0 ∧ cconvU 16 65537 = 1 ∧ cconvS 32 65537 = 65537 ∧ cconvS 32 (-1) = -1 := by decide
example : cconvS 16 40000 = -25536 := by decide
-- every carrier is listed with its width in the generated table
example : stateCarriers.all (fun c => (widthOf c).isSome) = true := by decide

end SSVerif.JsgfW
