import SSVerif.Model.FsgVocab
/-!
# C03 — the grammar's filler marks are the dictionary's, also for words added at run time

`fsg_search_hyp` leaves a segment out of the hypothesis string when the grammar's `silwords` bit of its word is set;
the property speaks of "the non-filler segment words", and what a filler word is, is decided by the dictionary
(`dict_filler_word`: the base word lies in the filler range).  The theorem: after `fsg_search_init` has added the
filler loops and expanded the alternate pronunciations, the `silwords` bit of EVERY word of the search FSG's
vocabulary equals `dict_filler_word` of that word — for any dictionary, in particular one to which alternates of
filler words were appended at run time (`decoder_add_word("[NOISE](2)", …)`: outside the filler range, reached only
through the chain of alternates of `[NOISE]`; `fsg_model_add_alt` hands the base word's bit on).
-/
namespace SSVerif.FsgVocab

/-- the invariant: bit = dictionary's verdict, entry by entry -/
def Marks (d : Dict) (v : Vocab) : Prop := ∀ (j : Nat) (x : VWord), v[j]? = some x → x.sil = d.filler x.wid

theorem getElem?_modAt (f : VWord → VWord) :
    ∀ (v : Vocab) (i j : Nat), (modAt f v i)[j]? = if j = i then (v[j]?).map f else v[j]?
  | [], i, j => by simp [modAt]
  | x :: xs, 0, 0 => by simp [modAt]
  | x :: xs, 0, j + 1 => by simp [modAt]
  | x :: xs, i + 1, 0 => by simp [modAt]
  | x :: xs, i + 1, j + 1 => by
    simp only [modAt, List.getElem?_cons_succ, getElem?_modAt f xs i j, Nat.add_right_cancel_iff]

theorem findW_some : ∀ {v : Vocab} {w i : Nat}, findW w v = some i → ∃ x, v[i]? = some x ∧ x.wid = w
  | [], w, i, h => by simp [findW] at h
  | x :: xs, w, i, h => by
    unfold findW at h
    by_cases hx : x.wid = w
    · simp only [hx, if_true, Option.some.injEq] at h
      subst h
      exact ⟨x, by simp, hx⟩
    · simp only [hx, if_false, Option.map_eq_some_iff] at h
      obtain ⟨k, hk, rfl⟩ := h
      obtain ⟨y, hy, hw⟩ := findW_some hk
      exact ⟨y, by simpa using hy, hw⟩

/-- the entry `wordAdd` returns carries the word; it is an old entry or a new one with clear bits; every other entry
is an old one -/
theorem wordAdd_spec (v : Vocab) (w : Nat) :
    (∃ x, (wordAdd v w).1[(wordAdd v w).2]? = some x ∧ x.wid = w ∧ (v[(wordAdd v w).2]? = some x ∨ x.sil = false)) ∧
    (∀ j y, (wordAdd v w).1[j]? = some y → j ≠ (wordAdd v w).2 → v[j]? = some y) := by
  unfold wordAdd
  cases h : findW w v with
  | some i =>
    obtain ⟨x, hx, hw⟩ := findW_some h
    exact ⟨⟨x, hx, hw, Or.inl hx⟩, fun j y hy _ => hy⟩
  | none =>
    refine ⟨⟨{ wid := w }, by simp, rfl, Or.inr rfl⟩, fun j y hy hj => ?_⟩
    simp only at hy hj
    by_cases hlt : j < v.length
    · rwa [List.getElem?_append_left hlt] at hy
    · have hgt : v.length < j := by omega
      rw [List.getElem?_append_right (by omega)] at hy
      have : j - v.length = (j - v.length - 1) + 1 := by omega
      rw [this] at hy
      simp at hy

theorem addSilence_marks {d : Dict} {v : Vocab} {w : Nat} (hv : Marks d v) (hw : d.filler w = true) :
    Marks d (addSilence v w) := by
  intro j x hx
  unfold addSilence at hx
  obtain ⟨⟨xa, hxa, hwid, _⟩, hrest⟩ := wordAdd_spec v w
  rw [getElem?_modAt] at hx
  by_cases hj : j = (wordAdd v w).2
  · subst hj
    simp only [if_true, hxa, Option.map_some, Option.some.injEq] at hx
    subst hx
    simp [hwid, hw]
  · simp only [hj, if_false] at hx
    exact hv j x (hrest j x hx hj)

theorem addAlt_marks {d : Dict} {v : Vocab} {b a : Nat} (hv : Marks d v) (hab : d.filler a = d.filler b) :
    Marks d (addAlt v b a) := by
  unfold addAlt
  cases hb : findW b v with
  | none => exact hv
  | some bi =>
    obtain ⟨xb, hxb, hbw⟩ := findW_some hb
    have hbs : xb.sil = d.filler a := by rw [hv bi xb hxb, hbw, hab]
    intro j x hx
    simp only [hxb, Option.map_some, Option.getD_some] at hx
    obtain ⟨⟨xa, hxa, hwid, hold⟩, hrest⟩ := wordAdd_spec v a
    rw [getElem?_modAt] at hx
    by_cases hj : j = (wordAdd v a).2
    · subst hj
      simp only [if_true, hxa, Option.map_some, Option.some.injEq] at hx
      subst hx
      simp only [hwid, hbs]
      cases hold with
      | inl h => rw [hv _ xa h, hwid, Bool.or_self]
      | inr h => rw [h, Bool.false_or]
    · simp only [hj, if_false] at hx
      exact hv j x (hrest j x hx hj)

theorem foldl_inv {α β : Type} (I : α → Prop) (g : α → β → α) :
    ∀ (l : List β) (init : α), I init → (∀ acc w, w ∈ l → I acc → I (g acc w)) → I (l.foldl g init)
  | [], init, h, _ => h
  | w :: ws, init, h, step => by
    simp only [List.foldl_cons]
    exact foldl_inv I g ws (g init w) (step init w (by simp) h) (fun acc w' hw' => step acc w' (by simp [hw']))

theorem filler_of_base {d : Dict} {a b : Nat} (h : d.base a = d.base b) : d.filler a = d.filler b := by
  unfold Dict.filler; simp only [h]

theorem addSilences_marks {d : Dict} {v : Vocab} (hv : Marks d v) (hsil : d.filler d.silWid = true)
    (hrange : ∀ w ∈ fillerLoop d, d.filler w = true) : Marks d (addSilences d v) := by
  unfold addSilences
  exact foldl_inv (Marks d) addSilence _ _ (addSilence_marks hv hsil) (fun acc w hw hacc => addSilence_marks hacc (hrange w hw))

theorem addAltpron_marks {d : Dict} {v : Vocab} (hv : Marks d v)
    (halts : ∀ w a, a ∈ d.alts w → d.base a = d.base w) : Marks d (addAltpron d v) := by
  unfold addAltpron
  refine foldl_inv (Marks d) _ v v hv (fun acc x _ hacc => ?_)
  exact foldl_inv (Marks d) _ _ _ hacc (fun acc2 a ha hacc2 => addAlt_marks hacc2 (filler_of_base (halts x.wid a ha)))

/-- **C03, filler marks (model of `fsg_search_init`'s vocabulary bookkeeping).**  Let `v0` be the vocabulary of the
grammar handed to `fsg_search_init` — no `silwords` bit set, no word of it a filler word of the dictionary — and `d`
ANY dictionary (words added at run time included) in which `<sil>` and the words the filler loop visits are filler
words and alternates share their base word.  Then after the filler loops were added and the alternates expanded,
the `silwords` bit of every word of the search FSG equals `dict_filler_word` of that word: the words
`fsg_search_hyp` leaves out are exactly the filler words of the dictionary.  Hypotheses evaluated by the check on
every dump: `hgram` (lines `GW` against `SD`), `hsil`/`hrange`/`halts` (line `SR` of harness/h_c01.c, computed on
the decoder's dictionary); the conclusion is evaluated on the real search FSG too (`R hypsegd … <tie>`). -/
theorem C03_filler_marks_follow_dictionary (d : Dict) (v0 : Vocab)
    (hgram : ∀ x ∈ v0, x.sil = false ∧ d.filler x.wid = false)
    (hsil : d.filler d.silWid = true)
    (hrange : ∀ w ∈ fillerLoop d, d.filler w = true)
    (halts : ∀ w a, a ∈ d.alts w → d.base a = d.base w) :
    ∀ x ∈ install d v0, x.sil = d.filler x.wid := by
  have h0 : Marks d v0 := fun j x hx => by
    have hm : x ∈ v0 := List.mem_of_getElem? hx
    rw [(hgram x hm).1, (hgram x hm).2]
  have h := addAltpron_marks (addSilences_marks h0 hsil hrange) halts
  intro x hx
  obtain ⟨j, hj⟩ := List.mem_iff_getElem?.mp hx
  exact h j x hj

/-! ### non-vacuity -/

/-- a small dictionary: words 0-3 `go forward ten meters`, filler range 4-8 = `<s> </s> <sil> [NOISE] [SPEECH]`, and
word 9 = `[NOISE](2)` appended at run time (base 7, first in the chain of alternates of 7) -/
def exDict : Dict :=
  { base := fun w => if w = 9 then 7 else w, alts := fun w => if w = 7 then [9] else [],
    fillerStart := 4, fillerEnd := 8, startWid := 4, finishWid := 5, silWid := 6 }

def exGrammar : Vocab := [{ wid := 0 }, { wid := 1 }, { wid := 2 }, { wid := 3 }]

-- the run-time alternate of the noise filler enters the search FSG marked as a filler (and as an alternate); the LAST
-- filler word of the range (8, `[SPEECH]`) is not visited by the loop and does not enter
example : install exDict exGrammar =
    [{ wid := 0 }, { wid := 1 }, { wid := 2 }, { wid := 3 }, { wid := 6, sil := true }, { wid := 7, sil := true },
     { wid := 9, sil := true, alt := true }] := by decide
example : exDict.filler 9 = true ∧ exDict.filler 3 = false ∧ exDict.filler 4 = false := by decide
-- the hypotheses hold for it
example : (∀ x ∈ exGrammar, x.sil = false ∧ exDict.filler x.wid = false) ∧ exDict.filler exDict.silWid = true ∧
    (∀ w ∈ fillerLoop exDict, exDict.filler w = true) := by decide
-- without handing the base word's bit on (an `fsg_model_add_alt` that only sets the `altwords` bit) the conclusion fails
-- on this instance: word 9 is a filler word of the dictionary and would be unmarked
example : ¬ (({ wid := 9, sil := false, alt := true } : VWord).sil = exDict.filler 9) := by decide

end SSVerif.FsgVocab
