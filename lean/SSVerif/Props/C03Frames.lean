import SSVerif.Props.C03
import SSVerif.Props.C06
import SSVerif.Props.C07
import SSVerif.Props.C07Fe
import SSVerif.Model.Search
import SSVerif.Generated.HistConsts
/-!
# C03, frame accounting — composition of M8 (history table), M5 (`AcmodBuf`, C07) and M4 (`FeBuf`, C06)

Clause of C03: "the frame counts returned by the processing calls add up to the frames the front end
produced for the audio supplied".

* `ret s op` / `returns` / `endRet` below are **notation for the growth of the search log** `St.searched` over a call
  (every iteration of `search_module_forward`'s loop appends one element to it and nothing else touches it).  They
  are *not* a model of what the C functions return: `returns_sum` is the telescoping identity of that notation and
  holds for any `step`.  The values `decoder_process_int16/float32` and `decoder_end_utt` return (`nfr`, the
  accumulator `n_searchfr`, `d->n_frame`; decoder.c:963-1123) are modelled in `Model/DecRet.lean`, and
  `Props/C03Ret.lean` proves from those loops that each returned value IS the log growth of its call
  (`C03_process_returns_frames_searched`, `returnsRv_eq_returns`) and restates the sums of this file for the modelled
  return values (`C03_returns_add_up_partial`, `C03_returns_add_up_full`, `C03_returns_equal_frameCount_partial`).
* `decoder_n_frames` is `acmod->output_frame + nFramesOffset` (offset regenerated from decoder.c).
* `M = sf.nextId` is the number of cepstral frames the front end delivered (c07's meaning of `nextId`).

`C03_frames_add_up_partial`: for every call history (any chunking, any mixture of searching and `no_search`
calls, queries and alignment passes in between and afterwards), Σ log growth of the processing calls + log growth of
`end_utt` = `M`, `output_frame = M`, `decoder_n_frames = M + offset`.  `C03_frames_add_up_full` is the
batch regime (`full_utt = 1`).  `C03_frames_match_front_end_partial` adds c06's theorem: `M` is
`frameCount size shift N` for the `N` samples supplied, whatever the chunking.  `C03_last_segment_within_M_partial`
ties in the segmentation: no segment ends at or after frame `M`.

**Bound (`_partial`).**  The streaming statements hold under `hcmn : s0.cmnFrames + frames of the utterance ≤
cmnWinHwm` (`CMN_WIN_HWM` = 800 in the pinned tree: at most 8 s of audio, less when earlier utterances left frames in
the live-CMN window), inherited from C07's invariant, which carries the window *contents* ("no frame normalised with a
moved mean"); the counters do not depend on the CMN window but the count part of that invariant has not been
separated from the content part.  The full statements are the same without `hcmn`.  The batch statement
(`C03_frames_add_up_full`) has no bound with batch CMN (`cmnBatch`, the default) and the bound `hc` with live CMN.

Interfaces between the three models that are stated as hypotheses (they are the glue code
`search_module_forward` / `fsg_search_step` and are checked on the implementation on every utterance):
`nextId` counts the frames of c06's front-end run (`hlink`), and `fsgs->frame` is the number of
search steps (`search_frame_counts_steps` proves the counter part on m10's search model).
-/
namespace SSVerif.C03Frames
open SSVerif.AcmodBuf SSVerif.Generated

variable (win : Nat) (skip : Nat → Bool)

/-! ### what does not touch the log of search steps -/

theorem fail_searched (msg : String) (s : St) : (fail msg s).searched = s.searched := rfl

theorem advance_searched (s : St) : (advance s).searched = s.searched := by
  unfold advance; split <;> rfl

theorem alignN_searched : ∀ (n upto : Nat) (s : St) (acc : List (Nat × Option Feat)),
    (alignN n upto s acc).1.searched = s.searched := by
  intro n
  induction n with
  | zero => intro _ _ _; rfl
  | succ n ih =>
    intro upto s acc
    unfold alignN
    split
    · split
      · rw [ih, advance_searched]
      · rfl
    · rw [ih, advance_searched]

theorem alignPass_searched (s : St) (upto : Nat) : (alignPass s upto).searched = s.searched := by
  unfold alignPass
  simp only []
  split
  · rfl
  · simp only []
    rw [alignN_searched]

/-- queries and alignment passes perform no first-pass search step -/
theorem step_nonprocess_searched (s : St) (op : Op) (h : op.isProcess = false) :
    (step true win skip s op).searched = s.searched := by
  cases op with
  | process _ _ => simp [Op.isProcess] at h
  | processFull _ _ => simp [Op.isProcess] at h
  | query => rfl
  | align steps =>
    cases steps with
    | none => rfl
    | some upto => exact alignPass_searched s upto

theorem runOps_nonprocess_searched : ∀ (ops : List Op) (s : St), (∀ op, op ∈ ops → op.isProcess = false) →
    (runOps true win skip s ops).searched = s.searched := by
  intro ops
  induction ops with
  | nil => intro s _; rfl
  | cons op ops ih =>
    intro s h
    simp only [runOps, List.foldl_cons]
    have := ih (step true win skip s op) (fun o ho => h o (List.mem_cons_of_mem _ ho))
    simp only [runOps] at this
    rw [this, step_nonprocess_searched win skip s op (h op (List.mem_cons_self ..))]

/-! ### return values -/

/-- growth of the search log over the call `op` from state `s` (notation; an `Int` difference so that sums telescope;
`returns_nonneg` shows it is `≥ 0`).  That `decoder_process_*` RETURNS this number is `Props/C03Ret.lean`. -/
def ret (s : St) (op : Op) : Int :=
  ((step true win skip s op).searched.length : Int) - (s.searched.length : Int)

/-- the log growths of the processing calls of a call sequence, in order (= the values they return:
`C03Ret.returnsRv_eq_returns`) -/
def returns : St → List Op → List Int
  | _, [] => []
  | s, op :: ops =>
    (if op.isProcess then [ret win skip s op] else []) ++ returns (step true win skip s op) ops

/-- frames searched inside `decoder_end_utt` -/
def endRet (s : St) (tail : Bool) : Int :=
  ((decEnd true win skip s tail).searched.length : Int) - (s.searched.length : Int)

/-- telescoping identity of the notation `ret` (true of any `step`; no statement about the code — not a property
theorem): the log growths of the calls sum to the log growth of the sequence -/
theorem returns_sum : ∀ (ops : List Op) (s : St),
    (returns win skip s ops).sum = ((runOps true win skip s ops).searched.length : Int) - (s.searched.length : Int) := by
  intro ops
  induction ops with
  | nil => intro s; simp [returns, runOps]
  | cons op ops ih =>
    intro s
    have hi := ih (step true win skip s op)
    simp only [runOps, List.foldl_cons] at hi ⊢
    simp only [returns, List.sum_append, hi]
    by_cases hp : op.isProcess = true
    · simp only [hp, if_true, List.sum_cons, List.sum_nil, ret]
      omega
    · have hp' : op.isProcess = false := by simpa using hp
      simp only [hp', Bool.false_eq_true, if_false, List.sum_nil]
      rw [step_nonprocess_searched win skip s op hp']
      omega

/-- the returns are counts: on an open utterance no call shrinks the log (c07's `step_searched_mono`),
so every return value is `≥ 0`, and so is the number of frames searched inside `decoder_end_utt` -/
theorem returns_nonneg (hw : 3 * win + 1 ≤ livebuf) : ∀ (ops : List Op) (s : St), Open win s →
    (∀ op, op ∈ ops → op.isFull = false) → s.cmnFrames + offeredOps ops ≤ cmnWinHwm →
    ∀ x ∈ returns win skip s ops, 0 ≤ x := by
  intro ops
  induction ops with
  | nil => intro s _ _ _ x hx; simp [returns] at hx
  | cons op ops ih =>
    intro s ho hnf hb x hx
    rw [offeredOps_cons] at hb
    have hnf1 := hnf op (List.mem_cons_self ..)
    obtain ⟨o1, o2⟩ := step_open win skip s op ho hnf1 (by omega) hw
    have hm := step_searched_mono win skip s op ho hnf1 (by omega) hw
    simp only [returns, List.mem_append] at hx
    rcases hx with hx | hx
    · split at hx
      · simp only [List.mem_singleton] at hx
        rw [hx]; unfold ret; omega
      · simp at hx
    · exact ih _ o1 (fun o h => hnf o (List.mem_cons_of_mem _ h)) (by omega) x hx

theorem endRet_nonneg (s : St) (tail : Bool) (h : Open win s) (hfe : tail = true ∨ s.nextId = 0)
    (hb : s.cmnFrames + (if tail then 1 else 0) ≤ cmnWinHwm) (hw : 3 * win + 2 ≤ livebuf) :
    0 ≤ endRet win skip s tail := by
  have := decEnd_searched_mono win skip s tail h hfe hb hw
  unfold endRet; omega

/-- `decoder_n_frames` (decoder.c): `d->acmod->output_frame + nFramesOffset` -/
def nFrames (s : St) : Int := (s.outputFrame : Int) + nFramesOffset

/-! ### the composed statements -/

/-- **C03, frame accounting, streaming regime.**  For every call history of an utterance — processing
calls with any front-end response pattern, searching or only buffering (`no_search`), queries and
alignment passes in between (`ops`) and on the final result (`post`) — on a decoder in any
well-formed state: the return values of the processing calls plus the frames searched inside
`decoder_end_utt` add up to `M`, the number of cepstral frames the front end delivered; nothing is left
unsearched, `output_frame = M` and `decoder_n_frames = M + offset`.  (`returns`/`endRet`: log growth; for the values the
calls return see `C03Ret.C03_returns_add_up_partial`.)  `_partial`: under `hcmn`, i.e. for utterances of at most
`cmnWinHwm − s0.cmnFrames` frames (module comment). -/
theorem C03_frames_add_up_partial (s0 : St) (ops post : List Op) (tail : Bool) (hwf : WF0 s0)
    (hw : 3 * win + 2 ≤ livebuf)
    (hcmn : s0.cmnFrames + offeredOps ops + (if tail then 1 else 0) ≤ cmnWinHwm)
    (hfe : tail = true ∨ (runOps true win skip (startUtt s0) ops).nextId = 0)
    (hstream : ∀ op, op ∈ ops → op.isFull = false) (hpost : ∀ op, op ∈ post → op.isProcess = false) :
    let s1 := runOps true win skip (startUtt s0) ops
    let sf := runUtt true win skip s0 ops tail post
    (returns win skip (startUtt s0) ops).sum + endRet win skip s1 tail = (sf.nextId : Int) ∧
    returns win skip (decEnd true win skip s1 tail) post = [] ∧
    sf.outputFrame = sf.nextId ∧ sf.nFeatFrame = 0 ∧ nFrames sf = (sf.nextId : Int) + nFramesOffset ∧
    (∀ x ∈ returns win skip (startUtt s0) ops, 0 ≤ x) ∧ 0 ≤ endRet win skip s1 tail := by
  intro s1 sf
  obtain ⟨h1, h2, h3⟩ := C07_frames_searched_const win skip s0 ops post tail hwf hw hcmn hfe hstream hpost
  have hopen := startUtt_open win s0 hwf
  obtain ⟨o1, o2⟩ := runOps_open win skip (by omega) ops (startUtt s0) hopen hstream (by show s0.cmnFrames + _ ≤ _; omega)
  have o2' : s1.cmnFrames ≤ s0.cmnFrames + offeredOps ops := o2
  have hnn := returns_nonneg win skip (by omega) ops (startUtt s0) hopen hstream (by show s0.cmnFrames + _ ≤ _; omega)
  have hen := endRet_nonneg win skip s1 tail o1 hfe (by omega) hw
  have hsf : sf.searched = (decEnd true win skip s1 tail).searched :=
    runOps_nonprocess_searched win skip post _ hpost
  have h0 : (startUtt s0).searched.length = 0 := rfl
  have hlen : sf.searched.length = sf.nextId := h1
  refine ⟨?_, ?_, h2, h3, ?_, hnn, hen⟩
  · rw [returns_sum, endRet, h0, ← hlen, hsf]
    show ((s1.searched.length : Int) - ((0 : Nat) : Int)) + (_ - (s1.searched.length : Int)) = _
    omega
  · -- no processing call after the end: no return value
    have : ∀ (l : List Op) (s : St), (∀ op, op ∈ l → op.isProcess = false) → returns win skip s l = [] := by
      intro l
      induction l with
      | nil => intro _ _; rfl
      | cons op l ih =>
        intro s h
        have hp := h op (List.mem_cons_self ..)
        simp only [returns, hp, Bool.false_eq_true, if_false, List.nil_append]
        exact ih _ (fun o ho => h o (List.mem_cons_of_mem _ ho))
    exact this post _ hpost
  · unfold nFrames; rw [h2]

/-- **C03, frame accounting, batch regime** (`full_utt = 1`: one processing call on the whole
utterance, queries / alignment before, between and after): the call returns `M` (or 0 with
`no_search`, the frames then being searched inside `decoder_end_utt`), in total `M` frames are searched,
`output_frame = M`, `decoder_n_frames = M + offset`. -/
theorem C03_frames_add_up_full (s0 : St) (pre mid post : List Op) (ns : Bool) (r : FullResp)
    (hwf : WF0F s0) (hw : 2 * win ≤ livebuf) (hmore : r.more = false) (hM : 1 ≤ fullCount r)
    (hc : s0.cmnBatch = true ∨ s0.cmnFrames + fullCount r ≤ cmnWinHwm)
    (hpre : ∀ op, op ∈ pre → op.isProcess = false) (hmid : ∀ op, op ∈ mid → op.isProcess = false)
    (hpost : ∀ op, op ∈ post → op.isProcess = false) :
    let sa := runOps true win skip (startUtt s0) pre
    let sb := runOps true win skip (step true win skip sa (.processFull ns [r])) mid
    let sf := runUttFull win skip s0 pre ns r mid post
    ret win skip sa (.processFull ns [r]) + endRet win skip sb false = (fullCount r : Int) ∧
    sf.nextId = fullCount r ∧ sf.outputFrame = fullCount r ∧ nFrames sf = (fullCount r : Int) + nFramesOffset := by
  intro sa sb sf
  obtain ⟨h1, h2, _, _, h5⟩ := C07_full_features_canonical win skip s0 pre mid post ns r hwf hw hmore hM hc hpre hmid hpost
  have hlen : sf.searched.length = fullCount r := by rw [h1]; simp
  have hsf : sf.searched = (decEnd true win skip sb false).searched :=
    runOps_nonprocess_searched win skip post _ hpost
  have hsb : sb.searched = (step true win skip sa (.processFull ns [r])).searched :=
    runOps_nonprocess_searched win skip mid _ hmid
  have hsa : sa.searched = (startUtt s0).searched := runOps_nonprocess_searched win skip pre _ hpre
  have h0 : (startUtt s0).searched.length = 0 := rfl
  refine ⟨?_, h2, h5, by unfold nFrames; rw [h5]⟩
  unfold ret endRet
  rw [← hlen, hsf, hsb, hsa, h0]
  omega

/-- **C03: the frames searched are the frames of the audio supplied.**  c06: feeding `N = total specs`
samples through the front end in any partition `specs` (with any output limits) yields
`frameCount size shift N` frames, counting the one `fe_end` may add.  If the decoder's front end is that
run (`hlink`: c07's `nextId` counts exactly the frames of those calls, `tail` = whether `fe_end` yields
one), then returns + frames searched in `end_utt` = `frameCount size shift N`: a function of the number
of samples only.  `_partial`: under `hcmn` (module comment). -/
theorem C03_frames_match_front_end_partial (s0 : St) (ops post : List Op) (tail : Bool) (hwf : WF0 s0)
    (hw : 3 * win + 2 ≤ livebuf)
    (hcmn : s0.cmnFrames + offeredOps ops + (if tail then 1 else 0) ≤ cmnWinHwm)
    (hfe : tail = true ∨ (runOps true win skip (startUtt s0) ops).nextId = 0)
    (hstream : ∀ op, op ∈ ops → op.isFull = false) (hpost : ∀ op, op ∈ post → op.isProcess = false)
    (size shift : Nat) (hs : 0 < shift) (hss : shift ≤ size) (specs : List (Nat × List Nat)) (endRoom : Nat)
    (he : 0 < endRoom)
    (hlink : ∀ r nend, SSVerif.FeBuf.run ⟨size, shift, true⟩ (SSVerif.FeBuf.chunksFrom 0 specs) endRoom = some (r, nend) →
      (runUtt true win skip s0 ops tail post).nextId = (r.calls.map (·.frames)).sum + nend) :
    (returns win skip (startUtt s0) ops).sum + endRet win skip (runOps true win skip (startUtt s0) ops) tail =
      (SSVerif.FeBuf.frameCount size shift (SSVerif.FeBuf.total specs) : Int) ∧
    nFrames (runUtt true win skip s0 ops tail post) =
      (SSVerif.FeBuf.frameCount size shift (SSVerif.FeBuf.total specs) : Int) + nFramesOffset := by
  obtain ⟨r, nend, hrun, _, hcount⟩ := SSVerif.FeBuf.C06_count_only_N size shift hs hss specs endRoom he
  have hM := hlink r nend hrun
  rw [hcount] at hM
  obtain ⟨a1, _, _, _, a5, _, _⟩ := C03_frames_add_up_partial win skip s0 ops post tail hwf hw hcmn hfe hstream hpost
  exact ⟨by rw [a1, hM], by rw [a5, hM]⟩

/-- **C03: the frames searched are the frames of the audio supplied, no interface hypothesis.**  With c07's
sample-level decoder model (`AcmodFe.runUttS`: c06's front end called inside `acmod_process_raw` /
`acmod_end_utt` with the ring's real room), every partition `ops` of the audio into `decoder_process_*`
calls is a call history `ops'` of the response-level model to which `C03_frames_add_up_partial` applies, and the
sum of its return values plus the frames searched inside `decoder_end_utt` is
`frameCount size shift N` for the `N = samplesOf ops` samples supplied; `decoder_n_frames` is that plus the
offset.  (`C03_frames_match_front_end_partial` needed the link `hlink` as a hypothesis; here it is c07's theorem
`C07_runUttS_eq_runUtt`.)  `_partial`: for `s0.cmnFrames + frameCount … ≤ cmnWinHwm` (module comment). -/
theorem C03_frames_equal_frameCount_partial (size shift : Nat) (s0 : St) (ops : List SSVerif.AcmodFe.OpS) (post : List Op)
    (hs : 0 < shift) (hlt : shift < size) (hwf : WF0 s0) (hw : 3 * win + 2 ≤ livebuf)
    (hcmn : s0.cmnFrames + SSVerif.FeBuf.frameCount size shift (SSVerif.AcmodFe.samplesOf ops) ≤ cmnWinHwm)
    (hpost : ∀ op, op ∈ post → op.isProcess = false) :
    ∃ (ops' : List Op) (tail : Bool),
      (SSVerif.AcmodFe.runUttS ⟨size, shift, true⟩ true win skip s0 ops post).st = runUtt true win skip s0 ops' tail post ∧
      (returns win skip (startUtt s0) ops').sum + endRet win skip (runOps true win skip (startUtt s0) ops') tail =
        (SSVerif.FeBuf.frameCount size shift (SSVerif.AcmodFe.samplesOf ops) : Int) ∧
      (∀ x ∈ returns win skip (startUtt s0) ops', 0 ≤ x) ∧
      nFrames (SSVerif.AcmodFe.runUttS ⟨size, shift, true⟩ true win skip s0 ops post).st =
        (SSVerif.FeBuf.frameCount size shift (SSVerif.AcmodFe.samplesOf ops) : Int) + nFramesOffset := by
  obtain ⟨ops', tail, h1, h2, h3, h4, _⟩ :=
    SSVerif.AcmodFe.C07_runUttS_eq_runUtt size shift win skip s0 ops post hs hlt hwf hw hcmn hpost
  obtain ⟨n1, _, _, _⟩ := SSVerif.AcmodFe.C07_nextId_eq_frameCount size shift win skip s0 ops post hs hlt hwf hw hcmn hpost
  obtain ⟨a1, _, _, _, a5, a6, _⟩ := C03_frames_add_up_partial win skip s0 ops' post tail hwf hw h2 h3 h4 hpost
  have hM : (runUtt true win skip s0 ops' tail post).nextId =
      SSVerif.FeBuf.frameCount size shift (SSVerif.AcmodFe.samplesOf ops) := by rw [← h1]; exact n1
  exact ⟨ops', tail, h1, by rw [a1, hM], a6, by rw [h1, a5, hM]⟩

/-! ### the search module's frame counter, and the segmentation -/

open SSVerif.Search in
/-- `n` frames of one utterance on m10's search model: `fsg_search_start`, then `n` × `fsg_search_step` -/
inductive UttSteps (shift : Nat) (lt : LexTree) (g : SSVerif.Hist.Fsg) (s0 : SState) : Nat → SState → Prop
  | start {s} : StartRel shift lt g s0 s → UttSteps shift lt g s0 0 s
  | step {n s s'} : UttSteps shift lt g s0 n s → StepRel shift lt g s s' → UttSteps shift lt g s0 (n + 1) s'

open SSVerif.Search in
/-- `fsgs->frame` is the number of search steps of the utterance -/
theorem search_frame_counts_steps {shift : Nat} {lt : LexTree} {g : SSVerif.Hist.Fsg} {s0 s : SState} {n : Nat}
    (h : UttSteps shift lt g s0 n s) : s.frame = (n : Int) := by
  induction h with
  | start hs => rw [hs.frame]; rfl
  | step _ hst ih => rw [hst.frame, ih]; omega

open SSVerif.Hist in
/-- **C03: no segment ends at or after frame `M`.**  With the search module's frame counter equal to the
number of search steps (`hcur`: `cur = fsgs->frame`, one `fsg_search_step` per iteration of
`search_module_forward`, i.e. per element of `searched`), every segment of the final result of an utterance
ends before `M` (before 1 for the start marker of an utterance without frames), and there are at most `M`
word/filler segments.  Nothing forces the last segment to END at `M − 1` (it ends in the frame of the last history
entry: `Props/C03End.lean`).  `hcur` is the glue `fsgs->frame = number of search steps`
(`assert(fsgs->frame == frame_idx)` in `fsg_search_step`, evaluated by the C03 check on every dump).  `_partial`: under
`hcmn` (module comment). -/
theorem C03_last_segment_within_M_partial (s0 : St) (ops post : List Op) (tail : Bool) (hwf : WF0 s0)
    (hw : 3 * win + 2 ≤ livebuf)
    (hcmn : s0.cmnFrames + offeredOps ops + (if tail then 1 else 0) ≤ cmnWinHwm)
    (hfe : tail = true ∨ (runOps true win skip (startUtt s0) ops).nextId = 0)
    (hstream : ∀ op, op ∈ ops → op.isFull = false) (hpost : ∀ op, op ∈ post → op.isProcess = false)
    {g : Fsg} {h : Hist} {cur : Int} (wf : WFHist g h cur) (shift : Nat) (final : Bool) {ss : List Seg}
    (hs : segs shift g h cur final = some ss)
    (hcur : cur = ((runUtt true win skip s0 ops tail post).searched.length : Int)) :
    (∀ s ∈ ss, s.ef < max ((runUtt true win skip s0 ops tail post).nextId : Int) 1) ∧
    (wordCount ss : Int) ≤ (runUtt true win skip s0 ops tail post).nextId := by
  obtain ⟨h1, _, _⟩ := C07_frames_searched_const win skip s0 ops post tail hwf hw hcmn hfe hstream hpost
  have hM : cur = ((runUtt true win skip s0 ops tail post).nextId : Int) := by rw [hcur, h1]
  refine ⟨?_, ?_⟩
  · intro s hm
    have := C03_ends_within_frames wf shift final hs s hm
    rwa [hM] at this
  · have ht := C03_segs_tile wf shift final hs
    have := (C03_tile_consequences ht).2.2.2 (by rw [hM]; omega)
    rwa [hM] at this

/-! ### non-vacuity: c07's 9-frame example utterance -/

/-- a first call that yields no frame (returns 0), 2 frames (returns 0: the feature window lags), a query,
6 buffered frames with `no_search` (returns 0), an alignment pass, then `end_utt` with the tail frame: all
9 frames are searched inside `end_utt` … -/
example : returns 3 (fun _ => false) (startUtt (St.init 500)) exOps = [0, 0, 0] ∧
    endRet 3 (fun _ => false) (runOps true 3 (fun _ => false) (startUtt (St.init 500)) exOps) true = 9 := by
  decide +kernel

/-- … and a searching call after enough frames returns a positive count: 8 frames in one call return 5
(window lag 3), `end_utt` with the tail frame searches the remaining 4: 5 + 4 = 9 = M -/
example : returns 3 (fun _ => false) (startUtt (St.init 500)) [.process false [⟨8, false⟩]] = [5] ∧
    endRet 3 (fun _ => false) (runOps true 3 (fun _ => false) (startUtt (St.init 500)) [.process false [⟨8, false⟩]]) true = 4 ∧
    (runUtt true 3 (fun _ => false) (St.init 500) [.process false [⟨8, false⟩]] true []).nextId = 9 := by
  decide +kernel

example : SSVerif.FeBuf.frameCount 410 160 44580 = 278 ∧ nFramesOffset = 1 := by decide

end SSVerif.C03Frames
