import SSVerif.Props.C05Repr
import SSVerif.Model.JsgfGraph
/-!
# C05 — the accept/refuse decision read on the rule-reference graph (audit B4(ii))

`representable` (Model/Jsgf.lean) is the refusal test of `expand_rule`/`expand_rhs` unfolded: a depth-first
walk with a rule stack, the counter `ntail` and a fuel.  `Representable'` (Model/JsgfGraph.lean) does not
mention any of these: every rule reachable from the root is defined, and no reference made elsewhere than
in last position lies on a cycle of the reference graph that is reachable from the root.  This file proves
that the two are the same predicate, for every rule table and every root
(`C05_representable_iff_graph`), and that the executable `representableGB` decides it
(`C05_graph_decides`).

Proof idea.  `GPath T base s0 up nt x`: `x :: up` is a path without repetition from `s0` (walked the way the
compiler walks, `nt` as `expand_rhs` computes it) that avoids `base`.
* every walk in the graph is tracked by such a path (step onto the path = pop, step off it = push): `track`;
* if the compiler accepts, its test holds at every such path (`okAt_ext`); a non-last reference `r → s`
  resets `nt`, so no walk from `s` can step back onto `r` or below without being refused: `graph_of_ok`;
* conversely, along a path every stacked rule deeper than `nt` is separated from the top by a non-last
  reference (`GPath.broken`), which the graph predicate forbids on a cycle: `ok_of_graph`.
-/
namespace SSVerif.Jsgf

/-! ### `okRule` as a test over the references of a rule -/

/-- the test `expand_rhs` makes on one reference `e = (target, last?)` -/
def chk (T : Table) (stack : List RName) (nt : Nat) (recur : Nat → RName → Bool) (e : RName × Bool) : Bool :=
  T.defined e.1 && (if stack.contains e.1 then e.2 && decide (stack.idxOf e.1 ≤ nt)
                    else recur (if e.2 then nt + 1 else 0) e.1)

theorem okAtoms_eq_all (T : Table) (recur : Nat → RName → Bool) (stack : List RName) (nt : Nat) :
    ∀ alt, okAtoms T true recur stack nt alt = (altRefs alt).all (chk T stack nt recur)
  | [] => rfl
  | .tok _ :: rest => by simp only [okAtoms, altRefs]; exact okAtoms_eq_all T recur stack nt rest
  | .null :: rest => by simp only [okAtoms, altRefs]; exact okAtoms_eq_all T recur stack nt rest
  | .void :: rest => by simp only [okAtoms, altRefs]; exact okAtoms_eq_all T recur stack nt rest
  | .ref s :: rest => by
    have ih := okAtoms_eq_all T recur stack nt rest
    simp only [okAtoms, altRefs, List.all_cons, chk]
    cases hd : T.defined s with
    | false => simp
    | true =>
      simp only [Bool.not_true, Bool.false_eq_true, if_false, Bool.true_and, Bool.not_true, Bool.false_or]
      by_cases hs : stack.contains s = true
      · rw [if_pos hs, if_pos hs]
        cases rest with
        | nil => simp [altRefs]
        | cons a r => simp
      · rw [if_neg hs, if_neg hs, ih]

theorem okRule_succ (T : Table) (fuel : Nat) (stack : List RName) (nt : Nat) (r : RName) :
    okRule T true (fuel + 1) stack nt r =
      (T.edges r).all (chk T (r :: stack) nt (fun n s => okRule T true fuel (r :: stack) n s)) := by
  simp only [okRule, Table.edges, List.all_flatMap]
  congr 1
  funext alt
  exact okAtoms_eq_all T _ _ _ alt

/-! ### the reference graph -/

theorem Reach.trans {T : Table} {a b c : RName} (h1 : Reach T a b) (h2 : Reach T b c) : Reach T a c := by
  induction h2 with
  | refl => exact h1
  | snoc _ e ih => exact .snoc ih e

theorem Edge.defined {T : Table} {r s : RName} {l : Bool} (e : Edge T r s l) : T.defined r = true := by
  cases h : T.find r with
  | none => simp [Edge, Table.edges, Table.rules, h] at e
  | some rl => simp [Table.defined, h]

theorem idxOf_cons_ne' {a b : RName} {l : List RName} (h : b ≠ a) : (b :: l).idxOf a = l.idxOf a + 1 := by
  rw [List.idxOf_cons, beq_false_of_ne h]; rfl

theorem idxOf_cons_self' {a : RName} {l : List RName} : (a :: l).idxOf a = 0 := by
  rw [List.idxOf_cons, beq_self_eq_true]; rfl

theorem idxOf_lt_mem : ∀ (l1 l2 : List RName) (y : RName), (l1 ++ l2).idxOf y < l1.length → y ∈ l1
  | [], _, _, h => by simp at h
  | a :: l1, l2, y, h => by
    by_cases hay : a = y
    · subst hay; exact List.mem_cons_self ..
    · rw [List.cons_append, idxOf_cons_ne' hay, List.length_cons] at h
      exact List.mem_cons_of_mem _ (idxOf_lt_mem l1 l2 y (by omega))

/-- `x :: up` is a path without repetition from `s0` to `x` (latest rule first) that avoids `base`, and
`nt` is the `ntail` argument `expand_rhs` computes along it -/
inductive GPath (T : Table) (base : List RName) (s0 : RName) : List RName → Nat → RName → Prop
  | start : GPath T base s0 [] 0 s0
  | push {up nt r s l} : GPath T base s0 up nt r → Edge T r s l → s ∉ r :: (up ++ base) →
      GPath T base s0 (r :: up) (if l then nt + 1 else 0) s

namespace GPath
variable {T : Table} {base : List RName} {s0 : RName}

theorem nt_le {up nt x} (h : GPath T base s0 up nt x) : nt ≤ up.length := by
  induction h with
  | start => exact Nat.le_refl _
  | @push up nt r s l _ _ _ ih => cases l <;> simp <;> omega

theorem reach {up nt x} (h : GPath T base s0 up nt x) : Reach T s0 x := by
  induction h with
  | start => exact .refl
  | push _ e _ ih => exact .snoc ih e

theorem reach_top {up nt x} (h : GPath T base s0 up nt x) : ∀ y ∈ x :: up, Reach T y x := by
  induction h with
  | start => intro y hy; simp at hy; subst hy; exact .refl
  | @push up nt r s l _ e _ ih =>
    intro y hy
    rcases List.mem_cons.mp hy with rfl | hy
    · exact .refl
    · exact .snoc (ih y hy) e

theorem sub {up nt x} (h : GPath T base s0 up nt x) : ∀ y ∈ x :: up, ∃ up' nt', GPath T base s0 up' nt' y := by
  induction h with
  | start => intro y hy; simp at hy; subst hy; exact ⟨[], 0, .start⟩
  | @push up nt r s l h e hn ih =>
    intro y hy
    rcases List.mem_cons.mp hy with rfl | hy
    · exact ⟨_, _, .push h e hn⟩
    · exact ih y hy

theorem reach_of_mem {up nt x} (h : GPath T base s0 up nt x) (y : RName) (hy : y ∈ x :: up) : Reach T s0 y := by
  obtain ⟨_, _, h'⟩ := h.sub y hy
  exact h'.reach

theorem disjoint {up nt x} (h : GPath T base s0 up nt x) (h0 : s0 ∉ base) : ∀ y ∈ x :: up, y ∉ base := by
  induction h with
  | start => intro y hy; simp at hy; subst hy; exact h0
  | @push up nt r s l _ _ hn ih =>
    intro y hy
    rcases List.mem_cons.mp hy with rfl | hy
    · exact fun hb => hn (List.mem_cons_of_mem _ (List.mem_append_right _ hb))
    · exact ih y hy

theorem nodup {up nt x} (h : GPath T base s0 up nt x) : (x :: up).Nodup := by
  induction h with
  | start => simp
  | @push up nt r s l _ _ hn ih =>
    refine List.nodup_cons.mpr ⟨fun hm => hn ?_, ih⟩
    rcases List.mem_cons.mp hm with rfl | hm
    · exact List.mem_cons_self ..
    · exact List.mem_cons_of_mem _ (List.mem_append_left _ hm)

theorem defined_up {up nt x} (h : GPath T base s0 up nt x) : ∀ y ∈ up, T.defined y = true := by
  induction h with
  | start => intro y hy; simp at hy
  | @push up nt r s l _ e _ ih =>
    intro y hy
    rcases List.mem_cons.mp hy with rfl | hy
    · exact e.defined
    · exact ih y hy

/-- a stacked rule deeper than `nt` is separated from the top of the path by a reference that is not last -/
theorem broken {up nt x} (h : GPath T base s0 up nt x) : ∀ y ∈ x :: up, nt < (x :: up).idxOf y →
    ∃ a b, Reach T y b ∧ Edge T b a false ∧ Reach T a x := by
  induction h with
  | start =>
    intro y hy hlt
    simp at hy; subst hy
    rw [idxOf_cons_self'] at hlt
    exact absurd hlt (Nat.lt_irrefl _)
  | @push up nt r s l h e _ ih =>
    intro y hy hlt
    by_cases hys : s = y
    · subst hys
      rw [idxOf_cons_self'] at hlt
      exact absurd hlt (Nat.not_lt_zero _)
    · have hy' : y ∈ r :: up := by
        rcases List.mem_cons.mp hy with rfl | hy
        · exact absurd rfl hys
        · exact hy
      rw [idxOf_cons_ne' hys] at hlt
      cases l with
      | true =>
        have hlt' : nt < (r :: up).idxOf y := by simp at hlt; omega
        obtain ⟨a, b, h1, h2, h3⟩ := ih y hy' hlt'
        exact ⟨a, b, h1, h2, .snoc h3 e⟩
      | false => exact ⟨s, r, h.reach_top y hy', e, .refl⟩

end GPath

/-- a path above `r :: stack` that starts with the non-last reference `r → s` is a path from the root -/
theorem GPath.compose {T : Table} {root r s : RName} {stack : List RName} {nt : Nat}
    (hx : GPath T [] root stack nt r) (e : Edge T r s false) (hm : s ∉ r :: stack)
    {up : List RName} {nt' : Nat} {x : RName} (hE : GPath T (r :: stack) s up nt' x) :
    GPath T [] root (up ++ r :: stack) nt' x := by
  induction hE with
  | start =>
    have := GPath.push hx e (by simpa using hm)
    simpa using this
  | @push up nt' x y l _ e' hn ih =>
    exact GPath.push ih e' (by simpa using hn)

/-- every walk is tracked by a path without repetition, provided no reference leads into `base` -/
theorem track {T : Table} {base : List RName} {s0 : RName}
    (H : ∀ up nt x y l, GPath T base s0 up nt x → Edge T x y l → y ∉ base) {x : RName} (h : Reach T s0 x) :
    ∃ up nt, GPath T base s0 up nt x := by
  induction h with
  | refl => exact ⟨[], 0, .start⟩
  | @snoc b c l _ e ih =>
    obtain ⟨up, nt, hx⟩ := ih
    by_cases hm : c ∈ b :: up
    · exact hx.sub c hm
    · refine ⟨b :: up, _, .push hx e ?_⟩
      intro hc
      rcases List.mem_cons.mp hc with rfl | hc
      · exact hm (List.mem_cons_self ..)
      · rcases List.mem_append.mp hc with hc | hc
        · exact hm (List.mem_cons_of_mem _ hc)
        · exact H _ _ _ _ _ hx e hc

theorem track_root {T : Table} {root x : RName} (h : Reach T root x) : ∃ up nt, GPath T [] root up nt x :=
  track (fun _ _ _ _ _ _ _ hy => by simp at hy) h

/-! ### the compiler's test along paths -/

/-- the test passes with some fuel -/
def OkAt (T : Table) (stack : List RName) (nt : Nat) (r : RName) : Prop :=
  ∃ fuel, okRule T true fuel stack nt r = true

theorem okAt_edge {T : Table} {stack : List RName} {nt : Nat} {r s : RName} {l : Bool}
    (h : OkAt T stack nt r) (e : Edge T r s l) :
    T.defined s = true ∧ (s ∈ r :: stack → l = true ∧ (r :: stack).idxOf s ≤ nt) ∧
      (s ∉ r :: stack → OkAt T (r :: stack) (if l then nt + 1 else 0) s) := by
  obtain ⟨fuel, hf⟩ := h
  cases fuel with
  | zero => simp [okRule] at hf
  | succ fuel =>
    rw [okRule_succ, List.all_eq_true] at hf
    have hc := hf (s, l) e
    simp only [chk, Bool.and_eq_true] at hc
    refine ⟨hc.1, fun hm => ?_, fun hm => ?_⟩
    · have hcon : (r :: stack).contains s = true := List.contains_iff_mem.mpr hm
      rw [if_pos hcon] at hc
      simp only [Bool.and_eq_true, decide_eq_true_eq] at hc
      exact hc.2
    · have hcon : ¬ (r :: stack).contains s = true := fun h => hm (List.contains_iff_mem.mp h)
      rw [if_neg hcon] at hc
      exact ⟨fuel, hc.2⟩

theorem okAt_ext {T : Table} {root : RName} (hok : OkAt T [] 0 root) {stack : List RName} {nt : Nat} {r : RName}
    (hx : GPath T [] root stack nt r) : OkAt T stack nt r := by
  induction hx with
  | start => exact hok
  | @push up nt r s l _ e hn ih => exact (okAt_edge ih e).2.2 (by simpa using hn)

/-- accepted by the compiler's test ⇒ the graph predicate -/
theorem graph_of_ok {T : Table} {root : RName} (hd : T.defined root = true) (hok : OkAt T [] 0 root) :
    Representable' T root := by
  constructor
  · intro r hr
    cases hr with
    | refl => exact hd
    | @snoc b _ l hb e =>
      obtain ⟨up, nt, hx⟩ := track_root hb
      exact (okAt_edge (okAt_ext hok hx) e).1
  · intro r s hr e hback
    obtain ⟨stack, nt, hx⟩ := track_root hr
    obtain ⟨_, hin, _⟩ := okAt_edge (okAt_ext hok hx) e
    by_cases hm : s ∈ r :: stack
    · exact Bool.noConfusion (hin hm).1
    · have H : ∀ up nt' x y l, GPath T (r :: stack) s up nt' x → Edge T x y l → y ∉ r :: stack := by
        intro up nt' x y l hE e' hy
        have hfull := GPath.compose hx e hm hE
        obtain ⟨_, hin', _⟩ := okAt_edge (okAt_ext hok hfull) e'
        have hyin : y ∈ x :: (up ++ r :: stack) := List.mem_cons_of_mem _ (List.mem_append_right _ hy)
        have hidx := (hin' hyin).2
        have hle := hE.nt_le
        have hyup : y ∈ x :: up := idxOf_lt_mem (x :: up) (r :: stack) y (by
          rw [List.cons_append, List.length_cons]; omega)
        exact hE.disjoint hm y hyup hy
      obtain ⟨up, nt', hE⟩ := track H hback
      exact hE.disjoint hm r (List.mem_cons_self ..) (List.mem_cons_self ..)

/-- the graph predicate ⇒ accepted by the compiler's test, at every path from the root and with every fuel
that covers the rest of the table -/
theorem ok_of_graph {T : Table} {root : RName} (hG : Representable' T root) :
    ∀ (fuel : Nat) (stack : List RName) (nt : Nat) (r : RName), GPath T [] root stack nt r →
      T.length + 1 ≤ fuel + stack.length → okRule T true fuel stack nt r = true := by
  intro fuel
  induction fuel with
  | zero =>
    intro stack nt r hx hlen
    exfalso
    have := stack_length_le T (r :: stack) hx.nodup (fun y hy => hG.1 y (hx.reach_of_mem y hy))
    simp only [List.length_cons] at this
    omega
  | succ fuel ih =>
    intro stack nt r hx hlen
    rw [okRule_succ, List.all_eq_true]
    intro ⟨y, l⟩ hy
    have e : Edge T r y l := hy
    have hry : Reach T root y := .snoc hx.reach e
    simp only [chk, hG.1 y hry, Bool.true_and]
    by_cases hm : y ∈ r :: stack
    · have hcon : (r :: stack).contains y = true := List.contains_iff_mem.mpr hm
      rw [if_pos hcon]
      have hl : l = true := by
        cases l with
        | true => rfl
        | false => exact absurd (hx.reach_top y hm) (hG.2 r y hx.reach e)
      subst hl
      simp only [Bool.true_and, decide_eq_true_eq]
      apply Nat.le_of_not_lt
      intro hgt
      obtain ⟨a, b, h1, h2, h3⟩ := hx.broken y hm hgt
      exact hG.2 b a (Reach.trans (hx.reach_of_mem y hm) h1) h2
        (Reach.trans h3 (Reach.trans (.snoc .refl e) h1))
    · have hcon : ¬ (r :: stack).contains y = true := fun h => hm (List.contains_iff_mem.mp h)
      rw [if_neg hcon]
      exact ih (r :: stack) _ y (.push hx e (by simpa using hm)) (by simp only [List.length_cons]; omega)

/-! ### the executable reachability and graph predicate -/

theorem mem_addAll : ∀ (xs S : List RName) (y : RName), y ∈ addAll S xs ↔ y ∈ S ∨ y ∈ xs
  | [], S, y => by simp [addAll]
  | x :: xs, S, y => by
    rw [addAll, mem_addAll xs]
    by_cases hc : S.contains x = true
    · rw [if_pos hc]
      have hx : x ∈ S := List.contains_iff_mem.mp hc
      constructor
      · rintro (h | h)
        · exact .inl h
        · exact .inr (List.mem_cons_of_mem _ h)
      · rintro (h | h)
        · exact .inl h
        · rcases List.mem_cons.mp h with rfl | h
          · exact .inl hx
          · exact .inr h
    · rw [if_neg hc]
      constructor
      · rintro (h | h)
        · rcases List.mem_append.mp h with h | h
          · exact .inl h
          · exact .inr (by simp at h; subst h; exact List.mem_cons_self ..)
        · exact .inr (List.mem_cons_of_mem _ h)
      · rintro (h | h)
        · exact .inl (List.mem_append_left _ h)
        · rcases List.mem_cons.mp h with rfl | h
          · exact .inl (List.mem_append_right _ (List.mem_singleton.mpr rfl))
          · exact .inr h

theorem mem_succsOf {T : Table} {S : List RName} {s : RName} :
    s ∈ succsOf T S ↔ ∃ r, r ∈ S ∧ ∃ l, Edge T r s l := by
  simp only [succsOf, List.mem_flatMap, List.mem_map, Edge]
  constructor
  · rintro ⟨r, hr, ⟨s', l⟩, he, rfl⟩
    exact ⟨r, hr, l, he⟩
  · rintro ⟨r, hr, l, he⟩
    exact ⟨r, hr, (s, l), he, rfl⟩

theorem closeN_sound {T : Table} {a : RName} : ∀ (n : Nat) (y : RName), y ∈ closeN T n [a] → Reach T a y
  | 0, y, h => by simp [closeN] at h; subst h; exact .refl
  | n + 1, y, h => by
    rw [closeN, mem_addAll] at h
    rcases h with h | h
    · exact closeN_sound n y h
    · obtain ⟨r, hr, l, e⟩ := mem_succsOf.mp h
      exact .snoc (closeN_sound n r hr) e

theorem closeN_mono {T : Table} {S : List RName} {y : RName} {n m : Nat} (hnm : n ≤ m) (h : y ∈ closeN T n S) :
    y ∈ closeN T m S := by
  induction hnm with
  | refl => exact h
  | step _ ih => rw [closeN, mem_addAll]; exact .inl ih

theorem closeN_complete {T : Table} {a : RName} {up : List RName} {nt : Nat} {x : RName}
    (h : GPath T [] a up nt x) : x ∈ closeN T up.length [a] := by
  induction h with
  | start => simp [closeN]
  | @push up nt r s l _ e _ ih =>
    rw [List.length_cons, closeN, mem_addAll]
    exact .inr (mem_succsOf.mpr ⟨r, ih, l, e⟩)

/-- the closure iteration computes reachability -/
theorem mem_reachList (T : Table) (a y : RName) : y ∈ reachList T a ↔ Reach T a y := by
  constructor
  · exact closeN_sound _ y
  · intro h
    obtain ⟨up, nt, hx⟩ := track_root h
    have hlen : up.length ≤ T.length :=
      stack_length_le T up (List.nodup_cons.mp hx.nodup).2 hx.defined_up
    exact closeN_mono (by omega) (closeN_complete hx)

/-- the closure iteration always comes to an end within its `T.length + 1` rounds -/
theorem reachList_closed (T : Table) (a : RName) : reachClosed T a = true := by
  simp only [reachClosed, closedUnder, List.all_eq_true]
  intro r hr e he
  exact List.contains_iff_mem.mpr
    ((mem_reachList T a e.1).mpr (.snoc ((mem_reachList T a r).mp hr) (show Edge T r e.1 e.2 from he)))

/-! ### property theorem -/

/-- **C05, "the compiler accepts" read on the rule-reference graph.**  For every rule table `T` (user rules
and the internal rules the parser makes for groups, optionals and Kleene operators) and every rule `root`:
the refusal test of `expand_rule`/`expand_rhs` (`representable`: depth-first walk with rule stack, `ntail`
and recursion bound) passes **iff** (1) every rule that can be reached from `root` through rule references
is defined, and (2) no rule reference that stands elsewhere than in the last position of its alternative
lies on a cycle of the reference graph reachable from `root` (i.e. inside every strongly connected component
reachable from the root all references are tail references).  So "undefined rule, or recursion that is not
right recursion" is exactly what is refused — through any nesting of groups, optionals and Kleene
operators, whose internal rules are nodes of the same graph — and a bad rule that cannot be reached
from the root does not matter. -/
theorem C05_representable_iff_graph (T : Table) (root : RName) :
    representable T root = true ↔ Representable' T root := by
  constructor
  · intro h
    simp only [representable, Bool.and_eq_true] at h
    exact graph_of_ok h.1 ⟨_, h.2⟩
  · intro hG
    simp only [representable, Bool.and_eq_true]
    exact ⟨hG.1 root .refl, ok_of_graph hG (T.length + 1) [] 0 root .start (by simp)⟩

/-- **C05, compiler model end to end with the graph reading.** For every surface grammar and rule `<r>`:
the mirror of the expansion builds an automaton exactly when the reference graph of the desugared grammar
satisfies `Representable'` from `<r>`, and then the automaton accepts exactly the JSGF language of `<r>`. -/
theorem C05_compile_iff_graph (g : Grammar) (r : Nat) :
    ((expandTop (desugar g) (.user r)).isSome = true ↔ Representable' (desugar g) (.user r)) ∧
    (∀ st, expandTop (desugar g) (.user r) = some st → ∀ ws, SSVerif.Nfa.Accepts st.toNfa ws ↔ Lang g r ws) := by
  refine ⟨?_, (C05_compile_correct g r).2⟩
  rw [(C05_compile_correct g r).1]
  exact C05_representable_iff_graph _ _

/-- **C05, the graph predicate is decidable.** For every rule table and root the executable
`representableGB` (closure iteration for reachability, then the two tests on every reachable rule) answers
`true` exactly when `Representable'` holds; it is what the check evaluates on every generated grammar and
compares with the real compiler's accept/refuse decision. -/
theorem C05_graph_decides (T : Table) (root : RName) :
    representableGB T root = true ↔ Representable' T root := by
  simp only [representableGB, List.all_eq_true, Bool.and_eq_true]
  constructor
  · intro h
    refine ⟨fun r hr => (h r ((mem_reachList T root r).mpr hr)).1, fun r s hr e hback => ?_⟩
    have := (h r ((mem_reachList T root r).mpr hr)).2 (s, false) e
    simp only [Bool.false_or, Bool.not_eq_true'] at this
    have hc : (reachList T s).contains r = true := List.contains_iff_mem.mpr ((mem_reachList T s r).mpr hback)
    rw [this] at hc
    exact Bool.noConfusion hc
  · intro hG r hr
    have hr' := (mem_reachList T root r).mp hr
    refine ⟨hG.1 r hr', fun ⟨s, l⟩ he => ?_⟩
    cases l with
    | true => rfl
    | false =>
      simp only [Bool.false_or, Bool.not_eq_true']
      cases hc : (reachList T s).contains r with
      | false => rfl
      | true => exact absurd ((mem_reachList T s r).mp (List.contains_iff_mem.mp hc)) (hG.2 r s hr' he)

instance (T : Table) (root : RName) : Decidable (Representable' T root) :=
  decidable_of_iff _ (C05_graph_decides T root)

/-- **C05, the three readings agree.** compiler mirror builds ⇔ refusal test passes ⇔ graph predicate
(executable form), for every table and root. -/
theorem C05_expand_iff_graphB (T : Table) (top : RName) :
    (expandTop T top).isSome = representableGB T top := by
  rw [(C05_expand_correct T top).1]
  cases h : representableGB T top with
  | true => exact (C05_representable_iff_graph T top).mpr ((C05_graph_decides T top).mp h)
  | false =>
    cases h' : representable T top with
    | false => rfl
    | true =>
      have := (C05_graph_decides T top).mpr ((C05_representable_iff_graph T top).mp h')
      rw [h] at this; exact Bool.noConfusion this

/-- **C05, the two reasons for a refusal.** For every rule table and root the refusal test fails exactly when
(a) some rule reachable from the root through rule references is not defined (jsgf.c: "Undefined rule in RHS"),
or (b) some rule `r` reachable from the root makes a reference to `s` elsewhere than in last position and `s`
can come back to `r` (jsgf.c: "Only right-recursion is permitted").  The check compares the message the real
compiler prints with these two clauses on every refused build. -/
theorem C05_refused_iff_graph (T : Table) (root : RName) :
    representable T root = false ↔
      (∃ r, Reach T root r ∧ T.defined r = false) ∨ (∃ r s, Reach T root r ∧ Edge T r s false ∧ Reach T s r) := by
  rw [← Bool.not_eq_true, C05_representable_iff_graph]
  constructor
  · intro h
    by_cases h1 : ∀ r, Reach T root r → T.defined r = true
    · refine .inr (Classical.byContradiction fun h2 => h ⟨h1, fun r s hr e hb => h2 ⟨r, s, hr, e, hb⟩⟩)
    · obtain ⟨r, hr⟩ := Classical.not_forall.mp h1
      have hr' := Classical.not_imp.mp hr
      exact .inl ⟨r, hr'.1, by simpa using hr'.2⟩
  · rintro (⟨r, hr, hd⟩ | ⟨r, s, hr, e, hb⟩) hG
    · have := hG.1 r hr
      rw [hd] at this
      exact Bool.noConfusion this
    · exact hG.2 r s hr e hb

/-! ### non-vacuity: one grammar of every kind (surface syntax, desugared by the parser actions) -/

private def sq1 (e : Exp) : Seq := .one 1 0 e
private def sq2 (e1 e2 : Exp) : Seq := .cons 1 0 e1 (.one 1 0 e2)
private def sq3 (e1 e2 e3 : Exp) : Seq := .cons 1 0 e1 (.cons 1 0 e2 (.one 1 0 e3))

/-- `<0> = x <5>;` — an undefined rule is reachable: refused -/
def exUndef : Grammar := [⟨0, true, .one (sq2 (.tok 1) (.ref 5))⟩]
/-- `<0> = <0> x | y;` — left recursion: refused -/
def exLeft : Grammar := [⟨0, true, .cons (sq2 (.ref 0) (.tok 1)) (.one (sq1 (.tok 2)))⟩]
/-- `<0> = x <0> y | z;` — recursion in the middle: refused -/
def exMiddle : Grammar := [⟨0, true, .cons (sq3 (.tok 1) (.ref 0) (.tok 2)) (.one (sq1 (.tok 3)))⟩]
/-- `<0> = x <0> <NULL> | z;` — the recursive reference is followed by `<NULL>`, so it is not last: refused -/
def exNullAfter : Grammar := [⟨0, true, .cons (sq3 (.tok 1) (.ref 0) .null) (.one (sq1 (.tok 3)))⟩]
/-- `<0> = x [ y <0> ];` — right recursion through an optional: accepted -/
def exOpt : Grammar := [⟨0, true, .one (sq2 (.tok 1) (.opt (.one (sq2 (.tok 2) (.ref 0)))))⟩]
/-- `<0> = x [ <0> ] y;` — the optional that holds the recursion is not last: refused -/
def exOptMid : Grammar := [⟨0, true, .one (sq3 (.tok 1) (.opt (.one (sq1 (.ref 0)))) (.tok 2))⟩]
/-- `<0> = x ( y | z <0> );` — right recursion through a group: accepted -/
def exGroup : Grammar := [⟨0, true, .one (sq2 (.tok 1) (.group (.cons (sq1 (.tok 2)) (.one (sq2 (.tok 3) (.ref 0))))))⟩]
/-- `<0> = x <0>* ;` — a reference under a Kleene star is followed by the star's own loop: refused -/
def exStar : Grammar := [⟨0, true, .one (sq2 (.tok 1) (.star (.ref 0)))⟩]
/-- `<0> = x y* ;` — the Kleene star's own loop is a tail cycle through an internal rule: accepted -/
def exStarTok : Grammar := [⟨0, true, .one (sq2 (.tok 1) (.star (.tok 2)))⟩]
/-- `<0> = x <1> | y; <1> = z <0>;` — mutual right recursion: accepted -/
def exMutual : Grammar := [⟨0, true, .cons (sq2 (.tok 1) (.ref 1)) (.one (sq1 (.tok 2)))⟩, ⟨1, false, .one (sq2 (.tok 3) (.ref 0))⟩]
/-- `<0> = x <1> y | z; <1> = w <0>;` — the cycle closes with a last reference but passes through one that is
not last (the D7 class): refused -/
def exHidden : Grammar := [⟨0, true, .cons (sq3 (.tok 1) (.ref 1) (.tok 2)) (.one (sq1 (.tok 3)))⟩, ⟨1, false, .one (sq2 (.tok 4) (.ref 0))⟩]
/-- `<0> = x; <1> = <1> x <7>;` — a bad rule that `<0>` cannot reach: `<0>` accepted, `<1>` refused -/
def exUnreach : Grammar := [⟨0, true, .one (sq1 (.tok 1))⟩, ⟨1, false, .one (sq3 (.ref 1) (.tok 1) (.ref 7))⟩]

example : ¬ Representable' (desugar exUndef) (.user 0) := by decide +kernel
example : ¬ Representable' (desugar exLeft) (.user 0) := by decide +kernel
example : ¬ Representable' (desugar exMiddle) (.user 0) := by decide +kernel
example : ¬ Representable' (desugar exNullAfter) (.user 0) := by decide +kernel
example : Representable' (desugar exOpt) (.user 0) := by decide +kernel
example : ¬ Representable' (desugar exOptMid) (.user 0) := by decide +kernel
example : Representable' (desugar exGroup) (.user 0) := by decide +kernel
example : ¬ Representable' (desugar exStar) (.user 0) := by decide +kernel
example : Representable' (desugar exStarTok) (.user 0) := by decide +kernel
example : Representable' (desugar exMutual) (.user 0) ∧ Representable' (desugar exMutual) (.user 1) := by decide +kernel
example : ¬ Representable' (desugar exHidden) (.user 0) ∧ ¬ Representable' (desugar exHidden) (.user 1) := by decide +kernel
example : Representable' (desugar exUnreach) (.user 0) ∧ ¬ Representable' (desugar exUnreach) (.user 1) := by decide +kernel
/-- the refusal test of the compiler answers the same on all of them (instances of the theorem) -/
example : [exUndef, exLeft, exMiddle, exNullAfter, exOpt, exOptMid, exGroup, exStar, exStarTok, exMutual, exHidden, exUnreach].map
    (fun g => representable (desugar g) (.user 0)) =
    [false, false, false, false, true, false, true, false, true, true, false, true] := by decide +kernel
/-- the last-hop-only test of the unrepaired code accepts `exHidden`; the graph predicate does not -/
example : representableLastHop (desugar exHidden) (.user 0) = true := by decide +kernel
/-- the edges of `<0> = x [ y <0> ]`: `<0>` references the optional's rule in last position, which references `<0>` in last position -/
example : (desugar exOpt).edges (.user 0) = [(.gen 0, true)] ∧ (desugar exOpt).edges (.gen 0) = [(.user 0, true)] := by decide +kernel

end SSVerif.Jsgf
