import SSVerif.Proofs.LexCoverRevBuild
import SSVerif.Proofs.LexCoverLeaf
import SSVerif.Props.C02Search
import SSVerif.Props.C02Lex
/-!
# C02 — the search reports the optimum over the legal alignments: no per-case certificate any more

`Props/C02Search.lean` proves that the token-passing search computes the DP of the lextree read as a network (`treeNet`), and, under
a per-case decidable certificate (`coverB`/`emAgreeB`, found by an untrusted search), that this network has the optimum of the flat
network `FlatNet.build` — the unshared network of all legal alignments the property is stated over.  This file removes the
certificate: for the lextree **the construction builds** (`buildLexTree li (fsgOf M)`, `Model/SearchLex.lean`, tied node by node to
the real lextree on every C01 run) the two networks have the same alignments with the same scores, for **every** FSG, dictionary
and lookup tables that satisfy

* `lexHypsB M li` — the hypotheses of `C02_lextree_paths_eq_flat_instances` (same words / silence / penalties, the `dict2pid`
  tables return the model-definition lookups, null arcs closed, …), evaluated by the c01s driver on every stepped decode;
* `fillerSingleB M`, `ctxRangeB M` (`Model/LexCoverHyps.lean`) — two cheap side conditions on the model (a filler word has one phone —
  necessary, see D110 below; phones fit the context bit vectors), evaluated by the c02s driver on the model of every case.  A third
  one the proof needs, `leafCtxB` (every leaf pnode has a context bit), is PROVED for `buildLexTree` (`Proofs/LexCoverLeaf.lean`,
  `leafCtxB_build`); the driver still evaluates it on the dumped real lextree of every case, as part of the tie.

Proof (`Proofs/LexCover*.lean`): two forward inductions over a path, one per direction, from `C02_lextree_paths_are_flat_instances`
resp. `C02_flat_instances_in_lextree`; the look-ahead that sharing causes (the word arc of a shared pnode is only known at the leaf;
the root pnode for a word-initial instance is only known per word-final instance) is absorbed by quantifying the invariant over all
completions of the path inside the current word.  No class map, no uniqueness of pnodes is needed.

Property theorems only.
-/
namespace SSVerif
open Viterbi SearchScore FlatNet
open SSVerif.Search (buildLexTree LexIn)
open SSVerif.LexFlat (lexHypsB fsgOf)
open SSVerif.LexCover (envOf envOfG fillerSingleB leafCtxB ctxRangeB)

/-- **Every alignment of the lextree network is a legal alignment, with the same score** (soundness of the sharing).  `envOf M li tmat`
is the search environment over the lextree the construction builds for the flat model `M`; `L`, `insts` the flat network of `M`.
Needs `lexHypsB` and `fillerSingleB` only. -/
theorem C02_lextree_alignments_are_flat_alignments (M : Model) (li : LexIn) (tmat : Nat → List Nat) (L : LNet) (insts : Array Inst)
    (hb : build M tmat = some (L, insts)) (hyp : lexHypsB M li = true) (hfill : fillerSingleB M = true)
    (e : Nat → Nat → Nat → Int) (T : Nat) (v : Int)
    (h : Alignment (treeNet (envOf M li tmat)) (treeEm (envOf M li tmat) e) T v) : Alignment L.toNet (flatEm insts e) T v := by
  unfold build at hb
  cases hl : allInsts M with
  | none => rw [hl] at hb; cases hb
  | some l =>
    rw [hl] at hb
    simp only [Option.map_some, Option.some.injEq, Prod.mk.injEq] at hb
    obtain ⟨rfl, rfl⟩ := hb
    exact LexCover.alignment_sim (LexCover.iface_of_build tmat hyp (fun _ => hfill) (LexCover.leafCtxB_build li (fsgOf M)) hl) e h

/-- **Every legal alignment is an alignment of the lextree network, with the same score** (the sharing loses nothing).  Needs
`lexHypsB` and `ctxRangeB` only. -/
theorem C02_flat_alignments_are_lextree_alignments (M : Model) (li : LexIn) (tmat : Nat → List Nat) (L : LNet) (insts : Array Inst)
    (hb : build M tmat = some (L, insts)) (hyp : lexHypsB M li = true) (hrange : ctxRangeB M = true)
    (e : Nat → Nat → Nat → Int) (T : Nat) (v : Int)
    (h : Alignment L.toNet (flatEm insts e) T v) : Alignment (treeNet (envOf M li tmat)) (treeEm (envOf M li tmat) e) T v := by
  unfold build at hb
  cases hl : allInsts M with
  | none => rw [hl] at hb; cases hb
  | some l =>
    rw [hl] at hb
    simp only [Option.map_some, Option.some.injEq, Prod.mk.injEq] at hb
    obtain ⟨rfl, rfl⟩ := hb
    exact LexCover.ralignment_sim (LexCover.riface_of_build tmat hyp hrange hl) e h

/-- **The lextree network of the lextree the code builds has the optimum of the flat network** — what the per-case certificate of
`C02_covered_network_same_optimum` established case by case, for every FSG, dictionary, tables, scores and length. -/
theorem C02_lextree_optimum_is_flat_optimum (M : Model) (li : LexIn) (tmat : Nat → List Nat) (L : LNet) (insts : Array Inst)
    (hb : build M tmat = some (L, insts)) (hyp : lexHypsB M li = true) (hfill : fillerSingleB M = true)
    (hrange : ctxRangeB M = true) (e : Nat → Nat → Nat → Int) (T : Nat) :
    viterbi (treeNet (envOf M li tmat)) (treeEm (envOf M li tmat) e) T = viterbi L.toNet (flatEm insts e) T := by
  unfold build at hb
  cases hl : allInsts M with
  | none => rw [hl] at hb; cases hb
  | some l =>
    rw [hl] at hb
    simp only [Option.map_some, Option.some.injEq, Prod.mk.injEq] at hb
    obtain ⟨rfl, rfl⟩ := hb
    exact LexCover.viterbi_tree_eq_flat tmat hyp (fun _ => hfill) (LexCover.leafCtxB_build li (fsgOf M)) hrange hl e T

/-- **C02, the unpruned search is the DP over the legal alignments — FULL (no certificate).**  The statement announced in the doc
comment of `C02_unpruned_search_is_dp_partial`: for the lextree the construction builds, every FSG / dictionary / tables with
`lexHypsB` (+ the two side conditions), every score function and every `T ≥ 1`: if the optimum over the flat network is finite,
`fsg_search_find_exit` returns exactly it from a history entry of the last frame; and whenever it answers from the last frame its
answer is that optimum. -/
theorem C02_unpruned_search_is_dp (M : Model) (li : LexIn) (tmat : Nat → List Nat) (L : LNet) (insts : Array Inst)
    (hb : build M tmat = some (L, insts)) (hyp : lexHypsB M li = true) (hfill : fillerSingleB M = true)
    (hrange : ctxRangeB M = true)
    (e : Nat → Nat → Nat → Int) (T : Nat) (hT : 0 < T) :
    (∀ v, viterbi L.toNet (flatEm insts e) T = some v →
      findExit M.final (runSearch (envOf M li tmat) e T).table = some (((T - 1 : Nat) : Int), some v)) ∧
    (∀ f sc, findExit M.final (runSearch (envOf M li tmat) e T).table = some (f, sc) → f = ((T - 1 : Nat) : Int) →
      sc = viterbi L.toNet (flatEm insts e) T) := by
  rw [← C02_lextree_optimum_is_flat_optimum M li tmat L insts hb hyp hfill hrange e T]
  exact C02_unpruned_search_is_tree_dp (envOf M li tmat) e T hT

/-- **C02 in the words of the property — FULL.**  When `fsg_search_find_exit` reports the score `v` from the last frame, `v` is the
score of a labelled alignment of the flat network whose word sequence the FSG accepts, and no legal alignment scores higher. -/
theorem C02_search_reports_best_sentence_alignment (M : Model) (li : LexIn) (tmat : Nat → List Nat) (L : LNet) (insts : Array Inst)
    (hb : build M tmat = some (L, insts)) (hyp : lexHypsB M li = true) (hfill : fillerSingleB M = true)
    (hrange : ctxRangeB M = true)
    (e : Nat → Nat → Nat → Int) (T : Nat) (hT : 0 < T) (v : Int)
    (hfe : findExit M.final (runSearch (envOf M li tmat) e T).table = some (((T - 1 : Nat) : Int), some v)) :
    (∃ ws, LAlignment L (flatEm insts e) T v ws ∧ Nfa.Accepts (fsgNfa M) (ws.map (widOf M))) ∧
    (∀ sc, Alignment L.toNet (flatEm insts e) T sc → sc ≤ v) := by
  have hv := ((C02_unpruned_search_is_dp M li tmat L insts hb hyp hfill hrange e T hT).2 _ _ hfe rfl).symm
  obtain ⟨hup, hatt⟩ := Viterbi.viterbi_is_max L.toNet (flatEm insts e) T
  obtain ⟨hl, _⟩ := build_labelsOK M tmat L insts hb
  constructor
  · obtain ⟨ws, hws⟩ := (alignment_iff_labelled L (flatEm insts e) T v).mp (hatt v hv)
    exact ⟨ws, hws, alignment_sentence hl hws⟩
  · intro sc hsc
    have := hup sc hsc
    rw [hv] at this
    simpa [ole] using this

/-- **C02, any beams: what the pruned search reports is the score of a legal alignment** of the frames it covers, hence at most
their optimum — against the flat network, without certificate (`ctxRangeB` is not needed for this direction). -/
theorem C02_pruned_search_le_flat_optimum (M : Model) (li : LexIn) (tmat : Nat → List Nat) (L : LNet) (insts : Array Inst)
    (hb : build M tmat = some (L, insts)) (hyp : lexHypsB M li = true) (hfill : fillerSingleB M = true)
    (beam pbeam wbeam : Int) (e : Nat → Nat → Nat → Int) (T : Nat) (f v : Int)
    (h : findExit M.final (runSearchBeam (envOf M li tmat) beam pbeam wbeam e T).s.table = some (f, some v)) (hf : 0 ≤ f) :
    Alignment L.toNet (flatEm insts e) (f.toNat + 1) v ∧ f < (T : Int) ∧
    ole (some v) (viterbi L.toNet (flatEm insts e) (f.toNat + 1)) := by
  obtain ⟨h1, h2, _⟩ := C02_pruned_search_le_optimum (envOf M li tmat) beam pbeam wbeam e T f v h hf
  have h3 := C02_lextree_alignments_are_flat_alignments M li tmat L insts hb hyp hfill e _ v h1
  exact ⟨h3, h2, (Viterbi.viterbi_is_max _ _ _).1 v h3⟩

/-- **C02 on the model that is tied to the real search with its real beams — FULL.**  When the run with beams made the same
history table as the unpruned run (`hagree`, the driver's `tablesagree`), its result is the optimum over the legal alignments. -/
theorem C02_search_with_beams_is_dp (M : Model) (li : LexIn) (tmat : Nat → List Nat) (L : LNet) (insts : Array Inst)
    (hb : build M tmat = some (L, insts)) (hyp : lexHypsB M li = true) (hfill : fillerSingleB M = true)
    (hrange : ctxRangeB M = true)
    (beam pbeam wbeam : Int) (e : Nat → Nat → Nat → Int) (T : Nat) (hT : 0 < T)
    (hagree : decide ((runSearchBeam (envOf M li tmat) beam pbeam wbeam e T).s.table = (runSearch (envOf M li tmat) e T).table) = true) :
    (∀ v, viterbi L.toNet (flatEm insts e) T = some v →
      findExit M.final (runSearchBeam (envOf M li tmat) beam pbeam wbeam e T).s.table = some (((T - 1 : Nat) : Int), some v)) ∧
    (∀ f sc, findExit M.final (runSearchBeam (envOf M li tmat) beam pbeam wbeam e T).s.table = some (f, sc) →
      f = ((T - 1 : Nat) : Int) → sc = viterbi L.toNet (flatEm insts e) T) := by
  rw [of_decide_eq_true hagree]
  exact C02_unpruned_search_is_dp M li tmat L insts hb hyp hfill hrange e T hT

/-! ### defect D110 found through `fillerSingleB`, and the theorem for the fixed code

`fillerSingleB` is not an artefact: `fsg_search_pnode_exit` lets a word the FSG marks as filler leave to EVERY right context
whatever its length, while `fsg_lextree.c` gives a filler of two or more phones one word-final pnode per right context like any
other word.  With a two-phone filler in the noise dictionary the real decoder reports scores above the optimum over the legal
alignments (`fixes/D110-multiphone-filler-exits-to-every-context.md`: −10283 reported against −10458).  `envOfG false` is the search
with fix D110 (`dict_is_single_phone(...)` only); for it the side condition is not needed. -/

/-- the lextree network and the flat network have the same optimum — code with fix D110, no condition on fillers -/
theorem C02_lextree_optimum_is_flat_optimum_with_fix_D110 (M : Model) (li : LexIn) (tmat : Nat → List Nat) (L : LNet) (insts : Array Inst)
    (hb : build M tmat = some (L, insts)) (hyp : lexHypsB M li = true)
    (hrange : ctxRangeB M = true) (e : Nat → Nat → Nat → Int) (T : Nat) :
    viterbi (treeNet (envOfG false M li tmat)) (treeEm (envOfG false M li tmat) e) T = viterbi L.toNet (flatEm insts e) T := by
  unfold build at hb
  cases hl : allInsts M with
  | none => rw [hl] at hb; cases hb
  | some l =>
    rw [hl] at hb
    simp only [Option.map_some, Option.some.injEq, Prod.mk.injEq] at hb
    obtain ⟨rfl, rfl⟩ := hb
    exact LexCover.viterbi_tree_eq_flat tmat hyp (fun h => by cases h) (LexCover.leafCtxB_build li (fsgOf M)) hrange hl e T

/-- **C02 for the code with fix D110 — FULL, for every dictionary (fillers of any length).** -/
theorem C02_unpruned_search_is_dp_with_fix_D110 (M : Model) (li : LexIn) (tmat : Nat → List Nat) (L : LNet) (insts : Array Inst)
    (hb : build M tmat = some (L, insts)) (hyp : lexHypsB M li = true)
    (hrange : ctxRangeB M = true)
    (e : Nat → Nat → Nat → Int) (T : Nat) (hT : 0 < T) :
    (∀ v, viterbi L.toNet (flatEm insts e) T = some v →
      findExit M.final (runSearch (envOfG false M li tmat) e T).table = some (((T - 1 : Nat) : Int), some v)) ∧
    (∀ f sc, findExit M.final (runSearch (envOfG false M li tmat) e T).table = some (f, sc) → f = ((T - 1 : Nat) : Int) →
      sc = viterbi L.toNet (flatEm insts e) T) := by
  rw [← C02_lextree_optimum_is_flat_optimum_with_fix_D110 M li tmat L insts hb hyp hrange e T]
  exact C02_unpruned_search_is_tree_dp (envOfG false M li tmat) e T hT

/-! ### non-vacuity: the model / lextree inputs of `Props/C02Lex.lean` meet every hypothesis, and the optimum is finite -/

section NonVacuity
open SSVerif.LexFlat (exM exLi exHyps)

def exTmat : Nat → List Nat := fun _ => [3, 12, 255, 255, 255, 5, 8, 255, 255, 255, 5, 8]

example : fillerSingleB exM = true ∧ ctxRangeB exM = true ∧ leafCtxB (buildLexTree exLi (fsgOf exM)) = true := by decide

example : (allInsts exM).isSome = true := by decide

/-- the lextree network of the built lextree has a finite optimum for the two-phone word `0 → 1` (six frames) -/
example : (viterbi (treeNet (envOf exM exLi exTmat)) (treeEm (envOf exM exLi exTmat) exScores) 6).isSome = true := by decide +kernel

example (L : LNet) (insts : Array Inst) (hb : build exM exTmat = some (L, insts)) (e : Nat → Nat → Nat → Int) (T : Nat) :
    viterbi (treeNet (envOf exM exLi exTmat)) (treeEm (envOf exM exLi exTmat) e) T = viterbi L.toNet (flatEm insts e) T :=
  C02_lextree_optimum_is_flat_optimum exM exLi exTmat L insts hb exHyps (by decide) (by decide) e T

end NonVacuity

end SSVerif
