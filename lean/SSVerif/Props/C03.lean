import SSVerif.Proofs.Hist
/-!
# C03 — Word segmentation tiles the utterance and agrees with hypothesis and score

Property theorems only.  `segs`/`hyp` mirror `fsg_search_seg_iter` (+ `fsg_seg_bp2itor`) and
`fsg_search_hyp`; `WFHist g h cur` is the invariant of the history table (`cur = fsgs->frame`, the
number of frames searched), checked with `wfHistB` on every table dumped from the real decoder.
`bp2itor` models the code **with the repair of D24** (`fixes/D24-leading-null-segment.patch`): a null
segment recorded before the first frame is reported at frame 0 instead of −1.

`SegsTile F l` (`tileFrom F (-1) l`): going through the segments with `prev` = end of the last
word/filler segment (−1 initially), a word/filler segment has `sf = prev + 1`, `sf ≤ ef < F`; a null
segment is a marker `sf = ef = max prev 0` and leaves `prev` unchanged.  `segsTileB`/`scoresSumB` are
the Boolean forms run on the real iterator output.
-/
namespace SSVerif.Hist

variable {β : Type} {g : Fsg} {h : Hist} {cur : Int}

/-- the segments of a returned result are those of the exit entry -/
theorem segs_some {shift : Nat} {final : Bool} {ss : List Seg} (hs : segs shift g h cur final = some ss) :
    0 < (findExit g h cur cur final).bp ∧ ss = segsAt shift g h (findExit g h cur cur final).bp := by
  unfold segs at hs
  simp only at hs
  split at hs
  · cases hs
  · rename_i hx
    split at hs
    · cases hs
    · cases hs; exact ⟨by omega, rfl⟩

/-- **C03, tiling.**  For partial and final results alike the segments tile `[0, frames searched)`:
word/filler segments are contiguous, non-empty and end before `cur`; null segments are markers that
move no time. -/
theorem C03_segs_tile (wf : WFHist g h cur) (shift : Nat) (final : Bool) {ss : List Seg}
    (hs : segs shift g h cur final = some ss) : SegsTile cur ss := by
  obtain ⟨hx, rfl⟩ := segs_some hs
  obtain ⟨j, hj, _, hlt, _⟩ := findExit_pos hx
  rw [hj]
  exact (isChain_tile wf shift (chain_isChain wf hlt) hlt).1

/-- **C03, readable consequences of the tiling.**  The list is non-empty and its first segment starts
at frame 0; segments come in time order; every segment has `0 ≤ sf ≤ ef`; a word/filler segment ends
before the number of frames searched; there are at most `cur` word/filler segments. -/
theorem C03_tile_consequences {F : Int} {ss : List Seg} (ht : SegsTile F ss) :
    (∀ s rest, ss = s :: rest → s.sf = 0) ∧
    ss.Pairwise (fun a b => a.sf ≤ b.sf ∧ a.ef ≤ b.ef) ∧
    (∀ s ∈ ss, 0 ≤ s.sf ∧ s.sf ≤ s.ef ∧ (s.wid < 0 ∨ s.ef < F)) ∧
    (0 ≤ F → (wordCount ss : Int) ≤ F) := by
  refine ⟨?_, tile_sorted ss (-1) (by omega) ht, ?_, ?_⟩
  · intro s rest he; subst he; exact tile_first ht
  · intro s hs
    have := tile_bounds ss (-1) (by omega) ht s hs
    exact ⟨by omega, this.2.1, this.2.2⟩
  · intro hF
    have := tile_wordCount ss (-1) (by omega) ht
    omega

/-- **C03, hypothesis = segment words.**  The hypothesis is exactly the base forms of the non-filler,
non-null segment words in order (`NULL` when there is none). -/
theorem C03_hyp_eq_segs (shift : Nat) (final : Bool) (base : Nat → β) {ss : List Seg}
    (hs : segs shift g h cur final = some ss) :
    (hyp base g h cur final).1 = (if (segWords base g ss).isEmpty then none else some (segWords base g ss)) := by
  obtain ⟨hx, rfl⟩ := segs_some hs
  have : segWords base g (segsAt shift g h (findExit g h cur cur final).bp) =
      hypWords base g h (findExit g h cur cur final).bp := by
    unfold segWords segsAt hypWords
    rw [List.filterMap_map]
    rfl
  rw [this]
  unfold hyp
  have hn : ¬ (findExit g h cur cur final).bp ≤ 0 := by omega
  simp only [hn, if_false]

/-- no segmentation ⇒ no hypothesis -/
theorem C03_no_segs_no_hyp (shift : Nat) (final : Bool) (base : Nat → β)
    (hs : segs shift g h cur final = none) (wf : WFHist g h cur) : (hyp base g h cur final).1 = none := by
  unfold segs at hs
  simp only at hs
  split at hs
  · rename_i hx; unfold hyp; simp [hx]
  · rename_i hx
    split at hs
    · -- an exit with an empty backtrace cannot occur in a well-formed table
      rename_i hemp
      obtain ⟨j, hj, hj0, hlt, _⟩ := findExit_pos (by omega : 0 < (findExit g h cur cur final).bp)
      have hc := chain_isChain wf hlt
      rw [hj] at hemp
      unfold segsAt at hemp
      have hne : chain h (j : Int) ≠ [] := by
        generalize chain h (j : Int) = l at hc
        cases hc with
        | zero => omega
        | step _ _ => simp
      simp [hne] at hemp
    · cases hs

/-- **C03, scores.**  Every segment has `prob = ascr + lscr`, and the per-segment acoustic and grammar
scores add up to the path score `decoder_hyp` reports (telescoping over the predecessor chain). -/
theorem C03_seg_scores_sum (wf : WFHist g h cur) (shift : Nat) (final : Bool) (base : Nat → β) {ss : List Seg}
    (hs : segs shift g h cur final = some ss) : ScoresSum ss (hyp base g h cur final).2 := by
  obtain ⟨hx, rfl⟩ := segs_some hs
  obtain ⟨j, hj, _, hlt, hsc, _⟩ := findExit_pos hx
  have hscore : (hyp base g h cur final).2 = (ent h j).score := by
    unfold hyp
    have hn : ¬ (findExit g h cur cur final).bp ≤ 0 := by omega
    simp only [hn, if_false]
    exact hsc
  rw [hscore, hj]
  obtain ⟨h1, h2⟩ := isChain_sum wf shift (chain_isChain wf hlt) hlt
  exact ⟨h2, h1⟩

/-- the Boolean checkers run on the iterator output decide the predicates -/
theorem C03_checkers_sound (F t : Int) (ss : List Seg) :
    (segsTileB F ss = true ↔ SegsTile F ss) ∧ (scoresSumB ss t = true ↔ ScoresSum ss t) :=
  ⟨segsTileB_iff F ss, scoresSumB_iff ss t⟩

/-- **C03, frame accounting carried by this model.**  No segment ends at or beyond the number of
frames searched: `ef < cur` — except that the start-of-utterance marker of an utterance with no frame
at all (`cur = 0`) sits at frame 0 (hence `max cur 1`).  The other half of the accounting (returns of
the processing calls add up to `cur` and to the frames the front end produced) is about
`decoder.c`/`acmod.c` (M5, C07) and is checked on the implementation for every utterance. -/
theorem C03_ends_within_frames (wf : WFHist g h cur) (shift : Nat) (final : Bool) {ss : List Seg}
    (hs : segs shift g h cur final = some ss) : ∀ s ∈ ss, s.ef < max cur 1 := by
  intro s hm
  have ht := C03_segs_tile wf shift final hs
  have hb := tile_bounds ss (-1) (by omega) ht s hm
  -- a null marker sits at the end of the previous word segment or at 0
  have hcur : 0 ≤ cur := by have := wf.below 0 wf.nonempty; rw [wf.root.2.1] at this; omega
  rcases hb.2.2 with hw | hw
  · -- null segment: its position is max prev 0 with prev < cur
    have key : ∀ (l : List Seg) (p : Int), p < max cur 1 → tileFrom cur p l → ∀ s ∈ l, s.wid < 0 → s.ef < max cur 1 := by
      intro l
      induction l with
      | nil => intro _ _ _ s hs; cases hs
      | cons a rest ih =>
        intro p hp ht s hs hw
        unfold tileFrom at ht
        by_cases ha : a.wid < 0
        · simp only [ha, if_true] at ht
          rcases List.mem_cons.1 hs with h1 | h1
          · subst h1; omega
          · exact ih p hp ht.2 s h1 hw
        · simp only [ha, if_false] at ht
          rcases List.mem_cons.1 hs with h1 | h1
          · subst h1; exact absurd hw ha
          · exact ih a.ef (by omega) ht.2 s h1 hw
    exact key ss (-1) (by omega) ht s hm hw
  · omega

/-! ### utterances of zero, one or a few frames -/

/-- `T = 0`: no frame searched — every segment is a null marker at frame 0 and there is no hypothesis -/
theorem C03_T0 {ss : List Seg} (ht : SegsTile 0 ss) : ∀ s ∈ ss, s.wid < 0 ∧ s.sf = 0 ∧ s.ef = 0 := by
  have key : ∀ (l : List Seg), tileFrom 0 (-1) l → ∀ s ∈ l, s.wid < 0 ∧ s.sf = 0 ∧ s.ef = 0 := by
    intro l
    induction l with
    | nil => intro _ s hs; cases hs
    | cons a rest ih =>
      intro ht s hs
      unfold tileFrom at ht
      by_cases ha : a.wid < 0
      · simp only [ha, if_true] at ht
        rcases List.mem_cons.1 hs with h1 | h1
        · subst h1; exact ⟨ha, by omega, by omega⟩
        · exact ih ht.2 s h1
      · simp only [ha, if_false] at ht
        omega
  exact key ss ht

/-- `T = 1`: every segment, word or marker, sits at frame 0 and at most one is a word/filler -/
theorem C03_T1 {ss : List Seg} (ht : SegsTile 1 ss) : (∀ s ∈ ss, s.sf = 0 ∧ s.ef = 0) ∧ wordCount ss ≤ 1 := by
  have hc := (C03_tile_consequences ht).2.2.2 (by omega)
  refine ⟨?_, by omega⟩
  have key : ∀ (l : List Seg) (p : Int), -1 ≤ p → p ≤ 0 → tileFrom 1 p l → ∀ s ∈ l, s.sf = 0 ∧ s.ef = 0 := by
    intro l
    induction l with
    | nil => intro _ _ _ _ s hs; cases hs
    | cons a rest ih =>
      intro p hp hp0 ht s hs
      unfold tileFrom at ht
      by_cases ha : a.wid < 0
      · simp only [ha, if_true] at ht
        rcases List.mem_cons.1 hs with h1 | h1
        · subst h1; omega
        · exact ih p hp hp0 ht.2 s h1
      · simp only [ha, if_false] at ht
        rcases List.mem_cons.1 hs with h1 | h1
        · subst h1; omega
        · exact ih a.ef (by omega) (by omega) ht.2 s h1
  exact key ss (-1) (by omega) (by omega) ht

/-- `T = 2`, `T = 3`: at most `T` word/filler segments, all inside `[0, T)` -/
theorem C03_T2_T3 {ss : List Seg} :
    (SegsTile 2 ss → wordCount ss ≤ 2 ∧ ∀ s ∈ ss, 0 ≤ s.sf ∧ s.sf ≤ s.ef ∧ (s.wid < 0 ∨ s.ef ≤ 1)) ∧
    (SegsTile 3 ss → wordCount ss ≤ 3 ∧ ∀ s ∈ ss, 0 ≤ s.sf ∧ s.sf ≤ s.ef ∧ (s.wid < 0 ∨ s.ef ≤ 2)) := by
  constructor
  · intro ht
    obtain ⟨_, _, hb, hc⟩ := C03_tile_consequences ht
    refine ⟨by have := hc (by omega); omega, fun s hs => ?_⟩
    have := hb s hs; omega
  · intro ht
    obtain ⟨_, _, hb, hc⟩ := C03_tile_consequences ht
    refine ⟨by have := hc (by omega); omega, fun s hs => ?_⟩
    have := hb s hs; omega

/-- a table that holds only the dummy and null entries recorded before the first frame (all frames −1):
whatever `cur` is, the result consists of markers at frame 0 and has no hypothesis words -/
theorem C03_only_start_markers (wf : WFHist g h cur) (shift : Nat) (final : Bool) (base : Nat → β)
    (hall : ∀ i, i < h.size → (ent h i).frame = -1) {ss : List Seg}
    (hs : segs shift g h cur final = some ss) :
    (∀ s ∈ ss, s.wid < 0 ∧ s.sf = 0 ∧ s.ef = 0) ∧ (hyp base g h cur final).1 = none := by
  obtain ⟨hx, rfl⟩ := segs_some hs
  obtain ⟨j, hj, _, hlt, _⟩ := findExit_pos hx
  have wf0 : WFHist g h 0 := { wf with below := fun i hi => by rw [hall i hi]; omega }
  have ht : SegsTile 0 (segsAt shift g h (findExit g h cur cur final).bp) := by
    rw [hj]; exact (isChain_tile wf0 shift (chain_isChain wf0 hlt) hlt).1
  have h0 := C03_T0 ht
  refine ⟨h0, ?_⟩
  rw [C03_hyp_eq_segs shift final base hs]
  have : segWords base g (segsAt shift g h (findExit g h cur cur final).bp) = [] := by
    unfold segWords
    rw [List.filterMap_eq_nil_iff]
    intro s hs'
    simp [(h0 s hs').1]
  simp [this]

/-! ### non-vacuity -/

def exG3 : Fsg :=
  { links := #[⟨0, 1, -2048, -1⟩, ⟨1, 2, 0, 0⟩, ⟨2, 3, -7168, -1⟩, ⟨3, 4, 0, 1⟩,
               ⟨1, 1, -345088, 2⟩, ⟨4, 4, -345088, 2⟩],
    start := 0, final := 4, filler := [2] }

/-- ε (before the first frame) · `<sil>` · go · ε · forward · `<sil>`; 12 frames searched -/
def exH3 : Hist :=
  #[dummy, ⟨some 0, -1, -2, 0, 0, []⟩, ⟨some 4, 2, -400, 1, 0, []⟩, ⟨some 1, 5, -700, 2, 0, []⟩,
    ⟨some 2, 5, -707, 3, 0, []⟩, ⟨some 3, 9, -1200, 4, 0, []⟩, ⟨some 5, 11, -1600, 5, 0, []⟩]

example : wfHistB exG3 exH3 12 = true := by decide
example : segs 10 exG3 exH3 12 true =
    some [⟨-1, 0, 0, 0, -2, -2⟩, ⟨2, 0, 2, -61, -337, -398⟩, ⟨0, 3, 5, -300, 0, -300⟩,
          ⟨-1, 5, 5, 0, -7, -7⟩, ⟨1, 6, 9, -493, 0, -493⟩, ⟨2, 10, 11, -63, -337, -400⟩] := by decide
example : segsTileB 12 ((segs 10 exG3 exH3 12 true).getD []) = true := by decide
example : scoresSumB ((segs 10 exG3 exH3 12 true).getD []) (-1600) = true := by decide
example : hyp id exG3 exH3 12 true = (some [0, 1], -1600) := by decide
/-- the code before the repair of D24 reports the leading marker at (−1, −1): rejected by the checker -/
example : segsTileB 12 [⟨-1, -1, -1, 0, -2, -2⟩, ⟨2, 0, 2, -61, -337, -398⟩] = false := by decide
/-- overlapping / gapped / overlong segmentations are rejected -/
example : segsTileB 12 [⟨0, 0, 4, 0, 0, 0⟩, ⟨1, 4, 9, 0, 0, 0⟩] = false := by decide
example : segsTileB 12 [⟨0, 0, 4, 0, 0, 0⟩, ⟨1, 6, 9, 0, 0, 0⟩] = false := by decide
example : segsTileB 12 [⟨0, 0, 12, 0, 0, 0⟩] = false := by decide

end SSVerif.Hist
