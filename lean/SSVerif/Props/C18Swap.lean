import SSVerif.Generated.FeSwap
/-!
# C18 — every sample-reading path of the front end applies the input_endian byte swap exactly once

`fe->swap` is set when `input_endian` differs from the host order: the caller's buffer then holds every sample with its
bytes reversed.  The front end moves incoming samples along several paths selected by configuration switches and by the
call shape: the int16 / float32 API, the dither / no-dither loops of `fe_read_frame_*` (first frame of a call) and
`fe_shift_frame_*` (every further frame), and the overflow buffer (`overflow_append`, `read_overflow_frame`,
`create_overflow_frame`, `append_overflow_frame`: samples left over between calls, kept as INPUT-endian float32 and read
back through `fe_read_frame_float32` by `read_overflow_frame` / `fe_end`).  The finite-ness clause of C18 quantifies
over every configuration and every legal sample: a path that forgets the swap (or swaps twice) interprets the reversed
bit pattern of a legal sample as the sample — for a float32 in [-1,1] that pattern can be NaN / Inf / 1e38.

`Generated/FeSwap.lean` is regenerated on every run from the text of `fe_sigproc.c` / `fe_interface.c`: per function and
branch, how many `SWAP_INT16` / `SWAP_FLOAT32` applications guarded by `if (fe->swap)` it contains, how many unguarded
ones, and which reader is applied to the overflow buffer.  The theorem below says: with these counts, on EVERY path
(any API, dither on or off, directly or through any sequence of overflow stages) the value that reaches `fe->spch` is
the sample the caller meant — for every bit pattern and both values of `fe->swap`.  Bytes are abstract (`β`), so the
statement holds for every bit pattern, not for a sample of them.  The dynamic side (tools/props/c18.py, sample-path
stratum + `fe` stratum) runs every cell of the cross input_endian x dither x remove_dc x API x call shape on the real
code with float32 samples chosen by bit pattern.
-/
namespace SSVerif.C18Swap
open SSVerif.Generated.FeSwap

/-- a 2-byte / 4-byte sample as it lies in memory, lowest address first; `β` = byte -/
structure W2 (β : Type) where
  b0 : β
  b1 : β
deriving DecidableEq
structure W4 (β : Type) where
  b0 : β
  b1 : β
  b2 : β
  b3 : β
deriving DecidableEq

/-- `SWAP_INT16` / `SWAP_FLOAT32`: reverse the bytes -/
def rev2 {β : Type} (x : W2 β) : W2 β := ⟨x.b1, x.b0⟩
def rev4 {β : Type} (x : W4 β) : W4 β := ⟨x.b3, x.b2, x.b1, x.b0⟩

theorem rev2_rev2 {β : Type} (x : W2 β) : rev2 (rev2 x) = x := by cases x; rfl
theorem rev4_rev4 {β : Type} (x : W4 β) : rev4 (rev4 x) = x := by cases x; rfl

/-- `n` applications of `f` -/
def iter {α : Type} (f : α → α) : Nat → α → α
  | 0, x => x
  | n + 1, x => iter f n (f x)

/-- what the caller meant: the buffer is in input order, which is the reversed host order exactly when `fe->swap` -/
def host2 {β : Type} (swap : Bool) (x : W2 β) : W2 β := if swap then rev2 x else x
def host4 {β : Type} (swap : Bool) (x : W4 β) : W4 β := if swap then rev4 x else x

/-- counts of a function/branch in the current sources (a missing row gives counts no check accepts) -/
def countsOf (name : String) : Nat × Nat × Nat := ((table.find? (·.1 = name)).map (·.2)).getD (7, 7, 7)
def n16 (name : String) : Nat := (countsOf name).1
def n32 (name : String) : Nat := (countsOf name).2.1

/-- a stage that moves float32 samples: its guarded `SWAP_FLOAT32`s are applied when `fe->swap` -/
def fstage {β : Type} (name : String) (swap : Bool) (x : W4 β) : W4 β := if swap then iter rev4 (n32 name) x else x
/-- a reader of int16 samples -/
def istage {β : Type} (name : String) (swap : Bool) (x : W2 β) : W2 β := if swap then iter rev2 (n16 name) x else x
/-- an overflow stage of the int16 API: swap the int16, convert it to float32 (`conv`, on host values), swap the float32 -/
def pstage {β : Type} (name : String) (conv : W2 β → W4 β) (swap : Bool) (x : W2 β) : W4 β :=
  if swap then iter rev4 (n32 name) (conv (iter rev2 (n16 name) x)) else conv x
/-- a sequence of float32 overflow stages (append, shift within the buffer, append again, …) -/
def runOverflow {β : Type} : List String → Bool → W4 β → W4 β
  | [], _, x => x
  | o :: os, sw, x => runOverflow os sw (fstage o sw x)

def floatReaders : List String :=
  ["fe_read_frame_float32/dither", "fe_read_frame_float32/nodither", "fe_shift_frame_float32/dither", "fe_shift_frame_float32/nodither"]
/-- the readers that `read_overflow_frame` / `fe_end` apply to the overflow buffer -/
def overflowFloatReaders : List String := ["fe_read_frame_float32/dither", "fe_read_frame_float32/nodither"]
def intReaders : List String := ["fe_read_frame_int16", "fe_shift_frame_int16"]
def floatOverflow : List String :=
  ["overflow_append/float32", "read_overflow_frame/float32", "create_overflow_frame/float32", "append_overflow_frame/float32"]
def pcmOverflow : List String :=
  ["overflow_append/pcm16", "read_overflow_frame/pcm16", "create_overflow_frame/pcm16", "append_overflow_frame/pcm16"]

/-- the decidable reading of the generated table: every reader swaps once, every float32 overflow stage copies, every
int16 overflow stage swaps the int16 once and the float32 once, nothing is swapped unguarded or elsewhere, and the
overflow buffer is read back by the float32 reader only -/
def tableOK : Bool :=
  floatReaders.all (fun s => decide (countsOf s = (0, 1, 0))) &&
  intReaders.all (fun s => decide (countsOf s = (1, 0, 0))) &&
  floatOverflow.all (fun s => decide (countsOf s = (0, 0, 0))) &&
  pcmOverflow.all (fun s => decide (countsOf s = (1, 1, 0))) &&
  decide (table.length = 14) && decide (swapsElsewhere = 0) &&
  decide (overflowReaders = [("read_overflow_frame", 1, 0), ("fe_end", 1, 0)])

theorem iter_zero {α : Type} (f : α → α) (x : α) : iter f 0 x = x := rfl
theorem iter_one {α : Type} (f : α → α) (x : α) : iter f 1 x = f x := rfl

theorem counts_of_all {l : List String} {c : Nat × Nat × Nat} (h : l.all (fun s => decide (countsOf s = c)) = true)
    {s : String} (hs : s ∈ l) : countsOf s = c := by
  have := List.all_eq_true.mp h s hs
  exact of_decide_eq_true this

theorem runOverflow_id {β : Type} (os : List String) (h : ∀ o ∈ os, countsOf o = (0, 0, 0)) (sw : Bool) (x : W4 β) :
    runOverflow os sw x = x := by
  induction os generalizing x with
  | nil => rfl
  | cons o os ih =>
    have ho : countsOf o = (0, 0, 0) := h o (by simp)
    have : fstage o sw x = x := by
      unfold fstage n32; rw [ho]; cases sw <;> simp [iter]
    simp only [runOverflow, this]
    exact ih (fun o' ho' => h o' (by simp [ho'])) x

/-- the statement about paths, from the table check alone -/
theorem paths_of_tableOK (h : tableOK = true) {β : Type} :
    (∀ s ∈ floatReaders, ∀ os : List String, (∀ o ∈ os, o ∈ floatOverflow) → ∀ (swap : Bool) (x : W4 β),
        fstage s swap (runOverflow os swap x) = host4 swap x) ∧
    (∀ s ∈ intReaders, ∀ (swap : Bool) (x : W2 β), istage s swap x = host2 swap x) ∧
    (∀ o ∈ pcmOverflow, ∀ os : List String, (∀ o' ∈ os, o' ∈ floatOverflow) → ∀ s ∈ overflowFloatReaders,
        ∀ (conv : W2 β → W4 β) (swap : Bool) (x : W2 β),
        fstage s swap (runOverflow os swap (pstage o conv swap x)) = conv (host2 swap x)) := by
  unfold tableOK at h
  simp only [Bool.and_eq_true] at h
  obtain ⟨⟨⟨⟨⟨⟨hf, hi⟩, hfo⟩, hpo⟩, _⟩, _⟩, _⟩ := h
  have ovf : ∀ os : List String, (∀ o ∈ os, o ∈ floatOverflow) → ∀ (sw : Bool) (y : W4 β), runOverflow os sw y = y :=
    fun os hos sw y => runOverflow_id os (fun o ho => counts_of_all hfo (hos o ho)) sw y
  refine ⟨?_, ?_, ?_⟩
  · intro s hs os hos swap x
    rw [ovf os hos]
    have hc := counts_of_all hf hs
    unfold fstage host4 n32; rw [hc]; cases swap <;> simp [iter]
  · intro s hs swap x
    have hc := counts_of_all hi hs
    unfold istage host2 n16; rw [hc]; cases swap <;> simp [iter]
  · intro o ho os hos s hs conv swap x
    rw [ovf os hos]
    have hs' : s ∈ floatReaders := by
      simp only [overflowFloatReaders, List.mem_cons, List.mem_nil_iff, or_false] at hs
      rcases hs with rfl | rfl <;> simp [floatReaders]
    have hc := counts_of_all hf hs'
    have hco := counts_of_all hpo ho
    unfold fstage pstage host2 n32 n16; rw [hc, hco]
    cases swap
    · simp
    · simp [iter, rev4_rev4]

/-- **C18, sample-reading paths (tie to the current sources).** With the swap counts of the current
`fe_sigproc.c` / `fe_interface.c` (regenerated on every run): for both values of `fe->swap`, every bit pattern, dither on
or off, (1) a float32 sample handed to `fe_read_frame_float32` / `fe_shift_frame_float32` — directly from the caller's
buffer or after any sequence of float32 overflow stages — reaches `fe->spch` as the sample the caller meant
(`host4`: the bytes reversed exactly when the input order differs from the host's); (2) so does an int16 sample through
`fe_read_frame_int16` / `fe_shift_frame_int16`; (3) an int16 sample parked in the overflow buffer by any int16 overflow
stage (swapped, converted, swapped back to input order), moved by any float32 overflow stages and read back by the float32
reader reaches it as the conversion of the sample the caller meant.  No path uses a byte-reversed pattern as a value. -/
theorem C18_sample_paths_swap_exactly_once {β : Type} :
    (∀ s ∈ floatReaders, ∀ os : List String, (∀ o ∈ os, o ∈ floatOverflow) → ∀ (swap : Bool) (x : W4 β),
        fstage s swap (runOverflow os swap x) = host4 swap x) ∧
    (∀ s ∈ intReaders, ∀ (swap : Bool) (x : W2 β), istage s swap x = host2 swap x) ∧
    (∀ o ∈ pcmOverflow, ∀ os : List String, (∀ o' ∈ os, o' ∈ floatOverflow) → ∀ s ∈ overflowFloatReaders,
        ∀ (conv : W2 β → W4 β) (swap : Bool) (x : W2 β),
        fstage s swap (runOverflow os swap (pstage o conv swap x)) = conv (host2 swap x)) :=
  paths_of_tableOK (by decide)

/-- the table lists every branch the theorem speaks about, nothing is swapped outside them, and the overflow buffer is
read back by `fe_read_frame_float32` in `read_overflow_frame` and `fe_end` (so clause (3) is the path the code takes) -/
theorem C18_sample_path_table_complete :
    (floatReaders ++ intReaders ++ floatOverflow ++ pcmOverflow).all (fun s => (table.find? (·.1 = s)).isSome) = true ∧
    table.length = 14 ∧ swapsElsewhere = 0 ∧ overflowReaders = [("read_overflow_frame", 1, 0), ("fe_end", 1, 0)] := by decide

/-! ### non-vacuity: what a forgotten swap does -/

-- 0x3E80FFFF (= 0.2519…, a legal sample) handed over big-endian to a little-endian host lies in memory as 3E 80 FF FF;
-- the reader that swaps once sees FF FF 80 3E (as a little-endian word 0x3E80FFFF again); one that forgets the swap uses
-- 3E 80 FF FF = little-endian word 0xFFFF803E: exponent 255, mantissa != 0 — a NaN
example : host4 true (⟨0x3E, 0x80, 0xFF, 0xFF⟩ : W4 Nat) = ⟨0xFF, 0xFF, 0x80, 0x3E⟩ := rfl
example : iter rev4 0 (⟨0x3E, 0x80, 0xFF, 0xFF⟩ : W4 Nat) ≠ host4 true ⟨0x3E, 0x80, 0xFF, 0xFF⟩ := by decide
example : iter rev4 2 (⟨0x3E, 0x80, 0xFF, 0xFF⟩ : W4 Nat) ≠ host4 true ⟨0x3E, 0x80, 0xFF, 0xFF⟩ := by decide
example : fstage "fe_shift_frame_float32/dither" true (⟨1, 2, 3, 4⟩ : W4 Nat) = ⟨4, 3, 2, 1⟩ := by decide

end SSVerif.C18Swap
