import SSVerif.Props.C17
import SSVerif.Model.ReadFlags
/-!
# C17 — the readers under every value of their configuration flags; the length ledger of a file mapping

The quantifier of C17 ("every truncation length, single-field corruptions … with and without memory mapping")
ranges over the files; the *configuration* the files are read under is a second, silent, dimension: a documented
flag that changes the read plan of a reader splits every statement about that reader in two.  The only such flag
read by a model-file reader is `cionly` (`bin_mdef_read_s3file(s, cionly)`; `topn`, `ds`, `compallsen`, the floors
are read after the files have been consumed and size heap objects only).  `Model/ReadFlags.lean` models the reader
with its flag as the code reads it (once, after the scan); the theorems below re-state `C17_mdef_decides` /
`C17_mdef_tables_aligned` for BOTH values and say that the flag does not change which bytes are checked or read.
The tie is `h_c17 s3 … mdefc` (the real reader with `cionly = 0/1` on every synthetic and bundled mdef fault, exact
size heap copy under ASan) against `ssdriver c17 … mdefc`, and stage B crossed with the configuration family.

Second part: the mapping ledger of `mmio.c`.  `munmap` must be given exactly the pages `mmap` mapped.
-/
namespace SSVerif.S3file

private theorem mdefPlanCi_eq (f : File) (c : Bool) :
    mdefPlanCi f c = match mdefPlan f with
      | .ok o => .ok { out := o, cdTree := if c then none else some o.lay.treeOff }
      | .reject s => .reject s
      | .oob i => .oob i
      | .idx i n => .idx i n := by
  unfold mdefPlanCi
  cases mdefPlan f <;> rfl

/-- **C17, the binary model definition under `cionly`.**  For every file and BOTH values of the documented flag
`cionly`, `bin_mdef_read_s3file` returns its error value or completes with the consistent tables of
`C17_mdef_decides` (counts within limits, names terminated inside the file, `cd_tree` area, phone records, sequence
area and length bytes inside the file, maps of exactly `n_sen` cells); no step reads outside the file (`oob`) and no
store is outside its allocation (`idx`).  When it completes the tables are those of the flag-free plan, and the flag
decides only the `cd_tree` pointer (`NULL` iff `cionly`). -/
theorem C17_mdef_cionly_decides (f : File) (cionly : Bool) :
    ((∃ site, mdefPlanCi f cionly = .reject site) ∨
      ∃ o, mdefPlanCi f cionly = .ok o ∧ o.out.Consistent f ∧ mdefPlan f = .ok o.out ∧
        o.cdTree = (if cionly then none else some o.out.lay.treeOff)) ∧
    (∀ i, mdefPlanCi f cionly ≠ .oob i) ∧ (∀ i n, mdefPlanCi f cionly ≠ .idx i n) := by
  have hd := C17_mdef_decides f
  rw [mdefPlanCi_eq]
  cases h : mdefPlan f with
  | ok o =>
    dsimp only
    refine ⟨Or.inr ⟨_, rfl, ?_, rfl, rfl⟩, ?_, ?_⟩
    · rcases hd.1 with ⟨s, hs⟩ | ⟨o', ho', hc⟩
      · rw [h] at hs; cases hs
      · rw [h] at ho'; cases ho'; exact hc
    · intro i e; cases e
    · intro i n e; cases e
  | reject s =>
    dsimp only
    refine ⟨Or.inl ⟨s, rfl⟩, ?_, ?_⟩
    · intro i e; cases e
    · intro i n e; cases e
  | oob i => exact absurd h (hd.2.1 i)
  | idx i n => exact absurd h (hd.2.2 i n)

/-- **C17, `cionly` does not change the read plan.**  The reader rejects a file with `cionly = yes` iff it rejects
it with `cionly = no`, from the same site; and when it accepts, the tables (every offset, count and map) are the
same — in particular the `cd_tree truncated!` bound check (bin_mdef.c:457) and the in-place swaps are executed under
both values.  A reader whose checks depend on the flag does not refine this model. -/
theorem C17_mdef_cionly_same_reads (f : File) :
    (∀ site, mdefPlanCi f true = .reject site ↔ mdefPlanCi f false = .reject site) ∧
    (∀ o, mdefPlanCi f true = .ok o → ∃ o', mdefPlanCi f false = .ok o' ∧ o'.out = o.out ∧ o.cdTree = none ∧
        o'.cdTree = some o.out.lay.treeOff) ∧
    (∀ o', mdefPlanCi f false = .ok o' → ∃ o, mdefPlanCi f true = .ok o ∧ o.out = o'.out) := by
  rw [mdefPlanCi_eq, mdefPlanCi_eq]
  cases mdefPlan f with
  | ok o =>
    dsimp only
    refine ⟨fun s => ⟨(fun e => by cases e), (fun e => by cases e)⟩, ?_, ?_⟩
    · intro o1 e; cases e; exact ⟨_, rfl, rfl, rfl, rfl⟩
    · intro o1 e; cases e; exact ⟨_, rfl, rfl⟩
  | reject s =>
    dsimp only
    refine ⟨fun s' => Iff.rfl, ?_, ?_⟩ <;> (intro o e; cases e)
  | oob i =>
    dsimp only
    refine ⟨fun s' => Iff.rfl, ?_, ?_⟩ <;> (intro o e; cases e)
  | idx i n =>
    dsimp only
    refine ⟨fun s' => Iff.rfl, ?_, ?_⟩ <;> (intro o e; cases e)

/-- **C17, the in-place tables are aligned under both values of `cionly`** (cf. `C17_mdef_tables_aligned`). -/
theorem C17_mdef_cionly_tables_aligned (f : File) (cionly : Bool) (o : MdefOutCi) (h : mdefPlanCi f cionly = .ok o) :
    o.out.hdr.dataOff % 4 = 0 ∧ o.out.lay.treeOff % 4 = 0 ∧ o.out.lay.phoneOff % 4 = 0 ∧ o.out.lay.sseqOff % 4 = 0 := by
  rcases (C17_mdef_cionly_decides f cionly).1 with ⟨s, hs⟩ | ⟨o', ho', _, hp, _⟩
  · rw [hs] at h; cases h
  · rw [ho'] at h; cases h
    exact C17_mdef_tables_aligned f _ hp

/-- the example mdef of `Props/C17.lean` is accepted under both values, with and without its tree pointer … -/
example : (match mdefPlanCi (File.ofList exMdef) true, mdefPlanCi (File.ofList exMdef) false with
    | .ok a, .ok b => a.cdTree == none && b.cdTree == some 72 && a.out.hdr.nCdTree == 4
    | _, _ => false) = true := by decide +kernel
/-- … and every truncation of it (also those inside the `cd_tree`, bytes 72..104) is rejected under `cionly = yes` -/
example : ((List.range 188).all fun t =>
    match mdefPlanCi (File.ofList (exMdef.take t)) true with | .reject _ => true | _ => false) = true := by decide +kernel
/-- `n_cd_tree` corrupted upward (offset 56: 4 → 0x01000004) is rejected under `cionly = yes` at the tree check -/
example : (match mdefPlanCi (File.ofList (exMdef.set 59 1)) true with
    | .reject s => s == "cd_tree truncated!" | _ => false) = true := by decide +kernel

/-! ## the mapping ledger of `mmio.c` -/

/-- **C17, a model file is unmapped with exactly the length it was mapped with.**  For every file size and page
size: the length `mmio_file_unmap` gives to `munmap` (`mapsize`, stored at map time) is a whole number of pages, it
covers the file, it is less than one page longer — i.e. it is the least page multiple ≥ the file size — and
`munmap` therefore releases exactly the pages `mmap(NULL, st_size, …)` mapped (`pagesOf`): not one page of memory
behind the mapping, also when the file size is itself a multiple of the page size. -/
theorem C17_unmap_is_map (size page : Nat) (hp : 0 < page) :
    let m := mmioLife size page
    m.unmapped % page = 0 ∧ m.mapped ≤ m.unmapped ∧ m.unmapped < m.mapped + page ∧
    pagesOf m.unmapped page = pagesOf m.mapped page ∧
    (size % page = 0 → m.unmapped = size) := by
  simp only [mmioLife, mapLen, pagesOf]
  have hdm := Nat.div_add_mod (size + page - 1) page
  have hlt := Nat.mod_lt (size + page - 1) hp
  have hcomm : (size + page - 1) / page * page = page * ((size + page - 1) / page) := Nat.mul_comm _ _
  generalize hq : (size + page - 1) / page = q at *
  generalize hr : (size + page - 1) % page = r at *
  rw [hcomm]
  generalize hqp : page * q = qp at *
  refine ⟨?_, by omega, by omega, ?_, ?_⟩
  · rw [← hqp]; exact Nat.mul_mod_right _ _
  · -- (qp + page - 1) / page = q
    rw [← hqp]
    have : page * q + page - 1 = page - 1 + page * q := by omega
    rw [this, Nat.add_mul_div_left _ _ hp, Nat.div_eq_of_lt (by omega)]
    omega
  · intro hmod
    -- size = page * k, so size + page - 1 = page * k + (page - 1): q = k
    have hk := Nat.div_add_mod size page
    rw [hmod] at hk
    have h1 : size + page - 1 = page - 1 + page * (size / page) := by omega
    have h2 : (size + page - 1) / page = size / page := by
      rw [h1, Nat.add_mul_div_left _ _ hp, Nat.div_eq_of_lt (by omega)]; omega
    rw [hq] at h2
    rw [← hqp, h2]; omega

/-- a file of exactly 49 pages is released with 49 pages, one byte more takes 50 -/
example : (mmioLife 200704 4096).unmapped = 200704 ∧ (mmioLife 200705 4096).unmapped = 204800 ∧
    (mmioLife 200703 4096).unmapped = 200704 := by decide

end SSVerif.S3file
