import SSVerif.Proofs.TextFsg
import SSVerif.Proofs.FsgRead
/-!
# C10 → C13: what the byte-level FSG reader accepts satisfies the hypotheses of the grammar model

Audit item B7: `FsgWF` (the well-formedness proved of everything `TextFsg.fsgRead` accepts,
`C10_fsg_wf`) was used nowhere outside C10, while the theorems of C13 (`Props/C13.lean`, closure
laws, language preservation) are stated for grammars `g : Fsg.Fsg` satisfying `InRange`, `VocOK`,
`vocab.Nodup`, `ClosureWF` — established there for the *token-level* reader `Fsg.read`.

This file is the bridge at the level of the accepted object: `toC13` assembles, from the object the
byte-level reader returned, the C13 grammar with C13's own primitives — `Fsg.init`, `transAdd` for
every word transition, `nullAdd` for every null transition, `closure` — exactly the calls
`fsg_model_read_s3file` makes after scanning (`fsg_model_init`, `fsg_model_trans_add`,
`fsg_model_null_trans_add`, `fsg_model_null_trans_closure`); `C10_fsg_feeds_C13` proves that
`FsgWF` implies every hypothesis the C13 theorems need, so they apply to every grammar accepted from
bytes.  Parameters that are floating point in C stay parameters: `lp` (the integer
log-probability `(int32)(logmath_log(lmath, p) * lw)` of a probability literal) with the law
`zero ≤ lp p ≤ 0` for the literals of the null transitions of the object — evaluated by the C10
check on every link the real reader returns (`cmp_fsg`: "log-probability > 0" / "below log-zero").

**What this is not** (said plainly): it is not a refinement proof between the two reader models
(`TextFsg.fsgRead` on bytes and `Fsg.read` on tokens remain two models of one C function, each tied
to the code by its own correspondence check); word transitions are added before null transitions
(the file order interleaves them; the two kinds never look at each other's links, so only the
order of `links` differs); words become `String`s through the injective Latin-1 embedding.
No bridge is given from `DictWF` (C10) to C16's `WF`: C16's invariant (hash-table soundness and
completeness, alternate-pronunciation chains) is not a consequence of the range facts of `DictWF`;
it needs a simulation between `TextDict.dictAdd` and `Dict.add`, which was not done.
-/
namespace SSVerif.TextIn
open SSVerif.Fsg

/-- byte → character with the same number (Latin-1): an injective way to turn a word of the byte
model into a `String` of the grammar model -/
def b2c (b : UInt8) : Char := Char.ofNat b.toNat

theorem ofNat_toNat_small : ∀ n : Nat, n < 256 → (Char.ofNat n).toNat = n := by decide +kernel

theorem b2c_inj (a b : UInt8) (h : b2c a = b2c b) : a = b := by
  have ha := ofNat_toNat_small a.toNat (UInt8.toNat_lt a)
  have hb := ofNat_toNat_small b.toNat (UInt8.toNat_lt b)
  unfold b2c at h
  rw [h] at ha
  exact UInt8.toNat_inj.mp (ha.symm.trans hb)

theorem map_b2c_inj : ∀ (a b : List UInt8), a.map b2c = b.map b2c → a = b
  | [], [], _ => rfl
  | [], _ :: _, h => by simp at h
  | _ :: _, [], h => by simp at h
  | x :: a, y :: b, h => by
    simp only [List.map_cons, List.cons.injEq] at h
    rw [b2c_inj x y h.1, map_b2c_inj a b h.2]

def latin1 (w : List UInt8) : String := String.ofList (w.map b2c)

theorem latin1_inj (a b : List UInt8) (h : latin1 a = latin1 b) : a = b := by
  unfold latin1 at h
  have := congrArg String.toList h
  simp only [String.toList_ofList] at this
  exact map_b2c_inj a b this

theorem nodup_map_latin1 : ∀ (l : List (List UInt8)), l.Nodup → (l.map latin1).Nodup
  | [], _ => List.nodup_nil
  | w :: l, h => by
    rw [List.nodup_cons] at h
    rw [List.map_cons, List.nodup_cons]
    refine ⟨?_, nodup_map_latin1 l h.2⟩
    intro hm
    obtain ⟨w', hw', e⟩ := List.mem_map.1 hm
    exact h.1 (latin1_inj _ _ e ▸ hw')

/-- the grammar before the closure: `fsg_model_init`, the vocabulary in id order, one
`fsg_model_trans_add` per word transition, one `fsg_model_null_trans_add` per null transition -/
def toC13Pre (lp : FloatLit → Int) (zero : Int) (f : FsgObj) : Fsg :=
  let g0 : Fsg := { Fsg.init (latin1 f.name) f.nState f.start f.final zero with vocab := f.vocab.map latin1 }
  let g1 := f.trans.foldl (fun g t => transAdd g t.1 t.2.1 (lp t.2.2.2) t.2.2.1) g0
  f.nulls.foldl (fun g t => (nullAdd g t.1 t.2.1 (lp t.2.2)).1) g1

/-- the grammar `fsg_model_read_s3file` returns for the accepted object -/
def toC13 (lp : FloatLit → Int) (zero : Int) (f : FsgObj) : Fsg := closure (toC13Pre lp zero f)

/-- invariant carried through the two folds -/
structure PreInv (n : Nat) (z : Int) (s fi : Nat) (voc : List String) (g : Fsg) : Prop where
  rd : RdInv n z g
  start : g.start = s
  final : g.final = fi
  vocab : g.vocab = voc
  nwf : NullWF g
  nge : NullGe z g

theorem toC13Pre_inv (lp : FloatLit → Int) (zero : Int) (f : FsgObj) (wf : FsgWF f)
    (law : ∀ t ∈ f.nulls, zero ≤ lp t.2.2 ∧ lp t.2.2 ≤ 0) :
    PreInv f.nState zero f.start f.final (f.vocab.map latin1) (toC13Pre lp zero f) := by
  unfold toC13Pre
  simp only
  have h0 : PreInv f.nState zero f.start f.final (f.vocab.map latin1)
      { Fsg.init (latin1 f.name) f.nState f.start f.final zero with vocab := f.vocab.map latin1 } :=
    ⟨⟨rfl, fun _ h => (by cases h), fun _ h => (by cases h), nodup_map_latin1 _ wf.vocab_nodup, rfl, rfl, rfl⟩,
     rfl, rfl, rfl,
     ⟨fun _ h => (by cases h), fun _ h => (by cases h), by simp [nullKeys, nullLinks, Fsg.init]⟩,
     fun _ h => (by cases h)⟩
  -- word transitions
  have h1 : ∀ (ts : List (Nat × Nat × Nat × FloatLit)) (g : Fsg),
      (∀ t ∈ ts, t.1 < f.nState ∧ t.2.1 < f.nState ∧ t.2.2.1 < f.vocab.length ∧ ProbOk t.2.2.2) →
      PreInv f.nState zero f.start f.final (f.vocab.map latin1) g →
      PreInv f.nState zero f.start f.final (f.vocab.map latin1)
        (ts.foldl (fun g t => transAdd g t.1 t.2.1 (lp t.2.2.2) t.2.2.1) g) := by
    intro ts
    induction ts with
    | nil => intro g _ h; exact h
    | cons t ts ih =>
      intro g ht h
      rw [List.foldl_cons]
      refine ih _ (fun t' m => ht t' (List.mem_cons_of_mem _ m)) ?_
      obtain ⟨ha, hc, hw, _⟩ := ht t List.mem_cons_self
      have tf := transAdd_fields g t.1 t.2.1 (lp t.2.2.2) t.2.2.1
      exact ⟨transAdd_inv h.rd ha hc _ (by rw [h.vocab, List.length_map]; exact hw),
        tf.1.trans h.start, tf.2.1.trans h.final, tf.2.2.2.1.trans h.vocab,
        nullWF_transAdd h.nwf _ _ _ _, nullGe_transAdd h.nge _ _ _ _⟩
  -- null transitions
  have h2 : ∀ (ts : List (Nat × Nat × FloatLit)) (g : Fsg),
      (∀ t ∈ ts, t.1 < f.nState ∧ t.2.1 < f.nState ∧ t.1 ≠ t.2.1 ∧ ProbOk t.2.2) →
      (∀ t ∈ ts, zero ≤ lp t.2.2 ∧ lp t.2.2 ≤ 0) →
      PreInv f.nState zero f.start f.final (f.vocab.map latin1) g →
      PreInv f.nState zero f.start f.final (f.vocab.map latin1)
        (ts.foldl (fun g t => (nullAdd g t.1 t.2.1 (lp t.2.2)).1) g) := by
    intro ts
    induction ts with
    | nil => intro g _ _ h; exact h
    | cons t ts ih =>
      intro g ht hl h
      rw [List.foldl_cons]
      refine ih _ (fun t' m => ht t' (List.mem_cons_of_mem _ m)) (fun t' m => hl t' (List.mem_cons_of_mem _ m)) ?_
      obtain ⟨ha, hc, _, _⟩ := ht t List.mem_cons_self
      have hp := hl t List.mem_cons_self
      have nf := nullAdd_start g t.1 t.2.1 (lp t.2.2)
      exact ⟨nullAdd_inv h.rd ha hc _, nf.1.trans h.start, nf.2.1.trans h.final, nf.2.2.2.1.trans h.vocab,
        nullWF_nullAdd h.nwf _ _ hp.2, nullGe_nullAdd h.nge _ _ hp.1⟩
  exact h2 _ _ wf.nulls law (h1 _ _ wf.trans h0)

/-- **C10 → C13 bridge.** For every object the byte-level reader accepts (`FsgWF`, by
`C10_fsg_wf` for every `fsgRead buf = .ok f`), the grammar assembled with the C13 primitives meets
every hypothesis of the C13 theorems: start and final state and every arc inside
`0 … nState-1`, word ids inside the vocabulary, no duplicate vocabulary entry, no filler/alternate
marks, `ClosureWF` and `NullClosed` — provided the log-probability of every null transition of the
object lies in `[zero, 0]` (a finite, decidable condition on the object; the C10 check evaluates it
on every link of every grammar the real reader returns). -/
theorem C10_fsg_feeds_C13 (lp : FloatLit → Int) (zero : Int) (f : FsgObj) (wf : FsgWF f)
    (law : ∀ t ∈ f.nulls, zero ≤ lp t.2.2 ∧ lp t.2.2 ≤ 0) (hz : zero ≤ 0) :
    let g := toC13 lp zero f
    g.nState = f.nState ∧ g.start = f.start ∧ g.final = f.final ∧ g.vocab = f.vocab.map latin1 ∧
    g.start < g.nState ∧ g.final < g.nState ∧ InRange g ∧ VocOK g ∧ g.vocab.Nodup ∧ g.logZero = zero ∧
    g.sil = [] ∧ g.alt = [] ∧ ClosureWF g ∧ NullClosed g := by
  intro g
  have inv := toC13Pre_inv lp zero f wf law
  generalize hg0 : toC13Pre lp zero f = g0 at inv
  have hg : g = closure g0 := by simp only [g, toC13, hg0]
  obtain ⟨wl, sn, ss, sf, sv, ssil, salt, _, sz⟩ := closure_same g0
  have cw : ClosureWF g0 := ⟨inv.nwf, inv.rd.zero ▸ inv.nge, inv.rd.zero ▸ hz⟩
  rw [hg]
  refine ⟨sn.trans inv.rd.nState, ss.trans inv.start, sf.trans inv.final, sv.trans inv.vocab,
    by rw [ss, sn, inv.start, inv.rd.nState]; exact wf.start,
    by rw [sf, sn, inv.final, inv.rd.nState]; exact wf.final, ?_, ?_, sv ▸ inv.rd.nodup,
    sz.trans inv.rd.zero, ssil.trans inv.rd.sil, salt.trans inv.rd.alt, closureWF_closure cw, closure_closed cw⟩
  · intro l hl
    rw [sn]
    exact closureLoop_range _ g0 _ inv.rd.range l hl
  · intro l hl w hw
    rw [sv]
    have : l ∈ wordLinks (closure g0) := List.mem_filter.2 ⟨hl, by simp [Link.isNull, hw]⟩
    rw [wl] at this
    exact inv.rd.voc l (List.mem_filter.1 this).1 w hw

/-- the same from the bytes: every grammar text the byte-level reader accepts -/
theorem C10_fsg_bytes_feed_C13 (buf : Buf) (f : FsgObj) (h : fsgRead buf = .ok f)
    (lp : FloatLit → Int) (zero : Int) (law : ∀ t ∈ f.nulls, zero ≤ lp t.2.2 ∧ lp t.2.2 ≤ 0) (hz : zero ≤ 0) :
    InRange (toC13 lp zero f) ∧ VocOK (toC13 lp zero f) ∧ (toC13 lp zero f).vocab.Nodup ∧
    ClosureWF (toC13 lp zero f) ∧ NullClosed (toC13 lp zero f) ∧
    (toC13 lp zero f).start < (toC13 lp zero f).nState ∧ (toC13 lp zero f).final < (toC13 lp zero f).nState := by
  have b := C10_fsg_feeds_C13 lp zero f (fsgRead_wf buf f h) law hz
  simp only at b
  exact ⟨b.2.2.2.2.2.2.1, b.2.2.2.2.2.2.2.1, b.2.2.2.2.2.2.2.2.1, b.2.2.2.2.2.2.2.2.2.2.2.2.1,
    b.2.2.2.2.2.2.2.2.2.2.2.2.2, b.2.2.2.2.1, b.2.2.2.2.2.1⟩

/-! non-vacuity: a text with two chained null transitions and a word is accepted from bytes, and the
assembled C13 grammar has the two null links, the closing link `0 → 2` and the word link, vocabulary
`["go"]`; the law holds for the constant `lp = -1` -/
example : (match fsgRead "FSG_BEGIN x\nN 4\nS 0\nF 3\nT 0 1 0.5\nT 1 2 0.5\nT 2 3 1.0 go\nFSG_END\n".toUTF8.data with
    | .ok f =>
      let g := toC13 (fun _ => -1) (-536870912) f
      decide (g.links.length = 4 ∧ g.vocab = ["go"] ∧ nullLookup g 0 2 = some (-2) ∧ g.nState = 4 ∧ g.start = 0 ∧ g.final = 3)
    | .error _ => false) = true := by decide +kernel
example (f : FsgObj) : ∀ t ∈ f.nulls, (-536870912 : Int) ≤ (fun _ => (-1 : Int)) t.2.2 ∧ (fun _ => (-1 : Int)) t.2.2 ≤ 0 :=
  fun _ _ => ⟨by show (-536870912 : Int) ≤ -1; decide, by show (-1 : Int) ≤ 0; decide⟩

end SSVerif.TextIn
