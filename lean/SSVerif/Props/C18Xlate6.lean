import SSVerif.Translated.Hmm
import SSVerif.Props.C18Xlate
import SSVerif.Props.C18More
/-!
# C18 — `hmm_normalize` (renormalisation of the aligner) as translated from the C text, against the C18 model

`SSVerif/Translated/Hmm.lean` (regenerated from `src/hmm.c` on every run of the C18 check) contains the translation of
`hmm_normalize`; the C18 model is `Ranges.H3.normalize` (with `normOne`), the object of `C18_normalize_no_wrap` and of the
frame budget of the aligner.  For a 3-state HMM: the translated function leaves exactly the model's scores
(`C18_xlate_normalize_refines`), the model's trace of stored values covers every overflow check of the AST
(`C18_xlate_normalize_trace_covers`), and `C18_normalize_no_wrap` restated about the translated text
(`C18_xlate_normalize_no_wrap`).
-/
set_option linter.unusedSimpArgs false

namespace SSVerif
open SSVerif.Translated SSVerif.Translated.Hmm SSVerif.Ranges SSVerif.Generated.Ranges

/-- **C18, translation tie of `hmm_normalize` (3 states):** new state scores and exit score are the model's, nothing
else is written -/
theorem C18_xlate_normalize_refines (fuel : Nat) (undef : Nat → Int) (score hist : Int → Int) (os oh bs b : Int) :
    let r := hmm_normalize (fuel + 4) undef 3 os score b
    let m := ((xlH3 score hist os oh bs).normalize b).1
    r.1 = m.out ∧ r.2 0 = m.s0 ∧ r.2 1 = m.s1 ∧ r.2 2 = m.s2 ∧ (∀ k, k ≠ 0 → k ≠ 1 → k ≠ 2 → r.2 k = score k) := by
  intro r m
  simp only [r, m, hmm_normalize, hmm_normalize_loop1, H3.normalize, normOne, xlH3, WORST, worstScore, ite_fam_apply,
    upd1_apply, Int.reduceNeg, Int.reduceEq, Int.reduceLT, Int.reduceAdd, if_true, if_false]
  refine ⟨?_, ?_, ?_, ?_, ?_⟩
  · split <;> omega
  · split <;> omega
  · split <;> omega
  · split <;> omega
  · intro k k0 k1 k2
    simp only [k0, k1, k2, if_false, ite_self]

/-- **C18, translation tie: the model's trace covers every overflow check of `hmm_normalize`** (the four subtractions
`score - bestscr`, each under its guard `score > WORST_SCORE`; the loop counter; the loop ends) -/
theorem C18_xlate_normalize_trace_covers (fuel : Nat) (undef : Nat → Int) (score hist : Int → Int) (os oh bs b : Int)
    (H : ∀ x ∈ ((xlH3 score hist os oh bs).normalize b).2, I32 x) :
    hmm_normalize_ok (fuel + 4) undef 3 os score b = true := by
  simp only [H3.normalize, normOne, xlH3, WORST, worstScore, I32, int32Min, int32Max, List.forall_mem_cons,
    List.mem_cons, List.not_mem_nil, forall_eq_or_imp, forall_eq, Int.reduceNeg] at H
  obtain ⟨a0, a1, a2, a3, _⟩ := H
  simp only [hmm_normalize_ok, hmm_normalize_ok_loop1, ite_pair, ite_fam_apply, upd1_apply, Bool.true_and,
    Int.reduceNeg, Int.reduceEq, Int.reduceLT, Int.reduceAdd, if_true, if_false]
  repeat' split
  all_goals simp only [Bool.and_eq_true, decide_eq_true_eq, true_and, and_true, Bool.true_and, decide_true] at *
  all_goals (try (repeat' constructor)) <;> (try split at a0) <;> (try split at a1) <;> (try split at a2) <;>
    (try split at a3) <;> omega

/-- **C18, renormalisation, about the translated C text.**  `C18_normalize_no_wrap` restated: when the aligner's test
fires with `best ≤ 0` and the scores of the HMM are in `[WORST_SCORE, U]`, `U - WORST_SCORE ≤ INT32_MAX`, the C execution of
`hmm_normalize` is defined. -/
theorem C18_xlate_normalize_no_wrap (fuel : Nat) (undef : Nat → Int) (score hist : Int → Int) (os oh bs b : Int) {U : Int}
    (hfire : renormFires b = true) (hb0 : b ≤ 0) (hU : U - WORST ≤ int32Max) (hb : Bd3 WORST U (xlH3 score hist os oh bs)) :
    hmm_normalize_ok (fuel + 4) undef 3 os score b = true :=
  C18_xlate_normalize_trace_covers fuel undef score hist os oh bs b (C18_normalize_no_wrap hfire hb0 hU hb).1

/-- non-vacuity: subtracting a negative best score from a score near `INT_MAX` clears the flag; a score at `WORST_SCORE` is not touched -/
example :
    hmm_normalize_ok 4 (fun _ => 0) 3 (-5) (fun _ => 2147483000) (-1000) = false ∧
    hmm_normalize_ok 4 (fun _ => 0) 3 (-5) (fun _ => -536870912) 1000 = true ∧
    (hmm_normalize 4 (fun _ => 0) 3 (-5) (fun _ => -536870912) 1000).1 = -1005 := by
  decide

end SSVerif
