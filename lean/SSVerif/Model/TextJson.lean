import SSVerif.Model.TextIn
/-!
# M17 — the JSON tokeniser (`src/jsmn.h`, non-strict, no parent links) and the typed
configuration assignment of `src/config.c` (`config_parse_json`, lines 441-520; `unescape`,
lines 392-439; `config_set_str` / `anytype_from_str`, lines 862-927)

`config_parse_json` runs `jsmn_parse` twice: once without a token array to count, once to fill
exactly that many tokens.  Both passes scan strings and primitives identically and the counting
pass accepts whatever the filling pass accepts, so the outcome is that of one filling pass over an
unbounded token array that yields at least one token (`jsmnParse`).  Token `size` fields are not
used by `config.c` and are not modelled.

Every read of the JSON text is `js[i]'h` with `h : i < js.size` (`js` = the C string without its
terminating NUL).
-/
namespace SSVerif.TextIn

/-- the build mode of `jsmn.h` inside `config.c` and the `ARG_*` type codes this model is written
for, checked against the constants regenerated from the current sources -/
example : Generated.TextIn.jsmnStrict = false ∧ Generated.TextIn.jsmnParentLinks = false := ⟨rfl, rfl⟩
example : (Generated.TextIn.argRequired, Generated.TextIn.argInteger, Generated.TextIn.argFloating,
    Generated.TextIn.argString, Generated.TextIn.argBoolean) = (1, 2, 4, 8, 16) := rfl

inductive TokType where
  | object | array | string | primitive
deriving Repr, DecidableEq, Inhabited

/-- `jsmntok_t`: `stop = none` is `end == -1` (an object/array not closed yet) -/
structure Tok where
  ty : TokType
  start : Nat
  stop : Option Nat
deriving Repr, DecidableEq, Inhabited

inductive JsonErr where
  | inval | part | empty | badKey | missingValue | badParam
deriving Repr, DecidableEq, Inhabited

/-- the characters that end a primitive (`jsmn_parse_primitive`, non-strict): `: \t \r \n ' ' , ] }` -/
def isPrimDelim (b : UInt8) : Bool :=
  b == 58 || b == 9 || b == 13 || b == 10 || b == 32 || b == 44 || b == 93 || b == 125

/-- rest of `jsmn_parse_primitive` from `p`: index of the delimiter (or the end of text);
`none` = `JSMN_ERROR_INVAL` (a byte `< 32` or `≥ 127`; `char` is signed, so bytes ≥ 128 too) -/
def scanPrim (js : Buf) (p : Nat) : Option Nat :=
  if h : p < js.size then
    let c := js[p]'h
    if isPrimDelim c then some p
    else if c < 32 || c ≥ 127 then none
    else scanPrim js (p + 1)
  else some p
termination_by js.size - p

theorem scanPrim_ge (js : Buf) (p q : Nat) (h : scanPrim js p = some q) : p ≤ q := by
  fun_induction scanPrim js p with
  | case1 p hp c hc => injection h with h; omega
  | case2 p hp c hc hbad => cases h
  | case3 p hp c hc hbad ih => have := ih h; omega
  | case4 p hp => injection h with h; omega

inductive StrScan where
  | closed (q : Nat)   -- index of the closing quote
  | inval
  | part
deriving Repr, DecidableEq

def isEscapable (b : UInt8) : Bool :=
  b == 34 || b == 47 || b == 92 || b == 98 || b == 102 || b == 114 || b == 110 || b == 116

/-- the loop of `jsmn_parse_string` from `p` (after the opening quote) -/
def scanStr (js : Buf) (p : Nat) : StrScan :=
  if h : p < js.size then
    let c := js[p]'h
    if c == 34 then .closed p
    else if h2 : c == 92 ∧ p + 1 < js.size then
      if isEscapable (js[p + 1]'h2.2) then scanStr js (p + 2) else .inval
    else scanStr js (p + 1)
  else .part
termination_by js.size - p

theorem scanStr_closed (js : Buf) (p q : Nat) (h : scanStr js p = .closed q) : p ≤ q ∧ q < js.size := by
  fun_induction scanStr js p with
  | case1 p hp c hc => injection h with h; subst h; exact ⟨Nat.le_refl _, hp⟩
  | case2 p hp c hc h2 he ih => have := ih h; omega
  | case3 p hp c hc h2 he => cases h
  | case4 p hp c hc h2 ih => have := ih h; omega
  | case5 p hp => cases h

/-- the open (not yet closed) token with the largest index `< i` -/
def findOpen (toks : Array Tok) : Nat → Option Nat
  | 0 => none
  | i + 1 =>
    match toks[i]? with
    | some t => if t.stop.isNone then some i else findOpen toks i
    | none => findOpen toks i

def isWs (b : UInt8) : Bool := b == 9 || b == 13 || b == 10 || b == 32

/-- the main loop of `jsmn_parse` (filling pass); `sup` is `toksuper` (`none` = -1) -/
def jsmnLoop (js : Buf) (pos : Nat) (toks : Array Tok) (sup : Option Nat) : Except JsonErr (Array Tok) :=
  if h : pos < js.size then
    let c := js[pos]'h
    if c == 123 || c == 91 then
      let t : Tok := { ty := if c == 123 then .object else .array, start := pos, stop := none }
      jsmnLoop js (pos + 1) (toks.push t) (some toks.size)
    else if c == 125 || c == 93 then
      let ty : TokType := if c == 125 then .object else .array
      match findOpen toks toks.size with
      | none => .error .inval
      | some i =>
        match toks[i]? with
        | none => .error .inval
        | some t =>
          if t.ty != ty then .error .inval
          else
            let toks' := toks.set! i { t with stop := some (pos + 1) }
            jsmnLoop js (pos + 1) toks' (findOpen toks' i)
    else if c == 34 then
      match hs : scanStr js (pos + 1) with
      | .closed q => jsmnLoop js (q + 1) (toks.push { ty := .string, start := pos + 1, stop := some q }) sup
      | .inval => .error .inval
      | .part => .error .part
    else if isWs c then jsmnLoop js (pos + 1) toks sup
    else if c == 58 then
      jsmnLoop js (pos + 1) toks (if toks.size == 0 then none else some (toks.size - 1))
    else if c == 44 then
      let sup' := match sup with
        | none => none
        | some s =>
          match toks[s]? with
          | some t => if t.ty == .array || t.ty == .object then sup
                      else (match findOpen toks toks.size with | some i => some i | none => sup)
          | none => sup
      jsmnLoop js (pos + 1) toks sup'
    else
      -- jsmn_parse_primitive; its first byte is not a delimiter here
      if c < 32 || c ≥ 127 then .error .inval
      else match hq : scanPrim js (pos + 1) with
        | none => .error .inval
        | some q => jsmnLoop js q (toks.push { ty := .primitive, start := pos, stop := some q }) sup
  else
    if toks.any (·.stop.isNone) then .error .part else .ok toks
termination_by js.size - pos
decreasing_by
  all_goals simp_wf
  all_goals first
    | omega
    | (have := scanStr_closed js _ _ hs; omega)
    | (have := scanPrim_ge js _ _ hq; omega)

def jsmnParse (js : Buf) : Except JsonErr (Array Tok) :=
  match jsmnLoop js 0 #[] none with
  | .error e => .error e
  | .ok toks => if toks.size == 0 then .error .empty else .ok toks

/-- `unescape` (config.c:392-439) on the text of one token; a backslash followed by anything
else (or by the end of the token) is copied as it is -/
def unescape : List UInt8 → List UInt8
  | [] => []
  | 92 :: e :: r =>
    if e == 34 then 34 :: unescape r
    else if e == 92 then 92 :: unescape r
    else if e == 98 then 8 :: unescape r
    else if e == 102 then 12 :: unescape r
    else if e == 110 then 10 :: unescape r
    else if e == 114 then 13 :: unescape r
    else if e == 116 then 9 :: unescape r
    else 92 :: unescape (e :: r)
  | b :: r => b :: unescape r

/-- a configuration value (`anytype_t` read through its declared type) -/
inductive CfgVal where
  | int (v : Int)
  | flt (v : FloatLit)
  | str (v : Option (List UInt8))
  | bool (b : Bool)
deriving Repr, DecidableEq, Inhabited

/-- one `config_param_t`: name, `type` bits, default string (`none` = NULL) -/
structure CfgDef where
  name : List UInt8
  ty : Nat
  deflt : Option (List UInt8)
deriving Repr, Inhabited

/-- `anytype_from_str(val, t, str)` for `str != NULL`; `none` = NULL (refused) -/
def anytypeFromStr (ty : Nat) (s : List UInt8) : Option CfgVal :=
  if s.isEmpty then none
  else if ty == 2 || ty == 3 then (strtol10 s).map .int       -- sscanf("%ld") == 1
  else if ty == 4 || ty == 5 then some (.flt (atofLit s))
  else if ty == 16 || ty == 17 then
    match s with
    | c :: _ =>
      if c == 121 || c == 116 || c == 89 || c == 84 || c == 49 then some (.bool true)
      else if c == 110 || c == 102 || c == 78 || c == 70 || c == 48 then some (.bool false)
      else none
    | [] => none
  else if ty == 8 || ty == 9 then some (.str (some s))
  else none

/-- the value `str == NULL` gives: all-zero `anytype_t` -/
def zeroVal (ty : Nat) : CfgVal :=
  if ty == 2 || ty == 3 then .int 0
  else if ty == 4 || ty == 5 then .flt .zero
  else if ty == 16 || ty == 17 then .bool false
  else .str none

abbrev Config := List (CfgDef × CfgVal)

/-- `config_init(NULL)`: every parameter with its default (a default that does not parse is skipped) -/
def configInit (defs : List CfgDef) : Config :=
  defs.filterMap fun d =>
    match d.deflt with
    | none => some (d, zeroVal d.ty)
    | some s => (anytypeFromStr d.ty s).map fun v => (d, v)

/-- `config_set_str(config, name, val)` with `val != NULL`; `none` = NULL (unknown name or refused value) -/
def configSetStr (c : Config) (name val : List UInt8) : Option Config :=
  match c.findIdx? (·.1.name == name) with
  | none => none
  | some i =>
    match c[i]? with
    | none => none
    | some (d, _) =>
      match anytypeFromStr d.ty val with
      | none => none
      | some v => some (c.set i (d, v))

/-- text of a token, each byte read inside the JSON text -/
def tokText (js : Buf) (t : Tok) : List UInt8 :=
  match t.stop with
  | some e => if h : t.start < e ∧ e ≤ js.size then slice js ⟨t.start, e, h.1, h.2⟩ else []
  | none => []

/-- the key/value walk of `config_parse_json` over the token list -/
def configWalk (js : Buf) : List Tok → Config → Except JsonErr Config
  | [], c => .ok c
  | k :: rest, c =>
    if k.ty != .string && k.ty != .primitive then .error .badKey
    else match rest with
      | [] => .error .missingValue
      | v :: rest' =>
        match configSetStr c (unescape (tokText js k)) (unescape (tokText js v)) with
        | none => .error .badParam
        | some c' => configWalk js rest' c'

/-- `config_parse_json(NULL, json)` on a fresh default configuration -/
def configParseJson (defs : List CfgDef) (json : List UInt8) : Except JsonErr Config :=
  let js : Buf := (json.takeWhile (· != 0)).toArray
  match jsmnParse js with
  | .error e => .error e
  | .ok toks =>
    let l := toks.toList
    let l := match l with
      | t :: r => if t.ty == .object then r else l
      | [] => l
    configWalk js l (configInit defs)

end SSVerif.TextIn
