import SSVerif.Model.Nfa
import SSVerif.Generated.LatticeConsts
/-!
# M12 — the word lattice (`src/fsg_search.c:1166-1524`, `src/ps_lattice.c`)

Core Lean only (linked into `ssdriver`).

* `Lat` — nodes `(word, sf, fef, lef, grammar state)`, links `(src, dst, ef, ascr)`, start/end index,
  frame count.  Nodes are numbered in the order of the C node list `dag->nodes`, `links` is the
  concatenation of the exit lists in that order (so `exits L v` is the C exit list of `v`, in order).
* `Path`, `LatticeOK` (the local, decidable well-formedness predicate of C11) and its decision
  `latticeOKB`; `instances`/`checkFirstBest` for the first-best clause; `Cache` for the cache clause.
* `traverseEdges` (`lattice_traverse_edges/_next`: fan-in counters + FIFO), `bestpath`
  (`lattice_bestpath`, max part), `remScore` (`best_rem_score`), `pathInsert`/`pathExtend`/
  `astarNext`/`nbest` (`path_insert`, `path_extend`, `astar_next`, `astar_search_start`),
  exact forward/backward weights `alphaNode`/`betaNode`.
* `buildLattice` (`fsg_search_lattice` from the history table, with the D40 repair of
  `find_start_node`/`find_end_node`).
-/
namespace SSVerif.Lattice
open SSVerif.Nfa

/-- `latnode_t`: `state = none` for the synthetic `<s>` / `</s>` nodes (`node_id == -1`) -/
structure Node where
  word : Nat
  sf : Nat
  fef : Nat
  lef : Nat
  state : Option Nat
deriving Repr, DecidableEq, Inhabited

/-- `latlink_t` (the fields that do not change after construction) -/
structure Link where
  src : Nat
  dst : Nat
  ef : Nat
  ascr : Int
deriving Repr, DecidableEq, Inhabited

structure Lat where
  nframes : Nat
  nodes : List Node
  links : List Link
  start : Nat
  final : Nat
deriving Repr, Inhabited

def Node.real (a : Node) : Bool := a.state.isSome

def Lat.n (L : Lat) : Nat := L.nodes.length
def Lat.node (L : Lat) (v : Nat) : Node := L.nodes.getD v default

/-- exit list of a node, in list order -/
def exits (L : Lat) (v : Nat) : List Link := L.links.filter (fun l => l.src == v)
/-- links entering a node (in `links` order; the C entry list has its own order, which only matters
for tie-breaking and for the rounding of the integer log-add) -/
def entries (L : Lat) (v : Nat) : List Link := L.links.filter (fun l => l.dst == v)

/-- `Path L u ls v`: the links `ls` of `L` lead from node `u` to node `v` -/
inductive Path (L : Lat) : Nat → List Link → Nat → Prop
  | nil (u : Nat) : Path L u [] u
  | cons {u : Nat} {l : Link} {ls : List Link} {v : Nat} :
      l ∈ L.links → l.src = u → Path L l.dst ls v → Path L u (l :: ls) v

def pathB (L : Lat) : Nat → List Link → Nat → Bool
  | u, [], v => u == v
  | u, l :: ls, v => L.links.contains l && l.src == u && pathB L l.dst ls v

def score (ls : List Link) : Int := (ls.map (·.ascr)).sum

/-! ## C11: the local well-formedness predicate -/

/-- largest last-end-frame of a word node = frame of the last word exit -/
def Lat.maxLef (L : Lat) : Nat := (L.nodes.filter Node.real).foldl (fun m a => max m a.lef) 0

/-- rank that every link increases: 0 for the synthetic start, `sf + 1` otherwise -/
def Lat.rank (L : Lat) (v : Nat) : Nat :=
  if v = L.start ∧ (L.node v).real = false then 0 else (L.node v).sf + 1

def EndpointsOK (L : Lat) : Prop :=
  L.start < L.n ∧ L.final < L.n ∧ ∀ l ∈ L.links, l.src < L.n ∧ l.dst < L.n

/-- `lattice_link` keeps one link per ordered pair of nodes -/
def LinksDistinct (L : Lat) : Prop :=
  L.links.Pairwise (fun a b => ¬(a.src = b.src ∧ a.dst = b.dst))

/-- nothing enters the start, nothing leaves the end, every other node has an entry / an exit -/
def StartEndOK (L : Lat) : Prop :=
  (∀ l ∈ L.links, l.dst ≠ L.start ∧ l.src ≠ L.final) ∧
  (∀ v, v < L.n → v ≠ L.start → ∃ l ∈ L.links, l.dst = v) ∧
  (∀ v, v < L.n → v ≠ L.final → ∃ l ∈ L.links, l.src = v)

/-- synthetic nodes occur only as start or end -/
def MarkersOK (L : Lat) : Prop :=
  ∀ v, v < L.n → (L.node v).real = false → v = L.start ∨ v = L.final

/-- a word node starts before its first end frame, which is not after its last one, inside the
utterance; `<s>` sits at frame 0, `</s>` at frame `nframes`, both with `fef = lef = sf` -/
def NodeTimesOK (L : Lat) : Prop :=
  ∀ v, v < L.n →
    ((L.node v).real = true →
      (L.node v).sf ≤ (L.node v).fef ∧ (L.node v).fef ≤ (L.node v).lef ∧ (L.node v).lef < L.nframes) ∧
    ((L.node v).real = false → (v = L.start → (L.node v).sf = 0) ∧ (v ≠ L.start → (L.node v).sf = L.nframes) ∧
      (L.node v).fef = (L.node v).sf ∧ (L.node v).lef = (L.node v).sf)

/-- time consistency of one link.  Between word nodes: the link's end frame `t` is one of the end
frames of the source word instance (`sf ≤ t`, `fef ≤ t ≤ lef`) and the target starts at `t + 1`.
Marker links: `<s>` (frame 0) goes to word nodes starting at 0 with `ef = 0`; links into `</s>`
carry `ef = nframes` and leave nodes whose last end frame is the last exit frame. -/
def LinkTimeOK (L : Lat) (l : Link) : Prop :=
  ((L.node l.src).real = true → (L.node l.dst).real = true →
      (L.node l.src).sf ≤ l.ef ∧ (L.node l.src).fef ≤ l.ef ∧ l.ef ≤ (L.node l.src).lef ∧
        l.ef + 1 = (L.node l.dst).sf) ∧
  ((L.node l.src).real = true → (L.node l.dst).real = false →
      l.dst = L.final ∧ l.ef = L.nframes ∧ (L.node l.src).lef = L.maxLef) ∧
  ((L.node l.src).real = false →
      l.src = L.start ∧ l.ef = 0 ∧ (L.node l.dst).real = true ∧ (L.node l.dst).sf = 0)

/-- a real start node is the only node starting at frame 0 -/
def RealStartOK (L : Lat) : Prop :=
  (L.node L.start).real = true →
    (L.node L.start).sf = 0 ∧ ∀ v, v < L.n → v ≠ L.start → (L.node v).sf ≠ 0

/-- a synthetic start is linked to every word node starting at frame 0 -/
def StartMarkOK (L : Lat) : Prop :=
  (L.node L.start).real = false →
    ∀ v, v < L.n → ((L.node v).real = true ∧ (L.node v).sf = 0) →
      ∃ l ∈ L.links, l.src = L.start ∧ l.dst = v

/-- a synthetic end is entered from every word node whose last end frame is the last exit frame -/
def EndMarkOK (L : Lat) : Prop :=
  (L.node L.final).real = false →
    ∀ v, v < L.n → ((L.node v).real = true ∧ (L.node v).lef = L.maxLef) →
      ∃ l ∈ L.links, l.src = v ∧ l.dst = L.final

instance (L : Lat) : Decidable (RealStartOK L) := by unfold RealStartOK; infer_instance
instance (L : Lat) : Decidable (StartMarkOK L) := by unfold StartMarkOK; infer_instance
instance (L : Lat) : Decidable (EndMarkOK L) := by unfold EndMarkOK; infer_instance

/-- which nodes the markers are linked with -/
def MarkerLinksOK (L : Lat) : Prop := RealStartOK L ∧ StartMarkOK L ∧ EndMarkOK L

/-- one word step of the grammar from state `q`: a word arc, or one null arc then a word arc
(`fsg_search_lattice` l.1435-1467; the FSG is closed under null transitions) -/
def stepOK (G : Nfa) (q w r : Nat) : Prop :=
  (q, some w, r) ∈ G.arcs ∨ ∃ a ∈ G.arcs, a.1 = q ∧ a.2.1 = none ∧ (a.2.2, some w, r) ∈ G.arcs

instance (G : Nfa) (q w r : Nat) : Decidable (stepOK G q w r) := by unfold stepOK; infer_instance

/-- grammar state of a node; the synthetic start stands for the grammar's start state -/
def gstate (G : Nfa) (L : Lat) (v : Nat) : Nat := (L.node v).state.getD G.start

/-- the word of the target node is a grammar step from the state of the source node to the state
stored with the target node -/
def LinkGrammarOK (G : Nfa) (L : Lat) (l : Link) : Prop :=
  match (L.node l.dst).state with
  | some r => stepOK G (gstate G L l.src) (L.node l.dst).word r
  | none => True

def StartGrammarOK (G : Nfa) (L : Lat) : Prop :=
  match (L.node L.start).state with
  | some r => stepOK G G.start (L.node L.start).word r
  | none => True

instance (G : Nfa) (L : Lat) (l : Link) : Decidable (LinkGrammarOK G L l) := by
  unfold LinkGrammarOK; split <;> infer_instance
instance (G : Nfa) (L : Lat) : Decidable (StartGrammarOK G L) := by
  unfold StartGrammarOK; split <;> infer_instance
instance (L : Lat) (l : Link) : Decidable (LinkTimeOK L l) := by unfold LinkTimeOK; infer_instance

/-- **the C11 predicate** on a lattice `L` built for the search grammar `G` -/
structure LatticeOK (G : Nfa) (L : Lat) : Prop where
  endpoints : EndpointsOK L
  distinct : LinksDistinct L
  startEnd : StartEndOK L
  markers : MarkersOK L
  nodeTimes : NodeTimesOK L
  linkTimes : ∀ l ∈ L.links, LinkTimeOK L l
  markerLinks : MarkerLinksOK L
  linkGrammar : ∀ l ∈ L.links, LinkGrammarOK G L l
  startGrammar : StartGrammarOK G L

instance (L : Lat) : Decidable (EndpointsOK L) := by unfold EndpointsOK; infer_instance
instance (L : Lat) : Decidable (LinksDistinct L) := by unfold LinksDistinct; infer_instance
instance (L : Lat) : Decidable (StartEndOK L) := by unfold StartEndOK; infer_instance
instance (L : Lat) : Decidable (MarkersOK L) := by unfold MarkersOK; infer_instance
instance (L : Lat) : Decidable (NodeTimesOK L) := by unfold NodeTimesOK; infer_instance
instance (L : Lat) : Decidable (MarkerLinksOK L) := by unfold MarkerLinksOK; infer_instance

/-- the clauses by name, for the report of the driver -/
def clauseResults (G : Nfa) (L : Lat) : List (String × Bool) :=
  [("endpoints", decide (EndpointsOK L)), ("distinct", decide (LinksDistinct L)),
   ("startEnd", decide (StartEndOK L)), ("markers", decide (MarkersOK L)),
   ("nodeTimes", decide (NodeTimesOK L)), ("linkTimes", decide (∀ l ∈ L.links, LinkTimeOK L l)),
   ("markerLinks", decide (MarkerLinksOK L)),
   ("linkGrammar", decide (∀ l ∈ L.links, LinkGrammarOK G L l)),
   ("startGrammar", decide (StartGrammarOK G L))]

/-- the verified checker run on the dumped C lattice -/
def latticeOKB (G : Nfa) (L : Lat) : Bool := (clauseResults G L).all (·.2)

/-! ### first-best segmentation as a lattice path -/

structure Seg where
  word : Nat
  sf : Nat
  ef : Nat
deriving Repr, DecidableEq

/-- the word instances `(word, start frame, end frame)` along a path starting at `u`: a word node
followed by a link to a word node ends at the link's end frame; the last word node ends at its last
end frame (the link into `</s>` carries the marker's frame, not an end frame) -/
def instances (L : Lat) : Nat → List Link → List Seg
  | u, [] => if (L.node u).real then [⟨(L.node u).word, (L.node u).sf, (L.node u).lef⟩] else []
  | u, l :: ls =>
    (if (L.node u).real then
      [⟨(L.node u).word, (L.node u).sf, if (L.node l.dst).real then l.ef else (L.node u).lef⟩]
     else []) ++ instances L l.dst ls

/-- the segmentation `segs` (word segments only) is the instance sequence of a start→end path -/
def FirstBestInLattice (L : Lat) (segs : List Seg) : Prop :=
  ∃ ls, Path L L.start ls L.final ∧ instances L L.start ls = segs

/-- verified validation of a witness path -/
def checkFirstBest (L : Lat) (segs : List Seg) (ls : List Link) : Bool :=
  pathB L L.start ls L.final && instances L L.start ls == segs

/-- search for the witness: depth-first over the links that match the next segment (sound and, with
enough fuel, complete: `findSegPath_sound`, `findSegPath_complete`) -/
def findSegPath (L : Lat) : Nat → Nat → List Seg → Option (List Link)
  | 0, _, _ => none
  | fuel + 1, u, segs =>
    if (L.node u).real then
      match segs with
      | [] => none
      | s :: rest =>
        if (L.node u).word = s.word ∧ (L.node u).sf = s.sf then
          (if u = L.final ∧ rest = [] ∧ s.ef = (L.node u).lef then some [] else none) <|>
          (exits L u).findSome? fun l =>
            if (if (L.node l.dst).real then l.ef else (L.node u).lef) = s.ef then
              (findSegPath L fuel l.dst rest).map (l :: ·)
            else none
        else none
    else
      (if u = L.final ∧ segs = [] then some [] else none) <|>
      (exits L u).findSome? fun l => (findSegPath L fuel l.dst segs).map (l :: ·)

/-- decision of `FirstBestInLattice` on a well-formed lattice (a path has at most `nframes + 1` links) -/
def firstBestB (L : Lat) (segs : List Seg) : Bool := (findSegPath L (L.nframes + 3) L.start segs).isSome

/-! ### lattice cache (`fsg_search_lattice` l.1355-1358, 1517) -/

/-- `search->dag` reduced to what the cache test reads: the frame count the cached lattice was built
for and an identity (`none` = no lattice / `NULL`) -/
structure Cache where
  dag : Option (Nat × Nat)   -- (n_frames, object id)
  nextId : Nat

/-- a lattice request at search frame `frame`; `buildable` says whether construction succeeds.
Returns the object handed out (`none` = `NULL`). -/
def Cache.request (c : Cache) (frame : Nat) (buildable : Bool) : Cache × Option Nat :=
  match c.dag with
  | some (nf, id) =>
    if nf = frame then (c, some id)
    else if buildable then ({ dag := some (frame, c.nextId), nextId := c.nextId + 1 }, some c.nextId)
    else ({ c with dag := none }, none)
  | none =>
    if buildable then ({ dag := some (frame, c.nextId), nextId := c.nextId + 1 }, some c.nextId)
    else (c, none)

/-- `decoder_start_utt` (decoder.c l.939-943): the residual lattice of the previous utterance is released, so the
cache is valid only within one utterance (same utterance ∧ same frame count) -/
def Cache.startUtt (c : Cache) : Cache := { c with dag := none }

/-! ## C12: traversal, best path, A*, exact forward/backward -/

/-- fan-in counters (`info.fanin`, an `int32`) and the FIFO of links -/
structure TState where
  fanin : Nat → Int
  queue : List Link

def traverseInit (L : Lat) : TState :=
  { fanin := fun v => ((entries L v).length : Int), queue := exits L L.start }

/-- `lattice_traverse_next` -/
def traverseStep (L : Lat) (s : TState) : Option (Link × TState) :=
  match s.queue with
  | [] => none
  | l :: q =>
    let f := s.fanin l.dst - 1
    let fanin' := fun v => if v = l.dst then f else s.fanin v
    if f = 0 then
      if l.dst = L.final then some (l, { fanin := fanin', queue := [] })
      else some (l, { fanin := fanin', queue := q ++ exits L l.dst })
    else some (l, { fanin := fanin', queue := q })

def traverseGo (L : Lat) : Nat → TState → List Link
  | 0, _ => []
  | fuel + 1, s =>
    match traverseStep L s with
    | none => []
    | some (l, s') => l :: traverseGo L fuel s'

/-- the sequence of links returned by `lattice_traverse_edges(dag, NULL, NULL)` and the following
`lattice_traverse_next` calls -/
def traverseEdges (L : Lat) : List Link := traverseGo L (L.links.length + 1) (traverseInit L)

/-- `path_scr` per link; `none` = `MAX_NEG_INT32` (never reached) -/
abbrev Scores := Link → Option Int

/-- `a BETTER_THAN b` on scores with `none` as minus infinity -/
def better (a : Int) : Option Int → Bool
  | none => true
  | some b => a > b

def upd {β : Type} (f : Link → β) (x : Link) (b : β) : Link → β := fun y => if y = x then b else f y

/-- initial scores of `lattice_bestpath` l.775-787 -/
def bestInit (L : Lat) : Scores × (Link → Option Link) :=
  (fun l => if l ∈ L.links ∧ l.src = L.start then some l.ascr else none, fun _ => none)

/-- the update of all exits of `link->to` when `link` is visited (l.840-853) -/
def relax (L : Lat) (st : Scores × (Link → Option Link)) (l : Link) : Scores × (Link → Option Link) :=
  match st.1 l with
  | none => st        -- `assert(link->path_scr != MAX_NEG_INT32)` would fail
  | some a =>
    (exits L l.dst).foldl (fun st x =>
      if better (a + x.ascr) (st.1 x) then (upd st.1 x (some (a + x.ascr)), upd st.2 x (some l)) else st) st

def bestScores (L : Lat) : Scores × (Link → Option Link) :=
  (traverseEdges L).foldl (relax L) (bestInit L)

/-- one step of the scan over the entries of the end node (l.885-888) -/
def bestStep (sc : Scores) (best : Option (Link × Int)) (x : Link) : Option (Link × Int) :=
  match sc x, best with
  | none, _ => best
  | some s, none => some (x, s)
  | some s, some (y, b) => if s > b then some (x, s) else some (y, b)

/-- best link entering the end node (l.864-889), first best in list order -/
def bestEnd (L : Lat) (sc : Scores) : Option (Link × Int) :=
  (entries L L.final).foldl (bestStep sc) none

/-- backtrace over `best_prev` -/
def backtrace (bp : Link → Option Link) : Nat → Link → List Link → List Link
  | 0, l, acc => l :: acc
  | fuel + 1, l, acc =>
    match bp l with
    | none => l :: acc
    | some p => backtrace bp fuel p (l :: acc)

/-- `lattice_bestpath`: returned link, its `path_scr`, and the chain of `best_prev` -/
def bestpath (L : Lat) : Option (Link × Int × List Link) :=
  let st := bestScores L
  match bestEnd L st.1 with
  | none => none
  | some (x, s) => some (x, s, backtrace st.2 L.links.length x [])

/-! ### A* -/

/-- `WORST_SCORE` (regenerated from hmm.h on every run) -/
def worstScore : Int := SSVerif.Generated.Lattice.worstScore
/-- `MAX_PATHS` (regenerated from ps_lattice.c on every run) -/
def maxPaths : Nat := SSVerif.Generated.Lattice.maxPaths

/-- the model of `decoder_nbest` below is written for the call `astar_search_start(dag, 0, -1, -1, -1)`:
seeds are the nodes starting at frame 0 and the end frame defaults to `n_frames + 1`; the arguments
are regenerated from decoder.c, so a changed call breaks this obligation -/
theorem nbest_call_tied : SSVerif.Generated.Lattice.nbestSf = 0 ∧ SSVerif.Generated.Lattice.nbestEf < 0 := by decide

/-- one round of `best_rem_score` over a table of successor values: `0` for the end node, else the
best of `rem(to) + ascr` over the exits, `worstScore` when there is none (l.1067-1074) -/
def remStep (L : Lat) (T : List Int) : List Int :=
  (List.range L.n).map fun v =>
    if v = L.final then 0
    else (exits L v).foldl (fun best x =>
      let s := T.getD x.dst worstScore + x.ascr
      if s > best then s else best) worstScore

/-- the table of `best_rem_score` values after `fuel` rounds.  The C function is a memoised
depth-first recursion (memo field `info.rem_score`, positive = unknown); on an acyclic lattice the
memo ends up holding, for every node below a seed, the value that this level iteration reaches
after as many rounds as the longest path has links. -/
def remLevel (L : Lat) : Nat → List Int
  | 0 => (List.range L.n).map fun v => if v = L.final then 0 else worstScore
  | fuel + 1 => remStep L (remLevel L fuel)

/-- `best_rem_score`: best score from a node to the end node; `worstScore` when the end cannot be
reached -/
def remScore (L : Lat) (fuel : Nat) (v : Nat) : Int := (remLevel L fuel).getD v worstScore

/-- `latpath_t`: nodes from the current one back to the seed, exact score so far -/
structure APath where
  nodes : List Nat
  score : Int
deriving Repr, DecidableEq

def APath.node (p : APath) : Nat := p.nodes.headD 0

def total (rem : Nat → Int) (p : APath) : Int := p.score + rem p.node

/-- `path_insert`: keep the agenda sorted by total score; a path that would land beyond the first
`MAX_PATHS` entries is dropped together with everything beyond them -/
def insertGo (rem : Nat → Int) (np : APath) : Nat → List APath → List APath
  | 0, _ => []
  | _ + 1, [] => [np]
  | k + 1, p :: ps => if total rem p < total rem np then np :: p :: ps else p :: insertGo rem np k ps

def pathInsert (rem : Nat → Int) (mp : Nat) (ag : List APath) (np : APath) : List APath :=
  insertGo rem np mp ag

/-- `total_score < tail_score` against the last agenda entry (l.1152-1160) -/
def worseThanTail (rem : Nat → Int) (ag : List APath) (np : APath) : Bool :=
  match ag.getLast? with
  | some t => total rem np < total rem t
  | none => false

/-- `path_extend` -/
def pathExtend (L : Lat) (rem : Nat → Int) (mp : Nat) (ag : List APath) (p : APath) : List APath :=
  (exits L p.node).foldl (fun ag x =>
    if rem x.dst ≤ worstScore then ag
    else
      let np : APath := { nodes := x.dst :: p.nodes, score := p.score + x.ascr }
      if ag.length ≥ mp ∧ worseThanTail rem ag np = true then ag
      else pathInsert rem mp ag np) ag

/-- `astar_next`'s test for a complete hypothesis with `ef = n_frames + 1` -/
def complete (L : Lat) (p : APath) : Bool :=
  decide ((L.node p.node).sf ≥ L.nframes + 1) || (p.node == L.final && decide (L.nframes + 1 > (L.node L.final).sf))

/-- `astar_next` -/
def astarNext (L : Lat) (rem : Nat → Int) (mp : Nat) : Nat → List APath → Option (APath × List APath)
  | 0, _ => none
  | _ + 1, [] => none
  | fuel + 1, top :: ag =>
    if complete L top then some (top, ag)
    else if (L.node top.node).fef < L.nframes + 1 then astarNext L rem mp fuel (pathExtend L rem mp ag top)
    else astarNext L rem mp fuel ag

/-- `astar_search_start(dag, 0, -1, -1, -1)`: one partial path per node starting at frame 0 -/
def astarStart (L : Lat) (rem : Nat → Int) (mp : Nat) : List APath :=
  ((List.range L.n).filter fun v => (L.node v).sf = 0).foldl
    (fun ag v => pathInsert rem mp ag { nodes := [v], score := 0 }) []

/-- the first `k` results of `decoder_nbest` / `hyp_iter_next` -/
def nbestGo (L : Lat) (rem : Nat → Int) (mp fuel : Nat) : Nat → List APath → List APath
  | 0, _ => []
  | k + 1, ag =>
    match astarNext L rem mp fuel ag with
    | none => []
    | some (p, ag') => p :: nbestGo L rem mp fuel k ag'

/-- the heuristic table as `astar_search_start` leaves it in the nodes -/
def remTable (L : Lat) : Nat → Int :=
  let T := remLevel L (L.nframes + 2)
  fun v => T.getD v worstScore

/-- (the table is computed once and captured by the closure; `remTable L` is the same function) -/
def nbest (L : Lat) (k : Nat) (fuel : Nat := 10000) : List APath :=
  let T := remLevel L (L.nframes + 2)
  let rem := fun v => T.getD v worstScore
  nbestGo L rem maxPaths fuel k (astarStart L rem maxPaths)

theorem nbest_eq (L : Lat) (k fuel : Nat) :
    nbest L k fuel = nbestGo L (remTable L) maxPaths fuel k (astarStart L (remTable L) maxPaths) := rfl

/-! ### exact forward / backward (weights are natural numbers: numerators over a common denominator) -/

/-- total weight of all paths from the start to `v` (`fuel` bounds the number of links) -/
def alphaNode (L : Lat) (w : Link → Nat) : Nat → Nat → Nat
  | 0, v => if v = L.start then 1 else 0
  | fuel + 1, v =>
    (if v = L.start then 1 else 0) + ((entries L v).map fun l => alphaNode L w fuel l.src * w l).sum

/-- total weight of all paths from `v` to the end -/
def betaNode (L : Lat) (w : Link → Nat) : Nat → Nat → Nat
  | 0, v => if v = L.final then 1 else 0
  | fuel + 1, v =>
    (if v = L.final then 1 else 0) + ((exits L v).map fun l => w l * betaNode L w fuel l.dst).sum

/-- forward weight of a link: all paths from the start whose last link it is (`link->alpha` after the
link's own score has been added, in the probability domain) -/
def alphaLink (L : Lat) (w : Link → Nat) (l : Link) : Nat := alphaNode L w (L.nframes + 2) l.src * w l

/-- backward weight of a link: all paths from its target to the end (`link->beta`) -/
def betaLink (L : Lat) (w : Link → Nat) (l : Link) : Nat := betaNode L w (L.nframes + 2) l.dst

/-- forward total (`dag->norm`): sum of the forward weights of the links entering the end node -/
def forwardTotal (L : Lat) (w : Link → Nat) : Nat := ((entries L L.final).map (alphaLink L w)).sum

/-- backward total: sum over the exits of the start node of weight times backward weight -/
def backwardTotal (L : Lat) (w : Link → Nat) : Nat := ((exits L L.start).map fun x => w x * betaLink L w x).sum

/-- all paths from `v` to the end node, enumerated -/
def pathsFrom (L : Lat) : Nat → Nat → List (List Link)
  | 0, v => if v = L.final then [[]] else []
  | fuel + 1, v =>
    (if v = L.final then [[]] else []) ++
      (exits L v).flatMap fun l => (pathsFrom L fuel l.dst).map (l :: ·)

def pathWeight (w : Link → Nat) (ls : List Link) : Nat := (ls.map w).foldr (· * ·) 1

/-! ### integer forward / backward (`lattice_bestpath` alpha part l.775-787, 823, 844, 863-884;
`lattice_posterior` l.933-986), abstract over the log-add function -/

/-- what the integer passes read besides the lattice: `logmath_add`, `logmath_get_zero`, and the scaled
link score `(int32)((ascr << SENSCR_SHIFT) * ascale)` (a float32 product, supplied per link) -/
structure IntParams where
  ladd : Int → Int → Int
  lz : Int
  sc : Link → Int

/-- alphas before the traversal: 0 on the exits of the start node, log-zero elsewhere -/
def alphaInit (P : IntParams) (L : Lat) : Link → Int :=
  fun l => if l ∈ L.links ∧ l.src = L.start then 0 else P.lz

/-- visiting a link: add its own scaled score, then log-add the result into every exit of its target -/
def alphaVisit (P : IntParams) (L : Lat) (al : Link → Int) (l : Link) : Link → Int :=
  let a := al l + P.sc l
  (exits L l.dst).foldl (fun al x => upd al x (P.ladd (al x) a)) (upd al l a)

def alphaInt (P : IntParams) (L : Lat) : Link → Int :=
  (traverseEdges L).foldl (alphaVisit P L) (alphaInit P L)

/-- `dag->norm`: log-sum of the alphas of the links entering the end node, in entry-list order `ents` -/
def normInt (P : IntParams) (al : Link → Int) (ents : List Link) : Int :=
  ents.foldl (fun n x => P.ladd n (al x)) P.lz

/-- beta of one link given the betas of the exits of its target -/
def betaVisit (P : IntParams) (L : Lat) (be : Link → Int) (l : Link) : Link → Int :=
  if l.dst = L.final then upd be l 0
  else upd be l ((exits L l.dst).foldl (fun b x => P.ladd b (be x + P.sc x)) P.lz)

/-- betas: the C code visits the links with `lattice_reverse_edges`; any order in which a link comes
after all exits of its target gives the same values, the model uses the reversed forward order -/
def betaInt (P : IntParams) (L : Lat) : Link → Int :=
  (traverseEdges L).reverse.foldl (betaVisit P L) (fun _ => P.lz)

/-- `lattice_joint`: scaled score of a link chain -/
def jointInt (P : IntParams) (p : List Link) : Int := (p.map P.sc).sum

/-! #### the same passes over association lists (what the driver executes)

A function-valued state is rebuilt by the compiled code at every lookup; the passes are therefore
also given over association lists (newest binding first), with `Proofs/LatticeInt.lean` proving that
they compute the functions above (`alphaIntT_eq`, `betaIntT_eq`). -/

abbrev ATab := List (Link × Int)

/-- lookup with a default function for unbound links -/
def look (dflt : Link → Int) : ATab → Link → Int
  | [], y => dflt y
  | (x, v) :: m, y => if y = x then v else look dflt m y

def alphaVisitT (P : IntParams) (L : Lat) (m : ATab) (l : Link) : ATab :=
  let a := look (alphaInit P L) m l + P.sc l
  (exits L l.dst).foldl (fun m x => (x, P.ladd (look (alphaInit P L) m x) a) :: m) ((l, a) :: m)

def alphaIntT (P : IntParams) (L : Lat) : ATab := (traverseEdges L).foldl (alphaVisitT P L) []

def betaVisitT (P : IntParams) (L : Lat) (m : ATab) (l : Link) : ATab :=
  if l.dst = L.final then (l, 0) :: m
  else (l, (exits L l.dst).foldl (fun b x => P.ladd b (look (fun _ => P.lz) m x + P.sc x)) P.lz) :: m

def betaIntT (P : IntParams) (L : Lat) : ATab := (traverseEdges L).reverse.foldl (betaVisitT P L) []

/-! ## `fsg_search_lattice` from the history table -/

/-- `fsg_hist_entry_t` as the lattice construction reads it: the grammar arc (`none` for the dummy
root entry; `wid = none` for a null transition), frame, path score and predecessor index -/
structure HEntry where
  arc : Option (Nat × Option Nat × Nat)    -- (from, wid, to)
  frame : Int
  score : Int
  pred : Int
deriving Repr, Inhabited

/-- node under construction: `latnode_t` with `info.best_exit` and the `reachable` flag -/
structure BNode where
  word : Nat
  sf : Nat
  fef : Nat
  lef : Nat
  state : Option Nat
  bestExit : Int
deriving Repr, Inhabited

/-- link under construction, endpoints are indices into the creation-ordered node array -/
structure BLink where
  src : Nat
  dst : Nat
  ef : Nat
  ascr : Int
deriving Repr, Inhabited

structure Build where
  nodes : Array BNode          -- creation order (the C list is the reverse)
  links : Array BLink          -- creation order
deriving Inhabited

def findNode (b : Build) (sf word : Nat) (state : Option Nat) : Option Nat :=
  b.nodes.findIdx? fun a => a.sf = sf ∧ a.word = word ∧ a.state = state

/-- `new_node` -/
def newNode (b : Build) (sf ef word : Nat) (state : Option Nat) (ascr : Int) : Build :=
  match findNode b sf word state with
  | some i =>
    { b with nodes := b.nodes.modify i fun a =>
        { a with lef := if a.lef < ef then ef else a.lef, fef := if a.fef > ef then ef else a.fef,
                 bestExit := if ascr > a.bestExit then ascr else a.bestExit } }
  | none => { b with nodes := b.nodes.push ⟨word, sf, ef, ef, state, ascr⟩ }

/-- `lattice_link` -/
def latticeLink (b : Build) (src dst : Nat) (ascr : Int) (ef : Nat) : Build :=
  match b.links.findIdx? fun l => l.src = src ∧ l.dst = dst with
  | some i => { b with links := b.links.modify i fun l => if ascr > l.ascr then { l with ascr := ascr, ef := ef } else l }
  | none => { b with links := b.links.push ⟨src, dst, ef, ascr⟩ }

/-- start frame and link score of a word entry (l.1383-1397) -/
def entrySfAscr (h : Array HEntry) (e : HEntry) : Nat × Int :=
  if e.pred ≠ 0 then
    let p := h.getD e.pred.toNat default
    ((p.frame + 1).toNat, e.score - p.score)
  else (0, e.score)

def arcsFrom (G : Nfa) (q : Nat) : List (Nat × Option Nat × Nat) := G.arcs.filter fun a => a.1 == q

/-- the grammar arcs, in `fsg_model_arcs` order per state, are given by `G.arcs` -/
def buildNodes (h : Array HEntry) : Build :=
  h.foldl (fun b e =>
    match e.arc with
    | some (_, some w, to) =>
      let (sf, ascr) := entrySfAscr h e
      newNode b sf e.frame.toNat w (some to) ascr
    | _ => b) { nodes := #[], links := #[] }

def buildLinks (G : Nfa) (h : Array HEntry) (b0 : Build) : Build :=
  h.foldl (fun b e =>
    match e.arc with
    | some (_, some w, to) =>
      let (sf, ascr) := entrySfAscr h e
      match findNode b sf w (some to) with
      | none => b
      | some src =>
        let sf' := (e.frame + 1).toNat
        (arcsFrom G to).foldl (fun b a =>
          match a.2.1 with
          | some w2 =>
            match findNode b sf' w2 (some a.2.2) with
            | some dst => latticeLink b src dst ascr e.frame.toNat
            | none => b
          | none =>
            (arcsFrom G a.2.2).foldl (fun b a2 =>
              match a2.2.1 with
              | some w2 =>
                match findNode b sf' w2 (some a2.2.2) with
                | some dst => latticeLink b src dst ascr e.frame.toNat
                | none => b
              | none => b) b) b
    | _ => b) b0

def hasExit (b : Build) (v : Nat) : Bool := b.links.any fun l => l.src = v
def hasEntry (b : Build) (v : Nat) : Bool := b.links.any fun l => l.dst = v

/-- candidates in C list order (= reverse creation order) -/
def candidates (b : Build) (p : Nat → BNode → Bool) : List Nat :=
  ((List.range b.nodes.size).reverse).filter fun v => p v (b.nodes.getD v default)

structure BuildResult where
  b : Build
  start : Nat
  final : Nat

/-- `find_start_node` / `find_end_node` (with the D40 repair), `wS`/`wE` = word ids of `<s>`, `</s>` -/
def findStartEnd (b : Build) (frame : Nat) (wS wE : Nat) : Option BuildResult :=
  let lastEf := b.nodes.foldl (fun m a => max m (a.lef : Int)) (-1)
  let sc := candidates b fun v a => a.sf = 0 ∧ (hasExit b v ∨ (a.lef : Int) = lastEf)
  let (b, start) :=
    match sc with
    | [v] => (b, v)
    | _ =>
      let s := b.nodes.size
      let b := { b with nodes := b.nodes.push ⟨wS, 0, 0, 0, none, 0⟩ }
      (sc.foldl (fun b v => latticeLink b s v 0 0) b, s)
  let ec := candidates b fun v a => (a.lef : Int) = lastEf ∧ (hasEntry b v ∨ v = start)
  match ec with
  | [v] => some ⟨b, start, v⟩
  | [] =>
    -- the node with the last exit frame among those with entries (first in list order)
    let r := (candidates b fun v _ => hasEntry b v).foldl
      (fun (acc : Option Nat × Nat) v =>
        let a := b.nodes.getD v default
        if a.lef > acc.2 then (some v, a.lef) else acc) (none, 0)
    r.1.map fun v => ⟨b, start, v⟩
  | _ =>
    let e := b.nodes.size
    let b := { b with nodes := b.nodes.push ⟨wE, frame, frame, frame, none, 0⟩ }
    some ⟨ec.foldl (fun b v => latticeLink b v e (b.nodes.getD v default).bestExit frame) b, start, e⟩

/-- `mark_reachable`: nodes from which the end is reachable (fixpoint over the entry lists) -/
def markReachable (b : Build) (final : Nat) : List Nat :=
  let rec go : Nat → List Nat → List Nat → List Nat
    | 0, seen, _ => seen
    | _ + 1, seen, [] => seen
    | fuel + 1, seen, v :: q =>
      let preds := (b.links.toList.filter fun l => l.dst = v).map (·.src)
      let new := preds.foldl (fun acc p => if seen.contains p || acc.contains p then acc else acc ++ [p]) []
      go fuel (seen ++ new) (q ++ new)
  go (b.nodes.size + 1) [final] [final]

/-- `fsg_search_lattice`: nodes, links, start/end, deletion of unreachable nodes, filler penalties.
The result lists nodes in C list order and links as the concatenation of the C exit lists. -/
def buildLattice (G : Nfa) (h : Array HEntry) (frame : Nat) (wS wE : Nat)
    (isFiller : Nat → Bool) (silWord : Nat) (silpen fillpen : Int) : Option Lat :=
  let b := buildLinks G h (buildNodes h)
  match findStartEnd b frame wS wE with
  | none => none
  | some ⟨b, start, final⟩ =>
    let keep := markReachable b final
    -- C list order = reverse creation order
    let order := ((List.range b.nodes.size).reverse).filter fun v => keep.contains v
    let idx := fun v => (order.idxOf v)
    let pen := fun (l : BLink) =>
      let a := b.nodes.getD l.dst default
      if l.dst ≠ start ∧ l.dst ≠ final ∧ isFiller a.word then (if a.word = silWord then silpen else fillpen) else 0
    -- exit lists: links are pushed at the head, so list order = reverse creation order
    let links := order.flatMap fun v =>
      (b.links.toList.reverse.filter fun l => l.src = v ∧ keep.contains l.dst).map fun l =>
        ({ src := idx l.src, dst := idx l.dst, ef := l.ef, ascr := l.ascr + pen l } : Link)
    some { nframes := frame,
           nodes := order.map fun v => let a := b.nodes.getD v default; ⟨a.word, a.sf, a.fef, a.lef, a.state⟩,
           links := links, start := idx start, final := idx final }

end SSVerif.Lattice
