/-!
# M11 — forced alignment: `alignment_populate`, the token stack of `state_align_search.c`, the
backtrace of `state_align_search_finish`, `alignment_propagate`, and the child iterators.

Core Lean only.  All frame numbers and scores are `Int` (C `int32`; the scores of an utterance are far
from the 32-bit range — `WORST_SCORE = -2^29` — so no wrap-around is modelled).  Indices are `Nat`.

The model describes the code with the repair of D11 (`state_align_search_finish` assigns the score of
state 0, `/verif/fixes/D11-align-first-state-score.patch`).
-/
namespace SSVerif.Align

/-- `alignment_entry_t` (alignment.h).  `id` is `wid` / `cipid` / `senid` depending on the level; `ssid`
and `tmatid` are used at the phone level only.  `parent` of a word and `child` of a state are never
read by the C code (ALIGNMENT_NONE resp. uninitialised) and carry 0 here. -/
structure Entry where
  start : Int
  duration : Int
  score : Int
  parent : Nat
  child : Nat
  id : Int
  ssid : Int := 0
  tmatid : Int := 0
  deriving Repr, DecidableEq, Inhabited

/-- `alignment_t`: three vectors -/
structure Alignment where
  words : List Entry
  phones : List Entry
  states : List Entry
  deriving Repr, DecidableEq, Inhabited

/-- what `alignment_populate` reads from `dict_t`, `dict2pid_t` and `bin_mdef_t` -/
structure Dict where
  /-- `bin_mdef_n_emit_state` -/
  nEmit : Nat
  /-- `bin_mdef_silphone` -/
  sil : Int
  /-- `dict_pron(wid, 0 .. pronlen-1)` -/
  pron : Int → List Int
  /-- `bin_mdef_pid2tmatid(ci)` -/
  tmat : Int → Int
  /-- `dict2pid_lrdiph_rc(b, l, r)` (single-phone words) -/
  lrdiph : Int → Int → Int → Int
  /-- `dict2pid_ldiph_lc(b, r, l)` (first phone of a longer word) -/
  ldiph : Int → Int → Int → Int
  /-- `dict2pid_internal(wid, j)` -/
  internal : Int → Nat → Int
  /-- `rssid->ssid[rssid->cimap[rc]]` with `rssid = dict2pid_rssid(last, second_last)` -/
  rssid : Int → Int → Int → Int
  /-- `bin_mdef_sseq2sen(ssid, j)` -/
  sen : Int → Nat → Int

/-! ## `alignment_add_word`, `alignment_populate` (ps_alignment.c:114-247) -/

/-- `alignment_add_word` -/
def mkWord (wid start duration : Int) : Entry :=
  { start, duration, score := 0, parent := 0, child := 0, id := wid }

/-- senone-sequence id of the phone at position `j` of a word (the three branches of the word loop:
first phone — `lrdiph_rc` for single-phone words, `ldiph_lc` otherwise —, internal phones, last phone) -/
def phoneSsid (D : Dict) (wid : Int) (pr : List Int) (lc rc : Int) (j : Nat) (ci : Int) : Int :=
  if j = 0 then
    if pr.length = 1 then D.lrdiph ci lc rc else D.ldiph ci (pr.getD 1 0) lc
  else if j + 1 < pr.length then D.internal wid j
  else D.rssid ci (pr.getD (pr.length - 2) 0) rc

/-- the phone entries of word number `i` -/
def wordPhones (D : Dict) (i : Nat) (w : Entry) (lc rc : Int) : List Entry :=
  (D.pron w.id).mapIdx fun j ci =>
    { start := w.start, duration := w.duration, score := 0, parent := i, child := 0, id := ci,
      ssid := phoneSsid D w.id (D.pron w.id) lc rc j ci, tmatid := D.tmat ci }

/-- right context of a word: first phone of the next word, SIL at the end -/
def rcOf (D : Dict) : List Entry → Int
  | [] => D.sil
  | w' :: _ => (D.pron w'.id).headD 0

/-- the word loop: `i` = word index, `base` = number of phones so far, `lc` = last phone of the previous
word (SIL at the start); `rc` = first phone of the next word (SIL at the end).
Returns the words (with `child` set) and the phone vector. -/
def popWords (D : Dict) : Nat → Nat → Int → List Entry → List Entry × List Entry
  | _, _, _, [] => ([], [])
  | i, base, lc, w :: rest =>
    let ph := wordPhones D i w lc (rcOf D rest)
    let r := popWords D (i + 1) (base + ph.length) ((D.pron w.id).getLastD 0) rest
    ({ w with child := base } :: r.1, ph ++ r.2)

/-- the state entries of phone number `p` -/
def phoneStates (D : Dict) (p : Nat) (e : Entry) : List Entry :=
  (List.range D.nEmit).map fun j =>
    { start := e.start, duration := e.duration, score := 0, parent := p, child := 0, id := D.sen e.ssid j }

/-- the state loop, from phone index `p` on -/
def popStates (D : Dict) : Nat → List Entry → List Entry × List Entry
  | _, [] => ([], [])
  | p, e :: rest =>
    let r := popStates D (p + 1) rest
    ({ e with child := p * D.nEmit } :: r.1, phoneStates D p e ++ r.2)

/-- `alignment_populate` -/
def populate (D : Dict) (words : List Entry) : Alignment :=
  let wp := popWords D 0 0 D.sil words
  let ps := popStates D 0 wp.2
  { words := wp.1, phones := ps.1, states := ps.2 }

/-! ## `state_align_search_init` (state_align_search.c:458-472): activity windows -/

def intMax : Int := 2147483647

def sfOf (e : Entry) : Int := if e.start > 0 then e.start else 0
def efOf (e : Entry) : Int := if e.duration > 0 then e.start + e.duration else intMax

/-! ## token stack and backtrace (state_align_search.c:215-268) -/

/-- `state_align_hist_t` -/
structure Tok where
  id : Int
  score : Int
  deriving Repr, DecidableEq, Inhabited

/-- the token of state `k` in frame `f` (`sas->tokens[f * n_emit_state + k]`) -/
def tokAt (tokens : List (List Tok)) (f k : Nat) : Option Tok :=
  match tokens[f]? with
  | none => none
  | some row => row[k]?

def modifyAt (g : Entry → Entry) : Nat → List Entry → List Entry
  | _, [] => []
  | 0, e :: l => g e :: l
  | n + 1, e :: l => e :: modifyAt g n l

/-- loop state of the backtrace: `last`, `last_frame`, the state vector.  (`cur.id = last.id` holds at
the head of every iteration of the C loop, so `cur` is not carried.) -/
structure BT where
  last : Tok
  lastFrame : Int
  states : List Entry
  deriving Repr, DecidableEq, Inhabited

/-- one iteration `cur_frame = f`.  `none` = the C code returns -1 (`cur.id == -1`), fails the
`assert(itor != NULL)` or reads outside the token array. -/
def btStep (tokens : List (List Tok)) (f : Nat) (s : BT) : Option BT :=
  if s.last.id < 0 then none else
  match tokAt tokens f s.last.id.toNat with
  | none => none
  | some c =>
    if c.id = -1 then none
    else if c.id ≠ s.last.id then
      if s.last.id.toNat < s.states.length then
        some { last := c, lastFrame := (f : Int) + 1,
               states := modifyAt (fun e => { e with start := (f : Int) + 1,
                                                      duration := s.lastFrame - ((f : Int) + 1),
                                                      score := s.last.score - c.score })
                           s.last.id.toNat s.states }
      else none
    else some s

/-- `for (cur_frame = n - 1; cur_frame >= 0; --cur_frame)` -/
def btLoop (tokens : List (List Tok)) : Nat → BT → Option BT
  | 0, s => some s
  | f + 1, s =>
    match btStep tokens f s with
    | none => none
    | some s' => btLoop tokens f s'

/-- `state_align_search_finish` up to the call of `alignment_propagate`: `nframe = sas->frame`,
`final = (hmm_out_history, hmm_out_score)` of the last phone. -/
def backtrace (tokens : List (List Tok)) (nframe : Nat) (final : Tok) (states : List Entry) :
    Option (List Entry) :=
  if final.id = -1 then none else
  match btLoop tokens (nframe - 1) { last := final, lastFrame := nframe, states := states } with
  | none => none
  | some s =>
    if 0 < s.states.length then
      some (modifyAt (fun e => { e with start := 0, duration := s.lastFrame, score := s.last.score }) 0 s.states)
    else none

/-- **`WFTokens`.** The state path encoded by the token stack, read backwards from state `k` in frame `f`,
is monotone without skipped states down to state 0 in frame 0, every token on it exists and is valid, and
every frame lies inside the activity window `win k = (sf, ef)` of the state that occupies it
(`sf ≤ frame < ef`).  Executable: the driver evaluates it on the dumped token stack. -/
def wfWalk (tokens : List (List Tok)) (win : Nat → Int × Int) : Nat → Nat → Bool
  | 0, k => k == 0 && decide ((win 0).1 ≤ 0 ∧ 0 < (win 0).2)
  | f + 1, k =>
    decide ((win k).1 ≤ (f : Int) + 1 ∧ (f : Int) + 1 < (win k).2) &&
    match tokAt tokens f k with
    | none => false
    | some t => decide (0 ≤ t.id) && (t.id.toNat == k || t.id.toNat + 1 == k) && wfWalk tokens win f t.id.toNat

/-- the whole hypothesis: `T ≥ 1` frames, `S ≥ 1` states, the final token points at the last state, and the
walk from `(T-1, S-1)` is well formed -/
def wfTokens (tokens : List (List Tok)) (win : Nat → Int × Int) (T S : Nat) (final : Tok) : Bool :=
  decide (1 ≤ T) && decide (1 ≤ S) && decide (final.id = (S : Int) - 1) && wfWalk tokens win (T - 1) (S - 1)

/-! ## `alignment_propagate` (ps_alignment.c:316-352) -/

/-- one of the two loops: children are scanned in order; when the parent changes
(`pent != last_ent`) the parent is reset to the child's start with zero duration and score; then the
child's duration and score are added. -/
def propGo : List Entry → Option Nat → List Entry → List Entry
  | [], _, ps => ps
  | c :: cs, last, ps =>
    let ps1 := if last ≠ some c.parent then
        modifyAt (fun p => { p with start := c.start, duration := 0, score := 0 }) c.parent ps
      else ps
    let ps2 := modifyAt (fun p => { p with duration := p.duration + c.duration, score := p.score + c.score })
        c.parent ps1
    propGo cs (some c.parent) ps2

def propLevel (children parents : List Entry) : List Entry := propGo children none parents

def propagate (a : Alignment) : Alignment :=
  let ph := propLevel a.states a.phones
  { words := propLevel ph a.words, phones := ph, states := a.states }

/-- `state_align_search_finish` -/
def finish (tokens : List (List Tok)) (nframe : Nat) (final : Tok) (a : Alignment) : Option Alignment :=
  match backtrace tokens nframe final a.states with
  | none => none
  | some st => some (propagate { a with states := st })

/-! ## child iterators (`alignment_iter_children`, `alignment_iter_next`) -/

/-- entries reached by `alignment_iter_children` of entry number `i` with child index `child`, then
`alignment_iter_next` until the parent changes or the vector ends -/
def childrenOf (level : List Entry) (i child : Nat) : List Entry :=
  match level.drop child with
  | [] => []
  | e :: rest => e :: rest.takeWhile (fun x => x.parent == i)

/-! ## the hierarchy predicate (what C04 states), on the tree the iterator API hands out -/

/-- a list of segments tiles `[a, b)` in order, each with positive duration -/
def Contig : List Entry → Int → Int → Prop
  | [], a, b => a = b
  | e :: r, a, b => e.start = a ∧ 0 < e.duration ∧ Contig r (a + e.duration) b

instance contigDec : (l : List Entry) → (a b : Int) → Decidable (Contig l a b)
  | [], a, b => inferInstanceAs (Decidable (a = b))
  | e :: r, a, b =>
    have := contigDec r (a + e.duration) b
    inferInstanceAs (Decidable (e.start = a ∧ 0 < e.duration ∧ Contig r (a + e.duration) b))

def sumScore (l : List Entry) : Int := (l.map (·.score)).sum
def sumDur (l : List Entry) : Int := (l.map (·.duration)).sum

/-- a phone with the states under it -/
structure PNode where
  e : Entry
  states : List Entry
  deriving Repr, DecidableEq, Inhabited

/-- a word with the phones under it -/
structure WNode where
  e : Entry
  phones : List PNode
  deriving Repr, DecidableEq, Inhabited

/-- first-pass segment of a dictionary word: word id, start frame, end frame (inclusive) -/
structure Seg where
  wid : Int
  sf : Int
  ef : Int
  deriving Repr, DecidableEq, Inhabited

/-- **The property C04 (all clauses except the relation to the first-pass scores)** for an alignment
tree `t` returned for the first-pass segmentation `fp` of an utterance of `T` frames.
`pron` = dictionary pronunciation, `nEmit` = emitting states per phone, `senOK ci j s` = senone `s` is a
state-`j` senone of base phone `ci` in the model definition. -/
structure AlignOK (pron : Int → List Int) (nEmit : Nat) (senOK : Int → Nat → Int → Bool) (expSen : List (List Int))
    (fp : List Seg) (T : Int) (t : List WNode) : Prop where
  /-- exactly the dictionary words of the first pass, same start frames and durations -/
  words : t.map (fun w => (w.e.id, w.e.start, w.e.duration)) = fp.map (fun s => (s.wid, s.sf, s.ef - s.sf + 1))
  /-- phones under a word = its dictionary pronunciation, in order -/
  phones : ∀ w ∈ t, w.phones.map (·.e.id) = pron w.e.id
  /-- states under a phone = that phone's emitting states, in order -/
  states : ∀ w ∈ t, ∀ p ∈ w.phones, p.states.length = nEmit ∧
      ∀ j, (h : j < p.states.length) → senOK p.e.id j (p.states[j]).id = true
  /-- states under a phone = the emitting states of that phone **in its context**: `expSen` lists, phone by phone in
  utterance order, the senones of the triphone (base phone, previous phone, next phone, word position) looked up
  directly in the model definition -/
  ctxStates : (t.flatMap (·.phones)).map (fun p => p.states.map (·.id)) = expSen
  /-- children exactly partition their parent's frames, positive durations -/
  partW : ∀ w ∈ t, Contig (w.phones.map (·.e)) w.e.start (w.e.start + w.e.duration)
  partP : ∀ w ∈ t, ∀ p ∈ w.phones, Contig p.states p.e.start (p.e.start + p.e.duration)
  /-- every level is contiguous from frame 0 (to the number of frames aligned) -/
  contW : Contig (t.map (·.e)) 0 T
  contP : Contig ((t.flatMap (·.phones)).map (·.e)) 0 T
  contS : Contig ((t.flatMap (·.phones)).flatMap (·.states)) 0 T
  /-- a parent's score is the sum of its children's -/
  scoreW : ∀ w ∈ t, w.e.score = sumScore (w.phones.map (·.e))
  scoreP : ∀ w ∈ t, ∀ p ∈ w.phones, p.e.score = sumScore p.states

/-- Boolean checker of `AlignOK` (run by the driver on what `decoder_alignment` returned through the
iterator API); `SSVerif.Align.C04_alignOKB_iff` proves it decides the predicate. -/
def alignOKB (pron : Int → List Int) (nEmit : Nat) (senOK : Int → Nat → Int → Bool) (expSen : List (List Int))
    (fp : List Seg) (T : Int) (t : List WNode) : Bool :=
  decide (t.map (fun w => (w.e.id, w.e.start, w.e.duration)) = fp.map (fun s => (s.wid, s.sf, s.ef - s.sf + 1)))
  && decide (∀ w ∈ t, w.phones.map (·.e.id) = pron w.e.id)
  && decide (∀ w ∈ t, ∀ p ∈ w.phones, p.states.length = nEmit ∧
      ∀ j, (h : j < p.states.length) → senOK p.e.id j (p.states[j]).id = true)
  && decide ((t.flatMap (·.phones)).map (fun p => p.states.map (·.id)) = expSen)
  && decide (∀ w ∈ t, Contig (w.phones.map (·.e)) w.e.start (w.e.start + w.e.duration))
  && decide (∀ w ∈ t, ∀ p ∈ w.phones, Contig p.states p.e.start (p.e.start + p.e.duration))
  && decide (Contig (t.map (·.e)) 0 T)
  && decide (Contig ((t.flatMap (·.phones)).map (·.e)) 0 T)
  && decide (Contig ((t.flatMap (·.phones)).flatMap (·.states)) 0 T)
  && decide (∀ w ∈ t, w.e.score = sumScore (w.phones.map (·.e)))
  && decide (∀ w ∈ t, ∀ p ∈ w.phones, p.e.score = sumScore p.states)

theorem alignOKB_iff (pron : Int → List Int) (nEmit : Nat) (senOK : Int → Nat → Int → Bool) (expSen : List (List Int))
    (fp : List Seg) (T : Int) (t : List WNode) :
    alignOKB pron nEmit senOK expSen fp T t = true ↔ AlignOK pron nEmit senOK expSen fp T t := by
  simp only [alignOKB, Bool.and_eq_true, decide_eq_true_eq]
  constructor
  · rintro ⟨⟨⟨⟨⟨⟨⟨⟨⟨⟨h1, h2⟩, h3⟩, hx⟩, h4⟩, h5⟩, h6⟩, h7⟩, h8⟩, h9⟩, h10⟩
    exact ⟨h1, h2, h3, hx, h4, h5, h6, h7, h8, h9, h10⟩
  · rintro ⟨h1, h2, h3, hx, h4, h5, h6, h7, h8, h9, h10⟩
    exact ⟨⟨⟨⟨⟨⟨⟨⟨⟨⟨h1, h2⟩, h3⟩, hx⟩, h4⟩, h5⟩, h6⟩, h7⟩, h8⟩, h9⟩, h10⟩

end SSVerif.Align

/-! ## the constrained Viterbi step (`state_align_search_step`, state_align_search.c:66-213) for 3-state
left-to-right HMMs (`hmm_vit_eval_3st_lr`, hmm.c:482-563) — local minimal model, used by the driver to recompute
the token stack from the senone scores the real second pass saw. -/
namespace SSVerif.Align.Step

def worst : Int := -536870912       -- WORST_SCORE = (int)0xE0000000
def intMin : Int := -2147483648

/-- `hmm_t` of a non-mpx 3-state HMM -/
structure Hmm where
  s0 : Int := worst
  s1 : Int := worst
  s2 : Int := worst
  h0 : Int := -1
  h1 : Int := -1
  h2 : Int := -1
  out : Int := worst
  outH : Int := -1
  frame : Int := -1
  deriving Repr, DecidableEq, Inhabited

def clampW (x : Int) : Int := if x < worst then worst else x

/-- `if (x BETTER_THAN y) y = x;` -/
def maxI (x y : Int) : Int := if x > y then x else y

/-- `tp[i*4+j]` as the C code reads it (`uint8`, 255 = no transition); scores use `-tp` -/
def tpAt (tp : Array Int) (i j : Nat) : Int := tp.getD (i * 4 + j) 255

/-- `hmm_vit_eval_3st_lr`; `sen k` = `senscore[sseq[k]]` (non-negative senone score of state k). Returns the HMM and its best score. -/
def eval3 (tp : Array Int) (sen0 sen1 sen2 : Int) (h : Hmm) : Hmm × Int :=
  let s2 := h.s2 - sen2
  let s1 := h.s1 - sen1
  let s0 := h.s0 - sen0
  -- transitions into the non-emitting exit state
  let (out, outH, best, t2) :=
    if s1 > worst then
      let t1 := s2 - tpAt tp 2 3
      let t2 := if tpAt tp 1 3 < 255 then s1 - tpAt tp 1 3 else intMin
      let (s3, oh) := if t1 > t2 then (t1, h.h2) else (t2, h.h1)
      let s3 := clampW s3
      (s3, oh, s3, t2)
    else (h.out, h.outH, worst, intMin)
  -- state 2
  let t0 := s2 - tpAt tp 2 2
  let t1 := s1 - tpAt tp 1 2
  let t2 := if tpAt tp 0 2 < 255 then s0 - tpAt tp 0 2 else t2
  let (n2, nh2) :=
    if t0 > t1 then (if t2 > t0 then (t2, h.h0) else (t0, h.h2))
    else (if t2 > t1 then (t2, h.h0) else (t1, h.h1))
  let n2 := clampW n2
  let best := maxI n2 best
  -- state 1
  let t0 := s1 - tpAt tp 1 1
  let t1 := s0 - tpAt tp 0 1
  let (n1, nh1) := if t0 > t1 then (t0, h.h1) else (t1, h.h0)
  let n1 := clampW n1
  let best := maxI n1 best
  -- state 0
  let n0 := clampW (s0 - tpAt tp 0 0)
  let best := maxI n0 best
  ({ h with s0 := n0, s1 := n1, s2 := n2, h1 := nh1, h2 := nh2, out := out, outH := outH }, best)

/-- `hmm_normalize` -/
def normalize (b : Int) (h : Hmm) : Hmm :=
  { h with s0 := if h.s0 > worst then h.s0 - b else h.s0, s1 := if h.s1 > worst then h.s1 - b else h.s1,
           s2 := if h.s2 > worst then h.s2 - b else h.s2, out := if h.out > worst then h.out - b else h.out }

structure Search where
  hmms : List Hmm
  best : Int := 0
  deriving Repr, Inhabited

/-- the renormalisation test of `state_align_search_step` (state_align_search.c:201-202, with the repair of D28):
`sas->best_score BETTER_THAN WORST_SCORE && (sas->best_score - 0x300000) WORSE_THAN WORST_SCORE` — a dead search
(`best_score == WORST_SCORE`) is not renormalised -/
def renormDue (best : Int) : Prop := best > worst ∧ best - 0x300000 < worst

instance (best : Int) : Decidable (renormDue best) := inferInstanceAs (Decidable (_ ∧ _))

/-- `state_align_search_init` + `state_align_search_start` -/
def start (nPhones : Nat) : Search :=
  { hmms := (List.range nPhones).map fun i => if i = 0 then { s0 := 0, h0 := 0, frame := 0 } else {} }

/-- `evaluate_hmms`: every HMM with `frame ≥ f` is evaluated; paired with its best score (`WORST_SCORE` if skipped) -/
def evalPhase (tps : Array (Array Int)) (sen : Array Int) (f : Int) (hm : List Hmm) : List (Hmm × Int) :=
  hm.mapIdx fun i h =>
    if h.frame < f then (h, worst)
    else eval3 (tps.getD i #[]) (sen.getD (3 * i) 0) (sen.getD (3 * i + 1) 0) (sen.getD (3 * i + 2) 0) h

/-- `prune_hmms`: an active HMM stays active in frame `f+1` unless `f+1 > ef` -/
def prunePhase (ef : Array Int) (f : Int) (hm : List Hmm) : List Hmm :=
  hm.mapIdx fun i h => if h.frame < f then h else if f + 1 > ef.getD i 0 then h else { h with frame := f + 1 }

/-- `phone_transition`, sequentially from phone 0: `i` = index of the head of the list, `prev` = the (already
updated) HMM before it.  HMM `i` is entered from `prev` when `prev` is active in frame `f+1`, `f+1 ≥ sf[i]`,
and HMM `i` is inactive or the new score is better (`hmm_enter`). -/
def transPhase (sf : Array Int) (f : Int) : Nat → Option Hmm → List Hmm → List Hmm
  | _, _, [] => []
  | i, none, h :: rest => h :: transPhase sf f (i + 1) (some h) rest
  | i, some p, nh :: rest =>
    let nh' :=
      if p.frame ≠ f + 1 then nh
      else if f + 1 < sf.getD i 0 then nh
      else if nh.frame < f ∨ p.out > nh.s0 then { nh with s0 := p.out, h0 := p.outH, frame := f + 1 }
      else nh
    nh' :: transPhase sf f (i + 1) (some nh') rest

/-- tokens `record_transitions` pushes for HMM `i` -/
def rowOf (f : Int) (h : Hmm) : List Tok :=
  if h.frame < f then [⟨-1, -1⟩, ⟨-1, -1⟩, ⟨-1, -1⟩] else [⟨h.h0, h.s0⟩, ⟨h.h1, h.s1⟩, ⟨h.h2, h.s2⟩]

/-- `record_transitions`: backpointers of the active HMMs are replaced by their own state indices -/
def relabel (f : Int) (hm : List Hmm) : List Hmm :=
  hm.mapIdx fun i h =>
    if h.frame < f then h else { h with h0 := (3 * i : Nat), h1 := (3 * i + 1 : Nat), h2 := (3 * i + 2 : Nat) }

/-- the HMMs after evaluation, pruning and phone transitions of frame `f` (before `record_transitions`) -/
def advance (tps : Array (Array Int)) (sf ef : Array Int) (sen : Array Int) (f : Int) (hm : List Hmm) : List Hmm :=
  transPhase sf f 0 none (prunePhase ef f ((evalPhase tps sen f hm).map (·.1)))

/-- one frame: `tps[i]` = transition matrix of phone i, `sen` = senone score per state (3 per phone).
Returns the search and the token row pushed by `record_transitions`. -/
def step (tps : Array (Array Int)) (sf ef : Array Int) (sen : Array Int) (f : Int) (s : Search) : Search × List Tok :=
  -- renormalisation (`renormalize_hmms`: `hmm_normalize` on every HMM)
  let hm := if renormDue s.best then s.hmms.map (normalize s.best) else s.hmms
  let best := ((evalPhase tps sen f hm).map (·.2)).foldl (fun b x => if x > b then x else b) worst
  let hm := advance tps sf ef sen f hm
  ({ hmms := relabel f hm, best := best }, hm.flatMap (rowOf f))

/-- the frames one after the other: `f` = index of the next frame, `rows` = token rows pushed so far, `rn` = whether
the renormalisation branch was taken so far -/
def runAux (tps : Array (Array Int)) (sf ef : Array Int) :
    List (Array Int) → Search → Nat → List (List Tok) → Bool → Search × List (List Tok) × Bool
  | [], s, _, rows, rn => (s, rows, rn)
  | sen :: rest, s, f, rows, rn =>
    let r := step tps sf ef sen (f : Int) s
    runAux tps sf ef rest r.1 (f + 1) (rows ++ [r.2]) (rn || decide (renormDue s.best))

/-- the whole second pass over the per-frame senone scores; returns the token stack, the final
`(out_history, out_score)` of the last phone, and whether the renormalisation branch was ever taken -/
def run (tps : Array (Array Int)) (sf ef : Array Int) (frames : List (Array Int)) : List (List Tok) × Tok × Bool :=
  let n := sf.size
  let r := runAux tps sf ef frames (start n) 0 [] false
  let last := r.1.hmms.getD (n - 1) {}
  (r.2.1, ⟨last.outH, last.out⟩, r.2.2)

/-- `start` with the entry score `s0` instead of 0 (`hmm_enter(sas->hmms, s0, 0, 0)`): used by the renormalisation
probe of the correspondence check, which starts a hand-stepped second pass close to the renormalisation threshold -/
def startWith (nPhones : Nat) (s0 : Int) : Search :=
  { hmms := (List.range nPhones).map fun i => if i = 0 then { s0 := s0, h0 := 0, frame := 0 } else {} }

/-- `run` from `startWith n s0` -/
def runWith (s0 : Int) (tps : Array (Array Int)) (sf ef : Array Int) (frames : List (Array Int)) :
    List (List Tok) × Tok × Bool :=
  let n := sf.size
  let r := runAux tps sf ef frames (startWith n s0) 0 [] false
  let last := r.1.hmms.getD (n - 1) {}
  (r.2.1, ⟨last.outH, last.out⟩, r.2.2)

end SSVerif.Align.Step
