import SSVerif.Model.Viterbi
/-!
# The domination rule of `fsg_history_entry_add` (C02)

`fsg_history.c:128-201` keeps, per (FSG state, left-context phone) and frame, a list of tentative history
entries sorted by descending score.  A new entry's right-context set is reduced by the sets of all
entries that score at least as well (`FSG_PNODE_CTXT_SUB(&rc, &entry->rc)`); if nothing is left the new
entry is dropped; otherwise it is inserted before the first strictly worse entry, and its (reduced) set
is subtracted from every worse entry, which is freed when its set becomes empty.

Right-context sets (`fsg_pnode_ctxt_t`, a bit vector over CI phones) are modelled as lists of phone
ids; `ctxtSub src sub` is `src & ~sub`.
-/
namespace SSVerif.HistDom

structure Entry where
  score : Int
  /-- right-context set -/
  rc : List Nat
  /-- whatever else the entry carries (link, frame, predecessor) -/
  tag : Nat
deriving Repr, DecidableEq

/-- `FSG_PNODE_CTXT_SUB(src, sub)`: `src &= ~sub` -/
def ctxtSub (src sub : List Nat) : List Nat := src.filter fun r => !sub.contains r

/-- second loop: subtract the new entry's set from every remaining (worse) entry, dropping emptied ones -/
def prune (rc : List Nat) : List Entry → List Entry
  | [] => []
  | e :: es =>
    let r := ctxtSub e.rc rc
    if r.isEmpty then prune rc es else { e with rc := r } :: prune rc es

/-- first loop + insertion; `none` = the new entry was dominated and the list is left unchanged -/
def addGo (new : Entry) : List Entry → Option (List Entry)
  | [] => some [new]
  | e :: es =>
    if new.score > e.score then some (new :: prune new.rc (e :: es))
    else
      let rc' := ctxtSub new.rc e.rc
      if rc'.isEmpty then none
      else (addGo { new with rc := rc' } es).map (e :: ·)

/-- `fsg_history_entry_add` on the list `frame_entries[s][lc]` -/
def add (l : List Entry) (new : Entry) : List Entry := (addGo new l).getD l

/-- what a right-context phone can get from an entry -/
def cand (r : Nat) (e : Entry) : Option Int := if r ∈ e.rc then some e.score else none

/-- best score available to right-context phone `r` in a list of entries -/
def bestFor (r : Nat) (l : List Entry) : Option Int := SSVerif.Viterbi.best (l.map (cand r))

/-- descending scores -/
def Sorted (l : List Entry) : Prop := l.Pairwise fun a b => a.score ≥ b.score

end SSVerif.HistDom
