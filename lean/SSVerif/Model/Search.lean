import SSVerif.Model.Hist
import SSVerif.Model.Hmm
import SSVerif.Generated.SearchConsts
/-!
# M10 — the token-passing frame step of `src/fsg_search.c` over a lextree (`src/fsg_lextree.c`)

What is modelled (growth stage of DESIGN §4/C01; also `finish_clears_search` of §4/C08):

* the **lextree** as the search walks it: pnodes with `next.succ` / `next.fsglink`, `sibling`, `leaf`,
  `ci_ext`, the per-state root pointer `root[s]`, and — for every pnode — the FSG state in whose
  `alloc_head[s]` list it was allocated (`owner`).  `children`/`roots` follow the `sibling` chain exactly as
  `fsg_search_pnode_trans` (fsg_search.c:422-423) and `fsg_search_word_trans` (630-631) do.  The real
  lextree shares child/leaf pnodes between several roots of one state, so "belongs to state `d`" is
  membership (`owner`), not tree-shaped ownership.
* the **HMM** of a pnode (`hmm_t`, hmm.h:166-179): `frame`, the scores and history indices of the emitting
  states (`score[0]` = `hmm_in_score`), and the exit state (`out_score`, `out_history`).
* the **search state between two frames**: `fsgs->frame`, the history table, every pnode's HMM,
  `pnode_active` (`pnode_active_next` is NULL and the per-(state, lc) frame lists of the history module are
  empty between frames).
* `StartRel` (`fsg_search_start`, 750-802), `StepRel` (`fsg_search_step`, 668-743 =
  `fsg_search_hmm_eval` → `fsg_search_hmm_prune_prop` (→ `fsg_search_pnode_trans`, `fsg_search_pnode_exit`)
  → `fsg_history_end_frame` → `fsg_search_null_prop` → `fsg_history_end_frame` → `fsg_search_word_trans`
  → deactivate / swap active lists → `++frame`) and `finish` (`fsg_search_finish`, 807-855).

`StepRel` is a **relation**: it says what one frame may do to the state, not which of the possibilities
happens.  All score arithmetic and every beam decision is left open — which HMMs stay active, which
transition wins inside an HMM, which phone/word transitions fire, which word exits survive the domination
pruning of `fsg_history_entry_add` and in which order `fsg_history_end_frame` transfers them.  The only
thing kept of a score is whether it is *live* (`> WORST_SCORE`), because that is what keeps the history
index `-1` of a never-reached state from being propagated:

* `hmm_vit_eval` (hmm.c): the new history of a state is the history of the predecessor state (`≤` it, the
  topologies are left-to-right) whose candidate won the max, and the new score can only be live when that
  predecessor's score was live (emission and transition scores are `≤ 0`, results are clamped at
  `WORST_SCORE`) — `EvalState`, `EvalOut`.  The exit state may also be left untouched (the `s1 > WORST_SCORE`
  guard of `hmm_vit_eval_3st_lr`, `bestfrom < 0` in `hmm_vit_eval_anytopo`).
* `hmm_enter(&child->hmm, newscore, hmm_out_history(hmm), nf)` in `fsg_search_pnode_trans` and
  `hmm_enter(&root->hmm, newscore, bpidx, nf)` in `fsg_search_word_trans` — `EnteredFromParent`,
  `EnteredFromEntry`.
* `fsg_search_pnode_exit`: the new entry carries the leaf's `fsglink`, the current frame, the exit score and
  `hmm_out_history(hmm)` of a leaf whose exit score is live — `ExitOK`.

Every predicate is decidable; the driver evaluates them (`decide (LexTreeOK …)`, `startRelB`, `stepRelB`,
`searchInvB`, proved sound in `Proofs/Search.lean`) on the lextree and on every pair of consecutive states
dumped from the real decoder (`harness/h_c01s.c`), and compares `evalHist3` — the statement-by-statement
mirror of `hmm_vit_eval_3st_lr` with the history assignments — with every HMM the real search evaluated.
Core Lean only.
-/
namespace SSVerif.Search
open SSVerif.Hist
open SSVerif.Generated.Search (worstScore)

/-! ### the lextree -/

/-- `fsg_pnode_t` (fsg_lextree.h:82-138) as far as the search reads it -/
structure PNode where
  /-- the FSG state `s` whose `alloc_head[s]` list holds this pnode -/
  owner : Nat
  leaf : Bool
  /-- `next.fsglink` of a leaf: index of the arc among the arcs of the search FSG -/
  link : Nat := 0
  /-- `next.succ` of a non-leaf -/
  succ : Option Nat := none
  sibling : Option Nat := none
  ciExt : Nat := 0
  /-- the fields below are not read by the step relation; they are what `psubtree_add_trans` decides the
  sharing of pnodes by (`hmm_nonmpx_ssid`) and what it records (`hmm.tmatid`, `ppos`, the context set `ctxt`
  as a bit mask over CI phones, `logs2prob`) — `Model/SearchLex.lean` builds them, the driver compares them -/
  ssid : Nat := 0
  tmatid : Nat := 0
  ppos : Nat := 0
  ctxt : Nat := 0
  logs2prob : Int := 0
deriving Repr, DecidableEq, Inhabited

/-- `fsg_lextree_t`: all pnodes (index = id given by the dump), `root[s]`, and `ctx->n_emit_state` -/
structure LexTree where
  nst : Nat
  nodes : Array PNode
  root : Array (Option Nat)
deriving Repr

def LexTree.node (lt : LexTree) (p : Nat) : PNode := lt.nodes.getD p { owner := 0, leaf := false }

/-- `for (x = start; x; x = x->sibling)`; the fuel (number of pnodes) only matters on a cyclic chain, on
which the C loop would not terminate (`chainEnds`) -/
def LexTree.chain (lt : LexTree) : Nat → Option Nat → List Nat
  | 0, _ => []
  | _, none => []
  | fuel + 1, some p => p :: lt.chain fuel (lt.node p).sibling

/-- does the chain reach NULL within the fuel? -/
def LexTree.chainEnds (lt : LexTree) : Nat → Option Nat → Bool
  | _, none => true
  | 0, some _ => false
  | fuel + 1, some p => lt.chainEnds fuel (lt.node p).sibling

/-- the pnodes `fsg_search_pnode_trans` enters from `p`: `fsg_pnode_succ(p)` and its siblings -/
def LexTree.children (lt : LexTree) (p : Nat) : List Nat :=
  if (lt.node p).leaf then [] else lt.chain lt.nodes.size (lt.node p).succ

/-- the pnodes `fsg_search_word_trans` enters for destination state `d`: `root[d]` and its siblings -/
def LexTree.roots (lt : LexTree) (d : Nat) : List Nat := lt.chain lt.nodes.size (lt.root.getD d none)

/-- what the step relies on (checked on every dumped lextree): roots of state `d` belong to `d`, children
belong to the state of their parent, a leaf carries a word arc of the FSG that leaves the state the leaf
belongs to (`psubtree_add_trans` is only called for arcs with `wid ≥ 0` leaving `from_state`) -/
def LexTreeOK (lt : LexTree) (g : Fsg) : Prop :=
  (∀ d, d < lt.root.size → ∀ r ∈ lt.roots d, r < lt.nodes.size ∧ (lt.node r).owner = d) ∧
  (∀ p, p < lt.nodes.size → ∀ c ∈ lt.children p, c < lt.nodes.size ∧ (lt.node c).owner = (lt.node p).owner) ∧
  (∀ p, p < lt.nodes.size → (lt.node p).leaf = true →
    (lt.node p).link < g.links.size ∧ (g.link (lt.node p).link).src = (lt.node p).owner ∧
    0 ≤ (g.link (lt.node p).link).wid)

instance (lt : LexTree) (g : Fsg) : Decidable (LexTreeOK lt g) := by unfold LexTreeOK; infer_instance

/-- every sibling chain the search follows ends in NULL (so `children`/`roots` are the complete C loops) -/
def LexTree.chainsEndB (lt : LexTree) : Bool :=
  ((List.range lt.root.size).all fun d => lt.chainEnds lt.nodes.size (lt.root.getD d none)) &&
  ((List.range lt.nodes.size).all fun p => (lt.node p).leaf || lt.chainEnds lt.nodes.size (lt.node p).succ)

/-! ### HMMs -/

/-- `hmm_t`: `score[j]`/`history[j]` of the emitting states, exit state, `frame` -/
structure Hmm where
  frame : Int
  score : List Int
  hist : List Int
  outScore : Int
  outHist : Int
deriving Repr, DecidableEq, Inhabited

/-- `hmm_clear` (hmm.c:124-140) on an HMM with `n` emitting states -/
def Hmm.clear (n : Nat) : Hmm :=
  { frame := -1, score := List.replicate n worstScore, hist := List.replicate n (-1), outScore := worstScore, outHist := -1 }

def Hmm.sc (h : Hmm) (j : Nat) : Int := h.score.getD j worstScore
def Hmm.hi (h : Hmm) (j : Nat) : Int := h.hist.getD j (-1)

/-- a score that stands for a real path (`BETTER_THAN WORST_SCORE`) -/
def live (x : Int) : Prop := worstScore < x

instance (x : Int) : Decidable (live x) := by unfold live; infer_instance

/-- `hmm_vit_eval`, emitting state `j`: the history comes from a state `i ≤ j` (`i = j`: self loop / state
left alone), and the new score is live only if that state's score was -/
def EvalState (h h' : Hmm) (j : Nat) : Prop :=
  ∃ i ∈ List.range (j + 1), h'.hi j = h.hi i ∧ (live (h'.sc j) → live (h.sc i))

/-- the emitting states the exit state of an `n`-state HMM can be reached from within one frame, as
`hmm_vit_eval` (hmm.c:747-763) dispatches: `hmm_vit_eval_3st_lr[_mpx]` (`n = 3`) reads only `s1`, `s2` in its
"transitions into non-emitting state 3" block (hmm.c:498-514: `t1 = s2 + tp(2,3)`, `t2 = s1 + tp(1,3)`),
`hmm_vit_eval_5st_lr[_mpx]` (`n = 5`) only `s3`, `s4` (hmm.c:180-195); `hmm_vit_eval_anytopo` (every other
`n`) scans all `from < n` whose arc to the final state exists in the transition matrix.  In particular a 3- or
5-state HMM never takes its exit score from state 0, the state `hmm_enter` writes: a token needs at least one
frame inside the HMM before it can leave it. -/
def OutFrom (n i : Nat) : Prop := (n = 3 → 1 ≤ i) ∧ (n = 5 → 3 ≤ i)

instance (n i : Nat) : Decidable (OutFrom n i) := by unfold OutFrom; infer_instance

/-- the numbers of emitting states `hmm_vit_eval` has a dedicated left-to-right evaluator for (3 in every shipped
model): for these the exit state is never fed from state 0 (`OutFrom`) -/
def LaterTopo (n : Nat) : Prop := n = 3 ∨ n = 5

instance (n : Nat) : Decidable (LaterTopo n) := by unfold LaterTopo; infer_instance

/-- `hmm_vit_eval`, exit state: left alone (history kept; the score kept or reset), or taken from an
emitting state that has an arc to the exit state in the evaluator's topology (`OutFrom`) -/
def EvalOut (n : Nat) (h h' : Hmm) : Prop :=
  (h'.outHist = h.outHist ∧ (live h'.outScore → live h.outScore)) ∨
  ∃ i ∈ List.range n, OutFrom n i ∧ h'.outHist = h.hi i ∧ (live h'.outScore → live (h.sc i))

instance (h h' : Hmm) (j : Nat) : Decidable (EvalState h h' j) := by unfold EvalState; infer_instance
instance (n : Nat) (h h' : Hmm) : Decidable (EvalOut n h h') := by unfold EvalOut; infer_instance


/-! ### the exact evaluation of a 3-state HMM, with history indices

`evalHist3` mirrors `hmm_vit_eval_3st_lr` (hmm.c:482-567) statement by statement *including* the history
assignments (`Model/Hmm.lean`'s `hmmStep`, tied to the code by C02, is its score part: `evalHist3_scores`).
`tp` is the 3×4 transition matrix as stored, `e k = hmm_senscr(hmm, k) = -senscore[senid[k]]`.  The driver
compares it with the real HMMs in every frame; `Proofs/Search.lean` proves that it is a behaviour of
`EvalState`/`EvalOut` whenever the emission scores are `≤ 0` and the matrix does not allow the skip `1→3`
without allowing the skip `0→2` (the code reuses the temporary `t2` of the exit block in the block of state
2, so with such a matrix state 2 could take the *score* of a path through state 1 and the *history* of state 0). -/

open SSVerif.Hmm (tprob clampW)

/-- "Transitions into non-emitting state 3" (498-514): `(out_score, out_history, t2)`; `t2` is the C
temporary as the block leaves it (`INT_MIN` unless the skip `1→3` exists) -/
def exit3 (tp : List Nat) (s1 s2 : Int) (h : Hmm) : Int × Int × Int :=
  if s1 > worstScore then
    let t1 := s2 + tprob tp 2 3
    let t2 := if tprob tp 1 3 > SSVerif.Generated.Search.tmatWorstScore then s1 + tprob tp 1 3
              else SSVerif.Generated.Search.intMin
    if t1 > t2 then (clampW t1, h.hi 2, t2) else (clampW t2, h.hi 1, t2)
  else (h.outScore, h.outHist, SSVerif.Generated.Search.intMin)

/-- "All transitions into state 2" (516-540), before the clamp: `(s2, history[2])`; `t2in` is the temporary
left by the exit block -/
def state2 (tp : List Nat) (s0 s1 s2 t2in : Int) (h : Hmm) : Int × Int :=
  let t0 := s2 + tprob tp 2 2
  let t1 := s1 + tprob tp 1 2
  let t2 := if tprob tp 0 2 > SSVerif.Generated.Search.tmatWorstScore then s0 + tprob tp 0 2 else t2in
  if t0 > t1 then (if t2 > t0 then (t2, h.hi 0) else (t0, h.hi 2))
  else (if t2 > t1 then (t2, h.hi 0) else (t1, h.hi 1))

/-- "All transitions into state 1" (542-555), before the clamp -/
def state1 (tp : List Nat) (s0 s1 : Int) (h : Hmm) : Int × Int :=
  let t0 := s1 + tprob tp 1 1
  let t1 := s0 + tprob tp 0 1
  if t0 > t1 then (t0, h.hi 1) else (t1, h.hi 0)

def evalHist3 (tp : List Nat) (e : Nat → Int) (h : Hmm) : Hmm :=
  let s2 := h.sc 2 + e 2
  let s1 := h.sc 1 + e 1
  let s0 := h.sc 0 + e 0
  let x := exit3 tp s1 s2 h
  let y := state2 tp s0 s1 s2 x.2.2 h
  let z := state1 tp s0 s1 h
  { frame := h.frame, score := [clampW (s0 + tprob tp 0 0), clampW z.1, clampW y.1], hist := [h.hi 0, z.2, y.2],
    outScore := x.1, outHist := x.2.1 }

/-! ### the search state between two frames -/

structure SState where
  /-- `fsgs->frame`: number of frames searched -/
  frame : Int
  hist : Hist
  /-- the HMM of every pnode -/
  hmms : Array Hmm
  /-- `fsgs->pnode_active` -/
  active : List Nat
deriving Repr

def SState.hmm (s : SState) (p : Nat) : Hmm := s.hmms.getD p (Hmm.clear 0)

/-- a history index an HMM of state `d`'s lextree may hold when `cur` frames have been searched: an entry
of the table that ends in `d` and was made in an earlier frame -/
def HistOK (g : Fsg) (h : Hist) (cur : Int) (d : Nat) (x : Int) : Prop :=
  0 ≤ x ∧ x.toNat < h.size ∧ dest g (ent h x.toNat) = d ∧ (ent h x.toNat).frame < cur

instance (g : Fsg) (h : Hist) (cur : Int) (d : Nat) (x : Int) : Decidable (HistOK g h cur d x) := by
  unfold HistOK; infer_instance

/-- every live state (and a live exit) of pnode `p`'s HMM holds a good history index -/
def HmmOK (lt : LexTree) (g : Fsg) (s : SState) (p : Nat) : Prop :=
  (∀ j, j < lt.nst → live ((s.hmm p).sc j) → HistOK g s.hist s.frame (lt.node p).owner ((s.hmm p).hi j)) ∧
  (live (s.hmm p).outScore → HistOK g s.hist s.frame (lt.node p).owner (s.hmm p).outHist)

/-- the part of the invariant that concerns the HMMs and the active list:
* live states hold good history indices (`HmmOK`),
* an HMM that is not on the active list is in the cleared state (DESIGN §4/C08 `finish_clears_search`),
* an HMM on the active list has `hmm_frame == fsgs->frame` (the `assert` of `fsg_search_hmm_eval`),
* no pnode is twice on the active list (so the list is never longer than the lextree has pnodes: the
  `E_FATAL("PANIC! … #HMM evaluated > #PNodes")` of `fsg_search_hmm_eval` is unreachable). -/
def HmmsInv (lt : LexTree) (g : Fsg) (s : SState) : Prop :=
  (s.hmms.size = lt.nodes.size ∧ s.active.Nodup) ∧
  (∀ p ∈ s.active, p < lt.nodes.size ∧ (s.hmm p).frame = s.frame) ∧
  (∀ p, p < lt.nodes.size → HmmOK lt g s p ∧ (p ∉ s.active → s.hmm p = Hmm.clear lt.nst))

instance (lt : LexTree) (g : Fsg) (s : SState) (p : Nat) : Decidable (HmmOK lt g s p) := by
  unfold HmmOK; infer_instance
instance (lt : LexTree) (g : Fsg) (s : SState) : Decidable (HmmsInv lt g s) := by unfold HmmsInv; infer_instance

/-- the invariant of the search between frames -/
structure SearchInv (lt : LexTree) (g : Fsg) (s : SState) : Prop where
  wf : WFHist g s.hist s.frame
  hmms : HmmsInv lt g s

def searchInvB (lt : LexTree) (g : Fsg) (s : SState) : Bool :=
  wfHistB g s.hist s.frame && decide (HmmsInv lt g s)

/-! ### new history entries of a frame -/

/-- `fsg_search_pnode_exit` (440-493): the entry of a word exit in the frame that `s → s'` searches -/
def ExitOK (lt : LexTree) (s s' : SState) (e : Entry) : Prop :=
  ∃ p ∈ s.active, p ∈ s'.active ∧ (lt.node p).leaf = true ∧ e.link = some (lt.node p).link ∧
    e.frame = s.frame ∧ e.pred = (s'.hmm p).outHist ∧ live (s'.hmm p).outScore ∧
    e.score = (s'.hmm p).outScore ∧ e.lc = ((lt.node p).ciExt : Int)

/-- `fsg_search_null_prop` (547-595): the entry made for a null arc leaving the destination state of
entry `e.pred ∈ [start, h1.size)`; frame and `lc` inherited, score + `logs2prob >> SENSCR_SHIFT` (the `rc`
set is left open: the domination pruning of `fsg_history_entry_add` may shrink it) -/
def NullOK (shift : Nat) (g : Fsg) (h1 : Hist) (start : Nat) (e : Entry) : Prop :=
  match e.link with
  | none => False
  | some lid =>
    lid < g.links.size ∧ (g.link lid).wid < 0 ∧ 0 ≤ e.pred ∧ start ≤ e.pred.toNat ∧ e.pred.toNat < h1.size ∧
    (g.link lid).src = dest g (ent h1 e.pred.toNat) ∧ e.frame = (ent h1 e.pred.toNat).frame ∧
    e.score = (ent h1 e.pred.toNat).score + ((g.link lid).logp >>> shift) ∧ e.lc = (ent h1 e.pred.toNat).lc

instance (lt : LexTree) (s s' : SState) (e : Entry) : Decidable (ExitOK lt s s' e) := by
  unfold ExitOK; infer_instance
instance (shift : Nat) (g : Fsg) (h1 : Hist) (start : Nat) (e : Entry) : Decidable (NullOK shift g h1 start e) := by
  unfold NullOK; split <;> infer_instance

/-- growth of the table in one frame: first the word exits that survived (`fsg_history_end_frame` after
`fsg_search_hmm_prune_prop`), then the null-arc entries hanging off them (`fsg_history_end_frame` after
`fsg_search_null_prop`) — any selection, any order -/
def TableStep (shift : Nat) (lt : LexTree) (g : Fsg) (s s' : SState) : Prop :=
  ∃ exits nulls : List Entry,
    s'.hist = nulls.foldl Array.push (exits.foldl Array.push s.hist) ∧
    (∀ e ∈ exits, ExitOK lt s s' e) ∧
    (∀ e ∈ nulls, NullOK shift g (exits.foldl Array.push s.hist) s.hist.size e)

def isNullEntry (g : Fsg) (e : Entry) : Bool :=
  match e.link with
  | some lid => decide ((g.link lid).wid < 0)
  | none => false

/-- checker of `TableStep`: the new entries are split at the first null-arc entry -/
def tableStepB (shift : Nat) (lt : LexTree) (g : Fsg) (s s' : SState) : Bool :=
  let new := s'.hist.toList.drop s.hist.size
  let exits := new.takeWhile fun e => !isNullEntry g e
  let nulls := new.dropWhile fun e => !isNullEntry g e
  decide (s'.hist = nulls.foldl Array.push (exits.foldl Array.push s.hist)) &&
  (exits.all fun e => decide (ExitOK lt s s' e)) &&
  (nulls.all fun e => decide (NullOK shift g (exits.foldl Array.push s.hist) s.hist.size e))

/-! ### what a frame does to the HMM of one pnode -/

/-- `fsg_search_pnode_trans` (407-438): `hmm_enter(&child->hmm, newscore, hmm_out_history(hmm), nf)` from a
non-leaf parent `q` that was evaluated in this frame and stays active -/
def EnteredFromParent (lt : LexTree) (s s' : SState) (p : Nat) : Prop :=
  ∃ q ∈ s.active, q ∈ s'.active ∧ (lt.node q).leaf = false ∧ p ∈ lt.children q ∧
    (s'.hmm p).hi 0 = (s'.hmm q).outHist ∧ (live ((s'.hmm p).sc 0) → live (s'.hmm q).outScore)

/-- `fsg_search_word_trans` (601-666): `hmm_enter(&root->hmm, newscore, bpidx, nf)` for an entry `bpidx`
made in this frame whose destination state has `p` among its roots -/
def EnteredFromEntry (lt : LexTree) (g : Fsg) (s s' : SState) (p : Nat) : Prop :=
  0 ≤ (s'.hmm p).hi 0 ∧ s.hist.size ≤ ((s'.hmm p).hi 0).toNat ∧ ((s'.hmm p).hi 0).toNat < s'.hist.size ∧
  p ∈ lt.roots (dest g (ent s'.hist ((s'.hmm p).hi 0).toNat))

instance (lt : LexTree) (s s' : SState) (p : Nat) : Decidable (EnteredFromParent lt s s' p) := by
  unfold EnteredFromParent; infer_instance
instance (lt : LexTree) (g : Fsg) (s s' : SState) (p : Nat) : Decidable (EnteredFromEntry lt g s s' p) := by
  unfold EnteredFromEntry; infer_instance

/-- one frame, seen from pnode `p`:
* not on the new active list: cleared by the deactivation loop (720-730) if it was active, untouched otherwise;
* on the new active list: `hmm_frame = frame + 1`; the states `j ≥ 1` and the exit state went through
  `hmm_vit_eval` if `p` was active and are untouched otherwise; state 0 went through `hmm_vit_eval` (only
  if `p` was active) or was entered from a parent or from a new history entry. -/
def PNodeStep (lt : LexTree) (g : Fsg) (s s' : SState) (p : Nat) : Prop :=
  (p ∉ s'.active → s'.hmm p = if p ∈ s.active then Hmm.clear lt.nst else s.hmm p) ∧
  (p ∈ s'.active →
    (s'.hmm p).frame = s.frame + 1 ∧
    (∀ j, j < lt.nst → 0 < j →
      if p ∈ s.active then EvalState (s.hmm p) (s'.hmm p) j
      else (s'.hmm p).hi j = (s.hmm p).hi j ∧ (s'.hmm p).sc j = (s.hmm p).sc j) ∧
    (if p ∈ s.active then EvalOut lt.nst (s.hmm p) (s'.hmm p)
     else (s'.hmm p).outHist = (s.hmm p).outHist ∧ (s'.hmm p).outScore = (s.hmm p).outScore) ∧
    ((p ∈ s.active ∧ (s'.hmm p).hi 0 = (s.hmm p).hi 0 ∧ (live ((s'.hmm p).sc 0) → live ((s.hmm p).sc 0))) ∨
      EnteredFromParent lt s s' p ∨ EnteredFromEntry lt g s s' p))

instance (lt : LexTree) (g : Fsg) (s s' : SState) (p : Nat) : Decidable (PNodeStep lt g s s' p) := by
  unfold PNodeStep; infer_instance

/-- the HMM side of `fsg_search_step`; a pnode is put on `pnode_active_next` exactly when its frame stamp
changes to `frame + 1` (`hmm_frame(hmm) == fsgs->frame` in `fsg_search_hmm_prune_prop`, `hmm_frame < nf` in
`fsg_search_pnode_trans` / `fsg_search_word_trans`), so the new list has no duplicates -/
def HmmsStep (lt : LexTree) (g : Fsg) (s s' : SState) : Prop :=
  (s'.hmms.size = s.hmms.size ∧ s'.active.Nodup) ∧ (∀ p ∈ s'.active, p < lt.nodes.size) ∧
  (∀ p, p < lt.nodes.size → PNodeStep lt g s s' p)

instance (lt : LexTree) (g : Fsg) (s s' : SState) : Decidable (HmmsStep lt g s s') := by
  unfold HmmsStep; infer_instance

/-- **`fsg_search_step`** as a relation between the states before and after one frame -/
structure StepRel (shift : Nat) (lt : LexTree) (g : Fsg) (s s' : SState) : Prop where
  frame : s'.frame = s.frame + 1
  table : TableStep shift lt g s s'
  hmms : HmmsStep lt g s s'

def stepRelB (shift : Nat) (lt : LexTree) (g : Fsg) (s s' : SState) : Bool :=
  decide (s'.frame = s.frame + 1) && tableStepB shift lt g s s' && decide (HmmsStep lt g s s')

/-! ### `fsg_search_start` and `fsg_search_finish` -/

/-- everything inactive: what `fsg_search_start` asserts (`pnode_active == NULL`) and relies on (it
initialises nothing in the HMMs) -/
def AllCleared (lt : LexTree) (s : SState) : Prop :=
  s.active = [] ∧ s.hmms.size = lt.nodes.size ∧ ∀ p, p < lt.nodes.size → s.hmm p = Hmm.clear lt.nst

instance (lt : LexTree) (s : SState) : Decidable (AllCleared lt s) := by unfold AllCleared; infer_instance

/-- `fsg_search_start` from the all-cleared state `s0`: the table is the dummy root plus any selection of
the null arcs leaving the start state (frame −1: `fsg_history_entry_add` appends them directly); the roots
that `fsg_search_word_trans` entered are the active list, everything else is untouched; `frame = 0`. -/
def PNodeStart (lt : LexTree) (g : Fsg) (s0 s : SState) (p : Nat) : Prop :=
  (p ∉ s.active → s.hmm p = s0.hmm p) ∧
  (p ∈ s.active →
    (s.hmm p).frame = 0 ∧ (s.hmm p).outScore = (s0.hmm p).outScore ∧
    (∀ j, j < lt.nst → 0 < j → (s.hmm p).sc j = (s0.hmm p).sc j) ∧
    0 ≤ (s.hmm p).hi 0 ∧ ((s.hmm p).hi 0).toNat < s.hist.size ∧
    p ∈ lt.roots (dest g (ent s.hist ((s.hmm p).hi 0).toNat)))

instance (lt : LexTree) (g : Fsg) (s0 s : SState) (p : Nat) : Decidable (PNodeStart lt g s0 s p) := by
  unfold PNodeStart; infer_instance

def StartHmms (lt : LexTree) (g : Fsg) (s0 s : SState) : Prop :=
  (s.hmms.size = s0.hmms.size ∧ s.active.Nodup) ∧ (∀ p ∈ s.active, p < lt.nodes.size) ∧
  (∀ p, p < lt.nodes.size → PNodeStart lt g s0 s p)

instance (lt : LexTree) (g : Fsg) (s0 s : SState) : Decidable (StartHmms lt g s0 s) := by
  unfold StartHmms; infer_instance

/-- the root entry `fsg_search_start` makes (`fsg_history_entry_add(history, NULL, -1, 0, -1, silcipid, ctxt)`):
no link, frame −1, score 0, no predecessor (`lc` = the silence phone, `rc` = all contexts) -/
def IsDummy (e : Entry) : Prop := e.link = none ∧ e.frame = -1 ∧ e.pred = -1 ∧ e.score = 0

instance (e : Entry) : Decidable (IsDummy e) := by unfold IsDummy; infer_instance

structure StartRel (shift : Nat) (lt : LexTree) (g : Fsg) (s0 s : SState) : Prop where
  frame : s.frame = 0
  table : ∃ (d0 : Entry) (nulls : List Entry), s.hist = nulls.foldl Array.push #[d0] ∧ IsDummy d0 ∧
    ∀ e ∈ nulls, NullOK shift g #[d0] 0 e
  hmms : StartHmms lt g s0 s

def startRelB (shift : Nat) (lt : LexTree) (g : Fsg) (s0 s : SState) : Bool :=
  let d0 := ent s.hist 0
  let nulls := s.hist.toList.drop 1
  decide (s.frame = 0) && decide (s.hist = nulls.foldl Array.push #[d0]) && decide (IsDummy d0) &&
  (nulls.all fun e => decide (NullOK shift g #[d0] 0 e)) && decide (StartHmms lt g s0 s)

/-- `fsg_search_finish`: `fsg_psubtree_pnode_deactivate` (= `hmm_clear`) on every pnode of the active list
(`pnode_active_next` is NULL between frames), the lists freed; table and frame counter stay -/
def finish (lt : LexTree) (s : SState) : SState :=
  { s with hmms := ((List.range s.hmms.size).map fun p => if p ∈ s.active then Hmm.clear lt.nst else s.hmm p).toArray,
           active := [] }

end SSVerif.Search
