import SSVerif.Generated.TextInConsts
/-!
# M16/M17 — text tokenisers over an untrusted byte buffer (C10)

Index-based model of the text side of `src/s3file.c` (`s3file_nextline`, `s3file_nextword`,
`s3file_copy_nextword`, lines 165-218) and of the C library number scanners the text readers
call on the tokens (`strtol(…, 10)`, `sscanf("%ld")`, `atof`).  Core Lean only.

The buffer is `[buf, end)` = `Array UInt8`; a pointer is an index `≤ buf.size`.  **Every read of
the buffer in this file and in the readers built on it is `buf[i]'h` with a proof `h : i < buf.size`**
— there is no `get!`, `getD` or `[i]?` on the input buffer — so a model that type-checks reads only
inside `[buf, end)`.  Spans returned by the scanners carry their bounds (`Span n`: `lo < hi ≤ n`).

Where the pinned C code reads outside the buffer the model is of the *repaired* code and says so:
`strtol`/`atof` applied to a token that is not NUL-terminated (`fsg_model.c`, D30) and
`strncmp(line, "##", 2)` on a one-byte last line (`dict.c`, D31).
-/
namespace SSVerif.TextIn

abbrev Buf := Array UInt8

/-- `isspace_c` (`strfuncs.c:52`): `strchr(" \t\n\r\v\f", ch) != NULL`.  `strchr` finds the
terminating NUL of its first argument, so **NUL is white space** for the tokeniser. -/
def isSpaceC (b : UInt8) : Bool :=
  Generated.TextIn.isspaceChars.contains b || b == 0

/-- `isspace` of the C locale (what `strtol`/`strtod`/`scanf` skip): space and `\t \n \v \f \r`. -/
def isSpaceLibc (b : UInt8) : Bool := b == 32 || (9 ≤ b && b ≤ 13)

def isDigit (b : UInt8) : Bool := 48 ≤ b && b ≤ 57

/-- a non-empty range `[lo, hi)` of a buffer of `n` bytes -/
structure Span (n : Nat) where
  lo : Nat
  hi : Nat
  lt : lo < hi
  le : hi ≤ n

/-- first index in `[p, e)` whose byte satisfies `stop`, else `e` (for `p ≤ e`); the shape of every
`for (…; ptr < end && !stop(*ptr); ++ptr)` loop of `s3file.c` -/
def scanTo (buf : Buf) (stop : UInt8 → Bool) (p e : Nat) (he : e ≤ buf.size) : Nat :=
  if h : p < e then
    if stop (buf[p]'(Nat.lt_of_lt_of_le h he)) then p else scanTo buf stop (p + 1) e he
  else p
termination_by e - p

theorem scanTo_ge (buf : Buf) (stop) (p e he) : p ≤ scanTo buf stop p e he := by
  fun_induction scanTo buf stop p e he with
  | case1 => exact Nat.le_refl _
  | case2 p h _ ih => exact Nat.le_trans (Nat.le_succ p) ih
  | case3 => exact Nat.le_refl _

theorem scanTo_le (buf : Buf) (stop) (p e he) (hp : p ≤ e) : scanTo buf stop p e he ≤ e := by
  fun_induction scanTo buf stop p e he with
  | case1 p h _ => exact hp
  | case2 p h _ ih => exact ih h
  | case3 p h => exact hp

/-- the scan stops on a byte satisfying `stop` unless it ran into the bound -/
theorem scanTo_stop (buf : Buf) (stop) (p e he) (h : scanTo buf stop p e he < e) :
    stop (buf[scanTo buf stop p e he]'(Nat.lt_of_lt_of_le h he)) = true := by
  fun_induction scanTo buf stop p e he with
  | case1 p hp hs => exact hs
  | case2 p hp hs ih => exact ih h
  | case3 p hp => exact absurd h hp

/-- every byte skipped by the scan fails `stop` -/
theorem scanTo_skipped (buf : Buf) (stop) (p e he) (i : Nat) (h1 : p ≤ i)
    (h2 : i < scanTo buf stop p e he) (hi : i < buf.size) : stop (buf[i]'hi) = false := by
  fun_induction scanTo buf stop p e he with
  | case1 p hp hs => omega
  | case2 p hp hs ih =>
    by_cases hpi : p = i
    · subst hpi; simpa using hs
    · exact ih (by omega) h2
  | case3 p hp => omega

/-- `s3file_nextline` (s3file.c:165-178): `none` at end of buffer, else the line starting at `ptr`
up to and including its `'\n'` (or up to `end` when the last line is unterminated).  The new
`s->ptr` is `hi`, which is also the bound `end = s->ptr` that `s3file_nextword(s, &ptr)` uses for
the words of this line. -/
def nextLine (buf : Buf) (ptr : Nat) : Option (Span buf.size) :=
  if h : ptr < buf.size then
    let e := scanTo buf (· == 10) ptr buf.size (Nat.le_refl _)
    have hge : ptr ≤ e := scanTo_ge ..
    have hle : e ≤ buf.size := scanTo_le _ _ _ _ _ (Nat.le_of_lt h)
    if h2 : e < buf.size then some ⟨ptr, e + 1, by omega, by omega⟩
    else some ⟨ptr, e, by omega, hle⟩
  else none

theorem nextLine_lo (buf : Buf) (ptr : Nat) (l : Span buf.size) (h : nextLine buf ptr = some l) :
    l.lo = ptr := by
  unfold nextLine at h
  split at h
  · simp only at h; split at h <;> (injection h with h; subst h; rfl)
  · cases h

/-- `s3file_nextword(s, &ptr)` with the line bound `e` (s3file.c:180-202): skip white space, then
the word is the maximal run of non-space bytes; `none` when only white space is left before `e`.
Returns the word; the new `*ptr` is its `hi`.  (The third loop of the C function computes
`endspace` and discards it.) -/
def nextWord (buf : Buf) (p e : Nat) (he : e ≤ buf.size) : Option (Span buf.size) :=
  if hp : p < e then
    let w := scanTo buf (fun b => !isSpaceC b) p e he
    have hw : w ≤ e := scanTo_le _ _ _ _ _ (Nat.le_of_lt hp)
    if h : w < e then
      let q := scanTo buf isSpaceC (w + 1) e he
      have hq1 : w + 1 ≤ q := scanTo_ge ..
      have hq2 : q ≤ e := scanTo_le _ _ _ _ _ h
      some ⟨w, q, by omega, by omega⟩
    else none
  else none

/-- the word lies inside `[p, e)`: the tokeniser never hands out bytes beyond the line bound -/
theorem nextWord_within (buf : Buf) (p e he) (w : Span buf.size) (h : nextWord buf p e he = some w) :
    p ≤ w.lo ∧ w.hi ≤ e := by
  unfold nextWord at h
  split at h
  · simp only at h
    split at h
    · injection h with h; subst h
      exact ⟨scanTo_ge .., scanTo_le _ _ _ _ _ (by assumption)⟩
    · cases h
  · cases h

/-- all lines from `ptr` on (`while ((line = s3file_nextline(s)) != NULL)`) -/
def allLines (buf : Buf) (ptr : Nat) : List (Span buf.size) :=
  match h : nextLine buf ptr with
  | none => []
  | some l => l :: allLines buf l.hi
termination_by buf.size - ptr
decreasing_by
  have := nextLine_lo buf ptr l h
  have := l.lt; have := l.le
  omega

/-- all words of `[p, e)` (`while (s3file_nextword(s, &ptr))`) -/
def wordsFrom (buf : Buf) (p e : Nat) (he : e ≤ buf.size) : List (Span buf.size) :=
  match h : nextWord buf p e he with
  | none => []
  | some w => w :: wordsFrom buf w.hi e he
termination_by e - p
decreasing_by
  have := nextWord_within buf p e he w h
  have := w.lt
  omega

/-- the words of a line, bounded by the line's own end (`end = s->ptr`) -/
def lineWords (buf : Buf) (l : Span buf.size) : List (Span buf.size) := wordsFrom buf l.lo l.hi l.le

/-- bytes `[lo, hi)` of the buffer, each read with its bound proof (`s3file_copy_nextword`'s memcpy) -/
def sliceGo (buf : Buf) (lo hi : Nat) (h : hi ≤ buf.size) (acc : List UInt8) : List UInt8 :=
  if hl : lo < hi then
    sliceGo buf lo (hi - 1) (by omega) (buf[hi - 1]'(by omega) :: acc)
  else acc
termination_by hi - lo

def slice (buf : Buf) (s : Span buf.size) : List UInt8 := sliceGo buf s.lo s.hi s.le []

/-- first byte of a span (`*line`, `*word`) -/
def Span.first {buf : Buf} (s : Span buf.size) : UInt8 := buf[s.lo]'(Nat.lt_of_lt_of_le s.lt s.le)

/-! ## C library number scanners, on a NUL-terminated copy of a token (`List UInt8`, no NUL inside) -/

def dropSpaceLibc : List UInt8 → List UInt8
  | [] => []
  | b :: r => if isSpaceLibc b then dropSpaceLibc r else b :: r

def digitsVal (acc : Nat) : List UInt8 → Nat × List UInt8
  | [] => (acc, [])
  | b :: r => if isDigit b then digitsVal (10 * acc + (b.toNat - 48)) r else (acc, b :: r)

def longMax : Int := 9223372036854775807
def longMin : Int := -9223372036854775808

/-- clamp to the range of `long` (what glibc `strtol` returns on overflow, with `ERANGE`) -/
def satLong (v : Int) : Int := if v > longMax then longMax else if v < longMin then longMin else v

/-- `(int)` conversion of a `long` on the targets of this code base: two's-complement truncation -/
def wrap32 (v : Int) : Int :=
  let m := v % 4294967296
  if m ≥ 2147483648 then m - 4294967296 else m

/-- `strtol(s, &endptr, 10)`: `none` is `endptr == s` (no digits); the value is clamped to `long`.
Also the conversion `sscanf(s, "%ld", …)` performs (`none` = return value ≠ 1). -/
def strtol10 (s : List UInt8) : Option Int :=
  let s := dropSpaceLibc s
  let (neg, s) := match s with
    | 45 :: r => (true, r)
    | 43 :: r => (false, r)
    | _ => (false, s)
  match s with
  | b :: _ =>
    if isDigit b then
      let v : Int := (digitsVal 0 s).1
      some (satLong (if neg then -v else v))
    else none
  | [] => none

/-- value of a floating literal, exactly: `mant * base ^ exp` with sign, or NaN/∞ -/
inductive FloatLit where
  | nan
  | inf (neg : Bool)
  | fin (neg : Bool) (mant : Nat) (ten : Bool) (exp : Int)
deriving Repr, DecidableEq, Inhabited

def FloatLit.zero : FloatLit := .fin false 0 true 0

def lower (b : UInt8) : UInt8 := if 65 ≤ b && b ≤ 90 then b + 32 else b

def hexVal? (b : UInt8) : Option Nat :=
  if isDigit b then some (b.toNat - 48)
  else if 97 ≤ lower b && lower b ≤ 102 then some ((lower b).toNat - 87) else none

/-- digits in base 10 or 16: returns (value, number of digits, rest) -/
def mantDigits (hex : Bool) (acc n : Nat) : List UInt8 → Nat × Nat × List UInt8
  | [] => (acc, n, [])
  | b :: r =>
    if hex then
      match hexVal? b with
      | some d => mantDigits hex (16 * acc + d) (n + 1) r
      | none => (acc, n, b :: r)
    else if isDigit b then mantDigits hex (10 * acc + (b.toNat - 48)) (n + 1) r
    else (acc, n, b :: r)

/-- optional exponent part `[eE]|[pP] [+-]? digits`; consumed only when a digit follows -/
def expPart (marker : UInt8) : List UInt8 → Int
  | m :: r =>
    if lower m == marker then
      let (neg, r) := match r with
        | 45 :: r' => (true, r')
        | 43 :: r' => (false, r')
        | _ => (false, r)
      match r with
      | b :: _ => if isDigit b then
          let v : Int := (digitsVal 0 r).1
          if neg then -v else v
        else 0
      | [] => 0
    else 0
  | [] => 0

/-- mantissa `digits [. digits]` in the given base: (value of all digits, #digits, #fraction digits, rest) -/
def mantissa (hex : Bool) (s : List UInt8) : Nat × Nat × Nat × List UInt8 :=
  let (m1, n1, r1) := mantDigits hex 0 0 s
  match r1 with
  | 46 :: r2 =>
    let (m2, n2, r3) := mantDigits hex m1 0 r2
    (m2, n1 + n2, n2, r3)
  | _ => (m1, n1, 0, r1)

def startsWithCI (pat : List UInt8) : List UInt8 → Bool
  | s => (s.take pat.length).map lower == pat && pat.length ≤ s.length

/-- `atof(s)` = `strtod(s, NULL)` of glibc in the C locale, as an exact value: leading white
space, sign, then `inf[inity]`, `nan[(…)]`, a hexadecimal (`0x…[p±d]`) or decimal (`…[e±d]`)
literal — the longest valid prefix; no conversion gives `+0`. -/
def atofLit (s : List UInt8) : FloatLit :=
  let s := dropSpaceLibc s
  let (neg, s) := match s with
    | 45 :: r => (true, r)
    | 43 :: r => (false, r)
    | _ => (false, s)
  if startsWithCI [105, 110, 102] s then .inf neg
  else if startsWithCI [110, 97, 110] s then .nan
  else
    let hexBody : Option (List UInt8) := match s with
      | 48 :: x :: r => if lower x == 120 then some r else none
      | _ => none
    let dec : FloatLit :=
      let (m, n, nf, r) := mantissa false s
      if n == 0 then .zero  -- no conversion (also "-" alone): strtod returns 0 (sign irrelevant here)
      else .fin neg m true (expPart 101 r - nf)
    match hexBody with
    | some r0 =>
      let (m, n, nf, r) := mantissa true r0
      if n == 0 then dec   -- "0x" not followed by a hex digit: the "0" is the number
      else .fin neg m false (expPart 112 r - 4 * nf)
    | none => dec

end SSVerif.TextIn
