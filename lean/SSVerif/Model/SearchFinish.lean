import SSVerif.Model.SearchScore
/-!
# The end of an utterance and the start of the next one on the same search object (`fsg_search_finish`, `fsg_search_start`)

The lextree and its HMMs are built once per grammar (`fsg_search_reinit`) and live across utterances: `fsg_search_start`
re-initialises the history table, the beams and the frame counter but **not** the HMMs — it relies on `fsg_search_finish`
(src/fsg_search.c 808-827) having called `hmm_clear` on every pnode that is on `pnode_active` or `pnode_active_next`, and on
every HMM that is on neither list being in the cleared state already (the per-frame deactivation loop of `fsg_search_step`).
`Model/SearchScore.lean` starts every utterance from an all-cleared array; this file models the carry-over so that the
assumption becomes a theorem (`Props/C02Finish.lean`).  Core Lean only.
-/
namespace SSVerif.SearchScore
open SSVerif.Search SSVerif.Hist SSVerif.Hmm SSVerif.Viterbi
open SSVerif.FlatNet (shiftS)

/-- the search object as `fsg_search_init` / `fsg_lextree_init` leave it (`hmm_init` ends in `hmm_clear`; both active
lists `NULL`) -/
def freshSearch (E : Env) : SSB :=
  { s := { hmm := (List.replicate E.n inact).toArray, out := (List.replicate E.n none).toArray, old := [], cur := [],
           frame := 0, best := none },
    act := (List.replicate E.n false).toArray }

/-- **`fsg_search_finish`** (812-827): `fsg_psubtree_pnode_deactivate` = `hmm_clear` on every pnode of the two active lists
(between two frames `pnode_active_next` has just become `pnode_active`: the list is `act`), every other HMM is left as it
is; both lists are freed.  The history table stays (the result is read from it afterwards). -/
def searchFinish (E : Env) (sb : SSB) : SSB :=
  { s := { sb.s with
           hmm := ((List.range E.n).map fun p => if sb.act.getD p false then inact else hget sb.s.hmm p).toArray,
           out := ((List.range E.n).map fun p => if sb.act.getD p false then none else sb.s.out.getD p none).toArray },
    act := (List.replicate E.n false).toArray }

/-- **`fsg_search_start`** (751-803) on the search object `prev` as the previous utterance left it: history reset, dummy
entry, null arcs from the start state (`>= wbeam`), root entries (`> beam`, and — `fsg_search_word_trans` 640 — only when
better than the `in_score` the HMM holds: `enter` is a max) written INTO THE HMMS AS THEY ARE; a root whose entry score
changed goes onto the active list.  (The `frame` stamp of an HMM is not modelled: for an HMM left uncleared the real code
additionally keeps it off the list when the stale stamp is not older than the new frame.  `C02_finish_restores_initial`
shows that no reachable history leaves such an HMM.) -/
def searchStartBeamOn (E : Env) (beam wbeam : Int) (prev : SSB) : SSB :=
  let d := dummyTok E
  let nulls := ((nullFrom E.g d.dst).map fun (lid, l) => (⟨some lid, l.dst, -1, d.score + shiftS l.logp, d.lc, d.rc⟩ : Tok)).filter
    fun tk => decide (tk.score ≥ wbeam)
  let cur := d :: nulls
  let wd := (wordRelax E cur).filter fun x => decide (x.2 > beam)
  let h := wd.foldl enter prev.s.hmm
  { s := { hmm := h, out := prev.s.out, old := [], cur := cur, frame := 0, best := some 0 },
    act := ((List.range E.n).map fun p =>
      prev.act.getD p false || decide ((hget h p).s0 ≠ (hget prev.s.hmm p).s0)).toArray }

/-- one utterance (`T` frames with scores `e`) on the search object `prev`: start, `T` steps -/
def runUttOn (E : Env) (beam pbeam wbeam : Int) (prev : SSB) (e : Nat → Nat → Nat → Int) (T : Nat) : SSB :=
  (List.range T).foldl (fun sb t => searchFrameBeam E beam pbeam wbeam (e t) sb) (searchStartBeamOn E beam wbeam prev)

/-- the search object after a history of finished utterances (each: scores and length), oldest first -/
def afterHistory (E : Env) (beam pbeam wbeam : Int) (hist : List ((Nat → Nat → Nat → Int) × Nat)) : SSB :=
  hist.foldl (fun sb u => searchFinish E (runUttOn E beam pbeam wbeam sb u.1 u.2)) (freshSearch E)

/-- the variant of `searchFinish` that clears only the listed HMMs that have been EVALUATED (some state beyond the entry
state, or the exit, holds a score — what `hmm_bestscore > WORST_SCORE` says of an HMM, whose `bestscore` is written by
`hmm_vit_eval` only): NOT what the code does; kept to show (`C02Finish` example) that the theorem separates the two. -/
def searchFinishEvaluatedOnly (E : Env) (sb : SSB) : SSB :=
  { s := { sb.s with
           hmm := ((List.range E.n).map fun p =>
             if sb.act.getD p false && ((hget sb.s.hmm p).s1.isSome || (hget sb.s.hmm p).s2.isSome || (sb.s.out.getD p none).isSome)
             then inact else hget sb.s.hmm p).toArray },
    act := (List.replicate E.n false).toArray }

end SSVerif.SearchScore
