/-
  M5 + M4 composed: the decoder-level model of `Model/AcmodBuf.lean` with the front end of `Model/FeBuf.lean`
  (c06's model of `fe_process_int16/float32` / `fe_end`, read only) in place of the abstract response lists.

  `Model/AcmodBuf.lean` describes what the front end answers on each call by a list of `FeResp` that the caller of the
  model supplies.  Here nothing is supplied: `acmod_process_raw` / `acmod_process_float32` (acmod.c:528-643) call
  `FeBuf.process` on the samples that are left of the chunk with the output room the cepstrum ring has at that moment
  (`n_mfc_alloc - inptr` inside the `while (inptr + ncep > n_mfc_alloc)` loop, `ncep` for the last call), and
  `acmod_end_utt` (acmod.c:371-402) calls `FeBuf.finish` with the room `n_mfc_alloc - inptr` — and only when
  `n_mfc_frame < n_mfc_alloc`, exactly as the code does.  The functions below are the functions `rawLoop`, `processRaw`,
  `decLoop`, `decProcess` of M5 with `popResp` replaced by that call; each also returns the list of responses it met, so
  that the simulation theorem (`Proofs/AcmodFe.lean`) can say: the acoustic-model state is the one M5 computes on exactly
  these responses.

  Samples are represented by their position in the stream (`Nat`), as in the theorems of `Proofs/FeBuf.lean`; the `k`-th
  chunk of `n` samples is `List.range' pos n`.  Core Lean only.
-/
import SSVerif.Model.AcmodBuf
import SSVerif.Model.FeBuf

namespace SSVerif.AcmodFe

open SSVerif.AcmodBuf SSVerif.FeBuf SSVerif.Generated

/-- acoustic model + front end + the part of the current chunk not yet consumed -/
structure FS where
  st : St
  fe : Fe Nat
  /-- `*inout_raw_data .. + *inout_n_samps` of the current `decoder_process_*` call -/
  buf : List Nat
  /-- stream position after the chunks handed in so far -/
  pos : Nat
  /-- the front end would read outside its buffers (`FeBuf.process = none`; never, see the theorems) -/
  feBad : Bool
  /-- observation log, newest first: per `fe_process_*` call (room offered, frames yielded, samples left), per `fe_end`
      call (room offered, frames yielded, 0) — what `harness/h_c07.c` logs as `fe=<lim>:<nvec>:<left>` -/
  calls : List (Nat × Nat × Nat)

/-- one `fe_process_int16/float32(fe, &data, &n_samples, mfc_buf + inptr, lim)` call: the frames it yields and whether
    samples are left (`n_samples > 0` afterwards) -/
def feCall (cfg : Cfg) (x : FS) (lim : Nat) : FS × FeResp :=
  match process cfg x.fe x.buf lim with
  | some (fe', used, nfr) =>
    ({ x with fe := fe', buf := x.buf.drop used, calls := (lim, nfr, x.buf.length - used) :: x.calls },
     ⟨nfr, decide (used < x.buf.length)⟩)
  | none => ({ x with feBad := true }, ⟨0, false⟩)

structure RawS where
  x : FS
  more : Bool
  inptr : Nat
  ncep : Nat
  done : Bool
  /-- the front-end responses of this stretch, in call order -/
  rs : List FeResp

/-- `rawLoop` of M5 with the front end inside: the room handed to `fe_process` is `n_mfc_alloc - inptr` -/
def rawLoopS (cfg : Cfg) : Nat → FS → Nat → Nat → Bool → RawS
  | 0, x, inptr, ncep, more =>
    ⟨{ x with st := fail "acmod_process_raw loop does not terminate" x.st }, more, inptr, ncep, true, []⟩
  | fuel + 1, x, inptr, ncep, more =>
    if inptr + ncep > x.st.nMfcAlloc then
      let lim := x.st.nMfcAlloc - inptr
      let c := feCall cfg x lim
      let nvec := min c.2.nvec lim
      let s := feWrite nvec inptr c.1.st
      let s : St := { s with nMfcFrame := s.nMfcFrame + nvec }
      if nvec = 0 then ⟨{ c.1 with st := s }, c.2.more, inptr, ncep, true, [c.2]⟩
      else
        let R := rawLoopS cfg fuel { c.1 with st := s } ((inptr + nvec) % s.nMfcAlloc) (ncep - nvec) c.2.more
        { R with rs := c.2 :: R.rs }
    else ⟨x, more, inptr, ncep, false, []⟩

structure ProcS where
  x : FS
  more : Bool
  rs : List FeResp

/-- `processRaw` of M5 with the front end inside: the room of the last call is `ncep`, the free slots of the ring -/
def processRawS (cfg : Cfg) (fixD8 : Bool) (win : Nat) (skip : Nat → Bool) (x : FS) : ProcS :=
  let ncep := x.st.nMfcAlloc - x.st.nMfcFrame
  let inptr := (x.st.mfcOutidx + x.st.nMfcFrame) % x.st.nMfcAlloc
  let R := rawLoopS cfg (ncep + 1) x inptr ncep true
  let P : ProcS :=
    if R.done then ⟨R.x, R.more, R.rs⟩ else
      let c := feCall cfg R.x R.ncep
      let nvec := min c.2.nvec R.ncep
      let s := feWrite nvec R.inptr c.1.st
      ⟨{ c.1 with st := { s with nMfcFrame := s.nMfcFrame + nvec } }, c.2.more, R.rs ++ [c.2]⟩
  ⟨{ P.x with st := (processMfcbuf fixD8 win skip P.x.st).st }, P.more, P.rs⟩

structure LoopS where
  x : FS
  rs : List FeResp
  /-- iterations of the `while (n_samples)` loop -/
  iters : Nat

/-- `decLoop` of M5 with the front end inside -/
def decLoopS (cfg : Cfg) (fixD8 : Bool) (win : Nat) (skip : Nat → Bool) (noSearch : Bool) : Nat → FS → LoopS
  | 0, x => ⟨{ x with st := fail "decoder_process loop does not terminate" x.st }, [], 0⟩
  | fuel + 1, x =>
    let r := processRawS cfg fixD8 win skip x
    let x1 : FS := { r.x with st := if noSearch then r.x.st else searchForward r.x.st }
    if r.more then
      let L := decLoopS cfg fixD8 win skip noSearch fuel x1
      ⟨L.x, r.rs ++ L.rs, L.iters + 1⟩
    else ⟨x1, r.rs, 1⟩

/-- `decoder_process_int16/float32(d, data, n, no_search, 0)`: the chunk is the next `n` samples of the stream.
    Every `acmod_process_raw` call with samples left consumes at least one, so `n + 1` iterations are enough. -/
def decProcessS (cfg : Cfg) (fixD8 : Bool) (win : Nat) (skip : Nat → Bool) (x : FS) (noSearch : Bool) (n : Nat) :
    FS × List FeResp :=
  if x.st.state = .idle then (x, []) else
  let x : FS := { x with st := if noSearch then setGrow x.st true else x.st }
  if n = 0 then (x, []) else
  let L := decLoopS cfg fixD8 win skip noSearch (n + 1) { x with buf := List.range' x.pos n, pos := x.pos + n }
  (L.x, L.rs)

/-- `decoder_end_utt`: `acmod_end_utt` calls `fe_end(fe, mfc_buf + inptr, n_mfc_alloc - inptr)` when the ring is not
    full (acmod.c:380-388) and does not call it at all otherwise; the rest is `decEnd` of M5 with `tail` = whether
    `fe_end` returned a frame. -/
def decEndS (cfg : Cfg) (fixD8 : Bool) (win : Nat) (skip : Nat → Bool) (x : FS) : FS × Bool :=
  if x.st.state = .ended ∨ x.st.state = .idle then (x, false) else
  if x.st.nMfcFrame < x.st.nMfcAlloc then
    let inptr := (x.st.mfcOutidx + x.st.nMfcFrame) % x.st.nMfcAlloc
    match finish cfg x.fe (x.st.nMfcAlloc - inptr) with
    | some (fe', n) =>
      ({ x with fe := fe', st := decEnd fixD8 win skip x.st (decide (0 < n)),
                calls := (x.st.nMfcAlloc - inptr, n, 0) :: x.calls }, decide (0 < n))
    | none => ({ x with feBad := true }, false)
  else ({ x with st := decEnd fixD8 win skip x.st false }, false)

/-- one API call on samples -/
inductive OpS
  /-- `decoder_process_int16/float32(d, data, n, no_search, 0)` on the next `n` samples -/
  | process (noSearch : Bool) (n : Nat)
  | query
  | align (steps : Option Nat)
deriving Repr, Inhabited

def OpS.samples : OpS → Nat
  | .process _ n => n
  | _ => 0

/-- a step returns the M5 operation it amounts to (the responses the front end gave) -/
def stepS (cfg : Cfg) (fixD8 : Bool) (win : Nat) (skip : Nat → Bool) (x : FS) : OpS → FS × Op
  | .process ns n =>
    if x.st.state = .ended then
      ({ x with st := fail "decoder_process after decoder_end_utt" x.st }, .process ns [])
    else
      let r := decProcessS cfg fixD8 win skip x ns n
      (r.1, .process ns r.2)
  | .query => (x, .query)
  | .align none => (x, .align none)
  | .align (some upto) => ({ x with st := alignPass x.st upto }, .align (some upto))

def runOpsS (cfg : Cfg) (fixD8 : Bool) (win : Nat) (skip : Nat → Bool) : FS → List OpS → FS × List Op
  | x, [] => (x, [])
  | x, op :: ops =>
    let r := stepS cfg fixD8 win skip x op
    let R := runOpsS cfg fixD8 win skip r.1 ops
    (R.1, r.2 :: R.2)

/-- `decoder_start_utt`: `acmod_start_utt` + `fe_start` -/
def startS (s0 : St) : FS := ⟨startUtt s0, start, [], 0, false, []⟩

/-- a whole utterance on samples: start, calls while it is open, end, calls on the final result -/
def runUttS (cfg : Cfg) (fixD8 : Bool) (win : Nat) (skip : Nat → Bool) (s0 : St) (ops : List OpS) (post : List Op) : FS :=
  let R := runOpsS cfg fixD8 win skip (startS s0) ops
  let E := decEndS cfg fixD8 win skip R.1
  { E.1 with st := runOps fixD8 win skip E.1.st post }

end SSVerif.AcmodFe
