import SSVerif.Model.S3file
/-!
# The topology checks of `tmat_init_s3file` on the zero pattern of the matrices

`tmat_chk_uppertri` / `tmat_chk_1skip` (tmat.c:66-103) test `tp[i][src][dst] < 255` on the quantised log
probabilities.  Floats are not reasoned about in this project; what is modelled is the part that depends only on
WHICH file entries are zero.  For a file entry `x` read as float32, after `vector_sum_norm`, `vector_nz_floor`
(floor 1e-4 applied to non-zero entries only), `vector_sum_norm` and `-logmath_log(x) >> SENSCR_SHIFT` clamped
to 255:
* `x = +0.0` stays `0.0` and quantises to 255 (not `< 255`);
* a positive `x` with exponent in `[2^-20, 2^21)` stays non-zero (rows have at most 32767 entries, so no
  quotient under- or overflows), is at least `1e-4 / (1 + 32767e-4)` after flooring and renormalising, and
  quantises to at most 106 (`< 255`).
Any other bit pattern (negative, `-0.0`, tiny, huge, infinite, NaN) is OUTSIDE this model: `undecided`.
No theorem is stated about this file; it exists so that the generated cases which fail the topology checks
reach the `TmatStage.topology` ledger and are compared with the real allocation trace.
-/
namespace SSVerif.S3file

/-- 0 = `+0.0`; 1 = positive, `2^-20 ≤ x < 2^21`; 2 = outside the modelled domain -/
def f32Class (w : Nat) : Nat :=
  if w = 0 then 0 else if 0x35800000 ≤ w ∧ w < 0x4A000000 then 1 else 2

inductive TopoRes where
  | ok | notUpper | notBakis | undecided
deriving Repr, DecidableEq

/-- class of the file entry `tp[i][src][dst]` (`n_dst = nS + 1`), `dataOff` = offset of the first float -/
def tmatCellClass (f : File) (swap : Bool) (dataOff nS i src dst : Nat) : Nat :=
  f32Class (valAt f (dataOff + 4 * ((i * nS + src) * (nS + 1) + dst)) 4 swap)

def tmatTopology (f : File) (swap : Bool) (dataOff nT nS : Nat) : TopoRes :=
  let cls := tmatCellClass f swap dataOff nS
  let all3 := (List.range nT).flatMap fun i => (List.range nS).flatMap fun src =>
    (List.range (nS + 1)).map fun dst => (i, src, dst)
  if all3.any (fun (i, src, dst) => cls i src dst = 2) then .undecided
  -- tmat_chk_uppertri: dst < src < n_state
  else if all3.any (fun (i, src, dst) => dst < src ∧ cls i src dst ≠ 0) then .notUpper
  -- tmat_chk_1skip: src + 3 ≤ dst ≤ n_state
  else if all3.any (fun (i, src, dst) => src + 3 ≤ dst ∧ cls i src dst ≠ 0) then .notBakis
  else .ok

/-- `tmat_init_s3file` including the topology checks, on the modelled float domain (`undecided` → as `tmatPlan`) -/
def tmatPlanTopo (f : File) : Res TmatOut := do
  let o ← tmatPlan f
  let s ← parseHeader (S.init f)
  match tmatTopology f s.swap (s.ptr + 16) o.nTmat o.nState with
  | .notUpper => .reject "Tmat not upper triangular"
  | .notBakis => .reject "Topology not Left-to-Right or Bakis"
  | _ => .ok o

end SSVerif.S3file
