import SSVerif.Model.TextDict
import SSVerif.Model.Dict
/-!
# M17b — the dictionary text reader feeding the dictionary object (bridge C10 → C16)

`loadDict` is `dict_init_s3file` (`src/dict.c:258-372`) put together from the two existing models:

* the **byte side** is C10's tokeniser model (`Model/TextIn.lean`): `allLines` = the
  `while (s3file_nextline)` loop, `isDictComment` = `dict_comment_line` (dict.c:176-182),
  `lineWords` = the `s3file_nextword` count loop, `slice` = `s3file_copy_nextword`;
* the **object side** is C16's dictionary model (`Model/Dict.lean`): `dictAddWord` = `dict_add_word`
  (dict.c:71-143) with its hash map, base-word lookup for `word(n)` alternates, alt-chain linking,
  growth step; `addIfMissing`, `Dict.isFiller` for the tail of `dict_init_s3file`.

`loadLineR` is one iteration of the loop of `dict_read_s3file` (dict.c:184-256); besides the new
dictionary it returns what the line did (`LineRes`) — the model's own account of which lines were
loaded with which id and which were refused and why (the C code reports the same by `E_ERROR`
messages, which the check counts).  Core Lean only.
-/
namespace SSVerif.DictLoad
open SSVerif.HashTable (Key)
open SSVerif.Dict
open SSVerif.TextIn (Buf Span allLines lineWords slice isDictComment)

/-- `MAX_S3WID` (`include/soundswallower/s3types.h:96`, `(int32)0x7ffffffe`); the check re-reads the
header and compares -/
def maxS3wid : Nat := 0x7ffffffe

/-- what one line of a dictionary file did -/
inductive LineRes where
  /-- `##…` / `;;…` -/
  | comment
  /-- no word on the line -/
  | blank
  /-- "No pronunciation for word" -/
  | noPron
  /-- "Phone … is missing in the acoustic model" -/
  | badPhone
  /-- `dict_add_word` returned `BAD_S3WID`: alternate without base word ("Missing base word",
  `noBase = true`), else duplicate spelling (or empty word) -/
  | refused (word : Key) (noBase : Bool)
  /-- entered with this word id, spelling and phone ids -/
  | loaded (wid : Nat) (word : Key) (pron : List Nat)
deriving Repr, DecidableEq, Inhabited

def LineRes.isLoaded : LineRes → Bool
  | .loaded .. => true
  | _ => false

/-- `dict_ciphone_id` (dict.c:52-59) -/
def phoneIdOf (m : Mdef) (nocase : Bool) : Key → Option Nat :=
  if nocase then m.ciphoneIdNocase else m.ciphoneId

/-- one iteration of the `while ((ptr = line = s3file_nextline(dict)) != NULL)` loop of
`dict_read_s3file` (dict.c:198-249) -/
def loadLineR (m : Mdef) (buf : Buf) (d : Dict) (l : Span buf.size) : Dict × LineRes :=
  if isDictComment buf l then (d, .comment)
  else match lineWords buf l with
    | [] => (d, .blank)
    | [_] => (d, .noPron)
    | w :: ps =>
      match mapIds (phoneIdOf m d.nocase) (ps.map (slice buf)) with
      | none => (d, .badPhone)
      | some ids =>
        let r := dictAddWord d (slice buf w) ids
        match r.2 with
        | none => (r.1, .refused (slice buf w) (findBase d (slice buf w)).isNone)
        | some i => (r.1, .loaded i (slice buf w) ids)

/-- the loop over the given lines; the report has one entry per line, in order -/
def loadLines (m : Mdef) (buf : Buf) : Dict → List (Span buf.size) → Dict × List LineRes
  | d, [] => (d, [])
  | d, l :: ls =>
    let r := loadLineR m buf d l
    let r' := loadLines m buf r.1 ls
    (r'.1, r.2 :: r'.2)

/-- `dict_read_s3file(d, file)` -/
def loadFile (m : Mdef) (buf : Buf) (d : Dict) : Dict × List LineRes := loadLines m buf d (allLines buf 0)

/-- `dict_read_s3file` when the file is given (`if (dict)`) -/
def loadOpt (m : Mdef) (b : Option Buf) (d : Dict) : Dict × List LineRes :=
  match b with
  | none => (d, [])
  | some buf => loadFile m buf d

/-- the counting pass at the head of `dict_init_s3file` (dict.c:271-286): lines that are not comments -/
def nLines (b : Option Buf) : Nat :=
  match b with
  | none => 0
  | some buf => ((allLines buf 0).filter fun l => !isDictComment buf l).length

inductive LoadErr where
  | tooMany | startInMain | finishInMain | silInMain | silNotFiller
deriving Repr, DecidableEq, Inhabited

/-- the tail of `dict_init_s3file` (dict.c:340-366): `<s>`, `</s>`, `<sil>` added with the silence
phone when missing, filler range closed, distinguished ids looked up, `<sil>` must be a filler -/
def finish (m : Mdef) (d3 : Dict) : Option Dict :=
  let d4 := addIfMissing m (addIfMissing m (addIfMissing m d3 Generated.s3StartWord) Generated.s3FinishWord)
    Generated.s3SilenceWord
  let d5 := { d4 with fillerEnd := d4.words.length - 1, startwid := d4.wordid Generated.s3StartWord,
                      finishwid := d4.wordid Generated.s3FinishWord, silwid := d4.wordid Generated.s3SilenceWord }
  if d5.fillerStart > d5.fillerEnd then none else
  match d5.silwid with
  | none => none
  | some s => if d5.isFiller s then some d5 else none

/-- the empty dictionary `dict_init_s3file` allocates (dict.c:292-313) -/
def initial (nocase : Bool) (main fdict : Option Buf) : Dict :=
  let n := nLines main + nLines fdict
  Dict.empty nocase (if n + Generated.s3dictIncSz < maxS3wid then n + Generated.s3dictIncSz else maxS3wid)

/-- the dictionary after the main file -/
def afterMain (m : Mdef) (nocase : Bool) (main fdict : Option Buf) : Dict × List LineRes :=
  loadOpt m main (initial nocase main fdict)

/-- `d->filler_start = d->n_word`, then the filler file -/
def afterFiller (m : Mdef) (fdict : Option Buf) (d1 : Dict) : Dict × List LineRes :=
  loadOpt m fdict { d1 with fillerStart := d1.words.length }

structure Loaded where
  dict : Dict
  /-- one entry per line of the main file -/
  mainRep : List LineRes
  /-- one entry per line of the filler file -/
  fillerRep : List LineRes
deriving Repr

/-- `dict_init_s3file(config, mdef, dict, fdict)`; `nocase` is the `dictcase` setting -/
def loadDict (m : Mdef) (nocase : Bool) (main fdict : Option Buf) : Except LoadErr Loaded :=
  if nLines main + nLines fdict ≥ maxS3wid then .error .tooMany else
  let r1 := afterMain m nocase main fdict
  if r1.1.wordid Generated.s3StartWord ≠ none then .error .startInMain
  else if r1.1.wordid Generated.s3FinishWord ≠ none then .error .finishInMain
  else if r1.1.wordid Generated.s3SilenceWord ≠ none then .error .silInMain
  else
    let r2 := afterFiller m fdict r1.1
    match finish m r2.1 with
    | none => .error .silNotFiller
    | some d => .ok { dict := d, mainRep := r1.2, fillerRep := r2.2 }

/-! ## file loads interleaved with run-time additions -/

/-- an event in the life of a dictionary object: a file read into it (`dict_read_s3file`, as the
filler pass does on the non-empty dictionary) or an API operation of C16's history model -/
inductive Ev where
  | file (buf : Buf)
  | op (o : Op)

def stepEv (m : Mdef) (d : Dict) : Ev → Dict
  | .file buf => (loadFile m buf d).1
  | .op o => (step m d o).1

def runEv (m : Mdef) (d : Dict) (evs : List Ev) : Dict := evs.foldl (stepEv m) d

/-! ## projection to C10's own dictionary object (`TextIn.Dict`) -/

def projEntry (e : Entry) : TextIn.DictWord := { word := e.word, pron := e.pron, basewid := e.basewid, alt := e.alt }

/-- the C16 object seen as C10's "well-formed internal object" -/
def proj (d : Dict) : TextIn.Dict := { words := d.words.map projEntry, fillerStart := d.fillerStart }

end SSVerif.DictLoad
