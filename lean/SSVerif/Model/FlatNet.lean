import SSVerif.Model.Hmm
import SSVerif.Model.Nfa
import SSVerif.Model.Beam
/-!
# The flat context-dependent network of an FSG search (C02, model M9, layer 2)

What `fsg_lextree.c` + `fsg_search.c` are *supposed* to search, written down without any sharing:
one 3-state HMM instance per (word arc, phone position, left-context variant for position 0,
right-context variant for the last position); every emitting state is a state of the generic `Net`
of `Model/Viterbi.lean`; "exit of an HMM → (at most one null hop) → entry of the next HMM" is
pre-composed into one weighted edge.

Rules (DESIGN §4/C02, each cites the code it is read from):
* costs: a word costs `wip + pronlen·pip + (logs2prob >> SENSCR_SHIFT)` (fsg_lextree.c:421,447,524,567,609:
  root `wip+pip`, internal `pip`, leaf `(logs2prob>>SHIFT)+pip`, single-phone all three); a null arc costs
  `logs2prob >> SENSCR_SHIFT` (fsg_search.c:579) and at most one null arc is followed between two words
  (the FSG holds the transitive closure of its null transitions, fsg_search.c:566-570);
* contexts: the first phone of a multi-phone word uses the triphone (p₀, lc, p₁, BEGIN) for every
  `lc ∈ lcSet(from)`, the last one (p_{n-1}, p_{n-2}, rc, END) for every `rc ∈ rcSet(to)`, internal phones
  (p_k, p_{k-1}, p_{k+1}, INTERNAL); a single-phone word uses (p, lc, SIL, SINGLE) and leaves to every
  right context (fsg_lextree.c:396-399, fsg_search.c:460-479); a filler is context-independent, presents
  SIL to both neighbours and accepts/leaves to everything (fsg_lextree.c:440-459, 129-132);
  `lcSet(s)`/`rcSet(s)` = SIL + last/first phones of the word arcs entering/leaving `s`, extended over one
  null arc (fsg_lextree.c:85-204);
* a cross-word edge leaf(a, rc) → root(b, lc) exists iff `to(a) = from(b)` or a null arc joins them, the
  phone `a` presents is `lc` (or `b` is a filler) and the phone `b` presents is `rc` (or `a` leaves to
  every context) (fsg_search.c:626-660);
* start: the dummy history entry presents SIL and admits every right context (fsg_search.c:769-783);
* end: an alignment may leave through *any* right-context variant of its last word whose arc ends in the
  final state or is joined to it by a null arc (`fsg_search_find_exit` does not look at the context set).

The triphone → senone-sequence map `ssid` is data (dumped by calling `bin_mdef_phone_id_nearest` and
`bin_mdef_pid2ssid` directly), as are the senone sequences and transition matrices.
-/
namespace SSVerif.FlatNet
open SSVerif.Generated.Search SSVerif.Viterbi SSVerif.Hmm

structure Arc where
  src : Nat
  dst : Nat
  /-- `logs2prob` as stored in the `fsg_link_t` (not yet shifted) -/
  logp : Int
  /-- `none` = null transition -/
  wid : Option Nat
deriving Repr, Inhabited

structure Word where
  filler : Bool
  pron : List Nat
deriving Repr, Inhabited

/-- everything the network is built from (one decoded case) -/
structure Model where
  sil : Nat
  start : Nat
  final : Nat
  arcs : List Arc
  word : Nat → Option Word
  /-- `ssid ci lc rc wpos` from `bin_mdef_phone_id_nearest` + `bin_mdef_pid2ssid` -/
  ssid : Nat → Nat → Nat → Nat → Option Nat
  /-- context-independent senone sequence of a phone (`bin_mdef_pid2ssid(mdef, ci)`) -/
  ciSsid : Nat → Option Nat
  /-- `bin_mdef_pid2tmatid(mdef, ci)` -/
  ciTmat : Nat → Option Nat
  wip : Int
  pip : Int

/-- `x >> SENSCR_SHIFT` (arithmetic shift = floor) -/
def shiftS (x : Int) : Int := x >>> senscrShift

structure Inst where
  /-- index of the word arc in `Model.arcs` -/
  arc : Nat
  pos : Nat
  ssid : Nat
  tmat : Nat
  /-- `pnode->logs2prob`: paid on entering this HMM -/
  entry : Int
  isRoot : Bool
  isLeaf : Bool
  /-- left context this root variant stands for (`none`: filler, any) -/
  lc : Option Nat
  /-- right context this leaf variant stands for (`none`: filler / single-phone word, all) -/
  rc : Option Nat
  /-- `pnode->ci_ext`: phone presented to the neighbouring word -/
  ciExt : Nat
  /-- FSG states the arc joins -/
  src : Nat
  dst : Nat
deriving Repr, Inhabited

def insertNat (x : Nat) (l : List Nat) : List Nat := if l.contains x then l else l ++ [x]

def firstPhone (M : Model) (w : Word) : Nat := if w.filler then M.sil else w.pron.headD M.sil
def lastPhone (M : Model) (w : Word) : Nat := if w.filler then M.sil else w.pron.getLastD M.sil

/-- word arcs with their word -/
def wordArcs (M : Model) : List (Nat × Arc × Word) :=
  (M.arcs.zipIdx.filterMap fun (a, i) =>
    match a.wid with
    | none => none
    | some w => (M.word w).map fun wd => (i, a, wd))

def nullArcs (M : Model) : List Arc := M.arcs.filter fun a => a.wid.isNone

/-- `lc[s]` before the null-transition pass: SIL + last phones of word arcs entering `s` -/
def lcBase (M : Model) (s : Nat) : List Nat :=
  (wordArcs M).foldl (fun acc (_, a, w) => if a.dst = s then insertNat (lastPhone M w) acc else acc) [M.sil]

def rcBase (M : Model) (s : Nat) : List Nat :=
  (wordArcs M).foldl (fun acc (_, a, w) => if a.src = s then insertNat (firstPhone M w) acc else acc) [M.sil]

/-- `lextree->lc[s]`: own set plus the sets of the sources of null arcs into `s` -/
def lcSet (M : Model) (s : Nat) : List Nat :=
  (nullArcs M).foldl (fun acc n => if n.dst = s then (lcBase M n.src).foldl (fun a x => insertNat x a) acc else acc) (lcBase M s)

/-- `lextree->rc[s]`: own set plus the sets of the targets of null arcs out of `s` -/
def rcSet (M : Model) (s : Nat) : List Nat :=
  (nullArcs M).foldl (fun acc n => if n.src = s then (rcBase M n.dst).foldl (fun a x => insertNat x a) acc else acc) (rcBase M s)

/-- the HMM instances of one word arc; `none` when the model data lacks a needed entry -/
def instsOfArc (M : Model) (i : Nat) (a : Arc) (w : Word) : Option (List Inst) :=
  let lp := shiftS a.logp
  match w.pron with
  | [] => none
  | [p] =>
    if w.filler then do
      let ss ← M.ciSsid p
      let tm ← M.ciTmat p
      pure [{ arc := i, pos := 0, ssid := ss, tmat := tm, entry := lp + M.wip + M.pip, isRoot := true, isLeaf := true,
              lc := none, rc := none, ciExt := M.sil, src := a.src, dst := a.dst }]
    else do
      let tm ← M.ciTmat p
      (lcSet M a.src).mapM fun l => do
        let ss ← M.ssid p l M.sil wposSingle
        pure { arc := i, pos := 0, ssid := ss, tmat := tm, entry := lp + M.wip + M.pip, isRoot := true, isLeaf := true,
               lc := some l, rc := none, ciExt := p, src := a.src, dst := a.dst }
  | p0 :: p1 :: rest => do
    let pron := p0 :: p1 :: rest
    let n := pron.length
    let tm0 ← M.ciTmat p0
    let roots ← (lcSet M a.src).mapM fun l => do
      let ss ← M.ssid p0 l p1 wposBegin
      pure ({ arc := i, pos := 0, ssid := ss, tmat := tm0, entry := M.wip + M.pip, isRoot := true, isLeaf := false,
              lc := some l, rc := none, ciExt := p0, src := a.src, dst := a.dst } : Inst)
    let inner ← (List.range (n - 2)).mapM fun k => do
      let p := pron.getD (k + 1) 0
      let ss ← M.ssid p (pron.getD k 0) (pron.getD (k + 2) 0) wposInternal
      let tm ← M.ciTmat p
      pure ({ arc := i, pos := k + 1, ssid := ss, tmat := tm, entry := M.pip, isRoot := false, isLeaf := false,
              lc := none, rc := none, ciExt := p, src := a.src, dst := a.dst } : Inst)
    let pl := pron.getD (n - 1) 0
    let tml ← M.ciTmat pl
    let leaves ← (rcSet M a.dst).mapM fun r => do
      let ss ← M.ssid pl (pron.getD (n - 2) 0) r wposEnd
      pure ({ arc := i, pos := n - 1, ssid := ss, tmat := tml, entry := lp + M.pip, isRoot := false, isLeaf := true,
              lc := none, rc := some r, ciExt := pl, src := a.src, dst := a.dst } : Inst)
    pure (roots ++ inner ++ leaves)

/-- the arc index and end states of an instance are those of the word arc it was made for (identity on
the output of `instsOfArc`; applied explicitly so that the fact is available by construction) -/
def stamp (i : Nat) (a : Arc) (h : Inst) : Inst := { h with arc := i, src := a.src, dst := a.dst }

/-- all lists, concatenated; `none` as soon as one is missing -/
def optFlatten : List (Option (List Inst)) → Option (List Inst)
  | [] => some []
  | none :: _ => none
  | some l :: rest => (optFlatten rest).map (l ++ ·)

def allInsts (M : Model) : Option (List Inst) :=
  optFlatten ((wordArcs M).map fun (i, a, w) => (instsOfArc M i a w).map (List.map (stamp i a)))

/-- costs of getting from FSG state `s` to FSG state `d` without a word: stay, or one null arc -/
def hops (M : Model) (s d : Nat) : List Int :=
  (if s = d then [0] else []) ++ (nullArcs M).filterMap fun n => if n.src = s ∧ n.dst = d then some (shiftS n.logp) else none

/-- emitting states of HMM `h` are `3h`, `3h+1`, `3h+2` -/
def st (h k : Nat) : Nat := 3 * h + k

/-- transitions inside one HMM (hmm.c: `k→k`, `k→k+1` always, `0→2` when better than `TMAT_WORST_SCORE`) -/
def hmmEdges (tp : List Nat) (h : Nat) : List (Nat × Nat × Int) :=
  [(st h 0, st h 0, tprob tp 0 0), (st h 0, st h 1, tprob tp 0 1), (st h 1, st h 1, tprob tp 1 1),
   (st h 1, st h 2, tprob tp 1 2), (st h 2, st h 2, tprob tp 2 2)] ++
  (if skipOK tp 0 2 then [(st h 0, st h 2, tprob tp 0 2)] else [])

/-- transitions into the non-emitting exit state: (emitting state, cost) -/
def hmmExits (tp : List Nat) : List (Nat × Int) :=
  [(2, tprob tp 2 3)] ++ (if skipOK tp 1 3 then [(1, tprob tp 1 3)] else [])

/-- the network with the FSG word arc of every state and the split inner / cross-word edges -/
structure LNet where
  /-- edges that stay inside one word arc (inside an HMM, or phone → next phone) -/
  inner : List (Nat × Nat × Int)
  /-- edges that start a new word -/
  cross : List (Nat × Nat × Int)
  init  : List (Nat × Int)
  exits : List (Nat × Int)
  /-- index of the word arc a state belongs to -/
  lab : Nat → Nat
  /-- number of states -/
  n : Nat

def LNet.toNet (L : LNet) : Net := { edges := L.inner ++ L.cross, init := L.init, exits := L.exits }

def buildFrom (M : Model) (tmat : Nat → List Nat) (insts : Array Inst) : LNet :=
  let idx := insts.toList.zipIdx
  let intra := idx.flatMap fun (h, hi) => hmmEdges (tmat h.tmat) hi
  let phone := idx.flatMap fun (h, hi) =>
    if h.isLeaf then [] else
    idx.flatMap fun (h', hj) =>
      if h'.arc = h.arc ∧ h'.pos = h.pos + 1 then
        (hmmExits (tmat h.tmat)).map fun (k, cx) => (st hi k, st hj 0, cx + h'.entry)
      else []
  let cross := idx.flatMap fun (h, hi) =>
    if !h.isLeaf then [] else
    idx.flatMap fun (h', hj) =>
      if h'.isRoot ∧ (h'.lc = none ∨ h'.lc = some h.ciExt) ∧ (h.rc = none ∨ h.rc = some h'.ciExt) then
        (hops M h.dst h'.src).flatMap fun hop =>
          (hmmExits (tmat h.tmat)).map fun (k, cx) => (st hi k, st hj 0, cx + hop + h'.entry)
      else []
  let init := idx.flatMap fun (h', hj) =>
    if h'.isRoot ∧ (h'.lc = none ∨ h'.lc = some M.sil) then
      (hops M M.start h'.src).map fun hop => (st hj 0, hop + h'.entry)
    else []
  let exits := idx.flatMap fun (h, hi) =>
    if h.isLeaf then
      (hops M h.dst M.final).flatMap fun hop => (hmmExits (tmat h.tmat)).map fun (k, cx) => (st hi k, cx + hop)
    else []
  { inner := intra ++ phone, cross := cross, init := init, exits := exits,
    lab := fun s => (insts.getD (s / 3) default).arc, n := 3 * insts.size }

/-- the same network with the components of every edge kept apart, for the beam model (`Model/Beam.lean`):
`(buildB …).toNet = (buildFrom …).toNet` (`buildB_toNet`) -/
def buildB (M : Model) (tmat : Nat → List Nat) (insts : Array Inst) : SSVerif.Beam.BNet :=
  let idx := insts.toList.zipIdx
  let intra := idx.flatMap fun (h, hi) =>
    (hmmEdges (tmat h.tmat) hi).map fun (a, b, c) => ({ src := a, dst := b, cx := c, hop := none, entry := none } : SSVerif.Beam.BEdge)
  let phone := idx.flatMap fun (h, hi) =>
    if h.isLeaf then [] else
    idx.flatMap fun (h', hj) =>
      if h'.arc = h.arc ∧ h'.pos = h.pos + 1 then
        (hmmExits (tmat h.tmat)).map fun (k, cx) =>
          ({ src := st hi k, dst := st hj 0, cx := cx, hop := none, entry := some h'.entry } : SSVerif.Beam.BEdge)
      else []
  let cross := idx.flatMap fun (h, hi) =>
    if !h.isLeaf then [] else
    idx.flatMap fun (h', hj) =>
      if h'.isRoot ∧ (h'.lc = none ∨ h'.lc = some h.ciExt) ∧ (h.rc = none ∨ h.rc = some h'.ciExt) then
        (hops M h.dst h'.src).flatMap fun hop =>
          (hmmExits (tmat h.tmat)).map fun (k, cx) =>
            ({ src := st hi k, dst := st hj 0, cx := cx, hop := some hop, entry := some h'.entry } : SSVerif.Beam.BEdge)
      else []
  let init := idx.flatMap fun (h', hj) =>
    if h'.isRoot ∧ (h'.lc = none ∨ h'.lc = some M.sil) then
      (hops M M.start h'.src).map fun hop => ({ state := st hj 0, hop := hop, entry := h'.entry } : SSVerif.Beam.BInit)
    else []
  let exits := idx.flatMap fun (h, hi) =>
    if h.isLeaf then
      (hops M h.dst M.final).flatMap fun hop =>
        (hmmExits (tmat h.tmat)).map fun (k, cx) => ({ state := st hi k, cx := cx, hop := hop } : SSVerif.Beam.BExit)
    else []
  { edges := intra ++ phone ++ cross, init := init, exits := exits,
    outs := idx.flatMap fun (h, hi) => (hmmExits (tmat h.tmat)).map fun (k, cx) => (st hi k, cx),
    hmm := fun s => s / 3 }

/-- the flat network of a model (`none`: the dump lacks a needed table entry) -/
def build (M : Model) (tmat : Nat → List Nat) : Option (LNet × Array Inst) :=
  (allInsts M).map fun l => (buildFrom M tmat l.toArray, l.toArray)

/-! ### labelled alignments and the FSG as an ε-NFA (links C02's optimum to C01's language) -/

/-- the search FSG as an ε-NFA over FSG word ids (`Model/Nfa.lean`) -/
def fsgNfa (M : Model) : SSVerif.Nfa.Nfa :=
  { start := M.start, final := M.final, arcs := M.arcs.map fun a => (a.src, a.wid, a.dst) }

/-- `LPathTo L em t j sc ws`: as `Viterbi.PathTo`, additionally recording the word arcs entered so far -/
inductive LPathTo (L : LNet) (em : Nat → Nat → Int) : Nat → Nat → Int → List Nat → Prop
  | start {s c} : (s, c) ∈ L.init → LPathTo L em 0 s c [L.lab s]
  | inner {t i j c sc ws} : LPathTo L em t i sc ws → (i, j, c) ∈ L.inner →
      LPathTo L em (t+1) j (sc + em t i + c) ws
  | cross {t i j c sc ws} : LPathTo L em t i sc ws → (i, j, c) ∈ L.cross →
      LPathTo L em (t+1) j (sc + em t i + c) (ws ++ [L.lab j])

/-- a complete alignment with its score and the sequence of word arcs it goes through -/
inductive LAlignment (L : LNet) (em : Nat → Nat → Int) (T : Nat) : Int → List Nat → Prop
  | mk {i c sc ws} : LPathTo L em (T-1) i sc ws → (i, c) ∈ L.exits →
      LAlignment L em T (sc + em (T-1) i + c) ws

def arcAt (M : Model) (k : Nat) : Arc := M.arcs.getD k default

/-- FSG word id of a word arc (0 for a non-word arc; `labelsOK` excludes those) -/
def widOf (M : Model) (k : Nat) : Nat := (arcAt M k).wid.getD 0

def isWordArc (M : Model) (k : Nat) : Bool := decide (k < M.arcs.length) && (arcAt M k).wid.isSome

/-- FSG state `d` is `s` itself or the target of a null arc from `s` -/
def hopOK (M : Model) (s d : Nat) : Bool :=
  s == d || M.arcs.any fun a => a.wid.isNone && a.src == s && a.dst == d

/-- local consistency of the labels with the FSG (evaluated by the driver on every network it builds) -/
def labelsOK (M : Model) (L : LNet) : Bool :=
  L.init.all (fun e => isWordArc M (L.lab e.1) && hopOK M M.start (arcAt M (L.lab e.1)).src) &&
  L.inner.all (fun e => L.lab e.1 == L.lab e.2.1) &&
  L.cross.all (fun e => isWordArc M (L.lab e.2.1) && hopOK M (arcAt M (L.lab e.1)).dst (arcAt M (L.lab e.2.1)).src) &&
  L.exits.all (fun e => hopOK M (arcAt M (L.lab e.1)).dst M.final)

/-- emission of network state `s` in a frame: `-senscore[sseq[ssid][k]]` -/
def emission (insts : Array Inst) (sseq : Nat → List Nat) (senscr : Nat → Int) (s : Nat) : Int :=
  - senscr ((sseq (insts.getD (s / 3) default).ssid).getD (s % 3) 0)

end SSVerif.FlatNet
