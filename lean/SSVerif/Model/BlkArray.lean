/-!
# Model of `blkarray_list` (src/blkarray_list.c), the block-wise growing table behind the FSG search history

`fsg_history` keeps one entry per completed transition in a `blkarray_list`: a table of `maxblks` row pointers, each row
a heap block of `blksize` element pointers, filled row by row.  `blkarray_list_reset` frees every stored element and every
row and is called at the start of every utterance, on re-initialisation and when the search is released
(`fsg_history_reset` ← `fsg_search_start` / `fsg_search_reinit` / `fsg_search_free`).

The model keeps the counters of the C structure and, per row, whether the row pointer is NULL or points to a block and how
many stored elements that block holds.  The two loops of `blkarray_list_reset` are modelled as written (rows
`0 .. cur_row-1` release `blksize` elements each, row `cur_row` releases `cur_row_free` elements, "in case cur_row < 0"
nothing), and a flag `bad` records everything the C code would do wrong: release a number of elements different from
what the row holds (a leak or a free of an uninitialised pointer), touch a NULL row, or fail
`assert(bl->ptr[bl->cur_row] == NULL)` in `blkarray_list_append`.

Core Lean only.
-/
namespace SSVerif.BlkArray

/-- one row pointer: `none` = NULL, `some k` = a heap block holding `k` stored elements -/
abbrev Row := Option Nat

structure Blk where
  maxblks : Nat
  blksize : Nat
  /-- `ptr[i]` for `i < maxblks` (rows beyond are never looked at) -/
  rows : Nat → Row
  /-- `cur_row + 1` (0 stands for `cur_row = -1`) -/
  used : Nat
  /-- `cur_row_free` -/
  free : Nat
  nValid : Nat
  /-- something the C code must never do has happened (see the module comment) -/
  bad : Bool

/-- `_blkarray_list_init(maxblks, blksize)` (blkarray_list.c:56-74): all row pointers NULL (`ckd_calloc`),
`cur_row = -1`, `cur_row_free = blksize` -/
def init (maxblks blksize : Nat) : Blk :=
  { maxblks := maxblks, blksize := blksize, rows := fun _ => none, used := 0, free := blksize, nValid := 0, bad := false }

def upd (rows : Nat → Row) (i : Nat) (v : Row) : Nat → Row := fun j => if j = i then v else rows j

/-- result of `blkarray_list_append`: the id of the new element, or -1 when all `maxblks` rows are full -/
inductive AppRet where
  | id (n : Nat)
  | full
  deriving DecidableEq, Repr

/-- `blkarray_list_append` (blkarray_list.c:93-124) -/
def append (b : Blk) : Blk × AppRet :=
  if b.free ≥ b.blksize then
    -- `bl->cur_row++`; exhausted: `bl->cur_row--; return -1`
    if b.used ≥ b.maxblks then (b, .full)
    else
      -- `assert(bl->ptr[bl->cur_row] == NULL)`; new row; the element goes to column 0
      ({ b with rows := upd b.rows b.used (some 1), used := b.used + 1, free := 1, nValid := b.nValid + 1,
                bad := b.bad || (b.rows b.used).isSome }, .id b.nValid)
  else
    -- `bl->ptr[bl->cur_row][bl->cur_row_free] = data`
    ({ b with rows := upd b.rows (b.used - 1) ((b.rows (b.used - 1)).map (· + 1)), free := b.free + 1,
              nValid := b.nValid + 1, bad := b.bad || b.used = 0 || (b.rows (b.used - 1)).isNone }, .id b.nValid)

/-- release `k` elements of row `i` and the row itself, `ptr[i] = NULL`: wrong when the row is NULL or holds another
number of elements -/
def freeRow (st : (Nat → Row) × Bool) (i k : Nat) : (Nat → Row) × Bool :=
  (upd st.1 i none, st.2 || st.1 i != some k)

/-- the first loop of `blkarray_list_reset`: `for (i = 0; i < n; i++)` release `blksize` elements and the row -/
def freeFullRows (st : (Nat → Row) × Bool) (blksize : Nat) : Nat → (Nat → Row) × Bool
  | 0 => st
  | n + 1 => freeRow (freeFullRows st blksize n) n blksize

/-- `blkarray_list_reset` (blkarray_list.c:126-148): the full rows `0 .. cur_row-1`, then - `if (i == bl->cur_row)`,
false exactly when `cur_row = -1` - the current row with its `cur_row_free` elements; counters back to the initial values -/
def reset (b : Blk) : Blk :=
  let st1 := freeFullRows (b.rows, b.bad) b.blksize (b.used - 1)
  let st2 := if b.used ≥ 1 then freeRow st1 (b.used - 1) b.free else st1
  { b with rows := st2.1, bad := st2.2, used := 0, free := b.blksize, nValid := 0 }

inductive Op where
  | append
  | reset
  deriving DecidableEq, Repr

def step (b : Blk) : Op → Blk
  | .append => (append b).1
  | .reset => reset b

def run (b : Blk) (ops : List Op) : Blk := ops.foldl step b

/-- number of non-NULL row pointers among the first `n` -/
def rowsAllocated (b : Blk) : Nat → Nat
  | 0 => 0
  | n + 1 => rowsAllocated b n + (if (b.rows n).isSome then 1 else 0)

/-- stored elements in the first `n` rows -/
def liveElems (b : Blk) : Nat → Nat
  | 0 => 0
  | n + 1 => liveElems b n + (b.rows n).getD 0

end SSVerif.BlkArray
