import SSVerif.Generated.AcmodConsts
/-!
# M5 — index model of the acoustic-model buffers (`acmod.c`) and the live dynamic-feature window (`feat.c`)

What is modelled (streaming calls, `full_utt = 0`, as the decoder API issues them):

* `acmod_start_utt`, `acmod_process_raw` / `acmod_process_float32` (identical control flow),
  `acmod_process_mfcbuf`, `acmod_process_cep`, `acmod_grow_feat_buf`, `acmod_set_grow`, `acmod_end_utt`,
  `acmod_rewind`, `acmod_advance`, `calc_frame_idx`/`calc_feat_idx` (acmod.c),
* `feat_s2mfc2feat_live` with its begin/end replication, ring copy, trailing-window rule and the two
  window-read branches (feat.c:1009-1121), `feat_cmn` → `cmn_live` / `cmn_live_update` as far as
  *which frame is normalised how often with which mean* and the frame-count threshold (cmn_live.c),
* the driving loops of `decoder_process_int16/float32`, `search_module_forward`, `decoder_end_utt`,
  and the rewind / re-advance of `decoder_alignment` (decoder.c).

Cepstral frames are abstract ids `0, 1, 2, …` in the order the front end yields them; what the front end
yields per `fe_process_*` call is an *input* of the model (`FeResp`): any number of frames up to the
output limit the caller passed, plus whether samples remain.  A feature vector is the window of
`2·win+1` ring entries `compute_feat` reads (`Feat`); the float function of that window is opaque.

The code modelled is the tree **with the D8 repair** (`fixD8 = true`); `fixD8 = false` gives the control
flow of the pinned tree so that the defect can be exhibited on the model as well.

Also modelled: the batch path `full_utt = 1` (`acmod_process_full_raw/_float32`, `acmod_process_full_cep`,
`feat_s2mfc2feat_block_utt`, batch or live CMN on the whole utterance) including the permanent growth of the cepstrum
buffer it causes, and — executable, tied by the correspondence run, but outside the streaming theorems — the live-buffer
clamp of `feat_s2mfc2feat_live` that a cepstrum ring enlarged by an earlier batch utterance makes reachable (frames stay in
the ring between calls).

Branches that the decoder API cannot reach (`grow_feat = FALSE`: fixed-size feature ring and its wrap-around) are kept as
branches on the C condition and end in an explicit `fault`; the theorems prove that no fault is ever raised, and that
with the 128-frame ring of the streaming path the clamp is never taken, rather than assuming it.

Line numbers in the comments refer to the tree the task started from (commit 9571b85); later `fix:` commits shift them
by a few lines.
-/
namespace SSVerif.AcmodBuf
open SSVerif.Generated

/-- `acmod_state_e` (acmod.h:71-76) -/
inductive UState | idle | started | processing | ended
deriving DecidableEq, Repr, Inhabited

/-- content of one cepstrum slot: which frame it is, how many times live CMN has been applied to
    it, and whether the mean used differed from the mean fixed at the start of the utterance -/
structure Cep where
  id : Nat
  ncmn : Nat
  moved : Bool
deriving DecidableEq, Repr, Inhabited

/-- the `2·win+1` slots a feature vector is computed from (`none` = slot never written) -/
abbrev Feat := List (Option Cep)

/-- one `fe_process_int16/float32` call as seen by acmod: frames yielded, samples still left after it -/
structure FeResp where
  nvec : Nat
  more : Bool
deriving DecidableEq, Repr, Inhabited

/-- `acmod_t` + the live part of `feat_t` + the CMN counters + what was handed to the searches -/
structure St where
  state : UState
  /-- number of cepstral frames the front end has yielded so far in this utterance -/
  nextId : Nat
  mfcBuf : List (Option Cep)
  nMfcAlloc : Nat
  nMfcFrame : Nat
  mfcOutidx : Nat
  cepbuf : List (Option Cep)
  bufpos : Nat
  curpos : Nat
  featBuf : List (Option Feat)
  nFeatAlloc : Nat
  nFeatFrame : Nat
  featOutidx : Nat
  outputFrame : Nat
  growFeat : Bool
  /-- `cmn->nframe` -/
  cmnFrames : Nat
  /-- the live mean is no longer the one fixed at utterance start -/
  cmnMoved : Bool
  /-- `fcb->cmn == CMN_BATCH` (configuration): which normalisation the block (`full_utt`) path applies -/
  cmnBatch : Bool
  /-- (frame index, feature vector read) of every first-pass search step, in order -/
  searched : List (Nat × Option Feat)
  /-- the same for every alignment pass (`decoder_alignment`), one list per pass -/
  aligned : List (List (Nat × Option Feat))
  fault : Option String
deriving Repr, Inhabited

def fail (msg : String) (s : St) : St :=
  { s with fault := match s.fault with | some m => some m | none => some msg }

/-- state after `acmod_create` + `acmod_alloc_buffers` (acmod.c:185-203, 214) -/
def St.init (cmn0 : Nat) : St :=
  { state := .idle, nextId := 0, mfcBuf := List.replicate nMfc none, nMfcAlloc := nMfc, nMfcFrame := 0,
    mfcOutidx := 0, cepbuf := List.replicate livebuf none, bufpos := 0, curpos := 0,
    featBuf := List.replicate nMfc none, nFeatAlloc := nMfc, nFeatFrame := 0, featOutidx := 0,
    outputFrame := 0, growFeat := growDefault, cmnFrames := cmn0, cmnMoved := false, cmnBatch := true,
    searched := [], aligned := [], fault := none }

/-! ## feature buffer -/

/-- `acmod_grow_feat_buf` (acmod.c:327-340): realloc keeps the old entries -/
def growFeatBuf (s : St) (nfr : Nat) : St :=
  { s with featBuf := s.featBuf ++ List.replicate (nfr - s.featBuf.length) none, nFeatAlloc := nfr }

/-- `acmod_set_grow` (acmod.c:342-353) -/
def setGrow (s : St) (g : Bool) : St :=
  let s := { s with growFeat := g }
  if g && s.nFeatAlloc < growMin then growFeatBuf s growMin else s

/-- `while (inptr + nfeat >= n_feat_alloc) acmod_grow_feat_buf(acmod, n_feat_alloc * 2)` (acmod.c:677-678) -/
def growLoop : Nat → St → Int → St
  | 0, s, need => if need ≥ (s.nFeatAlloc : Int) then fail "grow loop does not terminate" s else s
  | fuel + 1, s, need =>
    if need ≥ (s.nFeatAlloc : Int) then growLoop fuel (growFeatBuf s (s.nFeatAlloc * 2)) need else s

/-- store into `feat_buf[o]` (the `ofeat[i]` argument of `compute_feat`) -/
def writeFeat (s : St) (o : Nat) (f : Feat) : St :=
  if o < s.featBuf.length then { s with featBuf := s.featBuf.set o (some f) }
  else fail "feat_buf write out of range" s

/-! ## live cepstrum ring (feat.c) -/

/-- `memcpy(fcb->cepbuf[fcb->bufpos++], x); fcb->bufpos %= LIVEBUFBLOCKSIZE;` -/
def pushCep (s : St) (x : Option Cep) : St :=
  if s.bufpos < s.cepbuf.length then
    { s with cepbuf := s.cepbuf.set s.bufpos x, bufpos := (s.bufpos + 1) % livebuf }
  else fail "cepbuf write out of range" s

def pushMany (s : St) (xs : List (Option Cep)) : St := xs.foldl pushCep s

/-- end replication loop (feat.c:1085-1089): `memcpy(cepbuf[bufpos++], cepbuf[tpos])`, `win` times -/
def repLast : Nat → Nat → St → St
  | 0, _, s => s
  | n + 1, tpos, s =>
    if tpos < s.cepbuf.length then repLast n tpos (pushCep s (s.cepbuf.getD tpos none))
    else fail "cepbuf read out of range" s

/-- the window handed to `compute_feat` (feat.c:1097-1108): pointer array through `tmpcepbuf` in the
    wrap-around case, `cepbuf + curpos` directly otherwise -/
def readWindow (win : Nat) (s : St) : Feat :=
  if s.curpos < win ∨ s.curpos + win ≥ livebuf then
    (List.range (2 * win + 1)).map fun j => s.cepbuf.getD ((s.curpos + j + livebuf - win) % livebuf) none
  else
    (List.range (2 * win + 1)).map fun j => s.cepbuf.getD (s.curpos + j - win) none

/-- the feature loop (feat.c:1096-1112): compute, store at `ofeat[i]`, advance `curpos` -/
def computeFeats (win : Nat) : Nat → Nat → St → St
  | 0, _, s => s
  | n + 1, o, s =>
    let s1 := writeFeat s o (readWindow win s)
    computeFeats win n (o + 1) { s1 with curpos := (s1.curpos + 1) % livebuf }

/-! ## live CMN (cmn_live.c) as far as the index model is concerned -/

/-- the loop of `cmn_live` (cmn_live.c:103-134, after the D53 repair) on `n` frames of the cepstrum ring starting at
    `ptr` (the input is modified in place).  Every frame passes through the per-frame step once (`ncmn`), with the
    mean current at that time (`moved`); `skip id` is the data-dependent "zero energy" test of that step, which leaves
    the frame and the frame count alone; as soon as more than `CMN_WIN_HWM` frames have been accumulated the window
    shifts (`cmn_live_shiftwin`, l.63-79) and the mean moves -/
def cmnBlock (skip : Nat → Bool) : Nat → Nat → St → St
  | 0, _, s => s
  | n + 1, ptr, s =>
    match s.mfcBuf.getD ptr none with
    | some c =>
      let s1 : St := { s with mfcBuf := s.mfcBuf.set ptr (some { c with ncmn := c.ncmn + 1, moved := c.moved || s.cmnMoved }),
                              cmnFrames := if skip c.id then s.cmnFrames else s.cmnFrames + 1 }
      cmnBlock skip n (ptr + 1)
        (if s1.cmnFrames > cmnWinHwm then { s1 with cmnMoved := true, cmnFrames := cmnWin } else s1)
    | none => fail "cmn on an unwritten cepstrum slot" s

/-- `cmn_live` (cmn_live.c:103-134) -/
def cmnLive (skip : Nat → Bool) (s : St) (ptr n : Nat) : St :=
  if n = 0 then s else cmnBlock skip n ptr s

/-- `cmn_live_update` (cmn_live.c:81-101), called by `feat_cmn` at the end of the utterance -/
def cmnUpdate (s : St) : St :=
  if s.cmnFrames = 0 then s else
  { s with cmnMoved := true, cmnFrames := if s.cmnFrames > cmnWinHwm then cmnWin else s.cmnFrames }

/-! ## `feat_s2mfc2feat_live` -/

structure LiveRes where
  st : St
  /-- `*inout_ncep` after the call -/
  used : Nat
  /-- return value -/
  nfeat : Nat

/-- number of frames already in the ring plus the ones that will be replicated (feat.c:1028-1040);
    on start of utterance the input buffer is emptied first (`bufpos = curpos`) -/
def liveNbuf (win : Nat) (s : St) (ncep : Nat) (beginutt endutt : Bool) : Nat :=
  let bufpos := if beginutt then s.curpos else s.bufpos
  let nbuf0 := if bufpos ≥ s.curpos then bufpos - s.curpos else bufpos + livebuf - s.curpos
  nbuf0 + (if beginutt && decide (ncep > 0) then win else 0) + (if endutt then win else 0)

/-- everything `feat_s2mfc2feat_live` writes before the feature loop, in the order of the C code:
    reset of the input pointer (l.1028-1030), `feat_cmn` on the consumed frames (l.1052), replication of
    the first frame (l.1054-1066), copy into the ring (l.1068-1074), replication of the last frame (l.1076-1090) -/
def liveIn (win : Nat) (skip : Nat → Bool) (s : St) (ptr ncep : Nat) (beginutt endutt : Bool) : St :=
  let s := if beginutt then { s with bufpos := s.curpos } else s
  let s := cmnLive skip s ptr ncep
  let s := if endutt then cmnUpdate s else s
  let s := if beginutt && decide (ncep > 0) then
      let s := pushMany s (List.replicate win (s.mfcBuf.getD ptr none))
      { s with curpos := s.bufpos }
    else s
  let s := pushMany s ((List.range ncep).map fun i => s.mfcBuf.getD (ptr + i) none)
  if endutt then repLast win (if s.bufpos = 0 then livebuf - 1 else s.bufpos - 1) s else s

/-- batch CMN `cmn()` (cmn.c:176-230) on `n` frames at `ptr`: every frame is normalised once with the mean of exactly
    these frames; `cmn->nframe` becomes the number of frames that entered the mean -/
def cmnBatchBlock (skip : Nat → Bool) : Nat → Nat → St → St
  | 0, _, s => s
  | n + 1, ptr, s =>
    match s.mfcBuf.getD ptr none with
    | some c =>
      cmnBatchBlock skip n (ptr + 1)
        { s with mfcBuf := s.mfcBuf.set ptr (some { c with ncmn := c.ncmn + 1 }),
                 cmnFrames := if skip c.id then s.cmnFrames else s.cmnFrames + 1 }
    | none => fail "cmn on an unwritten cepstrum slot" s

/-- the scratch copies of the first / last frame that `feat_s2mfc2feat_block_utt` keeps in `fcb->cepbuf[0 .. 2·win)` -/
def blockScratch : Nat → Nat → Option Cep → Option Cep → St → St
  | 0, _, _, _, s => s
  | k + 1, win, first, last, s =>
    let i := win - (k + 1)
    if win + i < s.cepbuf.length then
      blockScratch k win first last { s with cepbuf := (s.cepbuf.set i first).set (win + i) last }
    else fail "cepbuf write out of range" s

/-- `feat_compute_utt` over the padded pointer array (feat.c:952-967): frame `i` is computed from entries `i … i + 2·win` -/
def blockFeats (win : Nat) (padded : List (Option Cep)) : Nat → Nat → Nat → St → St
  | 0, _, _, s => s
  | k + 1, i, o, s => blockFeats win padded k (i + 1) (o + 1) (writeFeat s o ((padded.drop i).take (2 * win + 1)))

/-- `feat_s2mfc2feat_block_utt` (feat.c:971-1007): the whole utterance at once — `feat_cmn(.., 1, 1)` (batch CMN when
    configured, else live CMN with the update at the end), the first and last frame replicated `win` times around the
    frames, one feature vector per frame -/
def blockUtt (win : Nat) (skip : Nat → Bool) (s : St) (ptr n outpos : Nat) : LiveRes :=
  let s := if s.cmnBatch then cmnBatchBlock skip n ptr { s with cmnFrames := 0 } else cmnUpdate (cmnLive skip s ptr n)
  let first := s.mfcBuf.getD ptr none
  let last := s.mfcBuf.getD (ptr + n - 1) none
  let s := blockScratch win win first last s
  let padded := List.replicate win first ++ ((List.range n).map fun i => s.mfcBuf.getD (ptr + i) none) ++ List.replicate win last
  ⟨blockFeats win padded n 0 outpos s, n, n⟩

/-- feat.c:1009-1121.  `ptr`, `ncep`: the input frames are `mfc_buf[ptr .. ptr+ncep)`; `outpos`: index in
    `feat_buf` of `ofeat[0]`. -/
def featLive (win : Nat) (skip : Nat → Bool) (s : St) (ptr ncep : Nat) (beginutt endutt : Bool) (outpos : Nat) : LiveRes :=
  -- special case for entire utterances (l.1021-1023): the block path of `full_utt`
  if beginutt && endutt && decide (ncep > 0) then blockUtt win skip s ptr ncep outpos else
  let nbuf1 := liveNbuf win s ncep beginutt endutt
  -- only consume as much input as fits next to the left-context window, and cancel the end-of-utterance processing
  -- (l.1042-1049); with the 128-frame cepstrum ring this never happens; a ring enlarged by an earlier `full_utt`
  -- utterance makes it reachable
  let clamp := decide (nbuf1 + ncep > livebuf - win)   -- (`- win`: D67 repair, the left context must survive)
  let ncep := if clamp then livebuf - nbuf1 - win else ncep
  let endutt := if clamp then false else endutt
  let s := liveIn win skip s ptr ncep beginutt endutt
  -- `nbufcep -= win` after the start replication (l.1065), `++nbufcep` per copied frame (l.1073)
  let nbuf3 := (if beginutt && decide (ncep > 0) then nbuf1 - win else nbuf1) + ncep
  -- leave the trailing window (l.1092-1095), then the feature loop (l.1096-1112)
  if nbuf3 ≤ win then ⟨s, ncep, 0⟩ else ⟨computeFeats win (nbuf3 - win) outpos s, ncep, nbuf3 - win⟩

/-! ## `acmod_process_cep` (non-full branch, acmod.c:641-728) -/

structure CepRes where
  st : St
  /-- return value: number of input frames consumed -/
  used : Nat

/-- maximum number of feature frames the call may generate (acmod.c:655-661) -/
def cepNfeat (win : Nat) (s : St) (n : Nat) : Int :=
  match s.state with
  | .ended => (n : Int) + win
  | .started => (n : Int) - win
  | _ => n

/-- the two growth steps when `grow_feat` is set (acmod.c:663-668 and 674-678): make room for `nfeat`
    more frames, then double until the write position cannot reach the end of the buffer -/
def cepGrow (s : St) (nfeat : Int) : St :=
  let s1 := if nfeat > (s.nFeatAlloc : Int) - s.nFeatFrame then growFeatBuf s ((s.nFeatAlloc : Int) + nfeat).toNat else s
  let need : Int := ((s1.featOutidx + s1.nFeatFrame : Nat) : Int) + nfeat
  growLoop (need.toNat + 1) s1 need

/-- bookkeeping after the feature computation (acmod.c:718-727) -/
def cepFinish (fixD8 : Bool) (r : LiveRes) : CepRes :=
  let s : St := { r.st with nFeatFrame := r.st.nFeatFrame + r.nfeat }
  let s := if s.nFeatFrame ≤ s.nFeatAlloc then s else fail "assert(n_feat_frame <= n_feat_alloc)" s
  -- l.725-726; with the D8 repair the state stays STARTED until a frame has been consumed
  let s := if s.state = .started ∧ (!fixD8 || decide (r.used > 0)) then { s with state := .processing } else s
  ⟨s, r.used⟩

def processCep (fixD8 : Bool) (win : Nat) (skip : Nat → Bool) (s : St) (ptr n : Nat) : CepRes :=
  let nfeat := cepNfeat win s n
  -- clamp instead of growing (l.669-670), circular write position (l.679-680): only with `grow_feat = FALSE`
  if !s.growFeat then ⟨fail "fixed-size feature ring (grow_feat = FALSE)" s, 0⟩ else
  let inptr := s.featOutidx + s.nFeatFrame
  let s := cepGrow s nfeat
  -- l.683-688: cannot split the last frame drop
  if (inptr : Int) + nfeat > s.nFeatAlloc ∧ s.state = .ended then ⟨fail "end of utterance at the ring boundary" s, 0⟩ else
  -- l.690-711: write in two parts if there is wraparound
  if (inptr : Int) + nfeat > s.nFeatAlloc then ⟨fail "feature ring wrap-around" s, 0⟩ else
  -- l.713-717
  cepFinish fixD8 (featLive win skip s ptr n (s.state == .started) (s.state == .ended) inptr)

/-! ## `acmod_process_mfcbuf` (acmod.c:492-526) -/

def afterCep (s : St) (used : Nat) : St :=
  if used ≤ s.nMfcFrame then
    { s with nMfcFrame := s.nMfcFrame - used, mfcOutidx := (s.mfcOutidx + used) % s.nMfcAlloc }
  else fail "n_mfc_frame underflow" s

/-- one pass of `acmod_process_mfcbuf` (the function body before the D62 repair, kept as `acmod_process_mfcbuf_once`) -/
def processMfcbufOnce (fixD8 : Bool) (win : Nat) (skip : Nat → Bool) (s : St) : CepRes :=
  let ncep := s.nMfcFrame
  if s.mfcOutidx + ncep > s.nMfcAlloc then
    -- two parts because of the circular mfc_buf
    let ncep1 := s.nMfcAlloc - s.mfcOutidx
    let saved := s.state
    let s := if s.state = .ended then { s with state := .processing } else s
    let r1 := processCep fixD8 win skip s s.mfcOutidx ncep1
    let s := { afterCep r1.st r1.used with state := saved }
    -- D66 repair: a first part that was not consumed completely leaves a queue that still wraps; come back for it
    if r1.used < ncep1 then ⟨s, r1.used⟩ else
    let r2 := processCep fixD8 win skip s s.mfcOutidx (ncep - r1.used)
    ⟨afterCep r2.st r2.used, r2.used⟩
  else
    let r := processCep fixD8 win skip s s.mfcOutidx ncep
    ⟨afterCep r.st r.used, r.used⟩

/-- the drain loop of the D62 repair: repeat the pass while it makes progress, cepstra are still queued and `feat_buf`
    may grow; `ncep` is what the last pass returned -/
def drainMfc (fixD8 : Bool) (win : Nat) (skip : Nat → Bool) : Nat → St → Nat → Nat → CepRes
  | 0, s, _, total => ⟨fail "acmod_process_mfcbuf drain loop does not terminate" s, total⟩
  | fuel + 1, s, ncep, total =>
    if ncep > 0 ∧ s.nMfcFrame > 0 ∧ s.growFeat = true then
      let r := processMfcbufOnce fixD8 win skip s
      drainMfc fixD8 win skip fuel r.st r.used (if r.used > 0 then total + r.used else total)
    else ⟨s, total⟩

/-- `acmod_process_mfcbuf` (with the D62 repair): the dynamic-feature computation takes at most one live buffer of
    frames per pass, which is less than `mfc_buf` can hold once a `full_utt` call has enlarged it -/
def processMfcbuf (fixD8 : Bool) (win : Nat) (skip : Nat → Bool) (s : St) : CepRes :=
  let r := processMfcbufOnce fixD8 win skip s
  drainMfc fixD8 win skip (r.st.nMfcFrame + 1) r.st r.used r.used

/-! ## the front end writing into the cepstrum ring -/

/-- the frames one front-end call writes: fresh ids at `mfc_buf[inptr ..]`, never more than the limit -/
def feWrite : Nat → Nat → St → St
  | 0, _, s => s
  | k + 1, p, s =>
    if p < s.mfcBuf.length then
      feWrite k (p + 1) { s with mfcBuf := s.mfcBuf.set p (some ⟨s.nextId, 0, false⟩), nextId := s.nextId + 1 }
    else fail "mfc_buf write out of range" s

def popResp : List FeResp → FeResp × List FeResp
  | [] => (⟨0, false⟩, [])
  | r :: rs => (r, rs)

structure RawRes where
  st : St
  rest : List FeResp
  more : Bool

/-- the `while (inptr + ncep > n_mfc_alloc)` loop of `acmod_process_raw` (acmod.c:551-570); returns the
    state, the remaining responses, whether samples remain, `inptr`, `ncep`, and whether `goto alldone` was taken -/
def rawLoop : Nat → St → Nat → Nat → List FeResp → Bool → St × List FeResp × Bool × Nat × Nat × Bool
  | 0, s, inptr, ncep, rs, more => (fail "acmod_process_raw loop does not terminate" s, rs, more, inptr, ncep, true)
  | fuel + 1, s, inptr, ncep, rs, more =>
    if inptr + ncep > s.nMfcAlloc then
      let lim := s.nMfcAlloc - inptr
      let (r, rs) := popResp rs
      let nvec := min r.nvec lim
      let s := feWrite nvec inptr s
      let s := { s with nMfcFrame := s.nMfcFrame + nvec }
      if nvec = 0 then (s, rs, r.more, inptr, ncep, true)
      else rawLoop fuel s ((inptr + nvec) % s.nMfcAlloc) (ncep - nvec) rs r.more
    else (s, rs, more, inptr, ncep, false)

/-- `acmod_process_raw` / `acmod_process_float32` with `*inout_n_samps > 0`, `full_utt = 0` (acmod.c:528-583, 585-643) -/
def processRaw (fixD8 : Bool) (win : Nat) (skip : Nat → Bool) (s : St) (rs : List FeResp) : RawRes :=
  let ncep := s.nMfcAlloc - s.nMfcFrame
  let inptr := (s.mfcOutidx + s.nMfcFrame) % s.nMfcAlloc
  let (s, rs, more, inptr, ncep, done) := rawLoop (ncep + 1) s inptr ncep rs true
  let (s, rs, more) :=
    if done then (s, rs, more) else
      let (r, rs) := popResp rs
      let nvec := min r.nvec ncep
      let s := feWrite nvec inptr s
      ({ s with nMfcFrame := s.nMfcFrame + nvec }, rs, r.more)
  ⟨(processMfcbuf fixD8 win skip s).st, rs, more⟩

/-! ## the batch path (`full_utt = 1`) -/

/-- what the front end answers during one `acmod_process_full_raw/_float32` call: the frame-count query
    (`fe_process(.., NULL, ..)`), the frames `fe_process` then yields, whether samples remain, whether `fe_end` has a
    pending frame -/
structure FullResp where
  est : Nat
  nvec : Nat
  more : Bool
  tail : Bool
deriving DecidableEq, Repr, Inhabited

/-- number of frames one batch call delivers: what `fe_process` yields into the `est` slots, plus the frame of
    `fe_end` when there is one and a slot is left -/
def fullCount (r : FullResp) : Nat := min r.nvec r.est + min (if r.tail then 1 else 0) (r.est - min r.nvec r.est)

/-- the front-end part of `acmod_process_full_raw` / `_float32` (acmod.c:435-493): the cepstrum buffer is replaced when
    smaller than the frame-count estimate (and stays that large afterwards), the front end is restarted, the frames of
    this call are numbered from 0 -/
def fullFe (s : St) (r : FullResp) : St :=
  let s := if s.nMfcAlloc < r.est then { s with mfcBuf := List.replicate r.est none, nMfcAlloc := r.est } else s
  let s := { s with nMfcFrame := 0, mfcOutidx := 0, nextId := 0 }
  let s := feWrite (min r.nvec r.est) 0 s
  feWrite (min (if r.tail then 1 else 0) (r.est - min r.nvec r.est)) (min r.nvec r.est) s

/-- `acmod_process_full_cep` (acmod.c:404-433), first half: `feat_buf` is replaced when too small -/
def fullFeatBuf (s : St) (n : Nat) : St :=
  if s.nFeatAlloc < n then
    { s with featBuf := List.replicate n none, nFeatAlloc := n, nFeatFrame := 0, featOutidx := 0 } else s

/-- `acmod_process_full_cep`, second half: the features are written from index 0 and `n_feat_frame` is *set* to
    their number -/
def fullCep (win : Nat) (skip : Nat → Bool) (s : St) (n : Nat) : St :=
  let r := featLive win skip (fullFeatBuf s n) 0 n true true 0
  let s : St := { r.st with nFeatFrame := r.nfeat }
  if s.nFeatFrame ≤ s.nFeatAlloc then s else fail "assert(n_feat_frame <= n_feat_alloc)" s

/-- `acmod_process_full_raw` / `acmod_process_full_float32` -/
def fullRaw (win : Nat) (skip : Nat → Bool) (s : St) (r : FullResp) : St :=
  { fullCep win skip (fullFe s r) (fullCount r) with nMfcFrame := 0 }

/-! ## search side: `calc_feat_idx`, `acmod_score`, `acmod_advance`, `acmod_rewind` -/

/-- `calc_frame_idx` + `calc_feat_idx` (acmod.c:764-802) for a non-negative requested frame -/
def featIdx (s : St) (frameIdx : Nat) : Option Nat :=
  let nBack : Int := (s.nFeatAlloc : Int) - s.nFeatFrame
  if (s.outputFrame : Int) - frameIdx > nBack then none
  else if s.nFeatAlloc = 0 then none
  else some (((s.featOutidx : Int) + frameIdx - s.outputFrame) % (s.nFeatAlloc : Int)).toNat

/-- the feature vector `acmod_score` evaluates for the current output frame -/
def scoreRead (s : St) : Option (Nat × Option Feat) :=
  match featIdx s s.outputFrame with
  | some i => if i < s.featBuf.length then some (s.outputFrame, s.featBuf.getD i none) else none
  | none => none

/-- `acmod_advance` (acmod.c:753-763) -/
def advance (s : St) : St :=
  if s.nFeatFrame = 0 then fail "n_feat_frame underflow" s else
  { s with featOutidx := if s.featOutidx + 1 = s.nFeatAlloc then 0 else s.featOutidx + 1,
           nFeatFrame := s.nFeatFrame - 1, outputFrame := s.outputFrame + 1 }

/-- `search_module_forward` (decoder.c:940-962): `n` iterations of step + advance -/
def searchN : Nat → St → St
  | 0, s => s
  | n + 1, s =>
    match scoreRead s with
    | some e => searchN n (advance { s with searched := s.searched ++ [e] })
    | none => fail "acmod_score: frame outside the feature queue" s

def searchForward (s : St) : St := searchN s.nFeatFrame s

/-- re-advance loop of `decoder_alignment` (decoder.c:789-793): `n` iterations; a frame is scored while
    `output_frame < upto` (`upto` ≥ the saved output frame in the pinned code, i.e. every frame is scored;
    a second pass that stops at the end of the partial hypothesis has a smaller `upto`) -/
def alignN : Nat → Nat → St → List (Nat × Option Feat) → St × List (Nat × Option Feat)
  | 0, _, s, acc => (s, acc)
  | n + 1, upto, s, acc =>
    if s.outputFrame < upto then
      match scoreRead s with
      | some e => alignN n upto (advance s) (acc ++ [e])
      | none => (fail "acmod_score: frame outside the feature queue" s, acc)
    else alignN n upto (advance s) acc

/-- `acmod_rewind` (acmod.c:730-751) followed by the re-advance up to the saved output frame -/
def alignPass (s : St) (upto : Nat) : St :=
  let saved := s.outputFrame
  if s.outputFrame > s.nFeatAlloc then fail "acmod_rewind refused" s else
  let s := { s with nFeatFrame := s.outputFrame + s.nFeatFrame, featOutidx := 0, outputFrame := 0 }
  let r := alignN saved upto s []
  { r.1 with aligned := r.1.aligned ++ [r.2] }

/-! ## decoder level -/

/-- `acmod_start_utt` (acmod.c:355-369).  `cmnMoved` is a ghost flag relative to the utterance ("the mean is
    no longer the one in force when the utterance started"), so it is cleared here; the observation logs
    `searched` / `aligned` are per utterance as well. -/
def startUtt (s : St) : St :=
  { s with state := .started, nextId := 0, nMfcFrame := 0, nFeatFrame := 0, mfcOutidx := 0, featOutidx := 0,
           outputFrame := 0, cmnMoved := false, searched := [], aligned := [] }

/-- the `while (n_samples)` loop of `decoder_process_int16/float32` (decoder.c:976-992, 1013-1029) -/
def decLoop (fixD8 : Bool) (win : Nat) (skip : Nat → Bool) (noSearch : Bool) : Nat → St → List FeResp → St
  | 0, s, _ => fail "decoder_process loop does not terminate" s
  | fuel + 1, s, rs =>
    let r := processRaw fixD8 win skip s rs
    let s := if noSearch then r.st else searchForward r.st
    if r.more then decLoop fixD8 win skip noSearch fuel s r.rest else s

/-- `decoder_process_int16/float32`, `full_utt = 0` (decoder.c:964-1036); `rs = []` stands for `n_samples = 0` -/
def decProcess (fixD8 : Bool) (win : Nat) (skip : Nat → Bool) (s : St) (noSearch : Bool) (rs : List FeResp) : St :=
  if s.state = .idle then s else
  let s := if noSearch then setGrow s true else s
  if rs.isEmpty then s else
  decLoop fixD8 win skip noSearch (rs.length + 1) s rs

/-- the `fe_end` part of `acmod_end_utt`: the pending partial frame, if the front end has one (`tail`), is
    written behind the frames of the ring; returns the state and `ntail` -/
def endFe (s : St) (tail : Bool) : St × Nat :=
  if s.nMfcFrame < s.nMfcAlloc then
    let inptr := (s.mfcOutidx + s.nMfcFrame) % s.nMfcAlloc
    let nfr := s.nMfcAlloc - inptr
    let ntail := min (if tail then 1 else 0) nfr
    let s1 := feWrite ntail inptr s
    ({ s1 with nMfcFrame := s1.nMfcFrame + ntail }, ntail)
  else (s, 0)

/-- D8 repair in `acmod_end_utt`: when no frame has been consumed so far, the frames are first consumed as
    the start of the utterance (start padding) -/
def endHead (fixD8 : Bool) (win : Nat) (skip : Nat → Bool) (s : St) : St :=
  { (processMfcbuf fixD8 win skip { s with state := .started }).st with state := .ended }

/-- `decoder_process_int16/float32` with `full_utt = 1` (decoder.c:964-1036): one `acmod_process_full_*` call per
    iteration of the `while (n_samples)` loop (normally exactly one: the frame-count estimate makes room for everything) -/
def decFull (win : Nat) (skip : Nat → Bool) (noSearch : Bool) : St → List FullResp → St
  | s, [] => s
  | s, r :: rs =>
    let s1 := fullRaw win skip s r
    let s2 := if noSearch then s1 else searchForward s1
    if r.more then decFull win skip noSearch s2 rs else s2

def decProcessFull (win : Nat) (skip : Nat → Bool) (s : St) (noSearch : Bool) (rs : List FullResp) : St :=
  if s.state = .idle then s else
  let s := if noSearch then setGrow s true else s
  decFull win skip noSearch s rs

/-- `acmod_end_utt` (acmod.c:371-402, with the D8 repair); `tail`: whether `fe_end` yields the pending partial frame -/
def acmodEndUtt (fixD8 : Bool) (win : Nat) (skip : Nat → Bool) (s : St) (tail : Bool) : St :=
  let wasStarted := decide (s.state = .started)
  let r := endFe { s with state := .ended } tail
  if r.2 > 0 then
    let s1 := if fixD8 && wasStarted then endHead fixD8 win skip r.1 else r.1
    (processMfcbuf fixD8 win skip s1).st
  else r.1

/-- `decoder_end_utt` (decoder.c:1038-1093) -/
def decEnd (fixD8 : Bool) (win : Nat) (skip : Nat → Bool) (s : St) (tail : Bool) : St :=
  if s.state = .ended ∨ s.state = .idle then s else
  searchForward (acmodEndUtt fixD8 win skip s tail)

/-- one API call between `decoder_start_utt` and `decoder_end_utt`, or after it -/
inductive Op
  /-- `decoder_process_int16/float32(d, data, n > 0, no_search, 0)` with the front-end responses it meets -/
  | process (noSearch : Bool) (resps : List FeResp)
  /-- `decoder_process_int16/float32(d, data, n > 0, no_search, 1)`: the whole utterance in the batch regime -/
  | processFull (noSearch : Bool) (resps : List FullResp)
  /-- `decoder_hyp` / `decoder_seg_iter`: read the search state only -/
  | query
  /-- `decoder_alignment` on the current (partial or final) result; `none` when it returns before
      touching acmod (no segment / reuse of the existing alignment), `some upto` when the second pass
      runs and scores the frames below `upto` -/
  | align (steps : Option Nat)
deriving Repr, Inhabited

def Op.isProcess : Op → Bool
  | .process _ _ => true
  | .processFull _ _ => true
  | _ => false

def Op.isFull : Op → Bool
  | .processFull _ _ => true
  | _ => false

def step (fixD8 : Bool) (win : Nat) (skip : Nat → Bool) (s : St) : Op → St
  | .process ns rs =>
    -- audio after decoder_end_utt is D26 (C09), outside this property
    if s.state = .ended then fail "decoder_process after decoder_end_utt" s else decProcess fixD8 win skip s ns rs
  | .processFull ns rs =>
    if s.state = .ended then fail "decoder_process after decoder_end_utt" s else decProcessFull win skip s ns rs
  | .query => s
  | .align none => s
  | .align (some upto) => alignPass s upto

def runOps (fixD8 : Bool) (win : Nat) (skip : Nat → Bool) (s : St) (ops : List Op) : St :=
  ops.foldl (step fixD8 win skip) s

/-- a whole utterance: start, calls while it is open, end, calls on the final result -/
def runUtt (fixD8 : Bool) (win : Nat) (skip : Nat → Bool) (s0 : St) (ops : List Op) (tail : Bool) (post : List Op) : St :=
  runOps fixD8 win skip (decEnd fixD8 win skip (runOps fixD8 win skip (startUtt s0) ops) tail) post

end SSVerif.AcmodBuf
