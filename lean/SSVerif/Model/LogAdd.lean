/-!
# M1 — model of `src/logmath.c`: table-driven log-add and the integer side of `log`/`exp`

Core Lean only (linked into `ssdriver`).  Everything that is floating point in the C code
(`log`, `pow`, the products with `inv_log_of_base`) stays outside: the model starts from the
*value* of the `double` that the C code converts to `int` (given exactly, as a ratio), and from
the table that `logmath_init` produced (data, dumped from the running code into
`SSVerif/Generated/LogTables.lean`).

C anchors (`src/logmath.c`):
* `logmath_init`  l.60-159 : `zero = MAX_NEG_INT32 >> (shift + 2)`; the table `t` with
  `t[j] = round(log_b(1 + b^-(j·2^shift)) / 2^shift)`, element width 1/2/4 bytes.
* `logmath_add`   l.207-250: zero handling, absolute difference, overflow guard, out-of-table guard, lookup.
* `logmath_log`   l.252-259: `p <= 0 → zero`, else `(int)(log(p) * inv_log_of_base) >> shift`.
* `logmath_exp`   l.261-265: `pow(base, (double)(logb_p << shift))`.
-/
namespace SSVerif.LogAdd

/-- reinterpretation of an integer as a two's-complement `int32` (what the subtraction
`logb_x - logb_y` yields on the machines the code runs on when it leaves the `int` range; in
ISO C that overflow is undefined, the code guards against it with `if (d < 0)`) -/
def wrap32 (z : Int) : Int := (z + 2147483648) % 4294967296 - 2147483648

/-- `-2^31 ≤ z < 2^31` -/
def IsInt32 (z : Int) : Prop := -2147483648 ≤ z ∧ z < 2147483648

instance (z : Int) : Decidable (IsInt32 z) := by unfold IsInt32; infer_instance

/-- the part of `logmath_t` the integer code reads.  The `width`-dependent access
(`uint8`/`uint16`/`uint32` element) is collapsed: `table` holds the element values. -/
structure LogMath where
  table : Array Nat
  zero  : Int
  shift : Nat

/-- `lmath->zero = MAX_NEG_INT32 >> (shift + 2)` (arithmetic shift), l.80 -/
def zeroOf (shift : Nat) : Int := (-2147483648 : Int) >>> (shift + 2)

/-- table entry, `0` beyond the table (the value `logmath_add` effectively uses there) -/
def tval (t : Array Nat) (d : Nat) : Nat := t.getD d 0

/-- `logmath_add` with a table present (l.207-244; the `t->table == NULL` branch calls the
floating-point `logmath_add_exact` and is outside the model). -/
def logAdd (lm : LogMath) (x y : Int) : Int :=
  -- handle 0 + x = x case
  if x ≤ lm.zero then y
  else if y ≤ lm.zero then x
  else
    let d := if x > y then wrap32 (x - y) else wrap32 (y - x)
    let r := if x > y then x else y
    -- "some kind of overflow has occurred, fail gracefully"
    if d < 0 then r
    -- `(size_t)d >= t->table_size`
    else if lm.table.size ≤ d.toNat then r
    else r + (lm.table.getD d.toNat 0 : Nat)

/-- which branch of `logmath_add` an argument pair takes (used by the correspondence run to
report coverage) -/
def logAddBranch (lm : LogMath) (x y : Int) : String :=
  if x ≤ lm.zero then "x-zero"
  else if y ≤ lm.zero then "y-zero"
  else
    let d := if x > y then wrap32 (x - y) else wrap32 (y - x)
    if d < 0 then "overflow"
    else if lm.table.size ≤ d.toNat then "beyond"
    else if x > y then "table-x" else "table-y"

/-- integer post-processing of `logmath_log` (l.258): the `double` `v = log(p)·inv_log_of_base`,
given exactly as `num/den`, is converted with `(int)` — truncation **toward zero** — and then
shifted right arithmetically (rounding toward −∞). -/
def logPost (shift : Nat) (num : Int) (den : Nat) : Int := (Int.tdiv num den) >>> shift

/-- `logmath_log` with the floating-point part abstracted: `ppos` is `p > 0`, `num/den` the
value of `log(p) * inv_log_of_base`. -/
def logOf (lm : LogMath) (ppos : Bool) (num : Int) (den : Nat) : Int :=
  if ppos then logPost lm.shift num den else lm.zero

/-- integer pre-processing of `logmath_exp` (l.264): the exponent handed to `pow` is
`logb_p << shift` -/
def expArg (shift : Nat) (l : Int) : Int := l * 2 ^ shift

/-! ### run-length encoded tables (the form in which the dumped tables are stored) -/

/-- `[(v₀,n₀),(v₁,n₁),…]` ↦ `v₀` repeated `n₀` times, then `v₁` … -/
def expand : List (Nat × Nat) → List Nat
  | [] => []
  | (v, n) :: rest => List.replicate n v ++ expand rest

def tableOfRuns (runs : List (Nat × Nat)) : Array Nat := (expand runs).toArray

end SSVerif.LogAdd
