import SSVerif.Model.Ranges
/-!
# M18b — the remaining Viterbi evaluators of src/hmm.c (property C18, integer side)

`Model/Ranges.lean` has the two evaluators every `hmm_init` call of the library selects
(`hmm_vit_eval_3st_lr`, `hmm_vit_eval_5st_lr`).  `hmm_vit_eval` (hmm.c:741-759) dispatches to three more,
reachable through the exported `hmm_init(…, mpx = TRUE, …)` / with acoustic models whose phones do not have
3 or 5 emitting states:

* `hmm3MpxStep`  — `hmm_vit_eval_3st_lr_mpx` (hmm.c:569-669),
* `hmm5MpxStep`  — `hmm_vit_eval_5st_lr_mpx` (hmm.c:309-478),
* `anytopoStep`  — `hmm_vit_eval_anytopo`    (hmm.c:671-739), any number of emitting states, any topology,
                   multiplex or not,
* `H3.normalize` … — `hmm_normalize` (hmm.c:150-161) and the renormalisation test of
                   `state_align_search_step` (state_align_search.c:201-206).

As in `Model/Ranges.lean` everything is on unbounded `Int` and every step returns the list of ALL values the
C code stores in an `int32` variable, so that "no addition overflows" is the statement `∀ x ∈ trace, I32 x`.

A multiplex HMM carries one senone-sequence id per state (`hmm->senid[st]`, `BAD_SSID` = not reached yet);
`sen id st` stands for `senscore[sseq[id][st]]` (a raw `int16`).
-/
namespace SSVerif.Ranges
open SSVerif.Generated.Ranges

/-- `BAD_SSID` / `BAD_SENID` as the C code compares it (`uint16` promoted to `int`) -/
abbrev BAD : Int := ((badSsid : Nat) : Int)

/-- "Don't propagate WORST_SCORE": `t = WORST_SCORE; if (s != WORST_SCORE) t = s + tp;` -/
def noProp (s t : Int) : Int := if s ≠ WORST then s + t else WORST

/-- `if (ssid[st] == BAD_SSID) s = WORST_SCORE; else s = hmm_score(hmm, st) + mpx_senscr(st);` -/
def mpxAdd (id : Int) (score c : Int) : Int := if id = BAD then WORST else score + -c

/-- `t = s + tp` in the same `else` branch (and `t = WORST_SCORE` in the `BAD_SSID` branch) -/
def mpxOut (id : Int) (s t : Int) : Int := if id = BAD then WORST else s + t

/-! ## 3-state multiplex (hmm.c:569-669) -/

structure M3 where
  h : H3
  i0 : Int
  i1 : Int
  i2 : Int
deriving Repr, DecidableEq

/-- two-way choice of the block for state 1: `(score, history, ssid)` -/
def pick2 (v0 v1 hself hin iself iin : Int) : Int × Int × Int :=
  if v0 > v1 then (v0, hself, iself) else (v1, hin, iin)

/-- `hmm_vit_eval_3st_lr_mpx`.  The C variable `t2` is `INT_MIN` at the top, becomes `WORST_SCORE` when state 1 has
no senone sequence yet, `s1 + tp(1,3)` when the skip 1→3 exists, and is overwritten in the block for state 2 only when
the skip 0→2 exists — modelled as it is. -/
def hmm3MpxStep (tp : Nat → Nat → Nat) (sen : Int → Nat → Int) (m : M3) : M3 × List Int :=
  let h := m.h
  let s2 := mpxAdd m.i2 h.s2 (sen m.i2 2)
  let t1 := mpxOut m.i2 s2 (tprob tp 2 3)
  let s1 := mpxAdd m.i1 h.s1 (sen m.i1 1)
  let t2 := if m.i1 = BAD then WORST else (if tprob tp 1 3 > tmatWorstScore then s1 + tprob tp 1 3 else intMin)
  let s3 := clampW (if t1 > t2 then t1 else t2)
  let hout := if t1 > t2 then h.h2 else h.h1
  let s0 := h.s0 + -(sen m.i0 0)
  let u0 := noProp s2 (tprob tp 2 2)
  let u1 := noProp s1 (tprob tp 1 2)
  let u2 := if tprob tp 0 2 > tmatWorstScore then s0 + tprob tp 0 2 else t2
  let p := pick3 u0 u1 u2 h.h2 h.h1 h.h0
  let pi := pick3 u0 u1 u2 m.i2 m.i1 m.i0
  let s2c := clampW p.1
  let v0 := noProp s1 (tprob tp 1 1)
  let v1 := s0 + tprob tp 0 1
  let q := pick2 v0 v1 h.h1 h.h0 m.i1 m.i0
  let s1c := clampW q.1
  let s0' := s0 + tprob tp 0 0
  let s0c := clampW s0'
  ({ h := { s0 := s0c, s1 := s1c, s2 := s2c, out := s3, h0 := h.h0, h1 := q.2.1, h2 := p.2, hout := hout,
            best := upd (upd (upd s3 s2c) s1c) s0c },
     i0 := m.i0, i1 := q.2.2, i2 := pi.2 },
   [s2, t1, s1, t2, s3, s0, u0, u1, u2, s2c, v0, v1, s1c, s0', s0c])

def M3.enter (m : M3) (score hist : Int) : M3 := { m with h := m.h.enter score hist }

/-- `hmm_init(ctx, hmm, TRUE, ssid, tmatid)` (hmm.c:90-96, 102) -/
def M3.init (ssid : Int) : M3 := { h := H3.clear, i0 := ssid, i1 := BAD, i2 := BAD }

structure FrameM where
  enter : Option (Int × Int)
  sen : Int → Nat → Int

def FrameM.apply3 (tp : Nat → Nat → Nat) (m : M3) (f : FrameM) : M3 × List Int :=
  let m' := match f.enter with
    | some (s, hi) => m.enter s hi
    | none => m
  hmm3MpxStep tp f.sen m'

def hmm3MpxRun (tp : Nat → Nat → Nat) : M3 → List FrameM → M3 × List Int
  | m, [] => (m, [])
  | m, f :: fs =>
    let r := f.apply3 tp m
    let r' := hmm3MpxRun tp r.1 fs
    (r'.1, r.2 ++ r'.2)

/-! ## 5-state multiplex (hmm.c:309-478) -/

structure M5 where
  h : H5
  i0 : Int
  i1 : Int
  i2 : Int
  i3 : Int
  i4 : Int
deriving Repr, DecidableEq

/-- `hmm_vit_eval_5st_lr_mpx`: blocks for states 4, 3, 2, 1, 0 in this order; each block reads the histories and
sequence ids of LOWER states only, which are still the old ones. -/
def hmm5MpxStep (tp : Nat → Nat → Nat) (sen : Int → Nat → Int) (m : M5) : M5 × List Int :=
  let h := m.h
  let s4 := mpxAdd m.i4 h.s4 (sen m.i4 4)
  let t1 := mpxOut m.i4 s4 (tprob tp 4 5)
  let s3 := mpxAdd m.i3 h.s3 (sen m.i3 3)
  let t2 := mpxOut m.i3 s3 (tprob tp 3 5)
  let s5 := clampW (if t1 > t2 then t1 else t2)
  let hout := if t1 > t2 then h.h4 else h.h3
  -- state 4
  let s2 := mpxAdd m.i2 h.s2 (sen m.i2 2)
  let a2 := mpxOut m.i2 s2 (tprob tp 2 4)
  let a0 := noProp s4 (tprob tp 4 4)
  let a1 := noProp s3 (tprob tp 3 4)
  let p4 := pick3 a0 a1 a2 h.h4 h.h3 h.h2
  let q4 := pick3 a0 a1 a2 m.i4 m.i3 m.i2
  let s4c := clampW p4.1
  -- state 3
  let s1 := mpxAdd m.i1 h.s1 (sen m.i1 1)
  let b2 := mpxOut m.i1 s1 (tprob tp 1 3)
  let b0 := noProp s3 (tprob tp 3 3)
  let b1 := noProp s2 (tprob tp 2 3)
  let p3 := pick3 b0 b1 b2 h.h3 h.h2 h.h1
  let q3 := pick3 b0 b1 b2 m.i3 m.i2 m.i1
  let s3c := clampW p3.1
  -- state 2
  let s0 := h.s0 + -(sen m.i0 0)
  let c0 := noProp s2 (tprob tp 2 2)
  let c1 := noProp s1 (tprob tp 1 2)
  let c2 := s0 + tprob tp 0 2
  let p2 := pick3 c0 c1 c2 h.h2 h.h1 h.h0
  let q2 := pick3 c0 c1 c2 m.i2 m.i1 m.i0
  let s2c := clampW p2.1
  -- state 1
  let d0 := noProp s1 (tprob tp 1 1)
  let d1 := s0 + tprob tp 0 1
  let q := pick2 d0 d1 h.h1 h.h0 m.i1 m.i0
  let s1c := clampW q.1
  -- state 0
  let s0' := s0 + tprob tp 0 0
  let s0c := clampW s0'
  ({ h := { s0 := s0c, s1 := s1c, s2 := s2c, s3 := s3c, s4 := s4c, out := s5,
            h0 := h.h0, h1 := q.2.1, h2 := p2.2, h3 := p3.2, h4 := p4.2, hout := hout,
            best := upd (upd (upd (upd (upd s5 s4c) s3c) s2c) s1c) s0c },
     i0 := m.i0, i1 := q.2.2, i2 := q2.2, i3 := q3.2, i4 := q4.2 },
   [s4, t1, s3, t2, s5, s2, a2, a0, a1, s4c, s1, b2, b0, b1, s3c, s0, c0, c1, c2, s2c, d0, d1, s1c, s0', s0c])

def M5.enter (m : M5) (score hist : Int) : M5 := { m with h := m.h.enter score hist }

def M5.init (ssid : Int) : M5 := { h := H5.clear, i0 := ssid, i1 := BAD, i2 := BAD, i3 := BAD, i4 := BAD }

def FrameM.apply5 (tp : Nat → Nat → Nat) (m : M5) (f : FrameM) : M5 × List Int :=
  let m' := match f.enter with
    | some (s, hi) => m.enter s hi
    | none => m
  hmm5MpxStep tp f.sen m'

def hmm5MpxRun (tp : Nat → Nat → Nat) : M5 → List FrameM → M5 × List Int
  | m, [] => (m, [])
  | m, f :: fs =>
    let r := f.apply5 tp m
    let r' := hmm5MpxRun tp r.1 fs
    (r'.1, r.2 ++ r'.2)

/-! ## any topology (hmm.c:671-739) -/

structure HA where
  sc : List Int          -- `score[0 … n-1]`
  hist : List Int        -- `history[0 … n-1]`
  out : Int
  hout : Int
  ids : List Int         -- `senid[0 … n-1]`: senone ids (non-mpx) or senone-sequence ids (mpx)
  best : Int
deriving Repr, DecidableEq

/-- the inner loop `for (from = to - 1; from >= 0; --from) if (tp(from,to) BETTER_THAN TMAT_WORST_SCORE &&
(newscr = st_sen_scr[from] + tp(from,to)) BETTER_THAN scr) { scr = newscr; bestfrom = from; }` over the given
`from` values; accumulator = `(scr, bestfrom, stored values)` -/
def scan (tp : Nat → Nat → Nat) (st : Nat → Int) (to : Nat) : List Nat → Int × Int × List Int → Int × Int × List Int
  | [], acc => acc
  | f :: fs, acc =>
    if tprob tp f to > tmatWorstScore then
      let ns := st f + tprob tp f to
      scan tp st to fs (if ns > acc.1 then (ns, (f : Int), acc.2.2 ++ [ns]) else (acc.1, acc.2.1, acc.2.2 ++ [ns]))
    else scan tp st to fs acc

/-- the `from` values of the inner loop, in loop order -/
def fromsOf (to : Nat) : List Nat := (List.range to).reverse

/-- the self-transition start value of state `to` -/
def selfScr (tp : Nat → Nat → Nat) (st : Nat → Int) (to : Nat) : Int :=
  if tprob tp to to > tmatWorstScore then st to + tprob tp to to else WORST

/-- `st_sen_scr[i]`: state 0 is stored WITHOUT the `WORST_SCORE` floor the other states get (hmm.c:680-684).
`clamp0 = true` is the variant with the floor also on state 0 (fixes/D96). -/
def stSenScr (clamp0 : Bool) (c : Int → Nat → Int) (h : HA) (i : Nat) : Int :=
  let v := h.sc.getD i 0 + c (h.ids.getD i 0) i
  if i = 0 ∧ clamp0 = false then v else clampW v

/-- `hmm_vit_eval_anytopo`; `c id st` = `hmm_senscr(hmm, st)` for the id stored in `senid[st]` (the value that is
ADDED: `-senscore[…]`, or `WORST_SCORE` for `BAD_SENID`). -/
def anytopoStep (clamp0 mpx : Bool) (tp : Nat → Nat → Nat) (c : Int → Nat → Int) (h : HA) : HA × List Int :=
  let n := h.sc.length
  let st := stSenScr clamp0 c h
  let raw := (List.range n).map fun i => h.sc.getD i 0 + c (h.ids.getD i 0) i
  let fin := scan tp st n (fromsOf n) (WORST, -1, [])
  let rows := (List.range n).map fun to => scan tp st to (fromsOf to) (selfScr tp st to, -1, [selfScr tp st to])
  let sc' := rows.map (·.1)
  ({ sc := sc',
     hist := rows.mapIdx fun to r => if r.2.1 ≥ 0 then h.hist.getD r.2.1.toNat 0 else h.hist.getD to 0,
     out := fin.1,
     hout := if fin.2.1 ≥ 0 then h.hist.getD fin.2.1.toNat 0 else h.hout,
     ids := rows.mapIdx fun to r => if r.2.1 ≥ 0 ∧ mpx = true then h.ids.getD r.2.1.toNat 0 else h.ids.getD to 0,
     best := sc'.foldl upd fin.1 },
   raw ++ (List.range n).map st ++ fin.2.2 ++ rows.flatMap (·.2.2))

def HA.enter (h : HA) (score hi : Int) : HA := { h with sc := h.sc.set 0 score, hist := h.hist.set 0 hi }

/-- `hmm_clear` for `n` emitting states -/
def HA.clear (n : Nat) (ids : List Int) : HA :=
  { sc := List.replicate n WORST, hist := List.replicate n (-1), out := WORST, hout := -1, ids := ids, best := WORST }

structure FrameA where
  enter : Option (Int × Int)
  c : Int → Nat → Int

def FrameA.apply (clamp0 mpx : Bool) (tp : Nat → Nat → Nat) (h : HA) (f : FrameA) : HA × List Int :=
  let h' := match f.enter with
    | some (s, hi) => h.enter s hi
    | none => h
  anytopoStep clamp0 mpx tp f.c h'

def anytopoRun (clamp0 mpx : Bool) (tp : Nat → Nat → Nat) : HA → List FrameA → HA × List Int
  | h, [] => (h, [])
  | h, f :: fs =>
    let r := f.apply clamp0 mpx tp h
    let r' := anytopoRun clamp0 mpx tp r.1 fs
    (r'.1, r.2 ++ r'.2)

/-! ## `hmm_normalize` and the renormalisation test of the aligner -/

/-- `if (score BETTER_THAN WORST_SCORE) score -= bestscr;` -/
def normOne (b x : Int) : Int := if x > WORST then x - b else x

/-- `hmm_normalize(h, bestscr)` on a 3-state HMM: the three state scores and the exit score -/
def H3.normalize (b : Int) (h : H3) : H3 × List Int :=
  ({ h with s0 := normOne b h.s0, s1 := normOne b h.s1, s2 := normOne b h.s2, out := normOne b h.out },
   [normOne b h.s0, normOne b h.s1, normOne b h.s2, normOne b h.out])

def H5.normalize (b : Int) (h : H5) : H5 × List Int :=
  ({ h with s0 := normOne b h.s0, s1 := normOne b h.s1, s2 := normOne b h.s2, s3 := normOne b h.s3,
            s4 := normOne b h.s4, out := normOne b h.out },
   [normOne b h.s0, normOne b h.s1, normOne b h.s2, normOne b h.s3, normOne b h.s4, normOne b h.out])

/-- `sas->best_score BETTER_THAN WORST_SCORE && (sas->best_score - MARGIN) WORSE_THAN WORST_SCORE`
(state_align_search.c:201-202; `MARGIN` = `alignRenormMargin`, read from the source by gen_ranges.py) -/
def renormFires (best : Int) : Bool := decide (best > WORST) && decide (best - alignRenormMargin < WORST)

/-! ## the aligner's frame loop, as far as scores go (state_align_search.c:177-222) -/

/-- one frame of `state_align_search_step`: when the renormalisation test fired (`renorm = some best_score`) EVERY HMM —
active or not, `renormalize_hmms` does not look at `hmm_frame` — is normalised; then each HMM is either not evaluated
(`none`: inactive, its scores stay as they are, stale) or optionally entered (`phone_transition` of the previous frame)
and evaluated with its own transition matrix -/
structure AFrame where
  renorm : Option Int
  evals : List (Option Frame3)

/-- the renormalisation step: every HMM with the values `hmm_normalize` stores -/
def alignNorm (hs : List H3) (r : Option Int) : List (H3 × List Int) :=
  match r with
  | some b => hs.map (fun (h : H3) => h.normalize b)
  | none => hs.map (fun (h : H3) => (h, ([] : List Int)))

/-- the evaluation step -/
def alignEval (tps : Nat → Nat → Nat → Nat) (evals : List (Option Frame3)) (n : List (H3 × List Int)) :
    List (H3 × List Int) :=
  n.mapIdx fun i (p : H3 × List Int) =>
    match evals.getD i none with
    | none => (p.1, ([] : List Int))
    | some fr => fr.apply (tps i) p.1

def alignFrame (tps : Nat → Nat → Nat → Nat) (hs : List H3) (f : AFrame) : List H3 × List Int :=
  ((alignEval tps f.evals (alignNorm hs f.renorm)).map (·.1),
   (alignNorm hs f.renorm).flatMap (·.2) ++ (alignEval tps f.evals (alignNorm hs f.renorm)).flatMap (·.2))

def alignRun (tps : Nat → Nat → Nat → Nat) : List H3 → List AFrame → List H3 × List Int
  | hs, [] => (hs, [])
  | hs, f :: fs =>
    let r := alignFrame tps hs f
    let r' := alignRun tps r.1 fs
    (r'.1, r.2 ++ r'.2)

/-- number of frames in which the renormalisation branch is taken -/
def renorms : List AFrame → Nat
  | [] => 0
  | f :: fs => (if f.renorm.isSome then 1 else 0) + renorms fs

end SSVerif.Ranges
