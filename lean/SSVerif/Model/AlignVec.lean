import SSVerif.Generated.AlignVecConsts
/-!
# growable vectors of `alignment_t` (src/ps_alignment.c:80-113) — used by M15 / C09

`vector_grow_one(ptr, &n_alloc, &n_ent, item_size)`: the entry counters are `uint16`; the vector grows by
`VECTOR_GROW` entries at a time and refuses (returns NULL, `alignment_add_word` then returns 0 and
`alignment_populate` −1) as soon as the new allocation size would exceed the limit.  Only the counters are
modelled (the entries themselves are data).  Core Lean only.
-/
namespace SSVerif.AlignVec
open SSVerif.Generated.AlignVec

structure Vec where
  /-- `n_ent` -/
  n : Nat := 0
  /-- `n_alloc` -/
  alloc : Nat := 0
  deriving DecidableEq, Repr

/-- `vector_grow_one`, parametric in growth step, limit and counter width (counters are stored modulo
`2^bits`, as the C code stores them in `uint16`) -/
def growOneP (grow limit bits : Nat) (v : Vec) : Option Vec :=
  if v.n + 1 < v.alloc then some { v with n := (v.n + 1) % 2 ^ bits }
  else if v.n + 1 + grow > limit then none
  else some { n := (v.n + 1) % 2 ^ bits, alloc := (v.n + 1 + grow) % 2 ^ bits }

/-- `vector_grow_one` of the current sources -/
def growOne (v : Vec) : Option Vec := growOneP vectorGrow vectorLimit counterBits v

/-- `alignment_vector_empty` -/
def Vec.empty (v : Vec) : Vec := { v with n := 0 }

/-- up to `k` successive `vector_grow_one`; returns the vector and the number of entries that were granted -/
def growMany : Nat → Vec → Nat → Vec × Nat
  | 0, v, done => (v, done)
  | k + 1, v, done =>
    match growOne v with
    | none => (v, done)
    | some v' => growMany k v' (done + 1)

/-- an alignment built by the user with `alignment_init` / `alignment_add_word`: the three levels and the
number of phones its words expand to (sum of the pronunciation lengths) -/
structure UAlign where
  word : Vec := {}
  sseq : Vec := {}
  state : Vec := {}
  phones : Nat := 0
  deriving DecidableEq, Repr

/-- `n` × `alignment_add_word` of a word with `plen` phones -/
def UAlign.addWords (u : UAlign) (n plen : Nat) : UAlign × Nat :=
  let r := growMany n u.word 0
  ({ u with word := r.1, phones := u.phones + r.2 * plen }, r.2)

/-- `alignment_populate` / `alignment_populate_ci`: phone and state levels are emptied and refilled — one phone
entry per phone, then `emit` state entries per phone; the first refused entry ends the call with −1 -/
def UAlign.populate (u : UAlign) (emit : Nat) : UAlign × Bool :=
  let p := growMany u.phones u.sseq.empty 0
  if p.2 < u.phones then ({ u with sseq := p.1, state := u.state.empty }, false)
  else
    let s := growMany (p.2 * emit) u.state.empty 0
    ({ u with sseq := p.1, state := s.1 }, s.2 == p.2 * emit)

/-- invariant of a vector's counters: the entries in use fit the allocation, which fits the limit -/
def Vec.Ok (limit : Nat) (v : Vec) : Prop := (v.n < v.alloc ∨ (v.n = 0 ∧ v.alloc = 0)) ∧ v.alloc ≤ limit

end SSVerif.AlignVec
