import SSVerif.Model.AlignVec
/-!
# M15 — protocol automaton and ownership ledger of the public decoder API (C09)

`step : ApiState → Call → ApiState × Ret` mirrors the state checks at API entry and the
allocate/release behaviour of `src/decoder.c` and of what it drives (`fsg_search.c`,
`state_align_search.c`, `ps_lattice.c`, `ps_alignment.c`).  Core Lean only.

What a `Call` carries.  The symbolic arguments of the call *and* the part of its outcome that depends on
the audio, the grammar and the acoustic model rather than on the protocol state (`e : Bool` = "the
implementation returned non-NULL", `adv` = "the frame counter advanced", `last` = "the iterator was at
its last element").  The property theorems quantify over all call lists, hence over every possible
resolution of that data-dependent part.  Where the protocol state *forces* the outcome (no search
selected, search never started, lattice/alignment reusable) `step` ignores the flag and returns the
forced value; the correspondence run feeds the flags observed on the real library and compares the
return class and the state after every call, so a forced value the implementation does not produce
is a divergence.

Classification of a call in a state (DESIGN §4/C09):
* in-protocol — `step` returns a value of the documented class (`Ret.oop` is never returned);
* listed out-of-order (audio before start / after end, start twice, end without start, a query or
  start/end with no search selected) — `step` returns the documented error value and the state is
  unchanged (`outOfOrder`, theorem `C09_out_of_order_is_noop`);
* out-of-protocol — `step` returns `Ret.oop` and leaves the state unchanged; these are never generated:
  a decoder call without a live decoder reference, `decoder_init` while the history still holds the
  previous decoder (the harness drives one decoder at a time), changing grammar / alignment text /
  dictionary with `update=1` / re-initialising while an utterance is in progress, a `full_utt` block that
  is not the only block of its utterance, a handle slot that is empty (or, for a creating call,
  occupied), and *using* (anything but freeing) an iterator whose source object has been released
  (`Iter.valid = false`).

Scope of `ApiState`: ONE decoder with everything derived from it (iterators, lattice and alignment
references).  Configuration objects, held sub-object references (`config_retain`, `logmath_retain`, …),
MLLR transforms and the second decoder instance live one level up, in `Model/ProtocolSys.lean`, which
drives two copies of this automaton.

Lattice objects have identities (`dagId`, allocated from `nextObj`, never reused): a lattice retained
by the user (`lattice_retain`) is the same object as the search's current lattice until the search
drops it; node / link iterators (`ps_latnode_iter`, `ps_latnode_exits`, …) are pointers into one
lattice object and stay valid as long as anything holds that object and it has not been pruned
(`lattice_posterior_prune` deletes nodes and links).

Model of the **repaired** code: D55/D56 (`decoder_apply_mllr`: NULL re-applies the existing transform or
fails, the transform is consumed), D58 (`lattice_posterior_prune` keeps the start node), D26 (`decoder_process_*` rejects unless an utterance is in progress,
returning −1), D27 (`decoder_alignment` returns NULL when no word remains: covered by the data-dependent
flag), D16 (`fsg_search_free` releases the active lists).
-/
namespace SSVerif.Protocol

/-- `acmod_t.state` as seen by the entry checks of decoder.c: `ACMOD_STARTED` and `ACMOD_PROCESSING` are
merged (no entry check distinguishes them: decoder.c:896, 968, 1005, 1043) -/
inductive Utt | idle | inUtt | ended
  deriving DecidableEq, Repr

/-- `d->search`: NULL / a search whose history table is empty (created or re-initialised and not started
since: `fsg_search_find_exit` returns −1, every result query returns NULL) / started at least once -/
inductive Srch | none | fresh | used
  deriving DecidableEq, Repr

/-- what `decoder_init_grammar` finds under a grammar key of the configuration: unset / a loadable
grammar / a file that cannot be loaded -/
inductive Gram | none | good | bad
  deriving DecidableEq, Repr

/-- audio blocks given so far in the current utterance -/
inductive Blocks | none | some | full
  deriving DecidableEq, Repr

/-- where an iterator points: `segS` backtrace of the search history (`fsg_search_seg_iter`), `hyp` an
A* search over `search->dag` (`decoder_nbest`), `segH` nodes of `search->dag` (`hyp_iter_seg`), `aliD`
the alignment owned by `d->align`, `aliU k` an alignment the user retained in slot `k`, `latN o` / `latL o`
nodes / links of lattice object `o` -/
inductive IterKind | segS | hyp | segH | aliD | aliU (k : Nat)
  /-- node iterator (`ps_latnode_iter`) / link iterator (`ps_latnode_exits/_entries`) into lattice object `o` -/
  | latN (o : Nat) | latL (o : Nat)
  deriving DecidableEq, Repr

structure Iter where
  id : Nat
  kind : IterKind
  /-- the object the iterator points into has not been released since the iterator was created -/
  valid : Bool
  deriving DecidableEq, Repr

structure ApiState where
  /-- `decoder_t.refcount` as held by the history; 0 = no decoder -/
  refs : Nat := 0
  utt : Utt := .idle
  blocks : Blocks := .none
  search : Srch := .none
  /-- `search->dag != NULL` -/
  dag : Bool := false
  /-- identity of the lattice object `search->dag` points to (meaningful while `dag`) -/
  dagId : Nat := 0
  /-- next unused lattice object identity (never reset, so identities are never reused) -/
  nextObj : Nat := 0
  /-- the lattice is known to cover the current frame count (`decoder_lattice` returns it as is) -/
  dagFresh : Bool := false
  /-- `d->align != NULL` (the aligner owns its alignment) -/
  align : Bool := false
  /-- no frame has been searched since the aligner was built (`decoder_alignment` may reuse it: it does
  when the aligner stands at the current output frame, decoder.c:746-752) -/
  alFresh : Bool := false
  /-- `d->json_result != NULL` -/
  json : Bool := false
  /-- the active-node lists of the search are allocated (`fsg_search_start` … `fsg_search_finish`) -/
  active : Bool := false
  /-- `acmod->mllr != NULL` -/
  mllr : Bool := false
  /-- `d->logfh != NULL` -/
  logfh : Bool := false
  /-- iterators held by the user -/
  iters : List Iter := []
  /-- lattice references taken with `lattice_retain`: (slot, lattice object) -/
  lats : List (Nat × Nat) := []
  /-- alignment references taken with `alignment_retain` or created with `alignment_init` (slot numbers) -/
  alns : List Nat := []
  /-- of those, the alignments the user builds himself (`alignment_init` + `alignment_add_word` +
  `alignment_populate`): the entry counters of their three levels -/
  built : List (Nat × AlignVec.UAlign) := []
  deriving DecidableEq, Repr

/-- return classes: 0 / <0 / NULL / non-NULL / a count ≥ 0 / the new reference count / no value /
"not a call of the protocol" -/
inductive Ret | ok | err | null | ptr | count | rc (n : Nat) | void | oop
  deriving DecidableEq, Repr

inductive AlSrc | dec | user (k : Nat)
  deriving DecidableEq, Repr

/-- the lattice a `lattice_*` call works on: the decoder's current one (`decoder_lattice(d)`) or one the
user retained in slot `k` -/
inductive LatSrc | dec | user (k : Nat)
  deriving DecidableEq, Repr

/-- argument of `decoder_set_logfile`: NULL / a file that can be opened / one that cannot -/
inductive LogArg | null | file | bad
  deriving DecidableEq, Repr

inductive Call
  /-- `decoder_init(config)`; `g` = what `decoder_init_grammar` finds in the configuration (computed from the
  configuration object by the system level), `fails` = the configuration is NULL or names a missing
  model directory (initialisation fails before the grammar is looked at) -/
  | init (g : Gram) (fails : Bool)
  /-- `decoder_reinit(d, config)` with `g` = what the configuration in force afterwards names -/
  | reinit (g : Gram)
  /-- `decoder_reinit_feat(d, NULL)` -/
  | reinitFeat
  | retain | free
  /-- `decoder_set_logfile` -/
  | logfile (a : LogArg)
  /-- `decoder_apply_mllr(d, mllr)`; `given = false`: the documented NULL argument -/
  | mllrApply (given : Bool)
  /-- a call that only takes the decoder and returns nothing (`config_*` on `decoder_config(d)`,
  `*_retain(decoder_*(d))`: their effect is recorded at the system level) -/
  | touch
  /-- the documented-NULL calls: `decoder_free(NULL)`, `decoder_retain(NULL)`, `lattice_free(NULL)`, … -/
  | freeNull
  | start
  | proc (full adv : Bool)
  | endUtt (adv : Bool)
  | hyp (e : Bool) | prob | nframes | times | getCmn | setCmn
  | seg (id : Nat) (e : Bool) | segNext (id : Nat) (last : Bool) | segFree (id : Nat)
  | nbest (id : Nat) (eDag eHyp : Bool) | hypNext (id : Nat) (last : Bool) | hypFree (id : Nat)
  | hypSeg (dst src : Nat) (e : Bool)
  | lattice (e : Bool) | latRetain (k : Nat) (e : Bool) | latWalk (k : Nat) | latFree (k : Nat)
  /-- `lattice_bestpath` + `lattice_posterior` (+ `lattice_hyp`, `lattice_seg_iter`): `e` = there is a lattice,
  `eb` = a best path exists -/
  | latBest (src : LatSrc) (e eb : Bool)
  /-- best path, posterior and `lattice_posterior_prune`; returns the number of links removed -/
  | latPrune (src : LatSrc) (e eb : Bool)
  /-- `lattice_traverse_edges/_next` or `lattice_reverse_edges/_next`, possibly abandoned half-way -/
  | latTrav (src : LatSrc) (e : Bool)
  | lnode (id : Nat) (src : LatSrc) (e ei : Bool) | lnodeNext (id : Nat) (last : Bool) | lnodeFree (id : Nat)
  | llink (dst src : Nat) (e : Bool) | llinkNext (id : Nat) (last : Bool) | llinkFree (id : Nat)
  | align (reuse r a : Bool) | alRetain (k : Nat) (reuse r a : Bool) | alFree (k : Nat)
  /-- `alignment_init(d->d2p)` into slot `k` -/
  | alBuild (k : Nat)
  /-- `n` × `alignment_add_word` of a word with `plen` phones; returns how many were accepted -/
  | alAdd (k n plen : Nat)
  /-- `alignment_populate` / `_populate_ci` with `emit` states per phone -/
  | alPop (k emit : Nat)
  | alIter (id : Nat) (src : AlSrc) (reuse r a e : Bool) | aliNext (id : Nat) (last : Bool)
  | aliChild (dst src : Nat) (e : Bool) | aliGoto (id : Nat) (gone : Bool) | aliFree (id : Nat)
  | json (lvl : Nat) (reuse r a : Bool)
  | lookup (found : Bool) | addWord (update ok : Bool)
  /-- `decoder_set_jsgf_string/_file`, `decoder_set_fsg`, `decoder_set_align_text`; `good` = the grammar
  loads (`false`: empty string, no public rule, word missing from the dictionary, …) -/
  | setGrammar (good : Bool)
  deriving DecidableEq, Repr

/-! ## iterator table -/

def isSeg : IterKind → Bool | .segS => true | .segH => true | _ => false
def isHyp : IterKind → Bool | .hyp => true | _ => false
def isAli : IterKind → Bool | .aliD => true | .aliU _ => true | _ => false
def isLatN : IterKind → Bool | .latN _ => true | _ => false
def isLatL : IterKind → Bool | .latL _ => true | _ => false
def isSegS : IterKind → Bool | .segS => true | _ => false
def isAliD : IterKind → Bool | .aliD => true | _ => false
def isAliU (k : Nat) : IterKind → Bool | .aliU j => j == k | _ => false

/-- some user reference holds lattice object `o` -/
def holds (lats : List (Nat × Nat)) (o : Nat) : Bool := lats.any (·.2 == o)

/-- the lattice object retained in a slot -/
def latObj (lats : List (Nat × Nat)) (k : Nat) : Option Nat := (lats.find? (·.1 == k)).map (·.2)

/-- iterators that die when the search drops its current lattice object: A* searches and their
segmentations always; node / link iterators unless a user reference keeps the object alive -/
def dagDrop (dagId : Nat) (lats : List (Nat × Nat)) : IterKind → Bool
  | .hyp => true | .segH => true
  | .latN o => o == dagId && !holds lats o
  | .latL o => o == dagId && !holds lats o
  | _ => false
/-- everything derived from the search: history backtraces and the lattice -/
def resultDrop (dagId : Nat) (lats : List (Nat × Nat)) (k : IterKind) : Bool := isSegS k || dagDrop dagId lats k
/-- everything that dies with the decoder's search and aligner -/
def decoderDrop (dagId : Nat) (lats : List (Nat × Nat)) : IterKind → Bool
  | .aliU _ => false
  | .latN o => dagDrop dagId lats (.latN o)
  | .latL o => dagDrop dagId lats (.latL o)
  | _ => true
/-- iterators into a lattice object whose nodes and links were deleted by `lattice_posterior_prune` -/
def pruneDrop (cur : Bool) (o : Nat) : IterKind → Bool
  | .latN o' => o' == o | .latL o' => o' == o
  | .hyp => cur | .segH => cur
  | _ => false
/-- node / link iterators into an object that neither the search nor a user reference holds -/
def unheld (dag : Bool) (dagId : Nat) (lats : List (Nat × Nat)) : IterKind → Bool
  | .latN o => !(dag && dagId == o) && !holds lats o
  | .latL o => !(dag && dagId == o) && !holds lats o
  | _ => false

def invalidate (p : IterKind → Bool) (l : List Iter) : List Iter :=
  l.map fun it => if p it.kind then { it with valid := false } else it

def findIter (l : List Iter) (id : Nat) : Option Iter := l.find? (·.id == id)
def removeIter (l : List Iter) (id : Nat) : List Iter := l.filter (·.id != id)

/-! ## shared sub-steps -/

/-- `decoder_lattice` (fsg_search.c:1345): NULL without a search; the existing lattice when it covers the
current frame count; otherwise the old lattice object is dropped by the search (iterators into it die
unless the user retained it) and a new object is built, which fails on an empty history -/
def latticeStep (s : ApiState) (e : Bool) : ApiState × Bool :=
  if s.search = .none then (s, false)
  else if s.dag && s.dagFresh then (s, true)
  else
    let ok := decide (s.search = .used) && e
    ({ s with iters := invalidate (dagDrop s.dagId s.lats) s.iters, dag := ok, dagFresh := ok,
              dagId := s.nextObj, nextObj := s.nextObj + 1 }, ok)

/-- `decoder_alignment` (decoder.c:737): `reuse` = the existing aligner stands at the current output frame
and is returned as is (only possible when an aligner exists and no frame was searched since it was
built); NULL when there is no segmentation; otherwise the old aligner is released (its iterators die) and
a new one is built (`r` = returned non-NULL, `a` = an aligner exists afterwards) -/
def alignStep (s : ApiState) (reuse r a : Bool) : ApiState × Bool :=
  if s.align && s.alFresh && reuse then (s, true)
  else if s.search ≠ .used then (s, false)
  else
    ({ s with iters := invalidate isAliD s.iters, align := r || a || s.align, alFresh := r || a || s.align }, r)

/-- what `decoder_free` releases when the count reaches zero, and `decoder_reinit` before reloading
(the acoustic model, hence its transform, is rebuilt by both) -/
def dropDecoderOwned (s : ApiState) : ApiState :=
  { s with utt := .idle, blocks := .none, search := .none, dag := false, dagFresh := false, align := false,
           alFresh := false, json := false, active := false, mllr := false,
           iters := invalidate (decoderDrop s.dagId s.lats) s.iters }

/-- `decoder_init_grammar` on a decoder whose searches were just released -/
def loadGrammar (s : ApiState) (g : Gram) : ApiState × Ret :=
  match g with
  | .none => (s, .ok)
  | .good => ({ s with search := .fresh }, .ok)
  | .bad => (s, .err)

/-- the lattice a `lattice_*` call works on and its object identity (`none`: no lattice, or an empty slot) -/
def latOf (s : ApiState) (src : LatSrc) (e : Bool) : ApiState × Option Nat :=
  match src with
  | .dec => let r := latticeStep s e; (r.1, if r.2 then some r.1.dagId else none)
  | .user k => (s, latObj s.lats k)

/-- may the call be made at all: the decoder's lattice needs a decoder, a retained one its slot -/
def latSrcOk (s : ApiState) : LatSrc → Bool
  | .dec => s.refs != 0
  | .user k => (latObj s.lats k).isSome

def builtOf (l : List (Nat × AlignVec.UAlign)) (k : Nat) : Option AlignVec.UAlign := (l.find? (·.1 == k)).map (·.2)
def setBuilt (l : List (Nat × AlignVec.UAlign)) (k : Nat) (u : AlignVec.UAlign) : List (Nat × AlignVec.UAlign) :=
  (k, u) :: l.filter (·.1 != k)

def ptrIf (b : Bool) : Ret := if b then .ptr else .null

/-! ## the automaton -/

def step (s : ApiState) (c : Call) : ApiState × Ret :=
  match c with
  | .freeNull => (s, .ok)
  | .init g fails =>
    if s.refs ≠ 0 then (s, .oop)
    else if fails then (s, .null)
    else
      let s0 : ApiState := { iters := s.iters, lats := s.lats, alns := s.alns, built := s.built, refs := 1,
                             nextObj := s.nextObj }
      match loadGrammar s0 g with
      | (s2, .ok) => (s2, .ptr)
      | _ => (s, .null)            -- decoder_init frees the half-built decoder
  | .segFree id =>
    match findIter s.iters id with
    | some it => if isSeg it.kind then ({ s with iters := removeIter s.iters id }, .void) else (s, .oop)
    | none => (s, .oop)
  | .hypFree id =>
    match findIter s.iters id with
    | some it => if isHyp it.kind then ({ s with iters := removeIter s.iters id }, .void) else (s, .oop)
    | none => (s, .oop)
  | .aliFree id =>
    match findIter s.iters id with
    | some it => if isAli it.kind then ({ s with iters := removeIter s.iters id }, .void) else (s, .oop)
    | none => (s, .oop)
  | .lnodeFree id =>
    -- ps_latnode_iter_free does nothing: the handle is simply dropped
    match findIter s.iters id with
    | some it => if isLatN it.kind then ({ s with iters := removeIter s.iters id }, .void) else (s, .oop)
    | none => (s, .oop)
  | .llinkFree id =>
    match findIter s.iters id with
    | some it => if isLatL it.kind then ({ s with iters := removeIter s.iters id }, .void) else (s, .oop)
    | none => (s, .oop)
  | .segNext id last =>
    match findIter s.iters id with
    | some it =>
      if isSeg it.kind && it.valid then
        if last then ({ s with iters := removeIter s.iters id }, .null) else (s, .ptr)
      else (s, .oop)
    | none => (s, .oop)
  | .hypNext id last =>
    match findIter s.iters id with
    | some it =>
      if isHyp it.kind && it.valid then
        if last then ({ s with iters := removeIter s.iters id }, .null) else (s, .ptr)
      else (s, .oop)
    | none => (s, .oop)
  | .aliNext id last =>
    match findIter s.iters id with
    | some it =>
      if isAli it.kind && it.valid then
        if last then ({ s with iters := removeIter s.iters id }, .null) else (s, .ptr)
      else (s, .oop)
    | none => (s, .oop)
  | .aliGoto id gone =>
    match findIter s.iters id with
    | some it =>
      if isAli it.kind && it.valid then
        if gone then ({ s with iters := removeIter s.iters id }, .null) else (s, .ptr)
      else (s, .oop)
    | none => (s, .oop)
  | .lnodeNext id last =>
    match findIter s.iters id with
    | some it =>
      if isLatN it.kind && it.valid then
        if last then ({ s with iters := removeIter s.iters id }, .null) else (s, .ptr)
      else (s, .oop)
    | none => (s, .oop)
  | .llinkNext id last =>
    match findIter s.iters id with
    | some it =>
      if isLatL it.kind && it.valid then
        if last then ({ s with iters := removeIter s.iters id }, .null) else (s, .ptr)
      else (s, .oop)
    | none => (s, .oop)
  | .hypSeg dst src e =>
    match findIter s.iters src, findIter s.iters dst with
    | some it, none =>
      if isHyp it.kind && it.valid then
        if e then ({ s with iters := { id := dst, kind := .segH, valid := true } :: s.iters }, .ptr) else (s, .null)
      else (s, .oop)
    | _, _ => (s, .oop)
  | .aliChild dst src e =>
    match findIter s.iters src, findIter s.iters dst with
    | some it, none =>
      if isAli it.kind && it.valid then
        if e then ({ s with iters := { id := dst, kind := it.kind, valid := true } :: s.iters }, .ptr) else (s, .null)
      else (s, .oop)
    | _, _ => (s, .oop)
  | .llink dst src e =>
    match findIter s.iters src, findIter s.iters dst with
    | some it, none =>
      match it.kind with
      | .latN o =>
        if it.valid then
          if e then ({ s with iters := { id := dst, kind := .latL o, valid := true } :: s.iters }, .ptr) else (s, .null)
        else (s, .oop)
      | _ => (s, .oop)
    | _, _ => (s, .oop)
  | .latWalk k => if (latObj s.lats k).isSome then (s, .void) else (s, .oop)
  | .latFree k =>
    if (latObj s.lats k).isSome then
      let lats' := s.lats.filter (·.1 != k)
      -- an object dies with its last reference (the search's `dag` or another slot's)
      ({ s with lats := lats', iters := invalidate (unheld s.dag s.dagId lats') s.iters }, .void)
    else (s, .oop)
  | .alFree k =>
    if k ∈ s.alns then
      ({ s with alns := s.alns.filter (· != k), built := s.built.filter (·.1 != k),
                iters := invalidate (isAliU k) s.iters }, .void)
    else (s, .oop)
  | .alAdd k n plen =>
    -- ps_alignment.c:114-128: the word level grows entry by entry until `vector_grow_one` refuses
    match builtOf s.built k with
    | some u =>
      ({ s with built := setBuilt s.built k (u.addWords n plen).1, iters := invalidate (isAliU k) s.iters }, .count)
    | none => (s, .oop)
  | .alPop k emit =>
    -- ps_alignment.c:131-248: −1 as soon as a phone or state entry is refused
    match builtOf s.built k with
    | some u =>
      ({ s with built := setBuilt s.built k (u.populate emit).1, iters := invalidate (isAliU k) s.iters },
       if (u.populate emit).2 then .ok else .err)
    | none => (s, .oop)
  | .alIter id (.user k) _ _ _ e =>
    if k ∈ s.alns ∧ findIter s.iters id = none then
      if e then ({ s with iters := { id := id, kind := .aliU k, valid := true } :: s.iters }, .ptr) else (s, .null)
    else (s, .oop)
  | .latBest src e eb =>
    if !latSrcOk s src then (s, .oop) else
    let r := latOf s src e
    (r.1, ptrIf (r.2.isSome && eb))
  | .latTrav src e =>
    if !latSrcOk s src then (s, .oop) else
    let r := latOf s src e
    (r.1, if r.2.isSome then .count else .null)
  | .latPrune src e eb =>
    if !latSrcOk s src then (s, .oop) else
    let r := latOf s src e
    match r.2 with
    | some o =>
      if eb then
        -- nodes and links are deleted: every iterator into this object dies
        ({ r.1 with iters := invalidate (pruneDrop (r.1.dag && r.1.dagId == o) o) r.1.iters }, .count)
      else (r.1, .null)
    | none => (r.1, .null)
  | .lnode id src e ei =>
    if !latSrcOk s src || (findIter s.iters id).isSome then (s, .oop) else
    let r := latOf s src e
    match r.2 with
    | some o =>
      if ei then ({ r.1 with iters := { id := id, kind := .latN o, valid := true } :: r.1.iters }, .ptr)
      else (r.1, .null)
    | none => (r.1, .null)
  | c =>
    -- every remaining call takes the decoder
    if s.refs = 0 then (s, .oop) else
    match c with
    | .retain => ({ s with refs := s.refs + 1 }, .ptr)
    | .touch => (s, .void)
    | .free =>
      if s.refs = 1 then
        -- decoder_free closes the log file too
        ({ dropDecoderOwned s with refs := 0, logfh := false }, .rc 0)
      else ({ s with refs := s.refs - 1 }, .rc (s.refs - 1))
    | .reinit g =>
      if s.utt = .inUtt then (s, .oop) else
      loadGrammar (dropDecoderOwned s) g
    | .reinitFeat =>
      -- the feature buffers are reallocated: out-of-protocol while they hold an utterance
      if s.utt = .inUtt then (s, .oop) else (s, .ok)
    | .logfile a =>
      match a with
      | .null => ({ s with logfh := false }, .ok)
      | .file => ({ s with logfh := true }, .ok)
      | .bad => (s, .err)
    | .mllrApply given =>
      -- the Gaussians are reloaded and transformed: out-of-protocol while an utterance is scored with them
      if s.utt = .inUtt then (s, .oop)
      else if given then ({ s with mllr := true }, .ptr)
      else (s, ptrIf s.mllr)
    | .start =>
      -- decoder.c:896-905
      if s.utt = .inUtt then (s, .err)
      else if s.search = .none then (s, .err)
      else
        ({ s with utt := .inUtt, blocks := .none, search := .used, dag := false, dagFresh := false, align := false,
                  alFresh := false, json := false, active := true,
                  iters := invalidate (fun k => resultDrop s.dagId s.lats k || isAliD k) s.iters }, .ok)
    | .proc full adv =>
      -- decoder.c:968 / 1005 (repaired: reject unless an utterance is in progress)
      if s.utt ≠ .inUtt then (s, .err)
      else if s.blocks = .full ∨ (full ∧ s.blocks ≠ .none) then (s, .oop)
      else
        ({ s with blocks := if full then .full else .some,
                  dagFresh := s.dagFresh && !adv, alFresh := s.alFresh && !adv }, .count)
    | .endUtt adv =>
      -- decoder.c:1038-1046
      if s.search = .none then (s, .err)
      else if s.utt ≠ .inUtt then (s, .err)
      else
        -- the aligner made for the partial result is released (decoder.c: "an alignment made for a partial result
        -- no longer describes it"), its iterators die
        ({ s with utt := .ended, active := false, dagFresh := s.dagFresh && !adv, align := false, alFresh := false,
                  iters := invalidate isAliD s.iters }, .ok)
    | .hyp e => (s, ptrIf (decide (s.search = .used) && e))
    | .prob => (s, if s.search = .none then .err else .count)
    | .nframes => (s, .count)
    | .times => (s, .void)
    | .getCmn => (s, .ptr)
    | .setCmn => (s, .ok)
    | .lookup found => (s, ptrIf found)
    | .seg id e =>
      if findIter s.iters id ≠ none then (s, .oop)
      else if decide (s.search = .used) && e then
        ({ s with iters := { id := id, kind := .segS, valid := true } :: s.iters }, .ptr)
      else (s, .null)
    | .lattice e => let r := latticeStep s e; (r.1, ptrIf r.2)
    | .latRetain k e =>
      if (latObj s.lats k).isSome then (s, .oop) else
      let r := latticeStep s e
      if r.2 then ({ r.1 with lats := (k, r.1.dagId) :: r.1.lats }, .ptr) else (r.1, .null)
    | .nbest id eDag eHyp =>
      if findIter s.iters id ≠ none then (s, .oop) else
      let r := latticeStep s eDag
      if r.2 && eHyp then
        ({ r.1 with iters := { id := id, kind := .hyp, valid := true } :: r.1.iters }, .ptr)
      else (r.1, .null)
    | .alBuild k =>
      if k ∈ s.alns then (s, .oop)
      else ({ s with alns := k :: s.alns, built := setBuilt s.built k {} }, .ptr)
    | .align ru r a => let x := alignStep s ru r a; (x.1, ptrIf x.2)
    | .alRetain k ru r a =>
      if k ∈ s.alns then (s, .oop) else
      let x := alignStep s ru r a
      if x.2 then ({ x.1 with alns := k :: x.1.alns }, .ptr) else (x.1, .null)
    | .alIter id .dec ru r a e =>
      if findIter s.iters id ≠ none then (s, .oop) else
      let x := alignStep s ru r a
      if x.2 && e then
        ({ x.1 with iters := { id := id, kind := .aliD, valid := true } :: x.1.iters }, .ptr)
      else (x.1, .null)
    | .json lvl ru r a =>
      if lvl = 0 then ({ s with json := true }, .ptr)
      else
        let x := alignStep s ru r a
        if x.2 then ({ x.1 with json := true }, .ptr) else (x.1, .null)
    | .addWord update ok =>
      if update ∧ s.utt = .inUtt then (s, .oop)
      else if !ok then (s, .err)
      else if update ∧ s.search ≠ .none then
        -- fsg_search_reinit: the history table is reset; since fix D130 the aligner of the re-initialised
        -- search is released with it (its iterators die)
        ({ s with search := .fresh, align := false, alFresh := false,
                  iters := invalidate (fun k => isSegS k || isAliD k) s.iters }, .count)
      else (s, .count)
    | .setGrammar good =>
      if s.utt = .inUtt then (s, .oop)
      else if !good then (s, .err)
      else
        -- decoder_set_fsg: the old search (history, lattice) is released and, since fix D130, the aligner of the
        -- replaced search with it (its iterators die); the JSON stays
        ({ s with search := .fresh, dag := false, dagFresh := false, active := false, align := false, alFresh := false,
                  iters := invalidate (fun k => resultDrop s.dagId s.lats k || isAliD k) s.iters }, .ok)
    | _ => (s, .oop)

def run (s : ApiState) : List Call → ApiState
  | [] => s
  | c :: cs => run (step s c).1 cs

/-- the returns along a history -/
def runRets (s : ApiState) : List Call → List Ret
  | [] => []
  | c :: cs => (step s c).2 :: runRets (step s c).1 cs

def init0 : ApiState := {}

/-! ## ownership ledger -/

/-- one entry per live reference: who holds what -/
inductive Ref
  | userDecoder | decoderConfig | decoderSearch | searchLattice | searchActiveLists | decoderAligner | decoderJson
  | decoderTransform | decoderLogFile
  | userIter (id : Nat) | userLattice (k : Nat) | userAlignment (k : Nat)
  deriving DecidableEq, Repr

def ledger (s : ApiState) : List Ref :=
  List.replicate s.refs .userDecoder
  ++ (if s.refs ≠ 0 then [.decoderConfig] else [])
  ++ (if s.search ≠ .none then [.decoderSearch] else [])
  ++ (if s.dag then [.searchLattice] else [])
  ++ (if s.active then [.searchActiveLists] else [])
  ++ (if s.align then [.decoderAligner] else [])
  ++ (if s.json then [.decoderJson] else [])
  ++ (if s.mllr then [.decoderTransform] else [])
  ++ (if s.logfh then [.decoderLogFile] else [])
  ++ s.iters.map (fun it => .userIter it.id)
  ++ s.lats.map (fun p => .userLattice p.1)
  ++ s.alns.map .userAlignment

/-- the history has released the last decoder reference, freed or exhausted every iterator and dropped
every reference it took -/
def Closed (s : ApiState) : Prop := s.refs = 0 ∧ s.iters = [] ∧ s.lats = [] ∧ s.alns = []

/-- the object an iterator of this kind points into is alive -/
def live (s : ApiState) : IterKind → Prop
  | .segS => s.search = .used
  | .hyp => s.dag = true
  | .segH => s.dag = true
  | .aliD => s.align = true
  | .aliU k => k ∈ s.alns
  | .latN o => (s.dag = true ∧ s.dagId = o) ∨ holds s.lats o = true
  | .latL o => (s.dag = true ∧ s.dagId = o) ∨ holds s.lats o = true

/-- well-formedness of a protocol state (invariant of `step`) -/
structure WF (s : ApiState) : Prop where
  dead : s.refs = 0 → s.search = .none ∧ s.utt = .idle ∧ s.align = false ∧ s.json = false
          ∧ s.mllr = false ∧ s.logfh = false
  noSearch : s.search = .none → s.dag = false ∧ s.utt ≠ .inUtt
  activeIff : s.active = true ↔ s.utt = .inUtt
  inUtt : s.utt = .inUtt → s.search = .used
  dagFresh : s.dagFresh = true → s.dag = true
  alFresh : s.alFresh = true → s.align = true
  iters : ∀ it ∈ s.iters, it.valid = true → live s it.kind

/-- the listed out-of-order calls (property text: "audio before start or after end, start twice, end
without start" and queries / start / end with no search selected) -/
def outOfOrder (s : ApiState) : Call → Prop
  | .proc _ _ => s.refs ≠ 0 ∧ s.utt ≠ .inUtt
  | .start => s.refs ≠ 0 ∧ (s.utt = .inUtt ∨ s.search = .none)
  | .endUtt _ => s.refs ≠ 0 ∧ (s.utt ≠ .inUtt ∨ s.search = .none)
  | .hyp _ => s.refs ≠ 0 ∧ s.search = .none
  | .prob => s.refs ≠ 0 ∧ s.search = .none
  | .seg id _ => s.refs ≠ 0 ∧ s.search = .none ∧ findIter s.iters id = none
  | .lattice _ => s.refs ≠ 0 ∧ s.search = .none
  | .latBest src _ _ => src = .dec ∧ s.refs ≠ 0 ∧ s.search = .none
  | .latTrav src _ => src = .dec ∧ s.refs ≠ 0 ∧ s.search = .none
  | .latPrune src _ _ => src = .dec ∧ s.refs ≠ 0 ∧ s.search = .none
  | .latRetain k _ => s.refs ≠ 0 ∧ s.search = .none ∧ latObj s.lats k = none
  | .nbest id _ _ => s.refs ≠ 0 ∧ s.search = .none ∧ findIter s.iters id = none
  | _ => False

instance (s : ApiState) : Decidable (Closed s) := by unfold Closed; infer_instance
instance (s : ApiState) (c : Call) : Decidable (outOfOrder s c) := by
  cases c <;> simp only [outOfOrder] <;> infer_instance

/-- the documented error value of a call -/
def errorValue : Call → Ret
  | .proc _ _ => .err
  | .start => .err
  | .endUtt _ => .err
  | .prob => .err
  | _ => .null

/-- the documented return classes of a call (what an in-protocol call may return) -/
def docClass : Call → List Ret
  | .freeNull => [.ok]
  | .init _ _ => [.ptr, .null]
  | .reinit _ => [.ok, .err]
  | .reinitFeat => [.ok, .err]
  | .logfile _ => [.ok, .err]
  | .touch => [.void]
  | .latTrav _ _ => [.count, .null]
  | .latPrune _ _ _ => [.count, .null]
  | .lnodeFree _ => [.void] | .llinkFree _ => [.void]
  | .alBuild _ => [.ptr] | .alAdd _ _ _ => [.count] | .alPop _ _ => [.ok, .err]
  | .retain => [.ptr]
  | .free => []          -- the new reference count, see `isDoc`
  | .start => [.ok, .err]
  | .proc _ _ => [.count, .err]
  | .endUtt _ => [.ok, .err]
  | .prob => [.count, .err]
  | .nframes => [.count]
  | .times => [.void]
  | .getCmn => [.ptr]
  | .setCmn => [.ok]
  | .segFree _ => [.void] | .hypFree _ => [.void] | .aliFree _ => [.void] | .latWalk _ => [.void]
  | .latFree _ => [.void] | .alFree _ => [.void]
  | .addWord _ _ => [.count, .err]
  | .setGrammar _ => [.ok, .err]
  | _ => [.ptr, .null]

def isDoc (c : Call) (r : Ret) : Prop :=
  r ∈ docClass c ∨ (c = .free ∧ ∃ n, r = .rc n)

end SSVerif.Protocol
