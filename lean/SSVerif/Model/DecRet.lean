import SSVerif.Model.AcmodBuf
/-!
# M5r — the return values of `decoder_process_int16/float32` and the frame counters of `decoder.c`

`Model/AcmodBuf.lean` (M5) models the decoder-level loops as state transformers (`searchForward`, `decLoop`,
`decProcess`, `decFull`, `decProcessFull`, `decEnd`): they say what the acoustic model looks like afterwards but not
what the calls **return**.  This file adds exactly that, mirroring the counters of the C code:

* `search_module_forward` (decoder.c:963-985): `nfr = 0; while (n_feat_frame > 0) { if ((k = step(..)) < 0) return k;
  acmod_advance; ++d->n_frame; ++nfr; } return nfr;` — `fwdLoop`, which returns the state, the number of completed
  iterations (the increment of `d->n_frame`) and the return value;
* `decoder_process_int16/float32` (decoder.c:987-1059): `n_searchfr = 0; … while (n_samples) { if ((nfr =
  acmod_process_*(..)) < 0) return nfr; if (no_search) continue; if ((nfr = search_module_forward(d)) < 0) return nfr;
  n_searchfr += nfr; } return n_searchfr;` — `decLoopRv` / `decFullRv` with the accumulator as an argument,
  `decProcessRv` / `decProcessFullRv` with the state test in front (`return -1` when the utterance is not started);
* `decoder_end_utt` (decoder.c:1061-1123): `acmod_end_utt`, `search_module_forward` (its count is *not* returned:
  `rv` is overwritten by `search_module_finish`, which returns 0) — `decEndRv`;
* `decoder_n_frames` (decoder.c:1281-1285): `output_frame + nFramesOffset` is in `Props/C03Frames.lean`.

The state component of every function here is computed by the same operations as the M5 function it extends
(`Props/C03Ret.lean` proves the two equal on every well-formed open utterance, and proves what the counters are).
An error return of a search step (`k < 0`) is the M5 fault "acmod_score: frame outside the feature queue"; the value
returned is then `-1` and the loops stop, as in the C code.

Core Lean only.
-/
namespace SSVerif.DecRet
open SSVerif.AcmodBuf

/-- result of a call that searches: state, number of search steps completed (`d->n_frame` grows by it), return value -/
structure Ret where
  st : St
  /-- completed iterations of `search_module_forward`'s loop = increment of `d->n_frame` -/
  cnt : Nat
  /-- the `int` the C function returns (`< 0`: error) -/
  rv : Int
deriving Repr, Inhabited

/-- the loop of `search_module_forward` (decoder.c:973-984); `nfr`: the local counter.  `fuel` bounds the iterations
    (every iteration removes one frame from the queue, so `n_feat_frame` is enough) -/
def fwdLoop : Nat → St → Nat → Ret
  | 0, s, nfr => ⟨s, nfr, nfr⟩
  | fuel + 1, s, nfr =>
    -- `while (d->acmod->n_feat_frame > 0)`
    if s.nFeatFrame > 0 then
      -- `if ((k = search_module_step(d->search, d->acmod->output_frame)) < 0) return k;`
      match scoreRead s with
      | some e =>
        -- `acmod_advance(d->acmod); ++d->n_frame; ++nfr;`
        fwdLoop fuel (advance { s with searched := s.searched ++ [e] }) (nfr + 1)
      | none => ⟨fail "acmod_score: frame outside the feature queue" s, nfr, -1⟩
    else ⟨s, nfr, nfr⟩

/-- `search_module_forward` (decoder.c:963-985): `nfr = 0; while …; return nfr;` -/
def searchForwardRv (s : St) : Ret := fwdLoop s.nFeatFrame s 0

/-- the `while (n_samples)` loop of `decoder_process_int16/float32`, `full_utt = 0` (decoder.c:1004-1019, 1041-1056);
    `acc` is `n_searchfr`, `cnt` the growth of `d->n_frame` so far in this call -/
def decLoopRv (fixD8 : Bool) (win : Nat) (skip : Nat → Bool) (noSearch : Bool) : Nat → St → List FeResp → Nat → Int → Ret
  | 0, s, _, cnt, acc => ⟨fail "decoder_process loop does not terminate" s, cnt, acc⟩
  | fuel + 1, s, rs, cnt, acc =>
    -- `acmod_process_raw(..)` (never negative in the streaming regime)
    let r := processRaw fixD8 win skip s rs
    if noSearch then
      -- `if (no_search) continue;`
      if r.more then decLoopRv fixD8 win skip noSearch fuel r.st r.rest cnt acc else ⟨r.st, cnt, acc⟩
    else
      let f := searchForwardRv r.st
      -- `if ((nfr = search_module_forward(d)) < 0) return nfr;`
      if f.rv < 0 then ⟨f.st, cnt + f.cnt, f.rv⟩ else
      -- `n_searchfr += nfr;`
      if r.more then decLoopRv fixD8 win skip noSearch fuel f.st r.rest (cnt + f.cnt) (acc + f.rv)
      else ⟨f.st, cnt + f.cnt, acc + f.rv⟩

/-- `decoder_process_int16/float32`, `full_utt = 0` (decoder.c:987-1059); `rs = []` stands for `n_samples = 0`.
    On an idle decoder the C code logs an error and returns `-1` (an ended one is refused at `stepRv`, as in M5). -/
def decProcessRv (fixD8 : Bool) (win : Nat) (skip : Nat → Bool) (s : St) (noSearch : Bool) (rs : List FeResp) : Ret :=
  if s.state = .idle then ⟨s, 0, -1⟩ else
  let s := if noSearch then setGrow s true else s
  -- `int n_searchfr = 0; … return n_searchfr;` with no sample
  if rs.isEmpty then ⟨s, 0, 0⟩ else
  decLoopRv fixD8 win skip noSearch (rs.length + 1) s rs 0 0

/-- the same loop with `full_utt = 1`: one `acmod_process_full_*` call per iteration -/
def decFullRv (win : Nat) (skip : Nat → Bool) (noSearch : Bool) : St → List FullResp → Nat → Int → Ret
  | s, [], cnt, acc => ⟨s, cnt, acc⟩
  | s, r :: rs, cnt, acc =>
    let s1 := fullRaw win skip s r
    if noSearch then
      if r.more then decFullRv win skip noSearch s1 rs cnt acc else ⟨s1, cnt, acc⟩
    else
      let f := searchForwardRv s1
      if f.rv < 0 then ⟨f.st, cnt + f.cnt, f.rv⟩ else
      if r.more then decFullRv win skip noSearch f.st rs (cnt + f.cnt) (acc + f.rv)
      else ⟨f.st, cnt + f.cnt, acc + f.rv⟩

def decProcessFullRv (win : Nat) (skip : Nat → Bool) (s : St) (noSearch : Bool) (rs : List FullResp) : Ret :=
  if s.state = .idle then ⟨s, 0, -1⟩ else
  let s := if noSearch then setGrow s true else s
  decFullRv win skip noSearch s rs 0 0

/-- `decoder_end_utt` (decoder.c:1061-1123): `-1` when no utterance is open; otherwise `acmod_end_utt`, then
    `search_module_forward` — whose count goes to `d->n_frame` only (`cnt`) —, then `search_module_finish`, whose
    return value (0) is what `decoder_end_utt` returns -/
def decEndRv (fixD8 : Bool) (win : Nat) (skip : Nat → Bool) (s : St) (tail : Bool) : Ret :=
  if s.state = .ended ∨ s.state = .idle then ⟨s, 0, -1⟩ else
  let f := searchForwardRv (acmodEndUtt fixD8 win skip s tail)
  if f.rv < 0 then f else ⟨f.st, f.cnt, 0⟩

/-- one API call with what it returns: `some rv` for the processing calls, `none` for the calls that return no frame
    count (`decoder_hyp`, `decoder_seg_iter`, `decoder_alignment`); `cnt` = growth of `d->n_frame` -/
def stepRv (fixD8 : Bool) (win : Nat) (skip : Nat → Bool) (s : St) : Op → St × Nat × Option Int
  | .process ns rs =>
    if s.state = .ended then (fail "decoder_process after decoder_end_utt" s, 0, some (-1)) else
    let r := decProcessRv fixD8 win skip s ns rs
    (r.st, r.cnt, some r.rv)
  | .processFull ns rs =>
    if s.state = .ended then (fail "decoder_process after decoder_end_utt" s, 0, some (-1)) else
    let r := decProcessFullRv win skip s ns rs
    (r.st, r.cnt, some r.rv)
  | op => (step fixD8 win skip s op, 0, none)

/-- the values the processing calls of a call sequence return, in order -/
def returnsRv (fixD8 : Bool) (win : Nat) (skip : Nat → Bool) : St → List Op → List Int
  | _, [] => []
  | s, op :: ops =>
    let r := stepRv fixD8 win skip s op
    (match r.2.2 with | some rv => [rv] | none => []) ++ returnsRv fixD8 win skip r.1 ops

/-- `d->n_frame` growth over a call sequence -/
def countRv (fixD8 : Bool) (win : Nat) (skip : Nat → Bool) : St → List Op → Nat
  | _, [] => 0
  | s, op :: ops =>
    let r := stepRv fixD8 win skip s op
    r.2.1 + countRv fixD8 win skip r.1 ops

end SSVerif.DecRet
