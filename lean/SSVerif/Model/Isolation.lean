/-!
# M15 (dataflow part) — an abstract read/write/dependency model of per-utterance state (C08)

A *cell* is a unit of storage (here: a group of struct fields / owned buffers of the decoder, see
`SSVerif.Model.Api`).  Every cell holds an `Option Val`: `none` means "the bytes that are there were
not written in this utterance" — the C code leaves old bytes in place, the model forgets them.
An operation in a protocol phase has a *specification*:

* `reads`  — every cell the operation may read; a read goes through an accessor that **fails on `none`**
             (`Err.stale`), so a run that succeeds has never looked at stale storage;
* `writes` — the cells it (re)defines, each either with the cell's canonical constant (`WriteKind.const`,
             e.g. "all HMMs cleared", "frame counter 0") or with an **uninterpreted** function of a declared
             list of dependency cells and of the operation's input (audio chunk, grammar, CMN text);
* `kills`  — cells whose content is declared dead from here on (model only; `decoder_start_utt`).

Nothing is assumed about the functions (`sem`) or the constants (`K`): every theorem in
`SSVerif.Props.C08` holds for all of them, hence for the real arithmetic of the decoder, *provided the
declared sets are right* — which is what the harness validates on the implementation (byte-level
snapshots per call for the write sets, poisoning and fresh-decoder comparison for the read and
dependency sets).  Core Lean only.
-/
namespace SSVerif.Isolation

/-- how a written cell gets its new value -/
inductive WriteKind (Cell : Type) where
  /-- the canonical value `K c` of the cell, whoever writes it -/
  | const : WriteKind Cell
  /-- an uninterpreted function of these cells (values before the operation) and of the input -/
  | fn (deps : List Cell) : WriteKind Cell
  deriving Repr

/-- read / write / kill sets of one operation in one protocol phase -/
structure Spec (Cell : Type) where
  reads : List Cell
  writes : List (Cell × WriteKind Cell)
  kills : List Cell
  deriving Repr

/-- a protocol automaton with a specification per (phase, operation) -/
structure Sys (Cell Phase Op : Type) where
  /-- `none`: the operation is outside the protocol in this phase -/
  trans : Phase → Op → Option Phase
  spec : Phase → Op → Spec Cell
  /-- cells that are never killed and are defined from initialisation on -/
  always : Cell → Bool
  /-- killable cells that are guaranteed to be (re)defined while in this phase -/
  defd : Phase → List Cell

abbrev State (Cell Val : Type) := Cell → Option Val

inductive Err (Cell : Type) where
  /-- the call is not allowed by the protocol in this phase -/
  | protocol : Err Cell
  /-- the operation read a cell that holds nothing written in this utterance -/
  | stale (c : Cell) : Err Cell
  deriving Repr

variable {Cell Phase Op Val Inp : Type} [DecidableEq Cell]

/-- new content of every cell after an operation with specification `sp` -/
def applySpec (K : Cell → Val) (f : Cell → List (Option Val) → Val) (sp : Spec Cell)
    (s : State Cell Val) : State Cell Val := fun c =>
  match sp.writes.lookup c with
  | some .const => some (K c)
  | some (.fn deps) => some (f c (deps.map s))
  | none => if c ∈ sp.kills then none else s c

/-- the first read cell that is undefined, if any -/
def firstStale (sp : Spec Cell) (s : State Cell Val) : Option Cell :=
  sp.reads.find? (fun c => (s c).isNone)

/-- one operation: protocol check, definedness check of every read, then the writes -/
def step (S : Sys Cell Phase Op) (K : Cell → Val)
    (sem : Op → Inp → Cell → List (Option Val) → Val)
    (cfg : Phase × State Cell Val) (op : Op) (i : Inp) : Except (Err Cell) (Phase × State Cell Val) :=
  match S.trans cfg.1 op with
  | none => .error .protocol
  | some ph' =>
    match firstStale (S.spec cfg.1 op) cfg.2 with
    | some c => .error (.stale c)
    | none => .ok (ph', applySpec K (sem op i) (S.spec cfg.1 op) cfg.2)

/-- a history of operations -/
def run (S : Sys Cell Phase Op) (K : Cell → Val)
    (sem : Op → Inp → Cell → List (Option Val) → Val) :
    Phase × State Cell Val → List (Op × Inp) → Except (Err Cell) (Phase × State Cell Val)
  | cfg, [] => .ok cfg
  | cfg, (op, i) :: rest =>
    match step S K sem cfg op i with
    | .error e => .error e
    | .ok cfg' => run S K sem cfg' rest

/-! ## several decoder instances in one process

Cells with `isG c = true` are the writable globals of the library: one copy shared by all instances.
Every other cell exists once per instance. -/

structure MState (I Cell Phase Val : Type) where
  phase : I → Phase
  loc : I → Cell → Option Val
  shared : Cell → Option Val

variable {I : Type} [DecidableEq I]

/-- what instance `i` sees -/
def view (isG : Cell → Bool) (ms : MState I Cell Phase Val) (i : I) : State Cell Val :=
  fun c => if isG c then ms.shared c else ms.loc i c

/-- an operation on instance `i` -/
def stepI (S : Sys Cell Phase Op) (K : Cell → Val)
    (sem : Op → Inp → Cell → List (Option Val) → Val) (isG : Cell → Bool)
    (ms : MState I Cell Phase Val) (i : I) (op : Op) (inp : Inp) :
    Except (Err Cell) (MState I Cell Phase Val) :=
  match step S K sem (ms.phase i, view isG ms i) op inp with
  | .error e => .error e
  | .ok (ph', s') =>
    .ok { phase := fun j => if j = i then ph' else ms.phase j
          loc := fun j c => if j = i then s' c else ms.loc j c
          shared := fun c => if isG c then s' c else ms.shared c }

/-- an interleaving of operations on several instances -/
def runI (S : Sys Cell Phase Op) (K : Cell → Val)
    (sem : Op → Inp → Cell → List (Option Val) → Val) (isG : Cell → Bool) :
    MState I Cell Phase Val → List (I × Op × Inp) → Except (Err Cell) (MState I Cell Phase Val)
  | ms, [] => .ok ms
  | ms, (i, op, inp) :: rest =>
    match stepI S K sem isG ms i op inp with
    | .error e => .error e
    | .ok ms' => runI S K sem isG ms' rest

/-- the operations of instance `i` in an interleaving -/
def opsOf (i : I) : List (I × Op × Inp) → List (Op × Inp)
  | [] => []
  | (j, op, inp) :: rest => if j = i then (op, inp) :: opsOf i rest else opsOf i rest

end SSVerif.Isolation
