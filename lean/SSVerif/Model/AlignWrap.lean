import SSVerif.Model.Align
/-!
# M11b — the wrapper `decoder_alignment` (decoder.c:756-825) around the second pass

Core Lean only.  The model is the code of /repo HEAD (with the repairs D29 — the second pass is stepped only up to the
end of the first-pass hypothesis —, D70 — `decoder_end_utt` disposes of the aligner — and D130 — so does every call that
replaces or re-initialises `d->search`: `replaceSearch`):

```
if (d->align && align->frame == acmod->output_frame) return align->al;        -- reuse shortcut
seg = decoder_seg_iter(d);  if (!seg) return NULL;
prev_ef = -1;
for each seg: wid = dict_wordid(seg->word);
              if (wid != BAD_S3WID) { assert(seg->sf == prev_ef + 1); prev_ef = seg->ef; add_word(wid, sf, ef-sf+1); }
if (n_words == 0) return NULL;            populate
free old d->align; d->align = state_align_search_init(al)                      -- frame 0
output_frame = acmod->output_frame; acmod_rewind (fails when output_frame > n_feat_alloc); start
while (acmod->output_frame < output_frame) { if (acmod->output_frame <= prev_ef) step(acmod->output_frame); advance }
finish (fails: return NULL, d->align stays) ; return al
```

Only segments whose word is **not in the dictionary** (null transitions, `wid = -1`) are dropped: filler words that are
dictionary entries (`<sil>`, `[NOISE]`) are aligned like any other word.  The second pass itself is a parameter
(`pass2 words T`: `alignment_populate`, `state_align_search_start`/`step` over frames `0 .. T-1`, `finish`); the driver
instantiates it with the model's `populate`/`finish` on the token stack dumped from that very request, the theorems with
the step model.  Not modelled: failure of `alignment_populate`, `state_align_search_init`, `search_module_start` and
`search_module_step` (allocation / scorer errors).
-/
namespace SSVerif.Align.Wrap

/-- one segment of `decoder_seg_iter`: `wid = dict_wordid(d->dict, seg->word)` (`-1` = `BAD_S3WID`), first and last frame -/
structure FSeg where
  wid : Int
  sf : Int
  ef : Int
  deriving Repr, DecidableEq, Inhabited

/-- `d->align`: the alignment search left behind by an earlier request.  `serial` identifies the `alignment_t` object
(`sas->al`); `result = some a` when `finish` succeeded (then `sas->al` holds `a`), `none` when the object is half built
(rewind or `finish` failed). -/
structure Aligner where
  serial : Nat
  frame : Nat
  words : List Entry
  result : Option Alignment
  deriving Repr, DecidableEq, Inhabited

/-- the part of `decoder_t` the wrapper reads and writes -/
structure Dec where
  align : Option Aligner := none
  /-- `acmod->output_frame` -/
  outFrame : Nat := 0
  /-- `acmod->n_feat_alloc` -/
  nAlloc : Nat := 0
  /-- number of `alignment_t` objects created so far -/
  serial : Nat := 0
  deriving Repr, DecidableEq, Inhabited

/-- what `decoder_alignment` returns -/
inductive Res where
  | null
  /-- `assert(seg->sf == prev_ef + 1)` fails -/
  | assertFail
  /-- the object `serial`; `reused` = handed out by the shortcut; `content = none` = a half-built object -/
  | al (serial : Nat) (reused : Bool) (content : Option Alignment)
  deriving Repr, DecidableEq, Inhabited

/-- the segments that reach `alignment_add_word` -/
def keep (segs : List FSeg) : List FSeg := segs.filter (fun s => s.wid ≠ -1)

/-- the arguments of `alignment_add_word` -/
def wordsOf (segs : List FSeg) : List Entry := (keep segs).map fun s => mkWord s.wid s.sf (s.ef - s.sf + 1)

/-- the segment loop: `prev_ef` after the loop, `none` when the assertion fails -/
def scan : Int → List FSeg → Option Int
  | pe, [] => some pe
  | pe, s :: r => if s.wid = -1 then scan pe r else if s.sf = pe + 1 then scan s.ef r else none

/-- the replay loop (`fuel` iterations at most): `of` = `acmod->output_frame`, `steps` = frame indices passed to
`search_module_step` so far (in order).  Returns the final `output_frame` and the stepped frames. -/
def replay (saved : Nat) (prevEf : Int) : Nat → Nat → List Nat → Nat × List Nat
  | 0, of, steps => (of, steps)
  | fuel + 1, of, steps =>
    if of < saved then replay saved prevEf fuel (of + 1) (if (of : Int) ≤ prevEf then steps ++ [of] else steps)
    else (of, steps)

/-- `decoder_alignment` below the reuse shortcut.  `segs = none`: `decoder_seg_iter` returned NULL. -/
def requestFresh (pass2 : List Entry → Nat → Option Alignment) (d : Dec) (segs : Option (List FSeg)) : Res × Dec :=
  match segs with
  | none => (.null, d)
  | some segs =>
    match scan (-1) segs with
    | none => (.assertFail, d)
    | some pe =>
      if (wordsOf segs).isEmpty then (.null, d)
      else if d.outFrame > d.nAlloc then
        -- acmod_rewind fails: the new aligner (frame 0) stays in d->align
        (.null, { d with align := some ⟨d.serial + 1, 0, wordsOf segs, none⟩, serial := d.serial + 1 })
      else
        match pass2 (wordsOf segs) (replay d.outFrame pe d.outFrame 0 []).2.length with
        | none =>
          (.null, { d with align := some ⟨d.serial + 1, (replay d.outFrame pe d.outFrame 0 []).2.length, wordsOf segs, none⟩,
                           serial := d.serial + 1, outFrame := (replay d.outFrame pe d.outFrame 0 []).1 })
        | some a =>
          (.al (d.serial + 1) false (some a),
           { d with align := some ⟨d.serial + 1, (replay d.outFrame pe d.outFrame 0 []).2.length, wordsOf segs, some a⟩,
                    serial := d.serial + 1, outFrame := (replay d.outFrame pe d.outFrame 0 []).1 })

/-- `decoder_alignment` -/
def request (pass2 : List Entry → Nat → Option Alignment) (d : Dec) (segs : Option (List FSeg)) : Res × Dec :=
  match d.align with
  | some al => if al.frame = d.outFrame then (.al al.serial true al.result, d) else requestFresh pass2 d segs
  | none => requestFresh pass2 d segs

/-- `decoder_start_utt`: the aligner is disposed of, the acoustic model restarts at frame 0 -/
def startUtt (d : Dec) : Dec := { d with align := none, outFrame := 0 }

/-- `decoder_end_utt`: the aligner is disposed of (D70) -/
def endUtt (d : Dec) : Dec := { d with align := none }

/-- the decoder's search is replaced or re-initialised — `decoder_set_fsg` after the new search was created (and through
it `decoder_set_jsgf_string`/`_file`, `decoder_set_align_text`), `decoder_add_word(update = TRUE)`: the result the
aligner was computed from is gone, the aligner is disposed of (D130).  A refused grammar (no new search) is not this
event: it leaves the decoder, its result and the aligner alone. -/
def replaceSearch (d : Dec) : Dec := { d with align := none }

/-- `decoder_process_*` / the remaining frames searched by `decoder_end_utt`: the acoustic model has moved on -/
def advance (d : Dec) (outFrame nAlloc : Nat) : Dec := { d with outFrame, nAlloc }

/-- number of frames the second pass sees -/
def nSteps (outFrame : Nat) (prevEf : Int) : Nat := min outFrame (prevEf + 1).toNat

end SSVerif.Align.Wrap
