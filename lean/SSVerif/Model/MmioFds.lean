/-!
# The descriptor ledger of `mmio_file_read` (mmio.c:125-160)

`mmio_file_read(filename)` is the only routine of the library that opens a model file for mapping
(`s3file_map_file` → `mmio_file_read`; mdef, means, variances, sendump / mixture_weights, transition_matrices,
feature_transform, dict, fdict, fsg files).  Its control flow, as the code has it:

```
fd = open(filename, O_RDONLY)            -- fails: return NULL
fstat(fd, &buf)                          -- fails: close(fd); return NULL
ptr = mmap(NULL, st_size, …, fd, 0)      -- fails (always for st_size = 0: EINVAL): close(fd); return NULL
close(fd)
mf = ckd_calloc(…)  … return mf
```

The model records the OS-level events of one call as a list and the result (`true` = non-NULL).  The kernel side is
a parameter: whether `open`, `fstat`, `mmap` succeed (`mmap` of a zero-length file never does).  Core Lean only.
-/
namespace SSVerif.S3file

/-- OS-level resource events of the mapping routine -/
inductive MmioEv where
  | openFd | closeFd | map (len : Nat)
deriving Repr, DecidableEq

/-- what the kernel answers to the three calls of `mmio_file_read` on one file -/
structure MmioEnv where
  openOk : Bool
  statOk : Bool
  size : Nat          -- `buf.st_size`
  mmapOk : Bool       -- the kernel's answer for a non-empty file; a request of length 0 fails with EINVAL

/-- `mmap(NULL, size, …)` succeeds -/
def MmioEnv.maps (e : MmioEnv) : Bool := e.mmapOk && decide (e.size ≠ 0)

/-- `mmio_file_read`: (events in program order, returned a mapping) -/
def mmioRead (e : MmioEnv) : List MmioEv × Bool :=
  if !e.openOk then ([], false)
  else if !e.statOk then ([.openFd, .closeFd], false)
  else if !e.maps then ([.openFd, .closeFd], false)
  else ([.openFd, .map e.size, .closeFd], true)

/-- descriptors held after the events, starting from `n` (`none`: a close without an open) -/
def fdsAfter : List MmioEv → Nat → Option Nat
  | [], n => some n
  | .openFd :: r, n => fdsAfter r (n + 1)
  | .closeFd :: r, n => if n = 0 then none else fdsAfter r (n - 1)
  | .map _ :: r, n => fdsAfter r n

/-- mappings created by the events -/
def mapsIn : List MmioEv → Nat
  | [] => 0
  | .map _ :: r => mapsIn r + 1
  | _ :: r => mapsIn r

end SSVerif.S3file
