import SSVerif.Model.LogAdd
import SSVerif.Generated.LogTables
/-!
# The `logmath_t` instances of the code base, assembled from the generated tables

`dec` — decoder default (`decoder.c:267`, `logbase` default, shift 0);
`s8b` — `lmath_8b` of the semi-continuous/PTM/multi-stream scorers (same base, `SENSCR_SHIFT`);
`tst` — `tests/test_log_shifted.c`; `w1` — a small base with 1-byte table elements;
`wb` — a base at the 1-byte/2-byte width boundary (`t[0] = 256`, `⌊log_b 2⌋ = 255`).
Core Lean only (linked into `ssdriver`).
-/
namespace SSVerif.LogAdd
open SSVerif.Generated.LogTables

/-- one generated configuration: the rational base `baseNum/baseDen`, the shift, the table
shape reported by `logmath_get_table_shape`, `logmath_get_zero`, and the dumped table -/
structure Config where
  baseNum : Nat
  baseDen : Nat
  shift : Nat
  /-- `baseNum ^ 2^shift`, `baseDen ^ 2^shift` as literals (checked in `Config.checks`) -/
  effNum : Nat
  effDen : Nat
  width : Nat
  size : Nat
  zero : Int
  runs : List (Nat × Nat)

def Config.lm (c : Config) : LogMath := { table := tableOfRuns c.runs, zero := c.zero, shift := c.shift }

def cfgDec : Config := ⟨dec_baseNum, dec_baseDen, dec_shift, dec_effNum, dec_effDen, dec_width, dec_size, dec_zero, dec_runs⟩
def cfgS8b : Config := ⟨s8b_baseNum, s8b_baseDen, s8b_shift, s8b_effNum, s8b_effDen, s8b_width, s8b_size, s8b_zero, s8b_runs⟩
def cfgTst : Config := ⟨tst_baseNum, tst_baseDen, tst_shift, tst_effNum, tst_effDen, tst_width, tst_size, tst_zero, tst_runs⟩
def cfgW1 : Config := ⟨w1_baseNum, w1_baseDen, w1_shift, w1_effNum, w1_effDen, w1_width, w1_size, w1_zero, w1_runs⟩
def cfgWb : Config := ⟨wb_baseNum, wb_baseDen, wb_shift, wb_effNum, wb_effDen, wb_width, wb_size, wb_zero, wb_runs⟩

def configs : List (String × Config) := [("dec", cfgDec), ("s8b", cfgS8b), ("tst", cfgTst), ("w1", cfgW1), ("wb", cfgWb)]

/-- the element width `logmath_init` chooses (l.86-97): 1 byte below 256, 2 bytes below 65536,
else 4, applied to the first (largest) table entry `t[0] = round(log_b 2 / 2^shift)`.  This is the
repaired behaviour (fix D50): the pinned code floors the shift in its estimate
(`round(log_b 2) >> shift`), which is one too small — and the entry wraps — when `shift > 0` and
`log_b 2 / 2^shift` rounds up to 256 or 65536.  At shift 0 and away from those boundaries the
two agree; `Config.Checked.width_eq` checks the reported width per generated configuration
(`cfgWb` sits on the 1-byte boundary) and the correspondence of the `cfg` line checks it on
every run, also for boundary bases at shifts 0/1/8/10. -/
def widthOf (t0 : Nat) : Nat := if t0 < 256 then 1 else if t0 < 65536 then 2 else 4

end SSVerif.LogAdd
