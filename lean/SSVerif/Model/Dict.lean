import SSVerif.Model.HashTable
import SSVerif.Generated.DictConsts
/-!
# M14 — model of the pronunciation dictionary (`src/dict.c`), of the phone-string parser of
`decoder_add_word` (`src/decoder.c:800-888`) and of the lazily filled word-boundary tables of
`dict2pid_add_word` (`src/dict2pid.c:286-352`)

The word table is the list `d->word[0 .. n_word)`.  The hash table `d->ht` is modelled as the finite
map that property C20 proves `hash_table.c` to be: an association list from the spelling *modulo the
table's key equality* (bytes, or bytes after ASCII upper-casing when `d->nocase`) to the word id;
`hash_table_enter` keeps the first value of a key and returns it.

The model is the code **with the repairs D03, D04, D05** (`/verif/fixes`): the empty word is rejected
before anything else, an empty pronunciation is rejected by `decoder_add_word`, and the alternate
chain is linked only after the duplicate test.  (D02 is a buffer size; it has no counterpart in a
model over lists.)
-/
namespace SSVerif.Dict
open SSVerif.HashTable (Key upper)
open SSVerif.Generated

/-- key under which a spelling lives in the abstract map (cf. `C20_key_equality`) -/
def norm (nocase : Bool) (k : Key) : Key := if nocase then k.map upper else k

/-- `dictword_t`; `alt = none` is `BAD_S3WID` -/
structure Entry where
  word : Key
  pron : List Nat
  basewid : Nat
  alt : Option Nat
deriving DecidableEq, Repr, Inhabited

/-- `dict_t` -/
structure Dict where
  nocase : Bool
  words : List Entry
  ht : List (Key × Nat)
  maxWords : Nat
  fillerStart : Nat := 0
  fillerEnd : Nat := 0
  startwid : Option Nat := none
  finishwid : Option Nat := none
  silwid : Option Nat := none
deriving Repr

def Dict.empty (nocase : Bool) (maxWords : Nat) : Dict := { nocase, words := [], ht := [], maxWords }

/-- `dict_wordid`: `hash_table_lookup_int32`, `none` = `BAD_S3WID` -/
def Dict.wordid (d : Dict) (w : Key) : Option Nat := d.ht.lookup (norm d.nocase w)

/-- `hash_table_enter_int32`: an existing key keeps its value, which is returned -/
def htEnter (ht : List (Key × Nat)) (k : Key) (v : Nat) : List (Key × Nat) × Nat :=
  match ht.lookup k with
  | some v' => (ht, v')
  | none => ((k, v) :: ht, v)

/-- the loop `for (i = len - 2; (i > 0) && (word[i] != '('); --i)` of `dict_word2basestr`, started at `i` -/
def scanParen (w : Key) : Nat → Nat
  | 0 => 0
  | i + 1 => if w.getD (i + 1) 0 = 40 then i + 1 else scanParen w i

/-- `dict_word2basestr` (dict.c:400-418, with the D03 guard): `some base` when the C function
returns `i > 0` and truncates the word to its first `i` bytes, `none` when it returns -1.
For `len = 1` the C index `len - 2 = -1` fails `i > 0` exactly like the truncated `0` here. -/
def word2basestr (w : Key) : Option Key :=
  if w.length = 0 then none
  else if w.getD (w.length - 1) 0 = 41 then
    let i := scanParen w (w.length - 2)
    if i > 0 then some (w.take i) else none
  else none

/-- growth step at the head of `dict_add_word` (dict.c:79-85) -/
def grow (d : Dict) : Dict :=
  if d.words.length ≥ d.maxWords then { d with maxWords := d.maxWords + s3dictIncSz } else d

/-- "Determine base/alt wids" (dict.c:90-102): `none` = missing base word (failure),
`some none` = not an alternate, `some (some w)` = alternate of word id `w` -/
def findBase (d : Dict) (word : Key) : Option (Option Nat) :=
  match word2basestr word with
  | none => some none
  | some b =>
    match d.wordid b with
    | none => none
    | some w => some (some w)

/-- "Link into alt list" (after D05: executed only once the word is known to be new) followed by the
append of the filled entry -/
def linkAndAppend (d : Dict) (word : Key) (pron : List Nat) (basew : Option Nat) (ht' : List (Key × Nat)) : Dict :=
  let n := d.words.length
  match basew with
  | none => { d with words := d.words ++ [{ word, pron, basewid := n, alt := none }], ht := ht' }
  | some w =>
    match d.words[w]? with
    | none => { d with words := d.words ++ [{ word, pron, basewid := w, alt := none }], ht := ht' }
    | some b =>
      { d with words := d.words.set w { b with alt := some n } ++ [{ word, pron, basewid := w, alt := b.alt }],
               ht := ht' }

/-- `dict_add_word` (dict.c:71-134).  Returns the new dictionary and the word id (`none` = `BAD_S3WID`).
Order of the steps: empty-word guard (D03), growth, base lookup, hash registration = duplicate test,
alt linking (D05), pronunciation copy (`np = 0` gives an entry without pronunciation). -/
def dictAddWord (d : Dict) (word : Key) (pron : List Nat) : Dict × Option Nat :=
  if word = [] then (d, none) else
  let d1 := grow d
  let n := d1.words.length
  match findBase d1 word with
  | none => (d1, none)
  | some basew =>
    let r := htEnter d1.ht (norm d1.nocase word) n
    if r.2 ≠ n then (d1, none)
    else (linkAndAppend d1 word pron basew r.1, some n)

/-! ## phone strings -/

/-- `isspace_c` (strfuncs.c; the byte set is regenerated from the source) -/
def isSpace (c : UInt8) : Bool := isspaceChars.contains c

/-- scanner of `decoder_add_word` (decoder.c:823-844): maximal runs of non-space bytes, in order;
`cur` is the run being read, reversed -/
def tokensAux : List UInt8 → Key → List Key
  | [], cur => if cur = [] then [] else [cur.reverse]
  | c :: cs, cur =>
    if isSpace c then (if cur = [] then tokensAux cs [] else cur.reverse :: tokensAux cs [])
    else tokensAux cs (c :: cur)

def tokens (s : Key) : List Key := tokensAux s []

/-- what the dictionary needs of `bin_mdef_t`: the CI phone names in id order and the silence phone -/
structure Mdef where
  ciphones : List Key
  sil : Nat
deriving Repr

/-- `bin_mdef_ciphone_id` (exact match; the binary search of the C code relies on the sorted table,
which the harness re-checks: every name maps back to its index) -/
def Mdef.ciphoneId (m : Mdef) (k : Key) : Option Nat :=
  let i := m.ciphones.idxOf k
  if i < m.ciphones.length then some i else none

/-- `bin_mdef_ciphone_id_nocase` -/
def Mdef.ciphoneIdNocase (m : Mdef) (k : Key) : Option Nat :=
  let i := (m.ciphones.map (norm true)).idxOf (norm true k)
  if i < m.ciphones.length then some i else none

def Mdef.name (m : Mdef) (i : Nat) : Key := m.ciphones.getD i []

/-- phone names to ids; fails at the first unknown phone -/
def mapIds (f : Key → Option Nat) : List Key → Option (List Nat)
  | [] => some []
  | t :: ts =>
    match f t with
    | none => none
    | some i => (mapIds f ts).map (i :: ·)

/-- the parse loop of `decoder_add_word` -/
def parsePhones (m : Mdef) (s : Key) : Option (List Nat) := mapIds m.ciphoneId (tokens s)

/-- `decoder_add_word` restricted to the dictionary (decoder.c:800-851, with D04): unknown phone or
no phone at all ⇒ -1 without touching the dictionary -/
def decoderAddWord (m : Mdef) (d : Dict) (word phones : Key) : Dict × Option Nat :=
  match parsePhones m phones with
  | none => (d, none)
  | some pron => if pron = [] then (d, none) else dictAddWord d word pron

/-- phone names joined by single spaces (`decoder_lookup_word`) -/
def joinSp : List Key → Key
  | [] => []
  | [a] => a
  | a :: b :: r => a ++ 32 :: joinSp (b :: r)

/-- `decoder_lookup_word`: `none` = NULL -/
def decoderLookup (m : Mdef) (d : Dict) (word : Key) : Option Key :=
  match d.wordid word with
  | none => none
  | some i => (d.words[i]?).map fun e => joinSp (e.pron.map m.name)

/-! ## alternate chains, base strings, filler test -/

def Dict.altOf (d : Dict) (i : Nat) : Option Nat := (d.words[i]?).bind (·.alt)

/-- follow `dict_nextalt` from `i` (exclusive) for at most `fuel` steps -/
def chainFuel (alt : Nat → Option Nat) : Nat → Nat → List Nat
  | 0, _ => []
  | fuel + 1, i =>
    match alt i with
    | none => []
    | some a => a :: chainFuel alt fuel a

/-- the loop `while ((wid = dict_nextalt(dict, wid)) != BAD_S3WID)` of `fsg_search_add_altpron`;
`n_word` steps suffice in every reachable dictionary (`C16_alt_chain`) -/
def Dict.altChain (d : Dict) (i : Nat) : List Nat := chainFuel d.altOf d.words.length i

/-- `dict_basestr(d, i)` -/
def Dict.basestr (d : Dict) (i : Nat) : Option Key :=
  (d.words[i]?).bind fun e => (d.words[e.basewid]?).map (·.word)

/-- the word at `i` is not of the form `base(...)` -/
def Dict.isBase (d : Dict) (i : Nat) : Bool :=
  match d.words[i]? with
  | some e => (word2basestr e.word).isNone
  | none => false

/-- `dict_filler_word` -/
def Dict.isFiller (d : Dict) (i : Nat) : Bool :=
  match d.words[i]? with
  | none => false
  | some e =>
    let w := e.basewid
    if some w = d.startwid ∨ some w = d.finishwid then false
    else decide (d.fillerStart ≤ w ∧ w ≤ d.fillerEnd)

/-! ## reading the dictionary files (`dict_read_s3file`, `dict_init_s3file`) -/

/-- one non-comment line `word phone...`: no phones or an unknown phone ⇒ ignored, else `dict_add_word`
whose failure is ignored too -/
def readLine (m : Mdef) (d : Dict) (line : Key × Key) : Dict :=
  let toks := tokens line.2
  if toks = [] then d else
  match mapIds (if d.nocase then m.ciphoneIdNocase else m.ciphoneId) toks with
  | none => d
  | some pron => (dictAddWord d line.1 pron).1

def addIfMissing (m : Mdef) (d : Dict) (w : Key) : Dict :=
  if d.wordid w = none then (dictAddWord d w [m.sil]).1 else d

/-- `dict_init_s3file`; `none` = NULL (special word in the main dictionary, `<sil>` not a filler) -/
def dictInit (m : Mdef) (nocase : Bool) (lines flines : List (Key × Key)) : Option Dict :=
  let d0 := Dict.empty nocase (lines.length + flines.length + s3dictIncSz)
  let d1 := lines.foldl (readLine m) d0
  if d1.wordid s3StartWord ≠ none ∨ d1.wordid s3FinishWord ≠ none ∨ d1.wordid s3SilenceWord ≠ none then none else
  let d2 := { d1 with fillerStart := d1.words.length }
  let d3 := flines.foldl (readLine m) d2
  let d4 := addIfMissing m (addIfMissing m (addIfMissing m d3 s3StartWord) s3FinishWord) s3SilenceWord
  let d5 := { d4 with fillerEnd := d4.words.length - 1, startwid := d4.wordid s3StartWord,
                      finishwid := d4.wordid s3FinishWord, silwid := d4.wordid s3SilenceWord }
  if d5.fillerStart > d5.fillerEnd then none else
  match d5.silwid with
  | none => none
  | some s => if d5.isFiller s then some d5 else none

/-! ## operation histories -/

inductive Op where
  /-- `decoder_add_word(word, phones)` -/
  | add (word phones : Key)
  /-- `dict_add_word(word, pron)` called directly -/
  | dadd (word : Key) (pron : List Nat)
  /-- `decoder_lookup_word(word)` -/
  | lookup (word : Key)
  /-- `dict_wordid(word)` -/
  | wid (word : Key)
deriving Repr

inductive Res where
  | id (r : Option Nat)
  | phones (r : Option Key)
deriving Repr, DecidableEq

def step (m : Mdef) (d : Dict) : Op → Dict × Res
  | .add w p => let r := decoderAddWord m d w p; (r.1, .id r.2)
  | .dadd w p => let r := dictAddWord d w p; (r.1, .id r.2)
  | .lookup w => (d, .phones (decoderLookup m d w))
  | .wid w => (d, .id (d.wordid w))

def run (m : Mdef) (d : Dict) : List Op → Dict × List Res
  | [] => (d, [])
  | op :: ops =>
    let r := step m d op
    let r' := run m r.1 ops
    (r'.1, r.2 :: r'.2)

/-! ## the lazily filled word-boundary tables (`dict2pid_add_word`)

Only *which* table rows are filled is modelled (the senone-sequence ids come from
`bin_mdef_phone_id_nearest`, an opaque function of the acoustic model; the harness compares the
filled rows with it directly). -/

structure D2P where
  /-- `(b, r)` with `ldiph_lc[b][r][*]` filled -/
  ldiph : List (Nat × Nat)
  /-- `(b, l)` with `rssid[b][l].n_ssid > 0` -/
  rdiph : List (Nat × Nat)
  /-- `b` with `lrdiph_rc[b][*][*]` filled -/
  single : List Nat
deriving Repr

/-- rows needed to enter/leave a word with pronunciation `p` (fsg_lextree.c, ps_alignment.c) -/
def D2P.covers (t : D2P) (p : List Nat) : Bool :=
  match p with
  | [] => true
  | [b] => t.single.contains b
  | b :: r :: _ =>
    t.ldiph.contains (b, r) && t.rdiph.contains (p.getD (p.length - 1) 0, p.getD (p.length - 2) 0)

/-- `dict2pid_add_word` (dict2pid.c:286-352) for a word with pronunciation `p`; `populate_lrdiph`
also fills `ldiph_lc[b][sil][*]` -/
def D2P.addPron (sil : Nat) (t : D2P) (p : List Nat) : D2P :=
  match p with
  | [] => t
  | [b] => if t.single.contains b then t else { t with single := b :: t.single, ldiph := (b, sil) :: t.ldiph }
  | b :: r :: _ =>
    let e := p.getD (p.length - 1) 0
    let l := p.getD (p.length - 2) 0
    let t1 := if t.ldiph.contains (b, r) then t else { t with ldiph := (b, r) :: t.ldiph }
    if t1.rdiph.contains (e, l) then t1 else { t1 with rdiph := (e, l) :: t1.rdiph }

/-- `dict2pid_build`: every word of the dictionary -/
def D2P.build (sil : Nat) (d : Dict) : D2P :=
  d.words.foldl (fun t e => D2P.addPron sil t e.pron) { ldiph := [], rdiph := [], single := [] }

/-- `decoder_add_word` on the pair (dictionary, boundary tables) -/
def decoderAddWord2 (m : Mdef) (s : Dict × D2P) (word phones : Key) : (Dict × D2P) × Option Nat :=
  let r := decoderAddWord m s.1 word phones
  match r.2 with
  | none => ((r.1, s.2), none)
  | some i => ((r.1, D2P.addPron m.sil s.2 ((r.1.words[i]?).map (·.pron) |>.getD [])), some i)

end SSVerif.Dict
