import SSVerif.Model.Hist
/-!
# M-HypBuf — the byte buffer `fsg_search_hyp` assembles (src/fsg_search.c 985–1034)

`Model/Hist.lean` knows the hypothesis as a LIST of words (`hypWords`).  The C code turns that list into
one C string with two passes over the back-pointer chain (visited from the LAST word of the utterance to
the FIRST; `wid < 0` and filler entries skipped — that filter is `hypWords`):

```
len = 0;  while (bp > 0) { …; len += strlen(baseword) + 1; }                      // pass 1
ckd_free(search->hyp_str);
if (len == 0) { search->hyp_str = NULL; return NULL; }
search->hyp_str = ckd_calloc(1, len);                                              // zero-filled, len bytes
c = search->hyp_str + len - 1;
while (bp > 0) { …; len = strlen(baseword); c -= len; memcpy(c, baseword, len);   // pass 2, from the back
                 if (c > search->hyp_str) { --c; *c = ' '; } }
return search->hyp_str;
```

The model works on a positional memory (`List UInt8`, the freshly allocated block) with the pointer `c`
kept as its offset from `hyp_str`.  EVERY store is bounds-checked and an out-of-bounds store, or a `c -= len`
that would move `c` below `hyp_str`, is a distinct failure outcome (never a totalised default); every store
is also logged, so that "each byte written exactly once" can be stated.  `size_t` arithmetic is modelled
in `Nat` (the sum of the word lengths of one utterance cannot approach 2^64: the words are in memory).

Core-only.
-/
namespace SSVerif.HypBuf

abbrev Bytes := List UInt8

/-- pass 1: `len += strlen(baseword) + 1` over the words in visiting order, starting from `acc` -/
def lenPass : List Bytes → Nat → Nat
  | [], acc => acc
  | w :: rest, acc => lenPass rest (acc + (w.length + 1))

/-- failure outcomes of pass 2 -/
inductive Fail where
  /-- a store to offset `idx` of a block of `size` bytes with `idx ≥ size` -/
  | oob (idx size : Nat)
  /-- `c -= len` with `len > c`: the pointer would leave the block downwards -/
  | underflow (c len : Nat)
deriving Repr, DecidableEq

/-- state of pass 2: the block, the offset of `c`, the offsets stored to (most recent first) -/
structure St where
  buf : Bytes
  c : Nat
  log : List Nat
deriving Repr, DecidableEq

/-- one byte store `hyp_str[i] = b`, bounds-checked and logged -/
def store (buf : Bytes) (log : List Nat) (i : Nat) (b : UInt8) : Except Fail (Bytes × List Nat) :=
  if i < buf.length then .ok (buf.set i b, i :: log) else .error (.oob i buf.length)

/-- `memcpy(hyp_str + i, w, strlen(w))` as byte stores at ascending offsets -/
def memcpy : Bytes → List Nat → Nat → Bytes → Except Fail (Bytes × List Nat)
  | buf, log, _, [] => .ok (buf, log)
  | buf, log, i, b :: bs =>
    match store buf log i b with
    | .error e => .error e
    | .ok (buf', log') => memcpy buf' log' (i + 1) bs

/-- pass 2 over the words in visiting order (last word of the utterance first) -/
def fill : List Bytes → St → Except Fail St
  | [], s => .ok s
  | w :: rest, s =>
    if w.length > s.c then .error (.underflow s.c w.length) else
    let c1 := s.c - w.length                                     -- c -= len
    match memcpy s.buf s.log c1 w with                           -- memcpy(c, baseword, len)
    | .error e => .error e
    | .ok (buf1, log1) =>
      if c1 > 0 then                                             -- if (c > search->hyp_str)
        match store buf1 log1 (c1 - 1) 0x20 with                 --   { --c; *c = ' '; }
        | .error e => .error e
        | .ok (buf2, log2) => fill rest ⟨buf2, c1 - 1, log2⟩
      else fill rest ⟨buf1, c1, log1⟩

/-- what `fsg_search_hyp` leaves in `search->hyp_str` -/
inductive Res where
  /-- `len == 0`: `hyp_str = NULL` is returned -/
  | null
  /-- pass 2 failed (out-of-bounds store / pointer below the block) -/
  | fail (e : Fail)
  /-- a block of `len` bytes (`ckd_calloc(1, len)`), its contents on return, the final offset of `c`,
  the offsets stored to (most recent first) -/
  | ok (len : Nat) (buf : Bytes) (c : Nat) (log : List Nat)
deriving Repr, DecidableEq

/-- `fsg_search_hyp` from l.985 on; `ws` = base-form strings of the non-filler words of the backtrace in
VISITING order (last word of the utterance first) -/
def hypBuf (ws : List Bytes) : Res :=
  let len := lenPass ws 0
  if len = 0 then .null else
  match fill ws ⟨List.replicate len 0, len - 1, []⟩ with
  | .error e => .fail e
  | .ok s => .ok len s.buf s.c s.log

/-- the C string stored in a block: the bytes before the first NUL -/
def cstr (buf : Bytes) : Bytes := buf.takeWhile (· != 0)

/-- no word contains a NUL byte (they are C strings) -/
def NoNul (ws : List Bytes) : Prop := ∀ w ∈ ws, ∀ b ∈ w, b ≠ (0 : UInt8)

instance (ws : List Bytes) : Decidable (NoNul ws) := by unfold NoNul; infer_instance

/-- specification: the words joined by single spaces (no leading/trailing space) -/
def join1 : List Bytes → Bytes
  | [] => []
  | [w] => w
  | w :: w2 :: rest => w ++ 0x20 :: join1 (w2 :: rest)

open SSVerif.Hist

/-- the loop both passes of `fsg_search_hyp` run, in the C code's own order (from the exit entry along `pred`):
`while (bp > 0) { e = entry(bp); bp = e.pred; if (wid < 0 || is_filler(wid)) continue; … baseword … }` — the base-form
strings in VISITING order.  `fuel` bounds the walk as in `chainGo`. -/
def visitGo {β : Type} (base : Nat → β) (g : Fsg) (h : Hist) : Nat → Int → List β
  | 0, _ => []
  | f + 1, bp =>
    if bp > 0 then
      let e := ent h bp.toNat
      let l := linkOf g e
      if l.wid < 0 ∨ g.isFiller l.wid then visitGo base g h f e.pred
      else base l.wid.toNat :: visitGo base g h f e.pred
    else []

def visitWords {β : Type} (base : Nat → β) (g : Fsg) (h : Hist) (bp : Int) : List β := visitGo base g h h.size bp

/-- `fsg_search_hyp` with bestpath compiled out (`__FSG_ALLOW_BESTPATH__ = 0`): what is returned / left in
`search->hyp_str`, and `*out_score`.  `baseStr wid` = `dict_basestr(dict, dict_wordid(dict, fsg_model_word_str(fsg, wid)))`.
`bpidx ≤ 0`: `NULL` (l.964); otherwise both passes walk the back-pointer chain from the exit (`visitWords`, the C loop
itself: last word of the utterance first) and pass 1 decides `len == 0`. -/
def hypRet (baseStr : Nat → Bytes) (g : Fsg) (h : Hist) (cur : Int) (final : Bool) : Res × Int :=
  let x := findExit g h cur cur final
  if x.bp ≤ 0 then (.null, x.score) else
  (hypBuf (visitWords baseStr g h x.bp), x.score)

end SSVerif.HypBuf
