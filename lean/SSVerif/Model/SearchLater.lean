import SSVerif.Model.Search
/-! # M10, round 3: the decidable invariant "a token spends at least one frame in an HMM before it leaves it"

Definitions only (core Lean; the C01 driver evaluates `laterInvB` on every state dumped from the real search);
the proofs — the invariant holds in every reachable state of the modelled search over 3- or 5-state HMMs — are in
`Proofs/SearchStepLater.lean`, the property theorems in `Props/C01Later.lean`. -/
namespace SSVerif.Search
open SSVerif.Hist

namespace Later

/-- live inner states and a live exit of pnode `p`'s HMM point to entries at least two frames old -/
def HmmLater (lt : LexTree) (s : SState) (p : Nat) : Prop :=
  (∀ j, j < lt.nst → 0 < j → live ((s.hmm p).sc j) → (ent s.hist ((s.hmm p).hi j).toNat).frame + 2 ≤ s.frame) ∧
  (live (s.hmm p).outScore → (ent s.hist (s.hmm p).outHist.toNat).frame + 2 ≤ s.frame)

instance (lt : LexTree) (s : SState) (p : Nat) : Decidable (HmmLater lt s p) := by unfold HmmLater; infer_instance

/-- every word entry was recorded at least two frames after its predecessor -/
def WordDur (g : Fsg) (h : Hist) : Prop :=
  ∀ i, i < h.size → 0 < i → ∀ lid, (ent h i).link = some lid → ¬ (g.link lid).wid < 0 →
    (ent h (ent h i).pred.toNat).frame + 2 ≤ (ent h i).frame

/-- decidable form of `WordDur` -/
def wordDurB (g : Fsg) (h : Hist) : Bool :=
  (List.range h.size).all fun i => i == 0 ||
    match (ent h i).link with
    | none => true
    | some lid => decide ((g.link lid).wid < 0) || decide ((ent h (ent h i).pred.toNat).frame + 2 ≤ (ent h i).frame)

/-- no entry below frame −1 -/
def FramesGe (h : Hist) : Prop := ∀ i, i < h.size → -1 ≤ (ent h i).frame

instance (h : Hist) : Decidable (FramesGe h) := by unfold FramesGe; infer_instance

/-- the invariant this file adds to `SearchInv` -/
structure LaterInv (lt : LexTree) (g : Fsg) (s : SState) : Prop where
  dur : WordDur g s.hist
  ge : FramesGe s.hist
  hmms : ∀ p, p < lt.nodes.size → HmmLater lt s p

def laterInvB (lt : LexTree) (g : Fsg) (s : SState) : Bool :=
  wordDurB g s.hist && decide (FramesGe s.hist) && decide (∀ p, p < lt.nodes.size → HmmLater lt s p)

end Later

/-! ### the score guard of a word exit (`fsg_search_hmm_prune_prop`)

`fsg_search_pnode_exit` is called for a leaf whose `hmm_out_score(hmm) >= fsgs->bestscore + fsgs->wbeam`
(fsg_search.c:513, 535), `fsgs->bestscore` being the maximum of the values `hmm_vit_eval` returned in this frame
(`fsg_search_hmm_eval`, 343-373, starting from `WORST_SCORE`).  `evalBest3` is the value `hmm_vit_eval_3st_lr`
returns (its local `bestScore`, hmm.c:494-566) over the exact mirror `evalHist3`. -/

open SSVerif.Generated.Search (worstScore) in
/-- the value `hmm_vit_eval_3st_lr` returns: `bestScore` starts at `WORST_SCORE`, becomes the new exit score if the
exit block runs (`s1 > WORST_SCORE`), then the maximum with the new scores of the states 2, 1, 0 -/
def evalBest3 (tp : List Nat) (e : Nat → Int) (h : Hmm) : Int :=
  let m := evalHist3 tp e h
  let b0 := if h.sc 1 + e 1 > worstScore then m.outScore else worstScore
  let b1 := if m.sc 2 > b0 then m.sc 2 else b0
  let b2 := if m.sc 1 > b1 then m.sc 1 else b1
  if m.sc 0 > b2 then m.sc 0 else b2

open SSVerif.Generated.Search (worstScore) in
/-- `fsgs->bestscore` after `fsg_search_hmm_eval`: maximum of the returned values, starting from `WORST_SCORE` -/
def frameBest (bs : List Int) : Int := bs.foldl (fun b x => if x > b then x else b) worstScore

/-- the guard `hmm_out_score(hmm) >= fsgs->bestscore + fsgs->wbeam` -/
def Fires (best wbeam out : Int) : Prop := best + wbeam ≤ out

open SSVerif.Generated.Search (worstScore) in
/-- the word threshold of the frame lies above `WORST_SCORE` -/
def ThreshLive (best wbeam : Int) : Prop := worstScore < best + wbeam

instance (best wbeam out : Int) : Decidable (Fires best wbeam out) := by unfold Fires; infer_instance
instance (best wbeam : Int) : Decidable (ThreshLive best wbeam) := by unfold ThreshLive; infer_instance

end SSVerif.Search
