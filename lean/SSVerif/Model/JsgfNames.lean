import SSVerif.Model.JsgfText
/-!
# JSGF: the strings under which rules are entered in the symbol table (C05)

The rule tables of `Model/Jsgf.lean` are keyed by the abstract names `RName.user i` /
`RName.gen k`; the C code keys `jsgf->rules` (a hash table) by *strings*: the qualified name of a
user rule (`jsgf_fullname`, `fullDef` in `Model/JsgfText.lean`) and, for the internal rules of
groups, optionals and Kleene closures,

    name = ckd_malloc(strlen(jsgf->name) + 16);
    sprintf(name, "<%s.g%05d>", jsgf->name, hash_table_inuse(jsgf->rules));     (jsgf.c:663-665)

and `hash_table_enter` hands back the FIRST rule when a key is entered twice (jsgf.c:680-688).
The abstraction `RName → string` therefore has to be injective on the names of a table; this file
models the string side (buffer as large as the name needs: `strlen + 16` bytes hold `<`, the
name, `.g`, up to 11 characters of `%05d` of an `int`, `>` and the NUL), `Props/C05Names.lean`
proves injectivity for EVERY grammar name and counter.  Core Lean only.
-/
namespace SSVerif.JsgfNames
open SSVerif.Jsgf SSVerif.JsgfText

/-- `%05d` of a non-negative `int`: decimal digits, padded on the left with `0` to width 5 -/
def fmt05 (k : Nat) : List Char :=
  List.replicate (5 - (natDigits k).length) '0' ++ natDigits k

/-- `"<%s.g"` -/
def genPrefix (gname : List Char) : List Char := '<' :: (gname ++ ['.', 'g'])

/-- `sprintf(name, "<%s.g%05d>", jsgf->name, k)` into a buffer that holds the whole name -/
def genName (gname : List Char) (k : Nat) : List Char := genPrefix gname ++ (fmt05 k ++ ['>'])

/-- the same formatting through `snprintf` into a buffer of `size` bytes (one is the NUL): what a
fixed-size buffer would give.  Not what the code does; used to show that the theorems of
`Props/C05Names.lean` need the whole name. -/
def genNameBuf (size : Nat) (gname : List Char) (k : Nat) : List Char := (genName gname k).take (size - 1)

/-- decidable shape test: `<gname.g` + at least five decimal digits + `>` (`%05d` never gives fewer;
`<g.g>` and `<g.g12>` are ordinary user names) -/
def looksGenerated (gname s : List Char) : Bool :=
  (genPrefix gname).isPrefixOf s &&
  match (s.drop (genPrefix gname).length).reverse with
  | '>' :: ds => ds.all isDigit && decide (5 ≤ ds.length)
  | _ => false

/-- the key of rule `r` in `jsgf->rules`: interned full name of a user rule, formatted name of an
internal rule -/
def ruleString (gname : List Char) (N : Names) : RName → List Char
  | .user i => N.rules.getD i []
  | .gen k => genName gname k

/-- `r` is a name of the interned table / any internal name -/
def RNameIn (N : Names) : RName → Prop
  | .user i => i < N.rules.length
  | .gen _ => True

/-- the two side conditions on the user names of a parsed text, evaluated by the driver on every text
(`tparse … K=`): interning made the full names pairwise different, and none of them has the shape of an
internal name of this grammar (DESIGN: "names gNNNNN are outside the quantifier") -/
def userNamesOK (gname : List Char) (N : Names) : Bool :=
  decide N.rules.Nodup && N.rules.all fun s => !looksGenerated gname s

end SSVerif.JsgfNames

/-! ## `jsgf_read_string`: which rule is compiled (jsgf.c:636-650) -/
namespace SSVerif.JsgfNames
open SSVerif.Jsgf

/-- the rule `jsgf_read_string` compiles: the first public rule in the order in which
`jsgf_rule_iter` walks the hash table (`ord`; the order is a property of the hash function and of
the strings, it is observed by the harness — the table dump walks the same iterator — and not
modelled); `none` = "No public rules found" -/
def readTop (T : Table) (ord : List RName) : Option RName :=
  ord.find? fun r => match T.find r with
    | some rl => rl.pub
    | none => false

/-- `jsgf_read_string` up to the hand-over to `fsg_model`: `none` = NULL -/
def readString (T : Table) (ord : List RName) : Option XSt := (readTop T ord).bind (buildRaw T)

end SSVerif.JsgfNames
