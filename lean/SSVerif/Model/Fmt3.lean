import SSVerif.Model.JsonParse
/-!
# `%.3f` of an IEEE-754 double, exactly (what `snprintf` of glibc prints for the arguments of `HYP_FORMAT`)

A finite double is a dyadic rational `(-1)^neg · m · 2^e` (`m < 2^53`, `-1074 ≤ e ≤ 971`).  glibc's `printf`
converts the *exact* binary value (multi-precision), rounds it to the requested number of decimals in the current
rounding mode — round-to-nearest, ties to even, decided on the exact value — prints every integer digit (never an
exponent form for `%f`), a `-` whenever the sign bit is set (so `-0.0` and `-0.0001` print as `-0.000`), and
`inf`/`-inf`/`nan`/`-nan` for the non-finite patterns.  That is a total computable function on bit patterns; this
file defines it (`fmtBits`), the length `snprintf(NULL, 0, "%.3f", x)` returns for it (`lenBits`, a counting loop that
never builds the text) and the reader `readMilli` that gives a rendered text its value in thousandths.

The C code never passes anything but `double`s to `%.3f` (`format_entry`, src/decoder.c): the `start` parameter,
`utt_start + (double)f / frate`, `(double)n / frate` and `logmath_exp(lmath, logp)`.

Core Lean only.
-/
namespace SSVerif.Fmt3
open SSVerif.Json (isDigit)

abbrev Bytes := List UInt8

/-! ## the value -/

/-- `1000·|x|` for `|x| = m·2^e`, as a fraction `(numerator, denominator)`; the denominator is a power of two -/
def scaled (m : Nat) (e : Int) : Nat × Nat :=
  match e with
  | .ofNat k => (1000 * m * 2 ^ k, 1)
  | .negSucc k => (1000 * m, 2 ^ (k + 1))

/-- `num/den` rounded to the nearest integer, ties to even -/
def rne (num den : Nat) : Nat :=
  let q := num / den
  let r := num % den
  if 2 * r < den then q else if den < 2 * r then q + 1 else if q % 2 = 0 then q else q + 1

/-- the number of thousandths `%.3f` prints for `m·2^e` -/
def milli (m : Nat) (e : Int) : Nat := rne (scaled m e).1 (scaled m e).2

/-! ## decimal digits -/

def digit (d : Nat) : UInt8 := UInt8.ofNat (48 + d)

/-- decimal digits of `n`, most significant first, no leading zero (`0` is `"0"`); the first argument is fuel -/
def decF : Nat → Nat → Bytes
  | 0, n => [digit (n % 10)]
  | f + 1, n => if n < 10 then [digit n] else decF f (n / 10) ++ [digit (n % 10)]

def dec (n : Nat) : Bytes := decF n n

/-- how many digits `dec n` has, by counting divisions -/
def ndigF : Nat → Nat → Nat
  | 0, _ => 1
  | f + 1, n => if n < 10 then 1 else ndigF f (n / 10) + 1

def ndig (n : Nat) : Nat := ndigF n n

/-- exactly three digits of `k < 1000` -/
def pad3 (k : Nat) : Bytes := [digit (k / 100 % 10), digit (k / 10 % 10), digit (k % 10)]

/-! ## the rendering of a finite double -/

/-- `%.3f` of `(-1)^neg · m · 2^e`: sign (also for negative zero and for negative values that round to zero),
all integer digits, `.`, three decimals -/
def fmt3 (neg : Bool) (m : Nat) (e : Int) : Bytes :=
  (if neg then [45] else []) ++ (dec (milli m e / 1000) ++ 46 :: pad3 (milli m e % 1000))

/-- what `snprintf(NULL, 0, "%.3f", x)` returns: computed by counting, without building the text -/
def fmt3Len (neg : Bool) (m : Nat) (e : Int) : Nat :=
  (if neg then 1 else 0) + ndig (milli m e / 1000) + 4

/-! ## bit patterns -/

/-- a double's bit pattern (as a number below `2^64`; higher bits are ignored) decoded to `(sign, m, e)`;
`none` for infinities and NaNs -/
def ofBits (b : Nat) : Option (Bool × Nat × Int) :=
  let sign := b / 2 ^ 63 % 2 = 1
  let ex : Nat := b / 2 ^ 52 % 2048
  let frac : Nat := b % 2 ^ 52
  if ex = 2047 then none
  else if ex = 0 then some (decide sign, frac, -1074)
  else some (decide sign, 2 ^ 52 + frac, (ex : Int) - 1075)

def isFiniteBits (b : Nat) : Bool := (ofBits b).isSome

/-- `%.3f` of the double with bit pattern `b`, for every pattern -/
def fmtBits (b : Nat) : Bytes :=
  match ofBits b with
  | some (neg, m, e) => fmt3 neg m e
  | none =>
    (if b / 2 ^ 63 % 2 = 1 then [45] else []) ++
      (if b % 2 ^ 52 = 0 then [105, 110, 102] else [110, 97, 110])      -- inf / nan

/-- the dry run's count for the same argument -/
def lenBits (b : Nat) : Nat :=
  match ofBits b with
  | some (neg, m, e) => fmt3Len neg m e
  | none => (if b / 2 ^ 63 % 2 = 1 then 1 else 0) + 3

/-! ## reading a rendering back -/

/-- value of a digit string -/
def decVal : Bytes → Nat
  | l => l.foldl (fun acc c => 10 * acc + (c.toNat - 48)) 0

/-- `-?digits.ddd` read back: the sign and the value in thousandths; `none` for anything else -/
def readMilli (s : Bytes) : Option (Bool × Nat) :=
  let neg := s.head? == some 45
  let t := if neg then s.tail else s
  let ip := t.takeWhile isDigit
  match t.dropWhile isDigit with
  | [46, a, b, c] =>
    if !ip.isEmpty && isDigit a && isDigit b && isDigit c then some (neg, decVal ip * 1000 + decVal [a, b, c]) else none
  | _ => none

/-! ## exact comparison of dyadic values (for the monotonicity statement) -/

/-- `|x| = num/den` -/
def absFrac (m : Nat) (e : Int) : Nat × Nat :=
  match e with
  | .ofNat k => (m * 2 ^ k, 1)
  | .negSucc k => (m, 2 ^ (k + 1))

/-- `x ≤ y` for `x = (-1)^n₁ m₁ 2^e₁`, `y = (-1)^n₂ m₂ 2^e₂`, by cross-multiplication (`-0 ≤ +0` and `+0 ≤ -0`) -/
def dle (x y : Bool × Nat × Int) : Prop :=
  let a := absFrac x.2.1 x.2.2
  let b := absFrac y.2.1 y.2.2
  match x.1, y.1 with
  | false, false => a.1 * b.2 ≤ b.1 * a.2
  | true, true => b.1 * a.2 ≤ a.1 * b.2
  | true, false => True
  | false, true => a.1 = 0 ∧ b.1 = 0

/-- the value of the rendering, in thousandths, as an integer -/
def smilli (x : Bool × Nat × Int) : Int :=
  if x.1 then -(milli x.2.1 x.2.2 : Int) else (milli x.2.1 x.2.2 : Int)

end SSVerif.Fmt3
